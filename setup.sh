#!/bin/bash
# Builds the Lean model, specs, proofs, driver and audit tool, offline.
set -e
HERE="$(cd "$(dirname "${BASH_SOURCE[0]}")" && pwd)"
export PATH="/opt/veriftools/lean/bin:$PATH"
REPO="${CFI_REPO:-/repo}"
PY=/venv/bin/python; [ -x "$PY" ] || PY=python3
PYTHONPATH="$REPO" "$PY" "$HERE/harness/gen_constants.py" || cp "$HERE/lean/generated_default/Generated.lean" "$HERE/lean/Cfi/Generated.lean"
cd "$HERE/lean"
lake build driver audit
lake build
echo "setup ok"
