import Cfi.Version
/-!
C19 — version selection picks the latest declared version not after the request.
-/
namespace Spec.C19
open Cfi.Version

/-- the greatest declared key `≤ v` (declarative: no sorting) -/
def isGreatestBelow (keys : List Key) (v k : Key) : Prop :=
  k ∈ keys ∧ k ≤ v ∧ ∀ k' ∈ keys, k' ≤ v → k' ≤ k

/-- executable form: maximum by a fold over the keys in ANY order -/
def greatestBelow (keys : List Key) (v : Key) : Option Key :=
  keys.foldl (fun best k =>
    if leKey k v then
      match best with
      | none => some k
      | some b => if leKey b k then some k else some b
    else best) none

/-- expected active list after a sequence of selections on class `c`, starting
from `init`: the list declared for the greatest key `≤ v` of the LAST selection
that has one; unchanged by selections with no key below them -/
def expectedActive (tbl : Table) (init : Option Nat) (vs : List Key) : Option Nat :=
  vs.foldl (fun cur v =>
    match greatestBelow (tbl.map (·.1)) v with
    | some k => (tbl.get k).orElse fun _ => cur
    | none => cur) init

structure Obs where
  /-- active list id of the selected class after each selection -/
  activeAfter : List (Option Nat)
  /-- active list ids of the parent and of the sibling after all selections -/
  parentActive : Option Nat
  siblingActive : Option Nat
  deriving DecidableEq, Repr

def holds (tbl : Table) (init parentInit siblingInit : Option Nat) (vs : List Key) (o : Obs) : Bool :=
  o.activeAfter == (List.range vs.length).map (fun i => expectedActive tbl init (vs.take (i + 1))) &&
  o.parentActive == parentInit && o.siblingActive == siblingInit

end Spec.C19
