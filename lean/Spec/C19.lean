import Cfi.Version
/-!
C19 — version selection picks the latest declared version not after the request.
-/
namespace Spec.C19
open Cfi.Version

/-- the greatest declared key `≤ v` (declarative: no sorting) -/
def isGreatestBelow (keys : List Key) (v k : Key) : Prop :=
  k ∈ keys ∧ k ≤ v ∧ ∀ k' ∈ keys, k' ≤ v → k' ≤ k

/-- executable form: maximum by a fold over the keys in ANY order -/
def greatestBelow (keys : List Key) (v : Key) : Option Key :=
  keys.foldl (fun best k =>
    if leKey k v then
      match best with
      | none => some k
      | some b => if leKey b k then some k else some b
    else best) none

/-- expected active list after a sequence of selections on class `c`, starting
from `init`: the list declared for the greatest key `≤ v` of the LAST selection
that has one; unchanged by selections with no key below them -/
def expectedActive (tbl : Table) (init : Option Nat) (vs : List Key) : Option Nat :=
  vs.foldl (fun cur v =>
    match greatestBelow (tbl.map (·.1)) v with
    | some k => (tbl.get k).orElse fun _ => cur
    | none => cur) init

structure Obs where
  /-- active list id of the selected class after each selection -/
  activeAfter : List (Option Nat)
  /-- active list ids of the parent and of the sibling after all selections -/
  parentActive : Option Nat
  siblingActive : Option Nat
  deriving DecidableEq, Repr

def holds (tbl : Table) (init parentInit siblingInit : Option Nat) (vs : List Key) (o : Obs) : Bool :=
  o.activeAfter == (List.range vs.length).map (fun i => expectedActive tbl init (vs.take (i + 1))) &&
  o.parentActive == parentInit && o.siblingActive == siblingInit

/-! ### histories over a class hierarchy -/

/-- one selection, stated with the order-free maximum -/
def specSelect (cs : Classes) (fuel c : Nat) (v : Key) : Classes :=
  let tbl := cs.versions fuel c
  match greatestBelow (tbl.map (·.1)) v with
  | none => cs
  | some k =>
    match tbl.get k with
    | some lst => { cs with ownActive := fun x => if x = c then some lst else cs.ownActive x }
    | none => cs

/-- the active lists of the observed classes after each selection of a history
`[(class, version)…]` -/
def specTrace (sel : Classes → Nat → Nat → Key → Classes) (fuel : Nat) (watch : List Nat) :
    Classes → List (Nat × Key) → List (List (Option Nat))
  | _, [] => []
  | cs, (c, v) :: ops =>
    let cs' := sel cs fuel c v
    watch.map (cs'.active fuel) :: specTrace sel fuel watch cs' ops

def holdsTrace (cs : Classes) (fuel : Nat) (watch : List Nat) (ops : List (Nat × Key))
    (obs : List (List (Option Nat))) : Bool :=
  obs == specTrace specSelect fuel watch cs ops

/-- what an observer who looks at the CONTENT of the active list sees: a declared list that is
empty (`emptyId`) cannot be told from the framework's own empty default -/
def content (emptyId : Option Nat) (a : Option Nat) : Option Nat :=
  if a.isSome && a == emptyId then none else a

def contentTrace (emptyId : Option Nat) (t : List (List (Option Nat))) : List (List (Option Nat)) :=
  t.map fun r => r.map (content emptyId)

/-- the statement for content observations -/
def holdsTraceContent (emptyId : Option Nat) (cs : Classes) (fuel : Nat) (watch : List Nat)
    (ops : List (Nat × Key)) (obs : List (List (Option Nat))) : Bool :=
  obs == contentTrace emptyId (specTrace specSelect fuel watch cs ops)

/-! ### programs that also change the tables -/

/-- the active lists of the observed classes after each step of a program of selections, table
assignments, table edits and list assignments; a selection reads the tables as they are then -/
def progTrace (sel : Classes → Nat → Nat → Key → Classes) (fuel : Nat) (watch : List Nat) :
    Classes → List Op → List (List (Option Nat))
  | _, [] => []
  | cs, op :: ops =>
    let cs' := step sel cs fuel op
    watch.map (cs'.active fuel) :: progTrace sel fuel watch cs' ops

/-- the statement for programs, for an observer of list contents -/
def holdsProg (emptyId : Option Nat) (cs : Classes) (fuel : Nat) (watch : List Nat)
    (ops : List Op) (obs : List (List (Option Nat))) : Bool :=
  obs == contentTrace emptyId (progTrace specSelect fuel watch cs ops)

end Spec.C19
