import Cfi.IOModel
/-!
C16 — path and in-memory I/O are equivalent and honour the declared encoding.
C17 — faults propagate, handles are released, partial output is a clean prefix.
-/
namespace Spec.C17
open Cfi.IOModel

/-- what the harness observes of one faulting / non-faulting call -/
structure Obs where
  raisedAt : Option Nat            -- index of the element whose exception reached the caller (identity)
  frameworkHandlesOpen : Nat       -- handles returned by `open()` during the call that are not closed
  callerBufferClosed : Bool
  callerBufferAtEnd : Bool         -- `tell()` == length of what was written
  outputIsPrefix : Bool            -- output == concatenation of the elements before the failing one
  deriving DecidableEq, Repr

/-- the statement, for a call whose first failing element is `k` (`none` = no fault) -/
def holds (k : Option Nat) (o : Obs) : Bool :=
  o.raisedAt == k && o.frameworkHandlesOpen == 0 && !o.callerBufferClosed && o.callerBufferAtEnd && o.outputIsPrefix

end Spec.C17
