import Cfi.Files
import Spec.C01
import Spec.C04
/-!
C05 — register file data round trip: `read(write(D)) = D`.
C06 — read-then-write is a projection; unrecognised lines survive verbatim.
-/
namespace Spec.C05
open Cfi Cfi.Text

def firstDataStart (r : RegDef) : Nat :=
  r.fields.foldl (fun m f => min m f.start) (r.fields.foldl (fun m f => max m f.stop) r.digits)

/-- the identifier columns as they are written: the identifier left-justified in
`digits` columns, cut by nothing, followed by blanks up to the first data field -/
def identColumns (r : RegDef) : List Char := ljust r.ident (max r.digits (firstDataStart r)) ' '

/-- Unambiguous identifiers (DESIGN B.5): each identifier fits its window; data
fields start at or after the window; an earlier register's window never sees a
later register's data; no earlier identifier occurs in what a later register
writes into the earlier one's window; only the last register may have an empty
identifier. -/
def unambiguous (regs : List RegDef) : Bool :=
  let n := regs.length
  (List.range n).all fun j =>
    match regs[j]? with
    | none => false
    | some rj =>
      decide (rj.ident.length ≤ rj.digits) &&
      rj.fields.all (fun f => decide (rj.digits ≤ f.start)) &&
      Spec.C02.disjoint rj.fields &&
      (rj.ident != [] || j + 1 == n) &&
      !(isStripWs (rj.ident.headD 'x')) && !rj.ident.contains '\n' &&
      (List.range j).all fun i =>
        match regs[i]? with
        | none => false
        | some ri =>
          decide (ri.digits ≤ firstDataStart rj) &&
          !(isInfix ri.ident ((identColumns rj).take ri.digits))

/-- canonical, fitting data of a typed register: the value list has one value
per field, every value is in C01's domain and is its own canonical form (what
the written text reads back to), and at least one value is not None. -/
def typedOk (r : RegDef) (data : List Val) : Bool :=
  data.length == r.fields.length &&
  (r.fields.zip data).all (fun (f, v) => Spec.C01.fieldInDomain f v) &&
  data.any (fun v => v != Val.none) &&
  match writePos r.fields data with
  | .ok w => readPos r.fields w == data &&
      -- a register is one line: no rendering contains a newline (only a date
      -- format with a newline in it could produce one)
      !(w.dropLast.contains '\n')
  | .error _ => false

/-- a default element: one line that matches no identifier -/
def defaultOk (regs : List RegDef) (l : List Char) (last : Bool) : Bool :=
  !l.isEmpty && classifyText regs l == none &&
  (if last then !(l.dropLast.contains '\n') else l.getLast? == some '\n' && !(l.dropLast.contains '\n'))

def elemsOk (regs : List RegDef) : List RElem → Bool
  | [] => true
  | .typed i data :: rest =>
    (match regs[i]? with
     | some r => typedOk r data
     | none => false) && elemsOk regs rest
  | .dflt (.str l) :: rest => defaultOk regs l rest.isEmpty && elemsOk regs rest
  | .dflt (.bytes _) :: _ => false

def inDomain (regs : List RegDef) (es : List RElem) : Bool :=
  Spec.C04.inDomain regs && regs.all (fun r => r.delimiter == .none) && unambiguous regs && elemsOk regs es

structure Obs where
  written : List Char             -- `File(data).write(StringIO)`
  reread : List RElem             -- `File.read(written).data`
  fileEq : Bool                   -- `File(data) == File.read(written)`
  deriving DecidableEq, Repr

/-- `D` is the register sequence after the placeholder -/
def holds (es : List RElem) (o : Obs) : Bool :=
  o.reread == RElem.placeholder :: es && o.fileEq

/-- all-None registers contribute nothing; falsy values (0, "", 0.0) are data -/
def holdsSkipEmpty (regs : List RegDef) (es : List RElem) (written : List Char) : Bool :=
  match writeRegFileText regs (es.filter fun e => match e with
      | .typed _ data => !RegDef.isEmpty data
      | _ => true) with
  | .ok w => written == w
  | .error _ => false

def cycle (regs : List RegDef) (es : List RElem) : Option Obs :=
  match writeRegFileText regs (RElem.placeholder :: es) with
  | .ok w =>
    match readRegFileText regs w with
    | .ok r => some ⟨w, r, r == RElem.placeholder :: es⟩
    | .error _ => none
  | .error _ => none

end Spec.C05

namespace Spec.C06
open Cfi Cfi.Text

/-- `W(R(x))` on the model -/
def rw (regs : List RegDef) (x : List Char) : Option (List Char) :=
  match readRegFileText regs x with
  | .ok es =>
    match writeRegFileText regs es with
    | .ok y => some y
    | .error _ => none
  | .error _ => none

/-- every parsed value of every typed element fits when re-rendered, is finite and not NaN -/
def representable (regs : List RegDef) (x : List Char) : Bool :=
  match readRegFileText regs x with
  | .ok es =>
    es.all fun e =>
      match e with
      | .typed i data =>
        (match regs[i]? with
         | some r =>
           (r.fields.zip data).all fun (f, v) =>
             (match v with
              | .dbl (.fin _ _ _) => true
              | .dbl _ => false
              | _ => true) &&
             (match renderFull f.kind f.size v with
              | .ok s => decide (s.length ≤ f.size)
              | .error _ => false) &&
             (match f.kind with
              | .flt dec fmt _ => fmt == 'F' || fmt == 'f' || decide (dec ≤ 12)
              | _ => true)
         | none => false)
      | _ => true
  | .error _ => false

def defaultLines (regs : List RegDef) (x : List Char) : List (List Char) :=
  (splitLines x).filter fun l => classifyText regs l == none

def inDomain (regs : List RegDef) (x : List Char) : Bool :=
  Spec.C04.inDomain regs && regs.all (fun r => r.delimiter == .none) && Spec.C05.unambiguous regs &&
  representable regs x

structure Obs where
  y : List Char                  -- text obtained by reading x and writing it back
  y2 : List Char                 -- the same applied to y
  deriving DecidableEq, Repr

def holds (regs : List RegDef) (x : List Char) (o : Obs) : Bool :=
  o.y2 == o.y && defaultLines regs o.y == defaultLines regs x

end Spec.C06
