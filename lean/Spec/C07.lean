import Cfi.Container
/-!
C07 — linked containers stay a faithful ordered list under every history.

`holds l o` is the property's statement about one observation `o` of a
container that is supposed to hold the abstract list `l`.  The same Boolean is
(1) proved of the model's observation after every admissible history
(`Props/C07.lean`) and (2) evaluated by the driver on the observation made on the
real `RegisterData`/`BlockData`/`SectionData` object.
-/
namespace Spec.C07
open Cfi.Container

/-- What the public API shows of a container. -/
structure Obs where
  iter : List Id                                   -- `list(container)`
  len : Nat                                        -- `len(container)`
  first : Id                                       -- `container.first`
  last : Id                                        -- `container.last`
  /-- for every element yielded by iteration: id, `.previous`, `.next`,
  `.is_first`, `.is_last` -/
  links : List (Id × Option Id × Option Id × Bool × Bool)
  back : List Id                                   -- walk of `.previous` from `.last`
  /-- `list(zip(container, container))`: two iterations advanced in lock step -/
  zipped : List (Id × Id)
  /-- `[(a, b) for a in first three of container for b in container]`: an
  iteration started while another one is under way -/
  nested : List (Id × Id)
  deriving Repr, DecidableEq

/-- The observation an ordinary list `l` prescribes. -/
def expected (l : List Id) : Obs :=
  { iter := l
    len := l.length
    first := l.head?.getD 0
    last := l.getLast?.getD 0
    links := l.map fun x =>
      (x, prevIn l x, nextIn l x, (prevIn l x).isNone, (nextIn l x).isNone)
    back := l.reverse
    zipped := l.map fun x => (x, x)
    nested := (l.take 3).flatMap fun a => l.map fun b => (a, b) }

def holds (l : List Id) (o : Obs) : Bool := decide (o = expected l)

/-- The model's observation (what the same API calls return on the model). -/
def observe (s : Heap) (fuel : Nat) : Obs :=
  let it := iter s fuel
  { iter := it
    len := it.length
    first := s.root
    last := s.head
    links := it.map fun x => (x, s.prev x, s.next x, (s.prev x).isNone, (s.next x).isNone)
    back := iterBack s fuel
    -- iterations of the model are values: overlapping ones cannot interfere
    zipped := it.map fun x => (x, x)
    nested := (it.take 3).flatMap fun a => it.map fun b => (a, b) }

end Spec.C07
