import Cfi.Line
import Spec.C02
import Spec.C03
/-!
C01 — positional text write→read round trip is value-preserving and text-stable.

`Obs` is what one write / read / re-write cycle shows; `holds` is the
statement, evaluated on the model's cycle (theorems) and on the
implementation's cycle (run-time oracle).
-/
namespace Spec.C01
open Cfi Cfi.Text Cfi.Date

structure Obs where
  written : List Char          -- `Line(fields).write(values)`
  readBack : List Val          -- `Line(fields).read(written)`
  rewritten : List Char        -- `Line(fields).write(readBack)`
  deriving DecidableEq, Repr

/-- which components a format carries -/
def hasDir (fmt : List Char) (c : Char) : Bool :=
  match parseFmt (fmt.length + 1) fmt with
  | some items => items.any fun | .dir d => d == c | _ => false
  | none => false

/-- a date at the resolution of a format: components the format does not carry
take `strptime`'s defaults (1900-01-01 00:00:00.0); `%y` keeps two digits of
the year around the POSIX pivot. -/
def truncDate (fmt : List Char) (t : DT) : DT :=
  { y := if hasDir fmt 'Y' then t.y
         else if hasDir fmt 'y' then (let n := t.y % 100; if n ≤ 68 then 2000 + n else 1900 + n)
         else 1900
    mo := if hasDir fmt 'm' then t.mo else 1
    d := if hasDir fmt 'd' then t.d else 1
    h := if hasDir fmt 'H' then t.h else 0
    mi := if hasDir fmt 'M' then t.mi else 0
    s := if hasDir fmt 'S' then t.s else 0
    us := if hasDir fmt 'f' then t.us else 0 }

/-- the canonical form of a value, given the text actually emitted in its span -/
def canon (f : Field) (v : Val) (span : List Char) : Val :=
  if v.isNull then (match f.kind with | .lit => .str [] | _ => .none)
  else match f.kind, v with
    | .int, .int n => .int n
    | .lit, .str s => .str (strip s)
    | .date (fmt :: _), .date t => .date (truncDate fmt t)
    | .flt _ _ sep, .dbl _ =>
      -- "the double nearest to the decimal actually emitted"
      match Dbl.pyFloat (replace span sep ['.']) with
      | some d => .dbl d
      | none => .none
    | _, _ => .none

def isAsciiDigit (c : Char) : Bool := '0' ≤ c && c ≤ '9'

/-- split `-?digits[sep digits]` → (negative, integer digits, fraction digits) -/
def splitFixed (t sep : List Char) : Option (Bool × List Char × List Char) :=
  let (neg, t) := match t with | '-' :: r => (true, r) | _ => (false, t)
  let ip := t.takeWhile isAsciiDigit
  let rest := t.dropWhile isAsciiDigit
  if ip.isEmpty then none
  else if rest.isEmpty then some (neg, ip, [])
  else if isPrefix sep rest && !sep.isEmpty then
    let fp := rest.drop sep.length
    if !fp.isEmpty && fp.all isAsciiDigit then some (neg, ip, fp) else none
  else none

/-- a rendered float decomposed as sign, digit string, decimal exponent of the
last digit, and whether it is in E notation with the given letter -/
structure Numeral where
  neg : Bool
  digits : List Char          -- all emitted mantissa digits
  lastExp : Int               -- value = ± digits · 10^lastExp
  nfrac : Nat                 -- decimals emitted after the separator
  expLetter : Option Char
  deriving Repr

def natOfDigits (ds : List Char) : Nat := ds.foldl (fun a c => 10 * a + (c.toNat - 48)) 0

/-- parse the dialect `FloatField` is configured for; `none` = not in the dialect -/
def parseNumeral (t sep : List Char) : Option Numeral :=
  -- E notation?
  match t.span (fun c => c != 'e' && c != 'E') with
  | (mant, []) =>
    (splitFixed mant sep).map fun (neg, ip, fp) =>
      { neg := neg, digits := ip ++ fp, lastExp := -(fp.length : Int), nfrac := fp.length, expLetter := none }
  | (mant, el :: ex) =>
    match splitFixed mant sep, ex with
    | some (neg, ip, fp), sg :: ds =>
      if ip.length == 1 && (sg == '+' || sg == '-') && ds.length ≥ 2 && ds.all isAsciiDigit then
        let e : Int := if sg == '-' then -(natOfDigits ds : Int) else natOfDigits ds
        some { neg := neg, digits := ip ++ fp, lastExp := e - fp.length, nfrac := fp.length, expLetter := some el }
      else none
    | _, _ => none

/-- "in the configured notation and with the configured separator" -/
def dialectOk (dec : Nat) (fmt : Char) (x : Dbl) (n : Numeral) : Bool :=
  let wantE := (fmt == 'E' || fmt == 'e')
  match n.expLetter with
  | none => !wantE && decide (n.nfrac ≤ dec)
  | some l => wantE && l == fmt && (if x.isZero then decide (n.nfrac ≤ dec) else n.nfrac == dec)

/-- `|q − x| ≤ ½·10^lastExp` in exact arithmetic, `q` the emitted numeral -/
def accurate (x : Dbl) (n : Numeral) : Bool :=
  match x with
  | .fin neg m e =>
    let q := natOfDigits n.digits
    -- compare q with m·2^e·10^(-lastExp) = a/b :  2·|q·b − a| ≤ b ; signs must agree unless both round to 0
    let (a, b) := Dbl.frac m e (-n.lastExp)
    let diff : Int := (q * b : Nat) - (a : Int)
    (2 * diff.natAbs ≤ b) && (n.neg == neg || q == 0)
  | _ => false

/-- `|x|·10^D < 2^51`: the double grid is finer than the decimal grid, so the
double rounding `round` + `format` is a single correct rounding (DESIGN B.3a) -/
def precise (x : Dbl) (D : Int) : Bool :=
  match x with
  | .fin _ m e => let (a, b) := Dbl.frac m e D; decide (a < 2 ^ 51 * b)
  | _ => false

/-- the emitted number of decimals is the largest `d ≤ dec` whose rendering fits
(F notation; reference renderer = the model's `round` + `format`) -/
def decimalsMaximal (x : Dbl) (size dec : Nat) (upper : Bool) (emitted : Nat) : Bool :=
  (List.range (dec + 1)).all fun d =>
    d ≤ emitted ||
      match Dbl.pyRound x d with
      | some r => decide (size < (Dbl.fmtF r d upper).length)
      | none => true

def floatClauses (f : Field) (v : Val) (span : List Char) : Bool :=
  match f.kind, v with
  | .flt dec fmt sep, .dbl x =>
    if x.isNaN then true else
    match parseNumeral (strip span) sep with
    | none => false
    | some n =>
      dialectOk dec fmt x n &&
      (if fmt == 'E' || fmt == 'e' then
         (x.isZero || accurate x n)                     -- dec ≤ 12 in the domain ⇒ precise
       else
         ((!precise x dec) || accurate x n) &&
         decimalsMaximal x f.size dec (fmt == 'F') n.nfrac)
  | _, _ => true

def holds (fs : List Field) (vs : List Val) (o : Obs) : Bool :=
  o.rewritten == o.written &&
  o.readBack == (fs.zip vs).map (fun (f, v) => canon f v (slice o.written f.start f.stop)) &&
  (fs.zip vs).all (fun (f, v) => floatClauses f v (slice o.written f.start f.stop))

/-! ### domain -/

def noControl (s : List Char) : Bool := s.all fun c => decide (32 ≤ c.toNat) && c.toNat != 127

def sepOk (sep : List Char) : Bool :=
  match sep with
  | [c] => !(isAsciiDigit c || c == '-' || c == '+' || c == 'e' || c == 'E' || isStripWs c || c == '_'
            || c == 'n' || c == 'a' || c == 'i' || c == 'f' || c == 'N' || c == 'A' || c == 'I' || c == 'F')
  | _ => false

def fieldInDomain (f : Field) (v : Val) : Bool :=
  Spec.C02.fits f v && decide (0 < f.size) &&
  match f.kind, v with
  | .flt dec fmt sep, _ =>
    sepOk sep && (fmt == 'F' || fmt == 'f' || ((fmt == 'E' || fmt == 'e') && decide (dec ≤ 12)))
  | .date fmts, .date t =>
    fmts.all Spec.C03.fmtOk &&
    (match fmts with
     | fmt :: _ => (truncDate fmt t).valid && decide (1000 ≤ (truncDate fmt t).y) &&
        -- format text starts and ends with a non-blank
        !(isStripWs (fmt.headD ' ')) && !(isStripWs (fmt.getLastD ' '))
     | [] => false)
  | .date fmts, _ => !fmts.isEmpty && fmts.all Spec.C03.fmtOk
  | .lit, .str s =>
    -- canonical position: the blank-trimmed text followed by plain blanks only
    noControl s && s == strip s ++ List.replicate (s.length - (strip s).length) ' '
  | _, _ => true

def inDomain (fs : List Field) (vs : List Val) : Bool :=
  fs.length == vs.length && Spec.C02.disjoint fs && (fs.zip vs).all fun (f, v) => fieldInDomain f v

/-- the model's write / read / re-write cycle -/
def cycle (fs : List Field) (vs : List Val) : Option Obs :=
  match writePos fs vs with
  | .ok w =>
    let r := readPos fs w
    match writePos fs r with
    | .ok w2 => some ⟨w, r, w2⟩
    | .error _ => none
  | .error _ => none

end Spec.C01
