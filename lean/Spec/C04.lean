import Cfi.Files
/-!
C04 — register file: every line becomes exactly one element, first matching
type wins.
-/
namespace Spec.C04
open Cfi Cfi.Text

/-- The statement: after the placeholder, one element per input line, in input
order; the element of a line is decided by that line alone (`elemOfLine`: the
first declared register whose identifier occurs in the line's leading window,
with the data its layout reads from the line; otherwise a default register
holding the line verbatim). -/
def expected (regs : List RegDef) (content : List Char) : Except Exc (List RElem) :=
  ((splitLines content).mapM (elemOfLine regs)).map (RElem.placeholder :: ·)

def holds (regs : List RegDef) (content : List Char) (obs : List RElem) : Bool :=
  expected regs content == .ok obs

def identOk (s : List Char) : Bool :=
  s.all fun c => c.isAlphanum || c == ' ' || c == '_' || c == '-'

def regOk (r : RegDef) : Bool :=
  identOk r.ident &&
  (match r.delimiter with
   | .none => true
   | .str d => !d.isEmpty
   | .bytes _ => false) &&
  r.fields.all fun f => f.stop == f.size + f.start &&
    (match f.kind with
     | .date fmts => !fmts.isEmpty && fmts.all fun fm =>
        (match Cfi.Date.parseFmt (fm.length + 1) fm with
         | some items => Cfi.Date.dirsOnce items
         | none => false)
     | .flt _ _ sep => sep.length == 1
     | _ => true)

def inDomain (regs : List RegDef) : Bool := regs.all regOk

end Spec.C04
