import Cfi.Files
/-!
C12 — block files: begin-pattern dispatch, full accounting, verbatim round trip.
C13 — section files: declared order, stream hand-off, leftovers kept verbatim.
C18 — reading terminates: every step consumes input.
-/
namespace Spec.C12
open Cfi

structure Obs (α : Type) where
  elems : List (BElem α)          -- `BlockFile.read(x).data`: class and stored raw data of each element
  written : List α                -- `BlockFile.write(buffer)` of what was read
  deriving DecidableEq, Repr

/-- the dispatch statement is `readBlockFile` itself (Props/C12 proves that it is
the refinement "first declared block whose begin pattern is found in the peeked
unit, else one default line", that the raw data concatenate to the input and
that writing reproduces it) -/
def holds [DecidableEq α] (nl : α) (binary : Bool) (blocks : List (BlockDef α)) (x : List α) (o : Obs α) : Bool :=
  o.elems == readBlockFile nl binary blocks x &&
  -- no input lost or duplicated
  (o.elems.flatMap writeBElem) == x &&
  o.written == x

end Spec.C12

namespace Spec.C13
open Cfi

structure Obs where
  elems : List SElem
  written : List Char
  deriving DecidableEq, Repr

def holds (secs : List SecDef) (x : List Char) (o : Obs) : Bool :=
  o.elems == readSectionFile secs x &&
  -- declared sections exactly once each, in declared order, right after the placeholder
  (o.elems.drop 1).take secs.length == ((o.elems.drop 1).take secs.length).zipIdx.map
      (fun (e, i) => match e with | .section_ _ raw => SElem.section_ i raw | d => d) &&
  (o.elems.flatMap writeSElem) == x &&
  o.written == x

end Spec.C13

namespace Spec.C18
open Cfi

/-- number of units a content offers: lines in text storage, bytes in binary storage -/
def units (binary : Bool) (textLines bytes : Nat) : Nat := if binary then bytes else textLines

structure Obs where
  returned : Bool                 -- `File.read` returned (within the step budget)
  appends : Nat                   -- number of `append` calls on the data container
  deriving DecidableEq, Repr

/-- `bound = units + declared sections` (the placeholder is not appended) -/
def holds (bound : Nat) (o : Obs) : Bool := o.returned && decide (o.appends ≤ bound)

end Spec.C18
