import Cfi.Files
import Cfi.Stream
import Spec.C01
import Spec.C04
import Spec.C09
import Spec.C11
/-!
C10 — written registers are recognised, self-delimiting and re-readable in any
storage (positional text, delimited text, binary).
-/
namespace Spec.C10
open Cfi Cfi.Text

/-- one register of a stream: what the implementation shows -/
structure RegObs where
  written : Data                 -- what `Register.write` put on the buffer
  tellWrite : Nat                -- `buffer.tell()` after the write
  matched : Bool                 -- `cls.matches(written[:…], storage)`
  readData : List Val            -- data after `Register.read` at this position of the stream
  tellRead : Nat                 -- `buffer.tell()` after that read
  deriving DecidableEq, Repr

def dataLen : Data → Nat
  | .str s => s.length
  | .bytes b => b.length

/-- the canonical data a register reads back -/
def canonData (r : RegDef) (st : Storage) (data : List Val) (written : Data) : List Val :=
  match st, r.delimiter, written with
  | .text, .none, .str w => (r.fields.zip data).map fun (f, v) => Spec.C01.canon f v (slice w f.start f.stop)
  | .text, .str d, .str w =>
    let toks := ((split w d).map strip).drop 1
    ((r.fields.zip data).zip toks).map fun ((f, v), t) => Spec.C01.canon f v t
  | .binary, _, _ => (r.fields.zip data).map fun (f, v) => Spec.C09.canon f v
  | _, _, _ => []

/-- shape of one written register -/
def shapeOk (r : RegDef) (st : Storage) (written : Data) : Bool :=
  match st, written with
  | .text, .str w =>
    -- exactly one line
    w.getLast? == some '\n' && !(w.dropLast.contains '\n') &&
    (match r.delimiter with
     | .str d => (split w d).head? == some r.ident     -- the identifier is the first token
     | _ => w.take r.digits == ljust r.ident r.digits ' ' || decide (w.length ≤ r.digits))
  | .binary, .bytes b =>
    -- identifier width plus field widths
    b.length == r.digits + (r.fields.map (·.size)).sum &&
    b.take r.digits == Cfi.Bin.utf8Encode (ljust r.ident r.digits ' ')
  | _, _ => false

/-- statement for a stream of registers `rs[i]` of definitions `defs[i]` -/
def holds (st : Storage) (items : List (RegDef × List Val)) (obs : List RegObs) : Bool :=
  obs.length == items.length &&
  (let rec go (off : Nat) : List (RegDef × List Val) → List RegObs → Bool
    | [], _ => true
    | _, [] => true
    | (r, data) :: is, o :: os =>
      shapeOk r st o.written && o.matched &&
      o.tellWrite == off + dataLen o.written &&
      o.readData == canonData r st data o.written &&
      o.tellRead == off + dataLen o.written &&          -- consumes exactly what was produced
      go (off + dataLen o.written) is os
   go 0 items obs)

/-- the fields, in column order -/
def byColumn (fs : List Field) : List Field := fs.mergeSort (fun a b => decide (a.start ≤ b.start))

/-- contiguous layout: the fields, whatever the order they are declared in, tile
`[digits, digits + Σ size)` -/
def contiguous (r : RegDef) : Bool :=
  let rec go (pos : Nat) : List Field → Bool
    | [] => true
    | f :: fs => f.start == pos && f.stop == pos + f.size && go (pos + f.size) fs
  go r.digits (byColumn r.fields)

def itemOk (st : Storage) (r : RegDef) (data : List Val) : Bool :=
  Spec.C04.identOk r.ident && decide (r.ident.length ≤ r.digits) && data.length == r.fields.length &&
  !(isStripWs (r.ident.headD 'x')) && !(isStripWs (r.ident.getLastD 'x')) &&
  data.any (fun v => v != Val.none) &&
  match st, r.delimiter with
  | .text, .none =>
    r.fields.all (fun f => decide (r.digits ≤ f.start)) && Spec.C02.disjoint r.fields &&
    (r.fields.zip data).all (fun (f, v) => Spec.C01.fieldInDomain f v)
  | .text, .str d =>
    -- the identifier must fit its token and survive the split; the data as in C11
    r.ident != [] && Spec.C11.inDomain r.fields data d && r.ident.all (fun c => !d.contains c)
  | .binary, _ =>
    -- a delimiter declared on the LINE is inert in binary storage
    contiguous r && (r.fields.zip data).all (fun (f, v) => Spec.C09.fieldInDomain f v) && decide (0 < r.digits + (r.fields.map (·.size)).sum)
  | _, _ => false

def inDomain (st : Storage) (items : List (RegDef × List Val)) : Bool :=
  items.all fun (r, d) => itemOk st r d

/-- what `Register.write` puts on the buffer for every item (`none` if one of them
writes nothing or raises) -/
def writeAll (st : Storage) (items : List (RegDef × List Val)) : Option (List Data) :=
  items.mapM fun (r, data) =>
    match r.writeData st data with
    | .ok (some w) => some w
    | _ => none

def textOf : Data → List Char
  | .str s => s
  | .bytes _ => []

def bytesOf : Data → List UInt8
  | .bytes b => b
  | .str _ => []

/-- `Register.read(file)` of every item in turn on a text buffer: one `readline()`
each; the stream position afterwards is what `tell()` shows -/
def readAllText : Nat → Stream Char → List (RegDef × List Val) → List Data → Option (List RegObs)
  | _, _, [], _ => some []
  | _, _, _ :: _, [] => none
  | off, s, (r, _) :: is, w :: ws =>
    let n := dataLen w
    let (l, s') := s.readline '\n'
    match (r.readDataText l).toOption, readAllText (off + n) s' is ws with
    | some d, some rest => some (⟨w, off + n, r.matchesText (textOf w), d, s'.pos⟩ :: rest)
    | _, _ => none

/-- the same on a binary buffer: one `read(recordSize)` each -/
def readAllBin : Nat → Stream UInt8 → List (RegDef × List Val) → List Data → Option (List RegObs)
  | _, _, [], _ => some []
  | _, _, _ :: _, [] => none
  | off, s, (r, _) :: is, w :: ws =>
    let n := dataLen w
    let (b, s') := s.read r.recordSize
    let m : Bool := match r.matchesBin (bytesOf w) with | .ok x => x | .error _ => false
    match (r.readDataBin b).toOption, readAllBin (off + n) s' is ws with
    | some d, some rest => some (⟨w, off + n, m, d, s'.pos⟩ :: rest)
    | _, _ => none

/-- the model's run: write all registers to one buffer, rewind, read them back in
order from that buffer -/
def run (st : Storage) (items : List (RegDef × List Val)) : Option (List RegObs) :=
  match writeAll st items with
  | none => none
  | some ws =>
    match st with
    | .text => readAllText 0 ⟨ws.flatMap textOf, 0⟩ items ws
    | .binary => readAllBin 0 ⟨ws.flatMap bytesOf, 0⟩ items ws

end Spec.C10
