import Cfi.Line
import Spec.C01
import Spec.C02
/-!
C09 — binary fields round-trip exactly and keep the record width.
-/
namespace Spec.C09
open Cfi Cfi.Text Cfi.Bin

structure Obs where
  written : List UInt8         -- `Line(fields, storage="BINARY").write(values)`
  readBack : List Val          -- `.read(written)`
  deriving DecidableEq, Repr

/-- numeric width in bytes of a binary field -/
def width (f : Field) : Nat :=
  match f.kind with
  | .int => intWidthBits f.size / 8
  | .flt _ _ _ => floatWidthBits f.size / 8
  | _ => f.size

/-- what must come back: in-range integers exactly, floats as rounded to the
field's IEEE width, literals blank-trimmed, dates at the resolution of their
format; missing numbers as zero, missing text as blanks (→ `""` / `None`). -/
def canon (f : Field) (v : Val) : Val :=
  match f.kind with
  | .int => if v.isNull then .int 0 else v
  | .flt _ _ _ =>
    if v.isNull then .dbl (.fin false 0 (-1074))
    else match v with
      | .dbl x => .dbl (roundTo (fmtOfWidth (width f)) x)
      | _ => .none
  | .lit => if v.isNull then .str [] else match v with
      | .str s => .str (strip s)
      | _ => .none
  | .date fmts => if v.isNull then .none else match v, fmts with
      | .date t, fmt :: _ => .date (Spec.C01.truncDate fmt t)
      | _, _ => .none

def isAscii (s : List Char) : Bool := s.all fun c => decide (c.toNat < 128)

def fieldInDomain (f : Field) (v : Val) : Bool :=
  f.stop == f.size + f.start && Spec.C02.typeOk f.kind v &&
  match f.kind, v with
  | .int, .int n =>
    (f.size == 2 || f.size == 4 || f.size == 8) && intWidthBits f.size == 8 * f.size &&
    decide (-(2 ^ (8 * f.size - 1) : Int) ≤ n ∧ n < 2 ^ (8 * f.size - 1))
  | .int, _ => (f.size == 2 || f.size == 4 || f.size == 8) && intWidthBits f.size == 8 * f.size
  | .flt _ _ _, _ => (f.size == 2 || f.size == 4 || f.size == 8) && floatWidthBits f.size == 8 * f.size
  | .lit, .str s => isAscii s && decide (s.length ≤ f.size) && Spec.C01.noControl s
  | .date fmts, .date t =>
    fmts.all Spec.C03.fmtOk &&
    (match fmts with
     | fmt :: _ =>
       (Spec.C01.truncDate fmt t).valid && decide (1000 ≤ (Spec.C01.truncDate fmt t).y) && isAscii fmt &&
       (match Cfi.Date.strftime (fmt.length + 1) fmt t with
        | some s => decide (s.length ≤ f.size) && !(isStripWs (fmt.headD ' '))
        | none => false)
     | [] => false)
  | .date fmts, _ => !fmts.isEmpty && fmts.all Spec.C03.fmtOk
  | _, _ => true

def inDomain (fs : List Field) (vs : List Val) : Bool :=
  fs.length == vs.length && Spec.C02.disjoint fs && (fs.zip vs).all fun (f, v) => fieldInDomain f v

def holds (fs : List Field) (vs : List Val) (o : Obs) : Bool :=
  -- exactly as many bytes as the furthest field end, blank gaps
  Spec.C02.holdsLineBin fs o.written &&
  -- each field's bytes inside its own span
  (fs.zip vs).all (fun (f, v) =>
    match renderBin f v with
    | .ok b => slice o.written f.start f.stop == b
    | .error _ => false) &&
  o.readBack == (fs.zip vs).map fun (f, v) => canon f v

def cycle (fs : List Field) (vs : List Val) : Option Obs :=
  match writeBinLine fs vs with
  | .ok w => some ⟨w, readBinLine fs w⟩
  | .error _ => none

end Spec.C09
