import Cfi.Container
/-!
C08 — container queries and bulk removal select exactly the matching members.

Statement on the abstract list `l` of the container (C07 ties the container to
that list), for the per-element facts `isInst` (instance of the requested type,
subclasses included) and `meets` (every non-None filter equals the attribute).
-/
namespace Spec.C08
open Cfi.Container

/-- type-filtered iteration -/
def specOfType (isInst : Id → Bool) (l : List Id) : List Id := l.filter isInst

/-- the filtered getter: none / the element / the list in order -/
def specGet (isInst meets : Id → Bool) (l : List Id) : Shape :=
  shape ((l.filter isInst).filter meets)

/-- bulk removal: nothing matches → unchanged; exactly one match → it is removed
(unless it is the sole element, which cannot be removed); several matches →
all are removed except the container's first element. -/
def specRemove (isInst meets : Id → Bool) (l : List Id) : List Id :=
  match (l.filter isInst).filter meets with
  | [] => l
  | [x] => if l.length ≤ 1 then l else l.erase x
  | _ => l.filter fun x => !(isInst x && meets x) || l.head? == some x

structure Obs where
  ofType : List Id
  get : Shape
  iterAfterGet : List Id      -- the getter never modifies the container
  lenAfterGet : Nat           -- `len(container)` after the getter
  iterAfterRemove : List Id
  lenAfterRemove : Nat        -- `len(container)` after the bulk removal
  deriving DecidableEq

def expected (isInst meets : Id → Bool) (l : List Id) : Obs :=
  { ofType := specOfType isInst l
    get := specGet isInst meets l
    iterAfterGet := l
    lenAfterGet := l.length
    iterAfterRemove := specRemove isInst meets l
    lenAfterRemove := (specRemove isInst meets l).length }

def holds (isInst meets : Id → Bool) (l : List Id) (o : Obs) : Bool :=
  decide (o = expected isInst meets l)

/-- The same queries on the model. -/
def observe (F : Facts) (s : Heap) (fuel : Nat) : Obs :=
  { ofType := ofType F s fuel
    get := getOfType F s fuel
    iterAfterGet := iter s fuel
    lenAfterGet := (iter s fuel).length
    iterAfterRemove := iter (removeOfType F s fuel) fuel
    lenAfterRemove := (iter (removeOfType F s fuel) fuel).length }

/-! The property's wording, as consequences of `specRemove` (proved in Props/C08). -/

/-- class table: `parent c` is the direct base class of `c` (single inheritance
in the harness); `isSub` = `issubclass`. -/
def isSub (parent : Nat → Option Nat) : Nat → Nat → Nat → Bool
  | 0, c, t => c == t
  | fuel + 1, c, t => c == t || match parent c with
      | some p => isSub parent fuel p t
      | none => false

/-- `all(getattr(r, k) == v for k, v in kwargs.items() if v is not None)` on
attribute vectors; attribute and filter values are optional integers. -/
def meetsFilter (attrs : List (Option Int)) (flt : List (Nat × Option Int)) : Bool :=
  flt.all fun (k, v) =>
    match v with
    | none => true
    | some w => attrs.getD k none == some w

end Spec.C08
