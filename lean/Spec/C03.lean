import Cfi.Line
/-!
C03 — reading a field is total, local to its span, and follows the declared
format.  The reference interpretation of a span is `parseText` / `parseBin`
(CPython's `int()`, `float()`, `strptime`, `strip`, UTF-8 decoding, numpy
`frombuffer`, each validated against the interpreter by the correspondence
run); `None` when the span is not a valid literal.
-/
namespace Spec.C03
open Cfi Cfi.Text

/-- the value `Field.read(line)` must return -/
def expected (f : Field) : Data → Val
  | .str s => (parseText f.kind (slice s f.start f.stop)).getD .none
  | .bytes b => (parseBin f.kind f.size (slice b f.start f.stop)).getD .none

def holds (f : Field) (line : Data) (out : Val) : Bool := out == expected f line

/-- formats are inside the modelled directive set, each directive at most once -/
def fmtOk (fmt : List Char) : Bool :=
  match Cfi.Date.parseFmt (fmt.length + 1) fmt with
  | some items => Cfi.Date.dirsOnce items
  | none => false

def inDomain (f : Field) : Bool :=
  match f.kind with
  | .date fmts => !fmts.isEmpty && fmts.all fmtOk
  | .flt _ _ sep => sep.length == 1
  | _ => true

end Spec.C03
