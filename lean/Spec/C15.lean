import Cfi.Equality
/-!
C15 — equality is element-wise, symmetric and deterministic.
-/
namespace Spec.C15
open Cfi Cfi.Equality

/-- the statement: same number of elements and corresponding elements equal
(same type, equal data) -/
def expectedEq (a b : List Elem) : Bool :=
  decide (a.length = b.length ∧ ∀ i : Fin a.length, ∀ h : i.val < b.length,
    (a[i]).cls = (b[i.val]'h).cls ∧ (a[i]).data = (b[i.val]'h).data)

structure Obs where
  abData : Bool        -- `a.data == b.data`  (containers)
  baData : Bool        -- `b.data == a.data`
  abFile : Bool        -- `a == b`            (files)
  baFile : Bool        -- `b == a`
  neFile : Bool        -- `a != b`
  reflA : Bool         -- `a == a`
  deriving DecidableEq, Repr

def holds (a : List Elem) (rhs : Rhs) (o : Obs) : Bool :=
  let e := match rhs with
    | .same b => expectedEq a b
    | .foreign => false
  o.abFile == e && o.baFile == e && o.neFile == !e && o.reflA &&
  (match rhs with
   | .same _ => o.abData == e && o.baData == e
   | .foreign => !o.abData && !o.baData)

def observe (a : List Elem) (rhs : Rhs) : Obs :=
  let e := fileEq a rhs
  let e' := match rhs with
    | .same b => seqEq b a
    | .foreign => false
  ⟨e, e', e, e', !e, seqEq a a⟩

end Spec.C15
