import Cfi.Line
import Spec.C01
/-!
C11 — delimited lines: token-wise round trip, no carry-over between lines.
-/
namespace Spec.C11
open Cfi Cfi.Text

structure Obs where
  written : List Char                 -- `Line(fields, delimiter=d).write(values)`
  readBack : List Val                 -- `.read(written)`
  readPadded : List Val               -- `.read(written with extra blanks around the tokens)`
  /-- successive reads of arbitrary lines through the same line object -/
  seqReads : List (List Val)
  deriving DecidableEq, Repr

/-- blank-trimmed rendering of each value (the reference renderer is the
field's own text rendering, C01/C02) -/
def tokens (fs : List Field) (vs : List Val) : Option (List (List Char)) :=
  (fs.zip vs).mapM fun (f, v) =>
    match renderText f v with
    | .ok s => some (strip s)
    | .error _ => none

/-- the same line with blanks added around every token -/
def padded (ts : List (List Char)) (pads : List (Nat × Nat)) : List (List Char) :=
  (ts.zip pads).map fun (t, (a, b)) => List.replicate a ' ' ++ t ++ List.replicate b ' '

def padLine (ts : List (List Char)) (d : List Char) (pads : List (Nat × Nat)) : List Char :=
  join d (padded ts pads) ++ ['\n']

def canonTok (f : Field) (v : Val) (tok : List Char) : Val := Spec.C01.canon f v tok

/-- the property's guard: no token contains the delimiter (as a substring) or a
newline — and, to exclude the self-overlapping corner where a token's tail and
the delimiter's head together form an earlier occurrence of the delimiter
(`"xa" + "aa" + "y"`), splitting the joined tokens gives the tokens back.
(`Props.C11.main` is proved under the stronger guard "no character of the
delimiter occurs in a token"; the rest of this domain is checked per case.) -/
def tokensOk (ts : List (List Char)) (d : List Char) : Bool :=
  ts.all (fun t => !isInfix d t && !t.contains '\n') && !d.contains '\n' &&
  (ts.isEmpty || split (join d ts) d == ts)

/-- the padded tokens still split apart at the delimiters that were written -/
def paddedOk (ts : List (List Char)) (d : List Char) (pads : List (Nat × Nat)) : Bool :=
  let ps := padded ts pads
  ps.length == ts.length && ps.all (fun t => !isInfix d t) && (ps.isEmpty || split (join d ps) d == ps)

def inDomain (fs : List Field) (vs : List Val) (d : List Char) : Bool :=
  !d.isEmpty && fs.length == vs.length && (!d.all isStripWs || d.all (fun c => c == ' ' || c == '\t')) &&
  (fs.zip vs).all (fun (f, v) => Spec.C01.fieldInDomain f v) &&
  match tokens fs vs with
  | some ts => tokensOk ts d
  | none => false

def expectedSeq (fs : List Field) (d : List Char) (lines : List (List Char)) : List (List Val) :=
  lines.map fun l => readDelim fs l d

def holds (fs : List Field) (vs : List Val) (d : List Char) (pads : List (Nat × Nat))
    (lines : List (List Char)) (o : Obs) : Bool :=
  match tokens fs vs with
  | none => false
  | some ts =>
    o.written == join d ts ++ ['\n'] &&
    o.readBack == ((fs.zip vs).zip ts).map (fun ((f, v), t) => canonTok f v t) &&
    -- blanks around the tokens change nothing — as long as the blanks do not themselves complete
    -- an occurrence of a delimiter that has a blank edge (`" :"` before a token starting with `:`)
    (if paddedOk ts d pads then o.readPadded == o.readBack else true) &&
    -- no carry-over, missing tokens → None, surplus tokens ignored
    o.seqReads == expectedSeq fs d lines

def cycle (fs : List Field) (vs : List Val) (d : List Char) (pads : List (Nat × Nat))
    (lines : List (List Char)) : Option Obs :=
  match writeDelim fs vs d, tokens fs vs with
  | .ok w, some ts =>
    some ⟨w, readDelim fs w d, readDelim fs (padLine ts d pads) d, expectedSeq fs d lines⟩
  | _, _ => none

end Spec.C11
