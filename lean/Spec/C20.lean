import Cfi.Frame
/-!
C20 — the tabular view mirrors the registers of a type without aliasing them.
-/
namespace Spec.C20
open Cfi Cfi.Frame

/-- a data-frame cell as observed: null, a number (ints and floats both arrive
as doubles: pandas promotes an integer column with missing values to float),
text, or a timestamp -/
inductive Cell where
  | null
  | num (bits : Nat)
  | str (s : List Char)
  | date (d : Cfi.Date.DT)
  deriving DecidableEq, Repr

def cellOf : Val → Cell
  | .none => .null
  | .nat => .null
  | .int n =>
    match Dbl.nearest n.natAbs 1 with
    | some (m, e) => .num (Dbl.toBits (.fin (decide (n < 0)) m e))
    | none => .null
  | .str s => .str s
  | .dbl d => if d.isNaN then .null else .num d.toBits
  | .date t => .date t

structure Obs where
  customProps : List Name                 -- `Register.custom_properties`
  columns : List Name                     -- `list(df.columns)`
  nrows : Nat                             -- `df.shape[0]`
  cells : List (List Cell)                -- row-major
  dataUnchangedAfterEdit : Bool           -- editing every cell of the frame left the registers' data as it was
  deriving DecidableEq, Repr

/-- declarative statement -/
def expected (regs : List Reg) (isInst : Nat → Bool) (props : List Prop_) : Obs :=
  let cols := (sortNames (props.map (·.name))).filter fun n => !frameworkProps.contains n
  let rs := regs.filter fun r => isInst r.cls
  if rs.isEmpty || cols.isEmpty then ⟨cols, [], 0, [], true⟩
  else ⟨cols, cols, rs.length, rs.map fun r => cols.map fun c => cellOf (valueOf props r c), true⟩

def holds (regs : List Reg) (isInst : Nat → Bool) (props : List Prop_) (o : Obs) : Bool :=
  o == expected regs isInst props

/-- user property names are in the domain when they are distinct and none of
them is a framework name -/
def inDomain (props : List Prop_) : Bool :=
  (props.map (·.name)).eraseDups.length == props.length &&
  props.all fun p => !frameworkProps.contains p.name

/-- the model's observation -/
def observe (regs : List Reg) (isInst : Nat → Bool) (props : List Prop_) : Obs :=
  let t := asDf regs isInst props
  ⟨customProps (props.map (·.name) ++ frameworkProps), t.columns, t.rows.length,
   t.rows.map (·.map cellOf), true⟩

end Spec.C20
