import Cfi.Line
/-!
C02 — fixed-width layout discipline: a write touches only its own columns.

`holdsField` is the statement for one `Field.write(line)`; `holdsLine` for a
whole positional text line; `holdsLineBin` for a binary line.
-/
namespace Spec.C02
open Cfi Cfi.Text

def isBlank (c : Char) : Bool := c == ' '

/-- the value has the Python type the field kind expects (or is missing) -/
def typeOk : Kind → Val → Bool
  | _, .none => true
  | _, .nat => true
  | _, .dbl .nan => true
  | .lit, .str _ => true
  | .int, .int _ => true
  | .flt _ _ _, .dbl (.fin _ _ _) => true
  | .date _, .date t => t.valid && decide (1000 ≤ t.y)
  | _, _ => false

/-- "the value fits": its unpadded text is at most `size` wide (decided with the
model's renderer), and the field geometry is the constructor's. -/
def fits (f : Field) (v : Val) : Bool :=
  f.stop == f.size + f.start && typeOk f.kind v &&
  match renderFull f.kind f.size v with
  | .ok s => decide (s.length ≤ f.size)
  | .error _ => false

/-- shape of the characters a text write leaves in the field's span -/
def shapeOk (k : Kind) (v : Val) (span : List Char) (size : Nat) : Bool :=
  span.length == size &&
  if v.isNull then span.all isBlank
  else match k with
    | .int | .flt _ _ _ =>
      -- right-justified: blanks, then a non-empty text without blanks
      let t := span.dropWhile isBlank
      !t.isEmpty && !t.any isBlank
    | .lit =>
      match v with
      | .str s => span == ljust s size ' '
      | _ => false
    | .date _ =>
      -- left-justified: a text starting in the first column, then blanks
      let t := (span.reverse.dropWhile isBlank).reverse
      !t.isEmpty && !(t.headD ' ' == ' ')

/-- one `Field.write(line)`: length, everything outside the span untouched
(after blank-padding a short line), span shaped as above. -/
def holdsField (f : Field) (v : Val) (line out : List Char) : Bool :=
  let padded := if line.length < f.stop then ljust line f.stop ' ' else line
  out.length == max line.length f.stop &&
  out.take f.start == padded.take f.start &&
  out.drop f.stop == padded.drop f.stop &&
  shapeOk f.kind v (slice out f.start f.stop) f.size

/-- bytes: length and outside-span bytes (blank = 0x20); the span is exactly `size` wide -/
def holdsFieldBin (f : Field) (line out : List UInt8) : Bool :=
  let padded := if line.length < f.stop then ljust line f.stop 32 else line
  out.length == max line.length f.stop &&
  out.take f.start == padded.take f.start &&
  out.drop f.stop == padded.drop f.stop

def maxEnd (fs : List Field) : Nat := fs.foldl (fun m f => max m f.stop) 0

def disjoint : List Field → Bool
  | [] => true
  | f :: fs => fs.all (fun g => f.stop ≤ g.start || g.stop ≤ f.start) && disjoint fs

def covered (fs : List Field) (i : Nat) : Bool := fs.any fun f => f.start ≤ i && i < f.stop

/-- a written positional text line: as long as the furthest field end plus one
newline; each span shaped; blanks in the gaps. -/
def holdsLine (fs : List Field) (vs : List Val) (out : List Char) : Bool :=
  out.length == maxEnd fs + 1 &&
  out.getLast? == some '\n' &&
  (fs.zip vs).all (fun (f, v) => shapeOk f.kind v (slice out f.start f.stop) f.size) &&
  (List.range (maxEnd fs)).all fun i => covered fs i || out.getD i 'x' == ' '

/-- a written binary line: same length, no terminator, blank (0x20) gaps -/
def holdsLineBin (fs : List Field) (out : List UInt8) : Bool :=
  out.length == maxEnd fs &&
  (List.range (maxEnd fs)).all fun i => covered fs i || out.getD i 0 == 32

def lineInDomain (fs : List Field) (vs : List Val) : Bool :=
  fs.length == vs.length && disjoint fs && (fs.zip vs).all fun (f, v) => fits f v && decide (0 < f.size)

/-- the documented default geometry of default-constructed fields -/
def defaultsOk : Bool :=
  Cfi.Generated.literalDefaultSize == 80 && Cfi.Generated.literalDefaultStart == 0 &&
  Cfi.Generated.integerDefaultSize == 8 && Cfi.Generated.integerDefaultStart == 0 &&
  Cfi.Generated.floatDefaultSize == 8 && Cfi.Generated.floatDefaultStart == 0 &&
  Cfi.Generated.floatDefaultDecimals == 4 && Cfi.Generated.floatDefaultFormat == ['F'] &&
  Cfi.Generated.floatDefaultSep == ['.'] &&
  Cfi.Generated.dateDefaultSize == 16 && Cfi.Generated.dateDefaultStart == 0 &&
  Cfi.Generated.dateDefaultFormat == "%Y/%m/%d".toList

end Spec.C02
