import Cfi.Line
import Cfi.Stream
/-!
Model of `cfinterface/components/{register,defaultregister}.py` and of
`Repository.matches/read/write` in `cfinterface/adapters/components/repository.py`
(with the D7 and D10 repairs).  `IDENTIFIER` is literal text (no regex
metacharacters), so `re.search` is an infix test.
-/
namespace Cfi
open Cfi.Text Cfi.Bin

structure RegDef where
  ident : List Char            -- IDENTIFIER
  digits : Nat                 -- IDENTIFIER_DIGITS
  fields : List Field          -- LINE.fields
  delimiter : Delim            -- LINE.delimiter
  deriving Repr

namespace RegDef

/-- `LiteralField(IDENTIFIER_DIGITS, 0)` -/
def idField (r : RegDef) : Field := Field.mk' .lit r.digits 0

/-- `Line([identifier_field] + LINE.fields, delimiter=LINE.delimiter, storage=storage)` -/
def line (r : RegDef) (st : Storage) : Line := ⟨r.idField :: r.fields, r.delimiter, st⟩

/-- `cls.matches(line, "TEXT")`: `re.search(IDENTIFIER, line[:IDENTIFIER_DIGITS])` -/
def matchesText (r : RegDef) (l : List Char) : Bool := isInfix r.ident (l.take r.digits)

/-- `cls.matches(line, "BINARY")` with a `str` identifier: the window is decoded first
(`UnicodeDecodeError` propagates) -/
def matchesBin (r : RegDef) (l : List UInt8) : Except Exc Bool :=
  match decodeUtf8 (l.take r.digits) with
  | some s => .ok (isInfix r.ident s)
  | none => .error .unicodeError

/-- the data a typed register reads from one text line -/
def readDataText (r : RegDef) (l : List Char) : Except Exc (List Val) :=
  ((r.line .text).read (.str l)).map List.tail

/-- number of bytes a binary register asks for: `line.size` (D7 repaired) -/
def recordSize (r : RegDef) : Nat := (r.line .binary).size

def readDataBin (r : RegDef) (b : List UInt8) : Except Exc (List Val) :=
  ((r.line .binary).read (.bytes b)).map List.tail

/-- `Register.empty` -/
def isEmpty (data : List Val) : Bool := data.all fun v => v == Val.none

/-- `Register.write`: nothing for an empty register, else the composite line
(the freshly built line has unassigned slots: `None`) -/
def writeData (r : RegDef) (st : Storage) (data : List Val) : Except Exc (Option Data) :=
  if isEmpty data then .ok none
  else
    let l := r.line st
    (l.write (l.fields.map fun _ => Val.none) (Val.str r.ident :: data)).map some

end RegDef
end Cfi
