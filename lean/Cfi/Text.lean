import Cfi.Generated
/-!
Python `str` / `bytes` primitives used by cfinterface, over `List α`
(`α = Char` for `str`, `α = UInt8` for `bytes`).
-/
namespace Cfi.Text

/-- `s.ljust(n, pad)` — never truncates. -/
def ljust (s : List α) (n : Nat) (pad : α) : List α := s ++ List.replicate (n - s.length) pad

/-- `s.rjust(n, pad)` — never truncates. -/
def rjust (s : List α) (n : Nat) (pad : α) : List α := List.replicate (n - s.length) pad ++ s

/-- `s[a:b]` for non-negative `a`, `b` (Python clamps to the length). -/
def slice (s : List α) (a b : Nat) : List α := (s.take b).drop a

/-- `str.isspace` as used by `str.strip()` (table read from the interpreter). -/
def isStripWs (c : Char) : Bool := Cfi.Generated.stripWs.contains c.toNat

/-- white space accepted around numerals by `int()` / `float()` -/
def isNumWs (c : Char) : Bool := Cfi.Generated.numWs.contains c.toNat

def stripBy (p : α → Bool) (s : List α) : List α :=
  ((s.dropWhile p).reverse.dropWhile p).reverse

/-- `str.strip()` -/
def strip (s : List Char) : List Char := stripBy isStripWs s

/-- `bytes.strip()` strips ASCII white space `\t\n\v\f\r` and space. -/
def isByteWs (b : UInt8) : Bool := b == 32 || (9 ≤ b && b ≤ 13)

def isPrefix [BEq α] : List α → List α → Bool
  | [], _ => true
  | _ :: _, [] => false
  | a :: as, b :: bs => a == b && isPrefix as bs

/-- `pat in s` -/
def isInfix [BEq α] (pat : List α) : List α → Bool
  | [] => pat.isEmpty
  | c :: cs => isPrefix pat (c :: cs) || isInfix pat cs

/-- `s.replace(old, new)` for non-empty `old` (left to right, non-overlapping);
for empty `old` Python inserts `new` before every character and at the end. -/
def replaceNE [BEq α] (old new : List α) : Nat → List α → List α
  | 0, s => s
  | _, [] => []
  | fuel + 1, c :: cs =>
    if isPrefix old (c :: cs) then new ++ replaceNE old new fuel ((c :: cs).drop old.length)
    else c :: replaceNE old new fuel cs

def replace [BEq α] (s old new : List α) : List α :=
  if old.isEmpty then new ++ (s.flatMap fun c => c :: new)
  else replaceNE old new (s.length + 1) s

/-- `s.split(sep)` for non-empty `sep`. -/
def splitNE [BEq α] (sep : List α) : Nat → List α → List α → List (List α)
  | 0, acc, s => [acc.reverse ++ s]
  | _, acc, [] => [acc.reverse]
  | fuel + 1, acc, c :: cs =>
    if isPrefix sep (c :: cs) then acc.reverse :: splitNE sep fuel [] ((c :: cs).drop sep.length)
    else splitNE sep fuel (c :: acc) cs

def split [BEq α] (s sep : List α) : List (List α) := splitNE sep (s.length + 1) [] s

/-- `sep.join(parts)` -/
def join (sep : List α) : List (List α) → List α
  | [] => []
  | [x] => x
  | x :: xs => x ++ sep ++ join sep xs

/-- The lines `readline()` returns one after the other on a `StringIO` (default
`newline="\n"`: only `'\n'` terminates a line, and it is kept). -/
def splitLines : List Char → List (List Char)
  | [] => []
  | c :: cs =>
    if c = '\n' then [c] :: splitLines cs
    else match splitLines cs with
      | [] => [[c]]
      | l :: ls => (c :: l) :: ls

end Cfi.Text
