import Cfi.Text
import Cfi.PyInt
import Cfi.Dbl
import Cfi.Date
import Cfi.Bin
/-!
Model of `cfinterface/components/{field,literalfield,integerfield,floatfield,
datetimefield}.py` (with the D1 repair: the float writer emits the configured
decimal separator).
-/
namespace Cfi
open Cfi.Text Cfi.PyInt Cfi.Date Cfi.Bin

/-- Python values that occur as field values. -/
inductive Val where
  | none
  | int (n : Int)
  | str (s : List Char)
  | dbl (d : Dbl)
  | date (d : DT)
  | nat                       -- `pandas.NaT`
  deriving DecidableEq, Repr

/-- `value is None or pd.isnull(value)` -/
def Val.isNull : Val → Bool
  | .none => true
  | .nat => true
  | .dbl d => d.isNaN
  | _ => false

inductive Kind where
  | lit
  | int
  /-- `decimal_digits`, `format` (the presentation character), `sep` -/
  | flt (dec : Nat) (fmt : Char) (sep : List Char)
  /-- the declared format list (a single format is a one-element list) -/
  | date (fmts : List (List Char))
  deriving DecidableEq, Repr

structure Field where
  kind : Kind
  size : Nat
  start : Nat
  /-- `_ending_position`; `size + start` at construction, but a separate
  attribute (the delimited mode re-bases it) -/
  stop : Nat
  deriving DecidableEq, Repr

def Field.mk' (kind : Kind) (size start : Nat) : Field := ⟨kind, size, start, size + start⟩

/-- what an operation can raise, by exception class -/
inductive Exc where
  | typeError
  | valueError
  | overflowError
  | attributeError
  | unicodeError
  | other
  deriving DecidableEq, Repr

deriving instance DecidableEq for Except

/-! ### text -/

/-- the parser applied to the (already sliced) span; `none` = `ValueError` -/
def parseText (k : Kind) (span : List Char) : Option Val :=
  match k with
  | .lit => some (.str (strip span))
  | .int => (pyInt span).map .int
  | .flt _ _ sep => (Dbl.pyFloat (replace span sep ['.'])).map .dbl
  | .date fmts => (fmts.findSome? fun f => strptime f (strip span)).map .date

/-- `Field.read(line)` for a `str` line: slice the span, parse, `ValueError → None`. -/
def Field.readText (f : Field) (line : List Char) : Val :=
  (parseText f.kind (slice line f.start f.stop)).getD .none

/-- F-notation loop of `FloatField._textual_write`: the first of
`decimal_digits, …, 0` decimals whose rendering fits, else the 0-decimal one. -/
def floatLoopF (x : Dbl) (size : Nat) (upper : Bool) : Nat → Except Exc (List Char)
  | 0 => do
    let r ← (Dbl.pyRound x 0).elim (.error .overflowError) .ok
    pure (Dbl.fmtF r 0 upper)
  | d + 1 => do
    let r ← (Dbl.pyRound x (d + 1)).elim (.error .overflowError) .ok
    let s := Dbl.fmtF r (d + 1) upper
    if s.length ≤ size then pure s else floatLoopF x size upper d

/-- the same loop with the `E` presentation (only reached for the value zero) -/
def floatLoopE (x : Dbl) (size : Nat) (upper : Bool) : Nat → Except Exc (List Char)
  | 0 => do
    let r ← (Dbl.pyRound x 0).elim (.error .overflowError) .ok
    pure (Dbl.fmtE r 0 upper)
  | d + 1 => do
    let r ← (Dbl.pyRound x (d + 1)).elim (.error .overflowError) .ok
    let s := Dbl.fmtE r (d + 1) upper
    if s.length ≤ size then pure s else floatLoopE x size upper d

/-- the text of a value before truncation and padding; for E notation this is
the full mantissa/exponent text (`_textual_write` then cuts it to `size`) -/
def renderFull (k : Kind) (size : Nat) (v : Val) : Except Exc (List Char) :=
  if v.isNull then .ok [] else
  match k, v with
  | .lit, .str s => .ok s
  | .lit, .int n => .ok (pyStr n)                   -- `str(self.value)`
  | .int, .int n => .ok (pyStr n)                   -- `str(int(self.value))`
  | .flt dec fmt sep, .dbl x =>
    let upper := fmt == 'E' || fmt == 'F'
    if !(fmt == 'E' || fmt == 'e' || fmt == 'F' || fmt == 'f') then .error .other else
    let raw : Except Exc (List Char) :=
      if (fmt == 'E' || fmt == 'e') && !x.isZero then
        match x with
        | .fin _ m e => do
          let k := Dbl.floorLog10 m e
          let r ← (Dbl.pyRound x (Int.ofNat dec - k)).elim (.error .overflowError) .ok
          pure (Dbl.fmtE r dec upper)
        | _ => .error .overflowError               -- `floor(log10(inf))`
      else if fmt == 'E' || fmt == 'e' then floatLoopE x size upper dec
      else floatLoopF x size upper dec
    raw.map fun s => replace s ['.'] sep
  | .date fmts, .date t =>
    match fmts with
    | [] => .error .other
    | f :: _ => (strftime (f.length + 1) f t).elim (.error .other) .ok
  | _, _ => .error .typeError

/-- the local variable `value` of each `_textual_write` just before the final
`ljust`/`rjust`: E-notation text is cut to the field width (`value[: self.size]`) -/
def renderRaw (k : Kind) (size : Nat) (v : Val) : Except Exc (List Char) :=
  (renderFull k size v).map fun s =>
    match k, v with
    | .flt _ fmt _, .dbl x => if (fmt == 'E' || fmt == 'e') && !x.isZero then s.take size else s
    | _, _ => s

/-- `_textual_write()` -/
def renderText (f : Field) (v : Val) : Except Exc (List Char) :=
  (renderRaw f.kind f.size v).map fun s =>
    match f.kind with
    | .lit | .date _ => ljust s f.size ' '
    | .int | .flt _ _ _ => rjust s f.size ' '

/-- ```
if len(line) < self.ending_position: line = line.ljust(self.ending_position)
return line[: self.starting_position] + value + line[self.ending_position :]
``` -/
def splice (line : List α) (start stop : Nat) (value : List α) (blank : α) : List α :=
  let line := if line.length < stop then ljust line stop blank else line
  line.take start ++ value ++ line.drop stop

/-- `Field.write(line)` for a `str` line -/
def Field.writeText (f : Field) (v : Val) (line : List Char) : Except Exc (List Char) :=
  (renderText f v).map fun value => splice line f.start f.stop value ' '

/-! ### binary -/

def intWidthBits (size : Nat) : Nat :=
  ((Cfi.Generated.intTypes.find? (·.1 == size)).map (·.2)).getD Cfi.Generated.intFallbackBits

def floatWidthBits (size : Nat) : Nat :=
  ((Cfi.Generated.floatTypes.find? (·.1 == size)).map (·.2)).getD Cfi.Generated.floatFallbackBits

/-- `_binary_read` on the sliced span; `none` = `ValueError` (incl. `UnicodeDecodeError`) -/
def parseBin (k : Kind) (size : Nat) (span : List UInt8) : Option Val :=
  match k with
  | .lit => (decodeUtf8 span).map fun s => .str (strip s)
  | .int => (decodeInt (intWidthBits size / 8) span).map .int
  | .flt _ _ _ => (decodeFloat (floatWidthBits size / 8) span).map .dbl
  | .date fmts =>
    -- the decode happens inside the per-format try: an undecodable span fails every format
    match decodeUtf8 span with
    | some s => (fmts.findSome? fun f => strptime f (strip s)).map .date
    | Option.none => Option.none

def Field.readBin (f : Field) (line : List UInt8) : Val :=
  (parseBin f.kind f.size (slice line f.start f.stop)).getD .none

/-- `_binary_write()` -/
def renderBin (f : Field) (v : Val) : Except Exc (List UInt8) :=
  match f.kind with
  | .lit =>
    if v.isNull then .ok (List.replicate f.size 32) else
    match v with
    | .str s => .ok (utf8Encode (ljust s f.size ' '))
    | _ => .error .attributeError
  | .int =>
    let w := intWidthBits f.size / 8
    if v.isNull then .ok (leBytes w 0) else
    match v with
    | .int n => (encodeInt w n).elim (.error .overflowError) .ok
    | _ => .error .typeError
  | .flt _ _ _ =>
    let w := floatWidthBits f.size / 8
    if v.isNull then .ok (leBytes w 0) else
    match v with
    | .dbl x => .ok (encodeFloat w x)
    | .int n =>
      -- numpy converts a Python int to the float dtype (exact when it fits a double)
      .ok (encodeFloat w (match Dbl.nearest n.natAbs 1 with
        | some (m, e) => .fin (n < 0) m e
        | Option.none => .inf (n < 0)))
    | _ => .error .typeError
  | .date fmts =>
    if v.isNull then .ok (List.replicate f.size 32) else
    match v, fmts with
    | .date t, fm :: _ =>
      (strftime (fm.length + 1) fm t).elim (.error .other) fun s => .ok (utf8Encode (ljust s f.size ' '))
    | _, _ => .error .attributeError

/-- `Field.write(line)` for a `bytes` line (`bytes.ljust` pads with `b" "`) -/
def Field.writeBin (f : Field) (v : Val) (line : List UInt8) : Except Exc (List UInt8) :=
  (renderBin f v).map fun value => splice line f.start f.stop value 32

end Cfi
