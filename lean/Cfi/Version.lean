/-!
Model of `set_version` (identical in `RegisterFile`, `BlockFile`, `SectionFile`)
and of the Python class-attribute lookup it relies on.

```
available = sorted(list(cls.VERSIONS.keys()))
recent = [version for version in available if v >= version]
closest = recent[-1] if recent else None
if closest is not None:
    cls.__VERSION = v
    cls.REGISTERS = cls.VERSIONS.get(closest, cls.REGISTERS)
```
Version strings are `List Char` (Python's `str` order is the lexicographic
order of code points, which is `List.lt` on `Char`).
-/
namespace Cfi.Version

abbrev Key := List Char

def leKey (a b : Key) : Bool := decide (a ≤ b)

/-- `sorted(keys)` -/
def sortKeys (keys : List Key) : List Key := keys.mergeSort leKey

/-- the closest version: the last of the sorted keys that are `≤ v` -/
def closest (keys : List Key) (v : Key) : Option Key :=
  ((sortKeys keys).filter fun k => leKey k v).getLast?

/-- a version table: `VERSIONS` (a dict: keys are distinct); the value is an
opaque id of the component list -/
abbrev Table := List (Key × Nat)

def Table.get (t : Table) (k : Key) : Option Nat := (t.find? (·.1 == k)).map (·.2)

/-- class table: parent link, own `REGISTERS` attribute (if assigned on the class
itself), own `VERSIONS` attribute -/
structure Classes where
  parent : Nat → Option Nat
  ownActive : Nat → Option Nat
  ownVersions : Nat → Option Table

/-- Python attribute lookup along the (single-inheritance) MRO, with fuel -/
def lookup (own : Nat → Option α) (parent : Nat → Option Nat) : Nat → Nat → Option α
  | 0, c => own c
  | fuel + 1, c =>
    match own c with
    | some x => some x
    | none =>
      match parent c with
      | some p => lookup own parent fuel p
      | none => none

def Classes.active (cs : Classes) (fuel c : Nat) : Option Nat := lookup cs.ownActive cs.parent fuel c
def Classes.versions (cs : Classes) (fuel c : Nat) : Table := (lookup cs.ownVersions cs.parent fuel c).getD []

/-- `cls.set_version(v)` -/
def setVersion (cs : Classes) (fuel c : Nat) (v : Key) : Classes :=
  let tbl := cs.versions fuel c
  match closest (tbl.map (·.1)) v with
  | none => cs
  | some k =>
    match tbl.get k with
    | some lst => { cs with ownActive := fun x => if x = c then some lst else cs.ownActive x }
    | none => cs      -- `VERSIONS.get(closest, cls.REGISTERS)`: unreachable, the key comes from the table

end Cfi.Version
