/-!
Model of `set_version` (identical in `RegisterFile`, `BlockFile`, `SectionFile`)
and of the Python class-attribute lookup it relies on.

```
available = sorted(list(cls.VERSIONS.keys()))
recent = [version for version in available if v >= version]
closest = recent[-1] if recent else None
if closest is not None:
    cls.__VERSION = v
    cls.REGISTERS = cls.VERSIONS.get(closest, cls.REGISTERS)
```
Version strings are `List Char` (Python's `str` order is the lexicographic
order of code points, which is `List.lt` on `Char`).
-/
namespace Cfi.Version

abbrev Key := List Char

def leKey (a b : Key) : Bool := decide (a ≤ b)

/-- `sorted(keys)` -/
def sortKeys (keys : List Key) : List Key := keys.mergeSort leKey

/-- the closest version: the last of the sorted keys that are `≤ v` -/
def closest (keys : List Key) (v : Key) : Option Key :=
  ((sortKeys keys).filter fun k => leKey k v).getLast?

/-- a version table: `VERSIONS` (a dict: keys are distinct); the value is an
opaque id of the component list -/
abbrev Table := List (Key × Nat)

def Table.get (t : Table) (k : Key) : Option Nat := (t.find? (·.1 == k)).map (·.2)

/-- class table: parent link, own `REGISTERS` attribute (if assigned on the class
itself), own `VERSIONS` attribute -/
structure Classes where
  parent : Nat → Option Nat
  ownActive : Nat → Option Nat
  ownVersions : Nat → Option Table

/-- Python attribute lookup along the (single-inheritance) MRO, with fuel -/
def lookup (own : Nat → Option α) (parent : Nat → Option Nat) : Nat → Nat → Option α
  | 0, c => own c
  | fuel + 1, c =>
    match own c with
    | some x => some x
    | none =>
      match parent c with
      | some p => lookup own parent fuel p
      | none => none

def Classes.active (cs : Classes) (fuel c : Nat) : Option Nat := lookup cs.ownActive cs.parent fuel c
def Classes.versions (cs : Classes) (fuel c : Nat) : Table := (lookup cs.ownVersions cs.parent fuel c).getD []

/-- `cls.set_version(v)` -/
def setVersion (cs : Classes) (fuel c : Nat) (v : Key) : Classes :=
  let tbl := cs.versions fuel c
  match closest (tbl.map (·.1)) v with
  | none => cs
  | some k =>
    match tbl.get k with
    | some lst => { cs with ownActive := fun x => if x = c then some lst else cs.ownActive x }
    | none => cs      -- `VERSIONS.get(closest, cls.REGISTERS)`: unreachable, the key comes from the table

/-! ### what a program can do to the class tables between selections

The tables are ordinary class attributes: a program may bind `VERSIONS` / `REGISTERS` on a class
after the class statement, or edit the dict it finds through the class. `set_version` reads the
attributes at the time of the call. -/

/-- the class whose own attribute a lookup from `c` finds (Python: the dict object that
`C.VERSIONS` evaluates to belongs to that class) -/
def ownerOf (own : Nat → Option α) (parent : Nat → Option Nat) : Nat → Nat → Option Nat
  | 0, c => if (own c).isSome then some c else none
  | fuel + 1, c =>
    if (own c).isSome then some c
    else
      match parent c with
      | some p => ownerOf own parent fuel p
      | none => none

/-- `d[k] = v` on a dict kept in insertion order -/
def Table.set (t : Table) (k : Key) (v : Nat) : Table :=
  if t.any (·.1 == k) then t.map (fun e => if e.1 == k then (k, v) else e) else t ++ [(k, v)]

/-- `d.pop(k, None)` -/
def Table.erase (t : Table) (k : Key) : Table := t.filter (fun e => !(e.1 == k))

inductive Op where
  /-- `C.set_version(v)` -/
  | select (c : Nat) (v : Key)
  /-- `C.VERSIONS = {...}`: binds the attribute on `C` itself -/
  | assignTable (c : Nat) (t : Table)
  /-- `C.VERSIONS[k] = lst`: edits the dict the lookup finds — `C`'s own or an ancestor's -/
  | setItem (c : Nat) (k : Key) (lst : Nat)
  /-- `C.VERSIONS.pop(k, None)` -/
  | delItem (c : Nat) (k : Key)
  /-- `C.REGISTERS = [...]` -/
  | assignActive (c : Nat) (lst : Nat)

def editTable (cs : Classes) (fuel c : Nat) (f : Table → Table) : Classes :=
  match ownerOf cs.ownVersions cs.parent fuel c with
  | some o => { cs with ownVersions := fun x => if x = o then (cs.ownVersions o).map f else cs.ownVersions x }
  | none => cs     -- no table anywhere below the framework base: not modelled (the harness never does it)

/-- one step of a program, with the selection function as a parameter (the code's or the statement's) -/
def step (sel : Classes → Nat → Nat → Key → Classes) (cs : Classes) (fuel : Nat) : Op → Classes
  | .select c v => sel cs fuel c v
  | .assignTable c t => { cs with ownVersions := fun x => if x = c then some t else cs.ownVersions x }
  | .setItem c k lst => editTable cs fuel c (fun t => t.set k lst)
  | .delItem c k => editTable cs fuel c (fun t => t.erase k)
  | .assignActive c lst => { cs with ownActive := fun x => if x = c then some lst else cs.ownActive x }

end Cfi.Version
