/-!
A small regular-expression AST with a Boolean `search` (the subset the harness
uses for register identifiers and block begin/end patterns; the harness renders
the same AST to a Python pattern).  Matching by Brzozowski derivatives.
The file-level theorems are parametric in the `begins/ends` predicates, so this
module is in the correspondence's trusted base only, not in the proofs'.
-/
namespace Cfi.Regex

inductive Re (α : Type) where
  | none                      -- matches nothing
  | eps                       -- the empty string
  | chr (c : α)
  | any                       -- `.` : anything but newline
  | set (cs : List α)         -- `[abc]`
  | cat (a b : Re α)
  | alt (a b : Re α)
  | star (a : Re α)
  deriving Repr

variable {α : Type} [DecidableEq α]

def Re.nullable : Re α → Bool
  | .none => false
  | .eps => true
  | .chr _ => false
  | .any => false
  | .set _ => false
  | .cat a b => a.nullable && b.nullable
  | .alt a b => a.nullable || b.nullable
  | .star _ => true

/-- derivative with respect to `c`; `nl` is the newline of the alphabet -/
def Re.deriv (nl : α) : Re α → α → Re α
  | .none, _ => .none
  | .eps, _ => .none
  | .chr d, c => if c = d then .eps else .none
  | .any, c => if c = nl then .none else .eps
  | .set cs, c => if cs.contains c then .eps else .none
  | .cat a b, c =>
    if a.nullable then .alt (.cat (a.deriv nl c) b) (b.deriv nl c) else .cat (a.deriv nl c) b
  | .alt a b, c => .alt (a.deriv nl c) (b.deriv nl c)
  | .star a, c => .cat (a.deriv nl c) (.star a)

/-- light simplification to keep derivatives small -/
def Re.simp : Re α → Re α
  | .cat a b =>
    match a.simp, b.simp with
    | .none, _ => .none
    | _, .none => .none
    | .eps, b' => b'
    | a', .eps => a'
    | a', b' => .cat a' b'
  | .alt a b =>
    match a.simp, b.simp with
    | .none, b' => b'
    | a', .none => a'
    | a', b' => .alt a' b'
  | r => r

/-- some prefix of `s` matches `r` -/
def matchPrefix (nl : α) (r : Re α) : List α → Bool
  | [] => r.nullable
  | c :: cs => r.nullable || matchPrefix nl ((r.deriv nl c).simp) cs

structure Pat (α : Type) where
  anchored : Bool             -- leading `^`
  re : Re α
  deriving Repr

/-- `re.search(pattern, s) is not None` -/
def search (nl : α) (p : Pat α) : List α → Bool
  | [] => p.re.nullable
  | c :: cs => matchPrefix nl p.re (c :: cs) || (!p.anchored && search nl p cs)

/-- literal text as a pattern (`re.escape`d on the Python side) -/
def Re.lit : List α → Re α
  | [] => .eps
  | c :: cs => .cat (.chr c) (Re.lit cs)

end Cfi.Regex
