import Cfi.Field
import Cfi.Version
/-!
Model of `Register.custom_properties` and `RegisterFile._as_df`.

```
custom_properties = [name for (name, _) in inspect.getmembers(cls, isproperty)   # sorted by name
                     if name not in Register._REGISTER_PROPERTIES]
registers = [b for b in self.data.of_type(register_type)]
if len(registers) == 0: return pd.DataFrame()
cols = registers[0].custom_properties
return pd.DataFrame(data={c: [getattr(r, c) for r in registers] for c in cols})
```
The data frame itself is pandas (observed, not modelled): the model is the
table `(columns, rows)` the constructor is handed.
-/
namespace Cfi.Frame
open Cfi

abbrev Name := List Char

/-- `inspect.getmembers` sorts by name -/
def sortNames (ns : List Name) : List Name := ns.mergeSort Cfi.Version.leKey

def frameworkProps : List Name := Cfi.Generated.frameworkProps.map String.toList

/-- `custom_properties`, given ALL property names visible on the class
(the framework's own included) -/
def customProps (allProps : List Name) : List Name :=
  (sortNames allProps).filter fun n => !frameworkProps.contains n

/-- a user-defined property: its name and what it returns for a register's data -/
structure Prop_ where
  name : Name
  index : Nat                       -- the property returns `self.data[index]`

structure Reg where
  cls : Nat
  data : List Val
  deriving Repr

structure Table where
  columns : List Name
  rows : List (List Val)
  deriving DecidableEq, Repr

/-- `getattr(r, c)` for a user-defined property name -/
def valueOf (props : List Prop_) (r : Reg) (c : Name) : Val :=
  match props.find? (·.name == c) with
  | some p => r.data.getD p.index .none
  | none => .none

/-- `_as_df(register_type)`: `isInst` = instance of the requested type;
`props` = the user-defined properties of that type -/
def asDf (regs : List Reg) (isInst : Nat → Bool) (props : List Prop_) : Table :=
  let rs := regs.filter fun r => isInst r.cls
  if rs.isEmpty then ⟨[], []⟩
  else
    let cols := customProps (props.map (·.name) ++ frameworkProps)
    -- a DataFrame built from an empty dict of columns has no rows either
    if cols.isEmpty then ⟨[], []⟩
    else
      ⟨cols, rs.map fun r => cols.map fun c => valueOf props r c⟩

end Cfi.Frame
