/-!
Model of the reading / writing adapters
(`cfinterface/adapters/{reading,writing}/repository.py`) and of the drivers
that run the element loop inside `with repository:`.

The codec (`enc`/`dec`), `open()` and the file system are *parameters*: the
model contains the logic — which source is read, which destination is written,
who owns the handle, what is written before a fault — and the correspondence
check observes the runtime part on a real scratch directory.
-/
namespace Cfi.IOModel

structure Codec (χ β : Type) where
  enc : List χ → List β
  dec : List β → Option (List χ)

abbrev Path := String

/-- a file system: path ↦ bytes -/
abbrev FS (β : Type) := Path → Option (List β)

/-- `File.read(content)`: a string that names an existing file is a path,
anything else is the content itself -/
inductive Source (χ : Type) where
  | path (p : Path)
  | content (s : List χ)

/-- what the reading adapter hands to the element loop -/
def load {χ β} (fs : FS β) (c : Codec χ β) : Source χ → Option (List χ)
  | .path p => (fs p).bind c.dec
  | .content s => some s

/-- `File.read`: `parse` is the whole element loop (a function of the text) -/
def fileRead {χ β α} (parse : List χ → α) (fs : FS β) (c : Codec χ β) (src : Source χ) : Option α :=
  (load fs c src).map parse

/-! ### writing with faults -/

/-- one element's `write` (or `read`): either completes with its output, or raises -/
inductive Step (χ ε : Type) where
  | ok (out : List χ)
  | raise (e : ε)

/-- the element loop: outputs are appended until the first element that raises -/
def runLoop {χ ε} : List (Step χ ε) → List χ × Option ε
  | [] => ([], none)
  | .ok out :: rest =>
    let (o, e) := runLoop rest
    (out ++ o, e)
  | .raise e :: _ => ([], some e)

inductive Dest where
  | path (p : Path)          -- the framework opens (and owns) the handle
  | buffer                   -- a caller-supplied buffer

/-- state of the one handle involved in a call -/
structure Handle where
  ownedByFramework : Bool
  closed : Bool
  position : Nat
  deriving DecidableEq, Repr

structure WriteResult (χ ε : Type) where
  raised : Option ε          -- the exception that reaches the caller
  output : List χ            -- what is in the buffer / in the file afterwards
  handle : Handle

/-- `with repository: for e in data: e.write(repository.file)`:
`__enter__` opens the file for a path destination, `__exit__` runs whether or
not the body raised and closes only a handle the adapter opened itself. -/
def fileWrite {χ ε} (dest : Dest) (elems : List (Step χ ε)) : WriteResult χ ε :=
  let owned := match dest with | .path _ => true | .buffer => false
  let (out, exc) := runLoop elems
  { raised := exc, output := out, handle := { ownedByFramework := owned, closed := owned, position := out.length } }

/-- a path destination: the file holds the encoded output -/
def store {χ β} (fs : FS β) (c : Codec χ β) (p : Path) (out : List χ) : FS β :=
  fun q => if q = p then some (c.enc out) else fs q

end Cfi.IOModel
