import Cfi.PyInt
/-!
`datetime.strftime` / `datetime.strptime` for the directive set
`%Y %m %d %H %M %S %y %f %%` plus literal (uncased) separators and white
space, as CPython 3.12's `_strptime` does it: every directive is an *ordered
list of alternatives* matched by first-success backtracking; white space in the
format is `\s+`; the match is anchored at the start and must consume the whole
string; then range / calendar validity checks (DESIGN appendix A, D.3).
-/
namespace Cfi.Date
open Cfi.Text Cfi.PyInt

structure DT where
  y : Nat
  mo : Nat
  d : Nat
  h : Nat
  mi : Nat
  s : Nat
  us : Nat
  deriving DecidableEq, Repr

def isLeap (y : Nat) : Bool := y % 4 == 0 && (y % 100 != 0 || y % 400 == 0)

def dim (y m : Nat) : Nat :=
  if m == 2 then (if isLeap y then 29 else 28)
  else if m == 4 || m == 6 || m == 9 || m == 11 then 30 else 31

def DT.valid (t : DT) : Bool :=
  1 ≤ t.y && t.y ≤ 9999 && 1 ≤ t.mo && t.mo ≤ 12 && 1 ≤ t.d && t.d ≤ dim t.y t.mo &&
  t.h ≤ 23 && t.mi ≤ 59 && t.s ≤ 59 && t.us ≤ 999999

/-- character classes occurring in the directive regexes -/
inductive CC where
  | d                      -- `\d` (any Unicode decimal digit)
  | r (lo hi : Char)       -- ASCII range
  | sp                     -- a literal space
  deriving Repr

def CC.ok : CC → Char → Bool
  | .d, c => (digitVal c).isSome
  | .r lo hi, c => lo ≤ c && c ≤ hi
  | .sp, c => c == ' '

abbrev Alt := List CC

/-- `_strptime.TimeRE` entries (interpreter 3.12), alternatives in regex order. -/
def alts : Char → Option (List Alt)
  | 'Y' => some [[.d, .d, .d, .d]]
  | 'm' => some [[.r '1' '1', .r '0' '2'], [.r '0' '0', .r '1' '9'], [.r '1' '9']]
  | 'd' => some [[.r '3' '3', .r '0' '1'], [.r '1' '2', .d], [.r '0' '0', .r '1' '9'], [.r '1' '9'],
                 [.sp, .r '1' '9']]
  | 'H' => some [[.r '2' '2', .r '0' '3'], [.r '0' '1', .d], [.d]]
  | 'M' => some [[.r '0' '5', .d], [.d]]
  | 'S' => some [[.r '6' '6', .r '0' '1'], [.r '0' '5', .d], [.d]]
  | 'y' => some [[.d, .d]]
  | 'f' => some [List.replicate 6 (.r '0' '9'), List.replicate 5 (.r '0' '9'), List.replicate 4 (.r '0' '9'),
                 List.replicate 3 (.r '0' '9'), List.replicate 2 (.r '0' '9'), [.r '0' '9']]
  | _ => none

inductive Item where
  | dir (c : Char)
  | lit (c : Char)
  | ws
  deriving Repr

/-- Parse a format; `none` = a directive outside the modelled set. -/
def parseFmt : Nat → List Char → Option (List Item)
  | 0, _ => none
  | _, [] => some []
  | f + 1, '%' :: '%' :: r => (parseFmt f r).map (Item.lit '%' :: ·)
  | f + 1, '%' :: c :: r => if (alts c).isSome then (parseFmt f r).map (Item.dir c :: ·) else none
  | _, ['%'] => none
  | f + 1, c :: r =>
    if isStripWs c then (parseFmt f (r.dropWhile isStripWs)).map (Item.ws :: ·)
    else (parseFmt f r).map (Item.lit c :: ·)

def matchAlt : Alt → List Char → Option (List Char × List Char)
  | [], s => some ([], s)
  | cc :: a, c :: s => if cc.ok c then (matchAlt a s).map (fun (m, r) => (c :: m, r)) else none
  | _ :: _, [] => none

/-- first-success backtracking matcher; returns the captures and the rest -/
def matchItems : List Item → List Char → Option (List (Char × List Char) × List Char)
  | [], s => some ([], s)
  | .lit c :: is, x :: s => if x == c then matchItems is s else none
  | .lit _ :: _, [] => none
  | .ws :: is, s =>
    let n := (s.takeWhile isStripWs).length
    -- greedy `\s+` with backtracking: n, n-1, …, 1 white-space characters
    (List.range n).reverse.findSome? fun k => matchItems is (s.drop (k + 1))
  | .dir c :: is, s =>
    match alts c with
    | none => none
    | some as =>
      as.findSome? fun a =>
        match matchAlt a s with
        | some (m, r) => (matchItems is r).map fun (caps, rest) => ((c, m) :: caps, rest)
        | none => none

def numOf (s : List Char) : Nat := s.foldl (fun a c => 10 * a + (digitVal c).getD 0) 0

/-- a directive may occur at most once (`re.error` otherwise — escapes `Field.read`) -/
def dirsOnce (items : List Item) : Bool :=
  let ds := items.filterMap fun | .dir c => some c | _ => none
  ds.eraseDups.length == ds.length

/-- `datetime.strptime(data, fmt)`; `none` = `ValueError`. -/
def strptime (fmt data : List Char) : Option DT := do
  let items ← parseFmt (fmt.length + 1) fmt
  let (caps, rest) ← matchItems items data
  if !rest.isEmpty then none else
  let get (c : Char) : Option (List Char) := (caps.find? (·.1 == c)).map (·.2)
  let y := match get 'Y' with
    | some v => numOf v
    | none => match get 'y' with
      | some v => let n := numOf v; if n ≤ 68 then 2000 + n else 1900 + n
      | none => 1900
  let mo := ((get 'm').map numOf).getD 1
  let d := ((get 'd').map fun v => numOf (v.filter (· != ' '))).getD 1
  let h := ((get 'H').map numOf).getD 0
  let mi := ((get 'M').map numOf).getD 0
  let s := ((get 'S').map numOf).getD 0
  let us := ((get 'f').map fun v => numOf v * 10 ^ (6 - v.length)).getD 0
  -- `%S` accepts 60/61 in the regex; `datetime` then rejects them
  let t : DT := ⟨y, mo, d, h, mi, s, us⟩
  if t.valid then some t else none

def pad (w : Nat) (n : Nat) : List Char :=
  let ds := natDigits n
  List.replicate (w - ds.length) '0' ++ ds

/-- `value.strftime(fmt)` for the modelled directives (year ≥ 1000: glibc pads
`%Y` only from there on). `none` = unmodelled directive. -/
def strftime : Nat → List Char → DT → Option (List Char)
  | 0, _, _ => none
  | _, [], _ => some []
  | f + 1, '%' :: c :: r, t =>
    let piece : Option (List Char) :=
      match c with
      | 'Y' => some (natDigits t.y)
      | 'm' => some (pad 2 t.mo)
      | 'd' => some (pad 2 t.d)
      | 'H' => some (pad 2 t.h)
      | 'M' => some (pad 2 t.mi)
      | 'S' => some (pad 2 t.s)
      | 'y' => some (pad 2 (t.y % 100))
      | 'f' => some (pad 6 t.us)
      | '%' => some ['%']
      | _ => none
    match piece, strftime f r t with
    | some p, some q => some (p ++ q)
    | _, _ => none
  | _, ['%'], _ => none
  | f + 1, c :: r, t => (strftime f r t).map (c :: ·)

end Cfi.Date
