import Cfi.Text
/-! `io.StringIO` / `io.BytesIO` as `(content, position)`. -/
namespace Cfi

structure Stream (α : Type) where
  content : List α
  pos : Nat
  deriving Repr

namespace Stream
variable {α : Type}

def rest (s : Stream α) : List α := s.content.drop s.pos

/-- `read(n)` -/
def read (s : Stream α) (n : Nat) : List α × Stream α :=
  let d := s.rest.take n
  (d, { s with pos := s.pos + d.length })

/-- `readline()`: up to and including the next newline, or to the end -/
def lineOf [BEq α] (nl : α) : List α → List α
  | [] => []
  | c :: cs => if c == nl then [c] else c :: lineOf nl cs

def readline [BEq α] (nl : α) (s : Stream α) : List α × Stream α :=
  let l := lineOf nl s.rest
  (l, { s with pos := s.pos + l.length })

def seek (s : Stream α) (p : Nat) : Stream α := { s with pos := p }
def tell (s : Stream α) : Nat := s.pos

/-- `write(data)` at the end (the writers only ever append) -/
def write (s : Stream α) (d : List α) : Stream α :=
  { content := s.content ++ d, pos := s.pos + d.length }

end Stream
end Cfi
