import Cfi.Field
/-!
Model of `cfinterface/components/line.py` and
`cfinterface/adapters/components/line/repository.py`
(with the D2, D3 and D11 repairs).

The `Field` objects of a line carry a value slot each; `Repository.values = vs`
is `zip`: fields beyond `len(vs)` keep their slot.  `slots` makes that explicit.
-/
namespace Cfi
open Cfi.Text

/-- `for f, v in zip(self._fields, vals): f.value = v` on a slot vector of
length `n` (one slot per field). -/
def assign (slots : List Val) (vs : List Val) : List Val :=
  (vs.take slots.length) ++ slots.drop vs.length

/-- token-local geometry used in delimited mode (`start = 0`, `end = size`);
restored afterwards (D11 repair) -/
def Field.rebased (f : Field) : Field := { f with start := 0, stop := f.size }

/-! ### text, positional -/

/-- `__positional_reading` -/
def readPos (fs : List Field) (line : List Char) : List Val := fs.map (·.readText line)

/-- `line = ""; for field in fields: line = field.write(line)` -/
def writeFields : List Field → List Val → List Char → Except Exc (List Char)
  | [], _, line => .ok line
  | f :: fs, v :: vs, line => do
    let line ← f.writeText v line
    writeFields fs vs line
  | f :: fs, [], line => do
    let line ← f.writeText .none line      -- unreachable when one slot per field
    writeFields fs [] line

/-- `__positional_writing` (slots already assigned) -/
def writePos (fs : List Field) (vs : List Val) : Except Exc (List Char) :=
  (writeFields fs vs []).map (· ++ ['\n'])

/-! ### text, delimited -/

/-- `__delimted_reading` (D3 repaired: a field without a token reads `None`;
D11 repaired: geometry is only re-based for the duration of the token read) -/
def readDelim (fs : List Field) (line : List Char) (d : List Char) : List Val :=
  let tokens := (split line d).map strip
  let rec go : List Field → List (List Char) → List Val
    | [], _ => []
    | f :: fs, t :: ts => f.rebased.readText t :: go fs ts
    | _ :: fs, [] => Val.none :: go fs []
  go fs tokens

/-- `__delimted_writing` -/
def writeDelim (fs : List Field) (vs : List Val) (d : List Char) : Except Exc (List Char) := do
  let parts ← (fs.zip vs).mapM fun (f, v) => (f.rebased.writeText v []).map strip
  pure (join d parts ++ ['\n'])

/-! ### binary -/

def readBinLine (fs : List Field) (line : List UInt8) : List Val := fs.map (·.readBin line)

def writeFieldsBin : List Field → List Val → List UInt8 → Except Exc (List UInt8)
  | [], _, line => .ok line
  | f :: fs, v :: vs, line => do
    let line ← f.writeBin v line
    writeFieldsBin fs vs line
  | f :: fs, [], line => do
    let line ← f.writeBin .none line
    writeFieldsBin fs [] line

def writeBinLine (fs : List Field) (vs : List Val) : Except Exc (List UInt8) := writeFieldsBin fs vs []

/-! ### the `Line` object -/

inductive Storage where
  | text
  | binary
  deriving DecidableEq, Repr

/-- every storage string except the generated binary key(s) selects the textual adapter -/
def Storage.ofString (s : String) : Storage :=
  if (Cfi.Generated.binaryKeys.getD 1 []).contains s then .binary else .text

/-- `str` or `bytes` -/
inductive Data where
  | str (s : List Char)
  | bytes (b : List UInt8)
  deriving DecidableEq, Repr

inductive Delim where
  | none
  | str (d : List Char)
  | bytes (d : List UInt8)
  deriving DecidableEq, Repr

structure Line where
  fields : List Field
  delimiter : Delim
  storage : Storage
  deriving DecidableEq, Repr

/-- `Line.read(line)` → the value list (the new slot contents) -/
def Line.read (l : Line) (data : Data) : Except Exc (List Val) :=
  match l.storage, data, l.delimiter with
  | .text, .str s, .str d => if d.isEmpty then .error .valueError else .ok (readDelim l.fields s d)
  | .text, .str s, .none => .ok (readPos l.fields s)
  | .text, _, _ => .ok []
  | .binary, .bytes b, _ => .ok (readBinLine l.fields b)
  | .binary, .str _, _ => .error .typeError     -- every field's `_textual_read` still runs; not modelled further

/-- `Line.write(values)` given the current slots -/
def Line.write (l : Line) (slots : List Val) (vs : List Val) : Except Exc Data :=
  let vals := assign slots vs
  match l.storage, l.delimiter with
  | .text, .str d => (writeDelim l.fields vals d).map .str
  | .text, _ => (writePos l.fields vals).map .str
  | .binary, _ => (writeBinLine l.fields vals).map .bytes

/-- `Line.size` (`sum(f.size for f in fields)`; kept in step by the setters, D2) -/
def Line.size (l : Line) : Nat := (l.fields.map (·.size)).sum

end Cfi
