/-
Model of `cfinterface/data/{registerdata,blockdata,sectiondata}.py`.

One model serves the three container classes (they are textually the same
code up to the element type; the two guards in which they differ are noted at
`addAfter`).  Object identity is a `Nat` id; the `previous`/`next` attributes of
the elements are the two finite maps `prev`/`next`; `root`/`head` are the two
private attributes of the container.  Element *values* do not occur here: the
(repaired) code decides everything by identity.  The pinned code, which used
`==`, is `Cfi/Legacy.lean`.
-/
namespace Cfi.Container

abbrev Id := Nat

/-- Finite-map update. -/
def upd (f : Id → Option Id) (k : Id) (v : Option Id) : Id → Option Id :=
  fun x => if x = k then v else f x

@[simp] theorem upd_same (f k v) : upd f k v k = v := by simp [upd]
theorem upd_other (f k v x) (h : x ≠ k) : upd f k v x = f x := by simp [upd, h]

structure Heap where
  prev : Id → Option Id
  next : Id → Option Id
  root : Id
  head : Id

/-- `RegisterData(root)`; a freshly constructed element has no links. -/
def init (r : Id) : Heap := ⟨fun _ => none, fun _ => none, r, r⟩

def Heap.setNext (s : Heap) (k : Id) (v : Option Id) : Heap := { s with next := upd s.next k v }
def Heap.setPrev (s : Heap) (k : Id) (v : Option Id) : Heap := { s with prev := upd s.prev k v }

/--
```
if before is self.__root: self.__root = new
else:
    if before.previous: before.previous.next = new
new.previous = before.previous
before.previous = new
new.next = before
```
-/
def addBefore (s : Heap) (b n : Id) : Heap :=
  let s1 : Heap :=
    if b = s.root then { s with root := n }
    else match s.prev b with
      | some p => s.setNext p (some n)
      | none => s
  let s2 := s1.setPrev n (s1.prev b)
  let s3 := s2.setPrev b (some n)
  s3.setNext n (some b)

/--
```
if after is self.__head: self.__head = new
else:
    if after.next: after.next.previous = new      # RegisterData: unguarded
new.next = after.next
after.next = new
new.previous = after
```
`RegisterData` dereferences `after.next` without the guard; by
`Repr.next_ne_none` a member other than the last always has a successor, so the
two variants coincide on every state the property quantifies over.
-/
def addAfter (s : Heap) (a n : Id) : Heap :=
  let s1 : Heap :=
    if a = s.head then { s with head := n }
    else match s.next a with
      | some x => s.setPrev x (some n)
      | none => s
  let s2 := s1.setNext n (s1.next a)
  let s3 := s2.setNext a (some n)
  s3.setPrev n (some a)

def prepend (s : Heap) (n : Id) : Heap := addBefore s s.root n
def append (s : Heap) (n : Id) : Heap := addAfter s s.head n

/-- `if r.previous is not None: r.previous.next = r.next` -/
def unlinkPrev (s : Heap) (r : Id) : Heap :=
  match s.prev r with
  | some p => s.setNext p (s.next r)
  | none => s

/-- `if r.next is not None: r.next.previous = r.previous` -/
def unlinkNext (s : Heap) (r : Id) : Heap :=
  match s.next r with
  | some x => s.setPrev x (s.prev r)
  | none => s

/-- `if r is self.__root and r.next is not None: self.__root = r.next` -/
def moveRoot (s : Heap) (r : Id) : Heap :=
  if r = s.root then
    match s.next r with
    | some x => { s with root := x }
    | none => s
  else s

/-- `if r is self.__head and r.previous is not None: self.__head = r.previous` -/
def moveHead (s : Heap) (r : Id) : Heap :=
  if r = s.head then
    match s.prev r with
    | some p => { s with head := p }
    | none => s
  else s

/--
```
if r.previous is not None: r.previous.next = r.next
if r.next is not None: r.next.previous = r.previous
if r is self.__root and r.next is not None: self.__root = r.next
if r is self.__head and r.previous is not None: self.__head = r.previous
```
-/
def remove (s : Heap) (r : Id) : Heap :=
  moveHead (moveRoot (unlinkNext (unlinkPrev s r) r) r) r

/-- `while current: yield current; current = current.next`, with fuel. -/
def iterFrom (step : Id → Option Id) : Nat → Option Id → List Id
  | 0, _ => []
  | _, none => []
  | f + 1, some x => x :: iterFrom step f (step x)

/-- `list(container)`. -/
def iter (s : Heap) (fuel : Nat) : List Id := iterFrom s.next fuel (some s.root)

/-- Walk of `previous` links from `last`. -/
def iterBack (s : Heap) (fuel : Nat) : List Id := iterFrom s.prev fuel (some s.head)

/-- The operations of the public API. -/
inductive Op where
  | prepend (n : Id)
  | append (n : Id)
  | addBefore (b n : Id)
  | addAfter (a n : Id)
  | remove (r : Id)
  deriving Repr, DecidableEq

def step (s : Heap) : Op → Heap
  | .prepend n => prepend s n
  | .append n => append s n
  | .addBefore b n => addBefore s b n
  | .addAfter a n => addAfter s a n
  | .remove r => remove s r

def run (s : Heap) (ops : List Op) : Heap := ops.foldl step s

/-! ### The abstract list the container is supposed to be -/

def insertBefore : List Id → Id → Id → List Id
  | [], _, _ => []
  | x :: t, b, n => if x = b then n :: x :: t else x :: insertBefore t b n

def insertAfter : List Id → Id → Id → List Id
  | [], _, _ => []
  | x :: t, a, n => if x = a then x :: n :: t else x :: insertAfter t a n

def specStep (l : List Id) : Op → List Id
  | .prepend n => n :: l
  | .append n => l ++ [n]
  | .addBefore b n => insertBefore l b n
  | .addAfter a n => insertAfter l a n
  | .remove r => l.erase r

def specRun (l : List Id) (ops : List Op) : List Id := ops.foldl specStep l

/-- Precondition of an operation, stated on the abstract list: anchors are
members, the new element is not a member, and the sole remaining element is
never removed. -/
def OpOk (l : List Id) : Op → Bool
  | .prepend n => !l.contains n
  | .append n => !l.contains n
  | .addBefore b n => l.contains b && !l.contains n
  | .addAfter a n => l.contains a && !l.contains n
  | .remove r => l.contains r && decide (1 < l.length)

/-- Every operation of the history is admissible when it is issued. -/
def HistOk : List Id → List Op → Bool
  | _, [] => true
  | l, op :: ops => OpOk l op && HistOk (specStep l op) ops

/-- Neighbour functions of an abstract list. -/
def nextIn : List Id → Id → Option Id
  | [], _ => none
  | [_], _ => none
  | a :: b :: t, x => if a = x then some b else nextIn (b :: t) x

def prevIn : List Id → Id → Option Id
  | [], _ => none
  | [_], _ => none
  | a :: b :: t, x => if b = x then some a else prevIn (b :: t) x

/-! ### Queries (C08) -/

/-- Per-element facts the queries look at: the class of each element, the
subclass order (`isinstance`) and whether the element meets the keyword
filters (`all(getattr(r,k) == v for k,v in kwargs.items() if v is not None)`). -/
structure Facts where
  isInst : Id → Bool        -- isinstance(x, t)
  meets : Id → Bool         -- the filter closure

def ofType (F : Facts) (s : Heap) (fuel : Nat) : List Id :=
  (iter s fuel).filter F.isInst

inductive Shape where
  | none
  | one (x : Id)
  | many (xs : List Id)
  deriving Repr, DecidableEq

def shape : List Id → Shape
  | [] => .none
  | [x] => .one x
  | xs => .many xs

def getOfType (F : Facts) (s : Heap) (fuel : Nat) : Shape :=
  shape ((ofType F s fuel).filter F.meets)

/--
```
filtered = self.get_registers_of_type(t, **kwargs)
if isinstance(filtered, t) and isinstance(filtered, Register): self.remove(filtered)
elif isinstance(filtered, list):
    for r in filtered:
        if isinstance(r, Register) and r is not self.__root: self.remove(r)
```
-/
def removeOfType (F : Facts) (s : Heap) (fuel : Nat) : Heap :=
  match getOfType F s fuel with
  | .none => s
  | .one x => remove s x
  | .many xs => xs.foldl (fun s r => if r ≠ s.root then remove s r else s) s

end Cfi.Container
