import Cfi.Register
import Cfi.Regex
/-!
Model of the reading / writing drivers
(`cfinterface/reading/*.py`, `cfinterface/writing/*.py`) and of the default
elements, written as the code writes the loops: peek, test emptiness, rewind,
dispatch, delegate, append (with the D8, D9 and D10 repairs).

Blocks and sections are user code in cfinterface.  The model has the kinds the
harness defines in Python: raw-storing blocks delimited by begin/end patterns,
sections of a fixed number of lines, pattern-terminated sections.
-/
namespace Cfi
open Cfi.Text Cfi.Regex

/-! ## register files -/

inductive RElem where
  | typed (cls : Nat) (data : List Val)
  | dflt (data : Data)                     -- DefaultRegister holding str / bytes
  deriving DecidableEq, Repr

/-- the placeholder `DefaultRegister(data="")` every container starts with -/
def RElem.placeholder : RElem := .dflt (.str [])

def classifyText (regs : List RegDef) (l : List Char) : Option Nat :=
  regs.findIdx? (·.matchesText l)

/-- one element from one text line -/
def elemOfLine (regs : List RegDef) (l : List Char) : Except Exc RElem :=
  match classifyText regs l with
  | some i =>
    match regs[i]? with
    | some r => (r.readDataText l).map (RElem.typed i)
    | none => .ok (.dflt (.str l))
  | none => .ok (.dflt (.str l))

/-- `RegisterReading.__read_file` in text storage, on a stream -/
def readRegLoopText (regs : List RegDef) : Nat → Stream Char → Except Exc (List RElem)
  | 0, _ => .ok []
  | fuel + 1, s =>
    -- line = readline (position saved); if len(line) == 0: break; seek back
    let (peek, _) := s.readline '\n'
    if peek.isEmpty then .ok []
    else
      -- the element reads the line again from the restored position
      let (l, s') := s.readline '\n'
      do
        let e ← elemOfLine regs l
        let rest ← readRegLoopText regs fuel s'
        pure (e :: rest)

def readRegFileText (regs : List RegDef) (content : List Char) : Except Exc (List RElem) :=
  (readRegLoopText regs (content.length + 1) ⟨content, 0⟩).map (RElem.placeholder :: ·)

/-- binary storage: peek `linesize` bytes, dispatch on the identifier window,
a typed register reads `recordSize` bytes, a default register one byte (D10) -/
def readRegLoopBin (regs : List RegDef) (linesize : Nat) : Nat → Stream UInt8 → Except Exc (List RElem)
  | 0, _ => .ok []
  | fuel + 1, s =>
    let (peek, _) := s.read linesize
    if peek.isEmpty then .ok []
    else do
      let cls ← regs.foldr (fun r (acc : Nat → Except Exc (Option Nat)) (i : Nat) => do
          if ← r.matchesBin peek then pure (some i) else acc (i + 1)) (fun _ => pure none) 0
      match cls.bind (fun i => (regs[i]?).map (fun r => (i, r))) with
      | some (i, r) =>
        let (b, s') := s.read r.recordSize
        let d ← r.readDataBin b
        -- a record that consumes nothing would loop for ever: the model stops (C18 domain: size ≥ 1)
        if s'.pos ≤ s.pos then pure [RElem.typed i d]
        else do
          let rest ← readRegLoopBin regs linesize fuel s'
          pure (RElem.typed i d :: rest)
      | none =>
        let (b, s') := s.read 1
        let rest ← readRegLoopBin regs linesize fuel s'
        pure (RElem.dflt (.bytes b) :: rest)

def readRegFileBin (regs : List RegDef) (linesize : Nat) (content : List UInt8) : Except Exc (List RElem) :=
  (readRegLoopBin regs linesize (content.length + 1) ⟨content, 0⟩).map (RElem.placeholder :: ·)

/-- what one element writes (`None` = nothing) -/
def writeRElem (regs : List RegDef) (st : Storage) : RElem → Except Exc (Option Data)
  | .typed i data =>
    match regs[i]? with
    | some r => r.writeData st data
    | none => .error .other
  | .dflt d =>
    match st, d with
    | .text, .str _ => .ok (some d)
    | .text, .bytes _ => .error .typeError          -- `StringIO.write(bytes)`
    | .binary, .bytes _ => .ok (some d)
    | .binary, .str _ => .ok none                    -- only bytes are written in binary storage

def writeRegFileText (regs : List RegDef) (es : List RElem) : Except Exc (List Char) := do
  let parts ← es.mapM (writeRElem regs .text)
  pure (parts.flatMap fun p => match p with
    | some (.str s) => s
    | _ => [])

def writeRegFileBin (regs : List RegDef) (es : List RElem) : Except Exc (List UInt8) := do
  let parts ← es.mapM (writeRElem regs .binary)
  pure (parts.flatMap fun p => match p with
    | some (.bytes s) => s
    | _ => [])

/-! ## block files -/

/-- a raw-storing block type: `BEGIN_PATTERN`, `END_PATTERN` -/
structure BlockDef (α : Type) where
  begin_ : Pat α
  end_ : Pat α

inductive BElem (α : Type) where
  /-- a declared block holding the raw units it consumed (lines in text storage,
  one byte string in binary storage) -/
  | block (cls : Nat) (raw : List (List α))
  | dflt (line : List α)                    -- DefaultBlock: one raw line
  deriving DecidableEq, Repr

variable {α : Type} [DecidableEq α]

/-- harness `RawBlock.read` (text): lines up to and including the first one
matching `END_PATTERN`, or to the end of the input -/
def readRawBlock (nl : α) (b : BlockDef α) : Nat → Stream α → List (List α) × Stream α
  | 0, s => ([], s)
  | fuel + 1, s =>
    let (l, s') := s.readline nl
    if l.isEmpty then ([], s')
    else if search nl b.end_ l then ([l], s')
    else
      let (ls, s'') := readRawBlock nl b fuel s'
      (l :: ls, s'')

/-- harness `RawBinBlock.read` (binary): bytes one at a time up to and including
the first one matching `END_PATTERN`, or to the end; stored as one byte string -/
def readRawBinBlock (nl : α) (b : BlockDef α) : Nat → Stream α → List α × Stream α
  | 0, s => ([], s)
  | fuel + 1, s =>
    let (c, s') := s.read 1
    if c.isEmpty then ([], s')
    else if search nl b.end_ c then (c, s')
    else
      let (cs, s'') := readRawBinBlock nl b fuel s'
      (c ++ cs, s'')

/-- `BlockReading.__read_file`; `peekUnit` is the peeked data: the first line in
text storage (`linesize` ignored), `linesize` (= 1) bytes in binary storage.
Dispatch uses the file's storage (D8). -/
def readBlockLoop (nl : α) (binary : Bool) (blocks : List (BlockDef α)) : Nat → Stream α → List (BElem α)
  | 0, _ => []
  | fuel + 1, s =>
    let peek := if binary then (s.read 1).1 else (s.readline nl).1
    if peek.isEmpty then []
    else
      match blocks.findIdx? (fun b => search nl b.begin_ peek) with
      | some i =>
        match blocks[i]? with
        | some b =>
          if binary then
            let (raw, s') := readRawBinBlock nl b (s.content.length + 1) s
            if s'.pos ≤ s.pos then [] else BElem.block i [raw] :: readBlockLoop nl binary blocks fuel s'
          else
            let (raw, s') := readRawBlock nl b (s.content.length + 1) s
            if s'.pos ≤ s.pos then [] else BElem.block i raw :: readBlockLoop nl binary blocks fuel s'
        | none => []
      | none =>
        -- DefaultBlock.read: `file.readline()` (on a BytesIO as well)
        let (l, s') := s.readline nl
        BElem.dflt l :: readBlockLoop nl binary blocks fuel s'

/-- the placeholder is `DefaultBlock(data="")` -/
def readBlockFile (nl : α) (binary : Bool) (blocks : List (BlockDef α)) (content : List α) : List (BElem α) :=
  BElem.dflt [] :: readBlockLoop nl binary blocks (content.length + 1) ⟨content, 0⟩

/-- `BlockWriting`: raw blocks re-emit what they stored; `DefaultBlock.write`
writes its line if it is not empty -/
def writeBElem : BElem α → List α
  | .block _ raw => raw.flatten
  | .dflt l => l

def writeBlockFile (es : List (BElem α)) : List α := es.flatMap writeBElem

/-! ## section files (text storage) -/

inductive SecDef where
  | fixed (n : Nat)                         -- consumes `n` lines
  | until_ (end_ : Pat Char)                -- consumes up to and including a matching line

inductive SElem where
  | section_ (cls : Nat) (raw : List (List Char))
  | dflt (line : List Char)
  deriving DecidableEq, Repr

def readFixed : Nat → Stream Char → List (List Char) × Stream Char
  | 0, s => ([], s)
  | n + 1, s =>
    let (l, s') := s.readline '\n'
    if l.isEmpty then ([], s')
    else
      let (ls, s'') := readFixed n s'
      (l :: ls, s'')

def readUntil (p : Pat Char) : Nat → Stream Char → List (List Char) × Stream Char
  | 0, s => ([], s)
  | fuel + 1, s =>
    let (l, s') := s.readline '\n'
    if l.isEmpty then ([], s')
    else if search '\n' p l then ([l], s')
    else
      let (ls, s'') := readUntil p fuel s'
      (l :: ls, s'')

def readSection (d : SecDef) (s : Stream Char) : List (List Char) × Stream Char :=
  match d with
  | .fixed n => readFixed n s
  | .until_ p => readUntil p (s.content.length + 1) s

/-- the declared sections once each, in order, each from where the previous stopped -/
def readDeclared : List SecDef → Nat → Stream Char → List SElem × Stream Char
  | [], _, s => ([], s)
  | d :: ds, i, s =>
    let (raw, s') := readSection d s
    let (es, s'') := readDeclared ds (i + 1) s'
    (SElem.section_ i raw :: es, s'')

/-- then one default section per remaining line -/
def readLeftovers : Nat → Stream Char → List SElem
  | 0, _ => []
  | fuel + 1, s =>
    let (l, s') := s.readline '\n'
    if l.isEmpty then [] else SElem.dflt l :: readLeftovers fuel s'

def readSectionFile (secs : List SecDef) (content : List Char) : List SElem :=
  let (es, s) := readDeclared secs 0 ⟨content, 0⟩
  SElem.dflt [] :: (es ++ readLeftovers (content.length + 1) s)

def writeSElem : SElem → List Char
  | .section_ _ raw => raw.flatten
  | .dflt l => l

def writeSectionFile (es : List SElem) : List Char := es.flatMap writeSElem

end Cfi
