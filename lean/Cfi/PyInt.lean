import Cfi.Text
/-!
`str(int)` and `int(str)` as CPython 3.12 does them (DESIGN appendix A):
`[ws] [+-] digit (_? digit)* [ws]`, any Unicode `Nd` digit, the numeric white
space set (≠ `strip()`'s), at most 4300 digits.
-/
namespace Cfi.PyInt
open Cfi.Text

/-- decimal value of a Unicode `Nd` character -/
def digitVal (c : Char) : Option Nat :=
  Cfi.Generated.digitZeros.findSome? fun z =>
    if z ≤ c.toNat && c.toNat < z + 10 then some (c.toNat - z) else none

def natDigits (n : Nat) : List Char := (Nat.toDigits 10 n)

/-- `str(n)` -/
def pyStr (n : Int) : List Char :=
  match n with
  | .ofNat k => natDigits k
  | .negSucc k => '-' :: natDigits (k + 1)

/-- `digit (_? digit)*` — the digits and the unconsumed rest -/
def digitsGo (acc : List Nat) : List Char → List Nat × List Char
  | [] => (acc.reverse, [])
  | c :: r =>
    match digitVal c with
    | some d => digitsGo (d :: acc) r
    | none =>
      if c == '_' then
        match r with
        | c2 :: r2 =>
          match digitVal c2 with
          | some d2 => digitsGo (d2 :: acc) r2
          | none => (acc.reverse, c :: r)
        | [] => (acc.reverse, c :: r)
      else (acc.reverse, c :: r)

def digitsUS : List Char → Option (List Nat × List Char)
  | [] => none
  | c :: r =>
    match digitVal c with
    | none => none
    | some d => some (digitsGo [d] r)

def ofDigits (ds : List Nat) : Nat := ds.foldl (fun a d => 10 * a + d) 0

def sign : List Char → Bool × List Char
  | '+' :: r => (false, r)
  | '-' :: r => (true, r)
  | s => (false, s)

/-- `int(s)`; `none` = `ValueError`. -/
def pyInt (s : List Char) : Option Int :=
  let t := stripBy isNumWs s
  let (neg, t) := sign t
  match digitsUS t with
  | some (ds, []) =>
    if ds.length > 4300 then none
    else
      let n : Int := ofDigits ds
      some (if neg then -n else n)
  | _ => none

end Cfi.PyInt
