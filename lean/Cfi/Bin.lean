import Cfi.Dbl
/-!
Binary encodings used by the binary storage of cfinterface (numpy on a
little-endian machine): two's-complement integers of 2/4/8 bytes, IEEE-754
binary16/32/64, strict UTF-8.
-/
namespace Cfi.Bin
open Cfi

/-- little-endian bytes of `n < 256^w` -/
def leBytes : Nat → Nat → List UInt8
  | 0, _ => []
  | w + 1, n => UInt8.ofNat (n % 256) :: leBytes w (n / 256)

def ofLeBytes : List UInt8 → Nat
  | [] => 0
  | b :: bs => b.toNat + 256 * ofLeBytes bs

/-- `np.array([n], dtype=int{8w}).tobytes()`; `none` = `OverflowError`. -/
def encodeInt (w : Nat) (n : Int) : Option (List UInt8) :=
  let half : Int := 2 ^ (8 * w - 1)
  if -half ≤ n && n < half then
    some (leBytes w (if n ≥ 0 then n.toNat else (n + 2 ^ (8 * w)).toNat))
  else none

/-- `int(np.frombuffer(bs, dtype=int{8w}, count=1)[0])`; `none` = `ValueError`
(buffer shorter than one item). -/
def decodeInt (w : Nat) (bs : List UInt8) : Option Int :=
  if bs.length < w then none
  else
    let u := ofLeBytes (bs.take w)
    some (if u < 2 ^ (8 * w - 1) then (u : Int) else (u : Int) - 2 ^ (8 * w))

/-- parameters of an IEEE interchange format: exponent bits, fraction bits -/
structure Fmt where
  ebits : Nat
  fbits : Nat

def fmtOfWidth : Nat → Fmt
  | 2 => ⟨5, 10⟩
  | 4 => ⟨8, 23⟩
  | _ => ⟨11, 52⟩

def Fmt.bias (f : Fmt) : Int := 2 ^ (f.ebits - 1) - 1
/-- exponent of the unit in the last place of the smallest subnormal -/
def Fmt.emin (f : Fmt) : Int := 1 - f.bias - f.fbits
/-- largest exponent of an integer significand -/
def Fmt.emaxE (f : Fmt) : Int := f.bias - f.fbits

/-- canonical double form of `±m·2^e` (a value that is exactly representable as
a double, `e ≥ -1074`, `m < 2^53`) -/
def canonFin (neg : Bool) (m : Nat) (e : Int) : Dbl :=
  if m == 0 then .fin neg 0 (-1074)
  else
    let sh : Int := 52 - m.log2
    if sh ≥ 0 then
      if e - sh ≥ -1074 then .fin neg (m * 2 ^ sh.toNat) (e - sh)
      else .fin neg (m * 2 ^ (e + 1074).toNat) (-1074)
    else .fin neg m e

/-- numpy's cast of a double to the format (nearest, ties to even, overflow to
infinity), result again as an (exactly representable) double value. -/
def roundTo (f : Fmt) : Dbl → Dbl
  | .fin neg m e =>
    let r := if e ≥ 0 then Dbl.nearestG (f.fbits + 1) f.emin f.emaxE (m * 2 ^ e.toNat) 1
             else Dbl.nearestG (f.fbits + 1) f.emin f.emaxE m (2 ^ (-e).toNat)
    match r with
    | some (m', e') => canonFin neg m' e'
    | none => .inf neg
  | x => x

/-- bit pattern of a value that is representable in the format -/
def bitsOf (f : Fmt) : Dbl → Nat
  | .nan => (2 ^ f.ebits - 1) * 2 ^ f.fbits + 2 ^ (f.fbits - 1)
  | .inf neg => (if neg then 2 ^ (f.ebits + f.fbits) else 0) + (2 ^ f.ebits - 1) * 2 ^ f.fbits
  | .fin neg m e =>
    let s := if neg then 2 ^ (f.ebits + f.fbits) else 0
    if m == 0 then s
    else
      -- value m·2^e with m having 53 bits (or subnormal double): bring to fbits+1 bits
      let lg := m.log2
      let e' : Int := e + lg - f.fbits           -- exponent when the significand has fbits+1 bits
      if e' < f.emin then
        -- subnormal in the target format: significand = m·2^(e - emin)
        s + (if e ≥ f.emin then m * 2 ^ (e - f.emin).toNat else m / 2 ^ (f.emin - e).toNat)
      else
        let sig := if lg ≥ f.fbits then m / 2 ^ (lg - f.fbits) else m * 2 ^ (f.fbits - lg)
        s + (sig - 2 ^ f.fbits) + (e' - f.emin + 1).toNat * 2 ^ f.fbits

/-- value of a bit pattern of the format, as a double -/
def ofBitsF (f : Fmt) (n : Nat) : Dbl :=
  let neg := n / 2 ^ (f.ebits + f.fbits) % 2 == 1
  let ex := (n / 2 ^ f.fbits) % 2 ^ f.ebits
  let fr := n % 2 ^ f.fbits
  if ex == 2 ^ f.ebits - 1 then (if fr == 0 then .inf neg else .nan)
  else
    let (m, e) : Nat × Int := if ex == 0 then (fr, f.emin) else (fr + 2 ^ f.fbits, f.emin + (ex - 1))
    canonFin neg m e

/-- `np.array([x], dtype=float{8w}).tobytes()` -/
def encodeFloat (w : Nat) (x : Dbl) : List UInt8 :=
  let f := fmtOfWidth w
  leBytes w (bitsOf f (roundTo f x))

/-- `float(np.frombuffer(bs, dtype=float{8w}, count=1)[0])` -/
def decodeFloat (w : Nat) (bs : List UInt8) : Option Dbl :=
  if bs.length < w then none
  else some (ofBitsF (fmtOfWidth w) (ofLeBytes (bs.take w)))

/-! ### UTF-8 -/

def utf8EncodeChar (c : Char) : List UInt8 :=
  let n := c.toNat
  if n < 0x80 then [UInt8.ofNat n]
  else if n < 0x800 then [UInt8.ofNat (0xC0 + n / 64), UInt8.ofNat (0x80 + n % 64)]
  else if n < 0x10000 then
    [UInt8.ofNat (0xE0 + n / 4096), UInt8.ofNat (0x80 + n / 64 % 64), UInt8.ofNat (0x80 + n % 64)]
  else
    [UInt8.ofNat (0xF0 + n / 262144), UInt8.ofNat (0x80 + n / 4096 % 64), UInt8.ofNat (0x80 + n / 64 % 64),
     UInt8.ofNat (0x80 + n % 64)]

def utf8Encode (s : List Char) : List UInt8 := s.flatMap utf8EncodeChar

def isCont (b : UInt8) : Bool := 0x80 ≤ b && b ≤ 0xBF

/-- strict UTF-8 decoding (`bytes.decode("utf-8")`); `none` = `UnicodeDecodeError`. -/
def utf8Decode : Nat → List UInt8 → Option (List Char)
  | 0, _ => none
  | _, [] => some []
  | f + 1, b :: bs =>
    if b < 0x80 then (utf8Decode f bs).map (Char.ofNat b.toNat :: ·)
    else if 0xC2 ≤ b && b ≤ 0xDF then
      match bs with
      | b1 :: r =>
        if isCont b1 then (utf8Decode f r).map (Char.ofNat ((b.toNat - 0xC0) * 64 + (b1.toNat - 0x80)) :: ·)
        else none
      | _ => none
    else if 0xE0 ≤ b && b ≤ 0xEF then
      match bs with
      | b1 :: b2 :: r =>
        let n := (b.toNat - 0xE0) * 4096 + (b1.toNat - 0x80) * 64 + (b2.toNat - 0x80)
        if isCont b1 && isCont b2 && n ≥ 0x800 && !(0xD800 ≤ n && n ≤ 0xDFFF) then
          (utf8Decode f r).map (Char.ofNat n :: ·)
        else none
      | _ => none
    else if 0xF0 ≤ b && b ≤ 0xF4 then
      match bs with
      | b1 :: b2 :: b3 :: r =>
        let n := (b.toNat - 0xF0) * 262144 + (b1.toNat - 0x80) * 4096 + (b2.toNat - 0x80) * 64 + (b3.toNat - 0x80)
        if isCont b1 && isCont b2 && isCont b3 && n ≥ 0x10000 && n ≤ 0x10FFFF then
          (utf8Decode f r).map (Char.ofNat n :: ·)
        else none
      | _ => none
    else none

def decodeUtf8 (bs : List UInt8) : Option (List Char) := utf8Decode (bs.length + 1) bs

end Cfi.Bin
