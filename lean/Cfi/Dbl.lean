import Cfi.PyInt
/-!
IEEE-754 binary64 values and the CPython operations cfinterface applies to them,
computed *exactly* with integer arithmetic (Lean's `Float` is not used):

* `pyRound x nd`        — `round(x, nd)` (correctly rounded decimal, half-even on
                          the exact binary value, then nearest double)
* `fmtF x d`            — `'{:.{d}f}'.format(x)`
* `fmtE x d upper`      — `'{:.{d}e}'.format(x)` / `E`
* `pyFloat s`           — `float(s)`
* `floorLog10`          — `floor(log10(|x|))` in exact arithmetic (libm's `log10`
                          may round up just below a power of ten; see DESIGN A)

A finite double is `fin neg m e` with value `±m·2^e` in canonical form:
`m < 2^53`, and `e = -1074 ∧ m < 2^52` (zero / subnormal) or `2^52 ≤ m`.
-/
namespace Cfi

inductive Dbl where
  | fin (neg : Bool) (m : Nat) (e : Int)
  | inf (neg : Bool)
  | nan
  deriving DecidableEq, Repr

namespace Dbl
open Cfi.Text Cfi.PyInt

def ofBits (n : Nat) : Dbl :=
  let neg := n / 2 ^ 63 % 2 == 1
  let ex := (n / 2 ^ 52) % 2048
  let fr := n % 2 ^ 52
  if ex == 2047 then (if fr == 0 then .inf neg else .nan)
  else if ex == 0 then .fin neg fr (-1074)
  else .fin neg (fr + 2 ^ 52) (Int.ofNat ex - 1075)

def toBits : Dbl → Nat
  | .nan => 0x7ff8000000000000
  | .inf neg => (if neg then 2 ^ 63 else 0) + 0x7ff0000000000000
  | .fin neg m e =>
    (if neg then 2 ^ 63 else 0) + (if m < 2 ^ 52 then m else (m - 2 ^ 52) + (e + 1075).toNat * 2 ^ 52)

def isNaN : Dbl → Bool
  | .nan => true
  | _ => false

def isZero : Dbl → Bool
  | .fin _ 0 _ => true
  | _ => false

/-- `⌊a/b⌉` with ties to even (`b > 0`). -/
def divHE (a b : Nat) : Nat :=
  let q := a / b
  let r := a % b
  if 2 * r < b then q else if 2 * r > b then q + 1 else if q % 2 == 0 then q else q + 1

/-- `m·2^e·10^d` as a fraction `(num, den)`. -/
def frac (m : Nat) (e d : Int) : Nat × Nat :=
  let (n1, d1) := if e ≥ 0 then (m * 2 ^ e.toNat, 1) else (m, 2 ^ (-e).toNat)
  if d ≥ 0 then (n1 * 10 ^ d.toNat, d1) else (n1, d1 * 10 ^ (-d).toNat)

/-- `m·2^e·10^d` rounded half-even to an integer. -/
def roundScaled (m : Nat) (e d : Int) : Nat :=
  let (a, b) := frac m e d
  divHE a b

/-- `2^k ≤ num/den` -/
def leP2 (num den : Nat) (k : Int) : Bool :=
  if k ≥ 0 then den * 2 ^ k.toNat ≤ num else den ≤ num * 2 ^ (-k).toNat

/-- `⌊log2 (num/den)⌋` for `num, den > 0`: the estimate from the bit lengths, corrected by one -/
def floorLog2 (num den : Nat) : Int :=
  let k0 : Int := Int.ofNat num.log2 - Int.ofNat den.log2
  if leP2 num den k0 then (if leP2 num den (k0 + 1) then k0 + 1 else k0) else k0 - 1

/-- `num/den/2^e` rounded half-even to an integer -/
def roundAt (num den : Nat) (e : Int) : Nat :=
  if e ≥ 0 then divHE num (den * 2 ^ e.toNat) else divHE (num * 2 ^ (-e).toNat) den

/-- The `prec`-bit binary floating-point number nearest to `num/den` (ties to
even) whose unit in the last place is at least `2^emin`; `none` on overflow past
`emaxE` (the largest exponent of the integer significand). -/
def nearestG (prec : Nat) (emin emaxE : Int) (num den : Nat) : Option (Nat × Int) :=
  if num == 0 then some (0, emin) else
  let k := floorLog2 num den
  let e : Int := max (k - (Int.ofNat prec - 1)) emin
  let m := roundAt num den e
  let (m, e) := if m == 2 ^ prec then (2 ^ (prec - 1), e + 1) else (m, e)
  if e > emaxE then none else some (m, e)

/-- correctly rounded `num/den` as a double -/
def nearest (num den : Nat) : Option (Nat × Int) := nearestG 53 (-1074) 971 num den

/-- `round(x, nd)`; `none` = `OverflowError`. -/
def pyRound (x : Dbl) (nd : Int) : Option Dbl :=
  match x with
  | .fin neg m e =>
    -- CPython's shortcuts (Objects/floatobject.c: NDIGITS_MAX = 323, NDIGITS_MIN = -308)
    if nd > 323 then some x
    else if nd < -308 then some (.fin neg 0 (-1074))
    else
      let n := roundScaled m e nd
      let r := if nd ≥ 0 then nearest n (10 ^ nd.toNat) else nearest (n * 10 ^ (-nd).toNat) 1
      match r with
      | some (m', e') => some (.fin neg m' e')
      | none => none
  | y => some y

def zeros (n : Nat) : List Char := List.replicate n '0'

/-- `'{:.{d}f}'.format(x)` (`upper` = the `F` presentation type) -/
def fmtF (x : Dbl) (d : Nat) (upper : Bool := false) : List Char :=
  match x with
  | .fin neg m e =>
    let n := roundScaled m e d
    let ds := natDigits n
    let ds := if ds.length ≤ d then zeros (d + 1 - ds.length) ++ ds else ds
    let ip := ds.take (ds.length - d)
    let fp := ds.drop (ds.length - d)
    (if neg then ['-'] else []) ++ ip ++ (if d > 0 then '.' :: fp else [])
  | .inf neg => (if neg then ['-'] else []) ++ (if upper then "INF".toList else "inf".toList)
  | .nan => if upper then "NAN".toList else "nan".toList

/-- exact `⌊log10 (m·2^e)⌋` for `m > 0` -/
def floorLog10 (m : Nat) (e : Int) : Int :=
  -- is m·2^e ≥ 10^k ?
  let ge (k : Int) : Bool := let (a, b) := frac m e (-k); b ≤ a
  let est : Int := ((Int.ofNat m.log2 + e) * 30103) / 100000
  let rec up (k : Int) : Nat → Int
    | 0 => k
    | f + 1 => if ge (k + 1) then up (k + 1) f else k
  let rec down (k : Int) : Nat → Int
    | 0 => k
    | f + 1 => if ge k then k else down (k - 1) f
  up (down est 5) 5

/-- `'{:.{d}e}'.format(x)` -/
def fmtE (x : Dbl) (d : Nat) (upper : Bool) : List Char :=
  match x with
  | .fin neg m e =>
    let sgn : List Char := if neg then ['-'] else []
    let ech : Char := if upper then 'E' else 'e'
    if m == 0 then sgn ++ ['0'] ++ (if d > 0 then '.' :: zeros d else []) ++ [ech, '+', '0', '0']
    else
      let k := floorLog10 m e
      let n := roundScaled m e (Int.ofNat d - k)
      let (n, k) := if n == 10 ^ (d + 1) then (10 ^ d, k + 1) else (n, k)
      let ds := natDigits n
      let ex := natDigits k.natAbs
      let ex := if ex.length < 2 then zeros (2 - ex.length) ++ ex else ex
      sgn ++ ds.take 1 ++ (if d > 0 then '.' :: ds.drop 1 else []) ++ [ech, if k < 0 then '-' else '+'] ++ ex
  | .inf neg => (if neg then ['-'] else []) ++ (if upper then "INF".toList else "inf".toList)
  | .nan => if upper then "NAN".toList else "nan".toList

def lower (c : Char) : Char := if 'A' ≤ c && c ≤ 'Z' then Char.ofNat (c.toNat + 32) else c

/-- the double nearest to `±digits·10^(ex − nf)` (`nf` of the digits stand after the point);
magnitudes beyond `10^±400` are decided without building the power -/
def ofDecimal (neg : Bool) (all : List Nat) (nf : Nat) (ex : Int) : Dbl :=
  let ds := all.dropWhile (· == 0)
  if ds.isEmpty then .fin neg 0 (-1074) else
  let n := ofDigits ds
  let e10 : Int := ex - nf
  let adj : Int := e10 + ds.length
  if adj > 400 then .inf neg
  else if adj < -400 then .fin neg 0 (-1074)
  else
    let r := if e10 ≥ 0 then nearest (n * 10 ^ e10.toNat) 1 else nearest n (10 ^ (-e10).toNat)
    match r with
    | some (m, e) => .fin neg m e
    | none => .inf neg

/-- `float(s)`; `none` = `ValueError`. -/
def pyFloat (s : List Char) : Option Dbl :=
  let t := stripBy isNumWs s
  let (neg, t) := sign t
  let tl := t.map lower
  if tl == "inf".toList || tl == "infinity".toList then some (.inf neg)
  else if tl == "nan".toList then some .nan
  else
    let (ip, rest, hadInt) : List Nat × List Char × Bool :=
      match digitsUS t with
      | some (ds, r) => (ds, r, true)
      | none => ([], t, false)
    let (fp, rest, hadFrac) : List Nat × List Char × Bool :=
      match rest with
      | '.' :: r =>
        (match digitsUS r with
         | some (d, r') => (d, r', true)
         | none => ([], r, false))
      | r => ([], r, false)
    if !hadInt && !hadFrac then none else
    let expo : Option (Int × List Char) :=
      match rest with
      | c :: r =>
        if c == 'e' || c == 'E' then
          let (eneg, r) := sign r
          match digitsUS r with
          | some (d, r') =>
            -- clamp: only the magnitude class matters beyond ±10^6
            let d' := d.dropWhile (· == 0)
            let v : Int := if d'.length > 7 then 10 ^ 7 else ofDigits d'
            some (if eneg then -v else v, r')
          | none => none
        else some (0, c :: r)
      | [] => some (0, [])
    match expo with
    | some (ex, []) => some (ofDecimal neg (ip ++ fp) fp.length ex)
    | _ => none

end Dbl
end Cfi
