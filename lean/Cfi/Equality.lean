import Cfi.Field
/-!
Model of `__eq__` of elements, containers and files.

```
Register.__eq__:      isinstance(o, self.__class__) and o.data == self.data
RegisterData.__eq__:  isinstance(o, RegisterData); len(self) == len(o); all(r1 == r2 for zip)
RegisterFile.__eq__:  isinstance(o, RegisterFile) and self.data == o.data
```
For `a == b` with `type(b)` a proper subclass of `type(a)` CPython calls
`b.__eq__(a)` first, so with the `isinstance(o, self.__class__)` idiom two
elements are equal iff they have *exactly* the same class and equal data
(DESIGN appendix A).  Blocks and sections use the same idiom in the harness.
-/
namespace Cfi.Equality

structure Elem where
  cls : Nat
  data : List Val
  deriving DecidableEq, Repr

def elemEq (x y : Elem) : Bool := x.cls == y.cls && x.data == y.data

/-- container equality as the code computes it: length check, then pairwise -/
def seqEq (a b : List Elem) : Bool :=
  a.length == b.length && (a.zip b).all fun (x, y) => elemEq x y

/-- right-hand sides of another kind: numbers, None, strings, files of another family -/
inductive Rhs where
  | same (b : List Elem)
  | foreign
  deriving Repr

def fileEq (a : List Elem) : Rhs → Bool
  | .same b => seqEq a b
  | .foreign => false

end Cfi.Equality
