import Cfi.Register
/-!
Object store with explicit sharing (DESIGN 4.10), for C14.

* the `Field` objects of a register class's `LINE` are shared by every instance
  of the class (and by every class built on the same `Line`): their value slots
  are one scratch vector `slots`;
* a register instance owns its `data` list (`Line.read` returns a NEW list, the
  constructor builds `[None] * n`);
* a file owns its container (a fresh one per constructor call, D9), represented
  by the abstract member list (C07 ties the links to that list).
Objects are named by explicit ids so that histories can be filtered.
-/
namespace Cfi.World
open Cfi

structure World where
  reg : RegDef                         -- the shared line layout (identifier + LINE)
  slots : List Val                     -- scratch: value slots of the shared fields
  regs : Nat → Option (List Val)       -- register id ↦ its data
  files : Nat → Option (List Nat)      -- file id ↦ member register ids, in order

inductive Op where
  | newReg (i : Nat) (data : Option (List Val))     -- `R()` / `R(data=…)`
  | regRead (i : Nat) (line : List Char)            -- `r.read(StringIO(line))`
  | regWrite (i : Nat)                              -- `r.write(buffer)`
  | regSet (i k : Nat) (v : Val)                    -- `r.data[k] = v`
  | newFile (f : Nat)                               -- `File()`
  | fileAppend (f i : Nat)                          -- `file.data.append(r_i)`
  | fileRemoveLast (f : Nat)
  | fileWrite (f : Nat)                             -- `file.write(buffer)`

def upd {α} (m : Nat → Option α) (k : Nat) (v : α) : Nat → Option α := fun x => if x = k then some v else m x

/-- the text a register writes: its own data loaded into the shared fields, then rendered -/
def regOutput (w : World) (data : List Val) : Except Exc (Option Data) :=
  if RegDef.isEmpty data then .ok none
  else
    let l := w.reg.line .text
    (l.write (Val.none :: w.slots) (Val.str w.reg.ident :: data)).map some

/-- one operation: new world and what the operation returns (written text) -/
def step (w : World) : Op → World × Option (Except Exc (Option Data))
  | .newReg i data =>
    ({ w with regs := upd w.regs i (data.getD (w.reg.fields.map fun _ => Val.none)) }, none)
  | .regRead i line =>
    match w.regs i with
    | none => (w, none)
    | some _ =>
      match w.reg.readDataText line with
      | .ok d => ({ w with regs := upd w.regs i d, slots := d }, none)     -- the fields keep what was read
      | .error _ => (w, none)
  | .regWrite i =>
    match w.regs i with
    | none => (w, none)
    | some d =>
      -- `Repository.values = values` leaves the register's data in the shared fields
      ({ w with slots := (assign (Val.none :: w.slots) (Val.str w.reg.ident :: d)).tail }, some (regOutput w d))
  | .regSet i k v =>
    match w.regs i with
    | none => (w, none)
    | some d => ({ w with regs := upd w.regs i (d.set k v) }, none)
  | .newFile f => ({ w with files := upd w.files f [] }, none)
  | .fileAppend f i =>
    match w.files f with
    | none => (w, none)
    | some ms => ({ w with files := upd w.files f (ms ++ [i]) }, none)
  | .fileRemoveLast f =>
    match w.files f with
    | none => (w, none)
    | some ms => ({ w with files := upd w.files f ms.dropLast }, none)
  | .fileWrite f => (w, none)            -- output = the members' outputs in order; members' data untouched

def run (w : World) (ops : List Op) : World := ops.foldl (fun w op => (step w op).1) w

/-- the objects an operation names -/
def namesReg : Op → Nat → Bool
  | .newReg i _, j | .regRead i _, j | .regWrite i, j | .regSet i _ _, j => i == j
  | _, _ => false

def namesFile : Op → Nat → Bool
  | .newFile f, g | .fileAppend f _, g | .fileRemoveLast f, g | .fileWrite f, g => f == g
  | _, _ => false

end Cfi.World
