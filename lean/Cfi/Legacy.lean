import Cfi.Container
/-!
Pinned-tree (commit 18bf73c) variants of functions that were repaired by `fix:`
commits, kept to document — by kernel-checked counter-examples in
`Props/Legacy.lean` — that the pinned code violated the properties.
-/
namespace Cfi.Legacy
open Cfi.Container

/-- Pinned `add_before`: `if before == self.__root` (value equality `eqv`). -/
def addBefore (eqv : Id → Id → Bool) (s : Heap) (b n : Id) : Heap :=
  let s1 : Heap :=
    if eqv b s.root then { s with root := n }
    else match s.prev b with
      | some p => s.setNext p (some n)
      | none => s
  let s2 := s1.setPrev n (s1.prev b)
  let s3 := s2.setPrev b (some n)
  s3.setNext n (some b)

/-- Pinned `add_after`: `if after == self.__head`. -/
def addAfter (eqv : Id → Id → Bool) (s : Heap) (a n : Id) : Heap :=
  let s1 : Heap :=
    if eqv a s.head then { s with head := n }
    else match s.next a with
      | some x => s.setPrev x (some n)
      | none => s
  let s2 := s1.setNext n (s1.next a)
  let s3 := s2.setNext a (some n)
  s3.setPrev n (some a)

/-- Pinned `remove`: `root`/`head` are never moved. -/
def remove (s : Heap) (r : Id) : Heap := unlinkNext (unlinkPrev s r) r

/-- Pinned `remove_*_of_type` loop: `r != self.__root` (value inequality). -/
def removeMany (eqv : Id → Id → Bool) (s : Heap) (xs : List Id) : Heap :=
  xs.foldl (fun s r => if !eqv r s.root then remove s r else s) s

end Cfi.Legacy
