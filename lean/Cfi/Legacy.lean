import Cfi.Container
import Cfi.Files
/-!
Pinned-tree (commit 18bf73c) variants of functions that were repaired by `fix:`
commits, kept to document — by kernel-checked counter-examples in
`Props/Legacy.lean` — that the pinned code violated the properties.
-/
namespace Cfi.Legacy
open Cfi.Container

/-- Pinned `add_before`: `if before == self.__root` (value equality `eqv`). -/
def addBefore (eqv : Id → Id → Bool) (s : Heap) (b n : Id) : Heap :=
  let s1 : Heap :=
    if eqv b s.root then { s with root := n }
    else match s.prev b with
      | some p => s.setNext p (some n)
      | none => s
  let s2 := s1.setPrev n (s1.prev b)
  let s3 := s2.setPrev b (some n)
  s3.setNext n (some b)

/-- Pinned `add_after`: `if after == self.__head`. -/
def addAfter (eqv : Id → Id → Bool) (s : Heap) (a n : Id) : Heap :=
  let s1 : Heap :=
    if eqv a s.head then { s with head := n }
    else match s.next a with
      | some x => s.setPrev x (some n)
      | none => s
  let s2 := s1.setNext n (s1.next a)
  let s3 := s2.setNext a (some n)
  s3.setPrev n (some a)

/-- Pinned `remove`: `root`/`head` are never moved. -/
def remove (s : Heap) (r : Id) : Heap := unlinkNext (unlinkPrev s r) r

/-- Pinned `remove_*_of_type` loop: `r != self.__root` (value inequality). -/
def removeMany (eqv : Id → Id → Bool) (s : Heap) (xs : List Id) : Heap :=
  xs.foldl (fun s r => if !eqv r s.root then remove s r else s) s

end Cfi.Legacy

/-! ### fields, lines, registers, reading loops (pinned code) -/
namespace Cfi.Legacy
open Cfi Cfi.Text

/-- D1: pinned `FloatField._textual_write` ignored the configured separator -/
def renderTextFloat (f : Field) (v : Val) : Except Exc (List Char) :=
  match f.kind with
  | .flt dec fmt _ => renderText { f with kind := .flt dec fmt ['.'] } v
  | _ => renderText f v

/-- D3: pinned `__delimted_reading`: `zip(fields, tokens)` — a field without a
token keeps the value its slot held before -/
def readDelim (fs : List Field) (slots : List Val) (line d : List Char) : List Val :=
  let tokens := (split line d).map strip
  let rec go : List Field → List Val → List (List Char) → List Val
    | [], _, _ => []
    | f :: fs, _ :: ss, t :: ts => f.rebased.readText t :: go fs ss ts
    | f :: fs, [], t :: ts => f.rebased.readText t :: go fs [] ts
    | _ :: fs, s :: ss, [] => s :: go fs ss []
    | _ :: fs, [], [] => Val.none :: go fs [] []
  go fs slots tokens

/-- D11: pinned delimited mode re-based the shared fields permanently -/
def fieldsAfterDelimitedUse (fs : List Field) : List Field := fs.map Field.rebased

/-- D7: pinned binary `Register.read` asked for `IDENTIFIER_DIGITS + line.size` bytes -/
def recordSize (r : RegDef) : Nat := r.digits + r.recordSize

/-- D10: pinned `DefaultRegister.read` consumed nothing in binary storage: the
loop (here with fuel) appends a default element and peeks the same byte again -/
def readRegLoopBinNoMatch : Nat → Stream UInt8 → List RElem
  | 0, _ => []
  | fuel + 1, s =>
    if (s.read 1).1.isEmpty then []
    else RElem.dflt (.bytes []) :: readRegLoopBinNoMatch fuel s

/-- D8: pinned `BlockReading` called `begins()` without the storage: the textual
adapter's test on `bytes` data is always false, every region is a default block -/
def readBlockFileBinary (content : List UInt8) : List (BElem UInt8) :=
  readBlockFile (10 : UInt8) true [] content

end Cfi.Legacy
