import Props.C06
import Proofs.FloatClauses
/-!
C06 for register files whose fields are integers, literals and F-notation floats: for every
text, read-then-write is a projection and unmatched lines survive verbatim, with no premise
about the records left except the property's own "parsed values are representable".
-/
namespace Props.C06
open Cfi Cfi.Text Spec.C05 Spec.C06 Props.C05 Props.C01 Spec.C01

/-- an F-notation float field of the admitted shape -/
def FltF (f : Field) : Prop :=
  ∃ dec fmt c, f.kind = .flt dec fmt [c] ∧ (fmt = 'F' ∨ fmt = 'f') ∧ dec ≤ 323 ∧ sepOk [c] = true

theorem All2.zip_mem {α β : Type} {R : α → β → Prop} {as : List α} {bs : List β} (h : All2 R as bs) :
    ∀ ab ∈ as.zip bs, R ab.1 ab.2 := by
  induction h with
  | nil => intro ab hab; simp at hab
  | cons h1 _ ih =>
    intro ab hab
    simp only [List.zip_cons_cons, List.mem_cons] at hab
    rcases hab with rfl | hab
    · exact h1
    · exact ih ab hab

/-- `recStable_of_laws` with the last premise asked only of the text actually written -/
theorem recStable_of_laws' (r : RegDef) (d : List Val) (hlen : r.fields.length = d.length)
    (hdis : Cfi.Disjoint r.fields)
    (hlaw : ∀ fv ∈ r.fields.zip d, RenderLaw fv.1 fv.2)
    (hnl : ∀ fv ∈ r.fields.zip d, ∀ t, renderText fv.1 fv.2 = .ok t → ¬ '\n' ∈ t)
    (hsome : RegDef.isEmpty d = false →
      ∃ fv ∈ r.fields.zip d, ∀ t, renderText fv.1 fv.2 = .ok t → canon fv.1 fv.2 t ≠ .none) : RecStable r d := by
  intro hne0
  obtain ⟨rs, hrs⟩ := laws_all2 _ hlaw
  have hr : All2 (fun (fv : Field × Val) r => rendersTo fv.1 fv.2 r) (r.fields.zip d) rs := by
    generalize r.fields.zip d = zs at hrs
    induction hrs with
    | nil => exact .nil
    | cons h _ ih => exact .cons h.1 ih
  obtain ⟨out, hout⟩ := writeFields_ok r.fields d rs hr hlen []
  have hw : writePos r.fields d = .ok (out ++ ['\n']) := by simp [writePos, hout, Except.map]
  refine ⟨out ++ ['\n'], hw, ?_, ?_, renderings_stable r.fields d _ hlen hdis hlaw hw⟩
  · simp only [List.dropLast_concat]
    intro hm
    rcases out_chars r.fields d rs hlen hr hdis out hout '\n' hm with h | ⟨t, ht, hc⟩
    · exact absurd h (by decide)
    · obtain ⟨fv, hfv, hren⟩ := hr.of_mem_right ht
      exact hnl fv hfv t hren.1 hc
  · rw [readPos_written r.fields d rs _ hlen hdis hrs hw]
    obtain ⟨fv, hfv, hc⟩ := hsome hne0
    obtain ⟨i, hi, heq⟩ := List.getElem_of_mem hfv
    have hrl : rs.length = (r.fields.zip d).length := (All2.length_eq hrs).symm
    have hi' : i < ((r.fields.zip d).zip rs).length := by
      rw [List.length_zip, hrl, Nat.min_self]; exact hi
    simp only [RegDef.isEmpty, Bool.eq_false_iff, ne_eq, List.all_eq_true, beq_iff_eq]
    intro hall
    have hmem : ((r.fields.zip d).zip rs)[i] ∈ (r.fields.zip d).zip rs := List.getElem_mem hi'
    have hthis := hall _ (List.mem_map.mpr ⟨_, hmem, rfl⟩)
    have hren := (All2.zip_mem hr) _ hmem
    rw [List.getElem_zip] at hthis hren
    simp only [heq] at hthis hren
    exact hc _ hren.1 hthis

/-- every value an integer / literal / F-notation float field reads from a line obeys its law, if
the numbers read are representable in the field (integers fit when printed; floats are finite
and fit when printed) -/
theorem law_of_read_F (f : Field) (l : List Char) (hk : f.kind = .int ∨ f.kind = .lit ∨ FltF f)
    (hgeo : f.stop = f.size + f.start)
    (hfit : ∀ n, f.readText l = .int n → (PyInt.pyStr n).length ≤ f.size ∧ n.natAbs < 10 ^ 4300)
    (hfitF : ∀ y, f.readText l = .dbl y →
      ∃ neg m e, y = .fin neg m e ∧ Proofs.FloatLoop.wfs m e ∧ Spec.C02.fits f (.dbl y) = true) :
    RenderLaw f (f.readText l) := by
  rcases hk with hk | hk | ⟨dec, fmt, c, hk, hfmt, hdec, hsep⟩
  · exact law_of_read f l (Or.inl hk) hgeo hfit
  · exact law_of_read f l (Or.inr hk) hgeo hfit
  · cases hp : Dbl.pyFloat (replace (slice l f.start f.stop) [c] ['.']) with
    | none =>
      have hv : f.readText l = .none := by simp [Field.readText, parseText, hk, hp]
      rw [hv]
      have hc := (sep_facts hsep).1
      exact law_null f .none rfl hgeo (by rw [hk]; exact blankLaw_flt dec fmt c hc _)
    | some y =>
      have hv : f.readText l = .dbl y := by simp [Field.readText, parseText, hk, hp]
      obtain ⟨neg, m, e, rfl, hwf, hfits⟩ := hfitF y hv
      rw [hv]
      exact law_flt_F_gen f dec fmt c hk hfmt hsep neg m e hwf hdec hfits

/-- what `fits` says about the F-notation loop -/
theorem loop_of_fits (f : Field) (dec : Nat) (fmt c : Char) (hk : f.kind = .flt dec fmt [c])
    (hfmt : fmt = 'F' ∨ fmt = 'f') (neg : Bool) (m : Nat) (e : Int)
    (hfits : Spec.C02.fits f (.dbl (.fin neg m e)) = true) :
    ∃ s, floatLoopF (.fin neg m e) f.size (fmt == 'F') dec = .ok s ∧ s.length ≤ f.size := by
  simp only [Spec.C02.fits, Bool.and_eq_true, beq_iff_eq] at hfits
  obtain ⟨_, hren⟩ := hfits
  unfold renderFull at hren
  rw [hk] at hren
  rcases hfmt with rfl | rfl
  · cases hh : floatLoopF (.fin neg m e) f.size true dec with
    | error ex => simp [Val.isNull, Dbl.isNaN, hh, Except.map] at hren
    | ok s =>
      simp [Val.isNull, Dbl.isNaN, hh, Except.map, Proofs.FloatLaw.replace_single, Proofs.FloatLaw.subst1_length] at hren
      exact ⟨s, by simpa using hh, hren⟩
  · cases hh : floatLoopF (.fin neg m e) f.size false dec with
    | error ex => simp [Val.isNull, Dbl.isNaN, hh, Except.map] at hren
    | ok s =>
      simp [Val.isNull, Dbl.isNaN, hh, Except.map, Proofs.FloatLaw.replace_single, Proofs.FloatLaw.subst1_length] at hren
      exact ⟨s, by simpa using hh, hren⟩

/-- the text an admitted float field writes, and what it parses to -/
theorem flt_written (f : Field) (dec : Nat) (fmt c : Char) (hk : f.kind = .flt dec fmt [c])
    (hfmt : fmt = 'F' ∨ fmt = 'f') (hdec : dec ≤ 323) (hsep : sepOk [c] = true)
    (neg : Bool) (m : Nat) (e : Int) (hwf : Proofs.FloatLoop.wfs m e)
    (hfits : Spec.C02.fits f (.dbl (.fin neg m e)) = true) (t : List Char)
    (ht : renderText f (.dbl (.fin neg m e)) = .ok t) :
    (∃ r, parseText f.kind t = some (.dbl r)) ∧
    ∃ k ip fp, (∀ x ∈ ip ++ fp, x.isDigit = true) ∧
      t = List.replicate k ' ' ++ Proofs.FloatLaw.subst1 '.' c (Proofs.FloatText.body neg ip fp) := by
  obtain ⟨hc1, hc2, hc3⟩ := sep_facts hsep
  obtain ⟨s, hs, hslen⟩ := loop_of_fits f dec fmt c hk hfmt neg m e hfits
  obtain ⟨t', r, d', h1, _, h3, _, _, _, hteq, _⟩ :=
    Proofs.FloatLoop.fltF_core_gen f dec fmt c hk hfmt hc1 hc2 hc3 neg m e hwf hdec s hs hslen
  have : t = t' := by rw [h1] at ht; injection ht with ht; exact ht.symm
  subst this
  refine ⟨⟨r, h3⟩, _, _, _, ?_, by rw [hteq]; rfl⟩
  rw [Proofs.FloatText.fip_ffp]; exact Proofs.FloatText.fdigits_isDigit _ _

theorem no_newline_F (f : Field) (l : List Char) (hk : f.kind = .int ∨ f.kind = .lit ∨ FltF f)
    (hline : ¬ '\n' ∈ l.dropLast)
    (hfitF : ∀ y, f.readText l = .dbl y →
      ∃ neg m e, y = .fin neg m e ∧ Proofs.FloatLoop.wfs m e ∧ Spec.C02.fits f (.dbl y) = true)
    (t : List Char) (ht : renderText f (f.readText l) = .ok t) : ¬ '\n' ∈ t := by
  rcases hk with hk | hk | ⟨dec, fmt, c, hk, hfmt, hdec, hsep⟩
  · cases hp : PyInt.pyInt (slice l f.start f.stop) with
    | none =>
      have hv : f.readText l = .none := by simp [Field.readText, parseText, hk, hp]
      rw [hv, render_null f .none rfl] at ht
      injection ht with ht; subst ht
      simp
    | some n =>
      have hv : f.readText l = .int n := by simp [Field.readText, parseText, hk, hp]
      rw [hv] at ht
      simp only [renderText, renderRaw, renderFull, hk, Val.isNull, Bool.false_eq_true, if_false,
        Except.map] at ht
      injection ht with ht; subst ht
      intro hm
      simp only [rjust, List.mem_append, List.mem_replicate] at hm
      rcases hm with hm | hm
      · exact absurd hm.2 (by decide)
      · cases n with
        | ofNat k =>
          have := natDigits_isDigit k '\n' hm
          exact absurd this (by decide)
        | negSucc k =>
          simp only [PyInt.pyStr, List.mem_cons] at hm
          rcases hm with hm | hm
          · exact absurd hm (by decide)
          · have := natDigits_isDigit (k + 1) '\n' hm
            exact absurd this (by decide)
  · have hv : f.readText l = .str (strip (slice l f.start f.stop)) := by
      simp [Field.readText, parseText, hk]
    rw [hv] at ht
    simp only [renderText, renderRaw, renderFull, hk, Val.isNull, Bool.false_eq_true, if_false,
      Except.map] at ht
    injection ht with ht; subst ht
    intro hm
    simp only [ljust, List.mem_append, List.mem_replicate] at hm
    rcases hm with hm | hm
    · exact strip_slice_no_newline l _ _ hline hm
    · exact absurd hm.2 (by decide)
  · cases hp : Dbl.pyFloat (replace (slice l f.start f.stop) [c] ['.']) with
    | none =>
      have hv : f.readText l = .none := by simp [Field.readText, parseText, hk, hp]
      rw [hv, render_null f .none rfl] at ht
      injection ht with ht; subst ht
      simp
    | some y =>
      have hv : f.readText l = .dbl y := by simp [Field.readText, parseText, hk, hp]
      obtain ⟨neg, m, e, rfl, hwf, hfits⟩ := hfitF y hv
      rw [hv] at ht
      obtain ⟨_, k, ip, fp, hdig, rfl⟩ := flt_written f dec fmt c hk hfmt hdec hsep neg m e hwf hfits t ht
      intro hm
      rw [Proofs.FloatClauses.subst1_body c neg ip fp hdig] at hm
      simp only [List.mem_append, List.mem_replicate] at hm
      rcases hm with hm | hm
      · exact absurd hm.2 (by decide)
      · rcases Proofs.FloatClauses.sbody_chars c neg ip fp hdig '\n' hm with h | h | h
        · exact absurd h (by decide)
        · -- the separator is not a newline
          subst h
          revert hsep; decide
        · exact absurd h (by decide)

theorem canon_some_F (f : Field) (l : List Char) (v : Val) (hk : f.kind = .int ∨ f.kind = .lit ∨ FltF f)
    (hvread : v = f.readText l) (hvn : v ≠ .none)
    (hfitF : ∀ y, f.readText l = .dbl y →
      ∃ neg m e, y = .fin neg m e ∧ Proofs.FloatLoop.wfs m e ∧ Spec.C02.fits f (.dbl y) = true)
    (t : List Char) (ht : renderText f v = .ok t) : canon f v t ≠ .none := by
  rcases hk with hk | hk | ⟨dec, fmt, c, hk, hfmt, hdec, hsep⟩
  · cases hp : PyInt.pyInt (slice l f.start f.stop) with
    | none =>
      have : v = .none := by rw [hvread]; simp [Field.readText, parseText, hk, hp]
      exact absurd this hvn
    | some n =>
      have : v = .int n := by rw [hvread]; simp [Field.readText, parseText, hk, hp]
      subst this
      simp [canon, hk, Val.isNull]
  · have : v = .str (strip (slice l f.start f.stop)) := by
      rw [hvread]; simp [Field.readText, parseText, hk]
    subst this
    simp [canon, hk, Val.isNull]
  · cases hp : Dbl.pyFloat (replace (slice l f.start f.stop) [c] ['.']) with
    | none =>
      have : v = .none := by rw [hvread]; simp [Field.readText, parseText, hk, hp]
      exact absurd this hvn
    | some y =>
      have hv : f.readText l = .dbl y := by simp [Field.readText, parseText, hk, hp]
      obtain ⟨neg, m, e, rfl, hwf, hfits⟩ := hfitF y hv
      have : v = .dbl (.fin neg m e) := by rw [hvread, hv]
      subst this
      obtain ⟨⟨r, hr⟩, _⟩ := flt_written f dec fmt c hk hfmt hdec hsep neg m e hwf hfits t ht
      rw [hk] at hr
      simp only [parseText] at hr
      cases hq : Dbl.pyFloat (replace t [c] ['.']) with
      | none => rw [hq] at hr; simp at hr
      | some d =>
        simp [canon, hk, Val.isNull, Dbl.isNaN, hq]

/-- **C06 for positional register files from three facts about every field and line**: what
the field reads obeys its render law, its rendering holds no newline, and a value other than
`None` does not become `None` when written and read. -/
theorem main_regs_gen (regs : List RegDef) (x : List Char) (hamb : unambiguous regs = true)
    (hdel : ∀ r ∈ regs, r.delimiter = .none)
    (hlawR : ∀ l ∈ splitLines x, ∀ r ∈ regs, ∀ f ∈ r.fields, RenderLaw f (f.readText l))
    (hnl : ∀ l ∈ splitLines x, ¬ '\n' ∈ l.dropLast → ∀ r ∈ regs, ∀ f ∈ r.fields, ∀ t,
      renderText f (f.readText l) = .ok t → ¬ '\n' ∈ t)
    (hcs : ∀ l ∈ splitLines x, ∀ r ∈ regs, ∀ f ∈ r.fields, ∀ v, v = f.readText l → v ≠ .none →
      ∀ t, renderText f v = .ok t → canon f v t ≠ .none) :
    ∃ y, Spec.C06.rw regs x = some y ∧ Spec.C06.rw regs y = some y ∧ Spec.C06.holds regs x ⟨y, y⟩ = true := by
  apply main regs x hamb _ hdel
  intro l hl j r hc hj
  have hr : r ∈ regs := List.mem_of_getElem? hj
  have hlaw : ∀ fv ∈ r.fields.zip (readPos r.fields l), RenderLaw fv.1 fv.2 := by
    intro fv hfv
    obtain ⟨h1, h2⟩ := mem_zip_readPos r.fields l fv hfv
    rw [h2]
    exact hlawR l hl r hr fv.1 h1
  have hf := regFacts regs hamb j r hj
  refine ⟨hdel r hr, ?_, ?_⟩
  · obtain ⟨rs, hrs⟩ := laws_all2 _ hlaw
    refine ⟨rs, ?_⟩
    generalize r.fields.zip (readPos r.fields l) = zs at hrs
    induction hrs with
    | nil => exact .nil
    | cons h _ ih => exact .cons h.1 ih
  · have hline : ¬ '\n' ∈ l.dropLast := by
      have hok := splitLines_linesOk x
      have : ∀ (ls : List (List Char)), LinesOk ls → ∀ l ∈ ls, ¬ '\n' ∈ l.dropLast := by
        intro ls
        induction ls with
        | nil => intro _ l h; simp at h
        | cons a ls ih =>
          intro h l hm
          cases ls with
          | nil =>
            simp only [List.mem_singleton] at hm; subst hm; exact h.2
          | cons b ls =>
            rcases List.mem_cons.mp hm with rfl | hm
            · exact h.2.2.1
            · exact ih h.2.2.2 l hm
      exact this _ hok l hl
    apply recStable_of_laws' r _ (by simp [length_readPos]) hf.hdis hlaw
    · -- no rendering contains a newline
      intro fv hfv t ht
      obtain ⟨h1, h2⟩ := mem_zip_readPos r.fields l fv hfv
      rw [h2] at ht
      exact hnl l hl hline r hr fv.1 h1 t ht
    · -- a non-empty record has a value whose canonical form is not None
      intro hne
      simp only [RegDef.isEmpty, Bool.eq_false_iff, ne_eq, List.all_eq_true, beq_iff_eq] at hne
      have : ∃ v ∈ readPos r.fields l, v ≠ Val.none := by
        apply Classical.byContradiction
        intro hcon
        apply hne
        intro v hv
        apply Classical.byContradiction
        intro hvn
        exact hcon ⟨v, hv, hvn⟩
      obtain ⟨v, hv, hvn⟩ := this
      obtain ⟨i, hi, hvi⟩ := List.getElem_of_mem hv
      have hif : i < r.fields.length := by simpa [length_readPos] using hi
      refine ⟨(r.fields[i], v), ?_, ?_⟩
      · rw [← hvi]
        have : (r.fields.zip (readPos r.fields l))[i]'(by simp [length_readPos]; exact hif) =
            (r.fields[i], (readPos r.fields l)[i]) := by simp
        rw [← this]
        exact List.getElem_mem _
      · intro t ht
        have hvread : v = (r.fields[i]).readText l := by
          rw [← hvi]; simp [readPos]
        exact hcs l hl r hr (r.fields[i]) (List.getElem_mem hif) v hvread hvn t ht

/-- **C06 for files of integer / literal / F-notation float registers, for every text.** -/
theorem main_regs_F (regs : List RegDef) (x : List Char) (hamb : unambiguous regs = true)
    (hdel : ∀ r ∈ regs, r.delimiter = .none)
    (hkinds : ∀ r ∈ regs, ∀ f ∈ r.fields, (f.kind = .int ∨ f.kind = .lit ∨ FltF f) ∧ f.stop = f.size + f.start)
    (hfit : ∀ l ∈ splitLines x, ∀ r ∈ regs, ∀ f ∈ r.fields, ∀ n, f.readText l = .int n →
      (PyInt.pyStr n).length ≤ f.size ∧ n.natAbs < 10 ^ 4300)
    (hfitF : ∀ l ∈ splitLines x, ∀ r ∈ regs, ∀ f ∈ r.fields, ∀ y, f.readText l = .dbl y →
      ∃ neg m e, y = .fin neg m e ∧ Proofs.FloatLoop.wfs m e ∧ Spec.C02.fits f (.dbl y) = true) :
    ∃ y, Spec.C06.rw regs x = some y ∧ Spec.C06.rw regs y = some y ∧ Spec.C06.holds regs x ⟨y, y⟩ = true := by
  apply main_regs_gen regs x hamb hdel
  · intro l hl r hr f hf
    obtain ⟨hk, hgeo⟩ := hkinds r hr f hf
    exact law_of_read_F f l hk hgeo (hfit l hl r hr f hf) (hfitF l hl r hr f hf)
  · intro l hl hline r hr f hf t ht
    exact no_newline_F f l (hkinds r hr f hf).1 hline (hfitF l hl r hr f hf) t ht
  · intro l hl r hr f hf v hv hvn t ht
    exact canon_some_F f l v (hkinds r hr f hf).1 hv hvn (hfitF l hl r hr f hf) t ht

end Props.C06
