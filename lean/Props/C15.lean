import Cfi.Equality
import Spec.C15
/-! C15 — property theorems. -/
namespace Props.C15
open Cfi Cfi.Equality Spec.C15

theorem elemEq_iff (x y : Elem) : elemEq x y = true ↔ x.cls = y.cls ∧ x.data = y.data := by
  simp [elemEq]

theorem elemEq_eq (x y : Elem) : elemEq x y = true ↔ x = y := by
  rw [elemEq_iff]; cases x; cases y; simp

theorem elemEq_symm (x y : Elem) : elemEq x y = elemEq y x := by
  rw [Bool.eq_iff_iff, elemEq_eq, elemEq_eq]; exact eq_comm

/-- **Characterisation**: the code's length check + pairwise loop holds exactly
when the two sequences are equal element by element. -/
theorem seqEq_iff (a b : List Elem) : seqEq a b = true ↔ a = b := by
  induction a generalizing b with
  | nil => cases b <;> simp [seqEq]
  | cons x a ih =>
    cases b with
    | nil => simp [seqEq]
    | cons y b =>
      have := ih b
      simp only [seqEq, Bool.and_eq_true, beq_iff_eq, List.length_cons, List.zip_cons_cons,
        List.all_cons] at this ⊢
      rw [elemEq_eq]
      constructor
      · rintro ⟨hl, hxy, hall⟩
        rw [hxy, this.1 ⟨by omega, hall⟩]
      · intro h
        injection h with h1 h2
        subst h1
        have := this.2 h2
        exact ⟨by omega, rfl, this.2⟩

/-- same number of elements and corresponding elements equal (same type, equal data) -/
theorem seqEq_pointwise (a b : List Elem) :
    seqEq a b = true ↔ a.length = b.length ∧
      ∀ i (h₁ : i < a.length) (h₂ : i < b.length), (a[i]).cls = (b[i]).cls ∧ (a[i]).data = (b[i]).data := by
  rw [seqEq_iff]
  constructor
  · rintro rfl; exact ⟨rfl, fun i _ _ => ⟨rfl, rfl⟩⟩
  · rintro ⟨hl, h⟩
    apply List.ext_getElem hl
    intro i h₁ h₂
    have := h i h₁ h₂
    cases hx : a[i]; cases hy : b[i]
    simp [hx, hy] at this
    rw [this.1, this.2]

theorem seqEq_refl (a : List Elem) : seqEq a a = true := (seqEq_iff a a).2 rfl

theorem seqEq_symm (a b : List Elem) : seqEq a b = seqEq b a := by
  rw [Bool.eq_iff_iff, seqEq_iff, seqEq_iff]; exact eq_comm

/-- a proper prefix is never equal to the longer sequence -/
theorem prefix_ne (a ext : List Elem) (h : ext ≠ []) : seqEq a (a ++ ext) = false := by
  rw [Bool.eq_false_iff]; intro he
  have := (seqEq_iff _ _).1 he
  have hl := congrArg List.length this
  simp at hl
  exact h hl

/-- the run-time oracle's statement is the same characterisation -/
theorem expectedEq_eq_seqEq (a b : List Elem) : expectedEq a b = seqEq a b := by
  rw [Bool.eq_iff_iff, seqEq_pointwise]
  simp only [expectedEq, decide_eq_true_eq]
  constructor
  · rintro ⟨hl, h⟩
    exact ⟨hl, fun i h₁ h₂ => h ⟨i, h₁⟩ h₂⟩
  · rintro ⟨hl, h⟩
    exact ⟨hl, fun i h₂ => h i.val i.isLt h₂⟩

/-- **C15 main theorem**: what the model shows for `a == b`, `b == a`, `a != b`,
`a == a`, on containers and files, against same-family and foreign right-hand
sides, is the statement of the property. -/
theorem main (a : List Elem) (rhs : Rhs) : holds a rhs (observe a rhs) = true := by
  cases rhs with
  | same b =>
    simp [holds, observe, fileEq, expectedEq_eq_seqEq, seqEq_refl, seqEq_symm b a]
  | foreign => simp [holds, observe, fileEq, seqEq_refl]

/-- non-vacuity: a class-only difference, a data difference, a prefix -/
example : seqEq [⟨0, [.int 1]⟩, ⟨1, []⟩] [⟨0, [.int 1]⟩, ⟨2, []⟩] = false ∧
    seqEq [⟨0, [.int 1]⟩] [⟨0, [.int 2]⟩] = false ∧ seqEq [⟨0, [.int 1]⟩] [⟨0, [.int 1]⟩, ⟨0, []⟩] = false ∧
    seqEq [⟨0, [.int 1]⟩, ⟨3, [.none]⟩] [⟨0, [.int 1]⟩, ⟨3, [.none]⟩] = true := by decide

end Props.C15
