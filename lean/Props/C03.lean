import Cfi.Line
import Spec.C03
/-! C03 — property theorems. -/
namespace Props.C03
open Cfi Cfi.Text Spec.C03

/-- **Totality** is the type of `Field.readText` / `Field.readBin`: a value for
every line, no exception.  **Format-faithfulness**: the model returns the
reference interpretation of the span. -/
theorem main_text (f : Field) (line : List Char) : holds f (.str line) (f.readText line) = true := by
  simp [holds, expected, Field.readText]

theorem main_bin (f : Field) (line : List UInt8) : holds f (.bytes line) (f.readBin line) = true := by
  simp [holds, expected, Field.readBin]

/-- **Locality**: two lines that agree on the span read the same value, whatever
lies outside it (any kind, any configuration, any geometry). -/
theorem local_text (f : Field) (l₁ l₂ : List Char)
    (h : slice l₁ f.start f.stop = slice l₂ f.start f.stop) : f.readText l₁ = f.readText l₂ := by
  simp [Field.readText, h]

theorem local_bin (f : Field) (l₁ l₂ : List UInt8)
    (h : slice l₁ f.start f.stop = slice l₂ f.start f.stop) : f.readBin l₁ = f.readBin l₂ := by
  simp [Field.readBin, h]

/-- Anything appended after the span is irrelevant. -/
theorem suffix_irrelevant (f : Field) (l junk : List Char) (h : f.stop ≤ l.length) :
    f.readText (l ++ junk) = f.readText l := by
  apply local_text
  simp [slice, List.take_append_of_le_length h]

/-- Anything before the span can be replaced by any text of the same length. -/
theorem prefix_irrelevant (f : Field) (p₁ p₂ rest : List Char) (h₁ : p₁.length = f.start)
    (h₂ : p₂.length = f.start) : f.readText (p₁ ++ rest) = f.readText (p₂ ++ rest) := by
  apply local_text
  simp only [slice]
  rw [List.take_append, List.take_append, List.drop_append, List.drop_append]
  have e1 : List.drop f.start (List.take f.stop p₁) = [] := by
    apply List.drop_eq_nil_of_le; simp [List.length_take]; omega
  have e2 : List.drop f.start (List.take f.stop p₂) = [] := by
    apply List.drop_eq_nil_of_le; simp [List.length_take]; omega
  rw [e1, e2]
  simp [List.length_take, h₁, h₂]

/-- **Short lines**: a line shorter than the span is read as the truncated span
— `slice` clamps like Python — never as an error. -/
theorem short_line (f : Field) (line : List Char) (h : line.length ≤ f.stop) :
    f.readText line = (parseText f.kind (line.drop f.start)).getD .none := by
  simp [Field.readText, slice, List.take_of_length_le h]

theorem empty_span_of_short (f : Field) (line : List Char) (h : line.length ≤ f.start) :
    f.readText line = (parseText f.kind []).getD .none := by
  have : slice line f.start f.stop = [] := by
    simp only [slice]; apply List.drop_eq_nil_of_le; simp [List.length_take]; omega
  simp [Field.readText, this]

/-- **No stale value**: the slot after a read is the parse result of *this*
line, whatever the slot held before — over any sequence of reads through one
field object, the k-th result depends on the k-th line only. -/
theorem no_stale (f : Field) (lines : List (List Char)) :
    (lines.foldl (fun (acc : Val × List Val) l => (f.readText l, acc.2 ++ [f.readText l])) (Val.none, [])).2
      = lines.map f.readText := by
  have : ∀ (init : Val) (pre : List Val),
      (lines.foldl (fun (acc : Val × List Val) l => (f.readText l, acc.2 ++ [f.readText l])) (init, pre)).2
        = pre ++ lines.map f.readText := by
    induction lines with
    | nil => intro _ _; simp
    | cons l ls ih => intro init pre; simp [List.foldl_cons, ih]
  simpa using this Val.none []

/-- a blank or empty span is `None` for numbers and dates, `""` for literals -/
example : (Field.mk' .int 4 2).readText "ab".toList = .none ∧
          (Field.mk' .lit 4 2).readText "ab".toList = .str [] ∧
          (Field.mk' .int 4 2).readText "ab 12 zz".toList = .int 12 := by decide

end Props.C03
