import Props.C02
import Props.C10T
import Props.C01F
/-!
C02 for float and date fields: the character shape of their renderings (no blank inside a
number, a date text that starts in the first column), hence the single-field statement for
every value of the decidable domain of C01.
-/
namespace Props.C02
open Cfi Cfi.Text Spec.C02 Props.C01 Props.C06 Proofs.FloatE Proofs.FloatELaw

/-- blanks, then a non-empty text without blanks: the shape of a number -/
theorem shape_number' (k : Kind) (v : Val) (n : Nat) (tx : List Char) (size : Nat)
    (hk : k = .int ∨ ∃ d f s, k = .flt d f s) (hv : v.isNull = false)
    (hlen : (List.replicate n ' ' ++ tx).length = size) (hne : tx ≠ []) (hnb : ∀ x ∈ tx, x ≠ ' ') :
    shapeOk k v (List.replicate n ' ' ++ tx) size = true := by
  have hany : tx.any isBlank = false := by
    rw [List.any_eq_false]
    intro x hx
    simp [isBlank, hnb x hx]
  have hd : (List.replicate n ' ' ++ tx).dropWhile isBlank = tx := by
    apply dropWhile_replicate_append _ _ _ (by simp [isBlank])
    intro x hx
    have : x ∈ tx := List.mem_of_head? hx
    simp [isBlank, hnb x this]
  rcases hk with rfl | ⟨d, f, s, rfl⟩ <;> simp [shapeOk, hv, hd, hlen, hne, hany]

theorem dropWhile_append_last {q : Char → Bool} (a : List Char) (x : Char) (hx : q x = false) :
    (a ++ [x]).dropWhile q = a.dropWhile q ++ [x] := by
  induction a with
  | nil => simp [hx]
  | cons y a ih =>
    by_cases hy : q y = true
    · simp [hy, ih]
    · simp [hy]

/-- a text starting with a non-blank, then blanks: the shape of a date -/
theorem shape_date (fmts : List (List Char)) (v : Val) (x : Char) (r : List Char) (size : Nat)
    (hv : v.isNull = false) (hx : x ≠ ' ') (hlen : (x :: r).length ≤ size) :
    shapeOk (.date fmts) v (ljust (x :: r) size ' ') size = true := by
  have hxb : isBlank x = false := by simp [isBlank, hx]
  have hrev : ((ljust (x :: r) size ' ').reverse.dropWhile isBlank).reverse =
      x :: (r.reverse.dropWhile isBlank).reverse := by
    unfold ljust
    rw [List.reverse_append, List.reverse_replicate]
    have h1 : (List.replicate (size - (x :: r).length) ' ' ++ (x :: r).reverse).dropWhile isBlank =
        ((x :: r).reverse).dropWhile isBlank := by
      generalize size - (x :: r).length = n
      generalize (x :: r).reverse = l
      induction n with
      | zero => simp
      | succ n ih =>
        rw [List.replicate_succ, List.cons_append, List.dropWhile_cons]
        simp only [isBlank, beq_self_eq_true, if_true]
        exact ih
    rw [h1, List.reverse_cons, dropWhile_append_last _ _ hxb, List.reverse_append]
    simp
  simp only [shapeOk, hv, length_ljust, hrev]
  have : max (x :: r).length size = size := by omega
  rw [this]
  simp [hx]

theorem mem_subst1' (a b : Char) (s : List Char) (x : Char) (h : x ∈ Proofs.FloatLaw.subst1 a b s) : x = b ∨ x ∈ s :=
  Props.C06.mem_subst1 a b s x h

/-- **The shape of every rendering of the decidable domain of C01**: blanks for a missing value,
the text then blanks for a literal, blanks then a text without blanks for a number, a text
starting in the first column for a date. -/
theorem shape_dom (f : Field) (v : Val) (t : List Char)
    (h : Spec.C01.fieldInDomain f v = true) (hflt : FloatFB f v)
    (ht : renderText f v = .ok t) (htl : t.length = f.size) : shapeOk f.kind v t f.size = true := by
  have hdom := h
  simp only [Spec.C01.fieldInDomain, Bool.and_eq_true, decide_eq_true_eq] at hdom
  obtain ⟨⟨hfits, _⟩, hk⟩ := hdom
  by_cases hn : v.isNull = true
  · rw [render_null f v hn] at ht
    injection ht with ht; subst ht
    exact shape_null f v hn
  have hn' : v.isNull = false := by simpa using hn
  have hty : Spec.C02.typeOk f.kind v = true := by
    simp only [Spec.C02.fits, Bool.and_eq_true] at hfits
    exact hfits.1.2
  have hraw : ∀ s, renderFull f.kind f.size v = .ok s → s.length ≤ f.size := by
    intro s hs
    simp only [Spec.C02.fits, Bool.and_eq_true, hs, decide_eq_true_eq] at hfits
    exact hfits.2
  cases hkind : f.kind with
  | int =>
    rw [hkind] at hty
    cases v with
    | int n =>
      have hl := hraw (PyInt.pyStr n) (by simp [renderFull, hkind, Val.isNull])
      simp only [renderText, renderRaw, renderFull, hkind, Val.isNull, Bool.false_eq_true, if_false,
        Except.map] at ht
      injection ht with ht; subst ht
      exact shape_int n f.size hl
    | none => exact absurd rfl hn
    | nat => exact absurd rfl hn
    | str s => simp [Spec.C02.typeOk] at hty
    | date d => simp [Spec.C02.typeOk] at hty
    | dbl x =>
      cases x with
      | nan => exact absurd rfl hn
      | inf neg => simp [Spec.C02.typeOk] at hty
      | fin neg m e => simp [Spec.C02.typeOk] at hty
  | lit =>
    rw [hkind] at hty
    cases v with
    | str s =>
      have hl := hraw s (by simp [renderFull, hkind, Val.isNull])
      simp only [renderText, renderRaw, renderFull, hkind, Val.isNull, Bool.false_eq_true, if_false,
        Except.map] at ht
      injection ht with ht; subst ht
      exact shape_lit s f.size hl
    | none => exact absurd rfl hn
    | nat => exact absurd rfl hn
    | int n => simp [Spec.C02.typeOk] at hty
    | date d => simp [Spec.C02.typeOk] at hty
    | dbl x =>
      cases x with
      | nan => exact absurd rfl hn
      | inf neg => simp [Spec.C02.typeOk] at hty
      | fin neg m e => simp [Spec.C02.typeOk] at hty
  | flt dec fmt sep =>
    rw [hkind] at hk
    simp only [Bool.and_eq_true] at hk
    obtain ⟨hsep, hnot⟩ := hk
    obtain ⟨c, rfl⟩ : ∃ c, sep = [c] := by
      cases sep with
      | nil => simp [Spec.C01.sepOk] at hsep
      | cons c t =>
        cases t with
        | nil => exact ⟨c, rfl⟩
        | cons _ _ => simp [Spec.C01.sepOk] at hsep
    obtain ⟨hc1, hc2, hc3⟩ := sep_facts hsep
    -- blanks cannot be parsed, so the text after the padding is not empty
    have hnonempty : ∀ k tx, t = List.replicate k ' ' ++ tx → (∃ r, parseText f.kind t = some (.dbl r)) → tx ≠ [] := by
      intro k tx he ⟨r, hr⟩ hnil
      subst hnil
      rw [he, hkind, List.append_nil] at hr
      have := blankLaw_flt dec fmt c hc1 k
      simp only [BlankLaw] at this
      rw [this] at hr
      exact absurd hr (by simp)
    rcases hflt dec fmt [c] hkind with hnull | ⟨hF, hdec, neg, m, e, rfl, hwf⟩ | ⟨hE, neg, m, e, rfl, hwf⟩
    · exact absurd hnull hn
    · obtain ⟨hparse, k, ip, fp, hdig, hteq⟩ := flt_written f dec fmt c hkind hF hdec hsep neg m e hwf hfits t ht
      have hne := hnonempty k _ hteq hparse
      rw [hteq] at htl ⊢
      apply shape_number' _ _ k _ f.size (Or.inr ⟨dec, fmt, [c], rfl⟩) rfl htl hne
      intro x hx
      rw [Proofs.FloatClauses.subst1_body c neg ip fp hdig] at hx
      rcases Proofs.FloatClauses.sbody_chars c neg ip fp hdig x hx with h | h | h
      · subst h; decide
      · subst h; exact hc1
      · intro e; subst e; exact absurd h (by decide)
    · have hdec : dec ≤ 12 := by
        rcases hE with rfl | rfl <;> simpa using hnot
      obtain ⟨hparse, _, k, ip, fp, eneg, exd, hdig, hteq⟩ :=
        fltE_written f dec fmt c hkind hE hdec hsep neg m e hwf hfits t ht
      have hne := hnonempty k _ hteq hparse
      rw [hteq] at htl ⊢
      apply shape_number' _ _ k _ f.size (Or.inr ⟨dec, fmt, [c], rfl⟩) rfl htl hne
      intro x hx
      rcases mem_subst1' _ _ _ _ hx with h | h
      · subst h; exact hc1
      · rcases bodyE_chars neg ip fp _ eneg exd hdig x h with h | h | h | h | h
        · subst h; decide
        · subst h; decide
        · subst h; rcases hE with rfl | rfl <;> decide
        · subst h; decide
        · intro e; subst e; exact absurd h (by decide)
  | date fmts =>
    rw [hkind] at hty hk
    cases v with
    | date d =>
      cases fmts with
      | nil => simp [renderText, renderRaw, renderFull, hkind, Val.isNull, Except.map] at ht
      | cons fm rest =>
        simp only [Bool.and_eq_true, decide_eq_true_eq, Bool.not_eq_true'] at hk
        obtain ⟨_, ⟨⟨_, _⟩, hhead⟩, _⟩ := hk
        cases hp : Cfi.Date.strftime (fm.length + 1) fm d with
        | none => simp [renderText, renderRaw, renderFull, hkind, Val.isNull, hp, Option.elim, Except.map] at ht
        | some p =>
          simp [renderText, renderRaw, renderFull, hkind, Val.isNull, hp, Option.elim, Except.map] at ht
          subst ht
          obtain ⟨items, hparse⟩ : ∃ items, Cfi.Date.parseFmt (fm.length + 1) fm = some items := by
            cases hpf : Cfi.Date.parseFmt (fm.length + 1) fm with
            | some items => exact ⟨items, rfl⟩
            | none =>
              exfalso
              have := Cfi.Date.emits_of_parse d (fm.length + 1) fm
              -- strftime succeeded although the format does not parse: impossible in the domain
              have hok : Spec.C03.fmtOk fm = true := by
                have := h
                simp only [Spec.C01.fieldInDomain, hkind, Bool.and_eq_true, List.all_cons] at this
                exact this.2.1.1
              simp [Spec.C03.fmtOk, hpf] at hok
          obtain ⟨p', h1, hemits, h3⟩ := Cfi.Date.emits_of_parse d _ fm items hparse
          have hpp : p' = p := by
            have := h1 (fm.length + 1) (by omega)
            rw [hp] at this
            injection this with this
            exact this.symm
          subst hpp
          -- the format is not empty (its head is not white space), so neither is the text
          cases hfm : fm with
          | nil => rw [hfm] at hhead; simp at hhead; exact absurd hhead (by decide)
          | cons a fr =>
            rw [hfm] at hhead
            have hha : isStripWs a = false := by simpa using hhead
            cases hpc : p' with
            | nil =>
              exfalso
              -- a non-empty format emits a non-empty text
              rw [hpc] at hemits
              have hi := Cfi.Date.emits_nil d items hemits
              rw [hi] at hparse
              have := Cfi.Date.parse_nil _ fm hparse
              rw [hfm] at this
              exact absurd this (by simp)
            | cons x r =>
              have hx : isStripWs x = false := h3 a (by rw [hfm]; rfl) hha x (by rw [hpc]; rfl)
              have hxb : x ≠ ' ' := by intro e; subst e; exact absurd hx (by decide)
              apply shape_date _ _ x r f.size rfl hxb
              have hl := hraw p' (by simp [renderFull, hkind, Val.isNull, hp, Option.elim])
              rw [hpc] at hl
              exact hl
    | none => exact absurd rfl hn
    | nat => exact absurd rfl hn
    | int n => simp [Spec.C02.typeOk] at hty
    | str s => simp [Spec.C02.typeOk] at hty
    | dbl x =>
      cases x with
      | nan => exact absurd rfl hn
      | inf neg => simp [Spec.C02.typeOk] at hty
      | fin neg m e => simp [Spec.C02.typeOk] at hty

/-- **Single field write, full statement, for every value of the decidable domain of C01** —
missing values, literals, integers, dates, and floats in either notation (`FloatFB`): the
line comes out as long as the longer of the target and the field end, every position outside
the span is the (blank-padded) target's, and the span holds the value in the kind's shape. -/
theorem field_write_dom (f : Field) (v : Val) (line : List Char)
    (h : Spec.C01.fieldInDomain f v = true) (hflt : FloatFB f v) :
    ∃ out, f.writeText v line = .ok out ∧ holdsField f v line out = true := by
  have hdom := h
  simp only [Spec.C01.fieldInDomain, Bool.and_eq_true, decide_eq_true_eq] at hdom
  obtain ⟨t, ht, htl, hgeo⟩ := rendersTo_of_fits f v hdom.1.1
  refine ⟨splice line f.start f.stop t ' ', by simp [Field.writeText, ht, Except.map], ?_⟩
  exact holdsField_of_shape f v line t hgeo htl (shape_dom f v t h hflt ht htl)

/-- **A whole positional line, full statement, from the decidable domain of C01**: for every
layout and value list admitted by `Spec.C01.inDomain` (floats as in `FloatFB`) the write
succeeds, the line is exactly as long as the furthest field end plus one newline, ends in that
newline, every span holds its value in the kind's shape, and every column outside the fields
is blank. -/
theorem line_write_dom (fs : List Field) (vs : List Val) (h : Spec.C01.inDomain fs vs = true)
    (hflt : ∀ fv ∈ fs.zip vs, FloatFB fv.1 fv.2) :
    ∃ w, writePos fs vs = .ok w ∧ holdsLine fs vs w = true := by
  have hd := h
  simp only [Spec.C01.inDomain, Bool.and_eq_true, beq_iff_eq, List.all_eq_true] at hd
  obtain ⟨⟨hlen, hdis⟩, hdom⟩ := hd
  have hD := Disjoint_of_bool' fs hdis
  have hfits : ∀ fv ∈ fs.zip vs, Spec.C02.fits fv.1 fv.2 = true := by
    intro fv hfv
    have := hdom fv hfv
    simp only [Spec.C01.fieldInDomain, Bool.and_eq_true] at this
    exact this.1.1
  obtain ⟨rs, hr⟩ := all2_rendersTo_of_fits fs vs hlen hfits
  obtain ⟨w, hw⟩ : ∃ w, writePos fs vs = .ok w := by
    obtain ⟨out, hout⟩ := writeFields_ok fs vs rs hr hlen []
    exact ⟨out ++ ['\n'], by simp [writePos, hout, Except.map]⟩
  refine ⟨w, hw, ?_⟩
  obtain ⟨s1, s2, s3⟩ := line_shape fs vs rs hlen hr w hw
  have hsp := spans_written fs vs rs w hlen hD hr hw
  have hmem := all2_zip_mem fs vs rs hlen hr hsp
  simp only [holdsLine, Bool.and_eq_true, beq_iff_eq, List.all_eq_true, List.mem_range, Bool.or_eq_true]
  refine ⟨⟨⟨s1, s2⟩, ?_⟩, ?_⟩
  · intro fv hfv
    obtain ⟨f, v⟩ := fv
    obtain ⟨r, hrend, hslice⟩ := hmem (f, v) hfv
    simp only [] at hrend hslice ⊢
    rw [hslice]
    exact shape_dom f v r (hdom (f, v) hfv) (hflt (f, v) hfv) hrend.1 hrend.2.1
  · intro i hi
    rcases s3 i hi with hc | hb
    · exact Or.inl hc
    · right
      have hlt : i < w.length := by omega
      simp [List.getD, List.getElem?_eq_getElem hlt] at hb ⊢
      exact hb

/-- non-vacuity: an integer, the double 9.9996 in E notation and a date meet the premises of
`line_write_dom`, and the line is the expected one -/
example :
    let fs := [Field.mk' .int 5 1, Field.mk' (.flt 3 'E' ['.']) 12 8, Field.mk' (.date ["%d/%m/%Y".toList]) 10 21]
    let vs := [Val.int (-42), Val.dbl (.fin false 5629274354231751 (-49)), Val.date ⟨2024, 2, 29, 0, 0, 0, 0⟩]
    Spec.C01.inDomain fs vs = true ∧ (∀ fv ∈ fs.zip vs, FloatFB fv.1 fv.2) ∧
    writePos fs vs = .ok "   -42     1.000E+01 29/02/2024\n".toList := by
  refine ⟨by decide +kernel, ?_, by decide +kernel⟩
  intro fv hfv
  simp only [List.zip_cons_cons, List.zip_nil_right, List.mem_cons, List.not_mem_nil, or_false] at hfv
  rcases hfv with rfl | rfl | rfl
  · intro dec fmt sep hk; simp [Field.mk'] at hk
  · intro dec fmt sep hk
    simp only [Field.mk', Kind.flt.injEq] at hk
    obtain ⟨rfl, rfl, rfl⟩ := hk
    exact Or.inr (Or.inr ⟨Or.inl rfl, false, _, _, rfl, Or.inl (Proofs.FloatE.wfB_of_wfE _ _ _ (Proofs.FloatE.wfE_of_wfn _ _ _ ⟨by decide, by decide, by decide, by decide⟩ (by decide)))⟩)
  · intro dec fmt sep hk; simp [Field.mk'] at hk

end Props.C02
