import Proofs.FloatBin
import Props.C09
import Proofs.RegLine
/-!
C09 for float fields: the IEEE bit pattern written for a value decodes to that value rounded
to the field's format (binary16 / binary32 / binary64) — `decode_encode_float` — hence the
per-field binary law `BinLaw` for every non-missing float and for missing ones.
-/
namespace Props.C09
open Cfi Cfi.Dbl Cfi.Bin Cfi.Text Spec.C09 Proofs.Nearest Proofs.FloatBin

/-- the decoder only looks at the low `1 + ebits + fbits` bits -/
theorem ofBitsF_mod (f : Fmt) (n : Nat) : ofBitsF f (n % 2 ^ (f.ebits + f.fbits + 1)) = ofBitsF f n := by
  have e1 : 2 ^ (f.ebits + f.fbits + 1) = 2 ^ (f.ebits + f.fbits) * 2 := Nat.pow_succ ..
  have e2 : 2 ^ (f.ebits + f.fbits + 1) = 2 ^ f.fbits * 2 ^ (f.ebits + 1) := by
    rw [← Nat.pow_add]; congr 1; omega
  have h1 : n % 2 ^ (f.ebits + f.fbits + 1) / 2 ^ (f.ebits + f.fbits) % 2 = n / 2 ^ (f.ebits + f.fbits) % 2 := by
    rw [e1, Nat.mod_mul_right_div_self, Nat.mod_mod]
  have h2 : n % 2 ^ (f.ebits + f.fbits + 1) / 2 ^ f.fbits % 2 ^ f.ebits = n / 2 ^ f.fbits % 2 ^ f.ebits := by
    rw [e2, Nat.mod_mul_right_div_self]
    exact Nat.mod_mod_of_dvd _ ⟨2, Nat.pow_succ ..⟩
  have h3 : n % 2 ^ (f.ebits + f.fbits + 1) % 2 ^ f.fbits = n % 2 ^ f.fbits := by
    rw [e2]
    exact Nat.mod_mod_of_dvd _ ⟨2 ^ (f.ebits + 1), rfl⟩
  unfold ofBitsF
  simp only [h1, h2, h3]

theorem decode_encode_float (w : Nat) (hw : w = 2 ∨ w = 4 ∨ w = 8) (x : Dbl) (hx : x.isNaN = false) :
    decodeFloat w (encodeFloat w x) = some (roundTo (fmtOfWidth w) x) := by
  have hf : FmtOk (fmtOfWidth w) := by
    rcases hw with rfl | rfl | rfl
    · exact fmtOk_widths.1
    · exact fmtOk_widths.2.1
    · exact fmtOk_widths.2.2
  have hbits : 256 ^ w = 2 ^ ((fmtOfWidth w).ebits + (fmtOfWidth w).fbits + 1) := by
    rcases hw with rfl | rfl | rfl <;> decide
  unfold decodeFloat encodeFloat
  simp only [Props.C09.length_leBytes, Nat.lt_irrefl, if_false]
  have ht : (leBytes w (bitsOf (fmtOfWidth w) (roundTo (fmtOfWidth w) x))).take w =
      leBytes w (bitsOf (fmtOfWidth w) (roundTo (fmtOfWidth w) x)) := by
    apply List.take_of_length_le; rw [Props.C09.length_leBytes]; exact Nat.le_refl _
  rw [ht, Props.C09.ofLeBytes_leBytes, hbits, ofBitsF_mod]
  congr 1
  cases x with
  | nan => simp [Dbl.isNaN] at hx
  | inf neg => exact ofBitsF_inf _ hf neg
  | fin neg m e => exact ofBitsF_roundTo _ hf neg m e

theorem floatWidth (size : Nat) (hsz : size = 2 ∨ size = 4 ∨ size = 8) : floatWidthBits size / 8 = size := by
  rcases hsz with h | h | h <;> rw [h] <;> decide

/-- **Floats obey the binary law**: every double that is not NaN, written into a 2-, 4- or
8-byte float field, reads back as the value rounded to the field's IEEE format (nearest, ties
to even, overflow to infinity) — which is what `Spec.C09.canon` prescribes. -/
theorem binLaw_flt (f : Field) (x : Dbl) (dec : Nat) (fmt : Char) (sep : List Char)
    (hk : f.kind = .flt dec fmt sep) (hgeo : f.stop = f.size + f.start)
    (hsz : f.size = 2 ∨ f.size = 4 ∨ f.size = 8) (hx : x.isNaN = false) : BinLaw f (.dbl x) := by
  have hw := floatWidth f.size hsz
  refine ⟨encodeFloat f.size x, ⟨?_, ?_, hgeo⟩, ?_⟩
  · simp [renderBin, hk, Val.isNull, hx, hw]
  · simp [encodeFloat, length_leBytes]
  · simp [parseBin, hk, hw, decode_encode_float f.size hsz x hx, Spec.C09.canon, Spec.C09.width, Val.isNull, hx]

/-- a missing float is stored as zero and reads back as zero -/
theorem binLaw_flt_null (f : Field) (v : Val) (hn : v.isNull = true) (dec : Nat) (fmt : Char) (sep : List Char)
    (hk : f.kind = .flt dec fmt sep) (hgeo : f.stop = f.size + f.start)
    (hsz : f.size = 2 ∨ f.size = 4 ∨ f.size = 8) : BinLaw f v := by
  have hw := floatWidth f.size hsz
  refine ⟨leBytes f.size 0, ⟨?_, length_leBytes _ _, hgeo⟩, ?_⟩
  · simp [renderBin, hk, hn, hw]
  · simp only [parseBin, hk, hw, Spec.C09.canon, hn, if_true]
    rcases hsz with h | h | h <;> rw [h] <;> decide


theorem sizes_of {s : Nat} (h : (s == 2 || s == 4 || s == 8) = true) : s = 2 ∨ s = 4 ∨ s = 8 := by
  simp only [Bool.or_eq_true, beq_iff_eq] at h
  rcases h with (h | h) | h
  · exact Or.inl h
  · exact Or.inr (Or.inl h)
  · exact Or.inr (Or.inr h)

/-- **The binary law from the decidable domain guard**, for every admitted value of every field
kind except dates: in-range integers, ASCII literals, floats, and missing values. -/
theorem binLaw_of_domain (f : Field) (v : Val) (h : fieldInDomain f v = true)
    (hdate : ∀ fmts, f.kind ≠ .date fmts) : BinLaw f v := by
  simp only [fieldInDomain, Bool.and_eq_true, beq_iff_eq] at h
  obtain ⟨⟨hgeo, hty⟩, hk⟩ := h
  cases hkind : f.kind with
  | date fmts => exact absurd hkind (hdate fmts)
  | int =>
    rw [hkind] at hk hty
    cases v with
    | int n =>
      simp only [Bool.and_eq_true, beq_iff_eq, decide_eq_true_eq] at hk
      obtain ⟨⟨hsz, _⟩, hlo, hhi⟩ := hk
      exact binLaw_int f n hkind hgeo (sizes_of hsz) hlo hhi
    | none =>
      simp only [Bool.and_eq_true, beq_iff_eq] at hk
      exact binLaw_int_null f .none rfl hkind hgeo (sizes_of hk.1)
    | nat =>
      simp only [Bool.and_eq_true, beq_iff_eq] at hk
      exact binLaw_int_null f .nat rfl hkind hgeo (sizes_of hk.1)
    | dbl x =>
      simp only [Bool.and_eq_true, beq_iff_eq] at hk
      cases x with
      | nan => exact binLaw_int_null f (.dbl .nan) rfl hkind hgeo (sizes_of hk.1)
      | inf neg => simp [Spec.C02.typeOk] at hty
      | fin neg m e => simp [Spec.C02.typeOk] at hty
    | str s => simp [Spec.C02.typeOk] at hty
    | date t => simp [Spec.C02.typeOk] at hty
  | flt dec fmt sep =>
    rw [hkind] at hk hty
    simp only [Bool.and_eq_true, beq_iff_eq] at hk
    have hsz := sizes_of hk.1
    cases v with
    | dbl x =>
      cases x with
      | nan => exact binLaw_flt_null f (.dbl .nan) rfl dec fmt sep hkind hgeo hsz
      | inf neg => simp [Spec.C02.typeOk] at hty
      | fin neg m e => exact binLaw_flt f (.fin neg m e) dec fmt sep hkind hgeo hsz rfl
    | none => exact binLaw_flt_null f .none rfl dec fmt sep hkind hgeo hsz
    | nat => exact binLaw_flt_null f .nat rfl dec fmt sep hkind hgeo hsz
    | int n => simp [Spec.C02.typeOk] at hty
    | str s => simp [Spec.C02.typeOk] at hty
    | date t => simp [Spec.C02.typeOk] at hty
  | lit =>
    rw [hkind] at hk hty
    cases v with
    | str s =>
      simp only [Bool.and_eq_true, decide_eq_true_eq] at hk
      obtain ⟨⟨hasc, hfit⟩, _⟩ := hk
      apply binLaw_lit f s hkind hgeo _ hfit
      intro c hc
      simp only [isAscii, List.all_eq_true, decide_eq_true_eq] at hasc
      exact hasc c hc
    | none => exact binLaw_lit_null f .none rfl hkind hgeo
    | nat => exact binLaw_lit_null f .nat rfl hkind hgeo
    | dbl x =>
      cases x with
      | nan => exact binLaw_lit_null f (.dbl .nan) rfl hkind hgeo
      | inf neg => simp [Spec.C02.typeOk] at hty
      | fin neg m e => simp [Spec.C02.typeOk] at hty
    | int n => simp [Spec.C02.typeOk] at hty
    | date t => simp [Spec.C02.typeOk] at hty

/-- **C09 in full, from the decidable domain, for every layout without date fields**: the
record written is as long as the furthest field end with blank gaps, every field's bytes sit
in its own span, and reading the record back gives in-range integers exactly, floats rounded
to their field's IEEE format, literals blank-trimmed, missing values as zero / blanks. -/
theorem main_nodate (fs : List Field) (vs : List Val) (h : inDomain fs vs = true)
    (hdate : ∀ f ∈ fs, ∀ fmts, f.kind ≠ .date fmts) :
    ∃ o, Spec.C09.cycle fs vs = some o ∧ Spec.C09.holds fs vs o = true := by
  simp only [inDomain, Bool.and_eq_true, beq_iff_eq, List.all_eq_true] at h
  obtain ⟨⟨hlen, hdis⟩, hdom⟩ := h
  apply line_main fs vs hlen (Cfi.Disjoint_of_bool fs hdis)
  intro fv hfv
  exact binLaw_of_domain fv.1 fv.2 (hdom fv hfv) (hdate fv.1 (List.of_mem_zip hfv).1)


/-- non-vacuity: a 4-byte integer, an 8-byte and a 2-byte float and an ASCII literal, with a gap -/
example :
    let fs := [Field.mk' .int 4 0, Field.mk' (.flt 2 'F' ['.']) 8 4, Field.mk' (.flt 2 'F' ['.']) 2 13, Field.mk' .lit 3 15]
    let vs := [Val.int (-7), Val.dbl (.fin false (2 ^ 52 + 2 ^ 51) (-52)), Val.dbl (.fin true (2 ^ 52 + 1) (-52)), Val.str "ab".toList]
    inDomain fs vs = true ∧ (∀ f ∈ fs, ∀ fmts, f.kind ≠ .date fmts) := by
  refine ⟨by decide +kernel, ?_⟩
  intro f hf fmts
  simp only [List.mem_cons, List.not_mem_nil, or_false] at hf
  rcases hf with rfl | rfl | rfl | rfl <;> simp [Field.mk']

end Props.C09
