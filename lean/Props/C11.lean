import Cfi.Line
import Spec.C11
import Proofs.SplitJoin
import Proofs.StripLaw
import Props.C01
/-! C11 — property theorems. -/
namespace Props.C11
open Cfi Cfi.Text Spec.C11

/-- **No carry-over**: the result of a delimited read is a function of the line
alone — `readDelim` takes no slot state — so over any sequence of reads through
the same fields the k-th result depends on the k-th line only. -/
theorem no_carry (fs : List Field) (d : List Char) (lines : List (List Char)) :
    expectedSeq fs d lines = lines.map (fun l => readDelim fs l d) := rfl

theorem length_go (fs : List Field) (ts : List (List Char)) : (readDelim.go fs ts).length = fs.length := by
  induction fs generalizing ts with
  | nil => simp [readDelim.go]
  | cons f fs ih => cases ts <;> simp [readDelim.go, ih]

/-- one value per field, however many tokens the line has -/
theorem length_readDelim (fs : List Field) (line d : List Char) :
    (readDelim fs line d).length = fs.length := length_go fs _

/-- fields beyond the token count read `None` -/
theorem go_missing (fs : List Field) : readDelim.go fs [] = fs.map (fun _ => Val.none) := by
  induction fs with
  | nil => rfl
  | cons f fs ih => simp [readDelim.go, ih]

/-- surplus tokens are ignored, absent ones give `None`: the i-th value is the
token-local parse of the i-th token if there is one -/
theorem go_getElem (fs : List Field) (ts : List (List Char)) (i : Nat) (hi : i < fs.length) :
    (readDelim.go fs ts)[i]? =
      some (match ts[i]? with
        | some t => (fs[i]).rebased.readText t
        | none => Val.none) := by
  induction fs generalizing ts i with
  | nil => simp at hi
  | cons f fs ih =>
    cases ts with
    | nil =>
      rw [go_missing]
      simp only [List.getElem?_map, List.getElem?_nil]
      rw [List.getElem?_eq_getElem hi]
      rfl
    | cons t ts =>
      cases i with
      | zero => simp [readDelim.go]
      | succ i =>
        simp only [readDelim.go, List.getElem?_cons_succ, List.getElem_cons_succ]
        exact ih ts i (by simpa using hi)

end Props.C11

/-! ### the written line, and reading it back -/
namespace Props.C11
open Cfi Cfi.Text Spec.C11

theorem renderText_rebased (f : Field) (v : Val) : renderText f.rebased v = renderText f v := rfl

/-- writing a rebased field onto the empty line gives exactly its rendering -/
theorem writeText_rebased_nil (f : Field) (v : Val) (r : List Char) (hr : renderText f v = .ok r)
    (hl : r.length = f.size) : f.rebased.writeText v [] = .ok r := by
  simp only [Field.writeText, renderText_rebased, hr, Except.map]
  congr 1
  simp only [splice, Field.rebased, List.length_nil]
  by_cases h0 : f.size = 0
  · have : r = [] := List.length_eq_zero_iff.mp (by omega)
    simp [h0, this]
  · have : 0 < f.size := by omega
    simp [this, ljust, List.drop_replicate, hl]

/-- **The written line** is the blank-trimmed renderings joined by the delimiter,
plus one newline — for every layout and every value list whose renderings are
`size` wide. -/
theorem writeDelim_eq (fs : List Field) (vs : List Val) (rs : List (List Char)) (d : List Char)
    (hlen : fs.length = vs.length)
    (hr : ∀ i (hi : i < fs.length), ∃ r, rs[i]? = some r ∧ renderText fs[i] (vs[i]'(hlen ▸ hi)) = .ok r ∧ r.length = (fs[i]).size)
    (hrl : rs.length = fs.length) :
    writeDelim fs vs d = .ok (join d (rs.map strip) ++ ['\n']) := by
  have key : ∀ (fs : List Field) (vs : List Val) (rs : List (List Char)), fs.length = vs.length →
      rs.length = fs.length →
      (∀ i (hi : i < fs.length) (hi' : i < vs.length), ∃ r, rs[i]? = some r ∧ renderText fs[i] vs[i] = .ok r ∧ r.length = (fs[i]).size) →
      (fs.zip vs).mapM (fun (fv : Field × Val) => (fv.1.rebased.writeText fv.2 []).map strip) = .ok (rs.map strip) := by
    intro fs
    induction fs with
    | nil =>
      intro vs rs hl hrl _
      have : rs = [] := List.length_eq_zero_iff.mp (by simpa using hrl)
      subst this; cases vs <;> rfl
    | cons f fs ih =>
      intro vs rs hl hrl h
      cases vs with
      | nil => simp at hl
      | cons v vs =>
        cases rs with
        | nil => simp at hrl
        | cons r0 rs =>
          obtain ⟨r, h1, h2, h3⟩ := h 0 (by simp) (by simp)
          simp only [List.getElem?_cons_zero, Option.some.injEq] at h1
          subst h1
          simp only [List.getElem_cons_zero] at h2 h3
          have ht := ih vs rs (by simpa using hl) (by simpa using hrl) (fun i hi hi' => by
            have := h (i + 1) (by simpa using hi) (by simpa using hi')
            simpa using this)
          simp only [Except.map] at ht
          simp only [List.zip_cons_cons, List.mapM_cons, writeText_rebased_nil f v r0 h2 h3, Except.map,
            bind, Except.bind, ht, List.map_cons, pure, Except.pure]
  unfold writeDelim
  rw [key fs vs rs hlen hrl (fun i hi hi' => hr i hi)]
  rfl

end Props.C11

/-! ### reading the written line back -/
namespace Props.C11
open Cfi Cfi.Text Spec.C11

theorem join_cons_ne (sep x : List Char) (xs : List (List Char)) (h : xs ≠ []) :
    join sep (x :: xs) = x ++ sep ++ join sep xs := by
  cases xs with
  | nil => exact absurd rfl h
  | cons y ys => rfl

/-- text appended to a joined line lands in its last token -/
theorem join_snoc_append (sep : List Char) (ts : List (List Char)) (t x : List Char) :
    join sep (ts ++ [t]) ++ x = join sep (ts ++ [t ++ x]) := by
  induction ts with
  | nil => rfl
  | cons a ts ih =>
    rw [List.cons_append, List.cons_append, join_cons_ne _ _ _ (by simp), join_cons_ne _ _ _ (by simp),
      List.append_assoc, ih]

theorem go_zip (fs : List Field) (ts : List (List Char)) (h : ts.length = fs.length) :
    readDelim.go fs ts = (fs.zip ts).map (fun ft => ft.1.rebased.readText ft.2) := by
  induction fs generalizing ts with
  | nil => simp [readDelim.go]
  | cons f fs ih =>
    cases ts with
    | nil => simp at h
    | cons t ts => simp [readDelim.go, ih ts (by simpa using h)]

/-- a token no longer than the field is read whole -/
theorem readText_rebased (f : Field) (t : List Char) (h : t.length ≤ f.size) :
    f.rebased.readText t = (parseText f.kind t).getD .none := by
  simp only [Field.readText, Field.rebased, slice, List.drop_zero]
  rw [List.take_of_length_le h]

/-- **Token-wise read-back.**  For any layout, any non-empty delimiter `d` without
a newline, and any renderings `rs` (one per field, `size` wide) whose trimmed
texts contain no character of `d`: the line `writeDelim` produces is split by
`readDelim` into exactly those trimmed texts, and the i-th value read is the
parse of the i-th trimmed text alone. -/
theorem read_written (fs : List Field) (vs : List Val) (rs : List (List Char)) (d : List Char)
    (hlen : fs.length = vs.length) (hrl : rs.length = fs.length)
    (hr : ∀ i (hi : i < fs.length), ∃ r, rs[i]? = some r ∧ renderText fs[i] (vs[i]'(hlen ▸ hi)) = .ok r ∧ r.length = (fs[i]).size)
    (hd : d ≠ []) (hnl : ¬ '\n' ∈ d)
    (hfree : ∀ r ∈ rs, ∀ c ∈ strip r, ¬ c ∈ d) :
    ∃ w, writeDelim fs vs d = .ok w ∧ w = join d (rs.map strip) ++ ['\n'] ∧
      readDelim fs w d = (fs.zip (rs.map strip)).map (fun ft => (parseText ft.1.kind ft.2).getD .none) := by
  refine ⟨_, writeDelim_eq fs vs rs d hlen hr hrl, rfl, ?_⟩
  -- sizes of the trimmed texts
  have hsz : ∀ ft ∈ fs.zip (rs.map strip), ft.2.length ≤ ft.1.size := by
    intro ft hft
    obtain ⟨i, hi, heq⟩ := List.getElem_of_mem hft
    simp only [List.length_zip, List.length_map] at hi
    have hif : i < fs.length := by omega
    obtain ⟨r, h1, _, h3⟩ := hr i hif
    have hir : i < rs.length := by omega
    have : rs[i] = r := by rw [List.getElem?_eq_getElem hir] at h1; exact Option.some.inj h1
    rw [List.getElem_zip] at heq
    subst heq
    simp only [List.getElem_map, this]
    have := length_strip_le r
    omega
  cases hrs : rs.reverse with
  | nil =>
    have : rs = [] := by simpa using hrs
    subst this
    have : fs = [] := List.length_eq_zero_iff.mp (by simpa using hrl.symm)
    subst this
    simp [readDelim, readDelim.go]
  | cons rl rinit =>
    have hrs' : rs = rinit.reverse ++ [rl] := by
      have := congrArg List.reverse hrs; simpa using this
    -- the newline joins the last token
    have hline : join d (rs.map strip) ++ ['\n'] = join d ((rinit.reverse.map strip) ++ [strip rl ++ ['\n']]) := by
      rw [hrs', List.map_append, List.map_cons, List.map_nil, join_snoc_append]
    have hsplit : split (join d (rs.map strip) ++ ['\n']) d = (rinit.reverse.map strip) ++ [strip rl ++ ['\n']] := by
      rw [hline]
      apply split_join d hd _ (by simp)
      intro t ht c hc
      rw [List.mem_append] at ht
      rcases ht with ht | ht
      · obtain ⟨r, hr1, hr2⟩ := List.mem_map.1 ht
        subst hr2
        exact hfree r (by rw [hrs']; simp [List.mem_reverse.1 (List.mem_reverse.2 hr1)]) c hc
      · simp only [List.mem_singleton] at ht
        subst ht
        rw [List.mem_append] at hc
        rcases hc with hc | hc
        · exact hfree rl (by rw [hrs']; simp) c hc
        · simp only [List.mem_singleton] at hc; subst hc; exact hnl
    have htok : (split (join d (rs.map strip) ++ ['\n']) d).map strip = rs.map strip := by
      rw [hsplit, hrs']
      simp only [List.map_append, List.map_map, List.map_cons, List.map_nil, strip_append_newline, strip_idem]
      congr 1
      apply List.map_congr_left
      intro a _
      simp [strip_idem]
    unfold readDelim
    simp only [htok]
    rw [go_zip fs _ (by simpa using hrl)]
    apply List.map_congr_left
    intro ft hft
    exact readText_rebased ft.1 ft.2 (hsz ft hft)

end Props.C11

/-! ### the statement of `Spec.C11.holds`, for all inputs -/
namespace Props.C11
open Cfi Cfi.Text Spec.C11

/-- the stripped tokens of `join d us ++ "\n"` are the stripped `us` -/
theorem tokens_of_joined (d : List Char) (us : List (List Char)) (hd : d ≠ []) (hnl : ¬ '\n' ∈ d)
    (hne : us ≠ []) (hfree : ∀ u ∈ us, ∀ c ∈ u, ¬ c ∈ d) :
    (split (join d us ++ ['\n']) d).map strip = us.map strip := by
  cases hrs : us.reverse with
  | nil => exact absurd (by simpa using hrs) hne
  | cons ul uinit =>
    have hus : us = uinit.reverse ++ [ul] := by
      have := congrArg List.reverse hrs; simpa using this
    have hsplit : split (join d us ++ ['\n']) d = uinit.reverse ++ [ul ++ ['\n']] := by
      rw [hus, join_snoc_append]
      apply split_join d hd _ (by simp)
      intro t ht c hc
      rw [List.mem_append] at ht
      rcases ht with ht | ht
      · exact hfree t (by rw [hus]; simp [ht]) c hc
      · simp only [List.mem_singleton] at ht
        subst ht
        rw [List.mem_append] at hc
        rcases hc with hc | hc
        · exact hfree ul (by rw [hus]; simp) c hc
        · simp only [List.mem_singleton] at hc; subst hc; exact hnl
    rw [hsplit, hus]
    simp [strip_append_newline]

/-- blanks around a token disappear when it is trimmed -/
theorem strip_padded (t : List Char) (a b : Nat) :
    strip (List.replicate a ' ' ++ t ++ List.replicate b ' ') = strip t := by
  unfold strip
  rw [stripBy_append_replicate _ b ' ' isStripWs_blank]
  unfold stripBy
  rw [dropWhile_replicate_append_any a ' ' t isStripWs_blank]

/-- the per-token law (the delimited counterpart of `Props.C01.RenderLaw`): the
trimmed rendering parses to the canonical form of the value -/
def TokLaw (f : Field) (v : Val) (r : List Char) : Prop :=
  renderText f v = .ok r ∧ r.length = f.size ∧
    (parseText f.kind (strip r)).getD .none = canonTok f v (strip r)

theorem tokens_eq (fs : List Field) (vs : List Val) (rs : List (List Char))
    (hlen : fs.length = vs.length) (hrl : rs.length = fs.length)
    (hr : ∀ i (hi : i < fs.length), ∃ r, rs[i]? = some r ∧ renderText fs[i] (vs[i]'(hlen ▸ hi)) = .ok r) :
    tokens fs vs = some (rs.map strip) := by
  unfold tokens
  induction fs generalizing vs rs with
  | nil =>
    have : rs = [] := List.length_eq_zero_iff.mp (by simpa using hrl)
    subst this; cases vs <;> rfl
  | cons f fs ih =>
    cases vs with
    | nil => simp at hlen
    | cons v vs =>
      cases rs with
      | nil => simp at hrl
      | cons r0 rs =>
        obtain ⟨r, h1, h2⟩ := hr 0 (by simp)
        simp only [List.getElem?_cons_zero, Option.some.injEq] at h1
        subst h1
        simp only [List.getElem_cons_zero] at h2
        have ht := ih vs rs (by simpa using hlen) (by simpa using hrl) (fun i hi => by
          have := hr (i + 1) (by simpa using hi)
          simpa using this)
        simp only [List.zip_cons_cons, List.mapM_cons, h2, ht, List.map_cons, bind, Option.bind, pure]

end Props.C11

namespace Props.C11
open Cfi Cfi.Text Spec.C11

theorem readDelim_of_tokens (fs : List Field) (line d : List Char) (ts : List (List Char))
    (h : (split line d).map strip = ts) : readDelim fs line d = readDelim.go fs ts := by
  unfold readDelim; rw [h]

theorem go_canon (fs : List Field) (vs : List Val) (rs : List (List Char))
    (hlen : fs.length = vs.length) (hrl : rs.length = fs.length)
    (hlaw : ∀ i (hi : i < fs.length), ∃ r, rs[i]? = some r ∧ TokLaw fs[i] (vs[i]'(hlen ▸ hi)) r) :
    readDelim.go fs (rs.map strip) =
      ((fs.zip vs).zip (rs.map strip)).map (fun (fvt : (Field × Val) × List Char) => canonTok fvt.1.1 fvt.1.2 fvt.2) := by
  induction fs generalizing vs rs with
  | nil => simp [readDelim.go]
  | cons f fs ih =>
    cases vs with
    | nil => simp at hlen
    | cons v vs =>
      cases rs with
      | nil => simp at hrl
      | cons r0 rs =>
        obtain ⟨r, h1, h2, h3, h4⟩ := hlaw 0 (by simp)
        simp only [List.getElem?_cons_zero, Option.some.injEq] at h1
        subst h1
        simp only [List.getElem_cons_zero] at h2 h3 h4
        have ht := ih vs rs (by simpa using hlen) (by simpa using hrl) (fun i hi => by
          have := hlaw (i + 1) (by simpa using hi)
          simpa using this)
        have hsz : (strip r0).length ≤ f.size := by have := length_strip_le r0; omega
        simp only [List.map_cons, readDelim.go, List.zip_cons_cons, ht, readText_rebased f _ hsz, h4]

/-- **C11, for every input in the guard.**  For any layout `fs`, values `vs` whose
renderings obey the per-token law, any non-empty delimiter without newline or
blank, tokens free of the delimiter's characters, any padding and any sequence
of further lines: the model's write/read cycle satisfies the whole of
`Spec.C11.holds` — the written line is the trimmed renderings joined by `d` plus
a newline, reading it back gives the canonical values token by token, blanks
around tokens change nothing, and reads do not influence one another. -/
theorem main (fs : List Field) (vs : List Val) (rs : List (List Char)) (d : List Char)
    (pads : List (Nat × Nat)) (lines : List (List Char))
    (hlen : fs.length = vs.length) (hrl : rs.length = fs.length) (hp : fs.length ≤ pads.length)
    (hlaw : ∀ i (hi : i < fs.length), ∃ r, rs[i]? = some r ∧ TokLaw fs[i] (vs[i]'(hlen ▸ hi)) r)
    (hd : d ≠ []) (hnl : ¬ '\n' ∈ d) (hblank : ¬ ' ' ∈ d)
    (hfree : ∀ r ∈ rs, ∀ c ∈ strip r, ¬ c ∈ d) :
    ∃ o, cycle fs vs d pads lines = some o ∧ holds fs vs d pads lines o = true := by
  have hr : ∀ i (hi : i < fs.length), ∃ r, rs[i]? = some r ∧ renderText fs[i] (vs[i]'(hlen ▸ hi)) = .ok r ∧ r.length = (fs[i]).size := by
    intro i hi
    obtain ⟨r, h1, h2, h3, _⟩ := hlaw i hi
    exact ⟨r, h1, h2, h3⟩
  have hw := writeDelim_eq fs vs rs d hlen hr hrl
  have htk := tokens_eq fs vs rs hlen hrl (fun i hi => by
    obtain ⟨r, h1, h2, _⟩ := hr i hi; exact ⟨r, h1, h2⟩)
  refine ⟨⟨join d (rs.map strip) ++ ['\n'], readDelim fs (join d (rs.map strip) ++ ['\n']) d,
    readDelim fs (padLine (rs.map strip) d pads) d, expectedSeq fs d lines⟩, by simp only [cycle, hw, htk], ?_⟩
  simp only [holds, htk, beq_self_eq_true, Bool.true_and, Bool.and_true, Bool.and_eq_true, beq_iff_eq]
  by_cases hrs : rs = []
  · subst hrs
    have : fs = [] := List.length_eq_zero_iff.mp (by simpa using hrl.symm)
    subst this
    simp [readDelim, readDelim.go]
  · have hne : rs.map strip ≠ [] := by simpa using hrs
    have hback : readDelim fs (join d (rs.map strip) ++ ['\n']) d = readDelim.go fs (rs.map strip) := by
      apply readDelim_of_tokens
      rw [tokens_of_joined d _ hd hnl hne]
      · simp [strip_idem]
      · intro u hu c hc
        obtain ⟨r, hr1, hr2⟩ := List.mem_map.1 hu
        subst hr2
        exact hfree r hr1 c hc
    have hpad : readDelim fs (padLine (rs.map strip) d pads) d = readDelim.go fs (rs.map strip) := by
      apply readDelim_of_tokens
      simp only [padLine, padded]
      rw [tokens_of_joined d _ hd hnl]
      · rw [List.map_map]
        have hlz : (rs.map strip).length ≤ pads.length := by simpa [hrl] using hp
        -- trimming every padded token gives the token list back
        have : ∀ (ts : List (List Char)) (ps : List (Nat × Nat)), ts.length ≤ ps.length →
            (ts.zip ps).map (strip ∘ fun (tp : List Char × Nat × Nat) =>
              List.replicate tp.2.1 ' ' ++ tp.1 ++ List.replicate tp.2.2 ' ') = ts.map strip := by
          intro ts
          induction ts with
          | nil => simp
          | cons t ts ih =>
            intro ps hps
            cases ps with
            | nil => simp at hps
            | cons p ps =>
              simp only [List.zip_cons_cons, List.map_cons, Function.comp, strip_padded]
              congr 1
              exact ih ps (by simpa using hps)
        rw [this _ _ hlz]
        simp [strip_idem]
      · intro h
        have hz := congrArg List.length h
        simp only [List.length_map, List.length_zip, List.length_nil] at hz
        have : 0 < rs.length := List.length_pos_iff.2 hrs
        omega
      · intro u hu c hc
        obtain ⟨tp, htp1, htp2⟩ := List.mem_map.1 hu
        subst htp2
        have hmem := (List.of_mem_zip htp1).1
        obtain ⟨r, hr1, hr2⟩ := List.mem_map.1 hmem
        simp only [List.mem_append, List.mem_replicate] at hc
        rcases hc with (hc | hc) | hc
        · rw [hc.2]; exact hblank
        · rw [← hr2] at hc; exact hfree r hr1 c hc
        · rw [hc.2]; exact hblank
    rw [hback, hpad]
    refine ⟨?_, ?_⟩
    · exact go_canon fs vs rs hlen hrl hlaw
    · split <;> simp

end Props.C11

/-! ### the per-token law, proved for integers, literals and missing values -/
namespace Props.C11
open Cfi Cfi.Text Spec.C11 Cfi.PyInt

theorem stripWs_not_digit : ∀ n : Nat, n ≤ 57 → 45 ≤ n → Cfi.Generated.stripWs.contains n = false := by decide

theorem isStripWs_digit {c : Char} (h : c.isDigit = true) : isStripWs c = false := by
  have := (isDigit_iff c).1 h
  exact stripWs_not_digit c.toNat this.2 (by omega)

theorem isStripWs_minus : isStripWs '-' = false := by decide

theorem pyStr_ends_strip (n : Int) : (∀ x, (pyStr n).head? = some x → isStripWs x = false) ∧
    (∀ x, (pyStr n).getLast? = some x → isStripWs x = false) := by
  cases n with
  | ofNat k =>
    have hd := natDigits_isDigit k
    exact ⟨fun x hx => isStripWs_digit (hd x (List.mem_of_head? hx)),
           fun x hx => isStripWs_digit (hd x (List.mem_of_getLast? hx))⟩
  | negSucc k =>
    have hd := natDigits_isDigit (k + 1)
    have hne : natDigits (k + 1) ≠ [] := by simp [natDigits]
    refine ⟨fun x hx => by simp [pyStr] at hx; subst hx; exact isStripWs_minus, fun x hx => ?_⟩
    simp only [pyStr] at hx
    rw [List.getLast?_cons_of_ne_nil hne] at hx
    exact isStripWs_digit (hd x (List.mem_of_getLast? hx))

/-- the delimited token of an integer is its decimal text -/
theorem strip_rjust_pyStr (n : Int) (size : Nat) : strip (rjust (pyStr n) size ' ') = pyStr n := by
  unfold strip rjust
  exact stripBy_pad_left _ ' ' (pyStr n) isStripWs_blank (pyStr_ends_strip n).1 (pyStr_ends_strip n).2

theorem tokLaw_int (f : Field) (n : Int) (hk : f.kind = .int)
    (hfit : (pyStr n).length ≤ f.size) (hbig : n.natAbs < 10 ^ 4300) :
    TokLaw f (.int n) (rjust (pyStr n) f.size ' ') := by
  refine ⟨?_, ?_, ?_⟩
  · simp [renderText, renderRaw, renderFull, hk, Val.isNull, Except.map]
  · rw [length_rjust]; omega
  · rw [strip_rjust_pyStr]
    simp [parseText, hk, canonTok, Spec.C01.canon, Val.isNull, pyInt_pyStr n hbig]

theorem tokLaw_lit (f : Field) (s : List Char) (hk : f.kind = .lit) (hfit : s.length ≤ f.size) :
    TokLaw f (.str s) (ljust s f.size ' ') := by
  refine ⟨?_, ?_, ?_⟩
  · simp [renderText, renderRaw, renderFull, hk, Val.isNull, Except.map]
  · rw [length_ljust]; omega
  · simp [parseText, hk, canonTok, Spec.C01.canon, Val.isNull, strip_ljust, strip_idem]

/-- a missing value is an empty token and reads back as missing (`""` for literals) -/
theorem tokLaw_null (f : Field) (v : Val) (hn : v.isNull = true)
    (hk : f.kind = .lit ∨ f.kind = .int) :
    TokLaw f v (List.replicate f.size ' ') := by
  refine ⟨Props.C01.render_null f v hn, by simp, ?_⟩
  rw [strip_replicate_blank, canonTok, Props.C01.canon_null f v _ hn]
  rcases hk with hk | hk <;> simp [hk, parseText, strip, stripBy, pyInt, sign, digitsUS]

/-- non-vacuity: a three-field line (integer, literal, missing integer) with a
two-character delimiter meets every hypothesis of `main` -/
example :
    let fs : List Field := [⟨.int, 5, 0, 5⟩, ⟨.lit, 4, 5, 9⟩, ⟨.int, 3, 9, 12⟩]
    let vs : List Val := [.int (-42), .str ['a', 'b'], .none]
    ∃ o, cycle fs vs [';', ';'] [(1, 2), (0, 0), (3, 0)] [['x']] = some o ∧
      holds fs vs [';', ';'] [(1, 2), (0, 0), (3, 0)] [['x']] o = true ∧
      o.written = "-42;;ab;;\n".toList ∧ o.readBack = [.int (-42), .str ['a', 'b'], .none] := by
  decide +kernel

end Props.C11

namespace Props.C11
open Cfi Cfi.Text Spec.C11

/-- **Dates** obey the per-token law: the trimmed `strftime` text parses back, with
the field's first format, to the truncation of the date to that format -/
theorem tokLaw_date (f : Field) (fmt : List Char) (fmts : List (List Char)) (t : Cfi.Date.DT)
    (hk : f.kind = .date (fmt :: fmts)) (hgeo : f.stop = f.size + f.start)
    (hok : Spec.C03.fmtOk fmt = true)
    (hv : (Spec.C01.truncDate fmt t).valid = true) (hy : 1000 ≤ (Spec.C01.truncDate fmt t).y)
    (hhead : isStripWs (fmt.headD ' ') = false) (hlast : isStripWs (fmt.getLastD ' ') = false)
    (hfit : ∀ p, Cfi.Date.strftime (fmt.length + 1) fmt t = some p → p.length ≤ f.size) :
    ∃ r, TokLaw f (.date t) r := by
  obtain ⟨r, ⟨h1, h2, _⟩, h3, _⟩ := Props.C01.law_date f fmt fmts t hk hgeo hok hv hy hhead hlast hfit
  refine ⟨r, h1, h2, ?_⟩
  have hp : parseText f.kind (strip r) = parseText f.kind r := by
    simp only [parseText, hk, strip_idem]
  rw [hp, h3]
  simp [canonTok, Spec.C01.canon, hk]

end Props.C11

namespace Props.C11
open Cfi Cfi.Text Spec.C11

/-- the raw tokens of a written line: the newline stays on the last one -/
theorem split_joined_line (d : List Char) (init : List (List Char)) (last : List Char) (hd : d ≠ [])
    (hnl : ¬ '\n' ∈ d) (hfree : ∀ u ∈ init ++ [last], ∀ c ∈ u, ¬ c ∈ d) :
    split (join d (init ++ [last]) ++ ['\n']) d = init ++ [last ++ ['\n']] := by
  rw [join_snoc_append]
  apply split_join d hd _ (by simp)
  intro t ht c hc
  rw [List.mem_append] at ht
  rcases ht with ht | ht
  · exact hfree t (by simp [ht]) c hc
  · simp only [List.mem_singleton] at ht
    subst ht
    rw [List.mem_append] at hc
    rcases hc with hc | hc
    · exact hfree last (by simp) c hc
    · simp only [List.mem_singleton] at hc; subst hc; exact hnl

theorem mem_join (d : List Char) (ts : List (List Char)) (c : Char) (h : c ∈ join d ts) :
    c ∈ d ∨ ∃ t ∈ ts, c ∈ t := by
  induction ts with
  | nil => simp [join] at h
  | cons t ts ih =>
    cases ts with
    | nil => right; exact ⟨t, by simp, by simpa [join] using h⟩
    | cons t2 ts =>
      rw [join_cons_ne _ _ _ (by simp)] at h
      simp only [List.mem_append] at h
      rcases h with (h | h) | h
      · right; exact ⟨t, by simp, h⟩
      · left; exact h
      · rcases ih h with h' | ⟨u, hu, hc⟩
        · left; exact h'
        · right; exact ⟨u, by simp [hu], hc⟩

end Props.C11
