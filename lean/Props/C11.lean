import Cfi.Line
import Spec.C11
/-! C11 — property theorems. -/
namespace Props.C11
open Cfi Cfi.Text Spec.C11

/-- **No carry-over**: the result of a delimited read is a function of the line
alone — `readDelim` takes no slot state — so over any sequence of reads through
the same fields the k-th result depends on the k-th line only. -/
theorem no_carry (fs : List Field) (d : List Char) (lines : List (List Char)) :
    expectedSeq fs d lines = lines.map (fun l => readDelim fs l d) := rfl

theorem length_go (fs : List Field) (ts : List (List Char)) : (readDelim.go fs ts).length = fs.length := by
  induction fs generalizing ts with
  | nil => simp [readDelim.go]
  | cons f fs ih => cases ts <;> simp [readDelim.go, ih]

/-- one value per field, however many tokens the line has -/
theorem length_readDelim (fs : List Field) (line d : List Char) :
    (readDelim fs line d).length = fs.length := length_go fs _

/-- fields beyond the token count read `None` -/
theorem go_missing (fs : List Field) : readDelim.go fs [] = fs.map (fun _ => Val.none) := by
  induction fs with
  | nil => rfl
  | cons f fs ih => simp [readDelim.go, ih]

/-- surplus tokens are ignored, absent ones give `None`: the i-th value is the
token-local parse of the i-th token if there is one -/
theorem go_getElem (fs : List Field) (ts : List (List Char)) (i : Nat) (hi : i < fs.length) :
    (readDelim.go fs ts)[i]? =
      some (match ts[i]? with
        | some t => (fs[i]).rebased.readText t
        | none => Val.none) := by
  induction fs generalizing ts i with
  | nil => simp at hi
  | cons f fs ih =>
    cases ts with
    | nil =>
      rw [go_missing]
      simp only [List.getElem?_map, List.getElem?_nil]
      rw [List.getElem?_eq_getElem hi]
      rfl
    | cons t ts =>
      cases i with
      | zero => simp [readDelim.go]
      | succ i =>
        simp only [readDelim.go, List.getElem?_cons_succ, List.getElem_cons_succ]
        exact ih ts i (by simpa using hi)

end Props.C11
