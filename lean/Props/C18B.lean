import Props.C18
/-!
C18 for binary register files: every step of the reading loop consumes at least one byte, so the
number of elements never exceeds the number of unread bytes, and the loop ends by itself.
-/
namespace Props.C18
open Cfi Cfi.Text

theorem read_rest_length (s : Stream UInt8) (n : Nat) :
    (s.read n).2.rest.length = s.rest.length - (s.read n).1.length ∧ (s.read n).1.length = min n s.rest.length ∧
    (s.read n).2.pos = s.pos + (s.read n).1.length := by
  simp only [Stream.read, Stream.rest, List.length_drop, List.length_take, and_self, and_true]
  omega

/-- **binary register files: every step consumes input** — for every register list, every peek
window and every content, whatever the fuel: when the read returns, the number of elements
is at most the number of unread bytes -/
theorem reg_bin_bound (regs : List RegDef) (linesize : Nat) :
    ∀ (fuel : Nat) (s : Stream UInt8) (es : List RElem),
      readRegLoopBin regs linesize fuel s = .ok es → es.length ≤ s.rest.length := by
  intro fuel
  induction fuel with
  | zero =>
    intro s es h
    simp only [readRegLoopBin] at h
    injection h with h; subst h; simp
  | succ fuel ih =>
    intro s es h
    simp only [readRegLoopBin] at h
    by_cases hp : (s.read linesize).1.isEmpty = true
    · simp only [hp, if_true] at h
      injection h with h; subst h; simp
    · simp only [hp, Bool.false_eq_true, if_false] at h
      -- the peek is not empty: at least one byte is left
      have hrest : 1 ≤ s.rest.length := by
        have := (read_rest_length s linesize).2.1
        have hne : (s.read linesize).1.length ≠ 0 := by
          intro h0
          exact hp (by simpa [List.isEmpty_iff_length_eq_zero] using h0)
        omega
      -- the classification
      generalize hcls : (regs.foldr (fun r (acc : Nat → Except Exc (Option Nat)) (i : Nat) => do
          if ← r.matchesBin (s.read linesize).1 then pure (some i) else acc (i + 1)) (fun _ => pure none) 0) = cls at h
      cases cls with
      | error e => simp [bind, Except.bind] at h
      | ok c =>
        simp only [bind, Except.bind] at h
        generalize hsel : (c.bind fun i => (regs[i]?).map fun r => (i, r)) = sel at h
        cases sel with
        | none =>
          simp only [] at h
          cases hrec : readRegLoopBin regs linesize fuel (s.read 1).2 with
          | error e => simp [hrec] at h
          | ok rest =>
            simp only [hrec, pure, Except.pure] at h
            injection h with h; subst h
            have h1 := read_rest_length s 1
            have := ih _ _ hrec
            simp only [List.length_cons]
            omega
        | some ir =>
          obtain ⟨i, r⟩ := ir
          simp only [] at h
          cases hd : r.readDataBin (s.read r.recordSize).1 with
          | error e => simp [hd] at h
          | ok d =>
            simp only [hd] at h
            by_cases hpos : (s.read r.recordSize).2.pos ≤ s.pos
            · simp only [hpos, if_true, pure, Except.pure] at h
              injection h with h; subst h
              simpa using hrest
            · simp only [hpos, if_false] at h
              cases hrec : readRegLoopBin regs linesize fuel (s.read r.recordSize).2 with
              | error e => simp [hrec] at h
              | ok rest =>
                simp only [hrec, pure, Except.pure] at h
                injection h with h; subst h
                have h1 := read_rest_length s r.recordSize
                have := ih _ _ hrec
                simp only [List.length_cons]
                omega

/-- file level: elements (without the placeholder) ≤ bytes of the content -/
theorem reg_bin_file_bound (regs : List RegDef) (linesize : Nat) (x : List UInt8) (es : List RElem)
    (h : readRegFileBin regs linesize x = .ok es) : es.length - 1 ≤ x.length := by
  unfold readRegFileBin at h
  cases hl : readRegLoopBin regs linesize (x.length + 1) ⟨x, 0⟩ with
  | error e => simp [hl, Except.map] at h
  | ok l =>
    simp only [hl, Except.map] at h
    injection h with h; subst h
    have := reg_bin_bound regs linesize _ _ _ hl
    simpa [Stream.rest] using this

/-- the binary register loop stops by itself: any fuel above the number of unread bytes gives the
same result -/
theorem reg_bin_fuel_independent (regs : List RegDef) (linesize : Nat) :
    ∀ (f₁ f₂ : Nat) (s : Stream UInt8), s.rest.length < f₁ → s.rest.length < f₂ →
      readRegLoopBin regs linesize f₁ s = readRegLoopBin regs linesize f₂ s := by
  intro f₁
  induction f₁ with
  | zero => intro f₂ s h; omega
  | succ f₁ ih =>
    intro f₂ s h₁ h₂
    cases f₂ with
    | zero => omega
    | succ f₂ =>
      simp only [readRegLoopBin]
      by_cases hp : (s.read linesize).1.isEmpty = true
      · simp only [hp, if_true]
      · simp only [hp, Bool.false_eq_true, if_false]
        have hrest : 1 ≤ s.rest.length := by
          have := (read_rest_length s linesize).2.1
          have hne : (s.read linesize).1.length ≠ 0 := by
            intro h0
            exact hp (by simpa [List.isEmpty_iff_length_eq_zero] using h0)
          omega
        have hdflt : readRegLoopBin regs linesize f₁ (s.read 1).2 = readRegLoopBin regs linesize f₂ (s.read 1).2 := by
          have h1 := read_rest_length s 1
          exact ih f₂ _ (by omega) (by omega)
        have htyped : ∀ r : RegDef, ¬ (s.read r.recordSize).2.pos ≤ s.pos →
            readRegLoopBin regs linesize f₁ (s.read r.recordSize).2 =
              readRegLoopBin regs linesize f₂ (s.read r.recordSize).2 := by
          intro r hpos
          have h1 := read_rest_length s r.recordSize
          exact ih f₂ _ (by omega) (by omega)
        congr 1
        funext c
        cases hsel : (c.bind fun i => (regs[i]?).map fun r => (i, r)) with
        | none => simp only [hdflt]
        | some ir =>
          obtain ⟨i, r⟩ := ir
          simp only []
          congr 1
          funext d
          by_cases hpos : (s.read r.recordSize).2.pos ≤ s.pos
          · simp only [hpos, if_true]
          · simp only [hpos, if_false, htyped r hpos]

end Props.C18
