import Props.C06F
import Props.C01E
/-!
C06 for register files whose fields are integers, literals and floats in either notation.
-/
namespace Props.C06
open Cfi Cfi.Text Spec.C05 Spec.C06 Props.C05 Props.C01 Spec.C01 Proofs.FloatE Proofs.FloatELaw

/-- an E-notation float field of the admitted shape -/
def FltE (f : Field) : Prop :=
  ∃ dec fmt c, f.kind = .flt dec fmt [c] ∧ (fmt = 'E' ∨ fmt = 'e') ∧ dec ≤ 12 ∧ sepOk [c] = true

theorem mem_subst1 (a b : Char) (s : List Char) (x : Char) (h : x ∈ Proofs.FloatLaw.subst1 a b s) : x = b ∨ x ∈ s := by
  unfold Proofs.FloatLaw.subst1 at h
  rw [List.mem_map] at h
  obtain ⟨y, hy, rfl⟩ := h
  by_cases hya : y = a
  · simp [hya]
  · simp [hya, hy]

/-- the text an admitted E-notation field writes, and what it parses to -/
theorem fltE_written (f : Field) (dec : Nat) (fmt c : Char) (hk : f.kind = .flt dec fmt [c])
    (hfmt : fmt = 'E' ∨ fmt = 'e') (hdec : dec ≤ 12) (hsep : sepOk [c] = true)
    (neg : Bool) (m : Nat) (e : Int) (hwf : wfB m e dec ∨ m = 0 ∨ (e = -1074 ∧ wfFine m dec))
    (hfits : Spec.C02.fits f (.dbl (.fin neg m e)) = true) (t : List Char)
    (ht : renderText f (.dbl (.fin neg m e)) = .ok t) :
    (∃ r, parseText f.kind t = some (.dbl r)) ∧ ¬ '\n' ∈ t ∧
    ∃ k ip fp eneg exd, (∀ x ∈ ip ++ fp ++ exd, x.isDigit = true) ∧
      t = List.replicate k ' ' ++ Proofs.FloatLaw.subst1 '.' c
        (bodyE neg ip fp (if (fmt == 'E') = true then 'E' else 'e') eneg exd) := by
  obtain ⟨hc1, hc2, hc3⟩ := sep_facts hsep
  obtain ⟨hc4, hc5, hc6⟩ := sep_factsE hsep
  -- the characters of an E-notation text
  have hchars : ∀ (k : Nat) (ip fp : List Char) (eneg : Bool) (exd : List Char),
      (∀ x ∈ ip ++ fp ++ exd, x.isDigit = true) →
      ¬ '\n' ∈ List.replicate k ' ' ++ Proofs.FloatLaw.subst1 '.' c
        (bodyE neg ip fp (if (fmt == 'E') = true then 'E' else 'e') eneg exd) := by
    intro k ip fp eneg exd hdig hm
    simp only [List.mem_append, List.mem_replicate] at hm
    rcases hm with hm | hm
    · exact absurd hm.2 (by decide)
    · rcases mem_subst1 _ _ _ _ hm with h | h
      · subst h; revert hsep; decide
      · rcases bodyE_chars neg ip fp _ eneg exd hdig '\n' h with h | h | h | h | h
        · exact absurd h (by decide)
        · exact absurd h (by decide)
        · rcases hfmt with rfl | rfl <;> exact absurd h (by decide)
        · exact absurd h (by decide)
        · exact absurd h (by decide)
  rcases hwf with hwf | rfl | ⟨rfl, hwf⟩
  rotate_left 2
  · have hm0 : m ≠ 0 := hwf.1
    obtain ⟨hm, hfine⟩ := fine_facts m dec hwf hdec
    obtain ⟨r, hr, hfit⟩ := round_of_fits_E f dec fmt c hk hfmt neg m (-1074) hm0 hfits
    have hround : Dbl.pyRound (.fin neg m (-1074)) ((dec : Int) - Dbl.floorLog10 m (-1074)) = some (.fin neg m (-1074)) := by
      unfold Dbl.pyRound
      have : (dec : Int) - Dbl.floorLog10 m (-1074) > 323 := by omega
      simp only [this, if_true]
    have hrx : r = .fin neg m (-1074) := by
      rw [hround] at hr; injection hr with hr; exact hr.symm
    subst hrx
    obtain ⟨_, t', h1, _, h3, hsci, k, hteq⟩ :=
      fltE_core_fine f dec fmt c hk hfmt hc1 hc2 hc3 hc4 hc5 hc6 neg m hm0 hm hdec hfine hfit
    have hdig := sciText_digits m (-1074) dec (by have := hsci.hK1; omega) (by have := hsci.hK2; omega)
    have : t = t' := by rw [h1] at ht; injection ht with ht; exact ht.symm
    subst this
    refine ⟨⟨_, h3⟩, ?_, k, _, _, _, _, hdig, by rw [hteq]; rfl⟩
    rw [hteq]
    unfold sciText
    exact hchars k _ _ _ _ hdig
  · have hm0 : m ≠ 0 := hwf.1
    obtain ⟨r, hr, hfit⟩ := round_of_fits_E f dec fmt c hk hfmt neg m e hm0 hfits
    obtain ⟨t', h1, _, h3, _, m', e', k, _, hsci, _, hteq⟩ :=
      fltE_core f dec fmt c hk hfmt hc1 hc2 hc3 hc4 hc5 hc6 neg m e hwf hdec r hr hfit
    have hdig := sciText_digits m' e' dec (by have := hsci.hK1; omega) (by have := hsci.hK2; omega)
    have : t = t' := by rw [h1] at ht; injection ht with ht; exact ht.symm
    subst this
    refine ⟨⟨r, h3⟩, ?_, k, _, _, _, _, hdig, by rw [hteq]; rfl⟩
    rw [hteq]
    unfold sciText
    exact hchars k _ _ _ _ hdig
  · obtain ⟨t', h1, _, h3, _, d, k, _, hteq⟩ :=
      Proofs.FloatEZero.fltE_zero_core f dec fmt c hk hfmt hc1 hc2 hc3 hc4 hc5 hc6 neg e (by omega) hfits
    have : t = t' := by rw [h1] at ht; injection ht with ht; exact ht.symm
    subst this
    refine ⟨⟨_, h3⟩, ?_, k, _, _, _, _, Proofs.FloatEZero.zeroText_digits d, by rw [hteq]; rfl⟩
    rw [hteq]
    unfold Proofs.FloatEZero.zeroText
    exact hchars k _ _ _ _ (Proofs.FloatEZero.zeroText_digits d)

/-- the admitted field kinds -/
def FldFE (f : Field) : Prop := f.kind = .int ∨ f.kind = .lit ∨ FltF f ∨ FltE f

/-- what the property's "parsed values are representable" means for floats: finite,
fitting; in an E-notation field one of the three ranges `wfB` / zero / `wfFine`, which together
are EVERY finite double in normal form (`Props.C01.floatFB_all`) -/
def FitFE (f : Field) (l : List Char) : Prop :=
  ∀ y, f.readText l = .dbl y →
    ∃ neg m e, y = .fin neg m e ∧ Proofs.FloatLoop.wfs m e ∧ Spec.C02.fits f (.dbl y) = true ∧ (∀ dec fmt c, f.kind = .flt dec fmt [c] → (fmt = 'E' ∨ fmt = 'e') → wfB m e dec ∨ m = 0 ∨ (e = -1074 ∧ wfFine m dec))

theorem fitF_of_fitFE {f : Field} {l : List Char} (h : FitFE f l) :
    ∀ y, f.readText l = .dbl y →
      ∃ neg m e, y = .fin neg m e ∧ Proofs.FloatLoop.wfs m e ∧ Spec.C02.fits f (.dbl y) = true := by
  intro y hy
  obtain ⟨neg, m, e, h1, h2, h3, _⟩ := h y hy
  exact ⟨neg, m, e, h1, h2, h3⟩

theorem law_of_read_FE (f : Field) (l : List Char) (hk : FldFE f) (hgeo : f.stop = f.size + f.start)
    (hfit : ∀ n, f.readText l = .int n → (PyInt.pyStr n).length ≤ f.size ∧ n.natAbs < 10 ^ 4300)
    (hfitF : FitFE f l) : RenderLaw f (f.readText l) := by
  rcases hk with hk | hk | hk | hkE
  · exact law_of_read_F f l (Or.inl hk) hgeo hfit (fitF_of_fitFE hfitF)
  · exact law_of_read_F f l (Or.inr (Or.inl hk)) hgeo hfit (fitF_of_fitFE hfitF)
  · exact law_of_read_F f l (Or.inr (Or.inr hk)) hgeo hfit (fitF_of_fitFE hfitF)
  · obtain ⟨dec, fmt, c, hk, hfmt, hdec, hsep⟩ := hkE
    cases hp : Dbl.pyFloat (replace (slice l f.start f.stop) [c] ['.']) with
    | none =>
      have hv : f.readText l = .none := by simp [Field.readText, parseText, hk, hp]
      rw [hv]
      have hc := (sep_facts hsep).1
      exact law_null f .none rfl hgeo (by rw [hk]; exact blankLaw_flt dec fmt c hc _)
    | some y =>
      have hv : f.readText l = .dbl y := by simp [Field.readText, parseText, hk, hp]
      obtain ⟨neg, m, e, rfl, _, hfits, hwfn⟩ := hfitF y hv
      rw [hv]
      rcases hwfn dec fmt c hk hfmt with hw | rfl | ⟨rfl, hw⟩
      · exact law_flt_E f dec fmt c hk hfmt hsep neg m e hw hdec hfits
      · exact law_flt_E_zero f dec fmt c hk hfmt hsep neg e hdec hfits
      · exact law_flt_E_fine f dec fmt c hk hfmt hsep neg m hw hdec hfits

theorem no_newline_FE (f : Field) (l : List Char) (hk : FldFE f) (hline : ¬ '\n' ∈ l.dropLast)
    (hfitF : FitFE f l) (t : List Char) (ht : renderText f (f.readText l) = .ok t) : ¬ '\n' ∈ t := by
  rcases hk with hk | hk | hk | hkE
  · exact no_newline_F f l (Or.inl hk) hline (fitF_of_fitFE hfitF) t ht
  · exact no_newline_F f l (Or.inr (Or.inl hk)) hline (fitF_of_fitFE hfitF) t ht
  · exact no_newline_F f l (Or.inr (Or.inr hk)) hline (fitF_of_fitFE hfitF) t ht
  · obtain ⟨dec, fmt, c, hk, hfmt, hdec, hsep⟩ := hkE
    cases hp : Dbl.pyFloat (replace (slice l f.start f.stop) [c] ['.']) with
    | none =>
      have hv : f.readText l = .none := by simp [Field.readText, parseText, hk, hp]
      rw [hv, render_null f .none rfl] at ht
      injection ht with ht; subst ht
      simp
    | some y =>
      have hv : f.readText l = .dbl y := by simp [Field.readText, parseText, hk, hp]
      obtain ⟨neg, m, e, rfl, _, hfits, hwfn⟩ := hfitF y hv
      rw [hv] at ht
      exact (fltE_written f dec fmt c hk hfmt hdec hsep neg m e
        (hwfn dec fmt c hk hfmt) hfits t ht).2.1

theorem canon_some_FE (f : Field) (l : List Char) (v : Val) (hk : FldFE f)
    (hvread : v = f.readText l) (hvn : v ≠ .none) (hfitF : FitFE f l)
    (t : List Char) (ht : renderText f v = .ok t) : canon f v t ≠ .none := by
  rcases hk with hk | hk | hk | hkE
  · exact canon_some_F f l v (Or.inl hk) hvread hvn (fitF_of_fitFE hfitF) t ht
  · exact canon_some_F f l v (Or.inr (Or.inl hk)) hvread hvn (fitF_of_fitFE hfitF) t ht
  · exact canon_some_F f l v (Or.inr (Or.inr hk)) hvread hvn (fitF_of_fitFE hfitF) t ht
  · obtain ⟨dec, fmt, c, hk, hfmt, hdec, hsep⟩ := hkE
    cases hp : Dbl.pyFloat (replace (slice l f.start f.stop) [c] ['.']) with
    | none =>
      have : v = .none := by rw [hvread]; simp [Field.readText, parseText, hk, hp]
      exact absurd this hvn
    | some y =>
      have hv : f.readText l = .dbl y := by simp [Field.readText, parseText, hk, hp]
      obtain ⟨neg, m, e, rfl, _, hfits, hwfn⟩ := hfitF y hv
      have : v = .dbl (.fin neg m e) := by rw [hvread, hv]
      subst this
      obtain ⟨⟨r, hr⟩, _⟩ := fltE_written f dec fmt c hk hfmt hdec hsep neg m e
        (hwfn dec fmt c hk hfmt) hfits t ht
      rw [hk] at hr
      simp only [parseText] at hr
      cases hq : Dbl.pyFloat (replace t [c] ['.']) with
      | none => rw [hq] at hr; simp at hr
      | some d =>
        simp [canon, hk, Val.isNull, Dbl.isNaN, hq]

/-- **C06 for files of integer / literal / float registers (F and E notation), for every text.**
For every unambiguous list of positional register types whose fields are integers, literals,
F-notation floats (up to 323 decimals) or E-notation floats (up to twelve decimals), and every
text whose parsed numbers are representable in their fields (integers fit when printed;
floats are finite and fit when printed — in E-notation fields too: every finite double in
normal form, `Props.C01.floatFB_all`): read-then-write is a projection and `Spec.C06.holds`. -/
theorem main_regs_FE (regs : List RegDef) (x : List Char) (hamb : unambiguous regs = true)
    (hdel : ∀ r ∈ regs, r.delimiter = .none)
    (hkinds : ∀ r ∈ regs, ∀ f ∈ r.fields, FldFE f ∧ f.stop = f.size + f.start)
    (hfit : ∀ l ∈ splitLines x, ∀ r ∈ regs, ∀ f ∈ r.fields, ∀ n, f.readText l = .int n →
      (PyInt.pyStr n).length ≤ f.size ∧ n.natAbs < 10 ^ 4300)
    (hfitF : ∀ l ∈ splitLines x, ∀ r ∈ regs, ∀ f ∈ r.fields, FitFE f l) :
    ∃ y, Spec.C06.rw regs x = some y ∧ Spec.C06.rw regs y = some y ∧ Spec.C06.holds regs x ⟨y, y⟩ = true := by
  apply main_regs_gen regs x hamb hdel
  · intro l hl r hr f hf
    obtain ⟨hk, hgeo⟩ := hkinds r hr f hf
    exact law_of_read_FE f l hk hgeo (hfit l hl r hr f hf) (hfitF l hl r hr f hf)
  · intro l hl hline r hr f hf t ht
    exact no_newline_FE f l (hkinds r hr f hf).1 hline (hfitF l hl r hr f hf) t ht
  · intro l hl r hr f hf v hv hvn t ht
    exact canon_some_FE f l v (hkinds r hr f hf).1 hv hvn (hfitF l hl r hr f hf) t ht

end Props.C06

namespace Props.C06
open Cfi Cfi.Text Spec.C05 Spec.C06 Props.C05 Props.C01 Spec.C01 Proofs.FloatE Proofs.FloatELaw

/-- non-vacuity of `main_regs_FE`: one register type `AB` with an E-notation field of three
decimals, and a text holding the value 1.5: every premise is met -/
example :
    let regs := [RegDef.mk "AB".toList 2 [Field.mk' (.flt 3 'E' ['.']) 12 3] .none]
    let x := "AB    1.500E+00\nfree text\n".toList
    unambiguous regs = true ∧ (∀ r ∈ regs, r.delimiter = .none) ∧
    (∀ r ∈ regs, ∀ f ∈ r.fields, FldFE f ∧ f.stop = f.size + f.start) ∧
    (∀ l ∈ splitLines x, ∀ r ∈ regs, ∀ f ∈ r.fields, ∀ n, f.readText l = .int n →
      (PyInt.pyStr n).length ≤ f.size ∧ n.natAbs < 10 ^ 4300) ∧
    (∀ l ∈ splitLines x, ∀ r ∈ regs, ∀ f ∈ r.fields, FitFE f l) ∧
    Spec.C06.rw regs x = some x := by
  have hsl : splitLines "AB    1.500E+00\nfree text\n".toList = ["AB    1.500E+00\n".toList, "free text\n".toList] := by
    decide +kernel
  have hE : FltE (Field.mk' (.flt 3 'E' ['.']) 12 3) := ⟨3, 'E', '.', rfl, Or.inl rfl, by decide, by decide⟩
  have hr1 : (Field.mk' (.flt 3 'E' ['.']) 12 3).readText "AB    1.500E+00\n".toList = .dbl (.fin false (2 ^ 52 + 2 ^ 51) (-52)) := by
    decide +kernel
  have hr2 : (Field.mk' (.flt 3 'E' ['.']) 12 3).readText "free text\n".toList = .none := by
    decide +kernel
  refine ⟨by decide +kernel, ?_, ?_, ?_, ?_, by decide +kernel⟩
  · intro r hr; simp only [List.mem_singleton] at hr; subst hr; rfl
  · intro r hr f hf
    simp only [List.mem_singleton] at hr; subst hr
    simp only [List.mem_singleton] at hf; subst hf
    exact ⟨Or.inr (Or.inr (Or.inr hE)), rfl⟩
  · intro l hl r hr f hf n hn
    simp only [List.mem_singleton] at hr; subst hr
    simp only [List.mem_singleton] at hf; subst hf
    rw [hsl] at hl
    simp only [List.mem_cons, List.not_mem_nil, or_false] at hl
    rcases hl with rfl | rfl
    · rw [hr1] at hn; exact absurd hn (by simp)
    · rw [hr2] at hn; exact absurd hn (by simp)
  · intro l hl r hr f hf y hy
    simp only [List.mem_singleton] at hr; subst hr
    simp only [List.mem_singleton] at hf; subst hf
    rw [hsl] at hl
    simp only [List.mem_cons, List.not_mem_nil, or_false] at hl
    rcases hl with rfl | rfl
    · rw [hr1] at hy
      injection hy with hy; subst hy
      exact ⟨false, _, _, rfl, ⟨by decide, by decide, by decide⟩, by decide +kernel,
        fun dec fmt c hk _ => by
          simp only [Field.mk', Kind.flt.injEq] at hk
          obtain ⟨rfl, _, _⟩ := hk
          exact Or.inl (wfB_of_wfE _ _ _ (wfE_of_wfn _ _ _ ⟨by decide, by decide, by decide, by decide⟩ (by decide)))⟩
    · rw [hr2] at hy; exact absurd hy (by simp)

end Props.C06
