import Cfi.Files
import Spec.C10
import Proofs.RegLine
import Proofs.RegClassify
import Proofs.Accounting
import Props.C01
/-!
C10 — property theorems.

`text_positional`: for EVERY stream of registers in positional text storage
whose values obey the read half of the per-field law (C01; a theorem for
integers, literals, floats and missing values), the model's write-all /
read-all run through one buffer satisfies the whole of `Spec.C10.holds`: each
register is one line, carries its identifier left-justified, is recognised by
its own type, reads back to the canonical data, and the stream position after
each read is exactly the end of what the corresponding write produced.
-/
namespace Props.C10
open Cfi Cfi.Text Spec.C10 Spec.C01 Props.C01

/-- the number of bytes a binary register asks for is the identifier width plus
the field widths — the width of the composite line, not more (D7) -/
theorem recordSize_eq (r : RegDef) : r.recordSize = r.digits + (r.fields.map (·.size)).sum := by
  simp [RegDef.recordSize, RegDef.line, Line.size, RegDef.idField, Field.mk']

/-! ### positional text -/

structure ItemText (r : RegDef) (data : List Val) : Prop where
  hdel : r.delimiter = .none
  hid : r.ident.length ≤ r.digits
  hstart : ∀ f ∈ r.fields, r.digits ≤ f.start
  hdis : Cfi.Disjoint r.fields
  hlen : r.fields.length = data.length
  hne : RegDef.isEmpty data = false
  hidnl : ¬ '\n' ∈ r.ident
  hlaw : ∀ fv ∈ r.fields.zip data, ReadLaw fv.1 fv.2
  hnl : ∀ fv ∈ r.fields.zip data, ∀ t, renderText fv.1 fv.2 = .ok t → ¬ '\n' ∈ t

theorem readLaw_ident (r : RegDef) (hid : r.ident.length ≤ r.digits) : ReadLaw r.idField (.str r.ident) := by
  refine ⟨ljust r.ident r.digits ' ', r.idField_rendersTo hid, ?_⟩
  simp [parseText, RegDef.idField, Field.mk', canon, Val.isNull, strip_ljust]

/-- **One register in positional text storage.** -/
theorem item_text (r : RegDef) (data : List Val) (h : ItemText r data) :
    ∃ out, r.writeData .text data = .ok (some (.str (out ++ ['\n']))) ∧ ¬ '\n' ∈ out ∧
      shapeOk r .text (.str (out ++ ['\n'])) = true ∧ r.matchesText (out ++ ['\n']) = true ∧
      r.readDataText (out ++ ['\n']) = .ok (canonData r .text data (.str (out ++ ['\n']))) := by
  obtain ⟨hdel, hid, hstart, hdis, hlen, hne, hidnl, hlaw, hnl⟩ := h
  have hrs : ∃ rs, All2 (fun (fv : Field × Val) r => rendersTo fv.1 fv.2 r) (r.fields.zip data) rs := by
    generalize r.fields.zip data = zs at hlaw
    induction zs with
    | nil => exact ⟨[], .nil⟩
    | cons z zs ih =>
      obtain ⟨t, h1, _⟩ := hlaw z List.mem_cons_self
      obtain ⟨rs, hrs⟩ := ih (fun fv hfv => hlaw fv (List.mem_cons_of_mem z hfv))
      exact ⟨t :: rs, .cons h1 hrs⟩
  obtain ⟨rs, hr⟩ := hrs
  obtain ⟨out, hout, hwd, hrd, hslice, hspans, _⟩ := r.regLine data rs hdel hlen hr hid hstart hdis hne
  have hR : All2 (fun (fv : Field × Val) r => rendersTo fv.1 fv.2 r)
      ((r.idField :: r.fields).zip (Val.str r.ident :: data)) (ljust r.ident r.digits ' ' :: rs) := by
    simp only [List.zip_cons_cons]
    exact All2.cons (R := fun (fv : Field × Val) r => rendersTo fv.1 fv.2 r) (a := (r.idField, Val.str r.ident))
      (r.idField_rendersTo hid) hr
  have hlen' : (r.idField :: r.fields).length = (Val.str r.ident :: data).length := by simp [hlen]
  have hD : Cfi.Disjoint (r.idField :: r.fields) := by
    refine ⟨fun g hg => Or.inl ?_, hdis⟩
    have := hstart g hg
    simpa [RegDef.idField, Field.mk'] using this
  have hW : writePos (r.idField :: r.fields) (.str r.ident :: data) = .ok (out ++ ['\n']) := by
    simp [writePos, hout, Except.map]
  have hout_nl : ¬ '\n' ∈ out := by
    intro hm
    rcases out_chars _ _ _ hlen' hR hD out hout '\n' hm with h1 | ⟨t, ht, hc⟩
    · exact absurd h1 (by decide)
    · rcases List.mem_cons.mp ht with rfl | ht
      · simp only [ljust, List.mem_append, List.mem_replicate] at hc
        rcases hc with hc | hc
        · exact hidnl hc
        · exact absurd hc.2 (by decide)
      · obtain ⟨fv, hfv, hren⟩ := hr.of_mem_right ht
        exact hnl fv hfv t hren.1 hc
  -- length of the line
  obtain ⟨_, hl⟩ := writeFields_shape _ _ _ hlen' hR [] [] out hout (fun i hi => by simp at hi)
  have hdig : r.digits ≤ out.length := by
    rw [hl]
    have : ∀ (gs : List Field) (m : Nat), m ≤ gs.foldl (fun m f => max m f.stop) m := by
      intro gs
      induction gs with
      | nil => intro m; exact Nat.le_refl _
      | cons g gs ih => intro m; exact Nat.le_trans (Nat.le_max_left _ _) (ih _)
    simp only [List.foldl_cons, RegDef.idField, Field.mk']
    exact Nat.le_trans (by omega) (this _ _)
  have htake : (out ++ ['\n']).take r.digits = ljust r.ident r.digits ' ' := by
    rw [List.take_append_of_le_length hdig, ← hslice]; simp [slice]
  refine ⟨out, hwd, hout_nl, ?_, ?_, ?_⟩
  · simp only [shapeOk, hdel, List.getLast?_append, List.getLast?_singleton, Option.some_or, beq_self_eq_true,
      List.dropLast_concat, Bool.true_and, Bool.and_eq_true, Bool.not_eq_true', Bool.or_eq_true, beq_iff_eq,
      decide_eq_true_eq]
    refine ⟨?_, Or.inl htake⟩
    simpa using hout_nl
  · simp only [RegDef.matchesText, htake]
    exact isInfix_ljust _ _
  · rw [hrd]
    have hlawF : ∀ fv ∈ (r.idField :: r.fields).zip (Val.str r.ident :: data), ReadLaw fv.1 fv.2 := by
      intro fv hfv
      simp only [List.zip_cons_cons, List.mem_cons] at hfv
      rcases hfv with rfl | hfv
      · exact readLaw_ident r hid
      · exact hlaw fv hfv
    have := readBack_canon _ _ _ hlen' hD hlawF hW
    simp only [readPos, List.map_cons, List.zip_cons_cons, List.cons.injEq] at this
    simp only [canonData, hdel, readPos, this.2]

end Props.C10

namespace Props.C10
open Cfi Cfi.Text Spec.C10 Spec.C01 Props.C01

/-! ### the stream -/

theorem lineOf_line (body rest : List Char) (hb : ¬ '\n' ∈ body) :
    Stream.lineOf '\n' (body ++ '\n' :: rest) = body ++ ['\n'] := by
  induction body with
  | nil => simp [Stream.lineOf]
  | cons c body ih =>
    have hc : (c == '\n') = false := by
      have : c ≠ '\n' := fun e => hb (by simp [e])
      simpa using this
    have hb' : ¬ '\n' ∈ body := fun e => hb (by simp [e])
    simp only [List.cons_append, Stream.lineOf, hc, Bool.false_eq_true, if_false, ih hb']

/-- `readline()` on a buffer positioned at a written register returns exactly
that register's text and leaves the stream at its end -/
theorem readline_line (s : Stream Char) (body rest : List Char) (hb : ¬ '\n' ∈ body)
    (hr : s.rest = (body ++ ['\n']) ++ rest) :
    (s.readline '\n').1 = body ++ ['\n'] ∧ (s.readline '\n').2.pos = s.pos + (body.length + 1) ∧
    (s.readline '\n').2.rest = rest ∧ (s.readline '\n').2.content = s.content := by
  have hl : (s.readline '\n').1 = body ++ ['\n'] := by
    rw [Stream.readline_fst, hr]
    have := lineOf_line body rest hb
    simpa using this
  have hacc := accounts_readline '\n' s
  refine ⟨hl, ?_, ?_, hacc.content⟩
  · rw [hacc.pos, hl]; simp
  · have := hacc.rest
    rw [hl, hr] at this
    exact (List.append_cancel_left this).symm

/-- what each item wrote, with the facts `item_text` gives -/
def WrittenText (item : RegDef × List Val) (w : Data) : Prop :=
  ∃ out, w = .str (out ++ ['\n']) ∧ ¬ '\n' ∈ out ∧
    shapeOk item.1 .text w = true ∧ item.1.matchesText (out ++ ['\n']) = true ∧
    item.1.readDataText (out ++ ['\n']) = .ok (canonData item.1 .text item.2 w)

theorem readAll_text (items : List (RegDef × List Val)) (ws : List Data)
    (hw : All2 WrittenText items ws) (s : Stream Char) (hrest : s.rest = ws.flatMap textOf) :
    ∃ obs, readAllText s.pos s items ws = some obs ∧ obs.length = items.length ∧
      Spec.C10.holds.go .text s.pos items obs = true := by
  induction hw generalizing s with
  | nil => exact ⟨[], rfl, rfl, rfl⟩
  | @cons item w items ws h1 _ ih =>
    obtain ⟨out, hwe, hnl, hshape, hmatch, hread⟩ := h1
    obtain ⟨r, data⟩ := item
    subst hwe
    have hrest' : s.rest = (out ++ ['\n']) ++ ws.flatMap textOf := by
      rw [hrest]; simp [List.flatMap_cons, textOf]
    obtain ⟨hl, hp, hr', _⟩ := readline_line s out _ hnl hrest'
    have hn : dataLen (Data.str (out ++ ['\n'])) = out.length + 1 := by simp [dataLen]
    obtain ⟨obs, ho, hlen, hgo⟩ := ih (s.readline '\n').2 hr'
    rw [hp] at ho hgo
    refine ⟨⟨.str (out ++ ['\n']), s.pos + (out.length + 1), true,
      canonData r .text data (.str (out ++ ['\n'])), s.pos + (out.length + 1)⟩ :: obs, ?_, by simp [hlen], ?_⟩
    · simp only [readAllText, hn, hl, hread, Except.toOption, ho, textOf, hmatch, hp]
    · simp only [Spec.C10.holds.go, hshape, hn, beq_self_eq_true, Bool.true_and, Bool.and_true, hgo]

/-- **C10, positional text storage, for every stream of registers.** -/
theorem text_positional (items : List (RegDef × List Val))
    (h : ∀ item ∈ items, ItemText item.1 item.2) :
    ∃ obs, run .text items = some obs ∧ Spec.C10.holds .text items obs = true := by
  -- phase 1: every register is written
  have hws : ∃ ws, writeAll .text items = some ws ∧ All2 WrittenText items ws := by
    induction items with
    | nil => exact ⟨[], rfl, .nil⟩
    | cons item items ih =>
      obtain ⟨ws, h1, h2⟩ := ih (fun it hit => h it (by simp [hit]))
      obtain ⟨out, hw, hnl, hshape, hmatch, hread⟩ := item_text item.1 item.2 (h item (by simp))
      refine ⟨.str (out ++ ['\n']) :: ws, ?_, .cons ⟨out, rfl, hnl, hshape, hmatch, hread⟩ h2⟩
      simp only [writeAll, List.mapM_cons, hw, bind, Option.bind] at h1 ⊢
      simp only [h1, pure]
  obtain ⟨ws, h1, h2⟩ := hws
  obtain ⟨obs, h3, h4, h5⟩ := readAll_text items ws h2 ⟨ws.flatMap textOf, 0⟩ (by simp [Stream.rest])
  refine ⟨obs, by simp only [run, h1]; exact h3, ?_⟩
  simp only [Spec.C10.holds, h4, beq_self_eq_true, Bool.true_and]
  exact h5

end Props.C10
