import Cfi.Files
import Spec.C10
import Proofs.RegLine
import Proofs.RegClassify
import Proofs.Accounting
import Props.C01
import Props.C09
import Props.C11
/-!
C10 — property theorems.

`text_positional`: for EVERY stream of registers in positional text storage
whose values obey the read half of the per-field law (C01; a theorem for
integers, literals, floats and missing values), the model's write-all /
read-all run through one buffer satisfies the whole of `Spec.C10.holds`: each
register is one line, carries its identifier left-justified, is recognised by
its own type, reads back to the canonical data, and the stream position after
each read is exactly the end of what the corresponding write produced.
-/
namespace Props.C10
open Cfi Cfi.Text Spec.C10 Spec.C01 Props.C01

/-- the number of bytes a binary register asks for is the identifier width plus
the field widths — the width of the composite line, not more (D7) -/
theorem recordSize_eq (r : RegDef) : r.recordSize = r.digits + (r.fields.map (·.size)).sum := by
  simp [RegDef.recordSize, RegDef.line, Line.size, RegDef.idField, Field.mk']

/-! ### positional text -/

structure ItemText (r : RegDef) (data : List Val) : Prop where
  hdel : r.delimiter = .none
  hid : r.ident.length ≤ r.digits
  hstart : ∀ f ∈ r.fields, r.digits ≤ f.start
  hdis : Cfi.Disjoint r.fields
  hlen : r.fields.length = data.length
  hne : RegDef.isEmpty data = false
  hidnl : ¬ '\n' ∈ r.ident
  hlaw : ∀ fv ∈ r.fields.zip data, ReadLaw fv.1 fv.2
  hnl : ∀ fv ∈ r.fields.zip data, ∀ t, renderText fv.1 fv.2 = .ok t → ¬ '\n' ∈ t

theorem readLaw_ident (r : RegDef) (hid : r.ident.length ≤ r.digits) : ReadLaw r.idField (.str r.ident) := by
  refine ⟨ljust r.ident r.digits ' ', r.idField_rendersTo hid, ?_⟩
  simp [parseText, RegDef.idField, Field.mk', canon, Val.isNull, strip_ljust]

/-- **One register in positional text storage.** -/
theorem item_text (r : RegDef) (data : List Val) (h : ItemText r data) :
    ∃ out, r.writeData .text data = .ok (some (.str (out ++ ['\n']))) ∧ ¬ '\n' ∈ out ∧
      shapeOk r .text (.str (out ++ ['\n'])) = true ∧ r.matchesText (out ++ ['\n']) = true ∧
      r.readDataText (out ++ ['\n']) = .ok (canonData r .text data (.str (out ++ ['\n']))) := by
  obtain ⟨hdel, hid, hstart, hdis, hlen, hne, hidnl, hlaw, hnl⟩ := h
  have hrs : ∃ rs, All2 (fun (fv : Field × Val) r => rendersTo fv.1 fv.2 r) (r.fields.zip data) rs := by
    generalize r.fields.zip data = zs at hlaw
    induction zs with
    | nil => exact ⟨[], .nil⟩
    | cons z zs ih =>
      obtain ⟨t, h1, _⟩ := hlaw z List.mem_cons_self
      obtain ⟨rs, hrs⟩ := ih (fun fv hfv => hlaw fv (List.mem_cons_of_mem z hfv))
      exact ⟨t :: rs, .cons h1 hrs⟩
  obtain ⟨rs, hr⟩ := hrs
  obtain ⟨out, hout, hwd, hrd, hslice, hspans, _⟩ := r.regLine data rs hdel hlen hr hid hstart hdis hne
  have hR : All2 (fun (fv : Field × Val) r => rendersTo fv.1 fv.2 r)
      ((r.idField :: r.fields).zip (Val.str r.ident :: data)) (ljust r.ident r.digits ' ' :: rs) := by
    simp only [List.zip_cons_cons]
    exact All2.cons (R := fun (fv : Field × Val) r => rendersTo fv.1 fv.2 r) (a := (r.idField, Val.str r.ident))
      (r.idField_rendersTo hid) hr
  have hlen' : (r.idField :: r.fields).length = (Val.str r.ident :: data).length := by simp [hlen]
  have hD : Cfi.Disjoint (r.idField :: r.fields) := by
    refine ⟨fun g hg => Or.inl ?_, hdis⟩
    have := hstart g hg
    simpa [RegDef.idField, Field.mk'] using this
  have hW : writePos (r.idField :: r.fields) (.str r.ident :: data) = .ok (out ++ ['\n']) := by
    simp [writePos, hout, Except.map]
  have hout_nl : ¬ '\n' ∈ out := by
    intro hm
    rcases out_chars _ _ _ hlen' hR hD out hout '\n' hm with h1 | ⟨t, ht, hc⟩
    · exact absurd h1 (by decide)
    · rcases List.mem_cons.mp ht with rfl | ht
      · simp only [ljust, List.mem_append, List.mem_replicate] at hc
        rcases hc with hc | hc
        · exact hidnl hc
        · exact absurd hc.2 (by decide)
      · obtain ⟨fv, hfv, hren⟩ := hr.of_mem_right ht
        exact hnl fv hfv t hren.1 hc
  -- length of the line
  obtain ⟨_, hl⟩ := writeFields_shape _ _ _ hlen' hR [] [] out hout (fun i hi => by simp at hi)
  have hdig : r.digits ≤ out.length := by
    rw [hl]
    have : ∀ (gs : List Field) (m : Nat), m ≤ gs.foldl (fun m f => max m f.stop) m := by
      intro gs
      induction gs with
      | nil => intro m; exact Nat.le_refl _
      | cons g gs ih => intro m; exact Nat.le_trans (Nat.le_max_left _ _) (ih _)
    simp only [List.foldl_cons, RegDef.idField, Field.mk']
    exact Nat.le_trans (by omega) (this _ _)
  have htake : (out ++ ['\n']).take r.digits = ljust r.ident r.digits ' ' := by
    rw [List.take_append_of_le_length hdig, ← hslice]; simp [slice]
  refine ⟨out, hwd, hout_nl, ?_, ?_, ?_⟩
  · simp only [shapeOk, hdel, List.getLast?_append, List.getLast?_singleton, Option.some_or, beq_self_eq_true,
      List.dropLast_concat, Bool.true_and, Bool.and_eq_true, Bool.not_eq_true', Bool.or_eq_true, beq_iff_eq,
      decide_eq_true_eq]
    refine ⟨?_, Or.inl htake⟩
    simpa using hout_nl
  · simp only [RegDef.matchesText, htake]
    exact isInfix_ljust _ _
  · rw [hrd]
    have hlawF : ∀ fv ∈ (r.idField :: r.fields).zip (Val.str r.ident :: data), ReadLaw fv.1 fv.2 := by
      intro fv hfv
      simp only [List.zip_cons_cons, List.mem_cons] at hfv
      rcases hfv with rfl | hfv
      · exact readLaw_ident r hid
      · exact hlaw fv hfv
    have := readBack_canon _ _ _ hlen' hD hlawF hW
    simp only [readPos, List.map_cons, List.zip_cons_cons, List.cons.injEq] at this
    simp only [canonData, hdel, readPos, this.2]

end Props.C10

namespace Props.C10
open Cfi Cfi.Text Spec.C10 Spec.C01 Props.C01

/-! ### the stream -/

theorem lineOf_line (body rest : List Char) (hb : ¬ '\n' ∈ body) :
    Stream.lineOf '\n' (body ++ '\n' :: rest) = body ++ ['\n'] := by
  induction body with
  | nil => simp [Stream.lineOf]
  | cons c body ih =>
    have hc : (c == '\n') = false := by
      have : c ≠ '\n' := fun e => hb (by simp [e])
      simpa using this
    have hb' : ¬ '\n' ∈ body := fun e => hb (by simp [e])
    simp only [List.cons_append, Stream.lineOf, hc, Bool.false_eq_true, if_false, ih hb']

/-- `readline()` on a buffer positioned at a written register returns exactly
that register's text and leaves the stream at its end -/
theorem readline_line (s : Stream Char) (body rest : List Char) (hb : ¬ '\n' ∈ body)
    (hr : s.rest = (body ++ ['\n']) ++ rest) :
    (s.readline '\n').1 = body ++ ['\n'] ∧ (s.readline '\n').2.pos = s.pos + (body.length + 1) ∧
    (s.readline '\n').2.rest = rest ∧ (s.readline '\n').2.content = s.content := by
  have hl : (s.readline '\n').1 = body ++ ['\n'] := by
    rw [Stream.readline_fst, hr]
    have := lineOf_line body rest hb
    simpa using this
  have hacc := accounts_readline '\n' s
  refine ⟨hl, ?_, ?_, hacc.content⟩
  · rw [hacc.pos, hl]; simp
  · have := hacc.rest
    rw [hl, hr] at this
    exact (List.append_cancel_left this).symm

/-- what each item wrote, with the facts `item_text` gives -/
def WrittenText (item : RegDef × List Val) (w : Data) : Prop :=
  ∃ out, w = .str (out ++ ['\n']) ∧ ¬ '\n' ∈ out ∧
    shapeOk item.1 .text w = true ∧ item.1.matchesText (out ++ ['\n']) = true ∧
    item.1.readDataText (out ++ ['\n']) = .ok (canonData item.1 .text item.2 w)

theorem readAll_text (items : List (RegDef × List Val)) (ws : List Data)
    (hw : All2 WrittenText items ws) (s : Stream Char) (hrest : s.rest = ws.flatMap textOf) :
    ∃ obs, readAllText s.pos s items ws = some obs ∧ obs.length = items.length ∧
      Spec.C10.holds.go .text s.pos items obs = true := by
  induction hw generalizing s with
  | nil => exact ⟨[], rfl, rfl, rfl⟩
  | @cons item w items ws h1 _ ih =>
    obtain ⟨out, hwe, hnl, hshape, hmatch, hread⟩ := h1
    obtain ⟨r, data⟩ := item
    subst hwe
    have hrest' : s.rest = (out ++ ['\n']) ++ ws.flatMap textOf := by
      rw [hrest]; simp [List.flatMap_cons, textOf]
    obtain ⟨hl, hp, hr', _⟩ := readline_line s out _ hnl hrest'
    have hn : dataLen (Data.str (out ++ ['\n'])) = out.length + 1 := by simp [dataLen]
    obtain ⟨obs, ho, hlen, hgo⟩ := ih (s.readline '\n').2 hr'
    rw [hp] at ho hgo
    refine ⟨⟨.str (out ++ ['\n']), s.pos + (out.length + 1), true,
      canonData r .text data (.str (out ++ ['\n'])), s.pos + (out.length + 1)⟩ :: obs, ?_, by simp [hlen], ?_⟩
    · simp only [readAllText, hn, hl, hread, Except.toOption, ho, textOf, hmatch, hp]
    · simp only [Spec.C10.holds.go, hshape, hn, beq_self_eq_true, Bool.true_and, Bool.and_true, hgo]

/-- the stream argument, for any registers each of which writes one recognised,
re-readable line -/
theorem text_stream (items : List (RegDef × List Val))
    (h : ∀ item ∈ items, ∃ out, item.1.writeData .text item.2 = .ok (some (.str (out ++ ['\n']))) ∧ ¬ '\n' ∈ out ∧
      shapeOk item.1 .text (.str (out ++ ['\n'])) = true ∧ item.1.matchesText (out ++ ['\n']) = true ∧
      item.1.readDataText (out ++ ['\n']) = .ok (canonData item.1 .text item.2 (.str (out ++ ['\n'])))) :
    ∃ obs, run .text items = some obs ∧ Spec.C10.holds .text items obs = true := by
  -- phase 1: every register is written
  have hws : ∃ ws, writeAll .text items = some ws ∧ All2 WrittenText items ws := by
    induction items with
    | nil => exact ⟨[], rfl, .nil⟩
    | cons item items ih =>
      obtain ⟨ws, h1, h2⟩ := ih (fun it hit => h it (by simp [hit]))
      obtain ⟨out, hw, hnl, hshape, hmatch, hread⟩ := h item (by simp)
      refine ⟨.str (out ++ ['\n']) :: ws, ?_, .cons ⟨out, rfl, hnl, hshape, hmatch, hread⟩ h2⟩
      simp only [writeAll, List.mapM_cons, hw, bind, Option.bind] at h1 ⊢
      simp only [h1, pure]
  obtain ⟨ws, h1, h2⟩ := hws
  obtain ⟨obs, h3, h4, h5⟩ := readAll_text items ws h2 ⟨ws.flatMap textOf, 0⟩ (by simp [Stream.rest])
  refine ⟨obs, by simp only [run, h1]; exact h3, ?_⟩
  simp only [Spec.C10.holds, h4, beq_self_eq_true, Bool.true_and]
  exact h5

/-- **C10, positional text storage, for every stream of registers.** -/
theorem text_positional (items : List (RegDef × List Val))
    (h : ∀ item ∈ items, ItemText item.1 item.2) :
    ∃ obs, run .text items = some obs ∧ Spec.C10.holds .text items obs = true :=
  text_stream items (fun item hi => item_text item.1 item.2 (h item hi))

end Props.C10

/-! ### binary storage -/
namespace Props.C10
open Cfi Cfi.Text Cfi.Bin Spec.C10 Props.C09

theorem contiguous_facts (pos : Nat) (fs : List Field) (h : contiguous.go pos fs = true) :
    Cfi.Disjoint fs ∧ (∀ f ∈ fs, pos ≤ f.start) ∧
    fs.foldl (fun m f => max m f.stop) pos = pos + (fs.map (·.size)).sum := by
  induction fs generalizing pos with
  | nil => exact ⟨trivial, fun f hf => by simp at hf, by simp⟩
  | cons f fs ih =>
    simp only [contiguous.go, Bool.and_eq_true, beq_iff_eq] at h
    obtain ⟨⟨h1, h2⟩, h3⟩ := h
    obtain ⟨hd, hs, hm⟩ := ih (pos + f.size) h3
    refine ⟨⟨fun g hg => Or.inl (by have := hs g hg; omega), hd⟩, ?_, ?_⟩
    · intro g hg
      rcases List.mem_cons.mp hg with rfl | hg
      · omega
      · have := hs g hg; omega
    · simp only [List.foldl_cons, List.map_cons, List.sum_cons]
      have : max pos f.stop = pos + f.size := by omega
      rw [this, hm]; omega

theorem disjoint_iff_pairwise (fs : List Field) :
    Cfi.Disjoint fs ↔ fs.Pairwise (fun f g => f.stop ≤ g.start ∨ g.stop ≤ f.start) := by
  induction fs with
  | nil => simp [Cfi.Disjoint]
  | cons f fs ih =>
    simp only [Cfi.Disjoint, List.pairwise_cons, ih, Cfi.disjointFrom]

/-- the facts about a contiguous layout hold for the fields in the order they are
declared in (any permutation of the column order) -/
theorem contiguous_facts_perm (r : RegDef) (h : contiguous r = true) :
    Cfi.Disjoint r.fields ∧ (∀ f ∈ r.fields, r.digits ≤ f.start) ∧
    r.fields.foldl (fun m f => max m f.stop) r.digits = r.digits + (r.fields.map (·.size)).sum := by
  have hp : (byColumn r.fields).Perm r.fields := List.mergeSort_perm _ _
  obtain ⟨h1, h2, h3⟩ := contiguous_facts r.digits (byColumn r.fields) h
  refine ⟨?_, ?_, ?_⟩
  · rw [disjoint_iff_pairwise] at h1 ⊢
    exact (List.Perm.pairwise_iff (fun {x y} hxy => hxy.symm) hp).mp h1
  · intro f hf
    exact h2 f (hp.mem_iff.mpr hf)
  · have e1 : r.fields.foldl (fun m f => max m f.stop) r.digits =
        (byColumn r.fields).foldl (fun m f => max m f.stop) r.digits := by
      apply List.Perm.foldl_eq' hp.symm
      intro x _ y _ z
      omega
    have e2 : (r.fields.map (·.size)).sum = ((byColumn r.fields).map (·.size)).sum :=
      (List.Perm.sum_nat (hp.map (·.size))).symm
    rw [e1, e2, h3]

structure ItemBin (r : RegDef) (data : List Val) : Prop where
  hcont : contiguous r = true
  hid : r.ident.length ≤ r.digits
  hascii : ∀ c ∈ r.ident, c.toNat < 128
  hlen : r.fields.length = data.length
  hne : RegDef.isEmpty data = false
  hlaw : ∀ fv ∈ r.fields.zip data, BinLaw fv.1 fv.2

/-- **One register in binary storage**: identifier width plus field widths bytes,
the identifier left-justified in the identifier bytes, recognised by its own
type, read back to the canonical data. -/
theorem item_bin (r : RegDef) (data : List Val) (h : ItemBin r data) :
    ∃ out, r.writeData .binary data = .ok (some (.bytes out)) ∧ out.length = r.recordSize ∧
      shapeOk r .binary (.bytes out) = true ∧ r.matchesBin out = .ok true ∧
      r.readDataBin out = .ok (canonData r .binary data (.bytes out)) := by
  obtain ⟨hcont, hid, hascii, hlen, hne, hlaw⟩ := h
  obtain ⟨hdis, hstart, hmax⟩ := contiguous_facts_perm r hcont
  have hD : Cfi.Disjoint (r.idField :: r.fields) := by
    refine ⟨fun g hg => Or.inl ?_, hdis⟩
    have := hstart g hg
    simpa [RegDef.idField, Field.mk'] using this
  have hlen' : (r.idField :: r.fields).length = (Val.str r.ident :: data).length := by simp [hlen]
  have hlawF : ∀ fv ∈ (r.idField :: r.fields).zip (Val.str r.ident :: data), BinLaw fv.1 fv.2 := by
    intro fv hfv
    simp only [List.zip_cons_cons, List.mem_cons] at hfv
    rcases hfv with rfl | hfv
    · exact binLaw_lit r.idField r.ident rfl (by simp [RegDef.idField, Field.mk']) hascii
        (by simpa [RegDef.idField, Field.mk'] using hid)
    · exact hlaw fv hfv
  obtain ⟨out, rs, hw, hl, _, hr, hspans, hread⟩ := line_facts _ _ hlen' hD hlawF
  have hsize : out.length = r.recordSize := by
    rw [hl, recordSize_eq]
    simp only [Spec.C02.maxEnd, List.foldl_cons, RegDef.idField, Field.mk']
    have : max 0 (r.digits + 0) = r.digits := by omega
    rw [this, hmax]
  -- the identifier bytes
  have hidb : out.take r.digits = utf8Encode (ljust r.ident r.digits ' ') := by
    simp only [List.zip_cons_cons] at hr
    cases hr with
    | cons ha _ =>
      cases hspans with
      | cons hb _ =>
        have h1 : renderBin r.idField (.str r.ident) = .ok (utf8Encode (ljust r.ident r.digits ' ')) := by
          simp [renderBin, RegDef.idField, Field.mk', Val.isNull]
        have := ha.1
        rw [h1] at this
        injection this with this
        rw [this, ← hb]
        simp [slice, RegDef.idField, Field.mk']
  have hpad : ∀ c ∈ ljust r.ident r.digits ' ', c.toNat < 128 := by
    intro c hc
    simp only [ljust, List.mem_append, List.mem_replicate] at hc
    rcases hc with hc | hc
    · exact hascii c hc
    · rw [hc.2]; decide
  refine ⟨out, ?_, hsize, ?_, ?_, ?_⟩
  · simp only [RegDef.writeData, hne, Bool.false_eq_true, if_false, RegDef.line, Line.write]
    rw [assign_full _ _ (by simp [hlen])]
    simp [hw, Except.map]
  · simp only [shapeOk, Bool.and_eq_true, beq_iff_eq]
    exact ⟨by rw [hsize, recordSize_eq], hidb⟩
  · simp only [RegDef.matchesBin, hidb, decodeUtf8, utf8Encode_ascii _ hpad]
    rw [utf8Decode_ascii _ hpad _ (by simp)]
    simp [isInfix_ljust]
  · simp only [RegDef.readDataBin, RegDef.line, Line.read, Except.map]
    have : readBinLine (r.idField :: r.fields) out = readBinLine (r.idField :: r.fields) out := rfl
    rw [hread]
    simp [canonData]

end Props.C10

namespace Props.C10
open Cfi Cfi.Text Cfi.Bin Spec.C10 Props.C09

/-- `read(n)` on a buffer positioned at a record of exactly `n` bytes returns that
record and leaves the stream at its end -/
theorem read_record (s : Stream UInt8) (b rest : List UInt8) (hr : s.rest = b ++ rest) :
    (s.read b.length).1 = b ∧ (s.read b.length).2.pos = s.pos + b.length ∧ (s.read b.length).2.rest = rest := by
  have h1 : (s.read b.length).1 = b := by simp [Stream.read, hr]
  have hacc := accounts_read s b.length
  refine ⟨h1, by rw [hacc.pos, h1], ?_⟩
  have := hacc.rest
  rw [h1, hr] at this
  exact (List.append_cancel_left this).symm

def WrittenBin (item : RegDef × List Val) (w : Data) : Prop :=
  ∃ out, w = .bytes out ∧ out.length = item.1.recordSize ∧
    shapeOk item.1 .binary w = true ∧ item.1.matchesBin out = .ok true ∧
    item.1.readDataBin out = .ok (canonData item.1 .binary item.2 w)

theorem readAll_bin (items : List (RegDef × List Val)) (ws : List Data)
    (hw : All2 WrittenBin items ws) (s : Stream UInt8) (hrest : s.rest = ws.flatMap bytesOf) :
    ∃ obs, readAllBin s.pos s items ws = some obs ∧ obs.length = items.length ∧
      Spec.C10.holds.go .binary s.pos items obs = true := by
  induction hw generalizing s with
  | nil => exact ⟨[], rfl, rfl, rfl⟩
  | @cons item w items ws h1 _ ih =>
    obtain ⟨out, hwe, hsz, hshape, hmatch, hread⟩ := h1
    obtain ⟨r, data⟩ := item
    subst hwe
    have hrest' : s.rest = out ++ ws.flatMap bytesOf := by
      rw [hrest]; simp [List.flatMap_cons, bytesOf]
    have hsz' : r.recordSize = out.length := hsz.symm
    obtain ⟨hb, hp, hr'⟩ := read_record s out _ hrest'
    have hn : dataLen (Data.bytes out) = out.length := rfl
    obtain ⟨obs, ho, hlen, hgo⟩ := ih (s.read out.length).2 hr'
    rw [hp] at ho hgo
    refine ⟨⟨.bytes out, s.pos + out.length, true,
      canonData r .binary data (.bytes out), s.pos + out.length⟩ :: obs, ?_, by simp [hlen], ?_⟩
    · simp only [readAllBin, hn, hsz', hb, hread, Except.toOption, ho, bytesOf, hmatch, hp]
    · simp only [Spec.C10.holds.go, hshape, hn, beq_self_eq_true, Bool.true_and, Bool.and_true, hgo]

/-- **C10, binary storage, for every stream of registers**: each record is
identifier width plus field widths bytes, is recognised, reads back to the
canonical data, and every read consumes exactly the bytes its write produced —
consecutive records stay aligned. -/
theorem binary (items : List (RegDef × List Val)) (h : ∀ item ∈ items, ItemBin item.1 item.2) :
    ∃ obs, run .binary items = some obs ∧ Spec.C10.holds .binary items obs = true := by
  have hws : ∃ ws, writeAll .binary items = some ws ∧ All2 WrittenBin items ws := by
    induction items with
    | nil => exact ⟨[], rfl, .nil⟩
    | cons item items ih =>
      obtain ⟨ws, h1, h2⟩ := ih (fun it hit => h it (by simp [hit]))
      obtain ⟨out, hw, hsz, hshape, hmatch, hread⟩ := item_bin item.1 item.2 (h item (by simp))
      refine ⟨.bytes out :: ws, ?_, .cons ⟨out, rfl, hsz, hshape, hmatch, hread⟩ h2⟩
      simp only [writeAll, List.mapM_cons, hw, bind, Option.bind] at h1 ⊢
      simp only [h1, pure]
  obtain ⟨ws, h1, h2⟩ := hws
  obtain ⟨obs, h3, h4, h5⟩ := readAll_bin items ws h2 ⟨ws.flatMap bytesOf, 0⟩ (by simp [Stream.rest])
  refine ⟨obs, by simp only [run, h1]; exact h3, ?_⟩
  simp only [Spec.C10.holds, h4, beq_self_eq_true, Bool.true_and]
  exact h5

end Props.C10

/-! ### delimited text storage -/
namespace Props.C10
open Cfi Cfi.Text Spec.C10 Props.C11

structure ItemDelim (r : RegDef) (data : List Val) (d : List Char) (rs : List (List Char)) : Prop where
  hdel : r.delimiter = .str d
  hd : d ≠ []
  hnld : ¬ '\n' ∈ d
  hid : r.ident.length ≤ r.digits
  hidne : r.ident ≠ []
  hidhead : ∀ x, r.ident.head? = some x → isStripWs x = false
  hidlast : ∀ x, r.ident.getLast? = some x → isStripWs x = false
  hidfree : ∀ c ∈ r.ident, ¬ c ∈ d
  hidnl : ¬ '\n' ∈ r.ident
  hlen : r.fields.length = data.length
  hne : RegDef.isEmpty data = false
  hrl : rs.length = r.fields.length
  hlaw : ∀ i (hi : i < r.fields.length), ∃ t, rs[i]? = some t ∧ TokLaw r.fields[i] (data[i]'(hlen ▸ hi)) t
  hfree : ∀ t ∈ rs, ∀ c ∈ strip t, ¬ c ∈ d
  htnl : ∀ t ∈ rs, ¬ '\n' ∈ strip t

theorem strip_ident (r : RegDef) (h1 : ∀ x, r.ident.head? = some x → isStripWs x = false)
    (h2 : ∀ x, r.ident.getLast? = some x → isStripWs x = false) : strip r.ident = r.ident := by
  have := stripBy_pad_left (p := isStripWs) 0 ' ' r.ident isStripWs_blank h1 h2
  simpa [strip] using this

/-- **One register in delimited text storage.** -/
theorem item_delim (r : RegDef) (data : List Val) (d : List Char) (rs : List (List Char))
    (h : ItemDelim r data d rs) :
    ∃ out, r.writeData .text data = .ok (some (.str (out ++ ['\n']))) ∧ ¬ '\n' ∈ out ∧
      shapeOk r .text (.str (out ++ ['\n'])) = true ∧ r.matchesText (out ++ ['\n']) = true ∧
      r.readDataText (out ++ ['\n']) = .ok (canonData r .text data (.str (out ++ ['\n']))) := by
  obtain ⟨hdel, hd, hnld, hid, hidne, hidhead, hidlast, hidfree, hidnl, hlen, hne, hrl, hlaw, hfree, htnl⟩ := h
  have hsid : strip (ljust r.ident r.digits ' ') = r.ident := by
    rw [strip_ljust]; exact strip_ident r hidhead hidlast
  -- the composite line
  let F := r.idField :: r.fields
  let V := Val.str r.ident :: data
  let RS := ljust r.ident r.digits ' ' :: rs
  have hlenF : F.length = V.length := by simp [F, V, hlen]
  have hrlF : RS.length = F.length := by simp [F, RS, hrl]
  have hr : ∀ i (hi : i < F.length), ∃ t, RS[i]? = some t ∧ renderText F[i] (V[i]'(hlenF ▸ hi)) = .ok t ∧
      t.length = (F[i]).size := by
    intro i hi
    cases i with
    | zero =>
      obtain ⟨h1, h2, _⟩ := r.idField_rendersTo hid
      exact ⟨_, rfl, h1, h2⟩
    | succ i =>
      obtain ⟨t, h1, h2, h3, _⟩ := hlaw i (by simpa [F] using hi)
      exact ⟨t, by simpa [RS] using h1, by simpa [F, V] using h2, by simpa [F] using h3⟩
  have hw := writeDelim_eq F V RS d hlenF hr hrlF
  have hmap : RS.map strip = r.ident :: rs.map strip := by simp [RS, hsid]
  -- data is not empty, so there is at least one data token
  have hdata : rs ≠ [] := by
    intro e
    subst e
    have : r.fields = [] := List.length_eq_zero_iff.mp (by simpa using hrl.symm)
    have : data = [] := List.length_eq_zero_iff.mp (by rw [← hlen, this]; rfl)
    subst this
    simp [RegDef.isEmpty] at hne
  have hfreeAll : ∀ u ∈ r.ident :: rs.map strip, ∀ c ∈ u, ¬ c ∈ d := by
    intro u hu c hc
    rcases List.mem_cons.mp hu with rfl | hu
    · exact hidfree c hc
    · obtain ⟨t, ht, rfl⟩ := List.mem_map.mp hu
      exact hfree t ht c hc
  let out := join d (r.ident :: rs.map strip)
  have hout_nl : ¬ '\n' ∈ out := by
    intro hm
    rcases mem_join d _ _ hm with h1 | ⟨u, hu, hc⟩
    · exact hnld h1
    · rcases List.mem_cons.mp hu with rfl | hu
      · exact hidnl hc
      · obtain ⟨t, ht, rfl⟩ := List.mem_map.mp hu
        exact htnl t ht hc
  have hwd : r.writeData .text data = .ok (some (.str (out ++ ['\n']))) := by
    simp only [RegDef.writeData, hne, Bool.false_eq_true, if_false, RegDef.line, Line.write, hdel]
    rw [assign_full _ _ (by simp [hlen])]
    have : writeDelim (r.idField :: r.fields) (Val.str r.ident :: data) d =
        .ok (join d (RS.map strip) ++ ['\n']) := hw
    rw [this, hmap]
    rfl
  -- the tokens of the written line
  have htoks : (split (out ++ ['\n']) d).map strip = r.ident :: rs.map strip := by
    have := tokens_of_joined d (r.ident :: rs.map strip) hd hnld (by simp) hfreeAll
    rw [this]
    simp [strip_ident r hidhead hidlast, strip_idem]
  have hhead : (split (out ++ ['\n']) d).head? = some r.ident := by
    -- split the token list into init ++ [last]
    cases hrev : (rs.map strip).reverse with
    | nil => simp at hrev; exact absurd hrev hdata
    | cons l ini =>
      have hrs : rs.map strip = ini.reverse ++ [l] := by
        have := congrArg List.reverse hrev; simpa using this
      have hall : r.ident :: rs.map strip = (r.ident :: ini.reverse) ++ [l] := by rw [hrs]; rfl
      show (split (join d (r.ident :: rs.map strip) ++ ['\n']) d).head? = some r.ident
      rw [hall, split_joined_line d _ _ hd hnld (by rw [← hall]; exact hfreeAll)]
      rfl
  refine ⟨out, hwd, hout_nl, ?_, ?_, ?_⟩
  · simp only [shapeOk, hdel, List.getLast?_append, List.getLast?_singleton, Option.some_or, beq_self_eq_true,
      List.dropLast_concat, Bool.true_and, Bool.and_eq_true, Bool.not_eq_true', beq_iff_eq]
    exact ⟨by simpa using hout_nl, hhead⟩
  · -- the identifier is the beginning of the line
    obtain ⟨t2, ts, hts⟩ : ∃ t2 ts, rs.map strip = t2 :: ts := by
      cases hm : rs.map strip with
      | nil => simp at hm; exact absurd hm hdata
      | cons t2 ts => exact ⟨t2, ts, rfl⟩
    have hstart : out ++ ['\n'] = r.ident ++ (d ++ join d (t2 :: ts) ++ ['\n']) := by
      show join d (r.ident :: rs.map strip) ++ ['\n'] = _
      rw [hts, join_cons_ne _ _ _ (by simp)]
      simp [List.append_assoc]
    simp only [RegDef.matchesText, hstart, List.take_append]
    rw [List.take_of_length_le (by omega)]
    exact isInfix_append_self _ _
  · have hde : d.isEmpty = false := by
      cases d with
      | nil => exact absurd rfl hd
      | cons _ _ => rfl
    have hrd : readDelim (r.idField :: r.fields) (out ++ ['\n']) d =
        readDelim.go (r.idField :: r.fields) (r.ident :: rs.map strip) :=
      readDelim_of_tokens _ _ _ _ htoks
    simp only [RegDef.readDataText, RegDef.line, Line.read, hdel, hde, Bool.false_eq_true, if_false, Except.map,
      hrd, readDelim.go, List.tail_cons, canonData, htoks, List.drop_one]
    rw [go_canon r.fields data rs hlen hrl hlaw]
    rfl

end Props.C10

namespace Props.C10
open Cfi Cfi.Text Spec.C10 Props.C11

/-- **C10, delimited text storage, for every stream of registers**: each register
is one line, its identifier is the first token, it is recognised by its own type,
reads back token by token to the canonical data, and every `readline()` ends
exactly where the corresponding write ended. -/
theorem text_delimited (items : List (RegDef × List Val))
    (h : ∀ item ∈ items, ∃ d rs, ItemDelim item.1 item.2 d rs) :
    ∃ obs, run .text items = some obs ∧ Spec.C10.holds .text items obs = true :=
  text_stream items (fun item hi => by
    obtain ⟨d, rs, hd⟩ := h item hi
    exact item_delim item.1 item.2 d rs hd)

/-- positional and delimited registers may be mixed in one text stream -/
theorem text_mixed (items : List (RegDef × List Val))
    (h : ∀ item ∈ items, ItemText item.1 item.2 ∨ ∃ d rs, ItemDelim item.1 item.2 d rs) :
    ∃ obs, run .text items = some obs ∧ Spec.C10.holds .text items obs = true :=
  text_stream items (fun item hi => by
    rcases h item hi with h1 | ⟨d, rs, hd⟩
    · exact item_text item.1 item.2 h1
    · exact item_delim item.1 item.2 d rs hd)

/-- non-vacuity: one positional, one binary and one delimited register -/
example :
    let r : RegDef := ⟨"AB".toList, 3, [Field.mk' .int 4 3], .none⟩
    let rd : RegDef := ⟨"AB".toList, 3, [Field.mk' .int 4 3], .str [';']⟩
    ((run .text [(r, [.int 7]), (r, [.int (-1)])]).map
        (Spec.C10.holds .text [(r, [.int 7]), (r, [.int (-1)])]) = some true) ∧
    ((run .text [(rd, [.int 7])]).map (Spec.C10.holds .text [(rd, [.int 7])]) = some true) ∧
    ((run .binary [(r, [.int 7]), (r, [.int 9])]).map
        (Spec.C10.holds .binary [(r, [.int 7]), (r, [.int 9])]) = some true) := by
  decide +kernel

end Props.C10
