import Cfi.Files
import Spec.C10
/-! C10 — property theorems (record width; the stream theorem is added as the
per-kind laws are completed). -/
namespace Props.C10
open Cfi Spec.C10

/-- the number of bytes a binary register asks for is the identifier width plus
the field widths — the width of the composite line, not more (D7) -/
theorem recordSize_eq (r : RegDef) : r.recordSize = r.digits + (r.fields.map (·.size)).sum := by
  simp [RegDef.recordSize, RegDef.line, Line.size, RegDef.idField, Field.mk']

end Props.C10
