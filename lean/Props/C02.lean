import Cfi.Line
import Spec.C02
import Proofs.Splice
import Proofs.Layout
import Proofs.LineShape
import Proofs.LayoutBin
/-! C02 — property theorems. -/
namespace Props.C02
open Cfi Cfi.Text Spec.C02

/-- **Splice theorem** (any alphabet — `str` and `bytes` alike): writing a value
exactly as wide as the span into *any* pre-existing line yields a line of length
`max |line| stop` whose positions before `start` and from `stop` on are those of
the old line (blank-padded up to the span if it was shorter) and whose span is
the value. -/
theorem splice_spec {α} (line value : List α) (start stop : Nat) (b : α) (hs : start ≤ stop)
    (hv : value.length = stop - start) :
    (splice line start stop value b).length = max line.length stop ∧
    (splice line start stop value b).take start = (padTo line stop b).take start ∧
    (splice line start stop value b).drop stop = (padTo line stop b).drop stop ∧
    slice (splice line start stop value b) start stop = value ∧
    (∀ i, i < start ∨ stop ≤ i → (splice line start stop value b)[i]? = (padTo line stop b)[i]?) :=
  ⟨length_splice hs hv, take_splice hs, drop_splice hs hv, slice_splice hs hv,
   fun i hi => getElem?_splice_outside hs hv i hi⟩

/-- the old line is a prefix of its padding: nothing of it is lost either -/
theorem padTo_keeps_line {α} (line : List α) (stop : Nat) (b : α) :
    (padTo line stop b).take line.length = line := padTo_take_length line stop b

/-- One field write satisfies the property's statement as soon as the rendering
is exactly `size` wide and has the kind's shape. -/
theorem holdsField_of_shape (f : Field) (v : Val) (line value : List Char)
    (hgeo : f.stop = f.size + f.start) (hv : value.length = f.size)
    (hshape : shapeOk f.kind v value f.size = true) :
    holdsField f v line (splice line f.start f.stop value ' ') = true := by
  have hs : f.start ≤ f.stop := by omega
  have hv' : value.length = f.stop - f.start := by omega
  obtain ⟨h1, h2, h3, h4, _⟩ := splice_spec line value f.start f.stop ' ' hs hv'
  simp only [holdsField, h1, h2, h3, h4, hshape, Bool.and_true]
  simp [padTo]

theorem all_blank_replicate (n : Nat) : (List.replicate n ' ').all isBlank = true := by
  simp [isBlank]

/-- missing values render as blanks of the field width, for every kind -/
theorem render_null (f : Field) (v : Val) (hn : v.isNull = true) :
    renderText f v = .ok (List.replicate f.size ' ') := by
  unfold renderText renderRaw renderFull
  simp only [hn, if_true, Except.map]
  cases f.kind <;> cases v <;> simp_all [ljust, rjust, Val.isNull]

theorem shape_null (f : Field) (v : Val) (hn : v.isNull = true) :
    shapeOk f.kind v (List.replicate f.size ' ') f.size = true := by
  simp [shapeOk, hn, isBlank]

/-- literals: the text, then blanks (left-justified) -/
theorem shape_lit (s : List Char) (size : Nat) (h : s.length ≤ size) :
    shapeOk .lit (.str s) (ljust s size ' ') size = true := by
  simp [shapeOk, Val.isNull, length_ljust]; omega

theorem digit_not_blank {c : Char} (h : c.isDigit = true) : isBlank c = false := by
  simp [Char.isDigit] at h
  simp [isBlank]
  intro e; subst e; simp at h

theorem pyStr_no_blank (n : Int) : (PyInt.pyStr n).any isBlank = false := by
  have key : ∀ k : Nat, (PyInt.natDigits k).any isBlank = false := by
    intro k
    simp only [List.any_eq_false]
    intro c hc
    have := Nat.isDigit_of_mem_toDigits (b := 10) (by omega) (by omega) hc
    simp [digit_not_blank this]
  cases n with
  | ofNat k => exact key k
  | negSucc k => simp [PyInt.pyStr, key, isBlank]

theorem pyStr_ne_nil (n : Int) : PyInt.pyStr n ≠ [] := by
  cases n <;> simp [PyInt.pyStr, PyInt.natDigits]

theorem dropWhile_replicate_append {p : Char → Bool} (k : Nat) (c : Char) (t : List Char)
    (hc : p c = true) (ht : ∀ x, t.head? = some x → p x = false) :
    (List.replicate k c ++ t).dropWhile p = t := by
  induction k with
  | zero =>
    cases t with
    | nil => rfl
    | cons x t => simp [ht x rfl]
  | succ k ih => simp [List.replicate_succ, hc, ih]

/-- numbers: blanks, then a non-empty text without blanks (right-justified) -/
theorem shape_number (k : Kind) (v : Val) (t : List Char) (size : Nat) (hk : k = .int ∨ ∃ d f s, k = .flt d f s)
    (hv : v.isNull = false) (hlen : t.length ≤ size) (hne : t ≠ []) (hnb : t.any isBlank = false) :
    shapeOk k v (rjust t size ' ') size = true := by
  have hd : (rjust t size ' ').dropWhile isBlank = t := by
    unfold rjust
    apply dropWhile_replicate_append _ _ _ (by simp [isBlank])
    intro x hx
    have : x ∈ t := List.mem_of_head? hx
    simp only [List.any_eq_false] at hnb
    simpa using hnb x this
  have hl : (rjust t size ' ').length = size := by rw [length_rjust]; omega
  rcases hk with rfl | ⟨d, f, s, rfl⟩ <;> simp [shapeOk, hv, hd, hl, hne, hnb]

theorem shape_int (n : Int) (size : Nat) (h : (PyInt.pyStr n).length ≤ size) :
    shapeOk .int (.int n) (rjust (PyInt.pyStr n) size ' ') size = true :=
  shape_number .int (.int n) _ size (.inl rfl) rfl h (pyStr_ne_nil n) (pyStr_no_blank n)

/-- **Single field write, full statement** for missing values, literals and
integers of every width, start and target line. -/
theorem field_write_basic (f : Field) (v : Val) (line : List Char) (hfit : fits f v = true)
    (hk : v.isNull = true ∨ f.kind = .lit ∨ f.kind = .int) :
    ∃ out, f.writeText v line = .ok out ∧ holdsField f v line out = true := by
  simp only [fits, Bool.and_eq_true, beq_iff_eq] at hfit
  obtain ⟨⟨hgeo, hty⟩, hraw⟩ := hfit
  by_cases hn : v.isNull = true
  · refine ⟨splice line f.start f.stop (List.replicate f.size ' ') ' ', ?_, ?_⟩
    · simp [Field.writeText, render_null f v hn, Except.map]
    · exact holdsField_of_shape f v line _ hgeo (by simp) (shape_null f v hn)
  · have hn' : v.isNull = false := by simpa using hn
    rcases hk with hk | hk | hk
    · exact absurd hk hn
    · -- literal
      match v, hty, hn', hraw with
      | .str s, _, _, hraw =>
        simp only [hk, renderFull, Val.isNull] at hraw
        simp at hraw
        refine ⟨splice line f.start f.stop (ljust s f.size ' ') ' ', ?_, ?_⟩
        · simp [Field.writeText, renderText, renderRaw, renderFull, hk, Val.isNull, Except.map]
        · have := shape_lit s f.size hraw
          rw [← hk] at this
          exact holdsField_of_shape f _ line _ hgeo (by rw [length_ljust]; omega) this
      | .none, _, hn', _ => simp [Val.isNull] at hn'
      | .nat, _, hn', _ => simp [Val.isNull] at hn'
      | .dbl .nan, _, hn', _ => simp [Val.isNull, Dbl.isNaN] at hn'
      | .dbl (.fin _ _ _), hty, _, _ => rw [hk] at hty; simp [typeOk] at hty
      | .dbl (.inf _), hty, _, _ => simp [hk, typeOk] at hty
      | .int _, hty, _, _ => simp [hk, typeOk] at hty
      | .date _, hty, _, _ => simp [hk, typeOk] at hty
    · -- integer
      match v, hty, hn', hraw with
      | .int n, _, _, hraw =>
        simp only [hk, renderFull, Val.isNull] at hraw
        simp at hraw
        refine ⟨splice line f.start f.stop (rjust (PyInt.pyStr n) f.size ' ') ' ', ?_, ?_⟩
        · simp [Field.writeText, renderText, renderRaw, renderFull, hk, Val.isNull, Except.map]
        · have := shape_int n f.size hraw
          rw [← hk] at this
          exact holdsField_of_shape f _ line _ hgeo (by rw [length_rjust]; omega) this
      | .none, _, hn', _ => simp [Val.isNull] at hn'
      | .nat, _, hn', _ => simp [Val.isNull] at hn'
      | .dbl .nan, _, hn', _ => simp [Val.isNull, Dbl.isNaN] at hn'
      | .dbl (.fin _ _ _), hty, _, _ => rw [hk] at hty; simp [typeOk] at hty
      | .dbl (.inf _), hty, _, _ => simp [hk, typeOk] at hty
      | .str _, hty, _, _ => simp [hk, typeOk] at hty
      | .date _, hty, _, _ => simp [hk, typeOk] at hty

/-- **Single field write for floats and dates**: the statement holds as soon as
the unpadded rendering has the kind's character shape (no blank inside a
number; a date text that starts in the first column).  That character-level
fact is proved separately (`Props/C02b.lean`); everything about columns is here. -/
theorem field_write_of_raw (f : Field) (v : Val) (line raw : List Char) (hfit : fits f v = true)
    (hraw : renderRaw f.kind f.size v = .ok raw)
    (hshape : shapeOk f.kind v (match f.kind with
        | .lit | .date _ => ljust raw f.size ' '
        | .int | .flt _ _ _ => rjust raw f.size ' ') f.size = true) :
    ∃ out, f.writeText v line = .ok out ∧ holdsField f v line out = true := by
  simp only [fits, Bool.and_eq_true, beq_iff_eq] at hfit
  obtain ⟨⟨hgeo, _⟩, hr⟩ := hfit
  have hr : raw.length ≤ f.size := by
    unfold renderRaw at hraw
    cases hfull : renderFull f.kind f.size v with
    | error e => simp [hfull, Except.map] at hraw
    | ok full =>
      simp only [hfull, Except.map] at hraw hr
      simp at hr
      injection hraw with hraw
      rw [← hraw]
      split <;> (try split) <;> (try simp only [List.length_take]) <;> omega
  cases hk : f.kind <;> simp only [hk] at hshape hraw ⊢ <;>
    refine ⟨_, by simp [Field.writeText, renderText, hk, hraw, Except.map]; rfl, ?_⟩ <;>
    (apply holdsField_of_shape f v line _ hgeo _ (by rw [hk]; exact hshape)) <;>
    simp [length_ljust, length_rjust] <;> omega

/-- **Binary field write**: same column discipline over bytes, any target buffer. -/
theorem field_write_bin (f : Field) (v : Val) (line value : List UInt8)
    (hgeo : f.stop = f.size + f.start) (hr : renderBin f v = .ok value) (hv : value.length = f.size) :
    ∃ out, f.writeBin v line = .ok out ∧ holdsFieldBin f line out = true := by
  refine ⟨splice line f.start f.stop value 32, by simp [Field.writeBin, hr, Except.map], ?_⟩
  have hs : f.start ≤ f.stop := by omega
  obtain ⟨h1, h2, h3, _, _⟩ := splice_spec line value f.start f.stop 32 hs (by omega)
  simp [holdsFieldBin, h1, h2, h3, padTo]

/-- **Defaults**: the geometry of default-constructed fields read from the code
is the documented one (literal 80, integer 8, float 8 / 4 decimals / F / ".",
date 16 / `%Y/%m/%d`, all at column 0).  Breaks the build if a default changes. -/
theorem defaults : defaultsOk = true := by decide

/-- **Line shape** (any number of fields, any order, gaps): a written text line is
exactly as long as the furthest field end plus one newline, ends in that
newline, and every column outside the fields is blank.  `rs` are the fields'
renderings (each exactly `size` wide — `rendersTo`). -/
theorem line_shape (fs : List Field) (vs : List Val) (rs : List (List Char))
    (hlen : fs.length = vs.length)
    (hr : All2 (fun (fv : Field × Val) r => rendersTo fv.1 fv.2 r) (fs.zip vs) rs)
    (w : List Char) (hw : writePos fs vs = .ok w) :
    w.length = maxEnd fs + 1 ∧ w.getLast? = some '\n' ∧
    ∀ i, i < maxEnd fs → covered fs i = true ∨ w[i]? = some ' ' :=
  writePos_shape fs vs rs hlen hr w hw

/-- **Each field's rendering sits in its own span** of the written line, for every
layout of pairwise disjoint fields in any order -/
theorem line_spans (fs : List Field) (vs : List Val) (rs : List (List Char))
    (hlen : fs.length = vs.length)
    (hr : All2 (fun (fv : Field × Val) r => rendersTo fv.1 fv.2 r) (fs.zip vs) rs)
    (hdis : Cfi.Disjoint fs) (out : List Char) (hw : writeFields fs vs [] = .ok out) :
    All2 (fun (f : Field) r => slice out f.start f.stop = r) fs rs :=
  writeFields_spans fs vs rs hlen hr hdis [] out hw

/-- non-vacuity -/
example : fits (Field.mk' .int 5 3) (.int (-42)) = true ∧
    (Field.mk' .int 5 3).writeText (.int (-42)) "abcdefghijkl".toList = .ok "abc  -42ijkl".toList ∧
    (Field.mk' .lit 4 6).writeText (.str "xy".toList) "ab".toList = .ok "ab    xy  ".toList := by decide

end Props.C02

/-! ### binary lines -/
namespace Props.C02
open Cfi Cfi.Text Spec.C02

/-- **Binary line shape**: a written binary line is exactly as long as the
furthest field end (no terminator) and every byte outside the fields is 0x20. -/
theorem line_bin_shape (fs : List Field) (vs : List Val) (rs : List (List UInt8))
    (hlen : fs.length = vs.length)
    (hr : All2 (fun (fv : Field × Val) r => rendersToBin fv.1 fv.2 r) (fs.zip vs) rs)
    (out : List UInt8) (hw : writeBinLine fs vs = .ok out) :
    out.length = maxEnd fs ∧ ∀ i, i < maxEnd fs → covered fs i = true ∨ out[i]? = some 32 := by
  obtain ⟨hgap, hl⟩ := writeFieldsBin_shape fs vs rs hlen hr [] [] out hw (fun i hi => by simp at hi)
  have hl' : out.length = maxEnd fs := by rw [hl]; rfl
  exact ⟨hl', fun i hi => by simpa using hgap i (by omega)⟩

/-- **Each field's bytes sit in its own span** of the written binary line -/
theorem line_bin_spans (fs : List Field) (vs : List Val) (rs : List (List UInt8))
    (hlen : fs.length = vs.length)
    (hr : All2 (fun (fv : Field × Val) r => rendersToBin fv.1 fv.2 r) (fs.zip vs) rs)
    (hdis : Cfi.Disjoint fs) (out : List UInt8) (hw : writeBinLine fs vs = .ok out) :
    All2 (fun (f : Field) r => slice out f.start f.stop = r) fs rs :=
  writeFieldsBin_spans fs vs rs hlen hr hdis [] out hw

end Props.C02
