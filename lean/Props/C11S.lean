import Props.C11D
/-!
C11 for the whole decidable domain, delimiters with blanks included: `split` of a text followed by
one character that does not occur in the separator puts the character onto the last piece
(`split_snoc`), so the decided fact `split (join d ts) d = ts` of the domain guard carries over to
the written line and to the padded line (`main_full`).
-/
namespace Props.C11
open Cfi Cfi.Text

/-- the character appended to the last piece -/
def snocLast : List (List Char) → Char → List (List Char)
  | [], c => [[c]]
  | [a], c => [a ++ [c]]
  | a :: b :: l, c => a :: snocLast (b :: l) c

theorem snocLast_cons (a : List Char) (l : List (List Char)) (c : Char) (h : l ≠ []) :
    snocLast (a :: l) c = a :: snocLast l c := by
  cases l with
  | nil => exact absurd rfl h
  | cons b l => rfl

theorem isPrefix_snoc (sep : List Char) (c : Char) (hc : ¬ c ∈ sep) :
    ∀ t : List Char, isPrefix sep (t ++ [c]) = isPrefix sep t := by
  induction sep with
  | nil => intro t; cases t <;> rfl
  | cons a as ih =>
    intro t
    cases t with
    | nil =>
      simp only [List.nil_append, isPrefix]
      have : (a == c) = false := by
        simp only [beq_eq_false_iff_ne, ne_eq]
        intro e; subst e; exact hc (by simp)
      simp [this]
    | cons b bs =>
      simp only [List.cons_append, isPrefix]
      rw [ih (fun h => hc (by simp [h]))]

theorem isPrefix_length (sep t : List Char) (h : isPrefix sep t = true) : sep.length ≤ t.length := by
  induction sep generalizing t with
  | nil => simp
  | cons a as ih =>
    cases t with
    | nil => simp [isPrefix] at h
    | cons b bs =>
      simp only [isPrefix, Bool.and_eq_true] at h
      have := ih bs h.2
      simp; omega

theorem splitNE_ne_nil (sep : List Char) : ∀ (fuel : Nat) (acc s : List Char), splitNE sep fuel acc s ≠ [] := by
  intro fuel
  induction fuel with
  | zero => intro acc s; simp [splitNE]
  | succ f ih =>
    intro acc s
    cases s with
    | nil => simp [splitNE]
    | cons x xs =>
      simp only [splitNE]
      split
      · simp
      · exact ih _ _

/-- **one more character at the end** (not a character of the separator) goes onto the last piece -/
theorem splitNE_snoc (sep : List Char) (hs : sep ≠ []) (c : Char) (hc : ¬ c ∈ sep) :
    ∀ (f₁ f₂ : Nat) (acc s : List Char), s.length < f₁ → s.length + 1 < f₂ →
      splitNE sep f₂ acc (s ++ [c]) = snocLast (splitNE sep f₁ acc s) c := by
  intro f₁
  induction f₁ with
  | zero => intro f₂ acc s h; omega
  | succ f₁ ih =>
    intro f₂ acc s h₁ h₂
    cases f₂ with
    | zero => omega
    | succ f₂ =>
      cases s with
      | nil =>
        simp only [List.nil_append, splitNE]
        have hp : isPrefix sep [c] = false := by
          have := isPrefix_snoc sep c hc []
          simp only [List.nil_append] at this
          rw [this]
          cases sep with
          | nil => exact absurd rfl hs
          | cons a as => rfl
        simp only [hp, Bool.false_eq_true, if_false]
        cases f₂ with
        | zero => simp at h₂
        | succ f₂ => simp [splitNE, snocLast]
      | cons x xs =>
        have hpe : isPrefix sep (x :: xs ++ [c]) = isPrefix sep (x :: xs) := isPrefix_snoc sep c hc (x :: xs)
        simp only [List.cons_append] at hpe ⊢
        simp only [splitNE, hpe]
        by_cases hp : isPrefix sep (x :: xs) = true
        · simp only [hp, if_true]
          have hl := isPrefix_length sep (x :: xs) hp
          have hpos : 0 < sep.length := List.length_pos_iff.2 hs
          have hdrop : (x :: (xs ++ [c])).drop sep.length = (x :: xs).drop sep.length ++ [c] := by
            rw [← List.cons_append, List.drop_append_of_le_length hl]
          rw [hdrop]
          have hlen : ((x :: xs).drop sep.length).length < f₁ := by
            simp only [List.length_drop, List.length_cons] at h₁ ⊢
            omega
          have hlen2 : ((x :: xs).drop sep.length).length + 1 < f₂ := by
            simp only [List.length_drop, List.length_cons] at h₂ ⊢
            omega
          rw [ih f₂ [] _ hlen hlen2, snocLast_cons _ _ _ (splitNE_ne_nil sep _ _ _)]
        · simp only [hp, Bool.false_eq_true, if_false]
          have hlen : xs.length < f₁ := by simp only [List.length_cons] at h₁; omega
          have hlen2 : xs.length + 1 < f₂ := by simp only [List.length_cons] at h₂; omega
          exact ih f₂ (x :: acc) xs hlen hlen2

theorem split_snoc (sep : List Char) (hs : sep ≠ []) (c : Char) (hc : ¬ c ∈ sep) (s : List Char) :
    split (s ++ [c]) sep = snocLast (split s sep) c := by
  unfold split
  exact splitNE_snoc sep hs c hc _ _ [] s (by omega) (by simp)

theorem map_strip_snocLast (ts : List (List Char)) (h : ts ≠ []) :
    (snocLast ts '\n').map strip = ts.map strip := by
  induction ts with
  | nil => exact absurd rfl h
  | cons a l ih =>
    cases l with
    | nil => simp [snocLast, strip_append_newline]
    | cons b l =>
      rw [snocLast_cons _ _ _ (by simp)]
      simp only [List.map_cons]
      rw [ih (by simp)]
      simp

/-- the trimmed tokens of a written line, from the decidable fact `split (join d us) d = us` -/
theorem tokens_of_joined' (d : List Char) (us : List (List Char)) (hd : d ≠ []) (hnl : ¬ '\n' ∈ d)
    (hne : us ≠ []) (hsj : split (join d us) d = us) :
    (split (join d us ++ ['\n']) d).map strip = us.map strip := by
  rw [split_snoc d hd '\n' hnl, hsj, map_strip_snocLast us hne]

/-- **C11 for the whole decidable domain.** For every layout, value list and delimiter admitted
by `Spec.C11.inDomain` — any non-empty delimiter that is not all white space, with or without
blanks, as long as no token contains it and splitting the joined tokens gives the tokens back
(both decided by the domain guard) — any padding and any sequence of further lines: the model's
write / read cycle satisfies the whole of `Spec.C11.holds`. -/
theorem main_full (fs : List Field) (vs : List Val) (d : List Char)
    (pads : List (Nat × Nat)) (lines : List (List Char))
    (h : Spec.C11.inDomain fs vs d = true) (hp : fs.length ≤ pads.length)
    (hdate : ∀ fv ∈ fs.zip vs, ∀ fmts, fv.1.kind = .date fmts → fv.2.isNull = true → ∀ fm ∈ fmts, fm ≠ [])
    (hbig : ∀ v ∈ vs, ∀ n, v = .int n → n.natAbs < 10 ^ 4300) :
    ∃ o, Spec.C11.cycle fs vs d pads lines = some o ∧ Spec.C11.holds fs vs d pads lines o = true := by
  have h0 := h
  simp only [Spec.C11.inDomain, Bool.and_eq_true, Bool.not_eq_true', beq_iff_eq, List.all_eq_true] at h
  obtain ⟨⟨⟨⟨hd, hlen⟩, _⟩, hdom⟩, htok⟩ := h
  have hdne : d ≠ [] := by intro e; subst e; simp at hd
  have hlaw : ∀ fv ∈ fs.zip vs, ∃ r, TokLaw fv.1 fv.2 r := by
    intro fv hfv
    exact tokLaw_of_domain fv.1 fv.2 (hdom fv hfv) (hdate fv hfv) (hbig fv.2 (List.of_mem_zip hfv).2)
  obtain ⟨rs, hrl, hidx, _⟩ := toks_exist fs vs hlen hlaw
  have hr : ∀ i (hi : i < fs.length), ∃ r, rs[i]? = some r ∧ renderText fs[i] (vs[i]'(hlen ▸ hi)) = .ok r ∧ r.length = (fs[i]).size := by
    intro i hi
    obtain ⟨r, h1, h2, h3, _⟩ := hidx i hi
    exact ⟨r, h1, h2, h3⟩
  have hw := writeDelim_eq fs vs rs d hlen hr hrl
  have htk := tokens_eq fs vs rs hlen hrl (fun i hi => by
    obtain ⟨r, h1, h2, _⟩ := hr i hi; exact ⟨r, h1, h2⟩)
  rw [htk] at htok
  simp only [Spec.C11.tokensOk, Bool.and_eq_true, Bool.not_eq_true', Bool.or_eq_true, beq_iff_eq,
    List.all_eq_true] at htok
  obtain ⟨⟨_, hnlb⟩, hsj⟩ := htok
  have hnl : ¬ '\n' ∈ d := by
    intro hm
    have : d.contains '\n' = true := by simpa using hm
    rw [this] at hnlb; exact absurd hnlb (by simp)
  refine ⟨⟨join d (rs.map strip) ++ ['\n'], readDelim fs (join d (rs.map strip) ++ ['\n']) d,
    readDelim fs (Spec.C11.padLine (rs.map strip) d pads) d, Spec.C11.expectedSeq fs d lines⟩,
    by simp only [Spec.C11.cycle, hw, htk], ?_⟩
  simp only [Spec.C11.holds, htk, beq_self_eq_true, Bool.true_and, Bool.and_true, Bool.and_eq_true, beq_iff_eq]
  by_cases hrs : rs = []
  · subst hrs
    have : fs = [] := List.length_eq_zero_iff.mp (by simpa using hrl.symm)
    subst this
    simp [readDelim, readDelim.go]
  · have hne : rs.map strip ≠ [] := by simpa using hrs
    have hsj' : split (join d (rs.map strip)) d = rs.map strip := by
      rcases hsj with he | he
      · exact absurd (by simpa using he) hrs
      · exact he
    have hback : readDelim fs (join d (rs.map strip) ++ ['\n']) d = readDelim.go fs (rs.map strip) := by
      apply readDelim_of_tokens
      rw [tokens_of_joined' d _ hdne hnl hne hsj']
      simp [strip_idem]
    rw [hback]
    refine ⟨go_canon fs vs rs hlen hrl hidx, ?_⟩
    -- the padded line, when the padded tokens still split apart
    by_cases hpo : Spec.C11.paddedOk (rs.map strip) d pads = true
    · simp only [hpo, if_true, beq_iff_eq]
      simp only [Spec.C11.paddedOk, Bool.and_eq_true, beq_iff_eq, Bool.or_eq_true] at hpo
      obtain ⟨⟨hpl, _⟩, hpsj⟩ := hpo
      have hpne : Spec.C11.padded (rs.map strip) pads ≠ [] := by
        intro e
        have := congrArg List.length e
        rw [hpl] at this
        simp only [List.length_map, List.length_nil] at this
        exact hrs (List.length_eq_zero_iff.mp this)
      have hpsj' : split (join d (Spec.C11.padded (rs.map strip) pads)) d = Spec.C11.padded (rs.map strip) pads := by
        rcases hpsj with he | he
        · exact absurd (by simpa using he) hpne
        · exact he
      apply readDelim_of_tokens
      simp only [Spec.C11.padLine]
      rw [tokens_of_joined' d _ hdne hnl hpne hpsj']
      simp only [Spec.C11.padded, List.map_map]
      have hlz : (rs.map strip).length ≤ pads.length := by simpa [hrl] using hp
      have : ∀ (ts : List (List Char)) (ps : List (Nat × Nat)), ts.length ≤ ps.length →
          (ts.zip ps).map (strip ∘ fun (tp : List Char × Nat × Nat) =>
            List.replicate tp.2.1 ' ' ++ tp.1 ++ List.replicate tp.2.2 ' ') = ts.map strip := by
        intro ts
        induction ts with
        | nil => simp
        | cons t ts ih =>
          intro ps hps
          cases ps with
          | nil => simp at hps
          | cons p ps =>
            simp only [List.zip_cons_cons, List.map_cons, Function.comp, strip_padded]
            congr 1
            exact ih ps (by simpa using hps)
      rw [this _ _ hlz]
      simp [strip_idem]
    · simp [hpo]

/-- non-vacuity: a delimiter WITH blanks (`" | "`), an integer, a literal and a missing date meet
every premise of `main_full` -/
example :
    let fs := [Field.mk' .int 5 0, Field.mk' .lit 4 5, Field.mk' (.date ["%d/%m/%Y".toList]) 10 9]
    let vs := [Val.int (-42), Val.str "ab".toList, Val.none]
    Spec.C11.inDomain fs vs " | ".toList = true ∧
    (∀ fv ∈ fs.zip vs, ∀ fmts, fv.1.kind = .date fmts → fv.2.isNull = true → ∀ fm ∈ fmts, fm ≠ []) ∧
    (∀ v ∈ vs, ∀ n, v = .int n → n.natAbs < 10 ^ 4300) := by
  refine ⟨by decide +kernel, ?_, ?_⟩
  · intro fv hfv fmts hk hn fm hfm
    simp only [List.zip_cons_cons, List.zip_nil_right, List.mem_cons, List.not_mem_nil, or_false] at hfv
    rcases hfv with rfl | rfl | rfl
    · simp [Field.mk'] at hk
    · simp [Field.mk'] at hk
    · simp only [Field.mk', Kind.date.injEq] at hk
      subst hk
      simp at hfm; subst hfm; decide
  · intro v hv n hn
    simp only [List.mem_cons, List.not_mem_nil, or_false] at hv
    rcases hv with rfl | rfl | rfl
    · injection hn with hn; subst hn; decide +kernel
    · exact absurd hn (by simp)
    · exact absurd hn (by simp)

end Props.C11
