import Cfi.Container
import Spec.C08
import Proofs.ContainerRepr
/-! C08 — property theorems (on top of C07's `Repr`, hence after any history). -/
namespace Props.C08
open Cfi.Container Spec.C08

theorem ofType_eq {s l} (F : Facts) (h : Repr s l) (k : Nat) :
    ofType F s (l.length + k) = specOfType F.isInst l := by
  simp [ofType, specOfType, h.iter_eq k]

theorem getOfType_eq {s l} (F : Facts) (h : Repr s l) (k : Nat) :
    getOfType F s (l.length + k) = specGet F.isInst F.meets l := by
  simp [getOfType, specGet, ofType, h.iter_eq k]

/-- Removing the sole element is a no-op on the model, as on the code. -/
theorem remove_sole {s x} (h : Repr s [x]) : remove s x = s := by
  have hp : s.prev x = none := by rw [h.prev x (by simp)]; rfl
  have hn : s.next x = none := by rw [h.next x (by simp)]; rfl
  simp [remove, unlinkPrev, unlinkNext, moveRoot, moveHead, hp, hn]

/-- The loop of `remove_*_of_type` over a list `xs` of distinct members: every
one except the first element of the container is removed. -/
theorem removeMany {s l} (h : Repr s l) (xs : List Id) (hx : ∀ x ∈ xs, x ∈ l) (hnd : xs.Nodup) :
    Repr (xs.foldl (fun s r => if r ≠ s.root then remove s r else s) s)
      (l.filter fun x => decide (x ∉ xs ∨ l.head? = some x)) := by
  induction xs generalizing s l with
  | nil =>
    have : (l.filter fun x => decide (x ∉ ([] : List Id) ∨ l.head? = some x)) = l := by simp
    rw [this]; exact h
  | cons r xs ih =>
    simp only [List.foldl_cons]
    have hr : r ∈ l := hx r (by simp)
    have hnd' := (List.nodup_cons.mp hnd)
    by_cases hroot : r = s.root
    · -- the first element is spared
      simp only [hroot, ne_eq, not_true_eq_false, if_false]
      have := ih h (fun x hx' => hx x (by simp [hx'])) hnd'.2
      have e : (l.filter fun x => decide (x ∉ xs ∨ l.head? = some x)) =
               (l.filter fun x => decide (x ∉ s.root :: xs ∨ l.head? = some x)) := by
        apply List.filter_congr
        intro x _
        have := h.root
        grind
      rw [← e]; exact this
    · simp only [ne_eq, hroot, not_false_eq_true, if_true]
      have hlen : 1 < l.length := by
        have h1 := h.root_mem
        match l, hr, h1 with
        | [a], hr, h1 => simp at hr h1; exact absurd (hr.trans h1.symm) hroot
        | _ :: _ :: _, _, _ => simp
      have h' := repr_remove h hr hlen
      have := ih h' (fun x hx' => by
        have : x ≠ r := by intro e; subst e; exact hnd'.1 hx'
        exact (List.mem_erase_of_ne this).2 (hx x (by simp [hx']))) hnd'.2
      have hhead : (l.erase r).head? = l.head? := by
        rw [head?_erase, h.root]
        have : some s.root ≠ some r := fun e => hroot (Option.some.inj e).symm
        simp [this]
      have e : ((l.erase r).filter fun x => decide (x ∉ xs ∨ (l.erase r).head? = some x)) =
               (l.filter fun x => decide (x ∉ r :: xs ∨ l.head? = some x)) := by
        rw [hhead, h.nodup.erase_eq_filter, List.filter_filter]
        apply List.filter_congr
        intro x _
        have := h.root
        grind
      rw [← e]; exact this

/-- **C08 main theorem (bulk removal).** -/
theorem removeOfType_repr {s l} (F : Facts) (h : Repr s l) (k : Nat) :
    Repr (removeOfType F s (l.length + k)) (specRemove F.isInst F.meets l) := by
  unfold removeOfType specRemove
  rw [getOfType_eq F h k, specGet]
  generalize hm : (l.filter F.isInst).filter F.meets = m
  have hsub : ∀ x ∈ m, x ∈ l ∧ F.isInst x = true ∧ F.meets x = true := by
    intro x hx; rw [← hm] at hx; simp only [List.mem_filter] at hx; exact ⟨hx.1.1, hx.1.2, hx.2⟩
  have hmem : ∀ x ∈ l, F.isInst x = true → F.meets x = true → x ∈ m := by
    intro x hx h1 h2; rw [← hm]; simp [List.mem_filter, hx, h1, h2]
  have hnd : m.Nodup := by rw [← hm]; exact (h.nodup.filter _).filter _
  match m, hsub, hmem, hnd with
  | [], _, _, _ => simpa [shape] using h
  | [x], hsub, _, _ =>
    simp only [shape]
    have hx := (hsub x (by simp)).1
    by_cases hl : l.length ≤ 1
    · simp only [hl, if_true]
      have : l = [x] := by
        match l, hx, hl with
        | [a], hx, _ => simp at hx; simp [hx]
        | _ :: _ :: _, _, hl => simp at hl
      subst this
      rw [remove_sole h]; exact h
    · simp only [hl, if_false]
      exact repr_remove h hx (by omega)
  | a :: b :: t, hsub, hmem, hnd =>
    simp only [shape]
    have := removeMany h (a :: b :: t) (fun x hx => (hsub x hx).1) hnd
    have e : (l.filter fun x => decide (x ∉ a :: b :: t ∨ l.head? = some x)) =
             (l.filter fun x => !(F.isInst x && F.meets x) || l.head? == some x) := by
      apply List.filter_congr
      intro x hx
      have h1 := hsub x
      have h2 := hmem x hx
      by_cases hc : x ∈ a :: b :: t
      · have := h1 hc
        rw [this.2.1, this.2.2]; simp only [hc, not_true_eq_false, false_or, Bool.and_self, Bool.not_true, Bool.false_or]
        by_cases hh : l.head? = some x <;> simp [hh]
      · have : (F.isInst x && F.meets x) = false := by
          cases h3 : F.isInst x <;> cases h4 : F.meets x <;> simp
          exact hc (h2 h3 h4)
        simp [hc, this]
    rw [← e]; exact this

/-- All four observables at once, in the shape the run-time oracle evaluates. -/
theorem main {s l} (F : Facts) (h : Repr s l) (k : Nat) :
    holds F.isInst F.meets l (observe F s (l.length + k)) = true := by
  have hr := removeOfType_repr F h k
  have hlen : (specRemove F.isInst F.meets l).length ≤ l.length := by
    unfold specRemove
    split
    · exact Nat.le_refl _
    · split
      · exact Nat.le_refl _
      · exact List.length_erase_le
    · exact List.length_filter_le _ _
  have hit : iter (removeOfType F s (l.length + k)) (l.length + k) = specRemove F.isInst F.meets l := by
    have := hr.iter_eq (l.length + k - (specRemove F.isInst F.meets l).length)
    rw [show (specRemove F.isInst F.meets l).length + (l.length + k - (specRemove F.isInst F.meets l).length)
        = l.length + k by omega] at this
    exact this
  simp [holds, observe, expected, ofType_eq F h k, getOfType_eq F h k, h.iter_eq k, hit]

/-! The property's wording as corollaries of `specRemove`. -/

/-- After bulk removal no matching member remains, except possibly the first. -/
theorem no_match_left (isInst meets : Id → Bool) (l : List Id) (hn : l.Nodup) (x : Id)
    (hx : x ∈ specRemove isInst meets l) (hm : isInst x = true ∧ meets x = true)
    (hsev : 2 ≤ ((l.filter isInst).filter meets).length ∨ (((l.filter isInst).filter meets).length = 1 ∧ 1 < l.length)) :
    l.head? = some x := by
  unfold specRemove at hx
  match hm' : (l.filter isInst).filter meets, hsev with
  | [], hsev => simp at hsev
  | [y], hsev =>
    rw [hm'] at hx
    simp only [List.length_singleton] at hsev
    have hl : ¬ l.length ≤ 1 := by omega
    simp only [hl, if_false] at hx
    have hxl : x ∈ l := List.mem_of_mem_erase hx
    have : x ∈ (l.filter isInst).filter meets := by simp [List.mem_filter, hxl, hm.1, hm.2]
    rw [hm'] at this; simp at this; subst this
    exact absurd ((hn.mem_erase_iff (a := x) (b := x)).1 hx).1 (by simp)
  | a :: b :: t, _ =>
    rw [hm'] at hx
    simp [List.mem_filter, hm.1, hm.2] at hx
    exact hx.2

/-- Non-matching members all survive, in their original order. -/
theorem non_matching_kept (isInst meets : Id → Bool) (l : List Id) (hn : l.Nodup) :
    (specRemove isInst meets l).filter (fun x => !(isInst x && meets x)) =
      l.filter (fun x => !(isInst x && meets x)) := by
  unfold specRemove
  split
  · rfl
  · rename_i x hm
    split
    · rfl
    · rw [hn.erase_eq_filter, List.filter_filter]
      apply List.filter_congr
      intro y hy
      by_cases e : y = x
      · subst e
        have : y ∈ (l.filter isInst).filter meets := by rw [hm]; simp
        simp only [List.mem_filter] at this
        simp [this.1.2, this.2]
      · simp [e]
  · rw [List.filter_filter]
    apply List.filter_congr
    intro y _
    cases h : (isInst y && meets y) <;> simp

/-- Non-vacuity: a state with a subclass member, a duplicate, a non-matching
member in between; three matches, the first element among them. -/
example :
    let s := run (init 0) [.append 1, .append 2, .append 3]
    let F : Facts := { isInst := fun x => x != 1, meets := fun _ => true }
    holds F.isInst F.meets [0, 1, 2, 3] (observe F s 6) = true ∧
    (observe F s 6).iterAfterRemove = [0, 1] := by decide

/-- **What is appended after a bulk removal is reachable**: after `remove_*_of_type` — also when the last
member was among those removed — an element appended next stands at the end of the container, and
iteration yields the members that were left followed by it (the history of seeded change C08-r) -/
theorem append_after_removeOfType {s l} (F : Facts) (h : Repr s l) (k : Nat) (n : Id)
    (hn : n ∉ specRemove F.isInst F.meets l) (j : Nat) :
    iter (append (removeOfType F s (l.length + k)) n) ((specRemove F.isInst F.meets l).length + 1 + j) =
      specRemove F.isInst F.meets l ++ [n] := by
  have h1 := removeOfType_repr F h k
  have h2 := repr_append h1 hn
  have := h2.iter_eq j
  simpa [List.length_append] using this

end Props.C08
