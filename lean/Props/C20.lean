import Cfi.Frame
import Spec.C20
import Props.C19
/-! C20 — property theorems. -/
namespace Props.C20
open Cfi Cfi.Frame Spec.C20

theorem sorted_sortNames (ns : List Name) : (sortNames ns).Pairwise (fun a b => a ≤ b) :=
  Props.C19.sorted_sortKeys ns

/-- **The list of user-defined properties excludes the framework's own**: taking
every property visible on the class (user's and framework's, in any order),
sorting and dropping the framework names gives exactly the sorted user names —
provided no user property shadows a framework name. -/
theorem customProps_eq (names : List Name) (hd : ∀ n ∈ names, ¬ n ∈ frameworkProps) :
    customProps (names ++ frameworkProps) =
      (sortNames names).filter (fun n => !frameworkProps.contains n) := by
  unfold customProps
  apply List.Perm.eq_of_pairwise (le := fun a b => a ≤ b)
  · intro a b _ _ h₁ h₂; exact Props.C19.key_le_antisymm h₁ h₂
  · exact (sorted_sortNames _).sublist List.filter_sublist
  · exact (sorted_sortNames _).sublist List.filter_sublist
  · -- same elements: the framework names are filtered out on both sides
    have p1 : (sortNames (names ++ frameworkProps)).Perm (names ++ frameworkProps) := List.mergeSort_perm _ _
    have p2 : (sortNames names).Perm names := List.mergeSort_perm _ _
    refine (p1.filter _).trans (List.Perm.trans ?_ (p2.filter _).symm)
    rw [List.filter_append]
    have e2 : frameworkProps.filter (fun n => !frameworkProps.contains n) = [] := by
      rw [List.filter_eq_nil_iff]; intro n hn; simp [hn]
    rw [e2, List.append_nil]

/-- no user property at all ⇒ no custom property ⇒ the view is empty -/
theorem customProps_framework_only : customProps frameworkProps = [] := by
  have := customProps_eq [] (by simp)
  simpa [sortNames] using this

/-- **C20 main theorem**: for every file content, every requested type and every
set of user-defined properties (distinct, not shadowing framework names) the
model's view is the property's statement: one column per user property in
sorted order; when there is a column and a register of the type, one row per such
register in file order, each cell the register's property value (missing as
null); otherwise empty. -/
theorem main (regs : List Reg) (isInst : Nat → Bool) (props : List Prop_)
    (hd : ∀ p ∈ props, ¬ p.name ∈ frameworkProps) :
    holds regs isInst props (observe regs isInst props) = true := by
  have hc := customProps_eq (props.map (·.name)) (by
    intro n hn; rw [List.mem_map] at hn; obtain ⟨p, hp, rfl⟩ := hn; exact hd p hp)
  simp only [holds, beq_iff_eq, observe, expected, asDf, hc]
  generalize (sortNames (props.map (·.name))).filter (fun n => !frameworkProps.contains n) = cols
  generalize regs.filter (fun r => isInst r.cls) = rs
  cases rs with
  | nil => simp
  | cons r rs =>
    cases cols with
    | nil => simp
    | cons c cols => simp [List.map_map, Function.comp_def]

/-- editing the frame cannot change the registers: the view is computed from the
registers' values (`asDf` returns a new table; registers are not part of it) —
on the implementation this is observed (`dataUnchangedAfterEdit`). -/
theorem view_is_a_copy (regs : List Reg) (isInst : Nat → Bool) (props : List Prop_) :
    (observe regs isInst props).dataUnchangedAfterEdit = true := rfl

end Props.C20
