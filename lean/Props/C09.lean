import Cfi.Line
import Spec.C09
import Proofs.LayoutBin
import Proofs.LitLaw
import Proofs.Splice
/-! C09 — property theorems (integer bijection; the float and line-level
theorems are added as they are completed). -/
namespace Props.C09
open Cfi Cfi.Bin Cfi.Text

theorem length_leBytes (w n : Nat) : (leBytes w n).length = w := by
  induction w generalizing n with
  | zero => rfl
  | succ w ih => simp [leBytes, ih]

/-- `ofLeBytes` inverts `leBytes` on the low `w` bytes -/
theorem ofLeBytes_leBytes (w n : Nat) : ofLeBytes (leBytes w n) = n % 256 ^ w := by
  induction w generalizing n with
  | zero => simp [leBytes, ofLeBytes, Nat.mod_one]
  | succ w ih =>
    simp only [leBytes, ofLeBytes, ih]
    have h1 : (UInt8.ofNat (n % 256)).toNat = n % 256 := by
      simp [UInt8.toNat_ofNat']
    rw [h1, Nat.pow_succ, Nat.mul_comm (256 ^ w) 256, Nat.mod_mul]

theorem ofLeBytes_lt (bs : List UInt8) : ofLeBytes bs < 256 ^ bs.length := by
  induction bs with
  | nil => simp [ofLeBytes]
  | cons b bs ih =>
    simp only [ofLeBytes, List.length_cons, Nat.pow_succ]
    have := b.toNat_lt
    omega

/-- `leBytes` inverts `ofLeBytes` on byte strings of length `w` -/
theorem leBytes_ofLeBytes (bs : List UInt8) : leBytes bs.length (ofLeBytes bs) = bs := by
  induction bs with
  | nil => rfl
  | cons b bs ih =>
    simp only [List.length_cons, leBytes, ofLeBytes]
    have hb := b.toNat_lt
    have h1 : (b.toNat + 256 * ofLeBytes bs) % 256 = b.toNat := by omega
    have h2 : (b.toNat + 256 * ofLeBytes bs) / 256 = ofLeBytes bs := by omega
    rw [h1, h2, ih]
    simp

theorem pow256 (w : Nat) : 256 ^ w = 2 ^ (8 * w) := by
  rw [Nat.pow_mul]

theorem two_pow_split (w : Nat) (hw : 0 < w) : 2 ^ (8 * w) = 2 * 2 ^ (8 * w - 1) := by
  have : 8 * w = (8 * w - 1) + 1 := by omega
  conv => lhs; rw [this, Nat.pow_succ]
  omega

/-- **Every in-range integer survives write → read exactly** (any width `w ≥ 1`;
the code uses 2, 4 and 8): the general theorem covers all 65 536 two-byte
values, all 2^32 and all 2^64, not a sample. -/
theorem decode_encode (w : Nat) (n : Int) (hw : 0 < w)
    (hlo : -(2 ^ (8 * w - 1) : Int) ≤ n) (hhi : n < 2 ^ (8 * w - 1)) :
    (encodeInt w n).bind (decodeInt w) = some n := by
  have hH : ((2 ^ (8 * w - 1) : Nat) : Int) = (2 : Int) ^ (8 * w - 1) := by norm_cast
  have hT : ((2 ^ (8 * w) : Nat) : Int) = (2 : Int) ^ (8 * w) := by norm_cast
  have hsplit := two_pow_split w hw
  have hsplitI : (2 : Int) ^ (8 * w) = 2 * (2 : Int) ^ (8 * w - 1) := by
    rw [← hT, ← hH, hsplit]; norm_cast
  generalize hHn : (2 ^ (8 * w - 1) : Nat) = H at *
  generalize hHi : (2 : Int) ^ (8 * w - 1) = HI at *
  have hcond : (decide (-HI ≤ n) && decide (n < HI)) = true := by simp [hlo, hhi]
  simp only [encodeInt, hHi, hcond, if_true, Option.bind_some, decodeInt, length_leBytes,
    Nat.lt_irrefl, if_false]
  have htake : (leBytes w (if n ≥ 0 then n.toNat else (n + 2 ^ (8 * w)).toNat)).take w =
      leBytes w (if n ≥ 0 then n.toNat else (n + 2 ^ (8 * w)).toNat) := by
    apply List.take_of_length_le; rw [length_leBytes]; exact Nat.le_refl _
  rw [htake, ofLeBytes_leBytes, pow256]
  by_cases hn : n ≥ 0
  · simp only [hn, if_true]
    have h1 : n.toNat < 2 ^ (8 * w) := by omega
    rw [Nat.mod_eq_of_lt h1]
    have h2 : n.toNat < H := by omega
    simp [hHn, h2]
    omega
  · simp only [hn, if_false]
    have h0 : (n + 2 ^ (8 * w)).toNat = (n + 2 * HI).toNat := by rw [hsplitI]
    have h1 : (n + 2 * HI).toNat < 2 ^ (8 * w) := by omega
    rw [h0, Nat.mod_eq_of_lt h1]
    have h2 : ¬ (n + 2 * HI).toNat < H := by omega
    simp [hHn, h2]
    omega

/-- **Every byte pattern survives read → write unchanged** (all 65 536 two-byte
patterns, and every 4- and 8-byte pattern) -/
theorem encode_decode (bs : List UInt8) (hw : 0 < bs.length) :
    (decodeInt bs.length bs).bind (encodeInt bs.length) = some bs := by
  have hH : ((2 ^ (8 * bs.length - 1) : Nat) : Int) = (2 : Int) ^ (8 * bs.length - 1) := by norm_cast
  have hT : ((2 ^ (8 * bs.length) : Nat) : Int) = (2 : Int) ^ (8 * bs.length) := by norm_cast
  have hsplit := two_pow_split bs.length hw
  have hsplitI : (2 : Int) ^ (8 * bs.length) = 2 * (2 : Int) ^ (8 * bs.length - 1) := by
    rw [← hT, ← hH, hsplit]; norm_cast
  have hlt := ofLeBytes_lt bs
  rw [pow256] at hlt
  simp only [decodeInt, Nat.lt_irrefl, if_false, List.take_length, Option.bind_some]
  generalize hu : ofLeBytes bs = u at *
  generalize hHn : (2 ^ (8 * bs.length - 1) : Nat) = H at *
  generalize hHi : (2 : Int) ^ (8 * bs.length - 1) = HI at *
  by_cases hs : u < H
  · simp only [hs, if_true, encodeInt, hHi]
    have hcond : (decide (-HI ≤ (u : Int)) && decide ((u : Int) < HI)) = true := by
      simp; omega
    simp only [hcond, if_true]
    have : (u : Int) ≥ 0 := by omega
    simp only [this, if_true, Int.toNat_natCast]
    rw [← hu, leBytes_ofLeBytes]
  · simp only [hs, if_false, encodeInt, hHi]
    have hcond : (decide (-HI ≤ (u : Int) - 2 ^ (8 * bs.length)) && decide ((u : Int) - 2 ^ (8 * bs.length) < HI)) = true := by
      simp; omega
    simp only [hcond, if_true]
    have : ¬ ((u : Int) - 2 ^ (8 * bs.length) ≥ 0) := by omega
    simp only [this, if_false]
    have e : ((u : Int) - 2 ^ (8 * bs.length) + 2 ^ (8 * bs.length)).toNat = u := by
      simp
    rw [e, ← hu, leBytes_ofLeBytes]

/-- the width table read from the code: 2 ↦ 16 bits, 4 ↦ 32, 8 ↦ 64, for
integers and floats (breaks the build if `TYPES` changes) -/
theorem widths : intWidthBits 2 = 16 ∧ intWidthBits 4 = 32 ∧ intWidthBits 8 = 64 ∧
    floatWidthBits 2 = 16 ∧ floatWidthBits 4 = 32 ∧ floatWidthBits 8 = 64 := by decide

/-- missing numbers are stored as zero: `w` zero bytes -/
theorem missing_int_is_zero (f : Field) (hk : f.kind = .int) :
    renderBin f .none = .ok (leBytes (intWidthBits f.size / 8) 0) := by
  simp [renderBin, hk, Val.isNull]

/-- missing text is stored as blanks -/
theorem missing_text_is_blank (f : Field) (hk : f.kind = .lit) :
    renderBin f .none = .ok (List.replicate f.size 32) := by
  simp [renderBin, hk, Val.isNull]

/-- non-vacuity -/
example : (encodeInt 2 (-2)).bind (decodeInt 2) = some (-2) ∧ encodeInt 2 (-2) = some [254, 255] ∧
    encodeInt 2 32768 = none ∧ decodeInt 2 [0x20, 0x20] = some 8224 := by decide
/-! ### whole binary lines -/

/-- the per-field binary law: the encoding is exactly `size` bytes wide and decodes
to the canonical form -/
def BinLaw (f : Field) (v : Val) : Prop :=
  ∃ b, rendersToBin f v b ∧ (parseBin f.kind f.size b).getD .none = Spec.C09.canon f v

/-- **Integers in range** obey the binary law (two's complement little endian,
widths 2 / 4 / 8). -/
theorem binLaw_int (f : Field) (n : Int) (hk : f.kind = .int) (hgeo : f.stop = f.size + f.start)
    (hsz : f.size = 2 ∨ f.size = 4 ∨ f.size = 8)
    (hlo : -(2 ^ (8 * f.size - 1) : Int) ≤ n) (hhi : n < 2 ^ (8 * f.size - 1)) : BinLaw f (.int n) := by
  have hw : intWidthBits f.size / 8 = f.size := by
    rcases hsz with h | h | h <;> rw [h] <;> decide
  have hpos : 0 < f.size := by omega
  have hde := decode_encode f.size n hpos hlo hhi
  cases he : encodeInt f.size n with
  | none => simp [he] at hde
  | some b =>
    simp only [he, Option.bind_some] at hde
    have hlenb : b.length = f.size := by
      simp only [encodeInt] at he
      split at he
      · injection he with he; rw [← he, length_leBytes]
      · exact absurd he (by simp)
    refine ⟨b, ⟨?_, hlenb, hgeo⟩, ?_⟩
    · simp [renderBin, hk, Val.isNull, hw, he, Option.elim]
    · simp [parseBin, hk, hw, hde, Spec.C09.canon, Val.isNull]

/-- a missing integer is stored as zero and reads back as zero -/
theorem binLaw_int_null (f : Field) (v : Val) (hn : v.isNull = true) (hk : f.kind = .int)
    (hgeo : f.stop = f.size + f.start) (hsz : f.size = 2 ∨ f.size = 4 ∨ f.size = 8) : BinLaw f v := by
  have hw : intWidthBits f.size / 8 = f.size := by
    rcases hsz with h | h | h <;> rw [h] <;> decide
  refine ⟨leBytes f.size 0, ⟨?_, length_leBytes _ _, hgeo⟩, ?_⟩
  · simp [renderBin, hk, hn, hw]
  · simp only [parseBin, hk, hw, Spec.C09.canon, hn, if_true]
    rcases hsz with h | h | h <;> rw [h] <;> decide

/-! ASCII text -/

theorem utf8Encode_ascii (s : List Char) (h : ∀ c ∈ s, c.toNat < 128) :
    utf8Encode s = s.map (fun c => UInt8.ofNat c.toNat) := by
  induction s with
  | nil => rfl
  | cons c cs ih =>
    have hc := h c (by simp)
    have : utf8EncodeChar c = [UInt8.ofNat c.toNat] := by simp [utf8EncodeChar, hc]
    simp only [utf8Encode, List.flatMap_cons, this, List.map_cons] at ih ⊢
    rw [ih (fun x hx => h x (by simp [hx]))]
    rfl

theorem utf8Decode_ascii (s : List Char) (h : ∀ c ∈ s, c.toNat < 128) (fuel : Nat) (hf : s.length < fuel) :
    utf8Decode fuel (s.map (fun c => UInt8.ofNat c.toNat)) = some s := by
  induction s generalizing fuel with
  | nil => cases fuel with
    | zero => omega
    | succ f => rfl
  | cons c cs ih =>
    cases fuel with
    | zero => omega
    | succ f =>
      have hc := h c (by simp)
      have hb : (UInt8.ofNat c.toNat) < 0x80 := by
        rw [UInt8.lt_iff_toNat_lt]
        simp only [UInt8.toNat_ofNat']
        have : c.toNat % 256 = c.toNat := Nat.mod_eq_of_lt (by omega)
        rw [this]; exact hc
      have hb2 : (UInt8.ofNat c.toNat).toNat = c.toNat := by
        simp only [UInt8.toNat_ofNat']
        exact Nat.mod_eq_of_lt (by omega)
      simp only [List.map_cons, utf8Decode, hb, if_true, hb2,
        ih (fun x hx => h x (by simp [hx])) f (by simpa using hf), Option.map_some]
      rw [Char.ofNat_toNat]

/-- **ASCII literals** obey the binary law: stored left-justified in `size` bytes,
read back blank-trimmed -/
theorem binLaw_lit (f : Field) (s : List Char) (hk : f.kind = .lit) (hgeo : f.stop = f.size + f.start)
    (hascii : ∀ c ∈ s, c.toNat < 128) (hfit : s.length ≤ f.size) : BinLaw f (.str s) := by
  have hpad : ∀ c ∈ ljust s f.size ' ', c.toNat < 128 := by
    intro c hc
    simp only [ljust, List.mem_append, List.mem_replicate] at hc
    rcases hc with hc | hc
    · exact hascii c hc
    · rw [hc.2]; decide
  have henc := utf8Encode_ascii _ hpad
  refine ⟨utf8Encode (ljust s f.size ' '), ⟨?_, ?_, hgeo⟩, ?_⟩
  · simp [renderBin, hk, Val.isNull]
  · rw [henc, List.length_map, length_ljust]; omega
  · simp only [parseBin, hk, decodeUtf8, henc]
    rw [utf8Decode_ascii _ hpad _ (by simp)]
    simp [Spec.C09.canon, hk, Val.isNull, strip_ljust]

/-- a missing literal is stored as blanks and reads back as the empty string -/
theorem binLaw_lit_null (f : Field) (v : Val) (hn : v.isNull = true) (hk : f.kind = .lit)
    (hgeo : f.stop = f.size + f.start) : BinLaw f v := by
  have hb : List.replicate f.size (32 : UInt8) = (List.replicate f.size ' ').map (fun c => UInt8.ofNat c.toNat) := by
    simp [List.map_replicate]
  refine ⟨List.replicate f.size 32, ⟨?_, by simp, hgeo⟩, ?_⟩
  · simp [renderBin, hk, hn]
  · simp only [parseBin, hk, decodeUtf8, hb]
    rw [utf8Decode_ascii _ (by intro c hc; simp only [List.mem_replicate] at hc; rw [hc.2]; decide) _ (by simp)]
    simp [Spec.C09.canon, hk, hn, strip_replicate_blank]

/-- the facts about a written binary line, for every disjoint layout under the
per-field law: length, blank gaps, spans, read-back -/
theorem line_facts (fs : List Field) (vs : List Val) (hlen : fs.length = vs.length)
    (hdis : Cfi.Disjoint fs) (hlaw : ∀ fv ∈ fs.zip vs, BinLaw fv.1 fv.2) :
    ∃ out rs, writeBinLine fs vs = .ok out ∧ out.length = Spec.C02.maxEnd fs ∧
      GapInvBin fs out ∧
      All2 (fun (fv : Field × Val) b => rendersToBin fv.1 fv.2 b) (fs.zip vs) rs ∧
      All2 (fun (f : Field) b => slice out f.start f.stop = b) fs rs ∧
      readBinLine fs out = (fs.zip vs).map (fun fv => Spec.C09.canon fv.1 fv.2) := by
  have hrs : ∃ rs, All2 (fun (fv : Field × Val) b => rendersToBin fv.1 fv.2 b ∧
      (parseBin fv.1.kind fv.1.size b).getD .none = Spec.C09.canon fv.1 fv.2) (fs.zip vs) rs := by
    generalize fs.zip vs = zs at hlaw
    induction zs with
    | nil => exact ⟨[], .nil⟩
    | cons z zs ih =>
      obtain ⟨b, h1, h2⟩ := hlaw z List.mem_cons_self
      obtain ⟨rs, hrs⟩ := ih (fun fv hfv => hlaw fv (List.mem_cons_of_mem z hfv))
      exact ⟨b :: rs, .cons ⟨h1, h2⟩ hrs⟩
  obtain ⟨rs, hrs⟩ := hrs
  have hr : All2 (fun (fv : Field × Val) b => rendersToBin fv.1 fv.2 b) (fs.zip vs) rs := by
    generalize fs.zip vs = zs at hrs
    induction hrs with
    | nil => exact .nil
    | cons h _ ih => exact .cons h.1 ih
  -- the write succeeds
  have hok : ∀ (fs : List Field) (vs : List Val) (rs : List (List UInt8)),
      All2 (fun (fv : Field × Val) b => rendersToBin fv.1 fv.2 b) (fs.zip vs) rs → fs.length = vs.length →
      ∀ line, ∃ out, writeFieldsBin fs vs line = .ok out := by
    intro fs
    induction fs with
    | nil => intro vs _ _ _ line; exact ⟨line, by cases vs <;> rfl⟩
    | cons f fs ih =>
      intro vs rs hr hl line
      cases vs with
      | nil => simp at hl
      | cons v vs =>
        simp only [List.zip_cons_cons] at hr
        cases hr with
        | @cons _ b _ rs' h1 hrest =>
          obtain ⟨hrend, _, _⟩ := h1
          dsimp only at hrend
          obtain ⟨out, hout⟩ := ih vs rs' hrest (by simpa using hl) (splice line f.start f.stop b 32)
          exact ⟨out, by simp only [writeFieldsBin, Field.writeBin, hrend, Except.map, bind, Except.bind, hout]⟩
  obtain ⟨out, hout⟩ := hok fs vs rs hr hlen []
  have hspans := writeFieldsBin_spans fs vs rs hlen hr hdis [] out hout
  obtain ⟨hgap, hl⟩ := writeFieldsBin_shape fs vs rs hlen hr [] [] out hout (fun i hi => by simp at hi)
  refine ⟨out, rs, by simp [writeBinLine, hout], by rw [hl]; rfl, by simpa using hgap, hr, hspans, ?_⟩
  simp only [readBinLine]
  clear hgap hl hout hr hdis hlaw hok
  induction fs generalizing vs rs with
  | nil => rfl
  | cons f fs ih =>
    cases vs with
    | nil => simp at hlen
    | cons v vs =>
      simp only [List.zip_cons_cons] at hrs
      cases hrs with
      | cons ha hrest =>
        cases hspans with
        | cons hb hrest2 =>
          simp only [List.map_cons, List.zip_cons_cons, List.cons.injEq]
          refine ⟨?_, ih vs (by simpa using hlen) _ hrest hrest2⟩
          simp only [Field.readBin, hb, ha.2]

/-- **Binary line theorem**: for every layout of pairwise disjoint fields (any
order, gaps allowed) and values obeying the per-field binary law, the written
line is exactly as long as the furthest field end, has blank (0x20) gaps, holds
every field's encoding in its own span, and reads back to the canonical values
— the whole of `Spec.C09.holds`. -/
theorem line_main (fs : List Field) (vs : List Val) (hlen : fs.length = vs.length)
    (hdis : Cfi.Disjoint fs) (hlaw : ∀ fv ∈ fs.zip vs, BinLaw fv.1 fv.2) :
    ∃ o, Spec.C09.cycle fs vs = some o ∧ Spec.C09.holds fs vs o = true := by
  obtain ⟨out, rs, hw, hl, hgap, hr, hspans, hread⟩ := line_facts fs vs hlen hdis hlaw
  refine ⟨⟨out, readBinLine fs out⟩, by simp [Spec.C09.cycle, hw], ?_⟩
  simp only [Spec.C09.holds, Bool.and_eq_true]
  refine ⟨⟨?_, ?_⟩, by simp [hread]⟩
  · simp only [Spec.C02.holdsLineBin, Bool.and_eq_true, beq_iff_eq, List.all_eq_true, List.mem_range,
      Bool.or_eq_true]
    refine ⟨hl, ?_⟩
    intro i hi
    rcases hgap i (by omega) with hc | hb
    · left; exact hc
    · right
      rw [List.getD_eq_getElem?_getD, hb]; rfl
  · simp only [List.all_eq_true]
    intro fv hfv
    have key : ∀ (fs : List Field) (vs : List Val) (rs : List (List UInt8)),
        All2 (fun (fv : Field × Val) b => rendersToBin fv.1 fv.2 b) (fs.zip vs) rs →
        All2 (fun (f : Field) b => slice out f.start f.stop = b) fs rs → fs.length = vs.length →
        ∀ fv ∈ fs.zip vs, (match renderBin fv.1 fv.2 with
          | .ok b => slice out fv.1.start fv.1.stop == b
          | .error _ => false) = true := by
      intro fs
      induction fs with
      | nil => intro _ _ _ _ _ fv h; simp at h
      | cons f fs ih =>
        intro vs rs h1 h2 hl fv hfv
        cases vs with
        | nil => simp at hl
        | cons v vs =>
          simp only [List.zip_cons_cons] at h1 hfv
          cases h1 with
          | cons ha hrest =>
            cases h2 with
            | cons hb hrest2 =>
              rcases List.mem_cons.mp hfv with rfl | hfv
              · simp [ha.1, hb]
              · exact ih vs _ hrest hrest2 (by simpa using hl) fv hfv
    exact key fs vs rs hr hspans hlen fv hfv

/-- non-vacuity: a reversed layout with a gap, a negative and a missing integer -/
example :
    let fs := [Field.mk' .int 4 6, Field.mk' .int 2 0]
    Spec.C09.cycle fs [.int (-2), .none] =
      some ⟨[0, 0, 32, 32, 32, 32, 254, 255, 255, 255], [.int (-2), .int 0]⟩ := by decide

end Props.C09
