import Cfi.Line
import Spec.C09
/-! C09 — property theorems (integer bijection; the float and line-level
theorems are added as they are completed). -/
namespace Props.C09
open Cfi Cfi.Bin

theorem length_leBytes (w n : Nat) : (leBytes w n).length = w := by
  induction w generalizing n with
  | zero => rfl
  | succ w ih => simp [leBytes, ih]

/-- `ofLeBytes` inverts `leBytes` on the low `w` bytes -/
theorem ofLeBytes_leBytes (w n : Nat) : ofLeBytes (leBytes w n) = n % 256 ^ w := by
  induction w generalizing n with
  | zero => simp [leBytes, ofLeBytes, Nat.mod_one]
  | succ w ih =>
    simp only [leBytes, ofLeBytes, ih]
    have h1 : (UInt8.ofNat (n % 256)).toNat = n % 256 := by
      simp [UInt8.toNat_ofNat']
    rw [h1, Nat.pow_succ, Nat.mul_comm (256 ^ w) 256, Nat.mod_mul]

theorem ofLeBytes_lt (bs : List UInt8) : ofLeBytes bs < 256 ^ bs.length := by
  induction bs with
  | nil => simp [ofLeBytes]
  | cons b bs ih =>
    simp only [ofLeBytes, List.length_cons, Nat.pow_succ]
    have := b.toNat_lt
    omega

/-- `leBytes` inverts `ofLeBytes` on byte strings of length `w` -/
theorem leBytes_ofLeBytes (bs : List UInt8) : leBytes bs.length (ofLeBytes bs) = bs := by
  induction bs with
  | nil => rfl
  | cons b bs ih =>
    simp only [List.length_cons, leBytes, ofLeBytes]
    have hb := b.toNat_lt
    have h1 : (b.toNat + 256 * ofLeBytes bs) % 256 = b.toNat := by omega
    have h2 : (b.toNat + 256 * ofLeBytes bs) / 256 = ofLeBytes bs := by omega
    rw [h1, h2, ih]
    simp

end Props.C09
