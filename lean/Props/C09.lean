import Cfi.Line
import Spec.C09
/-! C09 — property theorems (integer bijection; the float and line-level
theorems are added as they are completed). -/
namespace Props.C09
open Cfi Cfi.Bin

theorem length_leBytes (w n : Nat) : (leBytes w n).length = w := by
  induction w generalizing n with
  | zero => rfl
  | succ w ih => simp [leBytes, ih]

/-- `ofLeBytes` inverts `leBytes` on the low `w` bytes -/
theorem ofLeBytes_leBytes (w n : Nat) : ofLeBytes (leBytes w n) = n % 256 ^ w := by
  induction w generalizing n with
  | zero => simp [leBytes, ofLeBytes, Nat.mod_one]
  | succ w ih =>
    simp only [leBytes, ofLeBytes, ih]
    have h1 : (UInt8.ofNat (n % 256)).toNat = n % 256 := by
      simp [UInt8.toNat_ofNat']
    rw [h1, Nat.pow_succ, Nat.mul_comm (256 ^ w) 256, Nat.mod_mul]

theorem ofLeBytes_lt (bs : List UInt8) : ofLeBytes bs < 256 ^ bs.length := by
  induction bs with
  | nil => simp [ofLeBytes]
  | cons b bs ih =>
    simp only [ofLeBytes, List.length_cons, Nat.pow_succ]
    have := b.toNat_lt
    omega

/-- `leBytes` inverts `ofLeBytes` on byte strings of length `w` -/
theorem leBytes_ofLeBytes (bs : List UInt8) : leBytes bs.length (ofLeBytes bs) = bs := by
  induction bs with
  | nil => rfl
  | cons b bs ih =>
    simp only [List.length_cons, leBytes, ofLeBytes]
    have hb := b.toNat_lt
    have h1 : (b.toNat + 256 * ofLeBytes bs) % 256 = b.toNat := by omega
    have h2 : (b.toNat + 256 * ofLeBytes bs) / 256 = ofLeBytes bs := by omega
    rw [h1, h2, ih]
    simp

theorem pow256 (w : Nat) : 256 ^ w = 2 ^ (8 * w) := by
  rw [Nat.pow_mul]

theorem two_pow_split (w : Nat) (hw : 0 < w) : 2 ^ (8 * w) = 2 * 2 ^ (8 * w - 1) := by
  have : 8 * w = (8 * w - 1) + 1 := by omega
  conv => lhs; rw [this, Nat.pow_succ]
  omega

/-- **Every in-range integer survives write → read exactly** (any width `w ≥ 1`;
the code uses 2, 4 and 8): the general theorem covers all 65 536 two-byte
values, all 2^32 and all 2^64, not a sample. -/
theorem decode_encode (w : Nat) (n : Int) (hw : 0 < w)
    (hlo : -(2 ^ (8 * w - 1) : Int) ≤ n) (hhi : n < 2 ^ (8 * w - 1)) :
    (encodeInt w n).bind (decodeInt w) = some n := by
  have hH : ((2 ^ (8 * w - 1) : Nat) : Int) = (2 : Int) ^ (8 * w - 1) := by norm_cast
  have hT : ((2 ^ (8 * w) : Nat) : Int) = (2 : Int) ^ (8 * w) := by norm_cast
  have hsplit := two_pow_split w hw
  have hsplitI : (2 : Int) ^ (8 * w) = 2 * (2 : Int) ^ (8 * w - 1) := by
    rw [← hT, ← hH, hsplit]; norm_cast
  generalize hHn : (2 ^ (8 * w - 1) : Nat) = H at *
  generalize hHi : (2 : Int) ^ (8 * w - 1) = HI at *
  have hcond : (decide (-HI ≤ n) && decide (n < HI)) = true := by simp [hlo, hhi]
  simp only [encodeInt, hHi, hcond, if_true, Option.bind_some, decodeInt, length_leBytes,
    Nat.lt_irrefl, if_false]
  have htake : (leBytes w (if n ≥ 0 then n.toNat else (n + 2 ^ (8 * w)).toNat)).take w =
      leBytes w (if n ≥ 0 then n.toNat else (n + 2 ^ (8 * w)).toNat) := by
    apply List.take_of_length_le; rw [length_leBytes]; exact Nat.le_refl _
  rw [htake, ofLeBytes_leBytes, pow256]
  by_cases hn : n ≥ 0
  · simp only [hn, if_true]
    have h1 : n.toNat < 2 ^ (8 * w) := by omega
    rw [Nat.mod_eq_of_lt h1]
    have h2 : n.toNat < H := by omega
    simp [hHn, h2]
    omega
  · simp only [hn, if_false]
    have h0 : (n + 2 ^ (8 * w)).toNat = (n + 2 * HI).toNat := by rw [hsplitI]
    have h1 : (n + 2 * HI).toNat < 2 ^ (8 * w) := by omega
    rw [h0, Nat.mod_eq_of_lt h1]
    have h2 : ¬ (n + 2 * HI).toNat < H := by omega
    simp [hHn, h2]
    omega

/-- **Every byte pattern survives read → write unchanged** (all 65 536 two-byte
patterns, and every 4- and 8-byte pattern) -/
theorem encode_decode (bs : List UInt8) (hw : 0 < bs.length) :
    (decodeInt bs.length bs).bind (encodeInt bs.length) = some bs := by
  have hH : ((2 ^ (8 * bs.length - 1) : Nat) : Int) = (2 : Int) ^ (8 * bs.length - 1) := by norm_cast
  have hT : ((2 ^ (8 * bs.length) : Nat) : Int) = (2 : Int) ^ (8 * bs.length) := by norm_cast
  have hsplit := two_pow_split bs.length hw
  have hsplitI : (2 : Int) ^ (8 * bs.length) = 2 * (2 : Int) ^ (8 * bs.length - 1) := by
    rw [← hT, ← hH, hsplit]; norm_cast
  have hlt := ofLeBytes_lt bs
  rw [pow256] at hlt
  simp only [decodeInt, Nat.lt_irrefl, if_false, List.take_length, Option.bind_some]
  generalize hu : ofLeBytes bs = u at *
  generalize hHn : (2 ^ (8 * bs.length - 1) : Nat) = H at *
  generalize hHi : (2 : Int) ^ (8 * bs.length - 1) = HI at *
  by_cases hs : u < H
  · simp only [hs, if_true, encodeInt, hHi]
    have hcond : (decide (-HI ≤ (u : Int)) && decide ((u : Int) < HI)) = true := by
      simp; omega
    simp only [hcond, if_true]
    have : (u : Int) ≥ 0 := by omega
    simp only [this, if_true, Int.toNat_natCast]
    rw [← hu, leBytes_ofLeBytes]
  · simp only [hs, if_false, encodeInt, hHi]
    have hcond : (decide (-HI ≤ (u : Int) - 2 ^ (8 * bs.length)) && decide ((u : Int) - 2 ^ (8 * bs.length) < HI)) = true := by
      simp; omega
    simp only [hcond, if_true]
    have : ¬ ((u : Int) - 2 ^ (8 * bs.length) ≥ 0) := by omega
    simp only [this, if_false]
    have e : ((u : Int) - 2 ^ (8 * bs.length) + 2 ^ (8 * bs.length)).toNat = u := by
      simp
    rw [e, ← hu, leBytes_ofLeBytes]

/-- the width table read from the code: 2 ↦ 16 bits, 4 ↦ 32, 8 ↦ 64, for
integers and floats (breaks the build if `TYPES` changes) -/
theorem widths : intWidthBits 2 = 16 ∧ intWidthBits 4 = 32 ∧ intWidthBits 8 = 64 ∧
    floatWidthBits 2 = 16 ∧ floatWidthBits 4 = 32 ∧ floatWidthBits 8 = 64 := by decide

/-- missing numbers are stored as zero: `w` zero bytes -/
theorem missing_int_is_zero (f : Field) (hk : f.kind = .int) :
    renderBin f .none = .ok (leBytes (intWidthBits f.size / 8) 0) := by
  simp [renderBin, hk, Val.isNull]

/-- missing text is stored as blanks -/
theorem missing_text_is_blank (f : Field) (hk : f.kind = .lit) :
    renderBin f .none = .ok (List.replicate f.size 32) := by
  simp [renderBin, hk, Val.isNull]

/-- non-vacuity -/
example : (encodeInt 2 (-2)).bind (decodeInt 2) = some (-2) ∧ encodeInt 2 (-2) = some [254, 255] ∧
    encodeInt 2 32768 = none ∧ decodeInt 2 [0x20, 0x20] = some 8224 := by decide

end Props.C09
