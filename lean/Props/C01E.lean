import Props.C01F
import Proofs.FloatEZero
import Proofs.FloatESub
/-!
C01 for layouts with floats in either notation: the render / parse law of E-notation float
fields (`law_flt_E`), the read-back and stability of whole lines (`main_FE`) and the whole of
`Spec.C01.holds`, float clauses included (`main_FE_full`).
-/
namespace Props.C01
open Cfi Cfi.Text Spec.C01 Proofs.FloatE Proofs.FloatELaw

theorem sep_factsE {c : Char} (hsep : sepOk [c] = true) : c ≠ '+' ∧ c ≠ 'e' ∧ c ≠ 'E' := by
  simp only [sepOk, Bool.not_eq_true', Bool.or_eq_false_iff] at hsep
  obtain ⟨⟨⟨⟨⟨⟨⟨⟨⟨⟨⟨⟨⟨⟨_, _⟩, h3⟩, h4⟩, h5⟩, _⟩, _⟩, _⟩, _⟩, _⟩, _⟩, _⟩, _⟩, _⟩, _⟩ := hsep
  refine ⟨?_, ?_, ?_⟩
  · intro e; subst e; simp at h3
  · intro e; subst e; simp at h4
  · intro e; subst e; simp at h5

/-- what `fits` says about an E-notation field and a non-zero finite value -/
theorem round_of_fits_E (f : Field) (dec : Nat) (fmt c : Char) (hk : f.kind = .flt dec fmt [c])
    (hfmt : fmt = 'E' ∨ fmt = 'e') (neg : Bool) (m : Nat) (e : Int) (hm0 : m ≠ 0)
    (hfits : Spec.C02.fits f (.dbl (.fin neg m e)) = true) :
    ∃ r, Dbl.pyRound (.fin neg m e) ((dec : Int) - Dbl.floorLog10 m e) = some r ∧
      (Dbl.fmtE r dec (fmt == 'E')).length ≤ f.size := by
  simp only [Spec.C02.fits, Bool.and_eq_true, beq_iff_eq] at hfits
  obtain ⟨_, hren⟩ := hfits
  have hz : Dbl.isZero (.fin neg m e) = false := by
    cases m with
    | zero => exact absurd rfl hm0
    | succ n => rfl
  unfold renderFull at hren
  rw [hk] at hren
  cases hp : Dbl.pyRound (.fin neg m e) ((dec : Int) - Dbl.floorLog10 m e) with
  | none =>
    rcases hfmt with rfl | rfl <;>
      simp [Val.isNull, Dbl.isNaN, hz, hp, Except.map, bind, Except.bind] at hren
  | some r =>
    refine ⟨r, rfl, ?_⟩
    rcases hfmt with rfl | rfl <;>
      simp [Val.isNull, Dbl.isNaN, hz, hp, Except.map, bind, Except.bind, pure, Except.pure,
        Proofs.FloatLaw.replace_single, Proofs.FloatLaw.subst1_length] at hren <;>
      simpa using hren

/-- **Floats in E notation, full law.** For every finite non-zero double of magnitude
`10^(decimals-323)` or more (`Proofs.FloatE.wfB`: every normal double up to the largest finite
one, and the subnormal ones whose last emitted digit has place value `10^-323` or more — the
deeper ones are `law_flt_E_fine`) and every E-notation float field (any width, up to
twelve declared decimals, any admitted separator) in which the value fits: the text written
is `size` wide, reads back as the double nearest to the decimal emitted — which is
`round(x, decimals − ⌊log10 |x|⌋)` — and writing that double gives the same text
(`Proofs.FloatE.sci_core`: the rounded value prints, at its own decimal exponent, the digits
it was rounded to, even when rounding moved it across a power of ten). -/
theorem law_flt_E (f : Field) (dec : Nat) (fmt c : Char) (hk : f.kind = .flt dec fmt [c])
    (hfmt : fmt = 'E' ∨ fmt = 'e') (hsep : sepOk [c] = true)
    (neg : Bool) (m : Nat) (e : Int) (hwf : wfB m e dec) (hdec : dec ≤ 12)
    (hfits : Spec.C02.fits f (.dbl (.fin neg m e)) = true) :
    RenderLaw f (.dbl (.fin neg m e)) := by
  obtain ⟨hc1, hc2, hc3⟩ := sep_facts hsep
  obtain ⟨hc4, hc5, hc6⟩ := sep_factsE hsep
  have hfits0 := hfits
  simp only [Spec.C02.fits, Bool.and_eq_true, beq_iff_eq] at hfits
  obtain ⟨⟨hgeo, _⟩, hren⟩ := hfits
  have hm0 : m ≠ 0 := hwf.1
  obtain ⟨r, hr, hfit⟩ := round_of_fits_E f dec fmt c hk hfmt neg m e hm0 hfits0
  obtain ⟨t, h1, h2, h3, h4, _⟩ := fltE_core f dec fmt c hk hfmt hc1 hc2 hc3 hc4 hc5 hc6 neg m e hwf hdec r hr hfit
  have hpf : Dbl.pyFloat (replace t [c] ['.']) = some r := by
    rw [hk] at h3
    simp only [parseText] at h3
    cases hp : Dbl.pyFloat (replace t [c] ['.']) with
    | none => rw [hp] at h3; simp at h3
    | some d => rw [hp] at h3; simp at h3; rw [h3]
  have hcan : canon f (.dbl (.fin neg m e)) t = .dbl r := by
    simp only [canon, Val.isNull, Dbl.isNaN, Bool.false_eq_true, if_false, hk, hpf]
  refine ⟨t, ⟨h1, h2, hgeo⟩, ?_, ?_⟩
  · rw [h3, hcan]; rfl
  · rw [hcan]; exact h4

/-- **Floats in E notation, deep subnormal values, full law.** For every non-zero subnormal
double `m·2^-1074` below `10^(decimals-323)` (`Proofs.FloatE.wfFine`: the last digit emitted has
place value `10^-324` or less) and every E-notation float field (any width, up to twelve declared
decimals, any admitted separator) in which the value fits: the text written is `size` wide and
reads back as the value itself — `round` with more than 323 digits returns its argument, and the
decimal grid is finer than half a subnormal step (`Proofs.FloatE.sub_fine`) — so writing what
was read gives the same text. -/
theorem law_flt_E_fine (f : Field) (dec : Nat) (fmt c : Char) (hk : f.kind = .flt dec fmt [c])
    (hfmt : fmt = 'E' ∨ fmt = 'e') (hsep : sepOk [c] = true)
    (neg : Bool) (m : Nat) (hwf : wfFine m dec) (hdec : dec ≤ 12)
    (hfits : Spec.C02.fits f (.dbl (.fin neg m (-1074))) = true) :
    RenderLaw f (.dbl (.fin neg m (-1074))) := by
  obtain ⟨hc1, hc2, hc3⟩ := sep_facts hsep
  obtain ⟨hc4, hc5, hc6⟩ := sep_factsE hsep
  have hfits0 := hfits
  simp only [Spec.C02.fits, Bool.and_eq_true, beq_iff_eq] at hfits
  obtain ⟨⟨hgeo, _⟩, hren⟩ := hfits
  have hm0 : m ≠ 0 := hwf.1
  obtain ⟨hm, hfine⟩ := fine_facts m dec hwf hdec
  obtain ⟨r, hr, hfit⟩ := round_of_fits_E f dec fmt c hk hfmt neg m (-1074) hm0 hfits0
  have hround : Dbl.pyRound (.fin neg m (-1074)) ((dec : Int) - Dbl.floorLog10 m (-1074)) = some (.fin neg m (-1074)) := by
    unfold Dbl.pyRound
    have : (dec : Int) - Dbl.floorLog10 m (-1074) > 323 := by omega
    simp only [this, if_true]
  have hrx : r = .fin neg m (-1074) := by
    rw [hround] at hr; injection hr with hr; exact hr.symm
  subst hrx
  obtain ⟨_, t, h1, h2, h3, _, _⟩ :=
    fltE_core_fine f dec fmt c hk hfmt hc1 hc2 hc3 hc4 hc5 hc6 neg m hm0 hm hdec hfine hfit
  have hpf : Dbl.pyFloat (replace t [c] ['.']) = some (.fin neg m (-1074)) := by
    rw [hk] at h3
    simp only [parseText] at h3
    cases hp : Dbl.pyFloat (replace t [c] ['.']) with
    | none => rw [hp] at h3; simp at h3
    | some d => rw [hp] at h3; simp at h3; rw [h3]
  have hcan : canon f (.dbl (.fin neg m (-1074))) t = .dbl (.fin neg m (-1074)) := by
    simp only [canon, Val.isNull, Dbl.isNaN, Bool.false_eq_true, if_false, hk, hpf]
  refine ⟨t, ⟨h1, h2, hgeo⟩, ?_, ?_⟩
  · rw [h3, hcan]; rfl
  · rw [hcan]; exact h1

/-- **Zero in an E-notation field, full law**: the text (`0.000E+00`, with fewer decimals when
the field is narrow) is `size` wide, reads back as zero of the same sign, and writing that
zero gives the same text. -/
theorem law_flt_E_zero (f : Field) (dec : Nat) (fmt c : Char) (hk : f.kind = .flt dec fmt [c])
    (hfmt : fmt = 'E' ∨ fmt = 'e') (hsep : sepOk [c] = true)
    (neg : Bool) (e : Int) (hdec : dec ≤ 12)
    (hfits : Spec.C02.fits f (.dbl (.fin neg 0 e)) = true) :
    RenderLaw f (.dbl (.fin neg 0 e)) := by
  obtain ⟨hc1, hc2, hc3⟩ := sep_facts hsep
  obtain ⟨hc4, hc5, hc6⟩ := sep_factsE hsep
  have hgeo : f.stop = f.size + f.start := by
    have := hfits
    simp only [Spec.C02.fits, Bool.and_eq_true, beq_iff_eq] at this
    exact this.1.1
  obtain ⟨t, h1, h2, h3, h4, _⟩ :=
    Proofs.FloatEZero.fltE_zero_core f dec fmt c hk hfmt hc1 hc2 hc3 hc4 hc5 hc6 neg e (by omega) hfits
  have hpf : Dbl.pyFloat (replace t [c] ['.']) = some (.fin neg 0 (-1074)) := by
    rw [hk] at h3
    simp only [parseText] at h3
    cases hp : Dbl.pyFloat (replace t [c] ['.']) with
    | none => rw [hp] at h3; simp at h3
    | some d => rw [hp] at h3; simp at h3; rw [h3]
  have hcan : canon f (.dbl (.fin neg 0 e)) t = .dbl (.fin neg 0 (-1074)) := by
    simp only [canon, Val.isNull, Dbl.isNaN, Bool.false_eq_true, if_false, hk, hpf]
  refine ⟨t, ⟨h1, h2, hgeo⟩, ?_, ?_⟩
  · rw [h3, hcan]; rfl
  · rw [hcan]; exact h4

/-- the non-missing floats of the read-back / stability theorems: in an F-notation field any
finite double; in an E-notation field zero, a double of magnitude `10^(decimals-323)` or more
(`wfB`), or a subnormal double `m·2^-1074` below that (`wfFine`) — that is EVERY finite double in
normal form (`floatFB_all`) -/
def FloatFB (f : Field) (v : Val) : Prop :=
  ∀ dec fmt sep, f.kind = .flt dec fmt sep → v.isNull = true ∨
    ((fmt = 'F' ∨ fmt = 'f') ∧ dec ≤ 323 ∧ ∃ neg m e, v = .dbl (.fin neg m e) ∧ Proofs.FloatLoop.wfs m e) ∨
    ((fmt = 'E' ∨ fmt = 'e') ∧ ∃ neg m e, v = .dbl (.fin neg m e) ∧ (wfB m e dec ∨ m = 0 ∨ (e = -1074 ∧ wfFine m dec)))

/-- every finite double in normal form (a significand below `2^52` only with the exponent
`-1074`) is admitted in an E-notation field of up to twelve decimals: the three ranges `wfB`,
zero and `wfFine` leave nothing out -/
theorem floatFB_all (m : Nat) (e : Int) (d : Nat) (hd : d ≤ 12) (hm : m < 2 ^ 53) (he1 : -1074 ≤ e) (he2 : e ≤ 971)
    (hnorm : m < 2 ^ 52 → e = -1074) :
    wfB m e d ∨ m = 0 ∨ (e = -1074 ∧ wfFine m d) := by
  by_cases hm0 : m = 0
  · exact Or.inr (Or.inl hm0)
  by_cases hb : 10 ^ d * 2 ^ 1074 ≤ Proofs.Nearest.units (-1074) m e * 10 ^ 323
  · exact Or.inl ⟨hm0, hm, he1, he2, hb⟩
  · refine Or.inr (Or.inr ?_)
    have hlt : Proofs.Nearest.units (-1074) m e * 10 ^ 323 < 10 ^ d * 2 ^ 1074 := by omega
    have hmu : m ≤ Proofs.Nearest.units (-1074) m e := by
      show m ≤ m * 2 ^ (e - (-1074)).toNat
      exact Nat.le_mul_of_pos_right _ (Proofs.Nearest.two_pow_pos _)
    have hm52 : m < 2 ^ 52 := by
      apply Classical.byContradiction
      intro hge
      have a1 : 2 ^ 52 * 10 ^ 323 ≤ Proofs.Nearest.units (-1074) m e * 10 ^ 323 :=
        Nat.mul_le_mul_right _ (by omega)
      have a2 : (10 : Nat) ^ d * 2 ^ 1074 ≤ 10 ^ 12 * 2 ^ 1074 :=
        Nat.mul_le_mul_right _ (Nat.pow_le_pow_right (by decide) hd)
      have := pow_factsF
      omega
    have he : e = -1074 := hnorm hm52
    subst he
    have hu : Proofs.Nearest.units (-1074) m (-1074) = m := by simp [Proofs.Nearest.units]
    rw [hu] at hlt
    exact ⟨rfl, hm0, hlt⟩

/-- the admitted non-missing floats of the theorems for both notations, accuracy clauses
included: as `FloatFB`, without the one decimal decade `10^(decimals-323) ≤ |x| < 10^(decimals-322)`
of E-notation fields, in which the half-unit clause is false at some values (K2) -/
def FloatFE (f : Field) (v : Val) : Prop :=
  ∀ dec fmt sep, f.kind = .flt dec fmt sep → v.isNull = true ∨
    ((fmt = 'F' ∨ fmt = 'f') ∧ dec ≤ 323 ∧ ∃ neg m e, v = .dbl (.fin neg m e) ∧ Proofs.FloatLoop.wfs m e) ∨
    ((fmt = 'E' ∨ fmt = 'e') ∧ ∃ neg m e, v = .dbl (.fin neg m e) ∧ (wfE m e dec ∨ m = 0 ∨ (e = -1074 ∧ wfFine m dec)))

theorem floatFB_of_FE {f : Field} {v : Val} (h : FloatFE f v) : FloatFB f v := by
  intro dec fmt sep hk
  rcases h dec fmt sep hk with hn | hf | ⟨hfmt, neg, m, e, hv, hw⟩
  · exact Or.inl hn
  · exact Or.inr (Or.inl hf)
  · refine Or.inr (Or.inr ⟨hfmt, neg, m, e, hv, ?_⟩)
    rcases hw with hw | hw | hw
    · exact Or.inl (wfB_of_wfE m e dec hw)
    · exact Or.inr (Or.inl hw)
    · exact Or.inr (Or.inr hw)

/-- **The full law from the decidable domain guard, floats in either notation included.** -/
theorem renderLaw_of_domain_FE (f : Field) (v : Val) (h : fieldInDomain f v = true)
    (hdate : ∀ fmts, f.kind = .date fmts → v.isNull = true → ∀ fm ∈ fmts, fm ≠ [])
    (hbig : ∀ n, v = .int n → n.natAbs < 10 ^ 4300)
    (hflt : FloatFB f v) : RenderLaw f v := by
  by_cases hF : FloatF f v
  · exact renderLaw_of_domain_F f v h hdate hbig hF
  · -- a non-missing float in E notation
    have : ∃ dec fmt sep, f.kind = .flt dec fmt sep ∧ (fmt = 'E' ∨ fmt = 'e') ∧
        ∃ neg m e, v = .dbl (.fin neg m e) ∧ (wfB m e dec ∨ m = 0 ∨ (e = -1074 ∧ wfFine m dec)) := by
      apply Classical.byContradiction
      intro hno
      apply hF
      intro dec fmt sep hk
      rcases hflt dec fmt sep hk with hn | hf | he
      · exact Or.inl hn
      · exact Or.inr hf
      · exact absurd ⟨dec, fmt, sep, hk, he⟩ hno
    obtain ⟨dec, fmt, sep, hk, hfmt, neg, m, e, rfl, hwf⟩ := this
    have hdom := h
    simp only [fieldInDomain, Bool.and_eq_true, decide_eq_true_eq, hk] at hdom
    obtain ⟨⟨hfits, _⟩, hsep, hnot⟩ := hdom
    obtain ⟨c, rfl⟩ : ∃ c, sep = [c] := by
      cases sep with
      | nil => simp [sepOk] at hsep
      | cons c t =>
        cases t with
        | nil => exact ⟨c, rfl⟩
        | cons _ _ => simp [sepOk] at hsep
    have hdec : dec ≤ 12 := by
      rcases hfmt with rfl | rfl <;> simpa using hnot
    rcases hwf with hwf | rfl | ⟨rfl, hwf⟩
    · exact law_flt_E f dec fmt c hk hfmt hsep neg m e hwf hdec hfits
    · exact law_flt_E_zero f dec fmt c hk hfmt hsep neg e hdec hfits
    · exact law_flt_E_fine f dec fmt c hk hfmt hsep neg m hwf hdec hfits

/-- **C01 for layouts with floats in either notation: read-back and text stability.** For every
layout and value list admitted by `Spec.C01.inDomain` whose non-missing floats are finite
doubles (any of them) in F-notation fields of at most 323 decimals, or finite doubles (ANY of
them, in normal form: `FloatFB`, `floatFB_all`) in E-notation fields (at most twelve decimals, by
the domain): the model's write / read / re-write cycle succeeds, the values read back are the canonical forms, and the
re-written text is identical to the written one. -/
theorem main_FE (fs : List Field) (vs : List Val) (h : inDomain fs vs = true)
    (hdate : ∀ fv ∈ fs.zip vs, ∀ fmts, fv.1.kind = .date fmts → fv.2.isNull = true → ∀ fm ∈ fmts, fm ≠ [])
    (hbig : ∀ v ∈ vs, ∀ n, v = .int n → n.natAbs < 10 ^ 4300)
    (hflt : ∀ fv ∈ fs.zip vs, FloatFB fv.1 fv.2) :
    ∃ o, cycle fs vs = some o ∧ o.rewritten = o.written ∧
      o.readBack = (fs.zip vs).map (fun fv => canon fv.1 fv.2 (slice o.written fv.1.start fv.1.stop)) := by
  obtain ⟨w, hw, hread⟩ := readBack_of_inDomain fs vs h hdate hbig
  simp only [inDomain, Bool.and_eq_true, beq_iff_eq, List.all_eq_true] at h
  obtain ⟨⟨hlen, hdis⟩, hdom⟩ := h
  have hD := Disjoint_of_bool' fs hdis
  have hlaw : ∀ fv ∈ fs.zip vs, RenderLaw fv.1 fv.2 := by
    intro fv hfv
    have hm := List.of_mem_zip hfv
    exact renderLaw_of_domain_FE fv.1 fv.2 (hdom fv hfv) (hdate fv hfv) (hbig fv.2 hm.2) (hflt fv hfv)
  have hst := line_stable fs vs w hlen hD hlaw hw
  exact ⟨⟨w, readPos fs w, w⟩, by simp [cycle, hw, hst], rfl, hread⟩

/-- the float clauses for one field of an admitted layout, floats in either notation -/
theorem clauses_FE (f : Field) (v : Val) (r : List Char) (hd : fieldInDomain f v = true)
    (hflt : FloatFE f v) (hrend : rendersTo f v r) : floatClauses f v r = true := by
  by_cases hF : FloatF f v
  · exact clauses_F f v r hd hF hrend
  · have : ∃ dec fmt sep, f.kind = .flt dec fmt sep ∧ (fmt = 'E' ∨ fmt = 'e') ∧
        ∃ neg m e, v = .dbl (.fin neg m e) ∧ (wfE m e dec ∨ m = 0 ∨ (e = -1074 ∧ wfFine m dec)) := by
      apply Classical.byContradiction
      intro hno
      apply hF
      intro dec fmt sep hk
      rcases hflt dec fmt sep hk with hn | hf | he
      · exact Or.inl hn
      · exact Or.inr hf
      · exact absurd ⟨dec, fmt, sep, hk, he⟩ hno
    obtain ⟨dec, fmt, sep, hk, hfmt, neg, m, e, rfl, hwf⟩ := this
    have hdom := hd
    simp only [fieldInDomain, Bool.and_eq_true, decide_eq_true_eq, hk] at hdom
    obtain ⟨⟨hfits, _⟩, hsep, hnot⟩ := hdom
    obtain ⟨c, rfl⟩ : ∃ c, sep = [c] := by
      cases sep with
      | nil => simp [sepOk] at hsep
      | cons c t =>
        cases t with
        | nil => exact ⟨c, rfl⟩
        | cons _ _ => simp [sepOk] at hsep
    have hdec : dec ≤ 12 := by
      rcases hfmt with rfl | rfl <;> simpa using hnot
    obtain ⟨hc1, hc2, hc3⟩ := sep_facts hsep
    obtain ⟨hc4, hc5, hc6⟩ := sep_factsE hsep
    rcases hwf with hwf | rfl | ⟨rfl, hwf⟩
    rotate_left 2
    · -- deep subnormal value: `round` is the identity, one correct rounding
      have hm0 : m ≠ 0 := hwf.1
      obtain ⟨hm, hfine⟩ := fine_facts m dec hwf hdec
      obtain ⟨r', hr', hfit⟩ := round_of_fits_E f dec fmt c hk hfmt neg m (-1074) hm0 hfits
      have hround : Dbl.pyRound (.fin neg m (-1074)) ((dec : Int) - Dbl.floorLog10 m (-1074)) = some (.fin neg m (-1074)) := by
        unfold Dbl.pyRound
        have : (dec : Int) - Dbl.floorLog10 m (-1074) > 323 := by omega
        simp only [this, if_true]
      have hrx : r' = .fin neg m (-1074) := by
        rw [hround] at hr'; injection hr' with hr'; exact hr'.symm
      subst hrx
      obtain ⟨_, t, h1, _, _, hsci, k, hteq⟩ :=
        fltE_core_fine f dec fmt c hk hfmt hc1 hc2 hc3 hc4 hc5 hc6 neg m hm0 hm hdec hfine hfit
      have hrt : r = t := by
        have := hrend.1
        rw [h1] at this
        injection this with this
        exact this.symm
      rw [hrt, hteq]
      exact Proofs.FloatEClauses.floatClauses_E f dec fmt c hk hfmt hsep neg m (-1074) hm0
        (by decide) hdec m (-1074) hsci k
    · have hm0 : m ≠ 0 := hwf.1
      obtain ⟨r', hr', hfit⟩ := round_of_fits_E f dec fmt c hk hfmt neg m e hm0 hfits
      obtain ⟨t, h1, _, _, _, m', e', k, _, _, hsciE, hteq⟩ :=
        fltE_core f dec fmt c hk hfmt hc1 hc2 hc3 hc4 hc5 hc6 neg m e (wfB_of_wfE m e dec hwf) hdec r' hr' hfit
      have hsci := hsciE hwf
      have hrt : r = t := by
        have := hrend.1
        rw [h1] at this
        injection this with this
        exact this.symm
      rw [hrt, hteq]
      exact Proofs.FloatEClauses.floatClauses_E f dec fmt c hk hfmt hsep neg m e hm0
        (by have := hwf.2.2.1; omega) hdec m' e' hsci k
    · obtain ⟨t, h1, _, _, _, d, k, hd, hteq⟩ :=
        Proofs.FloatEZero.fltE_zero_core f dec fmt c hk hfmt hc1 hc2 hc3 hc4 hc5 hc6 neg e (by omega) hfits
      have hrt : r = t := by
        have := hrend.1
        rw [h1] at this
        injection this with this
        exact this.symm
      rw [hrt, hteq]
      exact Proofs.FloatEZero.floatClauses_E_zero f dec fmt c hk hfmt hsep neg e d hd k

/-- **C01 in full, floats in either notation.** For every layout and value list admitted by
`Spec.C01.inDomain` whose non-missing floats are finite doubles (any of them) in F-notation
fields of at most 323 decimals, or — in E-notation fields — zero, doubles of magnitude
`10^(decimals-322)` or more (every normal double among them) or subnormal doubles below
`10^(decimals-323)`: the model's write / read / re-write cycle satisfies the whole of
`Spec.C01.holds` —
values read back are the canonical forms, the re-written text is identical, and every float is
written in the configured dialect and within half a unit of its last emitted digit (F
notation: with the largest number of decimals that fits). -/
theorem main_FE_full (fs : List Field) (vs : List Val) (h : inDomain fs vs = true)
    (hdate : ∀ fv ∈ fs.zip vs, ∀ fmts, fv.1.kind = .date fmts → fv.2.isNull = true → ∀ fm ∈ fmts, fm ≠ [])
    (hbig : ∀ v ∈ vs, ∀ n, v = .int n → n.natAbs < 10 ^ 4300)
    (hflt : ∀ fv ∈ fs.zip vs, FloatFE fv.1 fv.2) :
    ∃ o, cycle fs vs = some o ∧ holds fs vs o = true := by
  obtain ⟨o, hc, hst, hrb⟩ := main_FE fs vs h hdate hbig (fun fv hfv => floatFB_of_FE (hflt fv hfv))
  refine ⟨o, hc, holds_of_clauses fs vs h o hc hst hrb ?_⟩
  intro fv hfv r hrend
  have hdom0 := h
  simp only [inDomain, Bool.and_eq_true, beq_iff_eq, List.all_eq_true] at hdom0
  exact clauses_FE fv.1 fv.2 r (hdom0.2 fv hfv) (hflt fv hfv) hrend

end Props.C01

namespace Props.C01
open Cfi Cfi.Text Spec.C01 Proofs.FloatE Proofs.FloatELaw

/-- non-vacuity: an integer and the double 9.9996 in E notation with three decimals (rounding
crosses a power of ten: the text is `1.000E+01`) meet every premise of `main_FE` and of
`main_FE_full` -/
example :
    let fs := [Field.mk' .int 5 1, Field.mk' (.flt 3 'E' ['.']) 12 8]
    let vs := [Val.int (-42), Val.dbl (.fin false 5629274354231751 (-49))]
    inDomain fs vs = true ∧ (∀ fv ∈ fs.zip vs, FloatFE fv.1 fv.2) ∧
    cycle fs vs = some ⟨"   -42     1.000E+01\n".toList, [Val.int (-42), Val.dbl (.fin false 5629499534213120 (-49))],
      "   -42     1.000E+01\n".toList⟩ := by
  refine ⟨by decide +kernel, ?_, by decide +kernel⟩
  intro fv hfv
  simp only [List.zip_cons_cons, List.zip_nil_right, List.mem_cons, List.not_mem_nil, or_false] at hfv
  rcases hfv with rfl | rfl
  · intro dec fmt sep hk; simp [Field.mk'] at hk
  · intro dec fmt sep hk
    simp only [Field.mk', Kind.flt.injEq] at hk
    obtain ⟨rfl, rfl, rfl⟩ := hk
    exact Or.inr (Or.inr ⟨Or.inl rfl, false, _, _, rfl, Or.inl (wfE_of_wfn _ _ _ ⟨by decide, by decide, by decide, by decide⟩ (by decide))⟩)

end Props.C01

namespace Props.C01
open Cfi Cfi.Text Spec.C01 Proofs.FloatE Proofs.FloatELaw

/-- non-vacuity for a SUBNORMAL value: `12345678·2^-1074` (about 6.0996e-317) in an E-notation
field of three decimals is admitted by `wfE` (its last emitted digit has place value
`10^-320`), meets every premise of `main_FE_full`, and the cycle writes `6.100E-317` and reads
back `12346537·2^-1074` -/
example :
    let fs := [Field.mk' (.flt 3 'E' ['.']) 12 0]
    let vs := [Val.dbl (.fin false 12345678 (-1074))]
    inDomain fs vs = true ∧ (∀ fv ∈ fs.zip vs, FloatFE fv.1 fv.2) ∧
    cycle fs vs = some ⟨"  6.100E-317\n".toList, [Val.dbl (.fin false 12346537 (-1074))],
      "  6.100E-317\n".toList⟩ := by
  refine ⟨by decide +kernel, ?_, by decide +kernel⟩
  intro fv hfv
  simp only [List.zip_cons_cons, List.zip_nil_right, List.mem_cons, List.not_mem_nil, or_false] at hfv
  subst hfv
  intro dec fmt sep hk
  simp only [Field.mk', Kind.flt.injEq] at hk
  obtain ⟨rfl, rfl, rfl⟩ := hk
  exact Or.inr (Or.inr ⟨Or.inl rfl, false, _, _, rfl,
    Or.inl ⟨by decide, by decide, by decide, by decide, by decide +kernel⟩⟩)

end Props.C01

namespace Props.C01
open Cfi Cfi.Text Spec.C01 Proofs.FloatE

/-- **K2, the counterexample below the range of the E-notation law** (`KNOWN_FINDINGS.txt`,
`trigger=e_subnormal_coarse_grid`): the subnormal double `21·2^-1074` (about 1.04e-322) in an
E-notation field of one decimal is in the decidable domain of C01, the cycle is text-stable
(`9.9E-323` both times, read back as `20·2^-1074`), and yet `Spec.C01.holds` is false — the text
is more than half a unit of its last digit away from the value. The value is not admitted by
`wfE` (its last emitted digit would have place value `10^-323`), which is exactly the premise
`law_flt_E` needs. Kernel-evaluated on the model; the harness replays the same input on the
implementation (`corpus/C01/K2_*.json`). -/
theorem subnormal_E_counterexample :
    let fs := [Field.mk' (.flt 1 'E' ['.']) 10 0]
    let vs := [Val.dbl (.fin false 21 (-1074))]
    inDomain fs vs = true ∧ ¬ wfE 21 (-1074) 1 ∧
    ∃ o, cycle fs vs = some o ∧ o.written = "  9.9E-323\n".toList ∧ o.rewritten = o.written ∧
      o.readBack = [Val.dbl (.fin false 20 (-1074))] ∧ holds fs vs o = false := by
  refine ⟨by decide +kernel, ?_, ⟨"  9.9E-323\n".toList, [Val.dbl (.fin false 20 (-1074))], "  9.9E-323\n".toList⟩,
    by decide +kernel, rfl, rfl, rfl, by decide +kernel⟩
  intro h
  exact absurd h.2.2.2.2 (by decide +kernel)

end Props.C01

namespace Props.C01
open Cfi Cfi.Text Spec.C01 Proofs.FloatE Proofs.FloatELaw

/-- non-vacuity for a DEEP subnormal value: `3·2^-1074` (about 1.5e-323) in an E-notation field
of three decimals is admitted by `wfFine` (its last emitted digit has place value `10^-326`),
meets every premise of `main_FE_full`, and the cycle writes `1.482E-323` and reads back the
value itself -/
example :
    let fs := [Field.mk' (.flt 3 'E' ['.']) 12 0]
    let vs := [Val.dbl (.fin false 3 (-1074))]
    inDomain fs vs = true ∧ (∀ fv ∈ fs.zip vs, FloatFE fv.1 fv.2) ∧
    cycle fs vs = some ⟨"  1.482E-323\n".toList, [Val.dbl (.fin false 3 (-1074))],
      "  1.482E-323\n".toList⟩ := by
  refine ⟨by decide +kernel, ?_, by decide +kernel⟩
  intro fv hfv
  simp only [List.zip_cons_cons, List.zip_nil_right, List.mem_cons, List.not_mem_nil, or_false] at hfv
  subst hfv
  intro dec fmt sep hk
  simp only [Field.mk', Kind.flt.injEq] at hk
  obtain ⟨rfl, rfl, rfl⟩ := hk
  exact Or.inr (Or.inr ⟨Or.inl rfl, false, _, _, rfl,
    Or.inr (Or.inr ⟨rfl, by decide, by decide +kernel⟩)⟩)

/-- the K2 witness lies in the one decade `wfB` adds to `wfE`: `main_FE` applies to it (the cycle
is stable and reads back the double nearest to the text), `main_FE_full` does not -/
theorem k2_in_band : wfB 21 (-1074) 1 ∧ ¬ wfE 21 (-1074) 1 ∧ ¬ wfFine 21 1 := by
  refine ⟨⟨by decide, by decide, by decide, by decide, by decide +kernel⟩, ?_, ?_⟩
  · intro h; exact absurd h.2.2.2.2 (by decide +kernel)
  · intro h; exact absurd h.2 (by decide +kernel)

end Props.C01
