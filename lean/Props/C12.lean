import Cfi.Files
import Spec.C12
import Proofs.Accounting
import Proofs.RegexLaw
/-! C12 — property theorems: for EVERY content, EVERY block list (any begin/end
patterns), text and binary storage. -/
namespace Props.C12
open Cfi Cfi.Regex

variable {α : Type} [DecidableEq α]

/-- writing a default block re-emits its line; a raw block re-emits what it stored -/
theorem write_dflt (l : List α) : writeBElem (BElem.dflt l) = l := rfl
theorem write_block (i : Nat) (raw : List (List α)) : writeBElem (BElem.block i raw) = raw.flatten := rfl

theorem rest_length_of_accounts {raw : List α} {s s' : Stream α} (h : Accounts raw s s') (hp : s.pos < s'.pos) :
    s'.rest.length < s.rest.length := by
  have := h.pos
  have hr := congrArg List.length h.rest
  simp at hr
  omega

/-- **Full accounting**: whatever the loop produces from a stream position
concatenates (through the elements' own `write`) to exactly the unread input —
no input lost, none duplicated. -/
theorem loop_accounts (nl : α) (binary : Bool) (blocks : List (BlockDef α)) :
    ∀ (fuel : Nat) (s : Stream α), s.rest.length < fuel →
      (readBlockLoop nl binary blocks fuel s).flatMap writeBElem = s.rest := by
  intro fuel
  induction fuel with
  | zero => intro s h; omega
  | succ fuel ih =>
    intro s h
    simp only [readBlockLoop]
    by_cases hr : s.rest = []
    · -- nothing left: the peek is empty
      have hp : (if binary then (s.read 1).1 else (s.readline nl).1).isEmpty = true := by
        cases binary <;> simp [Stream.read, Stream.readline_fst, hr, Stream.lineOf]
      simp [hp, hr]
    · have hp : (if binary then (s.read 1).1 else (s.readline nl).1).isEmpty = false := by
        cases binary
        · have := lineOf_ne_nil nl hr
          cases hl : Stream.lineOf nl s.rest with
          | nil => exact absurd hl this
          | cons _ _ => simp [Stream.readline_fst, hl]
        · cases hr' : s.rest with
          | nil => exact absurd hr' hr
          | cons c cs => simp [Stream.read, hr']
      rw [hp]
      simp only [Bool.false_eq_true, if_false]
      split
      · -- a declared block is selected
        rename_i i hi
        have hlt : i < blocks.length := (List.findIdx?_eq_some_iff_getElem.mp hi).1
        rw [List.getElem?_eq_getElem hlt]
        simp only
        cases binary
        · simp only [Bool.false_eq_true, if_false]
          have hacc := accounts_readRawBlock nl blocks[i] (s.content.length + 1) s
          have hprog := readRawBlock_progress nl blocks[i] s.content.length s hr
          have hnle : ¬ (readRawBlock nl blocks[i] (s.content.length + 1) s).2.pos ≤ s.pos := by omega
          rw [if_neg hnle]
          have hl := rest_length_of_accounts hacc hprog
          simp only [List.flatMap_cons, write_block]
          rw [ih _ (by omega), ← hacc.rest]
        · simp only [if_true]
          have hacc := accounts_readRawBinBlock nl blocks[i] (s.content.length + 1) s
          have hprog := readRawBinBlock_progress nl blocks[i] s.content.length s hr
          have hnle : ¬ (readRawBinBlock nl blocks[i] (s.content.length + 1) s).2.pos ≤ s.pos := by omega
          rw [if_neg hnle]
          have hl := rest_length_of_accounts hacc hprog
          simp only [List.flatMap_cons, write_block, List.flatten_cons, List.flatten_nil, List.append_nil]
          rw [ih _ (by omega), ← hacc.rest]
      · -- no block begins here: one default line
        have hacc := accounts_readline nl s
        have hprog := readline_progress nl s hr
        have hl := rest_length_of_accounts hacc hprog
        simp only [List.flatMap_cons, write_dflt]
        rw [ih _ (by omega), ← hacc.rest]

/-- **C12 main theorem**: for every content `x` (nested-looking markers,
unterminated blocks, no final newline, empty…), every block list and both
storages: the stored raw data concatenate to `x` and writing the file that was
read reproduces `x` exactly. -/
theorem write_read_id (nl : α) (binary : Bool) (blocks : List (BlockDef α)) (x : List α) :
    writeBlockFile (readBlockFile nl binary blocks x) = x := by
  simp only [writeBlockFile, readBlockFile, List.flatMap_cons, write_dflt, List.nil_append]
  have := loop_accounts nl binary blocks (x.length + 1) ⟨x, 0⟩ (by simp [Stream.rest])
  simpa [Stream.rest] using this

/-- the statement the run-time oracle evaluates holds of the model for all inputs -/
theorem main (nl : α) (binary : Bool) (blocks : List (BlockDef α)) (x : List α) :
    Spec.C12.holds nl binary blocks x ⟨readBlockFile nl binary blocks x, writeBlockFile (readBlockFile nl binary blocks x)⟩ = true := by
  have h := write_read_id nl binary blocks x
  simp only [Spec.C12.holds, beq_self_eq_true, Bool.true_and, Bool.and_eq_true, beq_iff_eq]
  exact ⟨h, h⟩

/-- **Dispatch**: a region goes to the first declared block whose begin pattern is
found in the peeked unit — `findIdx?` returns the least such index -/
theorem dispatch_first (nl : α) (blocks : List (BlockDef α)) (peek : List α) (i : Nat)
    (h : blocks.findIdx? (fun b => search nl b.begin_ peek) = some i) :
    (∃ hi : i < blocks.length, search nl (blocks[i]).begin_ peek = true) ∧
    ∀ j (hj : j < i) (hjl : j < blocks.length), search nl (blocks[j]).begin_ peek = false := by
  rw [List.findIdx?_eq_some_iff_getElem] at h
  obtain ⟨hi, hm, hlt⟩ := h
  exact ⟨⟨hi, hm⟩, fun j hj hjl => by simpa using hlt j hj⟩

/-- the pattern is found in the unit, declaratively: some infix of it (a prefix for an anchored
pattern) is a word of the expression -/
def Found (nl : α) (p : Pat α) (peek : List α) : Prop :=
  ∃ a m b, peek = a ++ m ++ b ∧ Matches nl p.re m ∧ (p.anchored = true → a = [])

/-- **Dispatch, in terms of the patterns' meaning** (`Cfi.Regex.search_iff`: the matcher of the model —
derivatives, simplification, prefix match, search — decides exactly "some infix matches"): a region
goes to the first declared block whose begin pattern is found in the peeked unit; no earlier
declared block's begin pattern is found there -/
theorem dispatch_first_found (nl : α) (blocks : List (BlockDef α)) (peek : List α) (i : Nat)
    (h : blocks.findIdx? (fun b => search nl b.begin_ peek) = some i) :
    (∃ hi : i < blocks.length, Found nl (blocks[i]).begin_ peek) ∧
    ∀ j (hj : j < i) (hjl : j < blocks.length), ¬ Found nl (blocks[j]).begin_ peek := by
  obtain ⟨⟨hi, hm⟩, hlt⟩ := dispatch_first nl blocks peek i h
  refine ⟨⟨hi, (search_iff nl _ peek).1 hm⟩, fun j hj hjl hf => ?_⟩
  have := hlt j hj hjl
  rw [(search_iff nl _ peek).2 hf] at this
  cases this

/-- and a unit in which no declared begin pattern is found goes to no block (it becomes a default element) -/
theorem dispatch_none_found (nl : α) (blocks : List (BlockDef α)) (peek : List α)
    (h : blocks.findIdx? (fun b => search nl b.begin_ peek) = none) :
    ∀ b ∈ blocks, ¬ Found nl b.begin_ peek := by
  intro b hb hf
  rw [List.findIdx?_eq_none_iff] at h
  have := h b hb
  rw [(search_iff nl _ peek).2 hf] at this
  cases this

/-- non-vacuity: an unterminated block at the end of the input, no final newline -/
example :
    let b : BlockDef Char := ⟨⟨false, Re.lit "BEG".toList⟩, ⟨false, Re.lit "END".toList⟩⟩
    readBlockFile '\n' false [b] "x\n BEG 1\nEND\nBEG".toList =
      [.dflt [], .dflt "x\n".toList, .block 0 [" BEG 1\n".toList, "END\n".toList], .block 0 ["BEG".toList]] := by
  decide

end Props.C12
