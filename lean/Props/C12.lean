import Cfi.Files
import Spec.C12
/-! C12 — property theorems (being extended: stream accounting lemmas). -/
namespace Props.C12
open Cfi

/-- writing a default block re-emits its line; a raw block re-emits what it stored -/
theorem write_dflt {α} (l : List α) : writeBElem (BElem.dflt l) = l := rfl
theorem write_block {α} (i : Nat) (raw : List (List α)) : writeBElem (BElem.block i raw) = raw.flatten := rfl

end Props.C12
