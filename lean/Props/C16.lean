import Cfi.IOModel
/-! C16 — property theorems (over any codec satisfying the round-trip law, any
file system, any element loop). -/
namespace Props.C16
open Cfi.IOModel

variable {χ β α : Type}

/-- **Reading from a path = reading the decoded content**: for every file
system, every codec and every element loop. -/
theorem read_path_eq_content (parse : List χ → α) (fs : FS β) (c : Codec χ β) (p : Path)
    (bytes : List β) (s : List χ) (hf : fs p = some bytes) (hd : c.dec bytes = some s) :
    fileRead parse fs c (.path p) = fileRead parse fs c (.content s) := by
  simp [fileRead, load, hf, hd]

/-- **Writing to a path**: the file, decoded with the declared encoding, is
exactly the in-memory output (codec law: `dec (enc s) = some s`). -/
theorem written_file_decodes (fs : FS β) (c : Codec χ β) (p : Path) (out : List χ)
    (hc : c.dec (c.enc out) = some out) :
    ((store fs c p out) p).bind c.dec = some out := by
  simp [store, hc]

/-- other files are untouched by a write -/
theorem store_other (fs : FS β) (c : Codec χ β) (p q : Path) (out : List χ) (h : q ≠ p) :
    (store fs c p out) q = fs q := by
  simp [store, h]

/-- **Round trip through disk = round trip through memory** -/
theorem disk_roundtrip (parse : List χ → α) (fs : FS β) (c : Codec χ β) (p : Path) (out : List χ)
    (hc : c.dec (c.enc out) = some out) :
    fileRead parse (store fs c p out) c (.path p) = some (parse out) := by
  simp [fileRead, load, store, hc]

/-- binary storage: the codec is the identity, bytes are identical -/
theorem binary_identity (fs : FS β) (p : Path) (out : List β) :
    (store fs ⟨id, some⟩ p out) p = some out := by
  simp [store]

end Props.C16
