import Props.C10F
import Props.C06E
/-!
C10 in positional text storage with the per-field premises discharged from the decidable domain
of C01: the read half of the per-field law (`readLaw_of_domain`) and the absence of line breaks
in every rendering (`no_newline_of_domain`).
-/
namespace Props.C10
open Cfi Cfi.Text Spec.C10 Spec.C01 Props.C01 Props.C06

/-- **No rendering of an admitted value holds a line break**: integers are digits and a sign,
literals have no control characters, floats are digits, sign, separator and exponent marks,
dates are digits and characters of the format -/
theorem no_newline_of_domain (f : Field) (v : Val) (h : fieldInDomain f v = true)
    (hflt : FloatFB f v)
    (hfmt : ∀ fmt fmts, f.kind = .date (fmt :: fmts) → ¬ '\n' ∈ fmt)
    (t : List Char) (ht : renderText f v = .ok t) : ¬ '\n' ∈ t := by
  by_cases hn : v.isNull = true
  · rw [render_null f v hn] at ht
    injection ht with ht; subst ht
    simp
  have hdom := h
  simp only [fieldInDomain, Bool.and_eq_true, decide_eq_true_eq] at hdom
  obtain ⟨⟨hfits, _⟩, hk⟩ := hdom
  have hty : Spec.C02.typeOk f.kind v = true := by
    simp only [Spec.C02.fits, Bool.and_eq_true] at hfits
    exact hfits.1.2
  cases hkind : f.kind with
  | int =>
    rw [hkind] at hty
    cases v with
    | int n =>
      simp only [renderText, renderRaw, renderFull, hkind, Val.isNull, Bool.false_eq_true, if_false,
        Except.map] at ht
      injection ht with ht; subst ht
      intro hm
      simp only [rjust, List.mem_append, List.mem_replicate] at hm
      rcases hm with hm | hm
      · exact absurd hm.2 (by decide)
      · cases n with
        | ofNat k =>
          have := natDigits_isDigit k '\n' hm
          exact absurd this (by decide)
        | negSucc k =>
          simp only [PyInt.pyStr, List.mem_cons] at hm
          rcases hm with hm | hm
          · exact absurd hm (by decide)
          · have := natDigits_isDigit (k + 1) '\n' hm
            exact absurd this (by decide)
    | none => exact absurd rfl hn
    | nat => exact absurd rfl hn
    | str s => simp [Spec.C02.typeOk] at hty
    | date d => simp [Spec.C02.typeOk] at hty
    | dbl x =>
      cases x with
      | nan => exact absurd rfl hn
      | inf neg => simp [Spec.C02.typeOk] at hty
      | fin neg m e => simp [Spec.C02.typeOk] at hty
  | lit =>
    rw [hkind] at hty hk
    cases v with
    | str s =>
      simp only [Bool.and_eq_true] at hk
      have hnc := hk.1
      simp only [renderText, renderRaw, renderFull, hkind, Val.isNull, Bool.false_eq_true, if_false,
        Except.map] at ht
      injection ht with ht; subst ht
      intro hm
      simp only [ljust, List.mem_append, List.mem_replicate] at hm
      rcases hm with hm | hm
      · simp only [noControl, List.all_eq_true, Bool.and_eq_true, decide_eq_true_eq] at hnc
        have := (hnc '\n' hm).1
        exact absurd this (by decide)
      · exact absurd hm.2 (by decide)
    | none => exact absurd rfl hn
    | nat => exact absurd rfl hn
    | int n => simp [Spec.C02.typeOk] at hty
    | date d => simp [Spec.C02.typeOk] at hty
    | dbl x =>
      cases x with
      | nan => exact absurd rfl hn
      | inf neg => simp [Spec.C02.typeOk] at hty
      | fin neg m e => simp [Spec.C02.typeOk] at hty
  | flt dec fmt sep =>
    rw [hkind] at hk
    simp only [Bool.and_eq_true] at hk
    obtain ⟨hsep, hnot⟩ := hk
    obtain ⟨c, rfl⟩ : ∃ c, sep = [c] := by
      cases sep with
      | nil => simp [sepOk] at hsep
      | cons c t =>
        cases t with
        | nil => exact ⟨c, rfl⟩
        | cons _ _ => simp [sepOk] at hsep
    rcases hflt dec fmt [c] hkind with hnull | ⟨hF, hdec, neg, m, e, rfl, hwf⟩ | ⟨hE, neg, m, e, rfl, hwf⟩
    · exact absurd hnull hn
    · obtain ⟨_, k, ip, fp, hdig, rfl⟩ := flt_written f dec fmt c hkind hF hdec hsep neg m e hwf hfits t ht
      intro hm
      rw [Proofs.FloatClauses.subst1_body c neg ip fp hdig] at hm
      simp only [List.mem_append, List.mem_replicate] at hm
      rcases hm with hm | hm
      · exact absurd hm.2 (by decide)
      · rcases Proofs.FloatClauses.sbody_chars c neg ip fp hdig '\n' hm with h | h | h
        · exact absurd h (by decide)
        · subst h; revert hsep; decide
        · exact absurd h (by decide)
    · have hdec : dec ≤ 12 := by
        rcases hE with rfl | rfl <;> simpa using hnot
      exact (fltE_written f dec fmt c hkind hE hdec hsep neg m e hwf hfits t ht).2.1
  | date fmts =>
    rw [hkind] at hty
    cases v with
    | date d =>
      cases fmts with
      | nil => simp [renderText, renderRaw, renderFull, hkind, Val.isNull, Except.map] at ht
      | cons fm rest =>
        have hnf := hfmt fm rest hkind
        cases hp : Cfi.Date.strftime (fm.length + 1) fm d with
        | none => simp [renderText, renderRaw, renderFull, hkind, Val.isNull, hp, Option.elim, Except.map] at ht
        | some p =>
          simp [renderText, renderRaw, renderFull, hkind, Val.isNull, hp, Option.elim, Except.map] at ht
          subst ht
          have hpc := Props.C09.strftime_chars (fun c => c ≠ '\n')
            (fun c hc => by intro e; subst e; exact absurd hc (by decide)) _ fm d p
            (fun c hc e => hnf (e ▸ hc)) hp
          intro hm
          simp only [ljust, List.mem_append, List.mem_replicate] at hm
          rcases hm with hm | hm
          · exact hpc '\n' hm rfl
          · exact absurd hm.2 (by decide)
    | none => exact absurd rfl hn
    | nat => exact absurd rfl hn
    | int n => simp [Spec.C02.typeOk] at hty
    | str s => simp [Spec.C02.typeOk] at hty
    | dbl x =>
      cases x with
      | nan => exact absurd rfl hn
      | inf neg => simp [Spec.C02.typeOk] at hty
      | fin neg m e => simp [Spec.C02.typeOk] at hty

/-- **C10, positional text storage, from the decidable domain.** For every stream of registers
in positional text storage whose identifier fits its window and holds no line break, whose
fields start after the identifier window, and whose values are admitted by
`Spec.C01.inDomain` (floats as in `FloatFB`, no empty date format for a missing date, no line
break in a date format): each register is one line, carries its identifier, is recognised by
its own type, reads back to the canonical data, and every read consumes exactly what the
corresponding write produced. -/
theorem text_positional_dom (items : List (RegDef × List Val))
    (hreg : ∀ item ∈ items, item.1.delimiter = .none ∧ item.1.ident.length ≤ item.1.digits ∧
      (∀ f ∈ item.1.fields, item.1.digits ≤ f.start) ∧ ¬ '\n' ∈ item.1.ident ∧
      RegDef.isEmpty item.2 = false)
    (hdom : ∀ item ∈ items, Spec.C01.inDomain item.1.fields item.2 = true)
    (hdate : ∀ item ∈ items, ∀ fv ∈ item.1.fields.zip item.2, ∀ fmts, fv.1.kind = .date fmts →
      (fv.2.isNull = true → ∀ fm ∈ fmts, fm ≠ []) ∧ ∀ fm rest, fmts = fm :: rest → ¬ '\n' ∈ fm)
    (hbig : ∀ item ∈ items, ∀ v ∈ item.2, ∀ n, v = .int n → n.natAbs < 10 ^ 4300)
    (hflt : ∀ item ∈ items, ∀ fv ∈ item.1.fields.zip item.2, FloatFB fv.1 fv.2) :
    ∃ obs, run .text items = some obs ∧ Spec.C10.holds .text items obs = true := by
  apply text_positional items
  intro item hitem
  obtain ⟨hdel, hid, hstart, hidnl, hne⟩ := hreg item hitem
  have hd := hdom item hitem
  simp only [Spec.C01.inDomain, Bool.and_eq_true, beq_iff_eq, List.all_eq_true] at hd
  obtain ⟨⟨hlen, hdis⟩, hfd⟩ := hd
  refine ⟨hdel, hid, hstart, Disjoint_of_bool' _ hdis, hlen, hne, hidnl, ?_, ?_⟩
  · intro fv hfv
    exact readLaw_of_domain fv.1 fv.2 (hfd fv hfv)
      (fun fmts hk hn => (hdate item hitem fv hfv fmts hk).1 hn)
      (hbig item hitem fv.2 (List.of_mem_zip hfv).2)
  · intro fv hfv t ht
    exact no_newline_of_domain fv.1 fv.2 (hfd fv hfv) (hflt item hitem fv hfv)
      (fun fm rest hk => (hdate item hitem fv hfv (fm :: rest) hk).2 fm rest rfl) t ht

/-- non-vacuity: a register with an integer, an E-notation float and a date meets every premise
of `text_positional_dom` -/
example :
    let r : RegDef := ⟨"AB".toList, 2, [Field.mk' .int 5 3, Field.mk' (.flt 3 'E' ['.']) 12 9,
      Field.mk' (.date ["%d/%m/%Y".toList]) 10 22], .none⟩
    let items : List (RegDef × List Val) := [(r, [Val.int (-42), Val.dbl (.fin false (2 ^ 52 + 2 ^ 51) (-52)),
      Val.date ⟨2024, 2, 29, 0, 0, 0, 0⟩])]
    (∀ item ∈ items, item.1.delimiter = .none ∧ item.1.ident.length ≤ item.1.digits ∧
      (∀ f ∈ item.1.fields, item.1.digits ≤ f.start) ∧ ¬ '\n' ∈ item.1.ident ∧
      RegDef.isEmpty item.2 = false) ∧
    (∀ item ∈ items, Spec.C01.inDomain item.1.fields item.2 = true) ∧
    (∀ item ∈ items, ∀ fv ∈ item.1.fields.zip item.2, FloatFB fv.1 fv.2) := by
  refine ⟨?_, ?_, ?_⟩
  · intro item hi
    simp only [List.mem_singleton] at hi; subst hi
    refine ⟨rfl, by decide, ?_, by decide, by decide⟩
    intro f hf
    simp only [List.mem_cons, List.not_mem_nil, or_false] at hf
    rcases hf with rfl | rfl | rfl <;> decide
  · intro item hi
    simp only [List.mem_singleton] at hi; subst hi
    decide +kernel
  · intro item hi fv hfv
    simp only [List.mem_singleton] at hi; subst hi
    simp only [List.zip_cons_cons, List.zip_nil_right, List.mem_cons, List.not_mem_nil, or_false] at hfv
    rcases hfv with rfl | rfl | rfl
    · intro dec fmt sep hk; simp [Field.mk'] at hk
    · intro dec fmt sep hk
      simp only [Field.mk', Kind.flt.injEq] at hk
      obtain ⟨rfl, rfl, rfl⟩ := hk
      exact Or.inr (Or.inr ⟨Or.inl rfl, false, _, _, rfl, Or.inl (Proofs.FloatE.wfB_of_wfE _ _ _ (Proofs.FloatE.wfE_of_wfn _ _ _ ⟨by decide, by decide, by decide, by decide⟩ (by decide)))⟩)
    · intro dec fmt sep hk; simp [Field.mk'] at hk

end Props.C10
