import Cfi.Files
import Spec.C12
/-! C18 — property theorems (termination / element bound; being extended). -/
namespace Props.C18
open Cfi

/-- `readline` on a stream with unread input consumes at least one character -/
theorem lineOf_ne_nil {α} [BEq α] (nl : α) (s : List α) (h : s ≠ []) : Stream.lineOf nl s ≠ [] := by
  cases s with
  | nil => exact absurd rfl h
  | cons c cs => simp only [Stream.lineOf]; split <;> simp

end Props.C18
