import Cfi.Files
import Spec.C12
import Proofs.Accounting
import Props.C04
import Props.C12
import Proofs.BlockLoop
/-!
C18 — reading terminates: every step consumes input.

The reading loops are modelled with a fuel argument (`content.length + 1` is
what the file-level functions pass).  Termination of the real `while True` loop
is the statement that the result does not depend on the fuel once it exceeds
the length of the unread input — the loop ends by itself, on an empty peek,
never by running out of fuel — together with the element bounds.
-/
namespace Props.C18
open Cfi Cfi.Text Cfi.Regex

/-! ### register files, text storage -/

/-- the loop stops by itself: any fuel above the input length gives the same result -/
theorem reg_text_fuel_independent (regs : List RegDef) (s : Stream Char) (f₁ f₂ : Nat)
    (h₁ : s.rest.length < f₁) (h₂ : s.rest.length < f₂) :
    readRegLoopText regs f₁ s = readRegLoopText regs f₂ s := by
  rw [Props.C04.loop_eq_mapM regs f₁ s h₁, Props.C04.loop_eq_mapM regs f₂ s h₂]

/-- at most (exactly) one element per line, plus the placeholder -/
theorem reg_text_bound (regs : List RegDef) (content : List Char) (es : List RElem)
    (h : readRegFileText regs content = .ok es) : es.length - 1 ≤ (splitLines content).length := by
  rw [Props.C04.count regs content es h]; omega

/-! ### block files -/

variable {α : Type} [DecidableEq α]

/-- **every step consumes input**: the number of elements never exceeds the
number of unread characters / bytes — for every block list and every content,
in both storages, whatever the fuel -/
theorem block_bound (nl : α) (binary : Bool) (blocks : List (BlockDef α)) :
    ∀ (fuel : Nat) (s : Stream α), (readBlockLoop nl binary blocks fuel s).length ≤ s.rest.length := by
  intro fuel
  induction fuel with
  | zero => intro s; simp [readBlockLoop]
  | succ fuel ih =>
    intro s
    by_cases hr : s.rest = []
    · simp [loop_empty nl binary blocks fuel s hr]
    · obtain ⟨e, s', heq, hlt, _, _⟩ := loop_step nl binary blocks fuel s hr
      rw [heq, List.length_cons]
      have := ih s'
      omega

/-- file level: elements (without the placeholder) ≤ characters / bytes of the content -/
theorem block_file_bound (nl : α) (binary : Bool) (blocks : List (BlockDef α)) (x : List α) :
    (readBlockFile nl binary blocks x).length - 1 ≤ x.length := by
  have := block_bound nl binary blocks (x.length + 1) ⟨x, 0⟩
  simpa [readBlockFile, Stream.rest] using this

/-- the block loop stops by itself: the result does not depend on the fuel once
it exceeds the length of the unread input -/
theorem block_fuel_independent (nl : α) (binary : Bool) (blocks : List (BlockDef α)) :
    ∀ (f₁ f₂ : Nat) (s : Stream α), s.rest.length < f₁ → s.rest.length < f₂ →
      readBlockLoop nl binary blocks f₁ s = readBlockLoop nl binary blocks f₂ s := by
  intro f₁
  induction f₁ with
  | zero => intro f₂ s h; omega
  | succ f₁ ih =>
    intro f₂ s h₁ h₂
    cases f₂ with
    | zero => omega
    | succ f₂ =>
      by_cases hr : s.rest = []
      · rw [loop_empty nl binary blocks f₁ s hr, loop_empty nl binary blocks f₂ s hr]
      · obtain ⟨e, s', heq, hlt, _, hall⟩ := loop_step nl binary blocks f₁ s hr
        rw [heq, hall f₂, ih f₂ s' (by omega) (by omega)]

/-! ### section files -/

theorem leftovers_bound : ∀ (fuel : Nat) (s : Stream Char), (readLeftovers fuel s).length ≤ s.rest.length := by
  intro fuel
  induction fuel with
  | zero => intro s; simp [readLeftovers]
  | succ fuel ih =>
    intro s
    simp only [readLeftovers]
    split
    · simp
    · rename_i hne
      have hr : s.rest ≠ [] := by
        intro h; simp [Stream.readline_fst, h, Stream.lineOf] at hne
      have hacc := accounts_readline '\n' s
      have hprog := readline_progress '\n' s hr
      have hl := Props.C12.rest_length_of_accounts hacc hprog
      have := ih (s.readline '\n').2
      simp only [List.length_cons]; omega

/-- the declared sections are read unconditionally (one element each), then at
most one element per remaining character -/
theorem section_file_bound (secs : List SecDef) (x : List Char) :
    (readSectionFile secs x).length - 1 ≤ secs.length + x.length := by
  simp only [readSectionFile, List.length_cons, List.length_append, Nat.add_sub_cancel]
  have h1 : (readDeclared secs 0 ⟨x, 0⟩).1.length = secs.length := by
    induction secs generalizing x with
    | nil => rfl
    | cons d ds ih => exact (by
        have : ∀ (ss : List SecDef) (i : Nat) (s : Stream Char), (readDeclared ss i s).1.length = ss.length := by
          intro ss; induction ss with
          | nil => intro i s; rfl
          | cons d ds ih => intro i s; simp [readDeclared, ih]
        exact this _ _ _)
  have h2 := leftovers_bound (x.length + 1) (readDeclared secs 0 ⟨x, 0⟩).2
  have h3 : (readDeclared secs 0 ⟨x, 0⟩).2.rest.length ≤ x.length := by
    have hacc : ∀ (ss : List SecDef) (i : Nat) (s : Stream Char), (readDeclared ss i s).2.rest.length ≤ s.rest.length := by
      intro ss; induction ss with
      | nil => intro i s; simp [readDeclared]
      | cons d ds ih =>
        intro i s
        simp only [readDeclared]
        have h := accounts_readSection d s
        have := congrArg List.length h.rest
        simp at this
        have := ih (i + 1) (readSection d s).2
        omega
    simpa [Stream.rest] using hacc secs 0 ⟨x, 0⟩
  omega

/-- non-vacuity: garbage that matches nothing still terminates with one element per line -/
example : (readRegFileText [⟨"AB".toList, 2, [], .none⟩] "zz\n\n q".toList).toOption.map List.length = some 4 := by
  decide

end Props.C18
