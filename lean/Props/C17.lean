import Cfi.IOModel
import Spec.C16
/-! C17 — property theorems: for EVERY element list and EVERY fault position. -/
namespace Props.C17
open Cfi.IOModel

variable {χ ε : Type}

def outOf : Step χ ε → List χ
  | .ok o => o
  | .raise _ => []

def isRaise : Step χ ε → Bool
  | .raise _ => true
  | .ok _ => false

/-- **Fault at any position `k`**: if element `k` is the first that raises, the
loop's result is exactly that exception and the output is exactly the
concatenation of the outputs of the `k` elements before it. -/
theorem runLoop_fault (pre : List (List χ)) (e : ε) (rest : List (Step χ ε)) :
    runLoop (pre.map Step.ok ++ Step.raise e :: rest) = (pre.flatten, some e) := by
  induction pre with
  | nil => simp [runLoop]
  | cons o pre ih => simp [runLoop, ih]

/-- without a fault everything is written and nothing is raised -/
theorem runLoop_ok (outs : List (List χ)) :
    runLoop (outs.map (Step.ok (ε := ε))) = (outs.flatten, none) := by
  induction outs with
  | nil => simp [runLoop]
  | cons o outs ih => simp [runLoop, ih]

/-- **C17 main theorem (writing)**: for every destination, every element list
and every fault position: the exception that reaches the caller is the failing
element's; a handle the framework opened is closed; a caller buffer is left
open, positioned at the end of what was written; the output is the clean prefix. -/
theorem write_fault (dest : Dest) (pre : List (List χ)) (e : ε) (rest : List (Step χ ε)) :
    let r := fileWrite dest (pre.map Step.ok ++ Step.raise e :: rest)
    r.raised = some e ∧ r.output = pre.flatten ∧
    (r.handle.ownedByFramework = true → r.handle.closed = true) ∧
    (r.handle.ownedByFramework = false → r.handle.closed = false ∧ r.handle.position = pre.flatten.length) := by
  simp only [fileWrite, runLoop_fault]
  cases dest <;> simp

theorem write_ok (dest : Dest) (outs : List (List χ)) :
    let r := fileWrite dest (outs.map (Step.ok (ε := ε)))
    r.raised = none ∧ r.output = outs.flatten ∧
    (r.handle.ownedByFramework = true → r.handle.closed = true) ∧
    (r.handle.ownedByFramework = false → r.handle.closed = false ∧ r.handle.position = outs.flatten.length) := by
  simp only [fileWrite, runLoop_ok]
  cases dest <;> simp

/-- the framework owns the handle exactly for path destinations -/
theorem ownership (dest : Dest) (elems : List (Step χ ε)) :
    (fileWrite dest elems).handle.ownedByFramework = (match dest with | .path _ => true | .buffer => false) := by
  cases dest <;> rfl

end Props.C17
