import Cfi.Container
import Cfi.Legacy
import Cfi.Files
/-!
Kernel-checked counter-examples: the *pinned* code (before the `fix:` commits)
violates C07/C08.  These are the witnesses D4–D6 of DESIGN.md section 2.
-/
namespace Props.Legacy
open Cfi.Container

/-- D4: container `0 1 2` where element 2 is value-equal to element 0.
`add_before(2, 3)` on the pinned code yields iteration `[3, 2]`: elements 0 and
1 are lost.  (The repaired code gives `[0, 1, 3, 2]`.) -/
theorem D4_addBefore_by_value :
    let eqv : Id → Id → Bool := fun a b => a % 2 == b % 2
    let s := run (init 0) [.append 1, .append 2]
    iter (Cfi.Legacy.addBefore eqv s 2 3) 10 = [3, 2] ∧
    iter (addBefore s 2 3) 10 = [0, 1, 3, 2] := by decide

/-- D5: removing the first element leaves `first` (and iteration) on the
removed element, and after removing the last element a following `append`
is lost. -/
theorem D5_remove_keeps_ends :
    let s := run (init 0) [.append 1, .append 2]
    iter (Cfi.Legacy.remove s 0) 10 = [0, 1, 2] ∧
    iter (remove s 0) 10 = [1, 2] ∧
    iter (append (Cfi.Legacy.remove s 2) 3) 10 = [0, 1] ∧
    iter (append (remove s 2) 3) 10 = [0, 1, 3] := by decide

/-- D6: bulk removal spares value-equal duplicates of the first element. -/
theorem D6_bulk_removal_by_value :
    let eqv : Id → Id → Bool := fun a b => a % 2 == b % 2
    let s := run (init 0) [.append 1, .append 2]
    iter (Cfi.Legacy.removeMany eqv s [0, 1, 2]) 10 = [0, 2] ∧
    iter ([0, 1, 2].foldl (fun s r => if r ≠ s.root then remove s r else s) s) 10 = [0] := by
  decide

end Props.Legacy

namespace Props.Legacy
open Cfi Cfi.Text

/-- D1: `FloatField(8, 0, 2, sep=",", value=1.5).write("")` gave `'    1.50'` on
the pinned tree (the repaired code gives `'    1,50'`) -/
theorem D1_separator_ignored :
    let f : Field := Field.mk' (.flt 2 'F' [',']) 8 0
    let x : Val := .dbl (Dbl.ofBits 0x3FF8000000000000)
    Cfi.Legacy.renderTextFloat f x = .ok "    1.50".toList ∧ renderText f x = .ok "    1,50".toList := by
  decide +kernel

/-- D3: reading `"1;2;abc"` and then `"7"` through the same fields gave
`[7, 2, 'abc']` on the pinned tree (repaired: `[7, None, None]`) -/
theorem D3_carry_over :
    let fs := [Field.mk' .int 3 0, Field.mk' .int 3 3, Field.mk' .lit 4 6]
    let first := Cfi.Legacy.readDelim fs [.none, .none, .none] "1;2;abc".toList [';']
    first = [.int 1, .int 2, .str "abc".toList] ∧
    Cfi.Legacy.readDelim fs first "7".toList [';'] = [.int 7, .int 2, .str "abc".toList] ∧
    readDelim fs "7".toList [';'] = [.int 7, .none, .none] := by
  decide +kernel

/-- D11: after one delimited use the positional read of `"  123 abcd"` gave
`[1, '12']` on the pinned tree (constructor-built line: `[123, 'abcd']`) -/
theorem D11_permanent_rebase :
    let fs := [Field.mk' .int 3 2, Field.mk' .lit 4 6]
    readPos (Cfi.Legacy.fieldsAfterDelimitedUse fs) "  123 abcd".toList = [.int 1, .str "12".toList] ∧
    readPos fs "  123 abcd".toList = [.int 123, .str "abcd".toList] := by
  decide +kernel

/-- D7: a binary register with a 2-byte identifier and one int16 field writes 4
bytes but the pinned read consumed 6 -/
theorem D7_overconsumption :
    let r : RegDef := ⟨"C1".toList, 2, [Field.mk' .int 2 2], .none⟩
    r.recordSize = 4 ∧ Cfi.Legacy.recordSize r = 6 := by decide

/-- D10: on unmatched binary content the pinned loop never advances: whatever the
fuel, it is exhausted (here 50 elements for 2 bytes); the repaired model needs 2 -/
theorem D10_no_progress :
    (Cfi.Legacy.readRegLoopBinNoMatch 50 ⟨[90, 90], 0⟩).length = 50 ∧
    (readRegFileBin [] 1 [90, 90]).toOption.map List.length = some 3 := by
  decide

/-- D8: in binary storage the pinned reader never selected a declared block -/
theorem D8_no_dispatch :
    let b : BlockDef UInt8 := ⟨⟨false, .chr 48⟩, ⟨false, .chr 49⟩⟩
    Cfi.Legacy.readBlockFileBinary [48, 65, 49] = [.dflt [], .dflt [48, 65, 49]] ∧
    readBlockFile (10 : UInt8) true [b] [48, 65, 49] = [.dflt [], .block 0 [[48, 65, 49]]] := by
  decide

end Props.Legacy
