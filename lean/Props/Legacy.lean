import Cfi.Container
import Cfi.Legacy
/-!
Kernel-checked counter-examples: the *pinned* code (before the `fix:` commits)
violates C07/C08.  These are the witnesses D4–D6 of DESIGN.md section 2.
-/
namespace Props.Legacy
open Cfi.Container

/-- D4: container `0 1 2` where element 2 is value-equal to element 0.
`add_before(2, 3)` on the pinned code yields iteration `[3, 2]`: elements 0 and
1 are lost.  (The repaired code gives `[0, 1, 3, 2]`.) -/
theorem D4_addBefore_by_value :
    let eqv : Id → Id → Bool := fun a b => a % 2 == b % 2
    let s := run (init 0) [.append 1, .append 2]
    iter (Cfi.Legacy.addBefore eqv s 2 3) 10 = [3, 2] ∧
    iter (addBefore s 2 3) 10 = [0, 1, 3, 2] := by decide

/-- D5: removing the first element leaves `first` (and iteration) on the
removed element, and after removing the last element a following `append`
is lost. -/
theorem D5_remove_keeps_ends :
    let s := run (init 0) [.append 1, .append 2]
    iter (Cfi.Legacy.remove s 0) 10 = [0, 1, 2] ∧
    iter (remove s 0) 10 = [1, 2] ∧
    iter (append (Cfi.Legacy.remove s 2) 3) 10 = [0, 1] ∧
    iter (append (remove s 2) 3) 10 = [0, 1, 3] := by decide

/-- D6: bulk removal spares value-equal duplicates of the first element. -/
theorem D6_bulk_removal_by_value :
    let eqv : Id → Id → Bool := fun a b => a % 2 == b % 2
    let s := run (init 0) [.append 1, .append 2]
    iter (Cfi.Legacy.removeMany eqv s [0, 1, 2]) 10 = [0, 2] ∧
    iter ([0, 1, 2].foldl (fun s r => if r ≠ s.root then remove s r else s) s) 10 = [0] := by
  decide

end Props.Legacy
