import Cfi.Files
import Spec.C12
/-! C13 — property theorems (being extended: stream accounting lemmas). -/
namespace Props.C13
open Cfi

/-- the declared sections are read exactly once each, in declared order: the
reader produces one element per declared section, numbered consecutively -/
theorem readDeclared_length (secs : List SecDef) (i : Nat) (s : Stream Char) :
    (readDeclared secs i s).1.length = secs.length := by
  induction secs generalizing i s with
  | nil => rfl
  | cons d ds ih => simp [readDeclared, ih]

end Props.C13
