import Cfi.Files
import Spec.C12
import Proofs.Accounting
import Props.C12
/-! C13 — property theorems: for EVERY content and EVERY list of (raw-storing)
sections. -/
namespace Props.C13
open Cfi Cfi.Regex

/-- the declared sections are read exactly once each, in declared order: the
reader produces one element per declared section… -/
theorem readDeclared_length (secs : List SecDef) (i : Nat) (s : Stream Char) :
    (readDeclared secs i s).1.length = secs.length := by
  induction secs generalizing i s with
  | nil => rfl
  | cons d ds ih => simp [readDeclared, ih]

/-- …numbered consecutively in declaration order (the k-th element is the k-th
declared section) -/
theorem readDeclared_classes (secs : List SecDef) (i : Nat) (s : Stream Char) (k : Nat)
    (hk : k < secs.length) :
    ∃ raw, (readDeclared secs i s).1[k]? = some (SElem.section_ (i + k) raw) := by
  induction secs generalizing i s k with
  | nil => simp at hk
  | cons d ds ih =>
    simp only [readDeclared]
    cases k with
    | zero => exact ⟨(readSection d s).1, by simp⟩
    | succ k =>
      obtain ⟨raw, h⟩ := ih (i + 1) (readSection d s).2 k (by simpa using hk)
      refine ⟨raw, ?_⟩
      simp only [List.getElem?_cons_succ, h]
      congr 2; omega

/-- **Stream hand-off**: each declared section starts where the previous one
stopped, and what they store is exactly what they consumed -/
theorem accounts_readDeclared (secs : List SecDef) (i : Nat) (s : Stream Char) :
    Accounts ((readDeclared secs i s).1.flatMap writeSElem) s (readDeclared secs i s).2 := by
  induction secs generalizing i s with
  | nil => simpa [readDeclared] using accounts_refl s
  | cons d ds ih =>
    simp only [readDeclared, List.flatMap_cons, writeSElem]
    exact (accounts_readSection d s).trans (ih (i + 1) (readSection d s).2)

/-- the leftovers: one default section per remaining line, verbatim -/
theorem leftovers_account : ∀ (fuel : Nat) (s : Stream Char), s.rest.length < fuel →
    (readLeftovers fuel s).flatMap writeSElem = s.rest := by
  intro fuel
  induction fuel with
  | zero => intro s h; omega
  | succ fuel ih =>
    intro s h
    simp only [readLeftovers]
    by_cases hr : s.rest = []
    · simp [Stream.readline_fst, hr, Stream.lineOf]
    · have hne := lineOf_ne_nil '\n' hr
      have hemp : ((s.readline '\n').1).isEmpty = false := by
        cases hl : Stream.lineOf '\n' s.rest with
        | nil => exact absurd hl hne
        | cons _ _ => simp [Stream.readline_fst, hl]
      rw [hemp]
      simp only [Bool.false_eq_true, if_false, List.flatMap_cons, writeSElem]
      have hacc := accounts_readline '\n' s
      have hprog := readline_progress '\n' s hr
      have hl := Props.C12.rest_length_of_accounts hacc hprog
      rw [ih _ (by omega), ← hacc.rest]

/-- every leftover element is a default section holding one line -/
theorem leftovers_are_default (fuel : Nat) (s : Stream Char) :
    ∀ e ∈ readLeftovers fuel s, ∃ l, e = SElem.dflt l := by
  induction fuel generalizing s with
  | zero => simp [readLeftovers]
  | succ fuel ih =>
    simp only [readLeftovers]
    split
    · simp
    · intro e he
      simp at he
      rcases he with rfl | he
      · exact ⟨_, rfl⟩
      · exact ih _ e he

/-- **C13 main theorem**: writing the file read from `x` reproduces `x` exactly,
for every content — empty, shorter than the declared sections expect (a section
reading at the end of input stores `[]`), or longer (leftovers verbatim). -/
theorem write_read_id (secs : List SecDef) (x : List Char) :
    writeSectionFile (readSectionFile secs x) = x := by
  simp only [writeSectionFile, readSectionFile, List.flatMap_cons, writeSElem, List.nil_append,
    List.flatMap_append]
  have hacc := accounts_readDeclared secs 0 ⟨x, 0⟩
  have hlen : (readDeclared secs 0 ⟨x, 0⟩).2.rest.length < x.length + 1 := by
    have := congrArg List.length hacc.rest
    simp [Stream.rest] at this
    simp [Stream.rest] at *
    omega
  rw [leftovers_account _ _ hlen, ← hacc.rest]
  simp [Stream.rest]

theorem main (secs : List SecDef) (x : List Char) :
    Spec.C13.holds secs x ⟨readSectionFile secs x, writeSectionFile (readSectionFile secs x)⟩ = true := by
  have h := write_read_id secs x
  simp only [Spec.C13.holds, beq_self_eq_true, Bool.true_and, Bool.and_eq_true, beq_iff_eq]
  refine ⟨⟨?_, h⟩, h⟩
  -- the first |secs| elements after the placeholder are the declared sections, in order
  simp only [readSectionFile, List.drop_succ_cons, List.drop_zero]
  have hl := readDeclared_length secs 0 ⟨x, 0⟩
  rw [List.take_append_of_le_length (by omega), List.take_of_length_le (by omega)]
  apply List.ext_getElem?
  intro k
  by_cases hk : k < secs.length
  · obtain ⟨raw, hraw⟩ := readDeclared_classes secs 0 ⟨x, 0⟩ k hk
    simp only [List.getElem?_map, List.getElem?_zipIdx, hraw, Option.map_some]
  · have : (readDeclared secs 0 ⟨x, 0⟩).1[k]? = none := by
      rw [List.getElem?_eq_none_iff]; omega
    simp [List.getElem?_map, List.getElem?_zipIdx, this]

/-- non-vacuity: content shorter than the sections expect -/
example : readSectionFile [.fixed 2, .until_ ⟨false, Re.lit "END".toList⟩, .fixed 1] "a\n".toList =
    [.dflt [], .section_ 0 ["a\n".toList], .section_ 1 [], .section_ 2 []] := by decide

end Props.C13
