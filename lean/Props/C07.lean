import Cfi.Container
import Spec.C07
import Proofs.ContainerRepr
/-!
C07 — property theorems.  Everything here quantifies over *all* heaps,
histories and sizes; nothing is bounded.
-/
namespace Props.C07
open Cfi.Container Spec.C07

/-- A heap representing `l` shows exactly the observation `l` prescribes. -/
theorem observe_of_repr {s : Heap} {l : List Id} (h : Repr s l) (k : Nat) :
    holds l (observe s (l.length + k)) = true := by
  have hne : l ≠ [] := by intro e; have := h.root; simp [e] at this
  have hit := h.iter_eq k
  have hbk := h.iterBack_eq k
  simp only [holds, decide_eq_true_eq, observe, expected, hit, hbk]
  have h1 : s.root = l.head?.getD 0 := by rw [h.root]; rfl
  have h2 : s.head = l.getLast?.getD 0 := by rw [h.head]; rfl
  rw [h1, h2]
  congr 1
  apply List.map_congr_left
  intro x hx
  rw [h.next x hx, h.prev x hx]

/-- **C07 main theorem.** Starting from `RegisterData(r)`, after any admissible
history `ops` (any length, re-insertion of removed elements included) the
container shows exactly what an ordinary list subjected to the same history
shows: iteration, length, first, last, every member's links, `is_first` /
`is_last`, and the backward walk. -/
theorem main (r : Id) (ops : List Op) (hok : HistOk [r] ops = true) (k : Nat) :
    holds (specRun [r] ops) (observe (run (init r) ops) ((specRun [r] ops).length + k)) = true :=
  observe_of_repr (repr_run (repr_init r) hok) k

/-- The inductive step on its own: one admissible operation applied to *any*
well-formed state (however it was reached, whatever stale links removed
elements carry). -/
theorem step_preserves {s : Heap} {l : List Id} (h : Repr s l) (op : Op)
    (hok : OpOk l op = true) (k : Nat) :
    holds (specStep l op) (observe (step s op) ((specStep l op).length + k)) = true :=
  observe_of_repr (repr_step h hok) k

/-- First has no predecessor, last no successor. -/
theorem ends {s : Heap} {l : List Id} (h : Repr s l) :
    s.prev s.root = none ∧ s.next s.head = none := ⟨h.prev_root, h.next_head⟩

/-- `RegisterData.add_after` dereferences `after.next` unguarded; on every state
the property quantifies over that is safe. -/
theorem addAfter_deref_safe {s : Heap} {l : List Id} (h : Repr s l) {a : Id} (ha : a ∈ l)
    (hne : a ≠ s.head) : s.next a ≠ none := h.next_ne_none ha hne

/-- Non-vacuity: a concrete history with removal of the first and last element
and re-insertion of a removed element is admissible, and the theorem applies. -/
example :
    let ops := [Op.append 1, .append 2, .remove 0, .remove 2, .prepend 0, .addAfter 0 2, .addBefore 2 3]
    HistOk [0] ops = true ∧ specRun [0] ops = [0, 3, 2, 1] ∧
    (observe (run (init 0) ops) 10).iter = [0, 3, 2, 1] := by decide

end Props.C07
