import Props.C06E
import Props.C09D
/-!
C06 for register files whose fields are integers, literals, floats in either notation and
dates: for every text, read-then-write is a projection and unmatched lines survive verbatim,
with no premise about the records left except the property's own "parsed values are
representable".
-/
namespace Props.C06
open Cfi Cfi.Text Spec.C05 Spec.C06 Props.C05 Props.C01 Spec.C01

/-- a date field of the admitted shape: the format written (the first one) is in the modelled
directive set, starts and ends with a non-blank and holds no line break; no format is empty -/
def DateOk (f : Field) : Prop :=
  ∃ fmt rest, f.kind = .date (fmt :: rest) ∧ Spec.C03.fmtOk fmt = true ∧
    isStripWs (fmt.headD ' ') = false ∧ isStripWs (fmt.getLastD ' ') = false ∧ ¬ '\n' ∈ fmt ∧
    ∀ fm ∈ fmt :: rest, fm ≠ []

/-- "representable" for a date read from a line: its truncation to the format written is a valid
date of year 1000 or later, and its text fits the field -/
def FitD (f : Field) (l : List Char) : Prop :=
  ∀ t, f.readText l = .date t → ∀ fmt rest, f.kind = .date (fmt :: rest) →
    (truncDate fmt t).valid = true ∧ 1000 ≤ (truncDate fmt t).y ∧
    ∀ p, Cfi.Date.strftime (fmt.length + 1) fmt t = some p → p.length ≤ f.size

/-- what a date field reads is missing or a date -/
theorem read_date_cases (f : Field) (l : List Char) (fmts : List (List Char)) (hk : f.kind = .date fmts) :
    f.readText l = .none ∨ ∃ t, f.readText l = .date t := by
  simp only [Field.readText, parseText, hk]
  cases (fmts.findSome? fun fm => Cfi.Date.strptime fm (strip (slice l f.start f.stop))) with
  | none => exact Or.inl rfl
  | some t => exact Or.inr ⟨t, rfl⟩

theorem law_of_read_D (f : Field) (l : List Char) (hk : DateOk f) (hgeo : f.stop = f.size + f.start)
    (hfit : FitD f l) : RenderLaw f (f.readText l) := by
  obtain ⟨fmt, rest, hk, hok, hhead, hlast, _, hne⟩ := hk
  rcases read_date_cases f l _ hk with hv | ⟨t, hv⟩
  · rw [hv]
    exact law_null f .none rfl hgeo (by rw [hk]; exact blankLaw_date _ hne _)
  · obtain ⟨h1, h2, h3⟩ := hfit t hv fmt rest hk
    rw [hv]
    exact law_date f fmt rest t hk hgeo hok h1 h2 hhead hlast h3

theorem no_newline_D (f : Field) (l : List Char) (hk : DateOk f)
    (t : List Char) (ht : renderText f (f.readText l) = .ok t) : ¬ '\n' ∈ t := by
  obtain ⟨fmt, rest, hk, _, _, _, hnl, _⟩ := hk
  rcases read_date_cases f l _ hk with hv | ⟨d, hv⟩
  · rw [hv, render_null f .none rfl] at ht
    injection ht with ht; subst ht
    simp
  · rw [hv] at ht
    cases hp : Cfi.Date.strftime (fmt.length + 1) fmt d with
    | none => simp [renderText, renderRaw, renderFull, hk, Val.isNull, hp, Option.elim, Except.map] at ht
    | some p =>
      simp [renderText, renderRaw, renderFull, hk, Val.isNull, hp, Option.elim, Except.map] at ht
      subst ht
      have hpc := Props.C09.strftime_chars (fun c => c ≠ '\n')
        (fun c hc => by intro e; subst e; exact absurd hc (by decide)) _ fmt d p
        (fun c hc e => hnl (e ▸ hc)) hp
      intro hm
      simp only [ljust, List.mem_append, List.mem_replicate] at hm
      rcases hm with hm | hm
      · exact hpc '\n' hm rfl
      · exact absurd hm.2 (by decide)

theorem canon_some_D (f : Field) (l : List Char) (v : Val) (hk : DateOk f)
    (hvread : v = f.readText l) (hvn : v ≠ .none) (t : List Char) : canon f v t ≠ .none := by
  obtain ⟨fmt, rest, hk, _⟩ := hk
  rcases read_date_cases f l _ hk with hv | ⟨d, hv⟩
  · rw [hvread, hv] at hvn; exact absurd rfl hvn
  · rw [hvread, hv]
    simp [canon, hk, Val.isNull]

/-- the admitted field kinds, dates included -/
def FldAll (f : Field) : Prop := FldFE f ∨ DateOk f

/-- **C06 for files of integer / literal / float / date registers, for every text.** For every
unambiguous list of positional register types whose fields are integers, literals, floats in
F or E notation, or dates (modelled directive set, no line break in the format written), and
every text whose parsed values are representable in their fields (integers fit when printed;
floats as in `FitFE`; a date's truncation to the format written is a valid date of year 1000
or later whose text fits): read-then-write is a projection and `Spec.C06.holds`. -/
theorem main_regs_all (regs : List RegDef) (x : List Char) (hamb : unambiguous regs = true)
    (hdel : ∀ r ∈ regs, r.delimiter = .none)
    (hkinds : ∀ r ∈ regs, ∀ f ∈ r.fields, FldAll f ∧ f.stop = f.size + f.start)
    (hfit : ∀ l ∈ splitLines x, ∀ r ∈ regs, ∀ f ∈ r.fields, ∀ n, f.readText l = .int n →
      (PyInt.pyStr n).length ≤ f.size ∧ n.natAbs < 10 ^ 4300)
    (hfitF : ∀ l ∈ splitLines x, ∀ r ∈ regs, ∀ f ∈ r.fields, FitFE f l)
    (hfitD : ∀ l ∈ splitLines x, ∀ r ∈ regs, ∀ f ∈ r.fields, FitD f l) :
    ∃ y, Spec.C06.rw regs x = some y ∧ Spec.C06.rw regs y = some y ∧ Spec.C06.holds regs x ⟨y, y⟩ = true := by
  apply main_regs_gen regs x hamb hdel
  · intro l hl r hr f hf
    obtain ⟨hk, hgeo⟩ := hkinds r hr f hf
    rcases hk with hk | hk
    · exact law_of_read_FE f l hk hgeo (hfit l hl r hr f hf) (hfitF l hl r hr f hf)
    · exact law_of_read_D f l hk hgeo (hfitD l hl r hr f hf)
  · intro l hl hline r hr f hf t ht
    rcases (hkinds r hr f hf).1 with hk | hk
    · exact no_newline_FE f l hk hline (hfitF l hl r hr f hf) t ht
    · exact no_newline_D f l hk t ht
  · intro l hl r hr f hf v hv hvn t ht
    rcases (hkinds r hr f hf).1 with hk | hk
    · exact canon_some_FE f l v hk hv hvn (hfitF l hl r hr f hf) t ht
    · exact canon_some_D f l v hk hv hvn t

/-- non-vacuity of `main_regs_all`: one register type `AB` with a date field, a text holding the
29th of February 2024 and a free line: every premise is met and the text is a fixed point -/
example :
    let regs := [RegDef.mk "AB".toList 2 [Field.mk' (.date ["%d/%m/%Y".toList]) 10 3] .none]
    let x := "AB 29/02/2024\nfree text\n".toList
    unambiguous regs = true ∧ (∀ r ∈ regs, r.delimiter = .none) ∧
    (∀ r ∈ regs, ∀ f ∈ r.fields, FldAll f ∧ f.stop = f.size + f.start) ∧
    (∀ l ∈ splitLines x, ∀ r ∈ regs, ∀ f ∈ r.fields, ∀ n, f.readText l = .int n →
      (PyInt.pyStr n).length ≤ f.size ∧ n.natAbs < 10 ^ 4300) ∧
    (∀ l ∈ splitLines x, ∀ r ∈ regs, ∀ f ∈ r.fields, FitFE f l) ∧
    (∀ l ∈ splitLines x, ∀ r ∈ regs, ∀ f ∈ r.fields, FitD f l) ∧
    Spec.C06.rw regs x = some x := by
  have hsl : splitLines "AB 29/02/2024\nfree text\n".toList = ["AB 29/02/2024\n".toList, "free text\n".toList] := by
    decide +kernel
  have hD : DateOk (Field.mk' (.date ["%d/%m/%Y".toList]) 10 3) :=
    ⟨"%d/%m/%Y".toList, [], rfl, by decide +kernel, by decide, by decide, by decide,
      by intro fm hfm; simp at hfm; subst hfm; decide⟩
  have hr1 : (Field.mk' (.date ["%d/%m/%Y".toList]) 10 3).readText "AB 29/02/2024\n".toList =
      .date ⟨2024, 2, 29, 0, 0, 0, 0⟩ := by decide +kernel
  have hr2 : (Field.mk' (.date ["%d/%m/%Y".toList]) 10 3).readText "free text\n".toList = .none := by
    decide +kernel
  refine ⟨by decide +kernel, ?_, ?_, ?_, ?_, ?_, by decide +kernel⟩
  · intro r hr; simp only [List.mem_singleton] at hr; subst hr; rfl
  · intro r hr f hf
    simp only [List.mem_singleton] at hr; subst hr
    simp only [List.mem_singleton] at hf; subst hf
    exact ⟨Or.inr hD, rfl⟩
  · intro l hl r hr f hf n hn
    simp only [List.mem_singleton] at hr; subst hr
    simp only [List.mem_singleton] at hf; subst hf
    rw [hsl] at hl
    simp only [List.mem_cons, List.not_mem_nil, or_false] at hl
    rcases hl with rfl | rfl
    · rw [hr1] at hn; exact absurd hn (by simp)
    · rw [hr2] at hn; exact absurd hn (by simp)
  · intro l hl r hr f hf y hy
    simp only [List.mem_singleton] at hr; subst hr
    simp only [List.mem_singleton] at hf; subst hf
    rw [hsl] at hl
    simp only [List.mem_cons, List.not_mem_nil, or_false] at hl
    rcases hl with rfl | rfl
    · rw [hr1] at hy; exact absurd hy (by simp)
    · rw [hr2] at hy; exact absurd hy (by simp)
  · intro l hl r hr f hf t ht fmt rest hk
    simp only [List.mem_singleton] at hr; subst hr
    simp only [List.mem_singleton] at hf; subst hf
    simp only [Field.mk', Kind.date.injEq, List.cons.injEq] at hk
    obtain ⟨rfl, rfl⟩ := hk
    rw [hsl] at hl
    simp only [List.mem_cons, List.not_mem_nil, or_false] at hl
    rcases hl with rfl | rfl
    · rw [hr1] at ht
      injection ht with ht; subst ht
      refine ⟨by decide +kernel, by decide +kernel, ?_⟩
      intro p hp
      have : Cfi.Date.strftime ("%d/%m/%Y".toList.length + 1) "%d/%m/%Y".toList ⟨2024, 2, 29, 0, 0, 0, 0⟩ =
          some "29/02/2024".toList := by decide +kernel
      rw [this] at hp; injection hp with hp; subst hp; decide
    · rw [hr2] at ht; exact absurd ht (by simp)

end Props.C06
