import Props.C11
/-!
The per-token law of C11 for float fields: for a float the canonical form of a token IS
"the double nearest to the decimal emitted", i.e. the parse of the trimmed token — so the law
holds for every non-NaN double that fits its field, in F and in E notation alike, and
`Props.C11.main` applies to delimited lines with float fields without further premises.
-/
namespace Props.C11
open Cfi Cfi.Text Spec.C11

/-- **Floats obey the per-token law** -/
theorem tokLaw_flt (f : Field) (x : Dbl) (dec : Nat) (fmt : Char) (sep : List Char)
    (hk : f.kind = .flt dec fmt sep) (hfit : Spec.C02.fits f (.dbl x) = true) (hn : x.isNaN = false) :
    ∃ r, TokLaw f (.dbl x) r := by
  obtain ⟨r, h1, h2, _⟩ := rendersTo_of_fits f (.dbl x) hfit
  refine ⟨r, h1, h2, ?_⟩
  simp only [canonTok, Spec.C01.canon, Val.isNull, hn, Bool.false_eq_true, if_false, hk, parseText]
  cases Dbl.pyFloat (replace (strip r) sep ['.']) <;> rfl

/-- a missing value in a float field is an empty token and reads back as missing, whatever the
(non-blank, one-character) decimal separator -/
theorem tokLaw_null_flt (f : Field) (v : Val) (hn : v.isNull = true) (dec : Nat) (fmt c : Char)
    (hk : f.kind = .flt dec fmt [c]) (hc : c ≠ ' ') :
    TokLaw f v (List.replicate f.size ' ') := by
  refine ⟨Props.C01.render_null f v hn, by simp, ?_⟩
  rw [strip_replicate_blank, canonTok, Props.C01.canon_null f v _ hn, hk]
  have := Props.C01.blankLaw_flt dec fmt c hc 0
  simp only [Props.C01.BlankLaw, List.replicate_zero] at this
  simp [this]

end Props.C11
