import Cfi.Line
import Cfi.World
import Proofs.ContainerFrame
/-! C14 — property theorems (the value slots of shared `Field` objects are
scratch: what a line writes does not depend on them; World-level locality
theorems are added in `Props/C14` as the model grows). -/
namespace Props.C14
open Cfi

/-- `Repository.values = vs` with at least one value per field overwrites every
slot: the result does not depend on what the slots held before -/
theorem assign_overwrites (s₁ s₂ vs : List Val) (h₁ : s₁.length = s₂.length) (h₂ : s₁.length ≤ vs.length) :
    assign s₁ vs = assign s₂ vs := by
  unfold assign
  rw [h₁]
  have e1 : s₁.drop vs.length = [] := List.drop_eq_nil_of_le h₂
  have e2 : s₂.drop vs.length = [] := List.drop_eq_nil_of_le (by omega)
  rw [e1, e2]

/-- **A write loads its own data into the shared fields before rendering**: the
output of `Line.write(values)` is a function of the layout and the values only —
whatever another register or line left in the shared `Field` objects. -/
theorem write_independent_of_slots (l : Line) (s₁ s₂ vs : List Val) (h₁ : s₁.length = s₂.length)
    (h₂ : s₁.length ≤ vs.length) : l.write s₁ vs = l.write s₂ vs := by
  simp only [Line.write, assign_overwrites s₁ s₂ vs h₁ h₂]

/-- **A read returns a function of the line alone** (and a new list): `Line.read`
takes no slot argument at all in the model, mirroring that every slot it
gathers it has just written (D3 was the exception in delimited mode). -/
theorem read_is_function_of_line (l : Line) (d₁ d₂ : Data) (h : d₁ = d₂) : l.read d₁ = l.read d₂ := by
  rw [h]

end Props.C14

/-! ### World-level locality and non-interference -/
namespace Props.C14
open Cfi Cfi.World

/-- **Frame (registers)**: an operation that does not name register `j` leaves
its data untouched — whatever it does to other registers, files, or the shared
scratch slots. -/
theorem step_frame_reg (w : World) (op : Op) (j : Nat) (h : namesReg op j = false) :
    (step w op).1.regs j = w.regs j := by
  cases op with
  | newReg i data => simp [namesReg] at h; simp [step, upd, Ne.symm h]
  | regRead i line =>
    simp [namesReg] at h
    simp only [step]
    cases w.regs i with
    | none => rfl
    | some _ => cases w.reg.readDataText line <;> simp [upd, Ne.symm h]
  | regWrite i => simp only [step]; cases w.regs i <;> rfl
  | regSet i k v =>
    simp [namesReg] at h
    simp only [step]
    cases w.regs i <;> simp [upd, Ne.symm h]
  | newFile f => rfl
  | fileAppend f i => simp only [step]; cases w.files f <;> rfl
  | fileRemoveLast f => simp only [step]; cases w.files f <;> rfl
  | fileWrite f => rfl

/-- **Frame (files)**: an operation that does not name file `g` leaves its
container untouched. -/
theorem step_frame_file (w : World) (op : Op) (g : Nat) (h : namesFile op g = false) :
    (step w op).1.files g = w.files g := by
  cases op with
  | newReg i data => rfl
  | regRead i line =>
    simp only [step]
    cases w.regs i with
    | none => rfl
    | some _ => cases w.reg.readDataText line <;> rfl
  | regWrite i => simp only [step]; cases w.regs i <;> rfl
  | regSet i k v => simp only [step]; cases w.regs i <;> rfl
  | newFile f => simp [namesFile] at h; simp [step, upd, Ne.symm h]
  | fileAppend f i =>
    simp [namesFile] at h
    simp only [step]; cases w.files f <;> simp [upd, Ne.symm h]
  | fileRemoveLast f =>
    simp [namesFile] at h
    simp only [step]; cases w.files f <;> simp [upd, Ne.symm h]
  | fileWrite f => rfl

/-- the shared layout is never modified by an operation (D11 was the exception) -/
theorem step_reg_def (w : World) (op : Op) : (step w op).1.reg = w.reg := by
  cases op with
  | newReg i data => rfl
  | regRead i line =>
    simp only [step]
    cases w.regs i with
    | none => rfl
    | some _ => cases w.reg.readDataText line <;> rfl
  | regWrite i => simp only [step]; cases w.regs i <;> rfl
  | regSet i k v => simp only [step]; cases w.regs i <;> rfl
  | newFile f => rfl
  | fileAppend f i => simp only [step]; cases w.files f <;> rfl
  | fileRemoveLast f => simp only [step]; cases w.files f <;> rfl
  | fileWrite f => rfl

/-- **Locality (registers)**: the new data of the register an operation names is
a function of its old data, the operation's arguments and the (immutable)
layout only — not of the scratch slots, not of any other object. -/
theorem step_local_reg (w₁ w₂ : World) (op : Op) (j : Nat) (hn : namesReg op j = true)
    (hreg : w₁.reg = w₂.reg) (hd : w₁.regs j = w₂.regs j) :
    (step w₁ op).1.regs j = (step w₂ op).1.regs j := by
  cases op with
  | newReg i data => simp [namesReg] at hn; subst hn; simp [step, upd, hreg]
  | regRead i line =>
    simp [namesReg] at hn; subst hn
    simp only [step, ← hd, hreg]
    cases w₁.regs i with
    | none => simp [← hd]
    | some _ => cases w₂.reg.readDataText line <;> simp [upd, hd]
  | regWrite i =>
    simp [namesReg] at hn; subst hn
    simp only [step, ← hd]
    cases h : w₁.regs i <;> simp [h, ← hd]
  | regSet i k v =>
    simp [namesReg] at hn; subst hn
    simp only [step, ← hd]
    cases w₁.regs i with
    | none => exact hd
    | some d => simp [upd]
  | newFile f => simp [namesReg] at hn
  | fileAppend f i => simp [namesReg] at hn
  | fileRemoveLast f => simp [namesReg] at hn
  | fileWrite f => simp [namesReg] at hn

/-- **What a register writes is a function of its own data** (well-formed data:
one entry per field): two worlds that agree on the register's data and on the
layout produce the same text, whatever the shared fields hold. -/
theorem write_output_local (w₁ w₂ : World) (d : List Val) (hreg : w₁.reg = w₂.reg)
    (hs : w₁.slots.length = w₂.slots.length) (hwf : w₁.slots.length ≤ d.length) :
    regOutput w₁ d = regOutput w₂ d := by
  unfold regOutput
  rw [hreg]
  by_cases he : RegDef.isEmpty d = true
  · simp [he]
  · simp only [he, Bool.false_eq_true, if_false]
    have h1 : (Val.none :: w₁.slots).length = (Val.none :: w₂.slots).length := by
      simp only [List.length_cons, hs]
    have h2 : (Val.none :: w₁.slots).length ≤ (Val.str w₂.reg.ident :: d).length := by
      simp only [List.length_cons]; omega
    rw [write_independent_of_slots (w₂.reg.line .text) _ _ _ h1 h2]

/-- **Non-interference (registers)**: over ANY interleaved history, the data of
register `j` is what the sub-history of the operations naming `j` alone
produces — construct, read, write, mutation of other registers, of files, of
the shared fields' scratch values cannot be observed through `j`. -/
theorem reg_noninterference (ops : List Op) (j : Nat) :
    ∀ (w₁ w₂ : World), w₁.reg = w₂.reg → w₁.regs j = w₂.regs j →
      (run w₁ ops).regs j = (run w₂ (ops.filter fun op => namesReg op j)).regs j := by
  induction ops with
  | nil => intro w₁ w₂ _ hd; exact hd
  | cons op ops ih =>
    intro w₁ w₂ hreg hd
    simp only [run, List.foldl_cons, List.filter_cons]
    cases hn : namesReg op j with
    | false =>
      simp only [Bool.false_eq_true, if_false]
      apply ih
      · rw [step_reg_def]; exact hreg
      · rw [step_frame_reg w₁ op j hn]; exact hd
    | true =>
      simp only [if_true, List.foldl_cons]
      apply ih
      · rw [step_reg_def, step_reg_def]; exact hreg
      · exact step_local_reg w₁ w₂ op j hn hreg hd

/-- **Non-interference (files)**: the member list of a file is what the operations
naming that file alone produce. -/
theorem file_noninterference (ops : List Op) (g : Nat) :
    ∀ (w₁ w₂ : World), w₁.files g = w₂.files g →
      (run w₁ ops).files g = (run w₂ (ops.filter fun op => namesFile op g)).files g := by
  induction ops with
  | nil => intro w₁ w₂ hd; exact hd
  | cons op ops ih =>
    intro w₁ w₂ hd
    simp only [run, List.foldl_cons, List.filter_cons]
    cases hn : namesFile op g with
    | false =>
      simp only [Bool.false_eq_true, if_false]
      apply ih
      rw [step_frame_file w₁ op g hn]; exact hd
    | true =>
      simp only [if_true, List.foldl_cons]
      apply ih
      cases op with
      | newFile f => simp [namesFile] at hn; subst hn; simp [step, upd]
      | fileAppend f i =>
        simp [namesFile] at hn; subst hn
        simp only [step, ← hd]; cases w₁.files f <;> simp [upd, ← hd]
      | fileRemoveLast f =>
        simp [namesFile] at hn; subst hn
        simp only [step, ← hd]; cases w₁.files f <;> simp [upd, ← hd]
      | fileWrite f => simp [step, hd]
      | newReg i data => simp [namesFile] at hn
      | regRead i line => simp [namesFile] at hn
      | regWrite i => simp [namesFile] at hn
      | regSet i k v => simp [namesFile] at hn

/-- files constructed without arguments are independent: a fresh empty container each -/
theorem new_files_independent (w : World) (f g : Nat) (h : f ≠ g) (i : Nat) :
    (run w [.newFile f, .newFile g, .fileAppend f i]).files g = some [] := by
  simp [run, step, upd, h, Ne.symm h]

end Props.C14

/-! ### containers of different files never disturb each other -/
namespace Props.C14
open Cfi.Container

/-- **Two containers, one element store.** The `previous` / `next` links live on the elements;
each container has its own first / last. If container `A` represents the list `lA`, container `B`
(ends `rB`, `hB`) represents `lB`, and they have no member in common, then after ANY admissible
history of operations on `A` that brings in no member of `B`: `A` represents `lA` subjected to the
history and `B` still represents `lB` — iteration, length, first, last, every neighbour link.
Elements outside both containers may carry any links whatever (an element removed from `B`
earlier keeps the links it had then and may be among those `A` takes in): `Repr` constrains
members only. -/
theorem containers_independent {s : Heap} {lA lB : List Id} {rB hB : Id} {ops : List Op}
    (hA : Repr s lA) (hBr : Repr (withEnds s rB hB) lB) (hok : HistOk lA ops = true)
    (hsep : ∀ x ∈ lB, x ∉ lA ∧ ∀ op ∈ ops, op.new? ≠ some x) (k : Nat) :
    iter (run s ops) ((specRun lA ops).length + k) = specRun lA ops ∧
    iter (withEnds (run s ops) rB hB) (lB.length + k) = lB ∧
    iterBack (withEnds (run s ops) rB hB) (lB.length + k) = lB.reverse := by
  obtain ⟨h1, h2⟩ := run_frame hA hBr hok hsep
  exact ⟨h1.iter_eq k, h2.iter_eq k, h2.iterBack_eq k⟩

/-- non-vacuity, the history of seeded change C14-p: `A = [0, 1, 2]` loses `2`, gets `3` in its
place; `2` — which still points back at `1` — is then appended to `B = [10]`. On the model of the
(unchanged) code `A` stays `[0, 1, 3]` and `B` becomes `[10, 2]` -/
example :
    let a0 := run (init 0) [.append 1, .append 2]
    let a1 := run a0 [.remove 2, .append 3]
    -- `B` is built over the same links: `10` alone, then `2` appended through `B`'s ends
    let b := withEnds a1 10 10
    let b1 := step b (.append 2)
    iter (withEnds b1 a1.root a1.head) 10 = [0, 1, 3] ∧ iter b1 10 = [10, 2] ∧
    iterBack (withEnds b1 a1.root a1.head) 10 = [3, 1, 0] := by
  decide

end Props.C14
