import Cfi.Line
/-! C14 — property theorems (the value slots of shared `Field` objects are
scratch: what a line writes does not depend on them; World-level locality
theorems are added in `Props/C14` as the model grows). -/
namespace Props.C14
open Cfi

/-- `Repository.values = vs` with at least one value per field overwrites every
slot: the result does not depend on what the slots held before -/
theorem assign_overwrites (s₁ s₂ vs : List Val) (h₁ : s₁.length = s₂.length) (h₂ : s₁.length ≤ vs.length) :
    assign s₁ vs = assign s₂ vs := by
  unfold assign
  rw [h₁]
  have e1 : s₁.drop vs.length = [] := List.drop_eq_nil_of_le h₂
  have e2 : s₂.drop vs.length = [] := List.drop_eq_nil_of_le (by omega)
  rw [e1, e2]

/-- **A write loads its own data into the shared fields before rendering**: the
output of `Line.write(values)` is a function of the layout and the values only —
whatever another register or line left in the shared `Field` objects. -/
theorem write_independent_of_slots (l : Line) (s₁ s₂ vs : List Val) (h₁ : s₁.length = s₂.length)
    (h₂ : s₁.length ≤ vs.length) : l.write s₁ vs = l.write s₂ vs := by
  simp only [Line.write, assign_overwrites s₁ s₂ vs h₁ h₂]

/-- **A read returns a function of the line alone** (and a new list): `Line.read`
takes no slot argument at all in the model, mirroring that every slot it
gathers it has just written (D3 was the exception in delimited mode). -/
theorem read_is_function_of_line (l : Line) (d₁ d₂ : Data) (h : d₁ = d₂) : l.read d₁ = l.read d₂ := by
  rw [h]

end Props.C14
