import Props.C10
import Props.C09D
/-!
C10 in binary storage with the per-field binary law discharged: for streams of registers whose
fields are integers, ASCII literals, floats (any of the three IEEE widths) and dates, no premise
about the fields is left beyond the decidable domain guard of C09 (and, for dates, two facts
about the declared formats).
-/
namespace Props.C10
open Cfi Cfi.Text Spec.C10

/-- **C10, binary storage, registers without date fields**: every stream of registers whose
values are admitted by `Spec.C09.fieldInDomain` (in-range integers, ASCII literals that fit,
floats, missing values) is written as records of identifier width plus field widths bytes,
each recognised by its own type and read back to the canonical data, with every read consuming
exactly the bytes its write produced. -/
theorem binary_nodate (items : List (RegDef × List Val))
    (hcont : ∀ item ∈ items, contiguous item.1 = true)
    (hid : ∀ item ∈ items, item.1.ident.length ≤ item.1.digits ∧ ∀ c ∈ item.1.ident, c.toNat < 128)
    (hlen : ∀ item ∈ items, item.1.fields.length = item.2.length ∧ RegDef.isEmpty item.2 = false)
    (hdom : ∀ item ∈ items, ∀ fv ∈ item.1.fields.zip item.2,
      Spec.C09.fieldInDomain fv.1 fv.2 = true ∧ ∀ fmts, fv.1.kind ≠ .date fmts) :
    ∃ obs, run .binary items = some obs ∧ Spec.C10.holds .binary items obs = true := by
  apply binary items
  intro item hitem
  exact ⟨hcont item hitem, (hid item hitem).1, (hid item hitem).2, (hlen item hitem).1, (hlen item hitem).2,
    fun fv hfv => Props.C09.binLaw_of_domain fv.1 fv.2 (hdom item hitem fv hfv).1 (hdom item hitem fv hfv).2⟩

/-- **C10, binary storage, every field kind**: the same for streams of registers that also have
date fields (no empty format, a first format that does not end in white space; values
admitted by `Spec.C09.fieldInDomain`: ASCII format, valid truncation, year at least 1000, text
that fits). -/
theorem binary_all (items : List (RegDef × List Val))
    (hcont : ∀ item ∈ items, contiguous item.1 = true)
    (hid : ∀ item ∈ items, item.1.ident.length ≤ item.1.digits ∧ ∀ c ∈ item.1.ident, c.toNat < 128)
    (hlen : ∀ item ∈ items, item.1.fields.length = item.2.length ∧ RegDef.isEmpty item.2 = false)
    (hdom : ∀ item ∈ items, ∀ fv ∈ item.1.fields.zip item.2,
      Spec.C09.fieldInDomain fv.1 fv.2 = true ∧ Props.C09.DateFmtsOk fv.1) :
    ∃ obs, run .binary items = some obs ∧ Spec.C10.holds .binary items obs = true := by
  apply binary items
  intro item hitem
  exact ⟨hcont item hitem, (hid item hitem).1, (hid item hitem).2, (hlen item hitem).1, (hlen item hitem).2,
    fun fv hfv => Props.C09.binLaw_of_domain_all fv.1 fv.2 (hdom item hitem fv hfv).1 (hdom item hitem fv hfv).2⟩

end Props.C10
