import Cfi.Version
import Spec.C19
/-! C19 — property theorems. -/
namespace Props.C19
open Cfi.Version Spec.C19

theorem leKey_iff {a b : Key} : leKey a b = true ↔ a ≤ b := by simp [leKey]

theorem key_le_trans {a b c : Key} (h₁ : a ≤ b) (h₂ : b ≤ c) : a ≤ c := List.le_trans h₁ h₂
theorem key_le_total (a b : Key) : a ≤ b ∨ b ≤ a := List.le_total a b
theorem key_le_antisymm {a b : Key} (h₁ : a ≤ b) (h₂ : b ≤ a) : a = b := List.le_antisymm h₁ h₂
theorem key_le_refl (a : Key) : a ≤ a := List.le_refl a

theorem sorted_sortKeys (keys : List Key) : (sortKeys keys).Pairwise (fun a b => a ≤ b) := by
  have := List.pairwise_mergeSort (le := leKey)
    (fun a b c h₁ h₂ => leKey_iff.2 (key_le_trans (leKey_iff.1 h₁) (leKey_iff.1 h₂)))
    (fun a b => by
      rcases key_le_total a b with h | h
      · simp [leKey_iff.2 h]
      · simp [leKey_iff.2 h]) keys
  exact this.imp (fun h => leKey_iff.1 h)

/-- the last element of a sorted list dominates every element -/
theorem getLast_max {l : List Key} (hs : l.Pairwise (fun a b => a ≤ b)) {k : Key}
    (hk : l.getLast? = some k) : ∀ x ∈ l, x ≤ k := by
  induction l with
  | nil => simp at hk
  | cons a t ih =>
    cases t with
    | nil =>
      simp at hk; subst hk
      intro x hx; simp at hx; subst hx; exact key_le_refl _
    | cons b t =>
      rw [List.getLast?_cons_cons] at hk
      have hs' := List.pairwise_cons.mp hs
      intro x hx
      rcases List.mem_cons.mp hx with rfl | hx
      · exact hs'.1 k (List.mem_of_getLast? hk)
      · exact ih hs'.2 hk x hx

/-- **Selection theorem**: `set_version(v)` selects the greatest declared key
that is `≤ v` in string order. -/
theorem closest_spec {keys : List Key} {v k : Key} (h : closest keys v = some k) :
    isGreatestBelow keys v k := by
  unfold closest at h
  have hs := (sorted_sortKeys keys).sublist (List.filter_sublist (p := fun k => leKey k v))
  have hmem := List.mem_of_getLast? h
  rw [List.mem_filter] at hmem
  refine ⟨?_, leKey_iff.1 hmem.2, ?_⟩
  · exact List.mem_mergeSort.mp hmem.1
  · intro k' hk' hle
    apply getLast_max hs h
    rw [List.mem_filter]
    exact ⟨List.mem_mergeSort.mpr hk', leKey_iff.2 hle⟩

/-- no key `≤ v` ⇔ nothing is selected (and the active list is left unchanged) -/
theorem closest_none {keys : List Key} {v : Key} :
    closest keys v = none ↔ ∀ k ∈ keys, ¬ k ≤ v := by
  unfold closest
  rw [List.getLast?_eq_none_iff, List.filter_eq_nil_iff]
  constructor
  · intro h k hk hle
    exact h k (List.mem_mergeSort.mpr hk) (leKey_iff.2 hle)
  · intro h k hk hle
    exact h k (List.mem_mergeSort.mp hk) (leKey_iff.1 hle)

/-- the greatest key below `v` is unique -/
theorem greatest_unique {keys : List Key} {v k₁ k₂ : Key}
    (h₁ : isGreatestBelow keys v k₁) (h₂ : isGreatestBelow keys v k₂) : k₁ = k₂ :=
  key_le_antisymm (h₂.2.2 k₁ h₁.1 h₁.2.1) (h₁.2.2 k₂ h₂.1 h₂.2.1)

/-- **Order independence**: the selection does not depend on the order in which
the versions were declared (any permutation of the keys). -/
theorem closest_perm {keys₁ keys₂ : List Key} (hp : keys₁.Perm keys₂) (v : Key) :
    closest keys₁ v = closest keys₂ v := by
  cases h₁ : closest keys₁ v with
  | none =>
    symm
    rw [closest_none] at h₁ ⊢
    intro k hk; exact h₁ k (hp.mem_iff.mpr hk)
  | some k₁ =>
    cases h₂ : closest keys₂ v with
    | none =>
      rw [closest_none] at h₂
      have := closest_spec h₁
      exact absurd this.2.1 (h₂ k₁ (hp.mem_iff.mp this.1))
    | some k₂ =>
      have s₁ := closest_spec h₁
      have s₂ := closest_spec h₂
      have s₂' : isGreatestBelow keys₁ v k₂ :=
        ⟨hp.mem_iff.mpr s₂.1, s₂.2.1, fun k' hk' hle => s₂.2.2 k' (hp.mem_iff.mp hk') hle⟩
      rw [greatest_unique s₁ s₂']

/-- the order-free fold used by the run-time oracle computes the same key -/
theorem greatestBelow_spec (keys : List Key) (v : Key) :
    (∀ k, greatestBelow keys v = some k → isGreatestBelow keys v k) ∧
    (greatestBelow keys v = none → ∀ k ∈ keys, ¬ k ≤ v) := by
  unfold greatestBelow
  -- invariant of the fold over a prefix `pre` processed so far
  have key : ∀ (rest pre : List Key) (best : Option Key),
      (∀ k, best = some k → isGreatestBelow pre v k) → (best = none → ∀ k ∈ pre, ¬ k ≤ v) →
      let r := rest.foldl (fun best k =>
        if leKey k v then
          match best with
          | none => some k
          | some b => if leKey b k then some k else some b
        else best) best
      (∀ k, r = some k → isGreatestBelow (pre ++ rest) v k) ∧ (r = none → ∀ k ∈ pre ++ rest, ¬ k ≤ v) := by
    intro rest
    induction rest with
    | nil =>
      intro pre best h1 h2
      simp only [List.foldl_nil, List.append_nil]
      exact ⟨h1, h2⟩
    | cons x rest ih =>
      intro pre best h1 h2
      simp only [List.foldl_cons]
      have e : pre ++ x :: rest = (pre ++ [x]) ++ rest := by simp
      rw [e]
      apply ih
      · intro k hk
        by_cases hx : leKey x v = true
        · simp only [hx, if_true] at hk
          cases best with
          | none =>
            simp at hk; subst hk
            refine ⟨by simp, leKey_iff.1 hx, ?_⟩
            intro k' hk' hle
            rcases List.mem_append.mp hk' with hp | hp
            · exact absurd hle (h2 rfl k' hp)
            · simp at hp; subst hp; exact key_le_refl _
          | some b =>
            have hb := h1 b rfl
            by_cases hbx : leKey b x = true
            · simp [hbx] at hk; subst hk
              refine ⟨by simp, leKey_iff.1 hx, ?_⟩
              intro k' hk' hle
              rcases List.mem_append.mp hk' with hp | hp
              · exact key_le_trans (hb.2.2 k' hp hle) (leKey_iff.1 hbx)
              · simp at hp; subst hp; exact key_le_refl _
            · simp [hbx] at hk; subst hk
              refine ⟨by simp [hb.1], hb.2.1, ?_⟩
              intro k' hk' hle
              rcases List.mem_append.mp hk' with hp | hp
              · exact hb.2.2 k' hp hle
              · have e' : k' = x := by simpa using hp
                rw [e']
                rcases key_le_total b x with h | h
                · exact absurd (leKey_iff.2 h) hbx
                · exact h
        · simp only [hx] at hk
          simp at hk
          have hb := h1 k hk
          refine ⟨by simp [hb.1], hb.2.1, ?_⟩
          intro k' hk' hle
          rcases List.mem_append.mp hk' with hp | hp
          · exact hb.2.2 k' hp hle
          · simp at hp; subst hp; exact absurd (leKey_iff.2 hle) hx
      · intro hnone k hk
        by_cases hx : leKey x v = true
        · simp only [hx, if_true] at hnone
          cases best with
          | none => simp at hnone
          | some b => by_cases hbx : leKey b x = true <;> simp [hbx] at hnone
        · simp only [hx] at hnone
          simp at hnone
          rcases List.mem_append.mp hk with hp | hp
          · exact h2 hnone k hp
          · simp at hp; subst hp; exact fun hle => hx (leKey_iff.2 hle)
  have := key keys [] none (by simp) (by simp)
  simp only [List.nil_append] at this
  exact this

/-- the code's sorted/filter/last and the order-free maximum agree -/
theorem closest_eq_greatestBelow (keys : List Key) (v : Key) :
    closest keys v = greatestBelow keys v := by
  have hg := greatestBelow_spec keys v
  cases h₁ : closest keys v with
  | none =>
    cases h₂ : greatestBelow keys v with
    | none => rfl
    | some k =>
      have := hg.1 k h₂
      exact absurd this.2.1 (closest_none.mp h₁ k this.1)
  | some k₁ =>
    cases h₂ : greatestBelow keys v with
    | none =>
      have := closest_spec h₁
      exact absurd this.2.1 (hg.2 h₂ k₁ this.1)
    | some k₂ => rw [greatest_unique (closest_spec h₁) (hg.1 k₂ h₂)]

/-! ### class isolation -/

/-- `set_version` on class `c` assigns on `c` only: the own attribute of every
other class is untouched -/
theorem setVersion_own (cs : Classes) (fuel c : Nat) (v : Key) (d : Nat) (hd : d ≠ c) :
    (setVersion cs fuel c v).ownActive d = cs.ownActive d := by
  simp only [setVersion]
  split
  · rfl
  · split
    · simp [hd]
    · rfl

theorem setVersion_parent (cs : Classes) (fuel c : Nat) (v : Key) :
    (setVersion cs fuel c v).parent = cs.parent := by
  simp only [setVersion]; split
  · rfl
  · split <;> rfl

/-- one selection on the model, in terms of the order-free maximum: the own
attribute of `c` becomes the list declared for the greatest key `≤ v`; with no
such key it is left unchanged -/
theorem setVersion_active (cs : Classes) (fuel c : Nat) (v : Key) :
    (setVersion cs fuel c v).ownActive c =
      match greatestBelow ((cs.versions fuel c).map (·.1)) v with
      | some k => ((cs.versions fuel c).get k).orElse fun _ => cs.ownActive c
      | none => cs.ownActive c := by
  simp only [setVersion, closest_eq_greatestBelow]
  cases greatestBelow ((cs.versions fuel c).map (·.1)) v with
  | none => rfl
  | some k =>
    simp only
    cases (cs.versions fuel c).get k with
    | none => rfl
    | some l => simp

/-- `c` is `d` or one of its ancestors -/
def reaches (parent : Nat → Option Nat) : Nat → Nat → Nat → Bool
  | 0, d, c => d == c
  | fuel + 1, d, c => d == c || match parent d with
      | some p => reaches parent fuel p c
      | none => false

/-- **Class isolation**: selecting a version on `c` does not change the active
list seen from any class that does not have `c` on its lookup path — in
particular its parent and its siblings. -/
theorem setVersion_isolated (cs : Classes) (fuel c : Nat) (v : Key) (n d : Nat)
    (h : reaches cs.parent n d c = false) :
    (setVersion cs fuel c v).active n d = cs.active n d := by
  unfold Classes.active
  rw [setVersion_parent]
  induction n generalizing d with
  | zero =>
    simp [reaches] at h
    simp [lookup, setVersion_own cs fuel c v d h]
  | succ n ih =>
    simp only [reaches, Bool.or_eq_false_iff, beq_eq_false_iff_ne] at h
    simp only [lookup, setVersion_own cs fuel c v d h.1]
    cases cs.ownActive d with
    | some x => rfl
    | none =>
      cases hp : cs.parent d with
      | none => rfl
      | some p =>
        simp only [hp] at h
        exact ih p h.2

/-- the code's selection and the order-free statement are the same function -/
theorem setVersion_eq_specSelect (cs : Classes) (fuel c : Nat) (v : Key) :
    setVersion cs fuel c v = specSelect cs fuel c v := by
  simp only [setVersion, specSelect, closest_eq_greatestBelow]
  rfl

/-- **History theorem**: for every class table, every history of selections on
any classes (parent, child, sibling, in any interleaving) and every set of
observed classes, the model's trace of active lists is the trace the
statement prescribes. -/
theorem trace_eq (fuel : Nat) (watch : List Nat) (cs : Classes) (ops : List (Nat × Key)) :
    specTrace setVersion fuel watch cs ops = specTrace specSelect fuel watch cs ops := by
  induction ops generalizing cs with
  | nil => rfl
  | cons op ops ih =>
    obtain ⟨c, v⟩ := op
    simp only [specTrace, setVersion_eq_specSelect, ih]

theorem main (cs : Classes) (fuel : Nat) (watch : List Nat) (ops : List (Nat × Key)) :
    holdsTrace cs fuel watch ops (specTrace setVersion fuel watch cs ops) = true := by
  simp [holdsTrace, trace_eq]

/-- the same for an observer of list contents (a declared empty list looks like the default) -/
theorem main_content (emptyId : Option Nat) (cs : Classes) (fuel : Nat) (watch : List Nat) (ops : List (Nat × Key)) :
    holdsTraceContent emptyId cs fuel watch ops
      (contentTrace emptyId (specTrace setVersion fuel watch cs ops)) = true := by
  simp [holdsTraceContent, trace_eq]

/-- non-vacuity: keys declared out of order, requests below / between / equal /
above; `v10 < v2` in string order -/
example :
    let keys : List Key := ["v2".toList, "v1".toList, "v10".toList]
    closest keys "v0".toList = none ∧ closest keys "v1".toList = some "v1".toList ∧
    closest keys "v1.5".toList = some "v1".toList ∧ closest keys "v10x".toList = some "v10".toList ∧
    closest keys "v9".toList = some "v2".toList := by
  simp only [closest_eq_greatestBelow]
  decide

end Props.C19

namespace Props.C19
open Cfi.Version Spec.C19

/-! ### programs that also change the tables between selections -/

theorem step_eq (cs : Classes) (fuel : Nat) (op : Op) :
    step setVersion cs fuel op = step specSelect cs fuel op := by
  cases op <;> simp only [step, setVersion_eq_specSelect]

/-- **History theorem for programs**: for every class table and every program of selections,
assignments of a whole version table, in-place edits of the table a class sees (its own or an
inherited one) and assignments of the active list, on any classes in any interleaving: the
model's trace is the trace the statement prescribes — every selection picks the greatest key
not after the request of the table AS IT IS WHEN THE SELECTION IS MADE. -/
theorem progTrace_eq (fuel : Nat) (watch : List Nat) (cs : Classes) (ops : List Op) :
    progTrace setVersion fuel watch cs ops = progTrace specSelect fuel watch cs ops := by
  induction ops generalizing cs with
  | nil => rfl
  | cons op ops ih => simp only [progTrace, step_eq, ih]

theorem main_prog (emptyId : Option Nat) (cs : Classes) (fuel : Nat) (watch : List Nat) (ops : List Op) :
    holdsProg emptyId cs fuel watch ops (contentTrace emptyId (progTrace setVersion fuel watch cs ops)) = true := by
  simp [holdsProg, progTrace_eq]

/-- a program of selections only is a history of the first kind -/
theorem progTrace_selects (sel : Classes → Nat → Nat → Key → Classes) (fuel : Nat) (watch : List Nat)
    (cs : Classes) (ops : List (Nat × Key)) :
    progTrace sel fuel watch cs (ops.map fun cv => Op.select cv.1 cv.2) = specTrace sel fuel watch cs ops := by
  induction ops generalizing cs with
  | nil => rfl
  | cons op ops ih =>
    obtain ⟨c, v⟩ := op
    simp only [List.map_cons, progTrace, specTrace, step, ih]

/-- changing a table changes no active list: only selections and list assignments do -/
theorem tableOps_frame (sel : Classes → Nat → Nat → Key → Classes) (cs : Classes) (fuel : Nat) (op : Op)
    (h : ∀ c v, op ≠ .select c v) (h' : ∀ c l, op ≠ .assignActive c l) (n d : Nat) :
    (step sel cs fuel op).active n d = cs.active n d := by
  cases op with
  | select c v => exact absurd rfl (h c v)
  | assignActive c l => exact absurd rfl (h' c l)
  | assignTable c t => rfl
  | setItem c k lst =>
    simp only [step, editTable]
    cases ownerOf cs.ownVersions cs.parent fuel c <;> rfl
  | delItem c k =>
    simp only [step, editTable]
    cases ownerOf cs.ownVersions cs.parent fuel c <;> rfl

/-- a table bound on the class itself is the table its next selection reads -/
theorem versions_after_assign (sel : Classes → Nat → Nat → Key → Classes) (cs : Classes) (fuel c : Nat) (t : Table) :
    (step sel cs fuel (.assignTable c t)).versions fuel c = t := by
  simp only [step, Classes.versions]
  cases fuel <;> simp [lookup]

/-- non-vacuity: the child inherits `{v1: 10}`; a selection of `v2` activates list 10; the child
is then given a table of its own with a key `v2`, and the same request activates list 20; an
in-place edit of that table adds `v15`, which a request `v19` then finds; the parent's active
list never moves -/
example :
    let cs : Classes := {
      parent := fun c => if c == 1 then some 0 else none
      ownActive := fun c => if c == 0 then some 7 else none
      ownVersions := fun c => if c == 0 then some [("v1".toList, 10)] else none }
    progTrace setVersion 3 [0, 1] cs
      [.select 1 "v2".toList, .assignTable 1 [("v1".toList, 11), ("v2".toList, 20)], .select 1 "v2".toList,
       .setItem 1 "v15".toList 15, .select 1 "v19".toList] =
      [[some 7, some 10], [some 7, some 10], [some 7, some 20], [some 7, some 20], [some 7, some 15]] := by
  simp only [progTrace_eq]
  decide +kernel

end Props.C19
