import Props.C01
import Proofs.FloatClauses
/-!
C01 in full for layouts with F-notation floats: the whole of `Spec.C01.holds`, the float
clauses (dialect, half-unit accuracy, maximal number of decimals) included.
-/
namespace Props.C01
open Cfi Cfi.Text Spec.C01 Proofs.FloatClauses

/-- pairing facts over a zip and over its first components -/
theorem all2_zip_mem {α β γ : Type} {R1 : α × β → γ → Prop} {R2 : α → γ → Prop}
    (as : List α) (bs : List β) (rs : List γ) (hlen : as.length = bs.length)
    (h1 : All2 R1 (as.zip bs) rs) (h2 : All2 R2 as rs) :
    ∀ ab ∈ as.zip bs, ∃ r, R1 ab r ∧ R2 ab.1 r := by
  induction as generalizing bs rs with
  | nil => intro ab hab; simp at hab
  | cons a as ih =>
    cases bs with
    | nil => simp at hlen
    | cons b bs =>
      simp only [List.zip_cons_cons] at h1
      cases h1 with
      | @cons _ r _ rs' ha hrest =>
        cases h2 with
        | cons hb hrest2 =>
          intro ab hab
          simp only [List.zip_cons_cons, List.mem_cons] at hab
          rcases hab with rfl | hab
          · exact ⟨r, ha, hb⟩
          · exact ih bs rs' (by simpa using hlen) hrest hrest2 ab hab

/-- the float clauses hold trivially for everything that is not a non-missing float -/
theorem floatClauses_trivial (f : Field) (v : Val) (span : List Char)
    (h : ∀ dec fmt sep, f.kind = .flt dec fmt sep → v.isNull = true) : floatClauses f v span = true := by
  simp only [floatClauses]
  split
  · rename_i _ _ dec fmt sep x hk
    have := h dec fmt sep hk
    simp only [Val.isNull] at this
    simp [this]
  · rfl

/-- the float clauses for one field of an admitted layout: nothing to show unless it holds a
non-missing float -/
theorem clauses_F (f : Field) (v : Val) (r : List Char) (hd : fieldInDomain f v = true)
    (hflt : FloatF f v) (hrend : rendersTo f v r) : floatClauses f v r = true := by
  by_cases hnull : ∀ dec fmt sep, f.kind = .flt dec fmt sep → v.isNull = true
  · exact floatClauses_trivial f v r hnull
  · have : ∃ dec fmt sep, f.kind = .flt dec fmt sep ∧ v.isNull = false := by
      apply Classical.byContradiction
      intro hno
      apply hnull
      intro dec fmt sep hk
      cases hv : v.isNull with
      | true => rfl
      | false => exact absurd ⟨dec, fmt, sep, hk, hv⟩ hno
    obtain ⟨dec, fmt, sep, hk, hv⟩ := this
    rcases hflt dec fmt sep hk with hn | ⟨hfmt, hdec, neg, m, e, hve, hwf⟩
    · rw [hn] at hv; exact absurd hv (by simp)
    · subst hve
      have hd1 := hd
      simp only [fieldInDomain, Bool.and_eq_true, decide_eq_true_eq, hk] at hd1
      obtain ⟨⟨hft, _⟩, hsep, _⟩ := hd1
      obtain ⟨c, rfl⟩ : ∃ c, sep = [c] := by
        cases sep with
        | nil => simp [sepOk] at hsep
        | cons c t =>
          cases t with
          | nil => exact ⟨c, rfl⟩
          | cons _ _ => simp [sepOk] at hsep
      obtain ⟨hc1, hc2, hc3⟩ := sep_facts hsep
      -- the loop's result
      have hft' := hft
      simp only [Spec.C02.fits, Bool.and_eq_true, beq_iff_eq] at hft'
      obtain ⟨_, hren⟩ := hft'
      have hloop : ∃ s, floatLoopF (.fin neg m e) f.size (fmt == 'F') dec = .ok s ∧ s.length ≤ f.size := by
        unfold renderFull at hren
        rw [hk] at hren
        rcases hfmt with rfl | rfl
        · cases hh : floatLoopF (.fin neg m e) f.size true dec with
          | error ex => simp [Val.isNull, Dbl.isNaN, hh, Except.map] at hren
          | ok s =>
            simp [Val.isNull, Dbl.isNaN, hh, Except.map, Proofs.FloatLaw.replace_single, Proofs.FloatLaw.subst1_length] at hren
            exact ⟨s, by simpa using hh, hren⟩
        · cases hh : floatLoopF (.fin neg m e) f.size false dec with
          | error ex => simp [Val.isNull, Dbl.isNaN, hh, Except.map] at hren
          | ok s =>
            simp [Val.isNull, Dbl.isNaN, hh, Except.map, Proofs.FloatLaw.replace_single, Proofs.FloatLaw.subst1_length] at hren
            exact ⟨s, by simpa using hh, hren⟩
      obtain ⟨s, hs, hslen⟩ := hloop
      obtain ⟨t, r', d', h1, _, _, _, hd', _, hteq, hno⟩ :=
        Proofs.FloatLoop.fltF_core_gen f dec fmt c hk hfmt hc1 hc2 hc3 neg m e hwf hdec s hs hslen
      -- the rendering is unique
      have hrt : r = t := by
        have := hrend.1
        rw [h1] at this
        injection this with this
        exact this.symm
      rw [hrt, hteq]
      unfold rjust
      exact floatClauses_F f dec fmt c hk hfmt hsep neg m e hwf.2.1 d' hd' _ hno

/-- the whole of `Spec.C01.holds` from read-back, stability and the float clauses of every
field's rendering -/
theorem holds_of_clauses (fs : List Field) (vs : List Val) (h : inDomain fs vs = true) (o : Obs)
    (hc : cycle fs vs = some o) (hst : o.rewritten = o.written)
    (hrb : o.readBack = (fs.zip vs).map (fun fv => canon fv.1 fv.2 (slice o.written fv.1.start fv.1.stop)))
    (hcl : ∀ fv ∈ fs.zip vs, ∀ r, rendersTo fv.1 fv.2 r → floatClauses fv.1 fv.2 r = true) :
    holds fs vs o = true := by
  simp only [holds, Bool.and_eq_true, beq_iff_eq, List.all_eq_true]
  refine ⟨⟨hst, hrb⟩, ?_⟩
  -- the spans of the written line
  have hdom0 := h
  simp only [inDomain, Bool.and_eq_true, beq_iff_eq, List.all_eq_true] at hdom0
  obtain ⟨⟨hlen, hdis⟩, hdom⟩ := hdom0
  have hD := Disjoint_of_bool' fs hdis
  have hfits : ∀ fv ∈ fs.zip vs, Spec.C02.fits fv.1 fv.2 = true := by
    intro fv hfv
    have := hdom fv hfv
    simp only [fieldInDomain, Bool.and_eq_true] at this
    exact this.1.1
  obtain ⟨rs, hr⟩ := all2_rendersTo_of_fits fs vs hlen hfits
  have hw : writePos fs vs = .ok o.written := by
    unfold cycle at hc
    cases hwp : writePos fs vs with
    | error e => simp [hwp] at hc
    | ok w =>
      simp only [hwp] at hc
      cases hw2 : writePos fs (readPos fs w) with
      | error e => simp [hw2] at hc
      | ok w2 =>
        simp only [hw2, Option.some.injEq] at hc
        rw [← hc]
  have hsp := spans_written fs vs rs o.written hlen hD hr hw
  have hmem := all2_zip_mem fs vs rs hlen hr hsp
  intro fv hfv
  obtain ⟨f, v⟩ := fv
  obtain ⟨r, hrend, hslice⟩ := hmem (f, v) hfv
  simp only [] at hrend hslice ⊢
  rw [hslice]
  exact hcl (f, v) hfv r hrend

/-- **C01 in full, F-notation floats included.** For every layout and value list admitted by
`Spec.C01.inDomain` whose non-missing floats are finite doubles (any of them) in F-notation
fields of at most 323 decimals, the model's write / read / re-write cycle satisfies the whole
of `Spec.C01.holds`: values read back are the canonical forms, the re-written text is
identical, and every float is written in the configured dialect, within half a unit of its
last emitted decimal, with the largest number of decimals that fits. -/
theorem main_F_full (fs : List Field) (vs : List Val) (h : inDomain fs vs = true)
    (hdate : ∀ fv ∈ fs.zip vs, ∀ fmts, fv.1.kind = .date fmts → fv.2.isNull = true → ∀ fm ∈ fmts, fm ≠ [])
    (hbig : ∀ v ∈ vs, ∀ n, v = .int n → n.natAbs < 10 ^ 4300)
    (hflt : ∀ fv ∈ fs.zip vs, FloatF fv.1 fv.2) :
    ∃ o, cycle fs vs = some o ∧ holds fs vs o = true := by
  obtain ⟨o, hc, hst, hrb⟩ := main_F fs vs h hdate hbig hflt
  refine ⟨o, hc, holds_of_clauses fs vs h o hc hst hrb ?_⟩
  intro fv hfv r hrend
  have hdom0 := h
  simp only [inDomain, Bool.and_eq_true, beq_iff_eq, List.all_eq_true] at hdom0
  exact clauses_F fv.1 fv.2 r (hdom0.2 fv hfv) (hflt fv hfv) hrend

/-- non-vacuity: an integer and the double 1.5 (decimal comma, two decimals) meet every premise
of `main_F_full`, and the cycle is the expected one -/
example :
    let fs := [Field.mk' .int 5 1, Field.mk' (.flt 2 'F' [',']) 8 8]
    let vs := [Val.int (-42), Val.dbl (.fin false (2 ^ 52 + 2 ^ 51) (-52))]
    inDomain fs vs = true ∧ (∀ fv ∈ fs.zip vs, FloatF fv.1 fv.2) ∧
    cycle fs vs = some ⟨"   -42      1,50\n".toList, vs, "   -42      1,50\n".toList⟩ := by
  refine ⟨by decide +kernel, ?_, by decide +kernel⟩
  intro fv hfv
  simp only [List.zip_cons_cons, List.zip_nil_right, List.mem_cons, List.not_mem_nil, or_false] at hfv
  rcases hfv with rfl | rfl
  · intro dec fmt sep hk; simp [Field.mk'] at hk
  · intro dec fmt sep hk
    simp only [Field.mk', Kind.flt.injEq] at hk
    obtain ⟨rfl, rfl, rfl⟩ := hk
    exact Or.inr ⟨Or.inl rfl, by decide, false, _, _, rfl, by decide, by decide, by decide⟩

end Props.C01
