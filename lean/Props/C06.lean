import Cfi.Files
import Spec.C05
/-! C06 — property theorems (default registers re-emit their line verbatim; the
projection theorem builds on C05 and is added as it is completed). -/
namespace Props.C06
open Cfi Spec.C06

/-- a default register writes back exactly the raw line it holds -/
theorem default_verbatim (regs : List RegDef) (l : List Char) :
    writeRElem regs .text (.dflt (.str l)) = .ok (some (.str l)) := rfl

end Props.C06
