import Cfi.Files
import Spec.C05
import Props.C05
import Proofs.StripLaw
/-!
C06 — property theorems.

`main`: for EVERY register list with unambiguous identifiers and EVERY text `x`,
if each typed record parsed from `x` renders and is *record-stable* (the values
read back from its own rendering render to the same texts — C01's stability,
`Props.C01.line_stable`, a theorem for integer / literal / missing values),
then `y = W(R(x))` is a fixed point of read-then-write and the lines of `x`
that match no register are exactly the unmatched lines of `y`, in order.
-/
namespace Props.C06
open Cfi Cfi.Text Spec.C05 Spec.C06 Props.C05

/-- a default register writes back exactly the raw line it holds -/
theorem default_verbatim (regs : List RegDef) (l : List Char) :
    writeRElem regs .text (.dflt (.str l)) = .ok (some (.str l)) := rfl

/-- record-level stability (C01 lifted to one record): the record's data-only
line is one line, and what is read back from it is again data that renders to
the same texts -/
def RecStable (r : RegDef) (d : List Val) : Prop :=
  RegDef.isEmpty d = false →
  ∃ w, writePos r.fields d = .ok w ∧ ¬ '\n' ∈ w.dropLast ∧
    RegDef.isEmpty (readPos r.fields w) = false ∧
    (r.fields.zip (readPos r.fields w)).map (fun fv => renderText fv.1 fv.2) =
      (r.fields.zip d).map (fun fv => renderText fv.1 fv.2)

def ElemWF (regs : List RegDef) : RElem → Prop
  | .typed j d => ∃ r, regs[j]? = some r ∧ r.delimiter = .none ∧ r.fields.length = d.length ∧
      (∃ rs, All2 (fun (fv : Field × Val) r => rendersTo fv.1 fv.2 r) (r.fields.zip d) rs) ∧ RecStable r d
  | .dflt (.str l) => l ≠ [] ∧ classifyText regs l = none ∧ ¬ '\n' ∈ l.dropLast
  | .dflt (.bytes _) => False

/-- well-formed element sequences: every element well-formed, and a free-text
line without final newline can only be the last element -/
def ElemsWF (regs : List RegDef) : List RElem → Prop
  | [] => True
  | e :: es => ElemWF regs e ∧
      (match e with
       | .dflt (.str l) => es ≠ [] → l.getLast? = some '\n'
       | _ => True) ∧ ElemsWF regs es

/-- what a read of the written text returns: empty registers are gone, typed
data is replaced by what its rendering reads back to -/
def proj (regs : List RegDef) : List RElem → List RElem
  | [] => []
  | .typed j d :: es =>
    (match regs[j]? with
     | some r =>
       if RegDef.isEmpty d then proj regs es
       else match writePos r.fields d with
         | .ok w => .typed j (readPos r.fields w) :: proj regs es
         | .error _ => proj regs es
     | none => proj regs es)
  | .dflt d :: es => .dflt d :: proj regs es

def defaultsOf : List RElem → List (List Char)
  | [] => []
  | .dflt (.str l) :: es => l :: defaultsOf es
  | _ :: es => defaultsOf es

theorem length_readPos (fs : List Field) (w : List Char) : (readPos fs w).length = fs.length := by
  simp [readPos]

/-- registers whose values render to the same texts write the same line -/
theorem writeData_congr (r : RegDef) (hdel : r.delimiter = .none) (d d' : List Val)
    (hl : r.fields.length = d.length) (hl' : r.fields.length = d'.length)
    (he : RegDef.isEmpty d = false) (he' : RegDef.isEmpty d' = false)
    (h : (r.fields.zip d').map (fun fv => renderText fv.1 fv.2) = (r.fields.zip d).map (fun fv => renderText fv.1 fv.2)) :
    r.writeData .text d' = r.writeData .text d := by
  simp only [RegDef.writeData, he, he', Bool.false_eq_true, if_false, RegDef.line, Line.write, hdel]
  rw [assign_full _ _ (by simp; omega), assign_full _ _ (by simp; omega)]
  simp only [writePos]
  rw [Props.C01.writeFields_congr (r.idField :: r.fields) (.str r.ident :: d') (.str r.ident :: d)
    (by simp [hl']) (by simp [hl]) (by simp [h]) []]

end Props.C06

namespace Props.C06
open Cfi Cfi.Text Spec.C05 Spec.C06 Props.C05

theorem write_ok_cons (regs : List RegDef) (e : RElem) (es : List RElem) (p : Option Data) (rest : List Char)
    (h1 : writeRElem regs .text e = .ok p) (h2 : writeRegFileText regs es = .ok rest) :
    writeRegFileText regs (e :: es) = .ok (textOf p ++ rest) := by
  rw [write_cons, h1, h2]; rfl

/-- **Theorem A**: a well-formed element sequence is written as proper lines; those
lines read back as the projected sequence; and the projected sequence writes
the same text. -/
theorem elems_stable (regs : List RegDef) (hamb : unambiguous regs = true) (es : List RElem)
    (hwf : ElemsWF regs es) :
    ∃ lines : List (List Char),
      writeRegFileText regs es = .ok lines.flatten ∧
      lines.mapM (elemOfLine regs) = .ok (proj regs es) ∧ LinesOk lines ∧
      writeRegFileText regs (proj regs es) = .ok lines.flatten ∧
      lines.filter (fun l => classifyText regs l == none) = defaultsOf es ∧
      (lines = [] → proj regs es = []) := by
  induction es with
  | nil => exact ⟨[], rfl, rfl, trivial, rfl, rfl, fun _ => rfl⟩
  | cons e es ih =>
    obtain ⟨he, hlast, hrest⟩ := hwf
    obtain ⟨lines, h1, h2, h3, h4, h5, h6⟩ := ih hrest
    cases e with
    | typed j d =>
      obtain ⟨r, hj, hdel, hlen, ⟨rs, hr⟩, hst⟩ := he
      by_cases hemp : RegDef.isEmpty d = true
      · -- an empty register leaves no trace
        refine ⟨lines, ?_, ?_, h3, ?_, ?_, ?_⟩
        · have hw : writeRElem regs .text (.typed j d) = .ok none := by
            simp [writeRElem, hj, empty_writes_nothing r .text d hemp]
          simpa [textOf] using write_ok_cons regs _ es _ _ hw h1
        · simpa [proj, hj, hemp] using h2
        · simpa [proj, hj, hemp] using h4
        · simpa [defaultsOf] using h5
        · simpa [proj, hj, hemp] using h6
      · have hne : RegDef.isEmpty d = false := by simpa using hemp
        obtain ⟨w, hwp, hone, hne', hren⟩ := hst hne
        have hf := regFacts regs hamb j r hj
        obtain ⟨out, hout, hw, hnl, hrd⟩ := typed_line regs j r hj hf hdel d rs hlen hr hne w hwp hone
        have hproj : proj regs (.typed j d :: es) = .typed j (readPos r.fields w) :: proj regs es := by
          simp [proj, hj, hne, hwp]
        have hw' : writeRElem regs .text (.typed j (readPos r.fields w)) = .ok (some (.str (out ++ ['\n']))) := by
          have := writeData_congr r hdel d (readPos r.fields w) hlen (by simp [length_readPos]) hne hne' hren
          simp only [writeRElem, hj] at hw ⊢
          rw [this]; exact hw
        refine ⟨(out ++ ['\n']) :: lines, ?_, ?_, ?_, ?_, ?_, by simp⟩
        · simpa [textOf] using write_ok_cons regs _ es _ _ hw h1
        · rw [hproj]
          simp only [List.mapM_cons, hrd, h2, bind, Except.bind, pure, Except.pure]
        · exact linesOk_cons _ _ (by simp) (by simpa using hnl) (fun _ => by simp) h3
        · rw [hproj]
          simpa [textOf] using write_ok_cons regs _ _ _ _ hw' h4
        · have hc : classifyText regs (out ++ ['\n']) ≠ none := by
            intro hc
            simp [elemOfLine, hc] at hrd
          have : (classifyText regs (out ++ ['\n']) == none) = false := by
            cases h : classifyText regs (out ++ ['\n']) with
            | none => exact absurd h hc
            | some _ => rfl
          simp only [List.filter_cons, this, Bool.false_eq_true, if_false, defaultsOf]
          exact h5
    | dflt dd =>
      cases dd with
      | bytes b => exact absurd he (by simp [ElemWF])
      | str l =>
        obtain ⟨hne, hcls, hnl⟩ := he
        refine ⟨l :: lines, ?_, ?_, ?_, ?_, ?_, by simp⟩
        · simpa [textOf] using write_ok_cons regs _ es _ _ (default_verbatim regs l) h1
        · simp only [proj, List.mapM_cons, Props.C04.default_verbatim regs l hcls, h2, bind, Except.bind, pure,
            Except.pure]
        · apply linesOk_cons _ _ hne hnl ?_ h3
          intro hl
          apply hlast
          intro hes
          subst hes
          -- `es = []` gives `lines = []`
          have : lines.flatten = [] := by
            have h1' : writeRegFileText regs [] = .ok ([] : List Char) := rfl
            rw [h1'] at h1
            injection h1 with h1
            exact h1.symm
          cases lines with
          | nil => exact hl rfl
          | cons l0 ls =>
            have hl0 : l0 ≠ [] := by
              cases ls with
              | nil => exact h3.1
              | cons _ _ => exact h3.1
            simp only [List.flatten_cons, List.append_eq_nil_iff] at this
            exact hl0 this.1
        · simp only [proj]
          simpa [textOf] using write_ok_cons regs _ _ _ _ (default_verbatim regs l) h4
        · simp only [List.filter_cons, hcls, beq_self_eq_true, if_true, defaultsOf, h5]

end Props.C06

namespace Props.C06
open Cfi Cfi.Text Spec.C05 Spec.C06 Props.C05

/-! ### the elements of an arbitrary text -/

/-- the element one line becomes (positional registers) -/
def elemOf (regs : List RegDef) (l : List Char) : RElem :=
  match classifyText regs l with
  | some j =>
    (match regs[j]? with
     | some r => .typed j (readPos r.fields l)
     | none => .dflt (.str l))
  | none => .dflt (.str l)

theorem elemOf_none (regs : List RegDef) (l : List Char) (h : classifyText regs l = none) :
    elemOf regs l = .dflt (.str l) := by simp [elemOf, h]

theorem elemOf_some (regs : List RegDef) (l : List Char) (j : Nat) (r : RegDef)
    (hc : classifyText regs l = some j) (hj : regs[j]? = some r) :
    elemOf regs l = .typed j (readPos r.fields l) := by simp [elemOf, hc, hj]

/-- the dispatcher returns an index inside the register list -/
theorem classify_valid (regs : List RegDef) (l : List Char) (j : Nat) (hc : classifyText regs l = some j) :
    ∃ r, regs[j]? = some r := by
  unfold classifyText at hc
  rw [List.findIdx?_eq_some_iff_getElem] at hc
  exact ⟨regs[j]'hc.1, by simp [hc.1]⟩

theorem elemOfLine_eq (regs : List RegDef) (hdel : ∀ r ∈ regs, r.delimiter = .none) (l : List Char) :
    elemOfLine regs l = .ok (elemOf regs l) := by
  cases hc : classifyText regs l with
  | none => rw [elemOf_none regs l hc]; simp [elemOfLine, hc]
  | some j =>
    obtain ⟨r, hj⟩ := classify_valid regs l j hc
    rw [elemOf_some regs l j r hc hj]
    have := hdel r (List.mem_of_getElem? hj)
    simp [elemOfLine, hc, hj, RegDef.readDataText, RegDef.line, Line.read, this, readPos, Except.map]

theorem mapM_elemOfLine (regs : List RegDef) (hdel : ∀ r ∈ regs, r.delimiter = .none) (ls : List (List Char)) :
    ls.mapM (elemOfLine regs) = .ok (ls.map (elemOf regs)) := by
  induction ls with
  | nil => rfl
  | cons l ls ih => simp only [List.mapM_cons, elemOfLine_eq regs hdel l, ih, bind, Except.bind, pure, Except.pure, List.map_cons]

theorem splitLines_linesOk (x : List Char) : LinesOk (splitLines x) := by
  induction x with
  | nil => trivial
  | cons c cs ih =>
    simp only [splitLines]
    split
    · exact linesOk_cons _ _ (by simp) (by simp) (fun _ => by simp_all) ih
    · rename_i hc
      split
      · exact ⟨by simp, by simp⟩
      · rename_i l ls hsp
        rw [hsp] at ih
        have hl : l ≠ [] := by
          cases ls with
          | nil => exact ih.1
          | cons _ _ => exact ih.1
        have hdl : (c :: l).dropLast = c :: l.dropLast := by
          cases l with
          | nil => exact absurd rfl hl
          | cons _ _ => rfl
        have hgl : (c :: l).getLast? = l.getLast? := List.getLast?_cons_of_ne_nil hl
        cases ls with
        | nil =>
          refine ⟨by simp, ?_⟩
          rw [hdl]
          intro hm
          rcases List.mem_cons.mp hm with h | h
          · exact hc h.symm
          · exact ih.2 h
        | cons l2 ls =>
          obtain ⟨_, h2, h3, h4⟩ := ih
          refine ⟨by simp, by rw [hgl]; exact h2, ?_, h4⟩
          rw [hdl]
          intro hm
          rcases List.mem_cons.mp hm with h | h
          · exact hc h.symm
          · exact h3 h

/-- **Theorem B**: the elements read from any text are well-formed, given that the
typed records among them render and are record-stable -/
theorem elems_wf (regs : List RegDef) (ls : List (List Char)) (hls : LinesOk ls)
    (H : ∀ l ∈ ls, ∀ j r, classifyText regs l = some j → regs[j]? = some r → r.delimiter = .none ∧
      (∃ rs, All2 (fun (fv : Field × Val) r => rendersTo fv.1 fv.2 r) (r.fields.zip (readPos r.fields l)) rs) ∧
      RecStable r (readPos r.fields l)) :
    ElemsWF regs (ls.map (elemOf regs)) := by
  induction ls with
  | nil => trivial
  | cons l ls ih =>
    have hl : l ≠ [] ∧ ¬ '\n' ∈ l.dropLast ∧ (ls ≠ [] → l.getLast? = some '\n') ∧ LinesOk ls := by
      cases ls with
      | nil => exact ⟨hls.1, hls.2, fun h => absurd rfl h, trivial⟩
      | cons _ _ => exact ⟨hls.1, hls.2.2.1, fun _ => hls.2.1, hls.2.2.2⟩
    obtain ⟨hne, hnl, hlast, hrest⟩ := hl
    have ih' := ih hrest (fun l' hl' => H l' (by simp [hl']))
    simp only [List.map_cons]
    cases hc : classifyText regs l with
    | none =>
      rw [elemOf_none regs l hc]
      exact ⟨⟨hne, hc, hnl⟩, fun hes => hlast (by intro h; subst h; simp at hes), ih'⟩
    | some j =>
      obtain ⟨r, hj⟩ := classify_valid regs l j hc
      rw [elemOf_some regs l j r hc hj]
      obtain ⟨hdel, hrs, hst⟩ := H l (by simp) j r hc hj
      exact ⟨⟨r, hj, hdel, by simp [length_readPos], hrs, hst⟩, trivial, ih'⟩

theorem defaultsOf_map (regs : List RegDef) (ls : List (List Char)) :
    defaultsOf (ls.map (elemOf regs)) = ls.filter (fun l => classifyText regs l == none) := by
  induction ls with
  | nil => rfl
  | cons l ls ih =>
    simp only [List.map_cons, List.filter_cons]
    cases hc : classifyText regs l with
    | none => rw [elemOf_none regs l hc]; simp [defaultsOf, ih]
    | some j =>
      obtain ⟨r, hj⟩ := classify_valid regs l j hc
      rw [elemOf_some regs l j r hc hj]
      simp [defaultsOf, ih]

/-- **C06, for every text.**  `y = W(R(x))` is a fixed point of read-then-write,
and the lines matching no declared register are the same in `x` and `y`, in the
same order. -/
theorem main (regs : List RegDef) (x : List Char) (hamb : unambiguous regs = true)
    (H : ∀ l ∈ splitLines x, ∀ j r, classifyText regs l = some j → regs[j]? = some r → r.delimiter = .none ∧
      (∃ rs, All2 (fun (fv : Field × Val) r => rendersTo fv.1 fv.2 r) (r.fields.zip (readPos r.fields l)) rs) ∧
      RecStable r (readPos r.fields l))
    (hdel : ∀ r ∈ regs, r.delimiter = .none) :
    ∃ y, Spec.C06.rw regs x = some y ∧ Spec.C06.rw regs y = some y ∧ Spec.C06.holds regs x ⟨y, y⟩ = true := by
  have hwf := elems_wf regs (splitLines x) (splitLines_linesOk x) H
  obtain ⟨lines, h1, h2, h3, h4, h5, _⟩ := elems_stable regs hamb _ hwf
  have hplace : ∀ es t, writeRegFileText regs es = .ok t →
      writeRegFileText regs (RElem.placeholder :: es) = .ok t := by
    intro es t ht
    have := write_ok_cons regs RElem.placeholder es _ _ (default_verbatim regs []) ht
    simpa [textOf] using this
  have hRx : readRegFileText regs x = .ok (RElem.placeholder :: (splitLines x).map (elemOf regs)) := by
    rw [Props.C04.main, Spec.C04.expected, mapM_elemOfLine regs hdel]; rfl
  have hRy : readRegFileText regs lines.flatten = .ok (RElem.placeholder :: proj regs ((splitLines x).map (elemOf regs))) := by
    rw [Props.C04.main, Spec.C04.expected, splitLines_flatten lines h3, h2]; rfl
  refine ⟨lines.flatten, ?_, ?_, ?_⟩
  · simp [Spec.C06.rw, hRx, hplace _ _ h1]
  · simp [Spec.C06.rw, hRy, hplace _ _ h4]
  · simp only [Spec.C06.holds, beq_self_eq_true, Bool.true_and, beq_iff_eq, defaultLines]
    rw [splitLines_flatten lines h3, h5, defaultsOf_map]

end Props.C06

namespace Props.C06
open Cfi Cfi.Text Spec.C05 Spec.C06 Props.C05 Props.C01 Spec.C01

/-- **Record stability from the per-field laws** (C01): if every value of a
record obeys its field's render/parse law, no rendering contains a newline,
and some value has a canonical form other than `None`, the record is stable. -/
theorem recStable_of_laws (r : RegDef) (d : List Val) (hlen : r.fields.length = d.length)
    (hdis : Cfi.Disjoint r.fields)
    (hlaw : ∀ fv ∈ r.fields.zip d, RenderLaw fv.1 fv.2)
    (hnl : ∀ fv ∈ r.fields.zip d, ∀ t, renderText fv.1 fv.2 = .ok t → ¬ '\n' ∈ t)
    (hsome : RegDef.isEmpty d = false → ∃ fv ∈ r.fields.zip d, ∀ t, canon fv.1 fv.2 t ≠ .none) : RecStable r d := by
  intro hne0
  obtain ⟨rs, hrs⟩ := laws_all2 _ hlaw
  have hr : All2 (fun (fv : Field × Val) r => rendersTo fv.1 fv.2 r) (r.fields.zip d) rs := by
    generalize r.fields.zip d = zs at hrs
    induction hrs with
    | nil => exact .nil
    | cons h _ ih => exact .cons h.1 ih
  obtain ⟨out, hout⟩ := writeFields_ok r.fields d rs hr hlen []
  have hw : writePos r.fields d = .ok (out ++ ['\n']) := by simp [writePos, hout, Except.map]
  refine ⟨out ++ ['\n'], hw, ?_, ?_, renderings_stable r.fields d _ hlen hdis hlaw hw⟩
  · simp only [List.dropLast_concat]
    intro hm
    rcases out_chars r.fields d rs hlen hr hdis out hout '\n' hm with h | ⟨t, ht, hc⟩
    · exact absurd h (by decide)
    · obtain ⟨fv, hfv, hren⟩ := hr.of_mem_right ht
      exact hnl fv hfv t hren.1 hc
  · rw [readPos_written r.fields d rs _ hlen hdis hrs hw]
    obtain ⟨fv, hfv, hc⟩ := hsome hne0
    obtain ⟨i, hi, heq⟩ := List.getElem_of_mem hfv
    have hrl : rs.length = (r.fields.zip d).length := (All2.length_eq hrs).symm
    have hi' : i < ((r.fields.zip d).zip rs).length := by
      rw [List.length_zip, hrl, Nat.min_self]; exact hi
    simp only [RegDef.isEmpty, Bool.eq_false_iff, ne_eq, List.all_eq_true, beq_iff_eq]
    intro hall
    have hmem : ((r.fields.zip d).zip rs)[i] ∈ (r.fields.zip d).zip rs := List.getElem_mem hi'
    have := hall _ (List.mem_map.mpr ⟨_, hmem, rfl⟩)
    rw [List.getElem_zip] at this
    simp only [heq] at this
    exact hc _ this

end Props.C06

namespace Props.C06
open Cfi Cfi.Text Spec.C05 Spec.C06 Props.C05 Props.C01 Spec.C01

/-! ### files of integer and literal registers: no hypothesis about the records left -/

/-- every value an integer / literal field reads from a line obeys its law, if
the integers read fit their fields when printed -/
theorem law_of_read (f : Field) (l : List Char) (hk : f.kind = .int ∨ f.kind = .lit)
    (hgeo : f.stop = f.size + f.start)
    (hfit : ∀ n, f.readText l = .int n → (PyInt.pyStr n).length ≤ f.size ∧ n.natAbs < 10 ^ 4300) :
    RenderLaw f (f.readText l) := by
  rcases hk with hk | hk
  · cases hp : PyInt.pyInt (slice l f.start f.stop) with
    | none =>
      have hv : f.readText l = .none := by simp [Field.readText, parseText, hk, hp]
      rw [hv]
      exact law_null f .none rfl hgeo (by rw [hk]; exact blankLaw_int _)
    | some n =>
      have hv : f.readText l = .int n := by simp [Field.readText, parseText, hk, hp]
      obtain ⟨h1, h2⟩ := hfit n hv
      rw [hv]
      exact law_int f n hk hgeo h1 h2
  · have hv : f.readText l = .str (strip (slice l f.start f.stop)) := by
      simp [Field.readText, parseText, hk]
    rw [hv]
    apply law_lit f _ hk hgeo
    · have h1 := length_strip_le (slice l f.start f.stop)
      have h2 := length_slice_le l f.start f.stop
      omega
    · exact ⟨0, by simp [strip_idem]⟩

theorem mem_zip_readPos (fs : List Field) (l : List Char) (fv : Field × Val)
    (h : fv ∈ fs.zip (readPos fs l)) : fv.1 ∈ fs ∧ fv.2 = fv.1.readText l := by
  induction fs with
  | nil => simp [readPos] at h
  | cons f fs ih =>
    simp only [readPos, List.map_cons, List.zip_cons_cons, List.mem_cons] at h
    rcases h with rfl | h
    · exact ⟨by simp, rfl⟩
    · obtain ⟨h1, h2⟩ := ih h
      exact ⟨by simp [h1], h2⟩

/-- **C06 for files of integer / literal registers, for every text**: no premise
about the records is left — only that the integers found in `x` fit their
fields when printed (the property's "parsed values are representable"). -/
theorem main_int_lit (regs : List RegDef) (x : List Char) (hamb : unambiguous regs = true)
    (hdel : ∀ r ∈ regs, r.delimiter = .none)
    (hkinds : ∀ r ∈ regs, ∀ f ∈ r.fields, (f.kind = .int ∨ f.kind = .lit) ∧ f.stop = f.size + f.start)
    (hfit : ∀ l ∈ splitLines x, ∀ r ∈ regs, ∀ f ∈ r.fields, ∀ n, f.readText l = .int n →
      (PyInt.pyStr n).length ≤ f.size ∧ n.natAbs < 10 ^ 4300) :
    ∃ y, Spec.C06.rw regs x = some y ∧ Spec.C06.rw regs y = some y ∧ Spec.C06.holds regs x ⟨y, y⟩ = true := by
  apply main regs x hamb _ hdel
  intro l hl j r hc hj
  have hr : r ∈ regs := List.mem_of_getElem? hj
  have hline : ¬ '\n' ∈ l.dropLast := by
    -- lines of `splitLines` have no inner newline
    have hok := splitLines_linesOk x
    have : ∀ (ls : List (List Char)), LinesOk ls → ∀ l ∈ ls, ¬ '\n' ∈ l.dropLast := by
      intro ls
      induction ls with
      | nil => intro _ l h; simp at h
      | cons a ls ih =>
        intro h l hm
        cases ls with
        | nil =>
          simp only [List.mem_singleton] at hm; subst hm; exact h.2
        | cons b ls =>
          rcases List.mem_cons.mp hm with rfl | hm
          · exact h.2.2.1
          · exact ih h.2.2.2 l hm
    exact this _ hok l hl
  have hlaw : ∀ fv ∈ r.fields.zip (readPos r.fields l), RenderLaw fv.1 fv.2 := by
    intro fv hfv
    obtain ⟨h1, h2⟩ := mem_zip_readPos r.fields l fv hfv
    rw [h2]
    obtain ⟨hk, hgeo⟩ := hkinds r hr fv.1 h1
    exact law_of_read fv.1 l hk hgeo (hfit l hl r hr fv.1 h1)
  have hf := regFacts regs hamb j r hj
  refine ⟨hdel r hr, ?_, ?_⟩
  · obtain ⟨rs, hrs⟩ := laws_all2 _ hlaw
    refine ⟨rs, ?_⟩
    generalize r.fields.zip (readPos r.fields l) = zs at hrs
    induction hrs with
    | nil => exact .nil
    | cons h _ ih => exact .cons h.1 ih
  · apply recStable_of_laws r _ (by simp [length_readPos]) hf.hdis hlaw
    · -- no rendering contains a newline
      intro fv hfv t ht
      obtain ⟨h1, h2⟩ := mem_zip_readPos r.fields l fv hfv
      obtain ⟨hk, hgeo⟩ := hkinds r hr fv.1 h1
      rw [h2] at ht
      rcases hk with hk | hk
      · cases hp : PyInt.pyInt (slice l fv.1.start fv.1.stop) with
        | none =>
          have hv : fv.1.readText l = .none := by simp [Field.readText, parseText, hk, hp]
          rw [hv, render_null fv.1 .none rfl] at ht
          injection ht with ht; subst ht
          simp
        | some n =>
          have hv : fv.1.readText l = .int n := by simp [Field.readText, parseText, hk, hp]
          rw [hv] at ht
          simp only [renderText, renderRaw, renderFull, hk, Val.isNull, Bool.false_eq_true, if_false,
            Except.map] at ht
          injection ht with ht; subst ht
          intro hm
          simp only [rjust, List.mem_append, List.mem_replicate] at hm
          rcases hm with hm | hm
          · exact absurd hm.2 (by decide)
          · -- the text of an integer has digits and a sign only
            cases n with
            | ofNat k =>
              have := natDigits_isDigit k '\n' hm
              exact absurd this (by decide)
            | negSucc k =>
              simp only [PyInt.pyStr, List.mem_cons] at hm
              rcases hm with hm | hm
              · exact absurd hm (by decide)
              · have := natDigits_isDigit (k + 1) '\n' hm
                exact absurd this (by decide)
      · have hv : fv.1.readText l = .str (strip (slice l fv.1.start fv.1.stop)) := by
          simp [Field.readText, parseText, hk]
        rw [hv] at ht
        simp only [renderText, renderRaw, renderFull, hk, Val.isNull, Bool.false_eq_true, if_false,
          Except.map] at ht
        injection ht with ht; subst ht
        intro hm
        simp only [ljust, List.mem_append, List.mem_replicate] at hm
        rcases hm with hm | hm
        · exact strip_slice_no_newline l _ _ hline hm
        · exact absurd hm.2 (by decide)
    · -- a non-empty record has a value whose canonical form is not None
      intro hne
      simp only [RegDef.isEmpty, Bool.eq_false_iff, ne_eq, List.all_eq_true, beq_iff_eq] at hne
      have : ∃ v ∈ readPos r.fields l, v ≠ Val.none := by
        apply Classical.byContradiction
        intro hcon
        apply hne
        intro v hv
        apply Classical.byContradiction
        intro hvn
        exact hcon ⟨v, hv, hvn⟩
      obtain ⟨v, hv, hvn⟩ := this
      obtain ⟨i, hi, hvi⟩ := List.getElem_of_mem hv
      have hif : i < r.fields.length := by simpa [length_readPos] using hi
      refine ⟨(r.fields[i], v), ?_, ?_⟩
      · rw [← hvi]
        have : (r.fields.zip (readPos r.fields l))[i]'(by simp [length_readPos]; exact hif) =
            (r.fields[i], (readPos r.fields l)[i]) := by simp
        rw [← this]
        exact List.getElem_mem _
      · intro t
        obtain ⟨hk, _⟩ := hkinds r hr r.fields[i] (List.getElem_mem hif)
        have hvread : v = (r.fields[i]).readText l := by
          rw [← hvi]; simp [readPos]
        rcases hk with hk | hk
        · cases hp : PyInt.pyInt (slice l (r.fields[i]).start (r.fields[i]).stop) with
          | none =>
            have : v = .none := by rw [hvread]; simp [Field.readText, parseText, hk, hp]
            exact absurd this hvn
          | some n =>
            have : v = .int n := by rw [hvread]; simp [Field.readText, parseText, hk, hp]
            subst this
            simp [canon, hk, Val.isNull]
        · have : v = .str (strip (slice l (r.fields[i]).start (r.fields[i]).stop)) := by
            rw [hvread]; simp [Field.readText, parseText, hk]
          subst this
          simp [canon, hk, Val.isNull]

end Props.C06
