import Props.C10T
import Props.C11S
/-!
C10 in delimited text storage with the per-token law discharged from the decidable domain of C01.
-/
namespace Props.C10
open Cfi Cfi.Text Spec.C10 Spec.C01 Props.C01 Props.C11

/-- **C10, delimited text storage, from the decidable domain.** For every stream of delimited
registers whose identifier is not empty, starts and ends with a non-blank, shares no character
with the delimiter and holds no line break, whose delimiter is not empty and holds no line
break, and whose values are admitted by `Spec.C01.fieldInDomain` with trimmed renderings free of
the delimiter's characters and of line breaks: each register is one line, carries its
identifier as first token, is recognised by its own type, reads back token by token to the
canonical data, and every read consumes exactly what the corresponding write produced. -/
theorem text_delimited_dom (items : List (RegDef × List Val))
    (hreg : ∀ item ∈ items, ∃ d, item.1.delimiter = .str d ∧ d ≠ [] ∧ ¬ '\n' ∈ d ∧
      item.1.ident.length ≤ item.1.digits ∧ item.1.ident ≠ [] ∧
      (∀ x, item.1.ident.head? = some x → isStripWs x = false) ∧
      (∀ x, item.1.ident.getLast? = some x → isStripWs x = false) ∧
      (∀ c ∈ item.1.ident, ¬ c ∈ d) ∧ ¬ '\n' ∈ item.1.ident ∧
      item.1.fields.length = item.2.length ∧ RegDef.isEmpty item.2 = false ∧
      ∀ fv ∈ item.1.fields.zip item.2, ∀ r, renderText fv.1 fv.2 = .ok r →
        (∀ c ∈ strip r, ¬ c ∈ d) ∧ ¬ '\n' ∈ strip r)
    (hdom : ∀ item ∈ items, ∀ fv ∈ item.1.fields.zip item.2, fieldInDomain fv.1 fv.2 = true)
    (hdate : ∀ item ∈ items, ∀ fv ∈ item.1.fields.zip item.2, ∀ fmts, fv.1.kind = .date fmts →
      fv.2.isNull = true → ∀ fm ∈ fmts, fm ≠ [])
    (hbig : ∀ item ∈ items, ∀ v ∈ item.2, ∀ n, v = .int n → n.natAbs < 10 ^ 4300) :
    ∃ obs, run .text items = some obs ∧ Spec.C10.holds .text items obs = true := by
  apply text_delimited items
  intro item hitem
  obtain ⟨d, h1, h2, h3, h4, h5, h6, h7, h8, h9, hlen, hne, hfree⟩ := hreg item hitem
  have hlaw : ∀ fv ∈ item.1.fields.zip item.2, ∃ r, TokLaw fv.1 fv.2 r := by
    intro fv hfv
    exact tokLaw_of_domain fv.1 fv.2 (hdom item hitem fv hfv) (hdate item hitem fv hfv)
      (hbig item hitem fv.2 (List.of_mem_zip hfv).2)
  obtain ⟨rs, hrl, hidx, hmem⟩ := toks_exist item.1.fields item.2 hlen hlaw
  refine ⟨d, rs, ⟨h1, h2, h3, h4, h5, h6, h7, h8, h9, hlen, hne, hrl, hidx, ?_, ?_⟩⟩
  · intro t ht c hc
    obtain ⟨fv, hfv, hfr⟩ := hmem t ht
    exact (hfree fv hfv t hfr).1 c hc
  · intro t ht
    obtain ⟨fv, hfv, hfr⟩ := hmem t ht
    exact (hfree fv hfv t hfr).2

end Props.C10
