import Props.C09F
import Props.C01
/-!
C09 for date fields: the bytes written are the UTF-8 (here: ASCII) encoding of the text the
text writer emits, so the binary law follows from the text law of dates.
-/
namespace Props.C09
open Cfi Cfi.Dbl Cfi.Bin Cfi.Text Cfi.Date Spec.C09

/-- **the characters `strftime` emits** are digits and characters of the format: every property
of characters that digits and the format's characters have, the output has -/
theorem strftime_chars (P : Char → Prop) (hdig : ∀ c : Char, c.isDigit = true → P c) :
    ∀ (n : Nat) (fmt : List Char) (t : DT) (p : List Char),
    (∀ c ∈ fmt, P c) → strftime n fmt t = some p → ∀ c ∈ p, P c := by
  intro n
  induction n with
  | zero => intro fmt t p _ h; simp [strftime] at h
  | succ n ih =>
    intro fmt t p hf h
    cases fmt with
    | nil =>
      simp [strftime] at h
      subst h; intro c hc; simp at hc
    | cons c r =>
      by_cases hc : c = '%'
      · subst hc
        cases r with
        | nil => simp [strftime] at h
        | cons d r' =>
          have hr : ∀ x ∈ r', P x := fun x hx => hf x (by simp [hx])
          have key : ∀ piece : List Char, (∀ x ∈ piece, P x) →
              (strftime n r' t).map (piece ++ ·) = some p → ∀ x ∈ p, P x := by
            intro piece hp he x hx
            cases hq : strftime n r' t with
            | none => rw [hq] at he; simp at he
            | some q =>
              rw [hq] at he
              simp only [Option.map_some, Option.some.injEq] at he
              rw [← he, List.mem_append] at hx
              rcases hx with hx | hx
              · exact hp x hx
              · exact ih r' t q hr hq x hx
          by_cases hd : d = '%'
          · subst hd
            rw [Cfi.Date.strftime_pct] at h
            exact key ['%'] (by intro x hx; simp at hx; subst hx; exact hf '%' (by simp)) h
          · cases hdp : Cfi.Date.dirPiece d t with
            | some q0 =>
              rw [Cfi.Date.strftime_dir t n d q0 r' hdp] at h
              refine key q0 ?_ h
              intro x hx
              exact hdig x ((Cfi.Date.dirPiece_digits d t q0 hdp).2 x hx)
            | none =>
              exfalso
              have h1 : d ≠ 'Y' := by intro hh; subst hh; simp [Cfi.Date.dirPiece] at hdp
              have h2 : d ≠ 'm' := by intro hh; subst hh; simp [Cfi.Date.dirPiece] at hdp
              have h3 : d ≠ 'd' := by intro hh; subst hh; simp [Cfi.Date.dirPiece] at hdp
              have h4 : d ≠ 'H' := by intro hh; subst hh; simp [Cfi.Date.dirPiece] at hdp
              have h5 : d ≠ 'M' := by intro hh; subst hh; simp [Cfi.Date.dirPiece] at hdp
              have h6 : d ≠ 'S' := by intro hh; subst hh; simp [Cfi.Date.dirPiece] at hdp
              have h7 : d ≠ 'y' := by intro hh; subst hh; simp [Cfi.Date.dirPiece] at hdp
              have h8 : d ≠ 'f' := by intro hh; subst hh; simp [Cfi.Date.dirPiece] at hdp
              rw [strftime.eq_12 t n d r' h1 h2 h3 h4 h5 h6 h7 h8 hd] at h
              exact absurd h (by simp)
      · rw [Cfi.Date.strftime_lit t n c r hc] at h
        cases hq : strftime n r t with
        | none => rw [hq] at h; simp at h
        | some q =>
          rw [hq] at h
          simp only [Option.map_some, Option.some.injEq] at h
          subst h
          intro x hx
          simp only [List.mem_cons] at hx
          rcases hx with rfl | hx
          · exact hf x (by simp)
          · exact ih r t q (fun y hy => hf y (by simp [hy])) hq x hx

/-- the text `strftime` produces for an ASCII format is ASCII -/
theorem strftime_ascii (n : Nat) (fmt : List Char) (t : DT) (p : List Char)
    (hf : ∀ c ∈ fmt, c.toNat < 128) (h : strftime n fmt t = some p) : ∀ c ∈ p, c.toNat < 128 :=
  strftime_chars (fun c => c.toNat < 128)
    (fun c hc => by have := (Cfi.isDigit_iff c).1 hc; omega) n fmt t p hf h

/-- on ASCII text the binary date parser is the text date parser -/
theorem parseBin_date_ascii (fmts : List (List Char)) (size : Nat) (s : List Char) (h : ∀ c ∈ s, c.toNat < 128) :
    parseBin (.date fmts) size (utf8Encode s) = parseText (.date fmts) s := by
  simp only [parseBin, decodeUtf8, utf8Encode_ascii s h, parseText]
  rw [utf8Decode_ascii s h _ (by simp)]

/-- **Dates** obey the binary law: the bytes are the ASCII text of the first format,
left-justified in `size` bytes; they read back as the truncation of the value to that format -/
theorem binLaw_date (f : Field) (fmt : List Char) (fmts : List (List Char)) (t : DT)
    (hk : f.kind = .date (fmt :: fmts)) (hgeo : f.stop = f.size + f.start)
    (hok : Spec.C03.fmtOk fmt = true)
    (hv : (Spec.C01.truncDate fmt t).valid = true) (hy : 1000 ≤ (Spec.C01.truncDate fmt t).y)
    (hhead : isStripWs (fmt.headD ' ') = false) (hlast : isStripWs (fmt.getLastD ' ') = false)
    (hascii : ∀ c ∈ fmt, c.toNat < 128)
    (hfit : ∀ p, strftime (fmt.length + 1) fmt t = some p → p.length ≤ f.size) :
    BinLaw f (.date t) := by
  obtain ⟨r, ⟨hr1, hr2, _⟩, hparse, _⟩ := Props.C01.law_date f fmt fmts t hk hgeo hok hv hy hhead hlast hfit
  -- the text is the padded strftime output
  cases hp : strftime (fmt.length + 1) fmt t with
  | none =>
    simp [renderText, renderRaw, renderFull, hk, Val.isNull, hp, Option.elim, Except.map] at hr1
  | some p =>
    have hrt : r = ljust p f.size ' ' := by
      simp [renderText, renderRaw, renderFull, hk, Val.isNull, hp, Option.elim, Except.map] at hr1
      exact hr1.symm
    have hpa := strftime_ascii _ fmt t p hascii hp
    have hra : ∀ c ∈ r, c.toNat < 128 := by
      intro c hc
      rw [hrt] at hc
      simp only [ljust, List.mem_append, List.mem_replicate] at hc
      rcases hc with hc | hc
      · exact hpa c hc
      · rw [hc.2]; decide
    refine ⟨utf8Encode r, ⟨?_, ?_, hgeo⟩, ?_⟩
    · simp [renderBin, hk, Val.isNull, hp, Option.elim, hrt]
    · rw [utf8Encode_ascii r hra, List.length_map]; exact hr2
    · rw [hk, parseBin_date_ascii _ _ r hra]
      rw [hk] at hparse
      rw [hparse]
      simp [Spec.C01.canon, Spec.C09.canon, hk, Val.isNull]

/-- a missing date is stored as blanks and reads back as missing (no format is empty) -/
theorem binLaw_date_null (f : Field) (v : Val) (hn : v.isNull = true) (fmts : List (List Char))
    (hk : f.kind = .date fmts) (hgeo : f.stop = f.size + f.start) (hne : ∀ fm ∈ fmts, fm ≠ []) : BinLaw f v := by
  have hb : List.replicate f.size (32 : UInt8) = utf8Encode (List.replicate f.size ' ') := by
    rw [utf8Encode_ascii _ (by intro c hc; simp only [List.mem_replicate] at hc; rw [hc.2]; decide)]
    simp [List.map_replicate]
  refine ⟨List.replicate f.size 32, ⟨?_, by simp, hgeo⟩, ?_⟩
  · simp [renderBin, hk, hn]
  · rw [hk, hb, parseBin_date_ascii _ _ _ (by intro c hc; simp only [List.mem_replicate] at hc; rw [hc.2]; decide)]
    have := Props.C01.blankLaw_date fmts hne f.size
    simp only [Props.C01.BlankLaw] at this
    rw [this]
    simp [Spec.C09.canon, hk, hn]

/-- what the theorems ask of the date formats beyond the decidable domain: none is empty, and the
first one (the one written) does not end in white space -/
def DateFmtsOk (f : Field) : Prop :=
  ∀ fmts, f.kind = .date fmts →
    (∀ fm ∈ fmts, fm ≠ []) ∧ ∀ fm, fmts.head? = some fm → isStripWs (fm.getLastD ' ') = false

/-- **The binary law from the decidable domain guard, for every field kind** -/
theorem binLaw_of_domain_all (f : Field) (v : Val) (h : fieldInDomain f v = true) (hd : DateFmtsOk f) :
    BinLaw f v := by
  by_cases hdate : ∀ fmts, f.kind ≠ .date fmts
  · exact binLaw_of_domain f v h hdate
  · have : ∃ fmts, f.kind = .date fmts := by
      apply Classical.byContradiction
      intro hno
      exact hdate (fun fmts hk => hno ⟨fmts, hk⟩)
    obtain ⟨fmts, hk⟩ := this
    obtain ⟨hne, hlast⟩ := hd fmts hk
    simp only [fieldInDomain, Bool.and_eq_true, beq_iff_eq] at h
    obtain ⟨⟨hgeo, hty⟩, hdom⟩ := h
    rw [hk] at hdom hty
    cases v with
    | none => exact binLaw_date_null f .none rfl fmts hk hgeo hne
    | nat => exact binLaw_date_null f .nat rfl fmts hk hgeo hne
    | int n => simp [Spec.C02.typeOk] at hty
    | str s => simp [Spec.C02.typeOk] at hty
    | dbl x =>
      cases x with
      | nan => exact binLaw_date_null f (.dbl .nan) rfl fmts hk hgeo hne
      | inf neg => simp [Spec.C02.typeOk] at hty
      | fin neg m e => simp [Spec.C02.typeOk] at hty
    | date t =>
      cases fmts with
      | nil => simp at hdom
      | cons fmt rest =>
        simp only [Bool.and_eq_true, List.all_cons, decide_eq_true_eq] at hdom
        obtain ⟨⟨hok, _⟩, ⟨⟨hv, hy⟩, hasc⟩, hst⟩ := hdom
        cases hp : strftime (fmt.length + 1) fmt t with
        | none => rw [hp] at hst; simp at hst
        | some p =>
          rw [hp] at hst
          simp only [Bool.and_eq_true, decide_eq_true_eq, Bool.not_eq_true'] at hst
          have hascii : ∀ c ∈ fmt, c.toNat < 128 := by
            simp only [isAscii, List.all_eq_true, decide_eq_true_eq] at hasc
            exact hasc
          exact binLaw_date f fmt rest t hk hgeo hok hv hy hst.2 (hlast fmt rfl) hascii
            (by intro q hq; rw [hp] at hq; injection hq with hq; subst hq; exact hst.1)

/-- **C09 for every layout, dates included.** For every layout and value list admitted by
`Spec.C09.inDomain` whose date fields declare no empty format and a first format that does
not end in white space: the record written is as long as the furthest field end with blank
gaps, every field's bytes sit in its own span, and reading the record back gives in-range
integers exactly, floats rounded to their field's IEEE format, literals blank-trimmed, dates
truncated to what their format keeps, missing values as zero / blanks / missing. -/
theorem main_all (fs : List Field) (vs : List Val) (h : inDomain fs vs = true)
    (hdate : ∀ f ∈ fs, DateFmtsOk f) :
    ∃ o, Spec.C09.cycle fs vs = some o ∧ Spec.C09.holds fs vs o = true := by
  simp only [inDomain, Bool.and_eq_true, beq_iff_eq, List.all_eq_true] at h
  obtain ⟨⟨hlen, hdis⟩, hdom⟩ := h
  apply line_main fs vs hlen (Cfi.Disjoint_of_bool fs hdis)
  intro fv hfv
  exact binLaw_of_domain_all fv.1 fv.2 (hdom fv hfv) (hdate fv.1 (List.of_mem_zip hfv).1)

/-- non-vacuity: an integer, a date in `%d/%m/%Y` and a missing date meet every premise -/
example :
    let fs := [Field.mk' .int 4 0, Field.mk' (.date ["%d/%m/%Y".toList]) 10 5, Field.mk' (.date ["%Y%m".toList, "%Y".toList]) 8 16]
    let vs := [Val.int (-7), Val.date ⟨2024, 2, 29, 13, 5, 0, 0⟩, Val.none]
    inDomain fs vs = true ∧ (∀ f ∈ fs, DateFmtsOk f) ∧
    (Spec.C09.cycle fs vs).map (·.readBack) = some [Val.int (-7), Val.date ⟨2024, 2, 29, 0, 0, 0, 0⟩, Val.none] := by
  refine ⟨by decide +kernel, ?_, by decide +kernel⟩
  intro f hf fmts hk
  simp only [List.mem_cons, List.not_mem_nil, or_false] at hf
  rcases hf with rfl | rfl | rfl
  · simp [Field.mk'] at hk
  · simp only [Field.mk', Kind.date.injEq] at hk
    subst hk
    refine ⟨by intro fm hfm; simp at hfm; subst hfm; decide, ?_⟩
    intro fm hfm; simp at hfm; subst hfm; decide
  · simp only [Field.mk', Kind.date.injEq] at hk
    subst hk
    refine ⟨by intro fm hfm; simp at hfm; rcases hfm with rfl | rfl <;> decide, ?_⟩
    intro fm hfm; simp at hfm; subst hfm; decide

end Props.C09
