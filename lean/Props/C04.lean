import Cfi.Files
import Spec.C04
import Proofs.Lines
import Proofs.RegexInfix
/-! C04 — property theorems (loop refinement). -/
namespace Props.C04
open Cfi Cfi.Text Spec.C04

/-- nothing is lost or duplicated by the line splitting -/
theorem flatten_splitLines (s : List Char) : (splitLines s).flatten = s := by
  induction s with
  | nil => rfl
  | cons c cs ih =>
    simp only [splitLines]
    split
    · simp [ih]
    · split
      · rename_i h; rw [h] at ih; simp at ih; simp [← ih]
      · rename_i l ls h; rw [h] at ih; simp at ih; simp [← ih]

/-- every line is non-empty, and only a last line can lack its newline -/
theorem splitLines_ne_nil (s : List Char) : ∀ l ∈ splitLines s, l ≠ [] := by
  induction s with
  | nil => simp [splitLines]
  | cons c cs ih =>
    simp only [splitLines]
    split
    · intro l hl; simp at hl; rcases hl with rfl | hl
      · simp
      · exact ih l hl
    · split
      · intro l hl; simp at hl; subst hl; simp
      · rename_i l' ls h
        intro l hl; simp at hl; rcases hl with rfl | hl
        · simp
        · exact ih l (by rw [h]; simp [hl])

/-- **Loop refinement**: the stream-level loop of `RegisterReading` — peek a
line, stop if it is empty, rewind, dispatch, let the element read, append —
returns, for ANY register list and ANY remaining input, exactly the per-line
classification of the remaining lines (given enough fuel for the input
length; `readRegFileText` supplies it). -/
theorem loop_eq_mapM (regs : List RegDef) :
    ∀ (fuel : Nat) (s : Stream Char), s.rest.length < fuel →
      readRegLoopText regs fuel s = (splitLines s.rest).mapM (elemOfLine regs) := by
  intro fuel
  induction fuel with
  | zero => intro s h; omega
  | succ fuel ih =>
    intro s h
    simp only [readRegLoopText]
    by_cases hr : s.rest = []
    · simp [Stream.readline_fst, hr, Stream.lineOf, splitLines]
      rfl
    · have hne := lineOf_ne_nil '\n' hr
      have hemp : (Stream.lineOf '\n' s.rest).isEmpty = false := by
        cases hl : Stream.lineOf '\n' s.rest with
        | nil => exact absurd hl hne
        | cons _ _ => rfl
      rw [Stream.readline_fst, hemp]
      simp only [Bool.false_eq_true, if_false]
      have hlen : (s.readline '\n').2.rest.length < fuel := by
        rw [Stream.rest_readline, Stream.readline_fst, List.length_drop]
        have : 0 < (Stream.lineOf '\n' s.rest).length := List.length_pos_iff.mpr hne
        have := lineOf_length_le '\n' s.rest
        omega
      rw [ih _ hlen, Stream.rest_readline, Stream.readline_fst, splitLines_eq_lineOf hr]
      simp [List.mapM_cons]

/-- **C04 main theorem**: `RegisterFile.read(content)` on the model is the
placeholder followed by exactly one element per line of the content, in input
order, each decided by its line alone — for every register list and every
content (well-formed or not). -/
theorem main (regs : List RegDef) (content : List Char) :
    readRegFileText regs content = expected regs content := by
  unfold readRegFileText expected
  rw [loop_eq_mapM regs (content.length + 1) ⟨content, 0⟩ (by simp [Stream.rest])]
  simp [Stream.rest]

/-- hence `Spec.C04.holds` of the model's output whenever it is a value -/
theorem holds_of_ok (regs : List RegDef) (content : List Char) (es : List RElem)
    (h : readRegFileText regs content = .ok es) : holds regs content es = true := by
  simp [holds, ← main, h]

/-- one element per line plus the placeholder -/
theorem count (regs : List RegDef) (content : List Char) (es : List RElem)
    (h : readRegFileText regs content = .ok es) : es.length = (splitLines content).length + 1 := by
  rw [main] at h
  unfold expected at h
  cases hm : (splitLines content).mapM (elemOfLine regs) with
  | error e => simp [hm, Except.map] at h
  | ok xs =>
    simp only [hm, Except.map] at h
    injection h with h
    rw [← h, List.length_cons]
    have key : ∀ (ls : List (List Char)) (ys : List RElem), ls.mapM (elemOfLine regs) = .ok ys → ys.length = ls.length := by
      intro ls
      induction ls with
      | nil => intro ys h; simp [List.mapM_nil, pure, Except.pure] at h; subst h; rfl
      | cons l ls ih =>
        intro ys h
        rw [List.mapM_cons] at h
        cases h1 : elemOfLine regs l with
        | error e => simp [h1, bind, Except.bind] at h
        | ok y =>
          cases h2 : ls.mapM (elemOfLine regs) with
          | error e => simp [h1, h2, bind, Except.bind] at h
          | ok ys' =>
            simp [h1, h2, bind, Except.bind, pure, Except.pure] at h
            subst h
            simp [ih ys' h2]
    rw [key _ _ hm]

/-- **First matching type wins; otherwise the line is kept verbatim** -/
theorem classify_first (regs : List RegDef) (l : List Char) (i : Nat)
    (h : classifyText regs l = some i) :
    (∃ r, regs[i]? = some r ∧ r.matchesText l = true) ∧ ∀ j r', j < i → regs[j]? = some r' → r'.matchesText l = false := by
  unfold classifyText at h
  rw [List.findIdx?_eq_some_iff_getElem] at h
  obtain ⟨hi, hm, hlt⟩ := h
  refine ⟨⟨regs[i], by simp [hi], hm⟩, ?_⟩
  intro j r' hj hr'
  have hjl : j < regs.length := by omega
  have := hlt j hj
  rw [List.getElem?_eq_getElem hjl] at hr'
  injection hr' with hr'
  subst hr'
  simpa using this

theorem default_verbatim (regs : List RegDef) (l : List Char) (h : classifyText regs l = none) :
    elemOfLine regs l = .ok (.dflt (.str l)) := by
  simp [elemOfLine, h]

/-- non-vacuity: declaration order matters when identifiers overlap -/
example :
    let rA : RegDef := ⟨"AB".toList, 2, [], .none⟩
    let rB : RegDef := ⟨"B".toList, 3, [], .none⟩
    classifyText [rA, rB] "ABx\n".toList = some 0 ∧ classifyText [rB, rA] "ABx\n".toList = some 0 ∧
    classifyText [rA, rB] "xB\n".toList = some 1 ∧ classifyText [rA, rB] "xxxB\n".toList = none := by decide

/-- the identifier of a register type is found in the window of a line: some part of the first
`IDENTIFIER_DIGITS` characters is the identifier text -/
def IdentFound (r : RegDef) (l : List Char) : Prop := ∃ a b, l.take r.digits = a ++ r.ident ++ b

/-- `Register.matches` is `re.search(IDENTIFIER, line[:IDENTIFIER_DIGITS])`: the model's infix test equals
the search of the literal pattern in the declarative regular-expression semantics
(`Cfi.Regex.search_iff`, `matches_lit_iff`) -/
theorem matches_is_search (r : RegDef) (l : List Char) :
    r.matchesText l = Cfi.Regex.search '\n' ⟨false, Cfi.Regex.Re.lit r.ident⟩ (l.take r.digits) :=
  Proofs.RegexInfix.matchesText_eq_search r l

theorem matches_iff_found (r : RegDef) (l : List Char) : r.matchesText l = true ↔ IdentFound r l :=
  Proofs.RegexInfix.isInfix_iff r.ident (l.take r.digits)

/-- **First matching type wins, in terms of what the identifiers mean**: the type chosen for a line is
the first declared one whose identifier text occurs in its window of the line; no earlier declared
type's identifier occurs in its own window -/
theorem classify_first_found (regs : List RegDef) (l : List Char) (i : Nat)
    (h : classifyText regs l = some i) :
    (∃ r, regs[i]? = some r ∧ IdentFound r l) ∧
    ∀ j r', j < i → regs[j]? = some r' → ¬ IdentFound r' l := by
  obtain ⟨⟨r, hr, hm⟩, hlt⟩ := classify_first regs l i h
  refine ⟨⟨r, hr, (matches_iff_found r l).1 hm⟩, fun j r' hj hr' hf => ?_⟩
  have := hlt j r' hj hr'
  rw [(matches_iff_found r' l).2 hf] at this
  cases this

end Props.C04
