import Cfi.Files
import Spec.C04
/-! C04 — property theorems (loop refinement). -/
namespace Props.C04
open Cfi Cfi.Text Spec.C04

/-- nothing is lost or duplicated by the line splitting -/
theorem flatten_splitLines (s : List Char) : (splitLines s).flatten = s := by
  induction s with
  | nil => rfl
  | cons c cs ih =>
    simp only [splitLines]
    split
    · simp [ih]
    · split
      · rename_i h; rw [h] at ih; simp at ih; simp [← ih]
      · rename_i l ls h; rw [h] at ih; simp at ih; simp [← ih]

end Props.C04
