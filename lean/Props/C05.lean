import Cfi.Files
import Spec.C05
/-! C05 — property theorems (skip-empty clause; the round-trip theorem builds on
the per-kind render/parse laws of C01 and is added as those are completed). -/
namespace Props.C05
open Cfi Spec.C05

/-- a register whose values are all `None` writes nothing, in any storage -/
theorem empty_writes_nothing (r : RegDef) (st : Storage) (data : List Val)
    (h : RegDef.isEmpty data = true) : r.writeData st data = .ok none := by
  simp [RegDef.writeData, h]

/-- zero, the empty string and `0.0` are data: they do not make a register empty -/
example : RegDef.isEmpty [.int 0] = false ∧ RegDef.isEmpty [.str []] = false ∧
    RegDef.isEmpty [.dbl (.fin false 0 (-1074))] = false ∧ RegDef.isEmpty [.none, .none] = true := by decide

end Props.C05
