import Cfi.Files
import Spec.C05
import Proofs.RegLine
import Proofs.RegClassify
import Props.C04
/-!
C05 — property theorems.

`main`: for EVERY register list and EVERY element sequence inside the decidable
domain `Spec.C05.inDomain` (the same predicate the check evaluates per case),
the model's write-then-read cycle returns the sequence itself and the file-level
equality holds.  The per-record fact "the data-only line reads back to the
data" is part of that domain (`typedOk`, decided by the model's own field
renderer and parser — for integers, literals and missing values it is a theorem,
`Props.C01.law_int/law_lit/readText_null`); everything the file layer adds —
identifier column, composite line, one line per register, splitting the written
text into lines, dispatch to the type that wrote the line, defaults kept
verbatim, order and count — is proved here for all inputs.
-/
namespace Props.C05
open Cfi Cfi.Text Spec.C05

/-- a register whose values are all `None` writes nothing, in any storage -/
theorem empty_writes_nothing (r : RegDef) (st : Storage) (data : List Val)
    (h : RegDef.isEmpty data = true) : r.writeData st data = .ok none := by
  simp [RegDef.writeData, h]

/-- zero, the empty string and `0.0` are data: they do not make a register empty -/
example : RegDef.isEmpty [.int 0] = false ∧ RegDef.isEmpty [.str []] = false ∧
    RegDef.isEmpty [.dbl (.fin false 0 (-1074))] = false ∧ RegDef.isEmpty [.none, .none] = true := by decide

/-! ### lines -/

/-- what a written file consists of: non-empty lines without inner newlines, all
but possibly the last ending in a newline -/
def LinesOk : List (List Char) → Prop
  | [] => True
  | [l] => l ≠ [] ∧ ¬ '\n' ∈ l.dropLast
  | l :: ls => l ≠ [] ∧ l.getLast? = some '\n' ∧ ¬ '\n' ∈ l.dropLast ∧ LinesOk ls

theorem splitLines_line (body rest : List Char) (hb : ¬ '\n' ∈ body) :
    splitLines (body ++ '\n' :: rest) = (body ++ ['\n']) :: splitLines rest := by
  induction body with
  | nil => simp [splitLines]
  | cons c body ih =>
    have hc : c ≠ '\n' := fun e => hb (by simp [e])
    have hb' : ¬ '\n' ∈ body := fun e => hb (by simp [e])
    simp only [List.cons_append, splitLines, hc, if_false, ih hb']

theorem splitLines_single (l : List Char) (hne : l ≠ []) (hb : ¬ '\n' ∈ l) : splitLines l = [l] := by
  induction l with
  | nil => exact absurd rfl hne
  | cons c cs ih =>
    have hc : c ≠ '\n' := fun e => hb (by simp [e])
    have hb' : ¬ '\n' ∈ cs := fun e => hb (by simp [e])
    cases cs with
    | nil => simp [splitLines, hc]
    | cons d ds => simp only [splitLines, hc, if_false] at ih ⊢; simp [ih (by simp) hb']

theorem eq_dropLast_append (l : List Char) (c : Char) (h : l.getLast? = some c) : l = l.dropLast ++ [c] := by
  have hne : l ≠ [] := by intro e; subst e; simp at h
  have := List.dropLast_concat_getLast hne
  rw [List.getLast?_eq_some_getLast hne] at h
  injection h with h
  rw [h] at this
  exact this.symm

theorem splitLines_flatten (ls : List (List Char)) (h : LinesOk ls) : splitLines ls.flatten = ls := by
  induction ls with
  | nil => rfl
  | cons l ls ih =>
    cases ls with
    | nil =>
      obtain ⟨hne, hb⟩ := h
      simp only [List.flatten_cons, List.flatten_nil, List.append_nil]
      by_cases hl : l.getLast? = some '\n'
      · have := eq_dropLast_append l '\n' hl
        rw [this]
        have := splitLines_line l.dropLast [] hb
        simpa [splitLines] using this
      · apply splitLines_single l hne
        intro hmem
        have hsplit := List.dropLast_concat_getLast hne
        rw [← hsplit] at hmem
        rcases List.mem_append.mp hmem with h1 | h1
        · exact hb h1
        · simp only [List.mem_singleton] at h1
          apply hl
          rw [List.getLast?_eq_some_getLast hne, ← h1]
    | cons l2 ls =>
      obtain ⟨_, hl, hb, hrest⟩ := h
      have := eq_dropLast_append l '\n' hl
      rw [List.flatten_cons, this, List.append_assoc]
      simp only [List.singleton_append]
      rw [splitLines_line _ _ hb, ih hrest]

end Props.C05

namespace Props.C05
open Cfi Cfi.Text Spec.C05

/-! ### what `unambiguous` and `typedOk` give -/

structure RegFacts (regs : List RegDef) (j : Nat) (r : RegDef) : Prop where
  hid : r.ident.length ≤ r.digits
  hstart : ∀ f ∈ r.fields, r.digits ≤ f.start
  hdis : Cfi.Disjoint r.fields
  hnl : ¬ '\n' ∈ r.ident
  hearlier : ∀ i ri, i < j → regs[i]? = some ri →
    ri.digits ≤ firstDataStart r ∧ isInfix ri.ident ((identColumns r).take ri.digits) = false

theorem regFacts (regs : List RegDef) (h : unambiguous regs = true) (j : Nat) (r : RegDef)
    (hj : regs[j]? = some r) : RegFacts regs j r := by
  have hjl : j < regs.length := by
    rcases Nat.lt_or_ge j regs.length with h1 | h1
    · exact h1
    · rw [List.getElem?_eq_none h1] at hj; exact absurd hj (by simp)
  simp only [unambiguous, List.all_eq_true, List.mem_range] at h
  have hj' := h j hjl
  simp only [hj, Bool.and_eq_true, decide_eq_true_eq, List.all_eq_true, List.mem_range, Bool.not_eq_true',
    Bool.not_eq_eq_eq_not, Bool.not_true] at hj'
  obtain ⟨⟨⟨⟨⟨⟨h1, h2⟩, h3⟩, _⟩, _⟩, h6⟩, h7⟩ := hj'
  refine ⟨h1, h2, Disjoint_of_bool _ h3, ?_, ?_⟩
  · intro hm
    have : r.ident.contains '\n' = true := by simpa using hm
    rw [this] at h6; exact absurd h6 (by simp)
  · intro i ri hi hri
    have := h7 i hi
    simp only [hri, Bool.and_eq_true, decide_eq_true_eq, Bool.not_eq_true'] at this
    exact this

theorem isEmpty_false_of_any (data : List Val) (h : data.any (fun v => v != Val.none) = true) :
    RegDef.isEmpty data = false := by
  simp only [List.any_eq_true, bne_iff_ne, ne_eq] at h
  obtain ⟨v, hv, hne⟩ := h
  simp only [RegDef.isEmpty, Bool.eq_false_iff, ne_eq, List.all_eq_true, beq_iff_eq]
  exact fun hall => hne (hall v hv)

/-- **One typed register, in general**: for any non-empty data whose values
render (`rs`), whose data-only line `w` has no inner newline: `Register.write`
emits one proper line `out ++ "\n"`, and the dispatcher reads that line as a
register of the same type holding what the data-only line reads back to. -/
theorem typed_line (regs : List RegDef) (j : Nat) (r : RegDef) (hj : regs[j]? = some r)
    (hf : RegFacts regs j r) (hdel : r.delimiter = .none) (data : List Val) (rs : List (List Char))
    (hlen' : r.fields.length = data.length)
    (hr : All2 (fun (fv : Field × Val) r => rendersTo fv.1 fv.2 r) (r.fields.zip data) rs)
    (hne : RegDef.isEmpty data = false) (w : List Char) (hwp : writePos r.fields data = .ok w)
    (hone : ¬ '\n' ∈ w.dropLast) :
    ∃ out, writeFields (r.idField :: r.fields) (.str r.ident :: data) [] = .ok out ∧
      writeRElem regs .text (.typed j data) = .ok (some (.str (out ++ ['\n']))) ∧
      ¬ '\n' ∈ out ∧ elemOfLine regs (out ++ ['\n']) = .ok (.typed j (readPos r.fields w)) := by
  obtain ⟨hid, hstart, hdis, hnl, hearlier⟩ := hf
  obtain ⟨out, hout, hwd, hrd, hslice, hspans, hread⟩ := r.regLine data rs hdel hlen' hr hid hstart hdis hne
  -- renderings are newline-free because the data-only line is
  have hwf : ∃ o', writeFields r.fields data [] = .ok o' ∧ w = o' ++ ['\n'] := by
    simp only [writePos, Except.map] at hwp
    cases hwf : writeFields r.fields data [] with
    | error e => simp [hwf] at hwp
    | ok o' => simp only [hwf] at hwp; injection hwp with hwp; exact ⟨o', rfl, hwp.symm⟩
  obtain ⟨o', ho', hwo⟩ := hwf
  have hrs_nl : ∀ r' ∈ rs, ¬ '\n' ∈ r' := by
    intro r' hr' hm
    have := rendering_chars r.fields data rs hlen' hr hdis o' ho' r' hr' '\n' hm
    rw [hwo] at hone
    simp at hone
    exact hone this
  have hR : All2 (fun (fv : Field × Val) r => rendersTo fv.1 fv.2 r)
      ((r.idField :: r.fields).zip (Val.str r.ident :: data)) (ljust r.ident r.digits ' ' :: rs) := by
    simp only [List.zip_cons_cons]
    exact All2.cons (R := fun (fv : Field × Val) r => rendersTo fv.1 fv.2 r) (a := (r.idField, Val.str r.ident))
      (r.idField_rendersTo hid) hr
  have hD : Cfi.Disjoint (r.idField :: r.fields) := by
    refine ⟨fun g hg => Or.inl ?_, hdis⟩
    have := hstart g hg
    simpa [RegDef.idField, Field.mk'] using this
  have hout_nl : ¬ '\n' ∈ out := by
    intro hm
    rcases out_chars _ _ _ (by simp [hlen']) hR hD out hout '\n' hm with h1 | ⟨r', hr', hc⟩
    · exact absurd h1 (by decide)
    · rcases List.mem_cons.mp hr' with rfl | hr'
      · simp only [ljust, List.mem_append, List.mem_replicate] at hc
        rcases hc with hc | hc
        · exact hnl hc
        · exact absurd hc.2 (by decide)
      · exact hrs_nl r' hr' hc
  refine ⟨out, hout, ?_, hout_nl, ?_⟩
  · simp [writeRElem, hj, hwd]
  · -- dispatch: the first matching type is `j`
    have hcls : classifyText regs (out ++ ['\n']) = some j := by
      have hjl : j < regs.length := by
        rcases Nat.lt_or_ge j regs.length with h1 | h1
        · exact h1
        · rw [List.getElem?_eq_none h1] at hj; exact absurd hj (by simp)
      have hrj : regs[j] = r := by
        rw [List.getElem?_eq_getElem hjl] at hj; exact Option.some.inj hj
      unfold classifyText
      rw [List.findIdx?_eq_some_iff_getElem]
      refine ⟨hjl, ?_, ?_⟩
      · rw [hrj]
        simp only [RegDef.matchesText]
        have hk : r.digits ≤ firstDataStart r := by
          -- either no field (then equal) or every field starts after the window
          unfold firstDataStart
          have : ∀ (fs : List Field) (m : Nat), r.digits ≤ m → (∀ f ∈ fs, r.digits ≤ f.start) →
              r.digits ≤ fs.foldl (fun m f => min m f.start) m := by
            intro fs
            induction fs with
            | nil => intro m hm _; exact hm
            | cons f fs ih =>
              intro m hm hs
              exact ih _ (Nat.le_min.mpr ⟨hm, hs f (by simp)⟩) (fun g hg => hs g (by simp [hg]))
          apply this _ _ _ hstart
          have : ∀ (fs : List Field) (m : Nat), m ≤ fs.foldl (fun m f => max m f.stop) m := by
            intro fs
            induction fs with
            | nil => intro m; exact Nat.le_refl _
            | cons f fs ih => intro m; exact Nat.le_trans (Nat.le_max_left _ _) (ih _)
          exact this _ _
        rw [r.window_eq data rs hlen' hr hid hstart hdis out hout hslice r.digits hk]
        have : (identColumns r).take r.digits = ljust r.ident r.digits ' ' := by
          apply List.ext_getElem?
          intro i
          rw [List.getElem?_take, identColumns, getElem?_ljust, getElem?_ljust]
          by_cases h1 : i < r.digits
          · have : i < max r.digits (firstDataStart r) := by omega
            simp [h1, this]
          · have : ¬ i < r.ident.length := by omega
            simp [h1, this]
        rw [this]
        exact isInfix_ljust _ _
      · intro i hi
        have hil : i < regs.length := by omega
        obtain ⟨h1, h2⟩ := hearlier i regs[i] hi (by simp [hil])
        simp only [RegDef.matchesText, Bool.not_eq_true]
        rw [r.window_eq data rs hlen' hr hid hstart hdis out hout hslice _ h1]
        exact h2
    simp only [elemOfLine, hcls, hj, hrd, Except.map]
    rw [hread w hwp]

/-- **One typed register** of the C05 domain: what it writes is one proper line, and
reading that line through the dispatcher gives back the very element. -/
theorem typed_elem (regs : List RegDef) (hamb : unambiguous regs = true) (j : Nat) (r : RegDef)
    (hj : regs[j]? = some r) (hdel : r.delimiter = .none) (data : List Val) (ht : typedOk r data = true) :
    ∃ out, writeRElem regs .text (.typed j data) = .ok (some (.str (out ++ ['\n']))) ∧
      ¬ '\n' ∈ out ∧ elemOfLine regs (out ++ ['\n']) = .ok (.typed j data) := by
  have hf := regFacts regs hamb j r hj
  simp only [typedOk, Bool.and_eq_true, beq_iff_eq, List.all_eq_true] at ht
  obtain ⟨⟨⟨hlen, hdom⟩, hany⟩, hw⟩ := ht
  have hlen' : r.fields.length = data.length := hlen.symm
  have hfits : ∀ fv ∈ r.fields.zip data, Spec.C02.fits fv.1 fv.2 = true := by
    intro fv hfv
    have := hdom fv hfv
    simp only [Spec.C01.fieldInDomain, Bool.and_eq_true] at this
    exact this.1.1
  obtain ⟨rs, hr⟩ := all2_rendersTo_of_fits r.fields data hlen' hfits
  have hne := isEmpty_false_of_any data hany
  cases hwp : writePos r.fields data with
  | error e => simp [hwp] at hw
  | ok w =>
    simp only [hwp, Bool.and_eq_true, beq_iff_eq, Bool.not_eq_true', ] at hw
    obtain ⟨hback, hone⟩ := hw
    obtain ⟨out, _, h1, h2, h3⟩ := typed_line regs j r hj hf hdel data rs hlen' hr hne w hwp (by simpa using hone)
    exact ⟨out, h1, h2, by rw [h3, hback]⟩

end Props.C05

namespace Props.C05
open Cfi Cfi.Text Spec.C05

/-! ### the whole file -/

/-- the text an element contributes -/
def textOf : Option Data → List Char
  | some (.str s) => s
  | _ => []

theorem linesOk_cons (l : List Char) (ls : List (List Char)) (hne : l ≠ []) (hnl : ¬ '\n' ∈ l.dropLast)
    (hlast : ls ≠ [] → l.getLast? = some '\n') (h : LinesOk ls) : LinesOk (l :: ls) := by
  cases ls with
  | nil => exact ⟨hne, hnl⟩
  | cons l2 ls => exact ⟨hne, hlast (by simp), hnl, h⟩

/-- every in-domain element sequence writes proper lines that read back, one by
one, to the same elements -/
theorem elems_lines (regs : List RegDef) (hamb : unambiguous regs = true)
    (hdel : ∀ r ∈ regs, r.delimiter = .none) (es : List RElem) (hes : elemsOk regs es = true) :
    ∃ lines : List (List Char),
      es.mapM (writeRElem regs .text) = .ok (lines.map fun l => some (.str l)) ∧
      lines.mapM (elemOfLine regs) = .ok es ∧ LinesOk lines ∧ lines.length = es.length := by
  induction es with
  | nil => exact ⟨[], rfl, rfl, trivial, rfl⟩
  | cons e es ih =>
    cases e with
    | typed j data =>
      simp only [elemsOk, Bool.and_eq_true] at hes
      obtain ⟨hreg, hrest⟩ := hes
      obtain ⟨lines, h1, h2, h3, h4⟩ := ih hrest
      cases hj : regs[j]? with
      | none => simp [hj] at hreg
      | some r =>
        simp only [hj] at hreg
        obtain ⟨out, hw, hnl, hrd⟩ := typed_elem regs hamb j r hj (hdel r (List.mem_of_getElem? hj)) data hreg
        refine ⟨(out ++ ['\n']) :: lines, ?_, ?_, ?_, by simp [h4]⟩
        · simp only [List.mapM_cons, hw, h1, bind, Except.bind, pure, Except.pure, List.map_cons]
        · simp only [List.mapM_cons, hrd, h2, bind, Except.bind, pure, Except.pure]
        · exact linesOk_cons _ _ (by simp) (by simpa using hnl) (fun _ => by simp) h3
    | dflt d =>
      cases d with
      | bytes b => simp [elemsOk] at hes
      | str l =>
        simp only [elemsOk, Bool.and_eq_true] at hes
        obtain ⟨hd, hrest⟩ := hes
        obtain ⟨lines, h1, h2, h3, h4⟩ := ih hrest
        simp only [defaultOk, Bool.and_eq_true, Bool.not_eq_true', beq_iff_eq] at hd
        obtain ⟨⟨hne, hcls⟩, hshape⟩ := hd
        have hne' : l ≠ [] := by intro e; subst e; simp at hne
        refine ⟨l :: lines, ?_, ?_, ?_, by simp [h4]⟩
        · simp only [List.mapM_cons, writeRElem, h1, bind, Except.bind, pure, Except.pure, List.map_cons]
        · simp only [List.mapM_cons, Props.C04.default_verbatim regs l hcls, h2, bind, Except.bind, pure, Except.pure]
        · apply linesOk_cons _ _ hne' ?_ ?_ h3
          · split at hshape
            · simpa using hshape
            · simp only [Bool.and_eq_true, beq_iff_eq, Bool.not_eq_true'] at hshape
              simpa using hshape.2
          · intro hl
            have : es.isEmpty = false := by
              cases es with
              | nil => simp at h4; subst h4; exact absurd rfl hl
              | cons _ _ => rfl
            simp only [this, Bool.false_eq_true, if_false, Bool.and_eq_true, beq_iff_eq] at hshape
            exact hshape.1

theorem flatMap_lines (g : Option Data → List Char) (hg : ∀ l, g (some (.str l)) = l) (lines : List (List Char)) :
    (lines.map fun l => some (Data.str l)).flatMap g = lines.flatten := by
  induction lines with
  | nil => rfl
  | cons l ls ih => simp [List.flatMap_cons, ih, hg]

/-- the file writer, one element at a time -/
theorem write_cons (regs : List RegDef) (e : RElem) (es : List RElem) :
    writeRegFileText regs (e :: es) =
      (do let p ← writeRElem regs .text e
          let rest ← writeRegFileText regs es
          pure (textOf p ++ rest)) := by
  simp only [writeRegFileText, List.mapM_cons, bind, Except.bind]
  cases writeRElem regs .text e with
  | error x => rfl
  | ok p =>
    cases es.mapM (writeRElem regs .text) with
    | error x => rfl
    | ok parts =>
      simp only [pure, Except.pure, List.flatMap_cons]
      congr 2

/-- **C05, for every input in the domain**: `read(write(D)) = D` — same number of
elements, same types, equal data in the same order, and the file-level equality
agrees. -/
theorem main (regs : List RegDef) (es : List RElem) (h : inDomain regs es = true) :
    ∃ o, cycle regs es = some o ∧ holds es o = true := by
  simp only [inDomain, Bool.and_eq_true, List.all_eq_true, beq_iff_eq] at h
  obtain ⟨⟨⟨_, hdel⟩, hamb⟩, hes⟩ := h
  obtain ⟨lines, h1, h2, h3, _⟩ := elems_lines regs hamb hdel es hes
  have hw : writeRegFileText regs (RElem.placeholder :: es) = .ok lines.flatten := by
    simp only [writeRegFileText, List.mapM_cons, RElem.placeholder, writeRElem, h1, bind, Except.bind, pure,
      Except.pure, List.flatMap_cons]
    rw [flatMap_lines _ (fun l => rfl)]
    rfl
  have hr : readRegFileText regs lines.flatten = .ok (RElem.placeholder :: es) := by
    rw [Props.C04.main, Spec.C04.expected, splitLines_flatten lines h3, h2]
    rfl
  refine ⟨⟨lines.flatten, RElem.placeholder :: es, true⟩, ?_, ?_⟩
  · simp [cycle, hw, hr]
  · simp [holds]

/-- **All-None registers leave no trace**: for any element sequence with valid
type indices, the written text is that of the sequence without its empty
registers. -/
theorem skip_empty (regs : List RegDef) (es : List RElem)
    (hidx : ∀ e ∈ es, ∀ j d, e = .typed j d → (regs[j]?).isSome = true) :
    writeRegFileText regs es = writeRegFileText regs (es.filter fun e => match e with
      | .typed _ data => !RegDef.isEmpty data
      | _ => true) := by
  induction es with
  | nil => rfl
  | cons e es ih =>
    have ih' := ih (fun e' he' => hidx e' (by simp [he']))
    cases e with
    | dflt d =>
      simp only [List.filter_cons, if_true]
      rw [write_cons, write_cons, ih']
    | typed j data =>
      by_cases hemp : RegDef.isEmpty data = true
      · have hsome := hidx (.typed j data) (by simp) j data rfl
        obtain ⟨r, hr⟩ := Option.isSome_iff_exists.mp hsome
        have hwr : writeRElem regs .text (.typed j data) = .ok none := by
          simp [writeRElem, hr, empty_writes_nothing r .text data hemp]
        simp only [List.filter_cons, hemp, Bool.not_true, Bool.false_eq_true, if_false]
        rw [write_cons, hwr, ← ih']
        cases writeRegFileText regs es <;> rfl
      · have hemp' : RegDef.isEmpty data = false := by simpa using hemp
        simp only [List.filter_cons, hemp', Bool.not_false, if_true]
        rw [write_cons, write_cons, ih']

end Props.C05

namespace Props.C05
open Cfi Cfi.Text Spec.C05

/-- non-vacuity: two register types, a typed register with a zero and a missing
integer, a free-text line and a second typed register are inside the domain of `main` -/
example :
    let rA : RegDef := ⟨"AB".toList, 3, [Field.mk' .int 4 3, Field.mk' .lit 3 8, Field.mk' .int 2 12], .none⟩
    let rB : RegDef := ⟨"C".toList, 3, [Field.mk' .int 2 3], .none⟩
    inDomain [rA, rB] [.typed 0 [.int 0, .str ['x'], .none], .dflt (.str "* note\n".toList), .typed 1 [.int 7]] = true := by
  decide +kernel

end Props.C05
