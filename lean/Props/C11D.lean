import Props.C11F
/-!
C11 from the decidable domain: the per-token law for every admitted value of every kind, hence
the whole statement for every layout, value list and delimiter of `Spec.C11.inDomain` whose
delimiter holds no blank and shares no character with the tokens.
-/
namespace Props.C11
open Cfi Cfi.Text Spec.C11 Spec.C01

/-- a missing date is an empty token and reads back as missing (no format is empty) -/
theorem tokLaw_null_date (f : Field) (v : Val) (hn : v.isNull = true) (fmts : List (List Char))
    (hk : f.kind = .date fmts) (hne : ∀ fm ∈ fmts, fm ≠ []) :
    TokLaw f v (List.replicate f.size ' ') := by
  refine ⟨Props.C01.render_null f v hn, by simp, ?_⟩
  rw [strip_replicate_blank, canonTok, Props.C01.canon_null f v _ hn, hk]
  have := Props.C01.blankLaw_date fmts hne 0
  simp only [Props.C01.BlankLaw, List.replicate_zero] at this
  simp [this]

/-- **The per-token law from the decidable domain of C01, for every kind** -/
theorem tokLaw_of_domain (f : Field) (v : Val) (h : fieldInDomain f v = true)
    (hdate : ∀ fmts, f.kind = .date fmts → v.isNull = true → ∀ fm ∈ fmts, fm ≠ [])
    (hbig : ∀ n, v = .int n → n.natAbs < 10 ^ 4300) : ∃ r, TokLaw f v r := by
  have hdom := h
  simp only [fieldInDomain, Bool.and_eq_true, decide_eq_true_eq] at hdom
  obtain ⟨⟨hfits, _⟩, hk⟩ := hdom
  have hfits' := hfits
  simp only [Spec.C02.fits, Bool.and_eq_true, beq_iff_eq] at hfits'
  obtain ⟨⟨hgeo, hty⟩, hraw⟩ := hfits'
  cases hkind : f.kind with
  | int =>
    rw [hkind] at hty
    by_cases hn : v.isNull = true
    · exact ⟨_, tokLaw_null f v hn (Or.inr hkind)⟩
    cases v with
    | int n =>
      have hl : (PyInt.pyStr n).length ≤ f.size := by
        simp [renderFull, hkind, Val.isNull] at hraw; exact hraw
      exact ⟨_, tokLaw_int f n hkind hl (hbig n rfl)⟩
    | none => exact absurd rfl hn
    | nat => exact absurd rfl hn
    | str s => simp [Spec.C02.typeOk] at hty
    | date d => simp [Spec.C02.typeOk] at hty
    | dbl x =>
      cases x with
      | nan => exact absurd rfl hn
      | inf neg => simp [Spec.C02.typeOk] at hty
      | fin neg m e => simp [Spec.C02.typeOk] at hty
  | lit =>
    rw [hkind] at hty
    by_cases hn : v.isNull = true
    · exact ⟨_, tokLaw_null f v hn (Or.inl hkind)⟩
    cases v with
    | str s =>
      have hl : s.length ≤ f.size := by
        simp [renderFull, hkind, Val.isNull] at hraw; exact hraw
      exact ⟨_, tokLaw_lit f s hkind hl⟩
    | none => exact absurd rfl hn
    | nat => exact absurd rfl hn
    | int n => simp [Spec.C02.typeOk] at hty
    | date d => simp [Spec.C02.typeOk] at hty
    | dbl x =>
      cases x with
      | nan => exact absurd rfl hn
      | inf neg => simp [Spec.C02.typeOk] at hty
      | fin neg m e => simp [Spec.C02.typeOk] at hty
  | flt dec fmt sep =>
    rw [hkind] at hk hty
    simp only [Bool.and_eq_true] at hk
    obtain ⟨hsep, _⟩ := hk
    obtain ⟨c, rfl⟩ : ∃ c, sep = [c] := by
      cases sep with
      | nil => simp [sepOk] at hsep
      | cons c t =>
        cases t with
        | nil => exact ⟨c, rfl⟩
        | cons _ _ => simp [sepOk] at hsep
    by_cases hn : v.isNull = true
    · exact ⟨_, tokLaw_null_flt f v hn dec fmt c hkind (Props.C01.sep_facts hsep).1⟩
    cases v with
    | dbl x =>
      have hx : x.isNaN = false := by
        cases x with
        | nan => exact absurd rfl hn
        | inf neg => rfl
        | fin neg m e => rfl
      exact tokLaw_flt f x dec fmt [c] hkind hfits hx
    | none => exact absurd rfl hn
    | nat => exact absurd rfl hn
    | int n => simp [Spec.C02.typeOk] at hty
    | str s => simp [Spec.C02.typeOk] at hty
    | date d => simp [Spec.C02.typeOk] at hty
  | date fmts =>
    rw [hkind] at hk hty
    by_cases hn : v.isNull = true
    · exact ⟨_, tokLaw_null_date f v hn fmts hkind (hdate fmts hkind hn)⟩
    cases v with
    | date t =>
      cases fmts with
      | nil => simp at hk
      | cons fm rest =>
        simp only [Bool.and_eq_true, List.all_cons, decide_eq_true_eq, Bool.not_eq_true'] at hk
        obtain ⟨⟨hok, _⟩, ⟨⟨hv, hy⟩, hhead⟩, hlast⟩ := hk
        apply tokLaw_date f fm rest t hkind hgeo hok hv hy hhead hlast
        intro p hp
        simp [renderFull, hkind, Val.isNull, hp, Option.elim] at hraw
        exact hraw
    | none => exact absurd rfl hn
    | nat => exact absurd rfl hn
    | int n => simp [Spec.C02.typeOk] at hty
    | str s => simp [Spec.C02.typeOk] at hty
    | dbl x =>
      cases x with
      | nan => exact absurd rfl hn
      | inf neg => simp [Spec.C02.typeOk] at hty
      | fin neg m e => simp [Spec.C02.typeOk] at hty

theorem toks_exist (fs : List Field) (vs : List Val) (hlen : fs.length = vs.length)
    (h : ∀ fv ∈ fs.zip vs, ∃ r, TokLaw fv.1 fv.2 r) :
    ∃ rs : List (List Char), rs.length = fs.length ∧
      (∀ i (hi : i < fs.length), ∃ r, rs[i]? = some r ∧ TokLaw fs[i] (vs[i]'(hlen ▸ hi)) r) ∧
      ∀ r ∈ rs, ∃ fv ∈ fs.zip vs, renderText fv.1 fv.2 = .ok r := by
  induction fs generalizing vs with
  | nil => exact ⟨[], rfl, fun i hi => absurd hi (by simp), fun r hr => absurd hr (by simp)⟩
  | cons f fs ih =>
    cases vs with
    | nil => simp at hlen
    | cons v vs =>
      obtain ⟨r, hr⟩ := h (f, v) (by simp)
      obtain ⟨rs, h1, h2, h3⟩ := ih vs (by simpa using hlen) (fun fv hfv => h fv (by simp [hfv]))
      refine ⟨r :: rs, by simp [h1], ?_, ?_⟩
      · intro i hi
        cases i with
        | zero => exact ⟨r, rfl, hr⟩
        | succ i =>
          have hi' : i < fs.length := by simpa using hi
          obtain ⟨r', hr1, hr2⟩ := h2 i hi'
          exact ⟨r', by simpa using hr1, by simpa using hr2⟩
      · intro r' hr'
        simp only [List.mem_cons] at hr'
        rcases hr' with rfl | hr'
        · exact ⟨(f, v), by simp, hr.1⟩
        · obtain ⟨fv, hfv, hfr⟩ := h3 r' hr'
          exact ⟨fv, by simp [hfv], hfr⟩

/-- **C11 from the decidable domain.** For every layout, value list and delimiter admitted by
`Spec.C11.inDomain` (every value in the domain of C01, tokens free of the delimiter), any
padding and any sequence of further lines, provided the delimiter holds no blank and shares no
character with the trimmed renderings: the model's write / read cycle satisfies the whole of
`Spec.C11.holds`. The per-token law is discharged for every kind (`tokLaw_of_domain`). -/
theorem main_dom (fs : List Field) (vs : List Val) (d : List Char)
    (pads : List (Nat × Nat)) (lines : List (List Char))
    (h : Spec.C11.inDomain fs vs d = true) (hp : fs.length ≤ pads.length)
    (hnl : ¬ '\n' ∈ d) (hblank : ¬ ' ' ∈ d)
    (hfree : ∀ fv ∈ fs.zip vs, ∀ r, renderText fv.1 fv.2 = .ok r → ∀ c ∈ strip r, ¬ c ∈ d)
    (hdate : ∀ fv ∈ fs.zip vs, ∀ fmts, fv.1.kind = .date fmts → fv.2.isNull = true → ∀ fm ∈ fmts, fm ≠ [])
    (hbig : ∀ v ∈ vs, ∀ n, v = .int n → n.natAbs < 10 ^ 4300) :
    ∃ o, cycle fs vs d pads lines = some o ∧ holds fs vs d pads lines o = true := by
  simp only [Spec.C11.inDomain, Bool.and_eq_true, Bool.not_eq_true', beq_iff_eq, List.all_eq_true] at h
  obtain ⟨⟨⟨⟨hd, hlen⟩, _⟩, hdom⟩, _⟩ := h
  have hlaw : ∀ fv ∈ fs.zip vs, ∃ r, TokLaw fv.1 fv.2 r := by
    intro fv hfv
    exact tokLaw_of_domain fv.1 fv.2 (hdom fv hfv) (hdate fv hfv) (hbig fv.2 (List.of_mem_zip hfv).2)
  obtain ⟨rs, hrl, hidx, hmem⟩ := toks_exist fs vs hlen hlaw
  apply main fs vs rs d pads lines hlen hrl hp hidx (by intro e; subst e; simp at hd) hnl hblank
  intro r hr c hc
  obtain ⟨fv, hfv, hfr⟩ := hmem r hr
  exact hfree fv hfv r hfr c hc

/-- non-vacuity: an integer, the double 1.5 in E notation and a missing date, delimiter `;`,
meet every premise of `main_dom` -/
example :
    let fs := [Field.mk' .int 5 0, Field.mk' (.flt 3 'E' ['.']) 12 5, Field.mk' (.date ["%d/%m/%Y".toList]) 10 17]
    let vs := [Val.int (-42), Val.dbl (.fin false (2 ^ 52 + 2 ^ 51) (-52)), Val.none]
    Spec.C11.inDomain fs vs [';'] = true ∧
    (∀ fv ∈ fs.zip vs, ∀ r, renderText fv.1 fv.2 = .ok r → ∀ c ∈ strip r, ¬ c ∈ [';']) ∧
    (∀ fv ∈ fs.zip vs, ∀ fmts, fv.1.kind = .date fmts → fv.2.isNull = true → ∀ fm ∈ fmts, fm ≠ []) := by
  have r1 : renderText (Field.mk' .int 5 0) (Val.int (-42)) = .ok "  -42".toList := by decide +kernel
  have r2 : renderText (Field.mk' (.flt 3 'E' ['.']) 12 5) (Val.dbl (.fin false (2 ^ 52 + 2 ^ 51) (-52))) =
      .ok "   1.500E+00".toList := by decide +kernel
  have r3 : renderText (Field.mk' (.date ["%d/%m/%Y".toList]) 10 17) Val.none = .ok "          ".toList := by
    decide +kernel
  refine ⟨by decide +kernel, ?_, ?_⟩
  · intro fv hfv r hr c hc
    simp only [List.zip_cons_cons, List.zip_nil_right, List.mem_cons, List.not_mem_nil, or_false] at hfv
    rcases hfv with rfl | rfl | rfl
    · rw [r1] at hr; injection hr with hr; subst hr
      revert c; decide +kernel
    · rw [r2] at hr; injection hr with hr; subst hr
      revert c; decide +kernel
    · rw [r3] at hr; injection hr with hr; subst hr
      revert c; decide +kernel
  · intro fv hfv fmts hk hn fm hfm
    simp only [List.zip_cons_cons, List.zip_nil_right, List.mem_cons, List.not_mem_nil, or_false] at hfv
    rcases hfv with rfl | rfl | rfl
    · simp [Field.mk'] at hk
    · simp [Field.mk'] at hk
    · simp only [Field.mk', Kind.date.injEq] at hk
      subst hk
      simp at hfm; subst hfm; decide

end Props.C11
