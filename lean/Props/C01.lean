import Cfi.Line
import Spec.C01
import Proofs.IntLaw
import Proofs.LitLaw
import Proofs.Layout
import Proofs.DateLaw2
import Proofs.SplitJoin
import Proofs.LineShape
import Proofs.Renders
import Proofs.FloatLaw
import Proofs.FloatLoop
/-!
C01 — property theorems.

Structure: (1) per-kind render/parse laws (`RenderLaw`): proved here for
missing values of every kind, integers and literals; floats and dates enter
as the named hypothesis `RenderLaw f v` (their laws are validated on every run
by the exact correspondence and are being proved in `Proofs/`); (2) the layout
theorem lifts the per-field laws to whole positional lines, for any number of
fields, any order, any gaps.
-/
namespace Props.C01
open Cfi Cfi.Text Spec.C01

/-- the decidable disjointness of the specifications is the one the layout theorems use -/
theorem Disjoint_of_bool' (fs : List Field) (h : Spec.C02.disjoint fs = true) : Cfi.Disjoint fs := by
  induction fs with
  | nil => trivial
  | cons f fs ih =>
    simp only [Spec.C02.disjoint, Bool.and_eq_true, List.all_eq_true, Bool.or_eq_true, decide_eq_true_eq] at h
    exact ⟨fun g hg => h.1 g hg, ih h.2⟩

/-- the per-kind law: the rendering is exactly `size` wide and parses back to
the canonical form of the value -/
def RenderLaw (f : Field) (v : Val) : Prop :=
  ∃ r, rendersTo f v r ∧ (parseText f.kind r).getD .none = canon f v r ∧
    -- and rendering the canonical form gives the same text (stability)
    renderText f (canon f v r) = .ok r

theorem canon_null (f : Field) (v : Val) (span : List Char) (h : v.isNull = true) :
    canon f v span = (match f.kind with | .lit => .str [] | _ => .none) := by
  simp only [canon, h, if_true]
  cases f.kind <;> rfl

theorem render_null (f : Field) (v : Val) (hn : v.isNull = true) :
    renderText f v = .ok (List.replicate f.size ' ') := by
  unfold renderText renderRaw renderFull
  simp only [hn, if_true, Except.map]
  cases f.kind <;> cases v <;> simp_all [ljust, rjust, Val.isNull]

/-! ### integers -/

/-- **Integers**: any integer whose text fits the field is rendered right-justified,
`size` wide, reads back unchanged, and re-renders to the same text. -/
theorem law_int (f : Field) (n : Int) (hk : f.kind = .int) (hgeo : f.stop = f.size + f.start)
    (hfit : (PyInt.pyStr n).length ≤ f.size) (hbig : n.natAbs < 10 ^ 4300) : RenderLaw f (.int n) := by
  refine ⟨rjust (PyInt.pyStr n) f.size ' ', ⟨?_, ?_, hgeo⟩, ?_, ?_⟩
  · simp [renderText, renderRaw, renderFull, hk, Val.isNull, Except.map]
  · rw [length_rjust]; omega
  · simp only [parseText, hk, canon, Val.isNull, pyInt_rjust_pyStr n f.size hbig]
    simp
  · simp [canon, hk, Val.isNull, renderText, renderRaw, renderFull, Except.map]

/-! ### literals -/

/-- a literal in canonical position: its blank-trimmed text followed by blanks only
(no leading white space; any trailing white space is plain blanks) -/
def litCanonical (s : List Char) : Prop := ∃ k, s = strip s ++ List.replicate k ' '

theorem ljust_strip_eq {s : List Char} {size : Nat} (hc : litCanonical s) (hfit : s.length ≤ size) :
    ljust (strip s) size ' ' = ljust s size ' ' := by
  obtain ⟨k, hk⟩ := hc
  have hl : s.length = (strip s).length + k := by
    have := congrArg List.length hk; simpa using this
  unfold ljust
  rw [show s ++ List.replicate (size - s.length) ' ' = strip s ++ (List.replicate k ' ' ++ List.replicate (size - s.length) ' ') by
    rw [← List.append_assoc, ← hk]]
  rw [List.replicate_append_replicate]
  congr 2
  omega

/-- **Literals**: rendered left-justified, `size` wide; read back blank-trimmed;
re-rendering the trimmed text gives the same text. -/
theorem law_lit (f : Field) (s : List Char) (hk : f.kind = .lit) (hgeo : f.stop = f.size + f.start)
    (hfit : s.length ≤ f.size) (hc : litCanonical s) : RenderLaw f (.str s) := by
  refine ⟨ljust s f.size ' ', ⟨?_, ?_, hgeo⟩, ?_, ?_⟩
  · simp [renderText, renderRaw, renderFull, hk, Val.isNull, Except.map]
  · rw [length_ljust]; omega
  · simp [parseText, hk, canon, Val.isNull, strip_ljust]
  · simp only [canon, hk, Val.isNull, renderText, renderRaw, renderFull, Except.map]
    simp [ljust_strip_eq hc hfit]

/-! ### missing values (every kind) -/

/-- blanks are not a number, and trim to the empty literal -/
theorem parse_blank_lit (n : Nat) : parseText .lit (List.replicate n ' ') = some (.str []) := by
  simp [parseText, strip_replicate_blank]

theorem parse_blank_int (n : Nat) : parseText .int (List.replicate n ' ') = none := by
  have hs : stripBy isNumWs (List.replicate n ' ') = [] := by
    have := stripBy_append_replicate (p := isNumWs) [] n ' ' isNumWs_blank
    simpa [stripBy] using this
  simp [parseText, PyInt.pyInt, hs, PyInt.sign, PyInt.digitsUS]

/-- the blank span of a missing value reads back as None ("" for literals) -/
def BlankLaw (k : Kind) (n : Nat) : Prop :=
  parseText k (List.replicate n ' ') = (match k with | .lit => some (.str []) | _ => none)

theorem blankLaw_lit (n : Nat) : BlankLaw .lit n := parse_blank_lit n
theorem blankLaw_int (n : Nat) : BlankLaw .int n := parse_blank_int n

/-- **Missing values** (None / NaN / NaT) of a literal or integer field: all
blanks, read back as "" / None.  (Floats and dates: given `BlankLaw`.) -/
theorem readText_null (f : Field) (v : Val) (hn : v.isNull = true) (hgeo : f.stop = f.size + f.start)
    (hb : BlankLaw f.kind f.size) (line : List Char) :
    ∃ out, f.writeText v line = .ok out ∧
      f.readText out = (match f.kind with | .lit => .str [] | _ => .none) := by
  refine ⟨splice line f.start f.stop (List.replicate f.size ' ') ' ', ?_, ?_⟩
  · simp [Field.writeText, render_null f v hn, Except.map]
  · have hs : f.start ≤ f.stop := by omega
    have hv : (List.replicate f.size ' ').length = f.stop - f.start := by simp; omega
    simp only [Field.readText, slice_splice hs hv]
    unfold BlankLaw at hb
    rw [hb]
    cases f.kind <;> rfl

theorem replaceNE_absent (old new : List Char) (hold : old ≠ []) (s : List Char)
    (h : ∀ c ∈ s, ¬ c ∈ old) (fuel : Nat) : replaceNE old new fuel s = s := by
  induction s generalizing fuel with
  | nil => cases fuel <;> rfl
  | cons c cs ih =>
    cases fuel with
    | zero => rfl
    | succ fuel =>
      have hp : isPrefix old (c :: cs) = false := isPrefix_false_of_head old c cs hold (h c (by simp))
      simp only [replaceNE, hp, Bool.false_eq_true, if_false, ih (fun x hx => h x (by simp [hx]))]

/-- blanks are not a float either, whatever the (non-blank, one-character) decimal separator -/
theorem blankLaw_flt (dec : Nat) (fmt c : Char) (hc : c ≠ ' ') (n : Nat) : BlankLaw (.flt dec fmt [c]) n := by
  have hrep : replace (List.replicate n ' ') [c] ['.'] = List.replicate n ' ' := by
    simp only [replace, List.isEmpty_cons, Bool.false_eq_true, if_false]
    apply replaceNE_absent _ _ (by simp)
    intro x hx
    simp only [List.mem_replicate] at hx
    simp only [List.mem_singleton]
    rw [hx.2]; exact fun e => hc e.symm
  have hs : stripBy isNumWs (List.replicate n ' ') = [] := by
    have := stripBy_append_replicate (p := isNumWs) [] n ' ' isNumWs_blank
    simpa [stripBy] using this
  simp only [BlankLaw, parseText, hrep, Dbl.pyFloat, hs, PyInt.sign, PyInt.digitsUS]
  decide

/-- **Missing values obey the law** in every field kind whose blank span does not
parse (`BlankLaw`: proved for literals and integers) -/
theorem law_null (f : Field) (v : Val) (hn : v.isNull = true) (hgeo : f.stop = f.size + f.start)
    (hb : BlankLaw f.kind f.size) : RenderLaw f v := by
  refine ⟨List.replicate f.size ' ', ⟨render_null f v hn, by simp, hgeo⟩, ?_, ?_⟩
  · rw [canon_null f v _ hn]
    unfold BlankLaw at hb
    rw [hb]
    cases f.kind <;> rfl
  · rw [canon_null f v _ hn]
    cases hk : f.kind with
    | lit => simp [renderText, renderRaw, renderFull, hk, Val.isNull, Except.map, ljust]
    | int => exact render_null f .none rfl
    | flt _ _ _ => exact render_null f .none rfl
    | date _ => exact render_null f .none rfl

/-! ### whole lines -/

/-- **Line round trip**: for every positional layout of pairwise disjoint fields
(any number, any order, gaps allowed) and every value list satisfying the
per-kind law, reading the written line returns the canonical form of every value. -/
theorem line_roundtrip (fs : List Field) (vs : List Val) (rs : List (List Char))
    (hlen : fs.length = vs.length)
    (hr : All2 (fun (fv : Field × Val) r => rendersTo fv.1 fv.2 r) (fs.zip vs) rs)
    (hdis : Cfi.Disjoint fs) (w : List Char) (hw : writePos fs vs = .ok w) :
    All2 (fun (f : Field) r => f.readText w = (parseText f.kind r).getD .none) fs rs := by
  simp only [writePos, Except.map] at hw
  cases hwf : writeFields fs vs [] with
  | error e => simp [hwf] at hw
  | ok out =>
    simp only [hwf] at hw
    injection hw with hw
    subst hw
    have hspans := writeFields_spans fs vs rs hlen hr hdis [] out hwf
    -- every span lies inside `out`, so the trailing newline does not matter
    have hstop : ∀ (fs' : List Field) (vs' : List Val) (rs' : List (List Char)) (line : List Char),
        fs'.length = vs'.length →
        All2 (fun (fv : Field × Val) r => rendersTo fv.1 fv.2 r) (fs'.zip vs') rs' →
        writeFields fs' vs' line = .ok out → ∀ f ∈ fs', f.stop ≤ out.length := by
      intro fs'
      induction fs' with
      | nil => intro _ _ _ _ _ _ f hf; simp at hf
      | cons g gs ih =>
        intro vs' rs' line hl hr' hw' f hf
        cases vs' with
        | nil => simp at hl
        | cons v' vs' =>
          simp only [List.zip_cons_cons] at hr'
          cases hr' with
          | @cons _ r _ rs'' h1 hrest =>
            obtain ⟨hrend, hrl, hgeo⟩ := h1
            dsimp only at hrend hrl hgeo
            simp only [writeFields, Field.writeText, hrend, Except.map, bind, Except.bind] at hw'
            have hs : g.start ≤ g.stop := by omega
            have hv : r.length = g.stop - g.start := by rw [hrl]; omega
            have hlen' := length_splice (line := line) (b := ' ') hs hv
            rcases List.mem_cons.mp hf with rfl | hf
            · have := (writeFields_preserves gs vs' _ (by simpa using hl) hrest _ out hw' 0 0 (by omega)
                (fun _ _ => Or.inl (Nat.zero_le _))).2
              omega
            · exact ih vs' _ _ (by simpa using hl) hrest hw' f hf
    have hall := hstop fs vs rs [] hlen hr hwf
    clear hstop hr hwf hdis hlen
    induction hspans with
    | nil => exact .nil
    | @cons f r fs' rs' h1 _ ih =>
      refine .cons ?_ (ih (fun g hg => hall g (List.mem_cons_of_mem f hg)))
      have hle := hall f List.mem_cons_self
      simp only [Field.readText]
      have : slice (out ++ ['\n']) f.start f.stop = slice out f.start f.stop := by
        simp only [slice, List.take_append_of_le_length hle]
      rw [this, h1]

/-- a positional write depends on the values only through their renderings -/
theorem writeFields_congr (fs : List Field) (vs vs' : List Val) (hl : fs.length = vs.length)
    (hl' : fs.length = vs'.length)
    (h : (fs.zip vs).map (fun fv => renderText fv.1 fv.2) = (fs.zip vs').map (fun fv => renderText fv.1 fv.2))
    (line : List Char) : writeFields fs vs line = writeFields fs vs' line := by
  induction fs generalizing vs vs' line with
  | nil => cases vs <;> cases vs' <;> simp_all [writeFields]
  | cons f fs ih =>
    cases vs with
    | nil => simp at hl
    | cons v vs =>
      cases vs' with
      | nil => simp at hl'
      | cons v' vs' =>
        simp only [List.zip_cons_cons, List.map_cons, List.cons.injEq] at h
        simp only [writeFields, Field.writeText, h.1]
        cases renderText f v' with
        | error e => rfl
        | ok r =>
          simp only [Except.map, bind, Except.bind]
          exact ih vs vs' (by simpa using hl) (by simpa using hl') h.2 _

/-- **Rendering stability**: if every field obeys its law, the values read back
from a written line render, field by field, to the very texts they were read from. -/
theorem renderings_stable (fs : List Field) (vs : List Val) (w : List Char)
    (hlen : fs.length = vs.length) (hdis : Cfi.Disjoint fs)
    (hlaw : ∀ fv ∈ fs.zip vs, RenderLaw fv.1 fv.2)
    (hw : writePos fs vs = .ok w) :
    (fs.zip (readPos fs w)).map (fun fv => renderText fv.1 fv.2) =
      (fs.zip vs).map (fun fv => renderText fv.1 fv.2) := by
  -- the renderings
  have hrs : ∃ rs, All2 (fun (fv : Field × Val) r => rendersTo fv.1 fv.2 r ∧
      (parseText fv.1.kind r).getD .none = canon fv.1 fv.2 r ∧ renderText fv.1 (canon fv.1 fv.2 r) = .ok r)
      (fs.zip vs) rs := by
    clear hw hdis hlen
    generalize fs.zip vs = zs at hlaw
    induction zs with
    | nil => exact ⟨[], .nil⟩
    | cons z zs ih =>
      obtain ⟨r, h1, h2, h3⟩ := hlaw z List.mem_cons_self
      obtain ⟨rs, hrs⟩ := ih (fun fv hfv => hlaw fv (List.mem_cons_of_mem z hfv))
      exact ⟨r :: rs, .cons ⟨h1, h2, h3⟩ hrs⟩
  obtain ⟨rs, hrs⟩ := hrs
  have hr : All2 (fun (fv : Field × Val) r => rendersTo fv.1 fv.2 r) (fs.zip vs) rs := by
    clear hw
    generalize fs.zip vs = zs at hrs
    induction hrs with
    | nil => exact .nil
    | cons h _ ih => exact .cons h.1 ih
  have hread := line_roundtrip fs vs rs hlen hr hdis w hw
  -- the values read back render to the same texts
  have key : ∀ (fs' : List Field) (vs' : List Val) (rs' : List (List Char)),
      All2 (fun (fv : Field × Val) r => rendersTo fv.1 fv.2 r ∧
        (parseText fv.1.kind r).getD .none = canon fv.1 fv.2 r ∧ renderText fv.1 (canon fv.1 fv.2 r) = .ok r)
        (fs'.zip vs') rs' →
      All2 (fun (f : Field) r => f.readText w = (parseText f.kind r).getD .none) fs' rs' →
      fs'.length = vs'.length →
      (fs'.zip (fs'.map (·.readText w))).map (fun fv => renderText fv.1 fv.2) =
        (fs'.zip vs').map (fun fv => renderText fv.1 fv.2) := by
    intro fs'
    induction fs' with
    | nil => intro _ _ _ _ _; rfl
    | cons f fs' ih =>
      intro vs' rs' h1 h2 hl
      cases vs' with
      | nil => simp at hl
      | cons v vs' =>
        simp only [List.zip_cons_cons] at h1
        cases h1 with
        | cons ha hrest =>
          cases h2 with
          | cons hb hrest2 =>
            simp only [List.map_cons, List.zip_cons_cons, List.cons.injEq]
            refine ⟨?_, ih vs' _ hrest hrest2 (by simpa using hl)⟩
            rw [hb, ha.2.1]
            rw [ha.2.2, ha.1.1]
  exact key fs vs rs hrs hread hlen

/-- **Text stability**: if every field obeys its law, writing the values that
were read back reproduces the identical text — one write/read cycle never drifts. -/
theorem line_stable (fs : List Field) (vs : List Val) (w : List Char)
    (hlen : fs.length = vs.length) (hdis : Cfi.Disjoint fs)
    (hlaw : ∀ fv ∈ fs.zip vs, RenderLaw fv.1 fv.2)
    (hw : writePos fs vs = .ok w) : writePos fs (readPos fs w) = .ok w := by
  have hcongr : writeFields fs (readPos fs w) [] = writeFields fs vs [] :=
    writeFields_congr fs (readPos fs w) vs (by simp [readPos]) hlen
      (renderings_stable fs vs w hlen hdis hlaw hw) []
  simp only [writePos, hcongr] at hw ⊢
  exact hw

/-- the renderings promised by the per-field laws, as one list -/
theorem laws_all2 (zs : List (Field × Val)) (hlaw : ∀ fv ∈ zs, RenderLaw fv.1 fv.2) :
    ∃ rs, All2 (fun (fv : Field × Val) r => rendersTo fv.1 fv.2 r ∧
      (parseText fv.1.kind r).getD .none = canon fv.1 fv.2 r ∧ renderText fv.1 (canon fv.1 fv.2 r) = .ok r) zs rs := by
  induction zs with
  | nil => exact ⟨[], .nil⟩
  | cons z zs ih =>
    obtain ⟨r, h1, h2, h3⟩ := hlaw z List.mem_cons_self
    obtain ⟨rs, hrs⟩ := ih (fun fv hfv => hlaw fv (List.mem_cons_of_mem z hfv))
    exact ⟨r :: rs, .cons ⟨h1, h2, h3⟩ hrs⟩

/-- **What a written line reads back to**: field by field, the canonical form of
the value that was written (`rs` are the renderings). -/
theorem readPos_written (fs : List Field) (vs : List Val) (rs : List (List Char)) (w : List Char)
    (hlen : fs.length = vs.length) (hdis : Cfi.Disjoint fs)
    (hrs : All2 (fun (fv : Field × Val) r => rendersTo fv.1 fv.2 r ∧
      (parseText fv.1.kind r).getD .none = canon fv.1 fv.2 r ∧ renderText fv.1 (canon fv.1 fv.2 r) = .ok r) (fs.zip vs) rs)
    (hw : writePos fs vs = .ok w) :
    readPos fs w = ((fs.zip vs).zip rs).map (fun (x : (Field × Val) × List Char) => canon x.1.1 x.1.2 x.2) := by
  have hr : All2 (fun (fv : Field × Val) r => rendersTo fv.1 fv.2 r) (fs.zip vs) rs := by
    clear hw
    generalize fs.zip vs = zs at hrs
    induction hrs with
    | nil => exact .nil
    | cons h _ ih => exact .cons h.1 ih
  have hread := line_roundtrip fs vs rs hlen hr hdis w hw
  clear hw hr hdis
  unfold readPos
  induction fs generalizing vs rs with
  | nil => cases hread; rfl
  | cons f fs ih =>
    cases vs with
    | nil => simp at hlen
    | cons v vs =>
      simp only [List.zip_cons_cons] at hrs
      cases hrs with
      | cons ha hrest =>
        cases hread with
        | cons hb hrest2 =>
          simp only [List.map_cons, List.zip_cons_cons, List.cons.injEq]
          refine ⟨?_, ih vs _ (by simpa using hlen) hrest hrest2⟩
          rw [hb, ha.2.1]

/-! ### dates -/

/-- blanks are not a date in any non-empty format -/
theorem blankLaw_date (fmts : List (List Char)) (hne : ∀ fm ∈ fmts, fm ≠ []) (n : Nat) : BlankLaw (.date fmts) n := by
  simp only [BlankLaw, parseText, strip_replicate_blank, Option.map_eq_none_iff, List.findSome?_eq_none_iff]
  intro fm hfm
  exact Cfi.Date.strptime_nil fm (hne fm hfm)

/-- what `fmtOk` gives -/
theorem items_of_fmtOk (fmt : List Char) (h : Spec.C03.fmtOk fmt = true) :
    ∃ items, Cfi.Date.parseFmt (fmt.length + 1) fmt = some items := by
  unfold Spec.C03.fmtOk at h
  cases hp : Cfi.Date.parseFmt (fmt.length + 1) fmt with
  | none => simp [hp] at h
  | some items => exact ⟨items, rfl⟩

/-- the text `strftime` produces for a format that neither starts nor ends with
white space has no white space at its ends -/
theorem strip_strftime (fmt : List Char) (t : Cfi.Date.DT) (items : List Cfi.Date.Item) (p : List Char)
    (hparse : Cfi.Date.parseFmt (fmt.length + 1) fmt = some items)
    (hp : Cfi.Date.strftime (fmt.length + 1) fmt t = some p)
    (hhead : isStripWs (fmt.headD ' ') = false) (hlast : isStripWs (fmt.getLastD ' ') = false) :
    strip p = p := by
  obtain ⟨p', h1, h2, h3⟩ := Cfi.Date.emits_of_parse t _ fmt items hparse
  have : p' = p := by
    have := h1 (fmt.length + 1) (by omega)
    rw [hp] at this; exact (Option.some.inj this).symm
  subst this
  have hh : ∀ y, p'.head? = some y → isStripWs y = false := by
    intro y hy
    cases hf : fmt with
    | nil =>
      subst hf
      simp only [Cfi.Date.parseFmt] at hparse
      injection hparse with hparse; subst hparse
      cases h2; simp at hy
    | cons x r =>
      subst hf
      exact h3 x rfl (by simpa using hhead) y hy
  have hl : ∀ y, p'.getLast? = some y → isStripWs y = false := by
    intro y hy
    cases hw : isStripWs y with
    | false => rfl
    | true =>
      exfalso
      have := Cfi.Date.emits_last t items p' h2 y hy hw
      obtain ⟨x, hx, hxw⟩ := Cfi.Date.parse_last_ws _ fmt items hparse this
      have : fmt.getLastD ' ' = x := by
        rw [List.getLastD_eq_getLast?, hx]; rfl
      rw [this, hxw] at hlast
      exact absurd hlast (by simp)
  have := stripBy_pad_left (p := isStripWs) 0 ' ' p' isStripWs_blank hh hl
  simpa [strip] using this

/-- **Dates**: a `datetime` written with the field's first format reads back as its
truncation to that format, and re-rendering the truncation gives the same text
— `strptime` after `strftime` with all the regex alternatives and backtracking
of CPython's `_strptime`, for every format of the modelled directive set. -/
theorem law_date (f : Field) (fmt : List Char) (fmts : List (List Char)) (t : Cfi.Date.DT)
    (hk : f.kind = .date (fmt :: fmts)) (hgeo : f.stop = f.size + f.start)
    (hok : Spec.C03.fmtOk fmt = true)
    (hv : (truncDate fmt t).valid = true) (hy : 1000 ≤ (truncDate fmt t).y)
    (hhead : isStripWs (fmt.headD ' ') = false) (hlast : isStripWs (fmt.getLastD ' ') = false)
    (hfit : ∀ p, Cfi.Date.strftime (fmt.length + 1) fmt t = some p → p.length ≤ f.size) :
    RenderLaw f (.date t) := by
  obtain ⟨items, hparse⟩ := items_of_fmtOk fmt hok
  obtain ⟨p, hp, hread, _⟩ := Cfi.Date.strptime_strftime fmt t items hparse hv hy
  have hstrip := strip_strftime fmt t items p hparse hp hhead hlast
  have hlen := hfit p hp
  have hren : ∀ t', Cfi.Date.strftime (fmt.length + 1) fmt t' = some p →
      renderText f (.date t') = .ok (ljust p f.size ' ') := by
    intro t' ht'
    simp [renderText, renderRaw, renderFull, hk, Val.isNull, ht', Option.elim, Except.map]
  refine ⟨ljust p f.size ' ', ⟨hren t hp, by rw [length_ljust]; omega, hgeo⟩, ?_, ?_⟩
  · simp only [parseText, hk, strip_ljust, hstrip, List.findSome?_cons, hread, canon, Val.isNull,
      Bool.false_eq_true, if_false]
    rfl
  · have : canon f (.date t) (ljust p f.size ' ') = .date (truncDate fmt t) := by
      simp [canon, hk, Val.isNull]
    rw [this]
    apply hren
    rw [Cfi.Date.strftime_trunc fmt t items hparse]; exact hp

/-! ### the read-back clause alone (no stability needed): all kinds but dates -/

/-- the read half of the law: the rendering is `size` wide and parses to the
canonical form -/
def ReadLaw (f : Field) (v : Val) : Prop :=
  ∃ r, rendersTo f v r ∧ (parseText f.kind r).getD .none = canon f v r

theorem readLaw_of_renderLaw {f : Field} {v : Val} (h : RenderLaw f v) : ReadLaw f v := by
  obtain ⟨r, h1, h2, _⟩ := h
  exact ⟨r, h1, h2⟩

/-- **Floats**: for a float field the canonical form IS "the double nearest to the
decimal actually emitted", i.e. the parse of the emitted span — so the read
half of the law holds for every finite or infinite double that fits. -/
theorem readLaw_flt (f : Field) (x : Dbl) (dec : Nat) (fmt : Char) (sep : List Char)
    (hk : f.kind = .flt dec fmt sep) (hfit : Spec.C02.fits f (.dbl x) = true) (hn : x.isNaN = false) :
    ReadLaw f (.dbl x) := by
  obtain ⟨r, hr⟩ := rendersTo_of_fits f (.dbl x) hfit
  refine ⟨r, hr, ?_⟩
  simp only [canon, Val.isNull, hn, Bool.false_eq_true, if_false, hk, parseText]
  cases Dbl.pyFloat (replace r sep ['.']) <;> rfl

/-- **Floats in F notation, full law**: for every finite double and every F-notation
float field (any width, any number of decimals up to 323, any admitted one-character
separator) in which the rendering with the declared number of decimals fits, the text
written is `size` wide, reads back as `round(x, decimals)` — which is the canonical form
"the double nearest to the decimal emitted" — and writing the value read back gives the
same text (stability). Rests on `Proofs.Nearest.round_fixed` (a double at least as close
to `n/10^d` as `x` rounds to the same `n`) and `Proofs.FloatText.float_fmtF_round`. -/
theorem law_flt_F (f : Field) (dec : Nat) (fmt c : Char) (hk : f.kind = .flt dec fmt [c])
    (hfmt : fmt = 'F' ∨ fmt = 'f') (hsep : sepOk [c] = true) (hgeo : f.stop = f.size + f.start)
    (neg : Bool) (m : Nat) (e : Int) (hwf : Proofs.FloatText.wf m e) (hdec : dec ≤ 323) (r : Dbl)
    (hr : Dbl.pyRound (.fin neg m e) dec = some r) (hfit : (Dbl.fmtF r dec (fmt == 'F')).length ≤ f.size) :
    RenderLaw f (.dbl (.fin neg m e)) := by
  have hc : c ≠ ' ' ∧ c.isDigit = false ∧ c ≠ '-' := by
    simp only [sepOk, Bool.not_eq_true', Bool.or_eq_false_iff] at hsep
    obtain ⟨⟨⟨⟨⟨⟨⟨⟨⟨⟨⟨⟨⟨⟨h1, h2⟩, _⟩, _⟩, _⟩, h5⟩, _⟩, _⟩, _⟩, _⟩, _⟩, _⟩, _⟩, _⟩, _⟩ := hsep
    refine ⟨?_, ?_, ?_⟩
    · intro e; subst e; revert h5; decide
    · cases hd : c.isDigit with
      | false => rfl
      | true =>
        have := (Cfi.isDigit_iff c).1 hd
        have : isAsciiDigit c = true := by
          simp only [isAsciiDigit, Bool.and_eq_true, decide_eq_true_eq]
          constructor
          · show '0'.toNat ≤ c.toNat; simp; omega
          · show c.toNat ≤ '9'.toNat; simp; omega
        rw [this] at h1; exact absurd h1 (by simp)
    · intro e; subst e; simp at h2
  obtain ⟨t, h1, h2, h3, h4, _⟩ := Proofs.FloatLaw.fltF_core f dec fmt c hk hfmt hc.1 hc.2.1 hc.2.2 neg m e hwf hdec r hr hfit
  have hpf : Dbl.pyFloat (replace t [c] ['.']) = some r := by
    rw [hk] at h3
    simp only [parseText] at h3
    cases hp : Dbl.pyFloat (replace t [c] ['.']) with
    | none => rw [hp] at h3; simp at h3
    | some d => rw [hp] at h3; simp at h3; rw [h3]
  have hcan : canon f (.dbl (.fin neg m e)) t = .dbl r := by
    simp only [canon, Val.isNull, Dbl.isNaN, Bool.false_eq_true, if_false, hk, hpf]
  refine ⟨t, ⟨h1, h2, hgeo⟩, ?_, ?_⟩
  · rw [h3, hcan]; rfl
  · rw [hcan]; exact h4

theorem sep_facts {c : Char} (hsep : sepOk [c] = true) : c ≠ ' ' ∧ c.isDigit = false ∧ c ≠ '-' := by
  simp only [sepOk, Bool.not_eq_true', Bool.or_eq_false_iff] at hsep
  obtain ⟨⟨⟨⟨⟨⟨⟨⟨⟨⟨⟨⟨⟨⟨h1, h2⟩, _⟩, _⟩, _⟩, h5⟩, _⟩, _⟩, _⟩, _⟩, _⟩, _⟩, _⟩, _⟩, _⟩ := hsep
  refine ⟨?_, ?_, ?_⟩
  · intro e; subst e; revert h5; decide
  · cases hd : c.isDigit with
    | false => rfl
    | true =>
      have := (Cfi.isDigit_iff c).1 hd
      have : isAsciiDigit c = true := by
        simp only [isAsciiDigit, Bool.and_eq_true, decide_eq_true_eq]
        constructor
        · show '0'.toNat ≤ c.toNat; simp; omega
        · show c.toNat ≤ '9'.toNat; simp; omega
      rw [this] at h1; exact absurd h1 (by simp)
  · intro e; subst e; simp at h2

/-- **Floats in F notation, full law, general case** — the decimals-dropping loop included.
For every finite double (the largest one included) and every F-notation float field (any
width, up to 323 declared decimals, any admitted separator) in which the value fits
(`Spec.C02.fits`: the text the writer settles on, after dropping as many decimals as needed,
is at most `size` wide): the text is `size` wide, reads back as the double nearest to the
decimal emitted, and writing that double gives the same text with the same number of
decimals (`Proofs.FloatLoop.loop_stable`: at every finer resolution the value read back has
at least as many integer digits as `x`). -/
theorem law_flt_F_gen (f : Field) (dec : Nat) (fmt c : Char) (hk : f.kind = .flt dec fmt [c])
    (hfmt : fmt = 'F' ∨ fmt = 'f') (hsep : sepOk [c] = true)
    (neg : Bool) (m : Nat) (e : Int) (hwf : Proofs.FloatLoop.wfs m e) (hdec : dec ≤ 323)
    (hfits : Spec.C02.fits f (.dbl (.fin neg m e)) = true) :
    RenderLaw f (.dbl (.fin neg m e)) := by
  obtain ⟨hc1, hc2, hc3⟩ := sep_facts hsep
  -- what `fits` says about the loop
  simp only [Spec.C02.fits, Bool.and_eq_true, beq_iff_eq] at hfits
  obtain ⟨⟨hgeo, _⟩, hren⟩ := hfits
  have hloop : ∃ s, floatLoopF (.fin neg m e) f.size (fmt == 'F') dec = .ok s ∧ s.length ≤ f.size := by
    unfold renderFull at hren
    rw [hk] at hren
    rcases hfmt with rfl | rfl
    · cases h : floatLoopF (.fin neg m e) f.size true dec with
      | error ex => simp [Val.isNull, Dbl.isNaN, h, Except.map] at hren
      | ok s =>
        simp [Val.isNull, Dbl.isNaN, h, Except.map, Proofs.FloatLaw.replace_single, Proofs.FloatLaw.subst1_length] at hren
        exact ⟨s, by simpa using h, hren⟩
    · cases h : floatLoopF (.fin neg m e) f.size false dec with
      | error ex => simp [Val.isNull, Dbl.isNaN, h, Except.map] at hren
      | ok s =>
        simp [Val.isNull, Dbl.isNaN, h, Except.map, Proofs.FloatLaw.replace_single, Proofs.FloatLaw.subst1_length] at hren
        exact ⟨s, by simpa using h, hren⟩
  obtain ⟨s, hs, hslen⟩ := hloop
  obtain ⟨t, r, d', h1, h2, h3, h4, _⟩ :=
    Proofs.FloatLoop.fltF_core_gen f dec fmt c hk hfmt hc1 hc2 hc3 neg m e hwf hdec s hs hslen
  have hpf : Dbl.pyFloat (replace t [c] ['.']) = some r := by
    rw [hk] at h3
    simp only [parseText] at h3
    cases hp : Dbl.pyFloat (replace t [c] ['.']) with
    | none => rw [hp] at h3; simp at h3
    | some d => rw [hp] at h3; simp at h3; rw [h3]
  have hcan : canon f (.dbl (.fin neg m e)) t = .dbl r := by
    simp only [canon, Val.isNull, Dbl.isNaN, Bool.false_eq_true, if_false, hk, hpf]
  refine ⟨t, ⟨h1, h2, hgeo⟩, ?_, ?_⟩
  · rw [h3, hcan]; rfl
  · rw [hcan]; exact h4

/-- non-vacuity of `law_flt_F`: 1.5 in an 8-wide field with two decimals and a decimal comma
meets every premise, and the text is the expected one -/
example :
    Proofs.FloatText.wf (2 ^ 52 + 2 ^ 51) (-52) ∧ sepOk [','] = true ∧
    Dbl.pyRound (.fin false (2 ^ 52 + 2 ^ 51) (-52)) 2 = some (.fin false (2 ^ 52 + 2 ^ 51) (-52)) ∧
    (Dbl.fmtF (.fin false (2 ^ 52 + 2 ^ 51) (-52)) 2 true).length ≤ 8 ∧
    renderText (Field.mk' (.flt 2 'F' [',']) 8 3) (.dbl (.fin false (2 ^ 52 + 2 ^ 51) (-52))) = .ok "    1,50".toList := by
  refine ⟨⟨by decide, by decide, by decide⟩, by decide, by decide +kernel, by decide +kernel, by decide +kernel⟩

/-- **The full law (read-back and stability) from the decidable domain guard**, for
every admitted value except non-missing floats: integers, canonical literals,
dates, and missing values of every kind. -/
theorem renderLaw_of_domain (f : Field) (v : Val) (h : fieldInDomain f v = true)
    (hdate : ∀ fmts, f.kind = .date fmts → v.isNull = true → ∀ fm ∈ fmts, fm ≠ [])
    (hbig : ∀ n, v = .int n → n.natAbs < 10 ^ 4300)
    (hflt : ∀ dec fmt sep, f.kind = .flt dec fmt sep → v.isNull = true) : RenderLaw f v := by
  simp only [fieldInDomain, Bool.and_eq_true, decide_eq_true_eq] at h
  obtain ⟨⟨hfits, _⟩, hkind⟩ := h
  have hfits' := hfits
  simp only [Spec.C02.fits, Bool.and_eq_true, beq_iff_eq] at hfits'
  obtain ⟨⟨hgeo, htype⟩, hfit⟩ := hfits'
  by_cases hn : v.isNull = true
  · -- missing value
    apply law_null f v hn hgeo
    cases hkd : f.kind with
    | lit => exact blankLaw_lit _
    | int => exact blankLaw_int _
    | date fmts => exact blankLaw_date fmts (hdate fmts hkd hn) _
    | flt dec fmt sep =>
      simp only [hkd, Bool.and_eq_true] at hkind
      have hsep := hkind.1
      unfold sepOk at hsep
      split at hsep
      · rename_i c
        apply blankLaw_flt
        intro e; subst e
        exact absurd hsep (by decide)
      · exact absurd hsep (by simp)
  · have hn' : v.isNull = false := by simpa using hn
    cases hkd : f.kind with
    | date fmts =>
      cases v with
      | date t =>
        simp only [hkd, Bool.and_eq_true, List.all_eq_true] at hkind
        obtain ⟨hall, hfirst⟩ := hkind
        cases fmts with
        | nil => simp at hfirst
        | cons fmt fmts =>
          simp only [Bool.and_eq_true, decide_eq_true_eq, Bool.not_eq_true'] at hfirst
          obtain ⟨⟨⟨hv, hy⟩, hhead⟩, hlast⟩ := hfirst
          apply law_date f fmt fmts t hkd hgeo (hall fmt (by simp)) hv hy hhead hlast
          intro p hp
          simpa [renderFull, hkd, Val.isNull, hp, Option.elim] using hfit
      | none => simp [Val.isNull] at hn'
      | nat => simp [Val.isNull] at hn'
      | str s => simp [hkd, Spec.C02.typeOk] at htype
      | int n => simp [hkd, Spec.C02.typeOk] at htype
      | dbl x => cases x <;> simp_all [Spec.C02.typeOk, Val.isNull, Dbl.isNaN]
    | lit =>
      cases v with
      | str s =>
        simp only [hkd, Bool.and_eq_true, beq_iff_eq] at hkind
        apply law_lit f s hkd hgeo
        · simpa [renderFull, hkd, Val.isNull] using hfit
        · exact ⟨_, hkind.2⟩
      | none => simp [Val.isNull] at hn'
      | nat => simp [Val.isNull] at hn'
      | int n => simp [hkd, Spec.C02.typeOk] at htype
      | dbl x => cases x <;> simp_all [Spec.C02.typeOk, Val.isNull, Dbl.isNaN]
      | date t => simp [hkd, Spec.C02.typeOk] at htype
    | int =>
      cases v with
      | int n =>
        apply law_int f n hkd hgeo _ (hbig n rfl)
        simpa [renderFull, hkd, Val.isNull] using hfit
      | none => simp [Val.isNull] at hn'
      | nat => simp [Val.isNull] at hn'
      | str s => simp [hkd, Spec.C02.typeOk] at htype
      | dbl x => cases x <;> simp_all [Spec.C02.typeOk, Val.isNull, Dbl.isNaN]
      | date t => simp [hkd, Spec.C02.typeOk] at htype
    | flt dec fmt sep =>
      cases v with
      | dbl x =>
        have := hflt dec fmt sep hkd
        rw [this] at hn'; exact absurd hn' (by simp)
      | none => simp [Val.isNull] at hn'
      | nat => simp [Val.isNull] at hn'
      | str s => simp [hkd, Spec.C02.typeOk] at htype
      | int n => simp [hkd, Spec.C02.typeOk] at htype
      | date t => simp [hkd, Spec.C02.typeOk] at htype

/-- **The read half of the law from the decidable domain guard**, for every field
kind: whatever `Spec.C01.fieldInDomain` admits (fitting values of the right
type, canonical literals, one-character non-blank separators, dates whose
truncation to the first format is valid) obeys it.
(`hbig`: `str(int)` is only defined below 4300 digits; `hdate`: a missing date
reads back as missing when none of the field's formats is the empty string.) -/
theorem readLaw_of_domain (f : Field) (v : Val) (h : fieldInDomain f v = true)
    (hdate : ∀ fmts, f.kind = .date fmts → v.isNull = true → ∀ fm ∈ fmts, fm ≠ [])
    (hbig : ∀ n, v = .int n → n.natAbs < 10 ^ 4300) : ReadLaw f v := by
  by_cases hf : ∀ dec fmt sep, f.kind = .flt dec fmt sep → v.isNull = true
  · exact readLaw_of_renderLaw (renderLaw_of_domain f v h hdate hbig hf)
  · -- a non-missing float
    have hex : ∃ dec fmt sep, f.kind = .flt dec fmt sep ∧ v.isNull = false := by
      cases hkd : f.kind with
      | flt dec fmt sep =>
        refine ⟨dec, fmt, sep, rfl, ?_⟩
        cases hn : v.isNull with
        | false => rfl
        | true => exact absurd (fun d fm sp _ => hn) hf
      | lit => exact absurd (fun d fm sp e => by rw [hkd] at e; cases e) hf
      | int => exact absurd (fun d fm sp e => by rw [hkd] at e; cases e) hf
      | date _ => exact absurd (fun d fm sp e => by rw [hkd] at e; cases e) hf
    obtain ⟨dec, fmt, sep, hkd, hn⟩ := hex
    simp only [fieldInDomain, Bool.and_eq_true, decide_eq_true_eq] at h
    have hfits := h.1.1
    have htype := hfits
    simp only [Spec.C02.fits, Bool.and_eq_true, beq_iff_eq] at htype
    cases v with
    | dbl x => exact readLaw_flt f x dec fmt sep hkd hfits (by simpa [Val.isNull] using hn)
    | none => simp [Val.isNull] at hn
    | nat => simp [Val.isNull] at hn
    | str s => simp [hkd, Spec.C02.typeOk] at htype
    | int n => simp [hkd, Spec.C02.typeOk] at htype
    | date t => simp [hkd, Spec.C02.typeOk] at htype

/-- every field's span of the written line holds that field's rendering (the trailing newline
lies beyond every span) -/
theorem spans_written (fs : List Field) (vs : List Val) (rs : List (List Char)) (w : List Char)
    (hlen : fs.length = vs.length) (hdis : Cfi.Disjoint fs)
    (hr : All2 (fun (fv : Field × Val) r => rendersTo fv.1 fv.2 r) (fs.zip vs) rs)
    (hw : writePos fs vs = .ok w) :
    All2 (fun (f : Field) r => slice w f.start f.stop = r) fs rs := by
    simp only [writePos, Except.map] at hw
    cases hwf : writeFields fs vs [] with
    | error e => simp [hwf] at hw
    | ok out =>
      simp only [hwf] at hw
      injection hw with hw
      subst hw
      have h1 := writeFields_spans fs vs rs hlen hr hdis [] out hwf
      have h2 := (writeFields_shape fs vs rs hlen hr [] [] out hwf (fun i hi => by simp at hi)).2
      -- every field ends inside `out`
      have hle : ∀ f ∈ fs, f.stop ≤ out.length := by
        rw [h2]
        intro f hf
        have : ∀ (gs : List Field) (m : Nat), f ∈ gs → f.stop ≤ gs.foldl (fun m f => max m f.stop) m := by
          intro gs
          induction gs with
          | nil => intro _ h; simp at h
          | cons g gs ih =>
            intro m h
            rcases List.mem_cons.mp h with rfl | h
            · have : ∀ (gs : List Field) (m : Nat), m ≤ gs.foldl (fun m f => max m f.stop) m := by
                intro gs
                induction gs with
                | nil => intro m; exact Nat.le_refl _
                | cons g gs ih => intro m; exact Nat.le_trans (Nat.le_max_left _ _) (ih _)
              exact Nat.le_trans (Nat.le_max_right _ _) (this gs _)
            · exact ih _ h
        exact this fs _ hf
      clear hwf hr hlen hdis h2
      induction h1 with
      | nil => exact .nil
      | @cons f r fs' rs' e _ ih =>
        refine .cons ?_ (ih (fun g hg => hle g (List.mem_cons_of_mem f hg)))
        have := hle f List.mem_cons_self
        simp only [slice, List.take_append_of_le_length this]
        exact e

/-- **Read-back clause of C01** (`Spec.C01.holds`, second conjunct): for every
positional layout of pairwise disjoint fields and values obeying the read half
of the law, what is read from the written line is, field by field, the canonical
form determined by the text in that field's own span. -/
theorem readBack_canon (fs : List Field) (vs : List Val) (w : List Char)
    (hlen : fs.length = vs.length) (hdis : Cfi.Disjoint fs)
    (hlaw : ∀ fv ∈ fs.zip vs, ReadLaw fv.1 fv.2)
    (hw : writePos fs vs = .ok w) :
    readPos fs w = (fs.zip vs).map (fun fv => canon fv.1 fv.2 (slice w fv.1.start fv.1.stop)) := by
  have hrs : ∃ rs, All2 (fun (fv : Field × Val) r => rendersTo fv.1 fv.2 r ∧
      (parseText fv.1.kind r).getD .none = canon fv.1 fv.2 r) (fs.zip vs) rs := by
    clear hw hdis hlen
    generalize fs.zip vs = zs at hlaw
    induction zs with
    | nil => exact ⟨[], .nil⟩
    | cons z zs ih =>
      obtain ⟨r, h1, h2⟩ := hlaw z List.mem_cons_self
      obtain ⟨rs, hrs⟩ := ih (fun fv hfv => hlaw fv (List.mem_cons_of_mem z hfv))
      exact ⟨r :: rs, .cons ⟨h1, h2⟩ hrs⟩
  obtain ⟨rs, hrs⟩ := hrs
  have hr : All2 (fun (fv : Field × Val) r => rendersTo fv.1 fv.2 r) (fs.zip vs) rs := by
    clear hw
    generalize fs.zip vs = zs at hrs
    induction hrs with
    | nil => exact .nil
    | cons h _ ih => exact .cons h.1 ih
  have hread := line_roundtrip fs vs rs hlen hr hdis w hw
  -- the spans of `w`
  have hspans : All2 (fun (f : Field) r => slice w f.start f.stop = r) fs rs := by
    simp only [writePos, Except.map] at hw
    cases hwf : writeFields fs vs [] with
    | error e => simp [hwf] at hw
    | ok out =>
      simp only [hwf] at hw
      injection hw with hw
      subst hw
      have h1 := writeFields_spans fs vs rs hlen hr hdis [] out hwf
      have h2 := (writeFields_shape fs vs rs hlen hr [] [] out hwf (fun i hi => by simp at hi)).2
      -- every field ends inside `out`
      have hle : ∀ f ∈ fs, f.stop ≤ out.length := by
        rw [h2]
        intro f hf
        have : ∀ (gs : List Field) (m : Nat), f ∈ gs → f.stop ≤ gs.foldl (fun m f => max m f.stop) m := by
          intro gs
          induction gs with
          | nil => intro _ h; simp at h
          | cons g gs ih =>
            intro m h
            rcases List.mem_cons.mp h with rfl | h
            · have : ∀ (gs : List Field) (m : Nat), m ≤ gs.foldl (fun m f => max m f.stop) m := by
                intro gs
                induction gs with
                | nil => intro m; exact Nat.le_refl _
                | cons g gs ih => intro m; exact Nat.le_trans (Nat.le_max_left _ _) (ih _)
              exact Nat.le_trans (Nat.le_max_right _ _) (this gs _)
            · exact ih _ h
        exact this fs _ hf
      clear hwf hread hrs hr hlen hdis hlaw h2
      induction h1 with
      | nil => exact .nil
      | @cons f r fs' rs' e _ ih =>
        refine .cons ?_ (ih (fun g hg => hle g (List.mem_cons_of_mem f hg)))
        have := hle f List.mem_cons_self
        simp only [slice, List.take_append_of_le_length this]
        exact e
  clear hw hr hdis hlaw
  unfold readPos
  induction fs generalizing vs rs with
  | nil => rfl
  | cons f fs ih =>
    cases vs with
    | nil => simp at hlen
    | cons v vs =>
      simp only [List.zip_cons_cons] at hrs
      cases hrs with
      | cons ha hrest =>
        cases hread with
        | cons hb hrest2 =>
          cases hspans with
          | cons hc hrest3 =>
            simp only [List.map_cons, List.zip_cons_cons, List.cons.injEq]
            refine ⟨?_, ih vs (by simpa using hlen) _ hrest hrest2 hrest3⟩
            rw [hb, ha.2, hc]

/-- **C01 read-back, from the decidable domain**: for every layout and value list
admitted by `Spec.C01.inDomain`, the write succeeds and what is read back is,
field by field, the canonical form (`Spec.C01.holds`, second conjunct) —
integers, literals, floats, dates and missing values. -/
theorem readBack_of_inDomain (fs : List Field) (vs : List Val) (h : inDomain fs vs = true)
    (hdate : ∀ fv ∈ fs.zip vs, ∀ fmts, fv.1.kind = .date fmts → fv.2.isNull = true → ∀ fm ∈ fmts, fm ≠ [])
    (hbig : ∀ v ∈ vs, ∀ n, v = .int n → n.natAbs < 10 ^ 4300) :
    ∃ w, writePos fs vs = .ok w ∧
      readPos fs w = (fs.zip vs).map (fun fv => canon fv.1 fv.2 (slice w fv.1.start fv.1.stop)) := by
  simp only [inDomain, Bool.and_eq_true, beq_iff_eq, List.all_eq_true] at h
  obtain ⟨⟨hlen, hdis⟩, hdom⟩ := h
  have hlaw : ∀ fv ∈ fs.zip vs, ReadLaw fv.1 fv.2 := by
    intro fv hfv
    have hm := List.of_mem_zip hfv
    exact readLaw_of_domain fv.1 fv.2 (hdom fv hfv) (hdate fv hfv) (hbig fv.2 hm.2)
  have hD := Disjoint_of_bool' fs hdis
  have hfits : ∀ fv ∈ fs.zip vs, Spec.C02.fits fv.1 fv.2 = true := by
    intro fv hfv
    have := hdom fv hfv
    simp only [fieldInDomain, Bool.and_eq_true] at this
    exact this.1.1
  obtain ⟨rs, hr⟩ := all2_rendersTo_of_fits fs vs hlen hfits
  obtain ⟨out, hout⟩ := writeFields_ok fs vs rs hr hlen []
  have hw : writePos fs vs = .ok (out ++ ['\n']) := by simp [writePos, hout, Except.map]
  exact ⟨_, hw, readBack_canon fs vs _ hlen hD hlaw hw⟩

/-- **C01 in full, from the decidable domain, for every layout without non-missing
floats**: the write/read/re-write cycle of the model satisfies the whole of
`Spec.C01.holds` — the values read back are the canonical forms and the
re-written text is identical to the written one.  (Non-missing floats: the
read-back clause is `readBack_of_inDomain`; their stability and accuracy
clauses are checked per case.) -/
theorem main_nofloat (fs : List Field) (vs : List Val) (h : inDomain fs vs = true)
    (hdate : ∀ fv ∈ fs.zip vs, ∀ fmts, fv.1.kind = .date fmts → fv.2.isNull = true → ∀ fm ∈ fmts, fm ≠ [])
    (hbig : ∀ v ∈ vs, ∀ n, v = .int n → n.natAbs < 10 ^ 4300)
    (hflt : ∀ fv ∈ fs.zip vs, ∀ dec fmt sep, fv.1.kind = .flt dec fmt sep → fv.2.isNull = true) :
    ∃ o, cycle fs vs = some o ∧ holds fs vs o = true := by
  obtain ⟨w, hw, hread⟩ := readBack_of_inDomain fs vs h hdate hbig
  simp only [inDomain, Bool.and_eq_true, beq_iff_eq, List.all_eq_true] at h
  obtain ⟨⟨hlen, hdis⟩, hdom⟩ := h
  have hD := Disjoint_of_bool' fs hdis
  have hlaw : ∀ fv ∈ fs.zip vs, RenderLaw fv.1 fv.2 := by
    intro fv hfv
    have hm := List.of_mem_zip hfv
    exact renderLaw_of_domain fv.1 fv.2 (hdom fv hfv) (hdate fv hfv) (hbig fv.2 hm.2) (hflt fv hfv)
  have hst := line_stable fs vs w hlen hD hlaw hw
  refine ⟨⟨w, readPos fs w, w⟩, by simp [cycle, hw, hst], ?_⟩
  simp only [holds, beq_self_eq_true, Bool.true_and, Bool.and_eq_true, beq_iff_eq, List.all_eq_true]
  refine ⟨?_, ?_⟩
  · rw [hread]
  · intro fv hfv
    have hnull := hflt fv hfv
    simp only [floatClauses]
    split
    · rename_i dec fmt sep x hk hv
      have := hnull dec fmt sep hk
      rw [hv] at this
      simp only [Val.isNull] at this
      simp [this]
    · rfl

/-- the admitted non-missing floats of the F-notation theorems -/
def FloatF (f : Field) (v : Val) : Prop :=
  ∀ dec fmt sep, f.kind = .flt dec fmt sep → v.isNull = true ∨
    ((fmt = 'F' ∨ fmt = 'f') ∧ dec ≤ 323 ∧ ∃ neg m e, v = .dbl (.fin neg m e) ∧ Proofs.FloatLoop.wfs m e)

/-- **The full law from the decidable domain guard, F-notation floats included.** -/
theorem renderLaw_of_domain_F (f : Field) (v : Val) (h : fieldInDomain f v = true)
    (hdate : ∀ fmts, f.kind = .date fmts → v.isNull = true → ∀ fm ∈ fmts, fm ≠ [])
    (hbig : ∀ n, v = .int n → n.natAbs < 10 ^ 4300)
    (hflt : FloatF f v) : RenderLaw f v := by
  by_cases hnull : ∀ dec fmt sep, f.kind = .flt dec fmt sep → v.isNull = true
  · exact renderLaw_of_domain f v h hdate hbig hnull
  · -- a non-missing float
    have : ∃ dec fmt sep, f.kind = .flt dec fmt sep ∧ v.isNull = false := by
      apply Classical.byContradiction
      intro hno
      apply hnull
      intro dec fmt sep hk
      cases hv : v.isNull with
      | true => rfl
      | false => exact absurd ⟨dec, fmt, sep, hk, hv⟩ hno
    obtain ⟨dec, fmt, sep, hk, hv⟩ := this
    rcases hflt dec fmt sep hk with hn | ⟨hfmt, hdec, neg, m, e, rfl, hwf⟩
    · rw [hn] at hv; exact absurd hv (by simp)
    · have hdom := h
      simp only [fieldInDomain, Bool.and_eq_true, decide_eq_true_eq, hk] at hdom
      obtain ⟨⟨hfits, _⟩, hsep, _⟩ := hdom
      -- the separator is one admitted character
      obtain ⟨c, rfl⟩ : ∃ c, sep = [c] := by
        cases sep with
        | nil => simp [sepOk] at hsep
        | cons c t =>
          cases t with
          | nil => exact ⟨c, rfl⟩
          | cons _ _ => simp [sepOk] at hsep
      exact law_flt_F_gen f dec fmt c hk hfmt hsep neg m e hwf hdec hfits

/-- **C01 for layouts with F-notation floats: read-back and text stability.** For every layout
and value list admitted by `Spec.C01.inDomain` whose non-missing floats are finite doubles
(any of them) in F-notation fields of at most 323 decimals: the model's write / read / re-write
cycle succeeds, the values read back are the canonical forms, and the re-written text is
identical to the written one. (The remaining clauses of `Spec.C01.holds` about floats —
dialect, half-unit accuracy, maximal number of decimals — are evaluated per case.) -/
theorem main_F (fs : List Field) (vs : List Val) (h : inDomain fs vs = true)
    (hdate : ∀ fv ∈ fs.zip vs, ∀ fmts, fv.1.kind = .date fmts → fv.2.isNull = true → ∀ fm ∈ fmts, fm ≠ [])
    (hbig : ∀ v ∈ vs, ∀ n, v = .int n → n.natAbs < 10 ^ 4300)
    (hflt : ∀ fv ∈ fs.zip vs, FloatF fv.1 fv.2) :
    ∃ o, cycle fs vs = some o ∧ o.rewritten = o.written ∧
      o.readBack = (fs.zip vs).map (fun fv => canon fv.1 fv.2 (slice o.written fv.1.start fv.1.stop)) := by
  obtain ⟨w, hw, hread⟩ := readBack_of_inDomain fs vs h hdate hbig
  simp only [inDomain, Bool.and_eq_true, beq_iff_eq, List.all_eq_true] at h
  obtain ⟨⟨hlen, hdis⟩, hdom⟩ := h
  have hD := Disjoint_of_bool' fs hdis
  have hlaw : ∀ fv ∈ fs.zip vs, RenderLaw fv.1 fv.2 := by
    intro fv hfv
    have hm := List.of_mem_zip hfv
    exact renderLaw_of_domain_F fv.1 fv.2 (hdom fv hfv) (hdate fv hfv) (hbig fv.2 hm.2) (hflt fv hfv)
  have hst := line_stable fs vs w hlen hD hlaw hw
  exact ⟨⟨w, readPos fs w, w⟩, by simp [cycle, hw, hst], rfl, hread⟩

/-- non-vacuity of the laws: a concrete layout with gaps, in reversed order -/
example :
    let fs := [Field.mk' .lit 4 8, Field.mk' .int 5 1]
    writePos fs [.str "ab".toList, .int (-42)] = .ok "   -42  ab  \n".toList ∧
    readPos fs "   -42  ab  \n".toList = [.str "ab".toList, .int (-42)] := by decide

end Props.C01
