import Cfi.Line
import Spec.C01
/-! C01 — property theorems (being extended; see DESIGN.md section 6/C01). -/
namespace Props.C01
open Cfi Cfi.Text Spec.C01

/-- missing values of every kind read back as None ("" for literals) — first
clause proved; the per-kind render/parse laws follow in this file. -/
theorem canon_null (f : Field) (v : Val) (span : List Char) (h : v.isNull = true) :
    canon f v span = (match f.kind with | .lit => .str [] | _ => .none) := by
  simp only [canon, h, if_true]
  cases f.kind <;> rfl

end Props.C01
