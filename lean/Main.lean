import Driver.Basic
import Driver.C07
import Driver.C08
import Driver.Fields
import Driver.Lines
import Driver.FilesH
import Driver.Misc
open Lean Driver

def dispatch (j : Json) : R Json := do
  let op ← strF j "op"
  match op with
  | "ping" => pure (Json.mkObj [("pong", toJson true)])
  | "c07" => Driver.C07.handle j
  | "c08" => Driver.C08.handle j
  | "c02" => Driver.Fields.handleC02 j
  | "c03" => Driver.Fields.handleC03 j
  | "c01" => Driver.Lines.handleC01 j
  | "c09" => Driver.Lines.handleC09 j
  | "c11" => Driver.Lines.handleC11 j
  | "c04" => Driver.FilesH.handleC04 j
  | "c05" => Driver.FilesH.handleC05 j
  | "c05skip" => Driver.FilesH.handleC05Skip j
  | "c06" => Driver.FilesH.handleC06 j
  | "c10" => Driver.FilesH.handleC10 j
  | "c12" => Driver.FilesH.handleC12 j
  | "c13" => Driver.FilesH.handleC13 j
  | "c18" => Driver.FilesH.handleC18 j
  | "c19" => Driver.Misc.handleC19 j
  | "c15" => Driver.Misc.handleC15 j
  | "c20" => Driver.Misc.handleC20 j
  | "c17" => Driver.Misc.handleC17 j
  | "c14" => Driver.Misc.handleC14 j
  | "all" => Driver.Misc.handleAll j
  | _ => throw s!"unknown op {op}"

partial def loop (inp out : IO.FS.Stream) : IO Unit := do
  let line ← inp.getLine
  if line.isEmpty then return ()
  let resp : Json :=
    match Json.parse line with
    | .error e => Json.mkObj [("error", toJson s!"parse: {e}")]
    | .ok j =>
      match dispatch j with
      | .ok r => r
      | .error e => Json.mkObj [("error", toJson e)]
  out.putStrLn resp.compress
  loop inp out

def main : IO Unit := do
  let out ← IO.getStdout
  loop (← IO.getStdin) out
  out.flush
