import Cfi.Register
import Spec.C02
import Proofs.Layout
import Proofs.LineShape
import Proofs.Renders
import Props.C01
/-! The composite line of a typed register (identifier field + data fields). -/
namespace Cfi
open Cfi.Text

/-- the decidable disjointness of the specifications is the one the layout theorems use -/
theorem Disjoint_of_bool (fs : List Field) (h : Spec.C02.disjoint fs = true) : Disjoint fs := by
  induction fs with
  | nil => trivial
  | cons f fs ih =>
    simp only [Spec.C02.disjoint, Bool.and_eq_true, List.all_eq_true, Bool.or_eq_true, decide_eq_true_eq] at h
    exact ⟨fun g hg => h.1 g hg, ih h.2⟩

theorem assign_full (slots vs : List Val) (h : slots.length = vs.length) : assign slots vs = vs := by
  simp [assign, h]

namespace RegDef

theorem idField_rendersTo (r : RegDef) (hid : r.ident.length ≤ r.digits) :
    rendersTo r.idField (.str r.ident) (ljust r.ident r.digits ' ') := by
  refine ⟨?_, ?_, ?_⟩
  · simp [renderText, renderRaw, renderFull, idField, Field.mk', Val.isNull, Except.map]
  · rw [length_ljust]; simp [idField, Field.mk']; omega
  · simp [idField, Field.mk']

/-- **The composite line of a typed register.**  For every register definition
whose identifier fits its window and whose (pairwise disjoint) data fields start
after it, and every non-empty data list whose values render: `Register.write`
produces one text `out ++ "\n"`, the identifier left-justified in the first
`digits` columns, each rendering in its own span, and `Register.read` of that
text returns, field by field, the parse of the rendering alone — the same
values the data-only line reads back to. -/
theorem regLine (r : RegDef) (data : List Val) (rs : List (List Char))
    (hdel : r.delimiter = .none)
    (hlen : r.fields.length = data.length)
    (hr : All2 (fun (fv : Field × Val) r => rendersTo fv.1 fv.2 r) (r.fields.zip data) rs)
    (hid : r.ident.length ≤ r.digits) (hstart : ∀ f ∈ r.fields, r.digits ≤ f.start)
    (hdis : Disjoint r.fields) (hne : RegDef.isEmpty data = false) :
    ∃ out, writeFields (r.idField :: r.fields) (.str r.ident :: data) [] = .ok out ∧
      r.writeData .text data = .ok (some (.str (out ++ ['\n']))) ∧
      r.readDataText (out ++ ['\n']) = .ok (readPos r.fields (out ++ ['\n'])) ∧
      slice out 0 r.digits = ljust r.ident r.digits ' ' ∧
      All2 (fun (f : Field) r => slice out f.start f.stop = r) r.fields rs ∧
      (∀ w, writePos r.fields data = .ok w → readPos r.fields (out ++ ['\n']) = readPos r.fields w) := by
  have hR : All2 (fun (fv : Field × Val) r => rendersTo fv.1 fv.2 r)
      ((r.idField :: r.fields).zip (Val.str r.ident :: data)) (ljust r.ident r.digits ' ' :: rs) := by
    simp only [List.zip_cons_cons]
    exact All2.cons (R := fun (fv : Field × Val) r => rendersTo fv.1 fv.2 r) (a := (r.idField, Val.str r.ident))
      (r.idField_rendersTo hid) hr
  have hlen' : (r.idField :: r.fields).length = (Val.str r.ident :: data).length := by simp [hlen]
  have hD : Disjoint (r.idField :: r.fields) := by
    refine ⟨fun g hg => Or.inl ?_, hdis⟩
    have := hstart g hg
    simpa [idField, Field.mk'] using this
  obtain ⟨out, hout⟩ := writeFields_ok _ _ _ hR hlen' []
  have hW : writePos (r.idField :: r.fields) (.str r.ident :: data) = .ok (out ++ ['\n']) := by
    simp [writePos, hout, Except.map]
  refine ⟨out, hout, ?_, ?_, ?_, ?_, ?_⟩
  · simp only [writeData, hne, Bool.false_eq_true, if_false, RegDef.line, Line.write, hdel]
    rw [assign_full _ _ (by simp [hlen])]
    simp [hW, Except.map]
  · simp [readDataText, RegDef.line, Line.read, hdel, readPos, Except.map]
  · have := writeFields_spans _ _ _ hlen' hR hD [] out hout
    cases this with
    | cons h1 _ => simpa [idField, Field.mk'] using h1
  · have := writeFields_spans _ _ _ hlen' hR hD [] out hout
    cases this with
    | cons _ h2 => exact h2
  · intro w hw
    have h1 := Props.C01.line_roundtrip _ _ _ hlen' hR hD _ hW
    have h2 := Props.C01.line_roundtrip _ _ _ hlen hr hdis _ hw
    cases h1 with
    | cons _ h1' =>
      unfold readPos
      exact All2.map_eq (h := fun f r => (parseText f.kind r).getD .none) h1' h2

end RegDef
end Cfi
