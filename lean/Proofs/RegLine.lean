import Cfi.Register
import Spec.C02
import Proofs.Layout
import Proofs.LineShape
import Props.C01
/-! The composite line of a typed register (identifier field + data fields):
existence of the write, renderings from the decidable `fits` guard. -/
namespace Cfi
open Cfi.Text

/-- a value that fits its field has a rendering exactly `size` wide -/
theorem rendersTo_of_fits (f : Field) (v : Val) (h : Spec.C02.fits f v = true) : ∃ r, rendersTo f v r := by
  simp only [Spec.C02.fits, Bool.and_eq_true, beq_iff_eq] at h
  obtain ⟨⟨hgeo, _⟩, hfit⟩ := h
  cases hf : renderFull f.kind f.size v with
  | error e => simp [hf] at hfit
  | ok s =>
    simp only [hf, decide_eq_true_eq] at hfit
    have hraw : ∃ s', renderRaw f.kind f.size v = .ok s' ∧ s'.length ≤ f.size := by
      simp only [renderRaw, hf, Except.map]
      refine ⟨_, rfl, ?_⟩
      split
      · split
        · simp only [List.length_take]; omega
        · exact hfit
      · exact hfit
    obtain ⟨s', hs', hl'⟩ := hraw
    simp only [rendersTo, renderText, hs', Except.map]
    refine ⟨_, rfl, ?_, hgeo⟩
    cases f.kind <;> simp only [length_ljust, length_rjust] <;> omega

theorem all2_rendersTo_of_fits (fs : List Field) (vs : List Val) (hlen : fs.length = vs.length)
    (h : ∀ fv ∈ fs.zip vs, Spec.C02.fits fv.1 fv.2 = true) :
    ∃ rs, All2 (fun (fv : Field × Val) r => rendersTo fv.1 fv.2 r) (fs.zip vs) rs := by
  induction fs generalizing vs with
  | nil => exact ⟨[], by simpa using All2.nil⟩
  | cons f fs ih =>
    cases vs with
    | nil => simp at hlen
    | cons v vs =>
      obtain ⟨r, hr⟩ := rendersTo_of_fits f v (h (f, v) (by simp))
      obtain ⟨rs, hrs⟩ := ih vs (by simpa using hlen) (fun fv hfv => h fv (by simp [hfv]))
      refine ⟨r :: rs, ?_⟩
      simp only [List.zip_cons_cons]
      exact All2.cons (R := fun (fv : Field × Val) r => rendersTo fv.1 fv.2 r) (a := (f, v)) hr hrs

/-- when every field renders, the positional write succeeds from any line -/
theorem writeFields_ok (fs : List Field) (vs : List Val) (rs : List (List Char))
    (hr : All2 (fun (fv : Field × Val) r => rendersTo fv.1 fv.2 r) (fs.zip vs) rs) (hlen : fs.length = vs.length)
    (line : List Char) : ∃ out, writeFields fs vs line = .ok out := by
  induction fs generalizing vs rs line with
  | nil => exact ⟨line, by cases vs <;> rfl⟩
  | cons f fs ih =>
    cases vs with
    | nil => simp at hlen
    | cons v vs =>
      simp only [List.zip_cons_cons] at hr
      cases hr with
      | @cons _ r _ rs' h1 hrest =>
        obtain ⟨hrend, _, _⟩ := h1
        dsimp only at hrend
        obtain ⟨out, hout⟩ := ih vs rs' hrest (by simpa using hlen) (splice line f.start f.stop r ' ')
        exact ⟨out, by simp only [writeFields, Field.writeText, hrend, Except.map, bind, Except.bind, hout]⟩

theorem All2.length_eq {α β : Type} {R : α → β → Prop} {as : List α} {bs : List β} (h : All2 R as bs) :
    as.length = bs.length := by
  induction h with
  | nil => rfl
  | cons _ _ ih => simp [ih]

theorem All2.of_mem {α β : Type} {R : α → β → Prop} {as : List α} {bs : List β} (h : All2 R as bs)
    {a : α} (ha : a ∈ as) : ∃ b ∈ bs, R a b := by
  induction h with
  | nil => simp at ha
  | @cons a' b' as' bs' h1 _ ih =>
    rcases List.mem_cons.mp ha with rfl | ha
    · exact ⟨b', by simp, h1⟩
    · obtain ⟨b, hb, hR⟩ := ih ha
      exact ⟨b, by simp [hb], hR⟩

/-- two families of facts over the same pairing that determine the same function values -/
theorem All2.map_eq {α β γ : Type} {as : List α} {bs : List β} {g g' : α → γ} {h : α → β → γ}
    (h1 : All2 (fun a b => g a = h a b) as bs) (h2 : All2 (fun a b => g' a = h a b) as bs) :
    as.map g = as.map g' := by
  induction h1 with
  | nil => rfl
  | @cons a b as' bs' e1 _ ih =>
    cases h2 with
    | cons e2 h2' => simp [e1, e2, ih h2']

end Cfi

namespace Cfi
open Cfi.Text

/-- the decidable disjointness of the specifications is the one the layout theorems use -/
theorem Disjoint_of_bool (fs : List Field) (h : Spec.C02.disjoint fs = true) : Disjoint fs := by
  induction fs with
  | nil => trivial
  | cons f fs ih =>
    simp only [Spec.C02.disjoint, Bool.and_eq_true, List.all_eq_true, Bool.or_eq_true, decide_eq_true_eq] at h
    exact ⟨fun g hg => h.1 g hg, ih h.2⟩

theorem assign_full (slots vs : List Val) (h : slots.length = vs.length) : assign slots vs = vs := by
  simp [assign, h]

namespace RegDef

theorem idField_rendersTo (r : RegDef) (hid : r.ident.length ≤ r.digits) :
    rendersTo r.idField (.str r.ident) (ljust r.ident r.digits ' ') := by
  refine ⟨?_, ?_, ?_⟩
  · simp [renderText, renderRaw, renderFull, idField, Field.mk', Val.isNull, Except.map]
  · rw [length_ljust]; simp [idField, Field.mk']; omega
  · simp [idField, Field.mk']

/-- **The composite line of a typed register.**  For every register definition
whose identifier fits its window and whose (pairwise disjoint) data fields start
after it, and every non-empty data list whose values render: `Register.write`
produces one text `out ++ "\n"`, the identifier left-justified in the first
`digits` columns, each rendering in its own span, and `Register.read` of that
text returns, field by field, the parse of the rendering alone — the same
values the data-only line reads back to. -/
theorem regLine (r : RegDef) (data : List Val) (rs : List (List Char))
    (hdel : r.delimiter = .none)
    (hlen : r.fields.length = data.length)
    (hr : All2 (fun (fv : Field × Val) r => rendersTo fv.1 fv.2 r) (r.fields.zip data) rs)
    (hid : r.ident.length ≤ r.digits) (hstart : ∀ f ∈ r.fields, r.digits ≤ f.start)
    (hdis : Disjoint r.fields) (hne : RegDef.isEmpty data = false) :
    ∃ out, writeFields (r.idField :: r.fields) (.str r.ident :: data) [] = .ok out ∧
      r.writeData .text data = .ok (some (.str (out ++ ['\n']))) ∧
      r.readDataText (out ++ ['\n']) = .ok (readPos r.fields (out ++ ['\n'])) ∧
      slice out 0 r.digits = ljust r.ident r.digits ' ' ∧
      All2 (fun (f : Field) r => slice out f.start f.stop = r) r.fields rs ∧
      (∀ w, writePos r.fields data = .ok w → readPos r.fields (out ++ ['\n']) = readPos r.fields w) := by
  have hR : All2 (fun (fv : Field × Val) r => rendersTo fv.1 fv.2 r)
      ((r.idField :: r.fields).zip (Val.str r.ident :: data)) (ljust r.ident r.digits ' ' :: rs) := by
    simp only [List.zip_cons_cons]
    exact All2.cons (R := fun (fv : Field × Val) r => rendersTo fv.1 fv.2 r) (a := (r.idField, Val.str r.ident))
      (r.idField_rendersTo hid) hr
  have hlen' : (r.idField :: r.fields).length = (Val.str r.ident :: data).length := by simp [hlen]
  have hD : Disjoint (r.idField :: r.fields) := by
    refine ⟨fun g hg => Or.inl ?_, hdis⟩
    have := hstart g hg
    simpa [idField, Field.mk'] using this
  obtain ⟨out, hout⟩ := writeFields_ok _ _ _ hR hlen' []
  have hW : writePos (r.idField :: r.fields) (.str r.ident :: data) = .ok (out ++ ['\n']) := by
    simp [writePos, hout, Except.map]
  refine ⟨out, hout, ?_, ?_, ?_, ?_, ?_⟩
  · simp only [writeData, hne, Bool.false_eq_true, if_false, RegDef.line, Line.write, hdel]
    rw [assign_full _ _ (by simp [hlen])]
    simp [hW, Except.map]
  · simp [readDataText, RegDef.line, Line.read, hdel, readPos, Except.map]
  · have := writeFields_spans _ _ _ hlen' hR hD [] out hout
    cases this with
    | cons h1 _ => simpa [idField, Field.mk'] using h1
  · have := writeFields_spans _ _ _ hlen' hR hD [] out hout
    cases this with
    | cons _ h2 => exact h2
  · intro w hw
    have h1 := Props.C01.line_roundtrip _ _ _ hlen' hR hD _ hW
    have h2 := Props.C01.line_roundtrip _ _ _ hlen hr hdis _ hw
    cases h1 with
    | cons _ h1' =>
      unfold readPos
      exact All2.map_eq (h := fun f r => (parseText f.kind r).getD .none) h1' h2

end RegDef
end Cfi
