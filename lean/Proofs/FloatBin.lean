import Proofs.Nearest
import Cfi.Bin
/-!
IEEE interchange formats: the bit pattern of a value of the format decodes to that value
(`ofBitsF_bitsOf`), so that `decodeFloat (encodeFloat x)` is `x` rounded to the format.
-/
namespace Proofs.FloatBin
open Cfi Cfi.Dbl Cfi.Bin Proofs.Nearest

theorem le_divHE' (a b c : Nat) (hb : 0 < b) (h : c * b ≤ a) : c ≤ divHE a b := by
  obtain ⟨s1, _, _⟩ := divHE_spec a b hb
  generalize divHE a b = n at *
  apply Nat.le_of_not_lt
  intro hlt
  have := succ_mul_le (b := b) hlt
  omega

/-- **what `nearestG` returns is a number of the format, in normal form**: significand below
`2^prec`, exponent within range, and either a full-width significand or the smallest exponent -/
theorem nearestG_norm (prec : Nat) (emin emaxE : Int) (num den m : Nat) (e : Int)
    (hp : 1 ≤ prec) (hm : emin ≤ 0) (hmm : emin ≤ emaxE) (hd : 0 < den)
    (h : nearestG prec emin emaxE num den = some (m, e)) :
    m < 2 ^ prec ∧ emin ≤ e ∧ e ≤ emaxE ∧ (num ≠ 0 → 2 ^ (prec - 1) ≤ m ∨ e = emin) := by
  have hlt := nearestG_lt prec emin emaxE num den m e hp hm hd h
  have hge := (nearestG_opt prec emin emaxE num den m e hp hm hd h).1
  refine ⟨hlt, hge, ?_, ?_⟩
  · by_cases hn : num = 0
    · subst hn
      unfold nearestG at h
      simp only [beq_self_eq_true, if_true, Option.some.injEq, Prod.mk.injEq] at h
      rw [← h.2]; exact hmm
    · obtain ⟨_, _, _, hle⟩ := nearestG_shape prec emin emaxE num den m e hn h
      exact hle
  · intro hn
    obtain ⟨e0, he0, hcase, _⟩ := nearestG_shape prec emin emaxE num den m e hn h
    rcases hcase with ⟨_, h2, _⟩ | ⟨hne, h2, h3⟩
    · left; rw [h2]; exact Nat.le_refl _
    · by_cases hmin : e0 = emin
      · right; rw [h3]; exact hmin
      · left
        have hge0 : emin ≤ e0 := by omega
        have hk : e0 = floorLog2 num den - ((prec : Int) - 1) := by omega
        rw [h2, roundAt_units num den e0 emin hd hge0 hm]
        apply le_divHE' _ _ _ (Nat.mul_pos hd (two_pow_pos _))
        have hle := leP2_units num den (floorLog2 num den) emin (by omega) hm (leP2_floorLog2 num den hn)
        have e2 : (floorLog2 num den - emin).toNat = (prec - 1) + (e0 - emin).toNat := by omega
        rw [e2, Nat.pow_add] at hle
        have : 2 ^ (prec - 1) * (den * 2 ^ (e0 - emin).toNat) = den * (2 ^ (prec - 1) * 2 ^ (e0 - emin).toNat) := by grind
        omega


-- log2 of a shifted value
theorem log2_mul_pow (m s : Nat) (hm : m ≠ 0) : (m * 2 ^ s).log2 = m.log2 + s := by
  have h1 : 2 ^ m.log2 ≤ m := Nat.log2_self_le hm
  have h2 : m < 2 ^ (m.log2 + 1) := Nat.lt_log2_self
  have hne : m * 2 ^ s ≠ 0 := Nat.mul_ne_zero hm (Nat.pos_iff_ne_zero.mp (two_pow_pos s))
  rw [Nat.log2_eq_iff hne]
  constructor
  · rw [Nat.pow_add]; exact Nat.mul_le_mul_right _ h1
  · have : m.log2 + s + 1 = (m.log2 + 1) + s := by omega
    rw [this, Nat.pow_add]
    exact Nat.mul_lt_mul_of_pos_right h2 (two_pow_pos s)

-- decoding the three bit fields
theorem fields_of (E F : Nat) (sgn : Nat) (hs : sgn < 2) (x fr : Nat) (hx : x < 2 ^ E) (hfr : fr < 2 ^ F) :
    let n := sgn * 2 ^ (E + F) + fr + x * 2 ^ F
    n / 2 ^ (E + F) % 2 = sgn ∧ n / 2 ^ F % 2 ^ E = x ∧ n % 2 ^ F = fr := by
  intro n
  have hF := two_pow_pos F
  have hE := two_pow_pos E
  have e1 : 2 ^ (E + F) = 2 ^ E * 2 ^ F := Nat.pow_add 2 E F
  have hn : n = fr + (x + sgn * 2 ^ E) * 2 ^ F := by
    show sgn * 2 ^ (E + F) + fr + x * 2 ^ F = _
    rw [e1]; grind
  refine ⟨?_, ?_, ?_⟩
  · have e2 : 2 ^ (E + F) = 2 ^ F * 2 ^ E := by rw [e1, Nat.mul_comm]
    rw [hn, e2, ← Nat.div_div_eq_div_mul, Nat.add_mul_div_right _ _ hF, Nat.div_eq_of_lt hfr, Nat.zero_add,
      Nat.add_mul_div_right _ _ hE, Nat.div_eq_of_lt hx, Nat.zero_add, Nat.mod_eq_of_lt hs]
  · rw [hn, Nat.add_mul_div_right _ _ hF, Nat.div_eq_of_lt hfr, Nat.zero_add, Nat.add_mul_mod_self_right, Nat.mod_eq_of_lt hx]
  · rw [hn, Nat.add_mul_mod_self_right, Nat.mod_eq_of_lt hfr]


/-- what the model's three formats have in common -/
structure FmtOk (f : Fmt) : Prop where
  hE : 1 ≤ f.ebits
  hF : f.fbits ≤ 52
  hmin : -1074 ≤ f.emin
  hsub : f.emin < -1022 → f.fbits = 52 ∧ f.emin = -1074
  hneg : f.emin ≤ 0
  hE2 : 2 ≤ f.ebits

theorem fmtOk_widths : FmtOk (fmtOfWidth 2) ∧ FmtOk (fmtOfWidth 4) ∧ FmtOk (fmtOfWidth 8) := by
  refine ⟨⟨by decide, by decide, by decide, by decide, by decide, by decide⟩,
    ⟨by decide, by decide, by decide, by decide, by decide, by decide⟩,
    ⟨by decide, by decide, by decide, by decide, by decide, by decide⟩⟩

/-- canonFin on a normal-form number of the format, the two shapes -/
theorem canonFin_shape (f : Fmt) (hf : FmtOk f) (neg : Bool) (m : Nat) (e : Int) (hm0 : m ≠ 0)
    (hm : m < 2 ^ (f.fbits + 1)) (he1 : f.emin ≤ e) (hn : 2 ^ f.fbits ≤ m ∨ e = f.emin) :
    (m.log2 ≤ f.fbits) ∧
    ((canonFin neg m e = .fin neg (m * 2 ^ (52 - m.log2)) (e - (52 - m.log2 : Nat)) ∧ -1074 ≤ e - (52 - m.log2 : Nat)) ∨
     (canonFin neg m e = .fin neg m (-1074) ∧ e = -1074 ∧ f.emin = -1074 ∧ f.fbits = 52 ∧ m < 2 ^ 52)) := by
  have hlg : m.log2 ≤ f.fbits := by
    have := (Nat.log2_lt hm0).2 hm
    omega
  refine ⟨hlg, ?_⟩
  have hF := hf.hF
  unfold canonFin
  have hm0' : (m == 0) = false := by simpa using hm0
  simp only [hm0', Bool.false_eq_true, if_false]
  have hsh : ((52 : Int) - (m.log2 : Int)) ≥ 0 := by omega
  have esh : ((52 : Int) - (m.log2 : Int)).toNat = 52 - m.log2 := by omega
  simp only [hsh, if_true, esh]
  by_cases hb : e - ((52 : Int) - (m.log2 : Int)) ≥ -1074
  · left
    simp only [hb, if_true]
    refine ⟨?_, by omega⟩
    congr 1
    omega
  · right
    simp only [hb, if_false]
    -- only possible for the double format in its subnormal range
    have hmin := hf.hmin
    have hlt : f.emin < -1022 := by omega
    obtain ⟨h52, hem⟩ := hf.hsub hlt
    have he : e = -1074 := by
      rcases hn with hn | hn
      · have : f.fbits ≤ m.log2 := (Nat.le_log2 hm0).2 hn
        omega
      · omega
    subst he
    refine ⟨by simp, rfl, hem, h52, ?_⟩
    have : m.log2 < 52 := by omega
    exact (Nat.log2_lt hm0).1 this

def sgnBit (neg : Bool) : Nat := if neg then 1 else 0

theorem bitsOf_full (f : Fmt) (hf : FmtOk f) (neg : Bool) (m : Nat) (e : Int) (hm0 : m ≠ 0)
    (hm : m < 2 ^ (f.fbits + 1)) (he1 : f.emin ≤ e) (hfull : 2 ^ f.fbits ≤ m) :
    bitsOf f (canonFin neg m e) =
      sgnBit neg * 2 ^ (f.ebits + f.fbits) + (m - 2 ^ f.fbits) + (e - f.emin + 1).toNat * 2 ^ f.fbits := by
  obtain ⟨hlg, hshape⟩ := canonFin_shape f hf neg m e hm0 hm he1 (Or.inl hfull)
  have hlgF : m.log2 = f.fbits := by
    have : f.fbits ≤ m.log2 := (Nat.le_log2 hm0).2 hfull
    omega
  have hF := hf.hF
  rcases hshape with ⟨hc, hb⟩ | ⟨hc, he, hem, h52, hlt⟩
  · rw [hc]
    have hM0 : m * 2 ^ (52 - m.log2) ≠ 0 := Nat.mul_ne_zero hm0 (Nat.pos_iff_ne_zero.mp (two_pow_pos _))
    have hM0' : (m * 2 ^ (52 - m.log2) == 0) = false := by simpa using hM0
    have hlgM : (m * 2 ^ (52 - m.log2)).log2 = 52 := by rw [log2_mul_pow m _ hm0]; omega
    unfold bitsOf
    simp only [hM0', Bool.false_eq_true, if_false, hlgM]
    have hnot : ¬ (e - ((52 - m.log2 : Nat) : Int) + ((52 : Nat) : Int) - (f.fbits : Int) < f.emin) := by omega
    simp only [hnot, if_false]
    have hge : (52 : Nat) ≥ f.fbits := hF
    simp only [ge_iff_le, hF, if_true]
    have hsig : m * 2 ^ (52 - m.log2) / 2 ^ (52 - f.fbits) = m := by
      rw [hlgF]; exact Nat.mul_div_cancel _ (two_pow_pos _)
    rw [hsig]
    have hexp : (e - ((52 - m.log2 : Nat) : Int) + ((52 : Nat) : Int) - (f.fbits : Int) - f.emin + 1).toNat = (e - f.emin + 1).toNat := by
      congr 1; omega
    rw [hexp]
    cases neg <;> simp [sgnBit]
  · -- impossible: full significand but below 2^52 = 2^fbits
    rw [h52] at hfull; omega

theorem bitsOf_low (f : Fmt) (hf : FmtOk f) (neg : Bool) (m : Nat) (hm0 : m ≠ 0)
    (hlow : m < 2 ^ f.fbits) :
    bitsOf f (canonFin neg m f.emin) = sgnBit neg * 2 ^ (f.ebits + f.fbits) + m := by
  have hm : m < 2 ^ (f.fbits + 1) := by rw [Nat.pow_succ]; omega
  obtain ⟨hlg, hshape⟩ := canonFin_shape f hf neg m f.emin hm0 hm (Int.le_refl _) (Or.inr rfl)
  have hlgF : m.log2 < f.fbits := (Nat.log2_lt hm0).2 hlow
  have hF := hf.hF
  rcases hshape with ⟨hc, hb⟩ | ⟨hc, he, hem, h52, hlt⟩
  · rw [hc]
    have hM0 : m * 2 ^ (52 - m.log2) ≠ 0 := Nat.mul_ne_zero hm0 (Nat.pos_iff_ne_zero.mp (two_pow_pos _))
    have hM0' : (m * 2 ^ (52 - m.log2) == 0) = false := by simpa using hM0
    have hlgM : (m * 2 ^ (52 - m.log2)).log2 = 52 := by rw [log2_mul_pow m _ hm0]; omega
    unfold bitsOf
    simp only [hM0', Bool.false_eq_true, if_false, hlgM]
    have hsubn : f.emin - ((52 - m.log2 : Nat) : Int) + ((52 : Nat) : Int) - (f.fbits : Int) < f.emin := by omega
    simp only [hsubn, if_true]
    have hnge : ¬ (f.emin - ((52 - m.log2 : Nat) : Int) ≥ f.emin) := by omega
    simp only [hnge, if_false]
    have hsh : (f.emin - (f.emin - ((52 - m.log2 : Nat) : Int))).toNat = 52 - m.log2 := by omega
    rw [hsh, Nat.mul_div_cancel _ (two_pow_pos _)]
    cases neg <;> simp [sgnBit]
  · rw [hc]
    have hM0' : (m == 0) = false := by simpa using hm0
    unfold bitsOf
    simp only [hM0', Bool.false_eq_true, if_false]
    have hsubn : (-1074 : Int) + (m.log2 : Int) - (f.fbits : Int) < f.emin := by omega
    simp only [hsubn, if_true]
    have hge : (-1074 : Int) ≥ f.emin := by omega
    simp only [hge, if_true]
    have : ((-1074 : Int) - f.emin).toNat = 0 := by omega
    rw [this]
    cases neg <;> simp [sgnBit]

theorem ofBitsF_fields (f : Fmt) (neg : Bool) (x fr : Nat) (hx : x < 2 ^ f.ebits - 1) (hfr : fr < 2 ^ f.fbits) :
    ofBitsF f (sgnBit neg * 2 ^ (f.ebits + f.fbits) + fr + x * 2 ^ f.fbits) =
      (if x = 0 then canonFin neg fr f.emin else canonFin neg (fr + 2 ^ f.fbits) (f.emin + ((x : Int) - 1))) := by
  have hs : sgnBit neg < 2 := by cases neg <;> simp [sgnBit]
  have hx' : x < 2 ^ f.ebits := by omega
  obtain ⟨h1, h2, h3⟩ := fields_of f.ebits f.fbits (sgnBit neg) hs x fr hx' hfr
  unfold ofBitsF
  simp only [h1, h2, h3]
  have hne : (x == 2 ^ f.ebits - 1) = false := by
    have : x ≠ 2 ^ f.ebits - 1 := by omega
    simpa using this
  simp only [hne, Bool.false_eq_true, if_false]
  have hneg : (sgnBit neg == 1) = neg := by cases neg <;> simp [sgnBit]
  rw [hneg]
  by_cases h0 : x = 0
  · subst h0; simp
  · have : (x == 0) = false := by simpa using h0
    simp [this, h0]

theorem exp_span (f : Fmt) (hE : 1 ≤ f.ebits) : f.emaxE - f.emin + 1 = ((2 ^ f.ebits : Nat) : Int) - 2 := by
  obtain ⟨k, hk⟩ : ∃ k, f.ebits = k + 1 := ⟨f.ebits - 1, by omega⟩
  simp only [Fmt.emaxE, Fmt.emin, Fmt.bias, hk, Nat.add_sub_cancel, Nat.pow_succ, Int.natCast_mul, Int.natCast_pow]
  push_cast
  omega

/-- **the bit pattern of a number of the format decodes to that number** -/
theorem ofBitsF_bitsOf (f : Fmt) (hf : FmtOk f) (neg : Bool) (m : Nat) (e : Int)
    (hm : m < 2 ^ (f.fbits + 1)) (he1 : f.emin ≤ e) (he2 : e ≤ f.emaxE)
    (hn : m ≠ 0 → 2 ^ f.fbits ≤ m ∨ e = f.emin) :
    ofBitsF f (bitsOf f (canonFin neg m e)) = canonFin neg m e := by
  have hspan := exp_span f hf.hE
  have hEpos : 2 ≤ 2 ^ f.ebits := by
    have : 2 ^ 1 ≤ 2 ^ f.ebits := Nat.pow_le_pow_right (by decide) hf.hE
    omega
  by_cases hm0 : m = 0
  · subst hm0
    have hc : canonFin neg 0 e = .fin neg 0 (-1074) := by simp [canonFin]
    rw [hc]
    have hb : bitsOf f (.fin neg 0 (-1074)) = sgnBit neg * 2 ^ (f.ebits + f.fbits) + 0 + 0 * 2 ^ f.fbits := by
      cases neg <;> simp [bitsOf, sgnBit]
    rw [hb, ofBitsF_fields f neg 0 0 (by omega) (two_pow_pos _)]
    simp [canonFin]
  · rcases hn hm0 with hfull | hemin
    · rw [bitsOf_full f hf neg m e hm0 hm he1 hfull]
      have hX : (e - f.emin + 1).toNat < 2 ^ f.ebits - 1 := by omega
      have hfr : m - 2 ^ f.fbits < 2 ^ f.fbits := by rw [Nat.pow_succ] at hm; omega
      rw [ofBitsF_fields f neg _ _ hX hfr]
      have hx0 : (e - f.emin + 1).toNat ≠ 0 := by omega
      simp only [hx0, if_false]
      congr 1
      · omega
      · omega
    · subst hemin
      by_cases hfull : 2 ^ f.fbits ≤ m
      · rw [bitsOf_full f hf neg m f.emin hm0 hm he1 hfull]
        have hX : (f.emin - f.emin + 1).toNat < 2 ^ f.ebits - 1 := by omega
        have hfr : m - 2 ^ f.fbits < 2 ^ f.fbits := by rw [Nat.pow_succ] at hm; omega
        rw [ofBitsF_fields f neg _ _ hX hfr]
        have hx0 : (f.emin - f.emin + 1).toNat ≠ 0 := by omega
        simp only [hx0, if_false]
        congr 1
        · omega
        · omega
      · have hlow : m < 2 ^ f.fbits := by omega
        rw [bitsOf_low f hf neg m hm0 hlow]
        have := ofBitsF_fields f neg 0 m (by omega) hlow
        simp only [Nat.zero_mul, Nat.add_zero, if_true] at this
        exact this


theorem emin_le_zero (f : Fmt) (hf : FmtOk f) : f.emin ≤ 0 := hf.hneg

theorem emin_le_emax (f : Fmt) (hf : FmtOk f) : f.emin ≤ f.emaxE := by
  have h := exp_span f hf.hE
  have : 2 ^ 2 ≤ 2 ^ f.ebits := Nat.pow_le_pow_right (by decide) hf.hE2
  omega

/-- special values -/
theorem ofBitsF_inf (f : Fmt) (hf : FmtOk f) (neg : Bool) : ofBitsF f (bitsOf f (.inf neg)) = .inf neg := by
  have hE : 1 ≤ 2 ^ f.ebits := two_pow_pos _
  have hb : bitsOf f (.inf neg) = sgnBit neg * 2 ^ (f.ebits + f.fbits) + 0 + (2 ^ f.ebits - 1) * 2 ^ f.fbits := by
    cases neg <;> simp [bitsOf, sgnBit]
  have hs : sgnBit neg < 2 := by cases neg <;> simp [sgnBit]
  obtain ⟨h1, h2, h3⟩ := fields_of f.ebits f.fbits (sgnBit neg) hs (2 ^ f.ebits - 1) 0 (by omega) (two_pow_pos _)
  rw [hb]
  unfold ofBitsF
  simp only [h1, h2, h3, beq_self_eq_true, if_true]
  cases neg <;> simp [sgnBit]

/-- **decoding the encoding of the rounded value gives the rounded value** -/
theorem ofBitsF_roundTo (f : Fmt) (hf : FmtOk f) (neg : Bool) (m : Nat) (e : Int) :
    ofBitsF f (bitsOf f (roundTo f (.fin neg m e))) = roundTo f (.fin neg m e) := by
  have h0 := emin_le_zero f hf
  have hmm := emin_le_emax f hf
  unfold roundTo
  simp only []
  by_cases he : e ≥ 0
  · simp only [he, if_true]
    cases hn : nearestG (f.fbits + 1) f.emin f.emaxE (m * 2 ^ e.toNat) 1 with
    | none => exact ofBitsF_inf f hf neg
    | some me =>
      obtain ⟨m', e'⟩ := me
      obtain ⟨h1, h2, h3, h4⟩ := nearestG_norm (f.fbits + 1) f.emin f.emaxE _ 1 m' e' (by omega) h0 hmm (by decide) hn
      simp only []
      apply ofBitsF_bitsOf f hf neg m' e' h1 h2 h3
      intro hm0
      by_cases hnum : m * 2 ^ e.toNat = 0
      · -- the number is zero: the result is (0, emin)
        rw [hnum] at hn
        unfold nearestG at hn
        simp at hn
        exact absurd hn.1.symm hm0
      · simpa using h4 hnum
  · simp only [he, if_false]
    cases hn : nearestG (f.fbits + 1) f.emin f.emaxE m (2 ^ (-e).toNat) with
    | none => exact ofBitsF_inf f hf neg
    | some me =>
      obtain ⟨m', e'⟩ := me
      obtain ⟨h1, h2, h3, h4⟩ := nearestG_norm (f.fbits + 1) f.emin f.emaxE _ _ m' e' (by omega) h0 hmm (two_pow_pos _) hn
      simp only []
      apply ofBitsF_bitsOf f hf neg m' e' h1 h2 h3
      intro hm0
      by_cases hnum : m = 0
      · rw [hnum] at hn
        unfold nearestG at hn
        simp at hn
        exact absurd hn.1.symm hm0
      · simpa using h4 hnum

end Proofs.FloatBin
