import Cfi.Container
import Proofs.ContainerList
/-! The heap invariant `Repr` and its preservation by every operation. -/
namespace Cfi.Container

/-- The heap `s` represents the duplicate-free, non-empty list `l`.  Links of
non-members are unconstrained (removed elements keep stale links). -/
structure Repr (s : Heap) (l : List Id) : Prop where
  nodup : l.Nodup
  root : l.head? = some s.root
  head : l.getLast? = some s.head
  next : ∀ x ∈ l, s.next x = nextIn l x
  prev : ∀ x ∈ l, s.prev x = prevIn l x

theorem repr_init (r : Id) : Repr (init r) [r] := by
  constructor <;> simp [init, nextIn, prevIn]

theorem Repr.root_mem {s l} (h : Repr s l) : s.root ∈ l := List.mem_of_head? h.root
theorem Repr.head_mem {s l} (h : Repr s l) : s.head ∈ l := List.mem_of_getLast? h.head

theorem Repr.prev_root {s l} (h : Repr s l) : s.prev s.root = none := by
  rw [h.prev _ h.root_mem]; exact (prevIn_eq_none_iff h.nodup h.root_mem).2 h.root

theorem Repr.next_head {s l} (h : Repr s l) : s.next s.head = none := by
  rw [h.next _ h.head_mem]; exact (nextIn_eq_none_iff h.nodup h.head_mem).2 h.head

/-- A member other than the last has a successor (so `RegisterData.add_after`'s
unguarded `after.next.previous = new` never dereferences `None`). -/
theorem Repr.next_ne_none {s l a} (h : Repr s l) (ha : a ∈ l) (hne : a ≠ s.head) :
    s.next a ≠ none := by
  rw [h.next _ ha]; intro hh
  have := (nextIn_eq_none_iff h.nodup ha).1 hh
  rw [h.head] at this; exact hne (Option.some.inj this).symm

theorem Repr.prev_ne_none {s l a} (h : Repr s l) (ha : a ∈ l) (hne : a ≠ s.root) :
    s.prev a ≠ none := by
  rw [h.prev _ ha]; intro hh
  have := (prevIn_eq_none_iff h.nodup ha).1 hh
  rw [h.root] at this; exact hne (Option.some.inj this).symm

theorem repr_addBefore {s l b n} (h : Repr s l) (hb : b ∈ l) (hn : n ∉ l) :
    Repr (addBefore s b n) (insertBefore l b n) := by
  have hbn : b ≠ n := by grind
  by_cases hr : b = s.root
  · -- inserting before the first element
    have hp : s.prev b = none := by rw [hr]; exact h.prev_root
    have hpi : prevIn l b = none := by rw [← h.prev b hb]; exact hp
    refine ⟨nodup_insertBefore h.nodup hb hn, ?_, ?_, ?_, ?_⟩
    · rw [head?_insertBefore, h.root]; simp [addBefore, hr, Heap.setNext, Heap.setPrev]
    · rw [getLast?_insertBefore, h.head]; simp [addBefore, hr, Heap.setNext, Heap.setPrev]
    · intro x hx
      rw [nextIn_insertBefore h.nodup hb hn]
      rw [mem_insertBefore hb] at hx
      have hnb : ∀ x, nextIn l x ≠ some b := by
        intro x hh
        have := (nextIn_iff_prevIn h.nodup).1 hh
        rw [hpi] at this; cases this
      simp only [addBefore, hr, Heap.setNext, Heap.setPrev, if_true, upd]
      by_cases hxn : x = n
      · simp [hxn]
      · have := h.next x (by grind)
        simp [hxn, ← hr, hnb x, this]
    · intro x hx
      rw [prevIn_insertBefore h.nodup hb hn]
      rw [mem_insertBefore hb] at hx
      simp only [addBefore, hr, Heap.setNext, Heap.setPrev, if_true, upd]
      by_cases hxb : x = s.root
      · simp [hxb, ← hr]
      · by_cases hxn : x = n
        · subst hxn; simp [← hr, hpi, hp]
        · have := h.prev x (by grind)
          simp [← hr, hxn, this] at *
  · -- inserting in the middle: `b` has a predecessor `p`
    have hpn := h.prev_ne_none hb hr
    obtain ⟨p, hp⟩ := Option.ne_none_iff_exists'.mp hpn
    have hpi : prevIn l b = some p := by rw [← h.prev b hb]; exact hp
    have hpm : p ∈ l := (prevIn_mem hpi).1
    have hnp : nextIn l p = some b := (nextIn_iff_prevIn h.nodup).2 hpi
    refine ⟨nodup_insertBefore h.nodup hb hn, ?_, ?_, ?_, ?_⟩
    · rw [head?_insertBefore, h.root]
      have : s.root ≠ b := fun e => hr e.symm
      simp [addBefore, hr, hp, Heap.setNext, Heap.setPrev, this]
    · rw [getLast?_insertBefore, h.head]; simp [addBefore, hr, hp, Heap.setNext, Heap.setPrev]
    · intro x hx
      rw [nextIn_insertBefore h.nodup hb hn]
      rw [mem_insertBefore hb] at hx
      simp only [addBefore, hr, hp, Heap.setNext, Heap.setPrev, if_false, upd]
      by_cases hxn : x = n
      · simp [hxn]
      · have hxl : x ∈ l := by grind
        have := h.next x hxl
        by_cases hxp : x = p
        · subst hxp; simp [hxn, hnp]
        · have : nextIn l x ≠ some b := by
            intro hh
            have := (nextIn_iff_prevIn h.nodup).1 hh
            rw [hpi] at this; exact hxp (Option.some.inj this).symm
          simp [hxn, hxp, this, h.next x hxl]
    · intro x hx
      rw [prevIn_insertBefore h.nodup hb hn]
      rw [mem_insertBefore hb] at hx
      simp only [addBefore, hr, hp, Heap.setNext, Heap.setPrev, if_false, upd]
      by_cases hxb : x = b
      · simp [hxb]
      · by_cases hxn : x = n
        · subst hxn; simp [hxb, hpi]
        · have := h.prev x (by grind)
          simp [hxb, hxn, this]

theorem repr_addAfter {s l a n} (h : Repr s l) (ha : a ∈ l) (hn : n ∉ l) :
    Repr (addAfter s a n) (insertAfter l a n) := by
  have han : a ≠ n := by grind
  by_cases hr : a = s.head
  · -- inserting after the last element
    have hp : s.next a = none := by rw [hr]; exact h.next_head
    have hpi : nextIn l a = none := by rw [← h.next a ha]; exact hp
    refine ⟨nodup_insertAfter h.nodup ha hn, ?_, ?_, ?_, ?_⟩
    · rw [head?_insertAfter, h.root]; simp [addAfter, hr, Heap.setNext, Heap.setPrev]
    · rw [getLast?_insertAfter h.nodup, h.head]; simp [addAfter, hr, Heap.setNext, Heap.setPrev]
    · intro x hx
      rw [nextIn_insertAfter h.nodup ha hn]
      rw [mem_insertAfter ha] at hx
      simp only [addAfter, hr, Heap.setNext, Heap.setPrev, if_true, upd]
      by_cases hxb : x = s.head
      · simp [hxb, ← hr]
      · by_cases hxn : x = n
        · subst hxn; simp [← hr, hpi, hp]
        · have := h.next x (by grind)
          simp [← hr, hxn, this] at *
    · intro x hx
      rw [prevIn_insertAfter h.nodup ha hn]
      rw [mem_insertAfter ha] at hx
      simp only [addAfter, hr, Heap.setNext, Heap.setPrev, if_true, upd]
      by_cases hxn : x = n
      · simp [hxn]
      · have := h.prev x (by grind)
        simp [hxn, ← hr, hpi, this]
  · have hpn := h.next_ne_none ha hr
    obtain ⟨p, hp⟩ := Option.ne_none_iff_exists'.mp hpn
    have hpi : nextIn l a = some p := by rw [← h.next a ha]; exact hp
    have hpm : p ∈ l := (nextIn_mem hpi).1
    refine ⟨nodup_insertAfter h.nodup ha hn, ?_, ?_, ?_, ?_⟩
    · rw [head?_insertAfter, h.root]; simp [addAfter, hr, hp, Heap.setNext, Heap.setPrev]
    · rw [getLast?_insertAfter h.nodup, h.head]
      have : s.head ≠ a := fun e => hr e.symm
      simp [addAfter, hr, hp, Heap.setNext, Heap.setPrev, this]
    · intro x hx
      rw [nextIn_insertAfter h.nodup ha hn]
      rw [mem_insertAfter ha] at hx
      simp only [addAfter, hr, hp, Heap.setNext, Heap.setPrev, if_false, upd]
      by_cases hxb : x = a
      · simp [hxb]
      · by_cases hxn : x = n
        · subst hxn; simp [hxb, hpi]
        · have := h.next x (by grind)
          simp [hxb, hxn, this]
    · intro x hx
      rw [prevIn_insertAfter h.nodup ha hn]
      rw [mem_insertAfter ha] at hx
      simp only [addAfter, hr, hp, Heap.setNext, Heap.setPrev, if_false, upd]
      by_cases hxn : x = n
      · simp [hxn]
      · have hxl : x ∈ l := by grind
        by_cases hxp : x = p
        · subst hxp; simp [hxn, hpi]
        · have : some p ≠ some x := fun e => hxp (Option.some.inj e).symm
          simp [hxn, hxp, hpi, this, h.prev x hxl]

theorem repr_prepend {s l n} (h : Repr s l) (hn : n ∉ l) : Repr (prepend s n) (n :: l) := by
  have := repr_addBefore h h.root_mem hn
  have e : insertBefore l s.root n = n :: l := by
    have := h.root
    cases l with
    | nil => simp at this
    | cons y t => simp at this; simp [insertBefore, this]
  rw [e] at this; exact this

theorem insertAfter_getLast {l : List Id} {a n : Id} (hn : l.Nodup) (h : l.getLast? = some a) :
    insertAfter l a n = l ++ [n] := by
  induction l with
  | nil => simp at h
  | cons y t ih =>
    cases t with
    | nil => simp at h; simp [insertAfter, h]
    | cons z t =>
      rw [List.getLast?_cons_cons] at h
      have : y ≠ a := by
        have := List.mem_of_getLast? h; grind
      have ih := ih (by grind) h
      rw [insertAfter, if_neg this, ih]; rfl

theorem repr_append {s l n} (h : Repr s l) (hn : n ∉ l) : Repr (append s n) (l ++ [n]) := by
  have := repr_addAfter h h.head_mem hn
  rw [insertAfter_getLast h.nodup h.head] at this; exact this

/-! ### remove -/

@[simp] theorem unlinkPrev_prev (s r) : (unlinkPrev s r).prev = s.prev := by
  unfold unlinkPrev; split <;> rfl
@[simp] theorem unlinkPrev_root (s r) : (unlinkPrev s r).root = s.root := by
  unfold unlinkPrev; split <;> rfl
@[simp] theorem unlinkPrev_head (s r) : (unlinkPrev s r).head = s.head := by
  unfold unlinkPrev; split <;> rfl
theorem unlinkPrev_next (s r x) :
    (unlinkPrev s r).next x = if s.prev r = some x then s.next r else s.next x := by
  unfold unlinkPrev; cases h : s.prev r <;> simp [Heap.setNext, upd, eq_comm]

@[simp] theorem unlinkNext_next (s r) : (unlinkNext s r).next = s.next := by
  unfold unlinkNext; split <;> rfl
@[simp] theorem unlinkNext_root (s r) : (unlinkNext s r).root = s.root := by
  unfold unlinkNext; split <;> rfl
@[simp] theorem unlinkNext_head (s r) : (unlinkNext s r).head = s.head := by
  unfold unlinkNext; split <;> rfl
theorem unlinkNext_prev (s r x) :
    (unlinkNext s r).prev x = if s.next r = some x then s.prev r else s.prev x := by
  unfold unlinkNext; cases h : s.next r <;> simp [Heap.setPrev, upd, eq_comm]

@[simp] theorem moveRoot_next (s r) : (moveRoot s r).next = s.next := by
  unfold moveRoot; cases s.next r <;> split <;> rfl
@[simp] theorem moveRoot_prev (s r) : (moveRoot s r).prev = s.prev := by
  unfold moveRoot; cases s.next r <;> split <;> rfl
@[simp] theorem moveRoot_head (s r) : (moveRoot s r).head = s.head := by
  unfold moveRoot; cases s.next r <;> split <;> rfl
theorem moveRoot_root (s r) :
    (moveRoot s r).root = if r = s.root then (s.next r).getD s.root else s.root := by
  unfold moveRoot; cases h : s.next r <;> simp <;> split <;> simp_all

@[simp] theorem moveHead_next (s r) : (moveHead s r).next = s.next := by
  unfold moveHead; cases s.prev r <;> split <;> rfl
@[simp] theorem moveHead_prev (s r) : (moveHead s r).prev = s.prev := by
  unfold moveHead; cases s.prev r <;> split <;> rfl
@[simp] theorem moveHead_root (s r) : (moveHead s r).root = s.root := by
  unfold moveHead; cases s.prev r <;> split <;> rfl
theorem moveHead_head (s r) :
    (moveHead s r).head = if r = s.head then (s.prev r).getD s.head else s.head := by
  unfold moveHead; cases h : s.prev r <;> simp <;> split <;> simp_all

theorem remove_next (s : Heap) (r x : Id) :
    (remove s r).next x = if s.prev r = some x then s.next r else s.next x := by
  simp [remove, unlinkPrev_next]

theorem remove_prev (s : Heap) (r x : Id) (hp : s.prev r ≠ some r) :
    (remove s r).prev x = if s.next r = some x then s.prev r else s.prev x := by
  simp [remove, unlinkNext_prev, unlinkPrev_next, hp]

theorem remove_root (s : Heap) (r : Id) (hp : s.prev r ≠ some r) :
    (remove s r).root = if r = s.root then (s.next r).getD s.root else s.root := by
  simp [remove, moveRoot_root, unlinkPrev_next, hp]

theorem remove_head (s : Heap) (r : Id) :
    (remove s r).head = if r = s.head then (s.prev r).getD s.head else s.head := by
  simp [remove, moveHead_head, unlinkNext_prev]

theorem repr_remove {s l r} (h : Repr s l) (hr : r ∈ l) (hlen : 1 < l.length) :
    Repr (remove s r) (l.erase r) := by
  have hpr : s.prev r ≠ some r := by
    rw [h.prev r hr]; intro hh; exact prevIn_ne h.nodup hh rfl
  have hnr : s.next r ≠ some r := by
    rw [h.next r hr]; intro hh; exact nextIn_ne h.nodup hh rfl
  refine ⟨h.nodup.erase r, ?_, ?_, ?_, ?_⟩
  · rw [head?_erase, h.root, remove_root s r hpr]
    by_cases e : r = s.root
    · have hne : s.next r ≠ none := by
        apply h.next_ne_none hr
        intro e2
        -- r is both first and last: the list is a singleton
        have h1 := h.root; have h2 := h.head
        rw [← e] at h1; rw [← e2] at h2
        cases l with
        | nil => simp at hr
        | cons y t =>
          cases t with
          | nil => simp at hlen
          | cons z t =>
            simp at h1; subst h1
            rw [List.getLast?_cons_cons] at h2
            have := List.mem_of_getLast? h2
            have := h.nodup; grind
      obtain ⟨x, hx⟩ := Option.ne_none_iff_exists'.mp hne
      simp [← e, hx, ← h.next r hr]
    · have : s.root ≠ r := fun e' => e e'.symm
      simp [e, this]
  · rw [getLast?_erase h.nodup, h.head, remove_head s r]
    by_cases e : r = s.head
    · have hne : s.prev r ≠ none := by
        apply h.prev_ne_none hr
        intro e2
        have h1 := h.root; have h2 := h.head
        rw [← e2] at h1; rw [← e] at h2
        cases l with
        | nil => simp at hr
        | cons y t =>
          cases t with
          | nil => simp at hlen
          | cons z t =>
            simp at h1; subst h1
            rw [List.getLast?_cons_cons] at h2
            have := List.mem_of_getLast? h2
            have := h.nodup; grind
      obtain ⟨x, hx⟩ := Option.ne_none_iff_exists'.mp hne
      simp [← e, hx, ← h.prev r hr]
    · have : s.head ≠ r := fun e' => e e'.symm
      simp [e, this]
  · intro x hx
    have hxr : x ≠ r := by
      intro e; subst e; exact (List.Nodup.mem_erase_iff h.nodup).1 hx |>.1 rfl
    have hxl : x ∈ l := List.mem_of_mem_erase hx
    rw [nextIn_erase h.nodup hxr, remove_next, ← h.next x hxl, ← h.next r hr, h.prev r hr]
    have : prevIn l r = some x ↔ s.next x = some r := by
      rw [h.next x hxl]; exact (nextIn_iff_prevIn h.nodup).symm
    by_cases c : s.next x = some r <;> simp [c, this]
  · intro x hx
    have hxr : x ≠ r := by
      intro e; subst e; exact (List.Nodup.mem_erase_iff h.nodup).1 hx |>.1 rfl
    have hxl : x ∈ l := List.mem_of_mem_erase hx
    rw [prevIn_erase h.nodup hxr, remove_prev s r x hpr, ← h.prev x hxl, ← h.prev r hr, h.next r hr]
    have : nextIn l r = some x ↔ s.prev x = some r := by
      rw [h.prev x hxl]; exact (nextIn_iff_prevIn h.nodup)
    by_cases c : s.prev x = some r <;> simp [c, this]

/-! ### histories -/

theorem repr_step {s l op} (h : Repr s l) (hok : OpOk l op = true) :
    Repr (step s op) (specStep l op) := by
  cases op with
  | prepend n => simp [OpOk] at hok; exact repr_prepend h hok
  | append n => simp [OpOk] at hok; exact repr_append h hok
  | addBefore b n => simp [OpOk] at hok; exact repr_addBefore h hok.1 hok.2
  | addAfter a n => simp [OpOk] at hok; exact repr_addAfter h hok.1 hok.2
  | remove r => simp [OpOk] at hok; exact repr_remove h hok.1 hok.2

/-- Every admissible history keeps the container a faithful representation of
the abstract list subjected to the same history.  No bound on the length of the
history or on the size of the container. -/
theorem repr_run {s l ops} (h : Repr s l) (hok : HistOk l ops = true) :
    Repr (run s ops) (specRun l ops) := by
  induction ops generalizing s l with
  | nil => exact h
  | cons op ops ih =>
    simp [HistOk] at hok
    exact ih (repr_step h hok.1) hok.2

/-! ### observables -/

theorem Repr.iter_eq {s l} (h : Repr s l) (k : Nat) : iter s (l.length + k) = l := by
  have hne : l ≠ [] := by intro e; have := h.root; simp [e] at this
  obtain ⟨x, suf, rfl⟩ := List.exists_cons_of_ne_nil hne
  have hx : x = s.root := by have := h.root; simpa using this
  unfold iter
  rw [← hx]
  have key : ∀ (n : Nat) (y : Option Id), (∀ z, y = some z → z ∈ x :: suf) →
      iterFrom s.next n y = iterFrom (nextIn (x :: suf)) n y := by
    intro n
    induction n with
    | zero => intro y _; rfl
    | succ n ih =>
      intro y hy
      cases y with
      | none => rfl
      | some z =>
        have hz := hy z rfl
        simp only [iterFrom]
        rw [h.next z hz]
        congr 1
        apply ih
        intro w hw
        exact (nextIn_mem hw).1
  rw [key _ _ (by intro z hz; cases hz; simp)]
  have := iterFrom_nextIn h.nodup [] suf x rfl k
  simpa [Nat.add_comm, Nat.add_left_comm, Nat.add_assoc] using this

theorem Repr.iterBack_eq {s l} (h : Repr s l) (k : Nat) :
    iterBack s (l.length + k) = l.reverse := by
  have hne : l ≠ [] := by intro e; have := h.root; simp [e] at this
  obtain ⟨pre, x, hl⟩ : ∃ pre x, l = pre ++ [x] :=
    ⟨l.dropLast, l.getLast hne, (List.dropLast_concat_getLast hne).symm⟩
  have hx : x = s.head := by have := h.head; simpa [hl] using this
  unfold iterBack
  rw [← hx]
  have key : ∀ (n : Nat) (y : Option Id), (∀ z, y = some z → z ∈ l) →
      iterFrom s.prev n y = iterFrom (prevIn l) n y := by
    intro n
    induction n with
    | zero => intro y _; rfl
    | succ n ih =>
      intro y hy
      cases y with
      | none => rfl
      | some z =>
        have hz := hy z rfl
        simp only [iterFrom]
        rw [h.prev z hz]
        congr 1
        apply ih
        intro w hw
        exact (prevIn_mem hw).1
  rw [key _ _ (by intro z hz; cases hz; simp [hl])]
  have := iterFrom_prevIn h.nodup pre [] x hl k
  have e : l.length + k = pre.length + 1 + k := by simp [hl]
  rw [e, this, hl]; simp

end Cfi.Container
