import Proofs.FloatLoop
import Spec.C01
/-!
The dialect / accuracy / maximal-decimals clauses of `Spec.C01.floatClauses` for the text an
F-notation float field writes: the reference parser `parseNumeral` recovers sign, digits and
number of decimals of `[-]ip[sep fp]`, and the digits are those of `⌊|x|·10^d⌉`.
-/
namespace Proofs.FloatClauses
open Cfi Cfi.Text Cfi.PyInt Cfi.Dbl Proofs.Nearest Proofs.FloatText Proofs.FloatLaw Proofs.FloatLoop Spec.C01

/-- the body with the separator in place of the point -/
def sbody (c : Char) (neg : Bool) (ip fp : List Char) : List Char :=
  (if neg then ['-'] else []) ++ (ip ++ (if fp.isEmpty then [] else c :: fp))

theorem isAsciiDigit_of {x : Char} (h : x.isDigit = true) : isAsciiDigit x = true := by
  have := (Cfi.isDigit_iff x).1 h
  simp only [isAsciiDigit, Bool.and_eq_true, decide_eq_true_eq]
  constructor
  · show '0'.toNat ≤ x.toNat; simp; omega
  · show x.toNat ≤ '9'.toNat; simp; omega

theorem isDigit_of_ascii {x : Char} (h : isAsciiDigit x = true) : x.isDigit = true := by
  simp only [isAsciiDigit, Bool.and_eq_true, decide_eq_true_eq] at h
  have h1 : '0'.toNat ≤ x.toNat := h.1
  have h2 : x.toNat ≤ '9'.toNat := h.2
  simp at h1 h2
  exact (Cfi.isDigit_iff x).2 ⟨h1, h2⟩

theorem subst1_digits (a b : Char) (ha : a.isDigit = false) (s : List Char) (hs : ∀ x ∈ s, x.isDigit = true) :
    subst1 a b s = s := by
  apply subst1_absent
  intro x hx e
  subst e
  rw [hs x hx] at ha; exact absurd ha (by simp)

theorem subst1_body (c : Char) (neg : Bool) (ip fp : List Char) (hd : ∀ x ∈ ip ++ fp, x.isDigit = true) :
    subst1 '.' c (body neg ip fp) = sbody c neg ip fp := by
  have hdot : '.'.isDigit = false := by decide
  have hi : subst1 '.' c ip = ip := subst1_digits _ _ hdot ip (fun x hx => hd x (by simp [hx]))
  have hf : subst1 '.' c fp = fp := subst1_digits _ _ hdot fp (fun x hx => hd x (by simp [hx]))
  unfold body sbody
  rw [subst1_append, subst1_append, hi]
  congr 1
  · cases neg <;> simp [subst1]
  · congr 1
    by_cases h : fp.isEmpty = true
    · simp [h, subst1]
    · simp only [h, Bool.false_eq_true, if_false]
      show subst1 '.' c ('.' :: fp) = c :: fp
      have : subst1 '.' c ('.' :: fp) = c :: subst1 '.' c fp := by simp [subst1]
      rw [this, hf]

theorem takeWhile_digits (ip rest : List Char) (hd : ∀ x ∈ ip, x.isDigit = true)
    (hr : ∀ x, rest.head? = some x → isAsciiDigit x = false) :
    (ip ++ rest).takeWhile isAsciiDigit = ip ∧ (ip ++ rest).dropWhile isAsciiDigit = rest := by
  induction ip with
  | nil =>
    cases rest with
    | nil => simp
    | cons x r => simp [hr x rfl]
  | cons a ip ih =>
    have ha := isAsciiDigit_of (hd a (by simp))
    obtain ⟨h1, h2⟩ := ih (fun x hx => hd x (by simp [hx]))
    simp [List.takeWhile_cons, List.dropWhile_cons, ha, h1, h2]

theorem splitFixed_sbody (c : Char) (hc2 : isAsciiDigit c = false) (neg : Bool) (ip fp : List Char)
    (hne : ip ≠ []) (hd : ∀ x ∈ ip ++ fp, x.isDigit = true) :
    splitFixed (sbody c neg ip fp) [c] = some (neg, ip, fp) := by
  have hdi : ∀ x ∈ ip, x.isDigit = true := fun x hx => hd x (by simp [hx])
  have hdf : ∀ x ∈ fp, x.isDigit = true := fun x hx => hd x (by simp [hx])
  -- the part after the sign
  have key : ∀ t, t = ip ++ (if fp.isEmpty then [] else c :: fp) →
      (let ip' := t.takeWhile isAsciiDigit
       let rest := t.dropWhile isAsciiDigit
       if ip'.isEmpty then none
       else if rest.isEmpty then some (neg, ip', [])
       else if isPrefix [c] rest && !([c] : List Char).isEmpty then
         let fp' := rest.drop ([c] : List Char).length
         if !fp'.isEmpty && fp'.all isAsciiDigit then some (neg, ip', fp') else none
       else none) = some (neg, ip, fp) := by
    intro t ht
    have hr : ∀ x, (if fp.isEmpty then [] else c :: fp).head? = some x → isAsciiDigit x = false := by
      intro x hx
      by_cases h : fp.isEmpty = true
      · simp [h] at hx
      · simp [h] at hx; rw [← hx]; exact hc2
    obtain ⟨h1, h2⟩ := takeWhile_digits ip _ hdi hr
    rw [ht]
    simp only [h1, h2]
    have hie : ip.isEmpty = false := by
      cases ip with
      | nil => exact absurd rfl hne
      | cons _ _ => rfl
    simp only [hie, Bool.false_eq_true, if_false]
    by_cases h : fp.isEmpty = true
    · have : fp = [] := by simpa using h
      subst this; simp
    · have hall : fp.all isAsciiDigit = true := by
        rw [List.all_eq_true]; exact fun x hx => isAsciiDigit_of (hdf x hx)
      simp [h, isPrefix, hall]
  unfold splitFixed
  cases neg
  · -- no sign: the text starts with a digit
    obtain ⟨a, r, rfl⟩ := List.exists_cons_of_ne_nil hne
    have ha : a ≠ '-' := by
      intro e; subst e
      have := hdi '-' (by simp)
      simp at this
    have hs : sbody c false (a :: r) fp = a :: (r ++ (if fp.isEmpty then [] else c :: fp)) := by
      simp [sbody]
    rw [hs]
    split
    · rename_i ng t heq
      split at heq
      · rename_i heq2; injection heq2 with h _; exact absurd h ha
      · injection heq with h1 h2
        subst h1 h2
        exact key (a :: (r ++ (if fp.isEmpty then [] else c :: fp))) (by simp)
  · have hs : sbody c true ip fp = '-' :: (ip ++ (if fp.isEmpty then [] else c :: fp)) := by
      simp [sbody]
    rw [hs]
    split
    · rename_i ng t heq
      split at heq
      · rename_i heq2
        injection heq with h1 h2
        injection heq2 with _ h3
        subst h1 h2 h3
        exact key _ rfl
      · rename_i hno
        exact absurd rfl (hno _)

theorem sbody_chars (c : Char) (neg : Bool) (ip fp : List Char) (hd : ∀ x ∈ ip ++ fp, x.isDigit = true) :
    ∀ x ∈ sbody c neg ip fp, x = '-' ∨ x = c ∨ x.isDigit = true := by
  intro x hx
  unfold sbody at hx
  simp only [List.mem_append] at hx
  rcases hx with hx | hx | hx
  · cases neg
    · simp at hx
    · simp at hx; exact Or.inl hx
  · exact Or.inr (Or.inr (hd x (by simp [hx])))
  · by_cases hf : fp.isEmpty = true
    · simp [hf] at hx
    · simp only [hf, Bool.false_eq_true, if_false, List.mem_cons] at hx
      rcases hx with rfl | hx
      · exact Or.inr (Or.inl rfl)
      · exact Or.inr (Or.inr (hd x (by simp [hx])))

theorem span_loop_all (p : Char → Bool) (t acc : List Char) (h : ∀ x ∈ t, p x = true) :
    List.span.loop p t acc = (acc.reverse ++ t, []) := by
  induction t generalizing acc with
  | nil => simp [List.span.loop]
  | cons a t ih =>
    have ha := h a (by simp)
    simp only [List.span.loop, ha]
    rw [ih (a :: acc) (fun x hx => h x (by simp [hx]))]
    simp

theorem span_all (p : Char → Bool) (t : List Char) (h : ∀ x ∈ t, p x = true) : t.span p = (t, []) := by
  unfold List.span
  rw [span_loop_all p t [] h]
  simp

/-- the reference parser on the text of an F-notation field -/
theorem parseNumeral_sbody (c : Char) (hc2 : isAsciiDigit c = false) (hce : c ≠ 'e' ∧ c ≠ 'E')
    (neg : Bool) (ip fp : List Char) (hne : ip ≠ []) (hd : ∀ x ∈ ip ++ fp, x.isDigit = true) :
    parseNumeral (sbody c neg ip fp) [c] =
      some { neg := neg, digits := ip ++ fp, lastExp := -(fp.length : Int), nfrac := fp.length, expLetter := none } := by
  have hall : ∀ x ∈ sbody c neg ip fp, (x != 'e' && x != 'E') = true := by
    intro x hx
    rcases sbody_chars c neg ip fp hd x hx with rfl | rfl | h
    · decide
    · simp [hce.1, hce.2]
    · have := (Cfi.isDigit_iff x).1 h
      have h1 : x ≠ 'e' := by intro e; subst e; simp at this
      have h2 : x ≠ 'E' := by intro e; subst e; simp at this
      simp [h1, h2]
  unfold parseNumeral
  rw [span_all _ _ hall]
  simp only [splitFixed_sbody c hc2 neg ip fp hne hd, Option.map]

theorem stripWs_not_digit : ∀ n : Nat, n ≤ 57 → 45 ≤ n → Cfi.Generated.stripWs.contains n = false := by decide

theorem isStripWs_digit {x : Char} (h : x.isDigit = true) : isStripWs x = false := by
  have := (Cfi.isDigit_iff x).1 h
  exact stripWs_not_digit x.toNat this.2 (by omega)

theorem strip_sbody (c : Char) (hcw : isStripWs c = false) (k : Nat) (neg : Bool) (ip fp : List Char)
    (hd : ∀ x ∈ ip ++ fp, x.isDigit = true) :
    strip (List.replicate k ' ' ++ sbody c neg ip fp) = sbody c neg ip fp := by
  have hall : ∀ x ∈ sbody c neg ip fp, isStripWs x = false := by
    intro x hx
    rcases sbody_chars c neg ip fp hd x hx with rfl | rfl | h
    · decide
    · exact hcw
    · exact isStripWs_digit h
  unfold strip
  apply Cfi.stripBy_pad_left k ' ' _ (by decide)
  · intro x hx; exact hall x (List.mem_of_mem_head? hx)
  · intro x hx; exact hall x (List.mem_of_getLast? hx)

theorem natOfDigits_eq (l : List Char) : natOfDigits l = ofDigits (l.map val) := by
  simp only [natOfDigits, ofDigits, List.foldl_map]

theorem natOfDigits_fdigits (n d : Nat) : natOfDigits (fdigits n d) = n := by
  obtain ⟨k, hk⟩ := map_val_fdigits n d
  rw [natOfDigits_eq, hk, ← ofDigits_dropWhile, dropWhile_zeros, ofDigits_dropWhile, ofDigits_natDigits]

/-- the printed digits are within half a unit of the last decimal of `x` -/
theorem accurate_fdigits (neg : Bool) (m : Nat) (e : Int) (d : Nat) (he : -1074 ≤ e) :
    accurate (.fin neg m e)
      { neg := neg, digits := fip (roundScaled m e d) d ++ ffp (roundScaled m e d) d, lastExp := -(d : Int),
        nfrac := d, expLetter := none } = true := by
  obtain ⟨hb, _⟩ := frac_units m e d (-1074) he (by decide)
  unfold accurate
  simp only [fip_ffp, natOfDigits_fdigits, Int.neg_neg, beq_self_eq_true, Bool.true_or, Bool.and_true,
    decide_eq_true_eq]
  have hrs : roundScaled m e d = divHE (frac m e d).1 (frac m e d).2 := by
    unfold roundScaled; rfl
  obtain ⟨s1, s2, _⟩ := divHE_spec (frac m e d).1 (frac m e d).2 hb
  rw [← hrs] at s1 s2
  generalize frac m e d = ab at *
  obtain ⟨a, b⟩ := ab
  simp only [] at *
  omega

/-- **The float clauses of C01 for an F-notation field**: the text written is in the configured
dialect (no exponent, the configured separator, at most the declared decimals), its digits
are within half a unit of the last emitted decimal of `x`, and no larger number of decimals
would have fitted. -/
theorem floatClauses_F (f : Field) (dec : Nat) (fmt c : Char) (hk : f.kind = .flt dec fmt [c])
    (hfmt : fmt = 'F' ∨ fmt = 'f') (hsep : sepOk [c] = true)
    (neg : Bool) (m : Nat) (e : Int) (he : -1074 ≤ e) (d' : Nat) (hd' : d' ≤ dec) (k : Nat)
    (hno : ∀ d, d' < d → d ≤ dec → ∃ rd, pyRound (.fin neg m e) d = some rd ∧ f.size < (fmtF rd d (fmt == 'F')).length) :
    floatClauses f (.dbl (.fin neg m e))
      (List.replicate k ' ' ++ subst1 '.' c (body neg (fip (roundScaled m e d') d') (ffp (roundScaled m e d') d'))) = true := by
  have hdig : ∀ x ∈ fip (roundScaled m e d') d' ++ ffp (roundScaled m e d') d', x.isDigit = true := by
    rw [fip_ffp]; exact fdigits_isDigit _ _
  -- facts about the separator
  simp only [sepOk, Bool.not_eq_true', Bool.or_eq_false_iff] at hsep
  obtain ⟨⟨⟨⟨⟨⟨⟨⟨⟨⟨⟨⟨⟨⟨h1, _⟩, _⟩, h4⟩, h5⟩, h6⟩, _⟩, _⟩, _⟩, _⟩, _⟩, _⟩, _⟩, _⟩, _⟩ := hsep
  have hce : c ≠ 'e' ∧ c ≠ 'E' := ⟨by simpa using h4, by simpa using h5⟩
  rw [subst1_body c neg _ _ hdig]
  unfold floatClauses
  rw [hk]
  simp only [Dbl.isNaN, Bool.false_eq_true, if_false]
  rw [strip_sbody c h6 k neg _ _ hdig, parseNumeral_sbody c h1 hce neg _ _ (fip_ne _ _) hdig]
  simp only [ffp_length]
  have hacc := accurate_fdigits neg m e d' he
  have hdia : dialectOk dec fmt (.fin neg m e)
      { neg := neg, digits := fip (roundScaled m e d') d' ++ ffp (roundScaled m e d') d', lastExp := -(d' : Int),
        nfrac := d', expLetter := none } = true := by
    unfold dialectOk
    rcases hfmt with rfl | rfl <;> simp [hd']
  have hmax : decimalsMaximal (.fin neg m e) f.size dec (fmt == 'F') d' = true := by
    unfold decimalsMaximal
    rw [List.all_eq_true]
    intro d hd
    simp only [List.mem_range] at hd
    by_cases hle : d ≤ d'
    · simp [hle]
    · obtain ⟨rd, hrd, hlen⟩ := hno d (by omega) (by omega)
      simp [hle, hrd, hlen]
  have hE : (fmt == 'E' || fmt == 'e') = false := by
    rcases hfmt with rfl | rfl <;> decide
  simp only [hdia, hE, Bool.false_eq_true, if_false, hacc, Bool.or_true, hmax, Bool.and_self]

end Proofs.FloatClauses
