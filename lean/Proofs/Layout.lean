import Cfi.Line
import Proofs.Splice
/-! Layout induction: in a positional line written from disjoint fields every
field's span holds that field's rendering. -/
namespace Cfi
open Cfi.Text

theorem getElem?_slice (l : List α) (a b i : Nat) :
    (slice l a b)[i]? = if a + i < b then l[a + i]? else none := by
  simp only [slice, List.getElem?_drop, List.getElem?_take]

/-- two lines that agree on the columns `[a, b)` have the same slice -/
theorem slice_ext {l₁ l₂ : List α} {a b : Nat} (h : ∀ i, a ≤ i → i < b → l₁[i]? = l₂[i]?) :
    slice l₁ a b = slice l₂ a b := by
  apply List.ext_getElem?
  intro i
  rw [getElem?_slice, getElem?_slice]
  split
  · exact h (a + i) (by omega) (by assumption)
  · rfl

theorem getElem?_padTo (line : List α) (stop : Nat) (bl : α) (i : Nat) (hi : i < line.length) :
    (padTo line stop bl)[i]? = line[i]? := by
  unfold padTo
  split
  · simp [ljust, List.getElem?_append_left hi]
  · rfl

/-- a write leaves the span of a disjoint, already written field untouched -/
theorem slice_splice_disjoint (line value : List α) (start stop a b : Nat) (bl : α)
    (hs : start ≤ stop) (hv : value.length = stop - start) (hb : b ≤ line.length)
    (hd : b ≤ start ∨ stop ≤ a) :
    slice (splice line start stop value bl) a b = slice line a b := by
  apply slice_ext
  intro i hai hib
  rw [getElem?_splice_outside hs hv i (by omega)]
  exact getElem?_padTo line stop bl i (by omega)

/-- pointwise relation between two lists of the same length -/
inductive All2 {α β : Type} (R : α → β → Prop) : List α → List β → Prop where
  | nil : All2 R [] []
  | cons {a b as bs} : R a b → All2 R as bs → All2 R (a :: as) (b :: bs)

/-- the rendering a positional write puts in a field's span (width = size) -/
def rendersTo (f : Field) (v : Val) (r : List Char) : Prop :=
  renderText f v = .ok r ∧ r.length = f.size ∧ f.stop = f.size + f.start

def disjointFrom (f : Field) (gs : List Field) : Prop :=
  ∀ g ∈ gs, f.stop ≤ g.start ∨ g.stop ≤ f.start

/-- writing the remaining fields keeps every span that is already in place and
disjoint from all of them -/
theorem writeFields_preserves (fs : List Field) (vs : List Val) (rs : List (List Char))
    (hlen : fs.length = vs.length) (hr : All2 (fun (fv : Field × Val) r => rendersTo fv.1 fv.2 r) (fs.zip vs) rs)
    (line out : List Char) (hw : writeFields fs vs line = .ok out) (a b : Nat) (hb : b ≤ line.length)
    (hd : ∀ f ∈ fs, b ≤ f.start ∨ f.stop ≤ a) :
    slice out a b = slice line a b ∧ line.length ≤ out.length := by
  induction fs generalizing vs rs line with
  | nil =>
    simp only [writeFields] at hw
    injection hw with hw; subst hw; exact ⟨rfl, Nat.le_refl _⟩
  | cons f fs ih =>
    cases vs with
    | nil => simp at hlen
    | cons v vs =>
      simp only [List.zip_cons_cons] at hr
      cases hr with
      | @cons _ r _ rs' h1 hrest =>
        obtain ⟨hrend, hrl, hgeo⟩ := h1
        dsimp only at hrend hrl hgeo
        simp only [writeFields, Field.writeText, hrend, Except.map, bind, Except.bind] at hw
        have hs : f.start ≤ f.stop := by omega
        have hv : r.length = f.stop - f.start := by rw [hrl]; omega
        have hlen' := length_splice (line := line) (b := ' ') hs hv
        have := ih vs _ (by simpa using hlen) hrest _ hw (by rw [hlen']; omega)
          (fun g hg => hd g (List.mem_cons_of_mem f hg))
        refine ⟨?_, by omega⟩
        rw [this.1]
        exact slice_splice_disjoint line _ f.start f.stop a b ' ' hs hv hb (hd f List.mem_cons_self)

/-- pairwise disjoint layout -/
def Disjoint : List Field → Prop
  | [] => True
  | f :: fs => disjointFrom f fs ∧ Disjoint fs

/-- **Layout theorem**: for any positional layout of pairwise disjoint fields (in
any order, with gaps), after `Line.write` every field's span holds exactly that
field's rendering. -/
theorem writeFields_spans (fs : List Field) (vs : List Val) (rs : List (List Char))
    (hlen : fs.length = vs.length)
    (hr : All2 (fun (fv : Field × Val) r => rendersTo fv.1 fv.2 r) (fs.zip vs) rs)
    (hdis : Disjoint fs) (line out : List Char) (hw : writeFields fs vs line = .ok out) :
    All2 (fun (f : Field) r => slice out f.start f.stop = r) fs rs := by
  induction fs generalizing vs rs line with
  | nil =>
    cases hr with
    | nil => exact .nil
  | cons f fs ih =>
    cases vs with
    | nil => simp at hlen
    | cons v vs =>
      simp only [List.zip_cons_cons] at hr
      cases hr with
      | @cons _ r _ rs' h1 hrest =>
        obtain ⟨hrend, hrl, hgeo⟩ := h1
        dsimp only at hrend hrl hgeo
        have hw0 := hw
        simp only [writeFields, Field.writeText, hrend, Except.map, bind, Except.bind] at hw
        have hs : f.start ≤ f.stop := by omega
        have hv : r.length = f.stop - f.start := by rw [hrl]; omega
        have hlen' := length_splice (line := line) (b := ' ') hs hv
        refine .cons ?_ (ih vs _ (by simpa using hlen) hrest hdis.2 _ hw)
        -- the first field's own span survives the remaining writes
        have hpres := writeFields_preserves fs vs _ (by simpa using hlen) hrest _ out hw f.start f.stop
          (by rw [hlen']; omega)
          (fun g hg => by
            rcases hdis.1 g hg with h | h
            · exact Or.inl h
            · exact Or.inr h)
        rw [hpres.1]
        exact slice_splice hs hv

end Cfi
