import Proofs.DateLaw
import Spec.C01
/-!
`strptime(strftime(t, fmt), fmt) = truncDate fmt t`.  Part 4: from the captures
to the `datetime`, and the law itself.
-/
namespace Cfi.Date
open Cfi.Text Cfi.PyInt Spec.C01

def hasDirI (items : List Item) (c : Char) : Bool :=
  items.any fun | .dir d => d == c | _ => false

theorem hasDir_eq (fmt : List Char) (items : List Item) (h : parseFmt (fmt.length + 1) fmt = some items)
    (c : Char) : hasDir fmt c = hasDirI items c := by
  simp only [hasDir, h, hasDirI]
  congr 1

/-- looking a directive up in the captures of an emitted text -/
theorem get_caps (t : DT) (items : List Item) (hd : ∀ d, Item.dir d ∈ items → (dirPiece d t).isSome = true)
    (c : Char) :
    ((capsOf t items).find? (fun x => x.1 == c)).map (·.2) =
      if hasDirI items c then dirPiece c t else none := by
  induction items with
  | nil => rfl
  | cons it is ih =>
    have ih' := ih (fun d hd' => hd d (by simp [hd']))
    cases it with
    | lit x => simpa [capsOf, hasDirI] using ih'
    | ws => simpa [capsOf, hasDirI] using ih'
    | dir d =>
      obtain ⟨q, hq⟩ := Option.isSome_iff_exists.mp (hd d (by simp))
      simp only [capsOf, hq, List.singleton_append, List.find?_cons]
      by_cases hdc : d = c
      · subst hdc
        simp [hasDirI, hq]
      · have : (d == c) = false := by simpa using hdc
        simp only [this, Bool.false_eq_true, if_false]
        rw [ih']
        simp [hasDirI, this]

/-! numbers -/

theorem numOf_digits_aux (l : List Char) (h : ∀ c ∈ l, c.isDigit = true) (a : Nat) :
    l.foldl (fun a c => 10 * a + (digitVal c).getD 0) a =
      (l.map (fun c => c.toNat - 48)).foldl (fun a d => 10 * a + d) a := by
  induction l generalizing a with
  | nil => rfl
  | cons c l ih =>
    simp only [List.foldl_cons, List.map_cons, digitVal_ascii (h c (by simp)), Option.getD_some]
    exact ih (fun x hx => h x (by simp [hx])) _

theorem numOf_natDigits (n : Nat) : numOf (natDigits n) = n := by
  unfold numOf
  rw [numOf_digits_aux _ (natDigits_isDigit n)]
  have := ofDigits_map (natDigits n)
  unfold ofDigits at this
  rw [this]
  exact Nat.ofDigitChars_ten_toDigits

theorem numOf_pad (w n : Nat) : numOf (pad w n) = n := by
  have key : ∀ k (l : List Char), numOf (List.replicate k '0' ++ l) = numOf l := by
    intro k l
    induction k with
    | zero => rfl
    | succ k ih =>
      have hz : digitVal '0' = some 0 := by
        have := digitVal_ascii (c := '0') (by decide)
        simpa using this
      simp only [numOf, List.replicate_succ, List.cons_append, List.foldl_cons, hz, Option.getD_some] at ih ⊢
      exact ih
  simp only [pad]
  rw [key, numOf_natDigits]

theorem filter_pad (w n : Nat) : (pad w n).filter (· != ' ') = pad w n := by
  apply List.filter_eq_self.mpr
  intro c hc
  have := (isDigit_iff c).1 (pad_digits w n c hc)
  have : c ≠ ' ' := by intro e; subst e; simp at this
  simpa using this

theorem dim_le (y m : Nat) : dim y m ≤ 31 := by
  unfold dim; repeat' split
  all_goals omega

end Cfi.Date

namespace Cfi.Date
open Cfi.Text Cfi.PyInt Spec.C01

theorem emits_dirs (t : DT) (items : List Item) (p : List Char) (h : Emits t items p) :
    ∀ d, Item.dir d ∈ items → (dirPiece d t).isSome = true := by
  induction h with
  | nil => intro d hd; simp at hd
  | lit c is p _ _ ih => intro d hd; exact ih d (by simpa using hd)
  | ws run is p _ _ _ _ ih => intro d hd; exact ih d (by simpa using hd)
  | dir c q is p hq _ ih =>
    intro d hd
    rcases List.mem_cons.mp hd with h | h
    · injection h with h; subst h; simp [hq]
    · exact ih d h

theorem mem_of_hasDirI (items : List Item) (c : Char) : hasDirI items c = true ↔ Item.dir c ∈ items := by
  simp only [hasDirI, List.any_eq_true]
  constructor
  · rintro ⟨x, hx, h⟩
    cases x with
    | dir d => simp at h; subst h; exact hx
    | lit _ => simp at h
    | ws => simp at h
  · intro h; exact ⟨_, h, by simp⟩

/-- how `strptime` assembles the `datetime` from the captures -/
def assemble (get : Char → Option (List Char)) : DT :=
  let y := match get 'Y' with
    | some v => numOf v
    | none => match get 'y' with
      | some v => let n := numOf v; if n ≤ 68 then 2000 + n else 1900 + n
      | none => 1900
  let mo := ((get 'm').map numOf).getD 1
  let d := ((get 'd').map fun v => numOf (v.filter (· != ' '))).getD 1
  let h := ((get 'H').map numOf).getD 0
  let mi := ((get 'M').map numOf).getD 0
  let s := ((get 'S').map numOf).getD 0
  let us := ((get 'f').map fun v => numOf v * 10 ^ (6 - v.length)).getD 0
  ⟨y, mo, d, h, mi, s, us⟩

theorem strptime_eq (fmt data : List Char) :
    strptime fmt data =
      (parseFmt (fmt.length + 1) fmt).bind fun items =>
        (matchItems items data).bind fun cr =>
          if !cr.2.isEmpty then none
          else
            let t := assemble (fun c => (cr.1.find? (·.1 == c)).map (·.2))
            if t.valid then some t else none := by
  unfold strptime assemble
  cases parseFmt (fmt.length + 1) fmt with
  | none => rfl
  | some items =>
    simp only [bind, Option.bind]
    cases matchItems items data with
    | none => rfl
    | some cr => obtain ⟨caps, rest⟩ := cr; rfl

theorem assemble_emitted (fmt : List Char) (t : DT) (items : List Item)
    (hD : ∀ c, hasDir fmt c = hasDirI items c) (hf : hasDirI items 'f' = true → t.us ≤ 999999) :
    assemble (fun c => if hasDirI items c then dirPiece c t else none) = truncDate fmt t := by
  simp only [assemble, truncDate, hD, DT.mk.injEq]
  refine ⟨?_, ?_, ?_, ?_, ?_, ?_, ?_⟩
  · by_cases hY : hasDirI items 'Y' = true
    · simp [hY, dirPiece, numOf_natDigits]
    · by_cases hyy : hasDirI items 'y' = true
      · simp [hY, hyy, dirPiece, numOf_pad]
      · simp [hY, hyy]
  · by_cases h : hasDirI items 'm' = true <;> simp [h, dirPiece, numOf_pad]
  · by_cases h : hasDirI items 'd' = true <;> simp [h, dirPiece, numOf_pad, filter_pad]
  · by_cases h : hasDirI items 'H' = true <;> simp [h, dirPiece, numOf_pad]
  · by_cases h : hasDirI items 'M' = true <;> simp [h, dirPiece, numOf_pad]
  · by_cases h : hasDirI items 'S' = true <;> simp [h, dirPiece, numOf_pad]
  · by_cases h : hasDirI items 'f' = true
    · simp [h, dirPiece, numOf_pad, pad6_length t.us (hf h)]
    · simp [h]

/-- **The date law**: for every format of the modelled directive set and every
`datetime` whose truncation to that format is a valid date from year 1000 on,
`strftime` succeeds and `strptime` of its output — with all its ordered
alternatives and backtracking — returns exactly the truncation. -/
theorem strptime_strftime (fmt : List Char) (t : DT) (items : List Item)
    (hparse : parseFmt (fmt.length + 1) fmt = some items)
    (hv : (truncDate fmt t).valid = true) (hy : 1000 ≤ (truncDate fmt t).y) :
    ∃ p, strftime (fmt.length + 1) fmt t = some p ∧ strptime fmt p = some (truncDate fmt t) ∧
      Emits t items p := by
  obtain ⟨p, h1, h2, _⟩ := emits_of_parse t _ fmt items hparse
  have hdirs := emits_dirs t items p h2
  have hD : ∀ c, hasDir fmt c = hasDirI items c := hasDir_eq fmt items hparse
  have hvalid := hv
  -- ranges of the printed components
  simp only [DT.valid, Bool.and_eq_true, decide_eq_true_eq] at hv
  obtain ⟨⟨⟨⟨⟨⟨⟨⟨⟨v1, v2⟩, v3⟩, v4⟩, v5⟩, v6⟩, v7⟩, v8⟩, v9⟩, v10⟩ := hv
  have hr : ∀ c, Item.dir c ∈ items → InRange c t := by
    intro c hc
    have hc' : hasDir fmt c = true := by rw [hD, mem_of_hasDirI]; exact hc
    refine ⟨?_, ?_, ?_, ?_, ?_, ?_, ?_⟩ <;> intro e <;> subst e
    · simp only [truncDate, hc', if_true] at v1 v2 hy; exact ⟨hy, v2⟩
    · simp only [truncDate, hc', if_true] at v3 v4; exact ⟨v3, v4⟩
    · simp only [truncDate, hc', if_true] at v5 v6
      exact ⟨v5, Nat.le_trans v6 (dim_le _ _)⟩
    · simp only [truncDate, hc', if_true] at v7; exact v7
    · simp only [truncDate, hc', if_true] at v8; exact v8
    · simp only [truncDate, hc', if_true] at v9; exact v9
    · simp only [truncDate, hc', if_true] at v10; exact v10
  have hm := match_emitted t items p h2 hr
  refine ⟨p, h1 _ (by omega), ?_, h2⟩
  have hg := get_caps t items hdirs
  have hf : hasDirI items 'f' = true → t.us ≤ 999999 := by
    intro h
    have : hasDir fmt 'f' = true := by rw [hD]; exact h
    simp only [truncDate, this, if_true] at v10; exact v10
  rw [strptime_eq, hparse, Option.bind_some, hm, Option.bind_some]
  simp only [List.isEmpty_nil, Bool.not_true, Bool.false_eq_true, if_false, hg]
  rw [assemble_emitted fmt t items hD hf]
  simp [hvalid]

end Cfi.Date

namespace Cfi.Date
open Cfi.Text Cfi.PyInt Spec.C01

/-- `strftime` depends on the `datetime` only through the pieces of the directives
the format contains -/
theorem strftime_congr (t1 t2 : DT) : ∀ (n : Nat) (fmt : List Char) (items : List Item),
    parseFmt n fmt = some items → (∀ c, Item.dir c ∈ items → dirPiece c t1 = dirPiece c t2) →
    ∀ m, fmt.length < m → strftime m fmt t1 = strftime m fmt t2 := by
  intro n
  induction n with
  | zero => intro fmt items h; simp [parseFmt] at h
  | succ n ih =>
    intro fmt items h hd m hm
    cases m with
    | zero => omega
    | succ m =>
    cases fmt with
    | nil => simp [strftime]
    | cons c r =>
      by_cases hc : c = '%'
      · subst hc
        cases r with
        | nil => simp [parseFmt] at h
        | cons c2 r =>
          by_cases hc2 : c2 = '%'
          · subst hc2
            rw [parseFmt_pct] at h
            cases hp : parseFmt n r with
            | none => simp [hp] at h
            | some items' =>
              simp only [hp, Option.map_some, Option.some.injEq] at h
              subst h
              rw [strftime_pct, strftime_pct,
                ih r items' hp (fun c hc => hd c (by simp [hc])) m (by simp at hm; omega)]
          · rw [parseFmt_dir n c2 r hc2] at h
            by_cases ha : (alts c2).isSome = true
            · simp only [ha, if_true] at h
              cases hp : parseFmt n r with
              | none => simp [hp] at h
              | some items' =>
                simp only [hp, Option.map_some, Option.some.injEq] at h
                subst h
                have hd1 : (dirPiece c2 t1).isSome = true := by
                  rw [dirPiece_isSome_iff, ← alts_isSome_iff]; exact ha
                obtain ⟨q, hq⟩ := Option.isSome_iff_exists.mp hd1
                have hq2 : dirPiece c2 t2 = some q := by rw [← hd c2 (by simp)]; exact hq
                rw [strftime_dir t1 m c2 q r hq, strftime_dir t2 m c2 q r hq2,
                  ih r items' hp (fun c hc => hd c (by simp [hc])) m (by simp at hm; omega)]
            · simp [ha] at h
      · rw [parseFmt_lit n c r hc] at h
        by_cases hw : isStripWs c = true
        · simp only [hw, if_true] at h
          cases hp : parseFmt n (r.dropWhile isStripWs) with
          | none => simp [hp] at h
          | some items' =>
            simp only [hp, Option.map_some, Option.some.injEq] at h
            subst h
            have hrun : ∀ x ∈ c :: r.takeWhile isStripWs, isStripWs x = true := by
              intro x hx
              rcases List.mem_cons.mp hx with rfl | hx
              · exact hw
              · exact mem_takeWhile_true hx
            have hsplit : c :: r = (c :: r.takeWhile isStripWs) ++ r.dropWhile isStripWs := by
              simp [List.takeWhile_append_dropWhile]
            have hlen : (c :: r).length = (c :: r.takeWhile isStripWs).length + (r.dropWhile isStripWs).length := by
              rw [← List.length_append, ← hsplit]
            rw [hsplit, strftime_ws_run t1 _ _ hrun (m + 1) (by rw [← hsplit]; exact hm),
              strftime_ws_run t2 _ _ hrun (m + 1) (by rw [← hsplit]; exact hm),
              ih _ items' hp (fun c hc => hd c (by simp [hc])) _ (by omega)]
        · have hw' : isStripWs c = false := by simpa using hw
          simp only [hw', Bool.false_eq_true, if_false] at h
          cases hp : parseFmt n r with
          | none => simp [hp] at h
          | some items' =>
            simp only [hp, Option.map_some, Option.some.injEq] at h
            subst h
            rw [strftime_lit t1 m c r hc, strftime_lit t2 m c r hc,
              ih r items' hp (fun c hc => hd c (by simp [hc])) m (by simp at hm; omega)]

/-- the pieces of the directives a format contains survive the truncation to that format -/
theorem dirPiece_trunc (fmt : List Char) (t : DT) (c : Char) (h : hasDir fmt c = true) :
    dirPiece c (truncDate fmt t) = dirPiece c t := by
  unfold dirPiece
  repeat' split
  all_goals subst_vars
  all_goals first
    | rfl
    | (simp only [truncDate, h, if_true])
  -- `%y`: the two digits of the year survive the pivot
  congr 2
  split
  · rfl
  · split <;> omega

/-- **Date stability**: writing the truncated date gives the same text -/
theorem strftime_trunc (fmt : List Char) (t : DT) (items : List Item)
    (hparse : parseFmt (fmt.length + 1) fmt = some items) :
    strftime (fmt.length + 1) fmt (truncDate fmt t) = strftime (fmt.length + 1) fmt t := by
  apply strftime_congr _ _ _ fmt items hparse _ _ (by omega)
  intro c hc
  apply dirPiece_trunc
  rw [hasDir_eq fmt items hparse, mem_of_hasDirI]; exact hc

end Cfi.Date

namespace Cfi.Date
open Cfi.Text Cfi.PyInt Spec.C01

/-! ### the ends of the emitted text -/

theorem emits_nil (t : DT) (items : List Item) (h : Emits t items []) : items = [] := by
  generalize hp : ([] : List Char) = p at h
  cases h with
  | nil => rfl
  | lit c is p' _ _ => simp at hp
  | ws run is p' hne _ _ _ => simp at hp; exact absurd hp.1 hne
  | dir c q is p' hq _ =>
    simp at hp
    exact absurd hp.1 (dirPiece_digits c t q hq).1

theorem getLast?_append_of_ne_nil (a b : List Char) (h : b ≠ []) : (a ++ b).getLast? = b.getLast? := by
  rw [List.getLast?_append]
  cases hb : b.getLast? with
  | none => simp at hb; exact absurd hb h
  | some x => simp

/-- if the emitted text ends in white space, the last item is a white-space item -/
theorem emits_last (t : DT) (items : List Item) (p : List Char) (h : Emits t items p) :
    ∀ y, p.getLast? = some y → isStripWs y = true → items.getLast? = some .ws := by
  induction h with
  | nil => intro y hy; simp at hy
  | lit c is p' hc hE ih =>
    intro y hy hw
    by_cases hp : p' = []
    · subst hp; simp at hy; subst hy; rw [hc] at hw; exact absurd hw (by simp)
    · have hne : is ≠ [] := fun e => hp (by subst e; cases hE; rfl)
      rw [List.getLast?_cons_of_ne_nil hp] at hy
      rw [List.getLast?_cons_of_ne_nil hne]
      exact ih y hy hw
  | ws run is p' hne hrun _ hE ih =>
    intro y hy hw
    by_cases hp : p' = []
    · subst hp
      rw [emits_nil t is hE]; rfl
    · have hne' : is ≠ [] := fun e => hp (by subst e; cases hE; rfl)
      rw [getLast?_append_of_ne_nil _ _ hp] at hy
      rw [List.getLast?_cons_of_ne_nil hne']
      exact ih y hy hw
  | dir c q is p' hq hE ih =>
    intro y hy hw
    by_cases hp : p' = []
    · subst hp
      simp only [List.append_nil] at hy
      have := (dirPiece_digits c t q hq).2 y (List.mem_of_getLast? hy)
      rw [isStripWs_of_isDigit this] at hw; exact absurd hw (by simp)
    · have hne' : is ≠ [] := fun e => hp (by subst e; cases hE; rfl)
      rw [getLast?_append_of_ne_nil _ _ hp] at hy
      rw [List.getLast?_cons_of_ne_nil hne']
      exact ih y hy hw

theorem parse_nil : ∀ (n : Nat) (fmt : List Char), parseFmt n fmt = some [] → fmt = [] := by
  intro n fmt h
  cases n with
  | zero => simp [parseFmt] at h
  | succ n =>
    cases fmt with
    | nil => rfl
    | cons c r =>
      exfalso
      by_cases hc : c = '%'
      · subst hc
        cases r with
        | nil => simp [parseFmt] at h
        | cons c2 r =>
          by_cases hc2 : c2 = '%'
          · subst hc2; rw [parseFmt_pct] at h; cases parseFmt n r <;> simp at h
          · rw [parseFmt_dir n c2 r hc2] at h
            split at h
            · cases parseFmt n r <;> simp at h
            · simp at h
      · rw [parseFmt_lit n c r hc] at h
        split at h
        · cases parseFmt n (r.dropWhile isStripWs) <;> simp at h
        · cases parseFmt n r <;> simp at h

theorem dropWhile_nil_all {p : Char → Bool} {l : List Char} (h : l.dropWhile p = []) : ∀ x ∈ l, p x = true := by
  induction l with
  | nil => intro x hx; simp at hx
  | cons a l ih =>
    simp only [List.dropWhile_cons] at h
    split at h
    · intro x hx
      rcases List.mem_cons.mp hx with rfl | hx
      · assumption
      · exact ih h x hx
    · simp at h

theorem getLast?_dropWhile' {p : Char → Bool} (l : List Char) (x : Char)
    (h : (l.dropWhile p).getLast? = some x) : l.getLast? = some x := by
  induction l with
  | nil => simp at h
  | cons a l ih =>
    simp only [List.dropWhile_cons] at h
    split at h
    · have hl := ih h
      have : l ≠ [] := by intro e; subst e; simp at hl
      rw [List.getLast?_cons_of_ne_nil this]; exact hl
    · exact h

/-- a parsed format whose last item is a white-space item ends in white space -/
theorem parse_last_ws : ∀ (n : Nat) (fmt : List Char) (items : List Item), parseFmt n fmt = some items →
    items.getLast? = some .ws → ∃ x, fmt.getLast? = some x ∧ isStripWs x = true := by
  intro n
  induction n with
  | zero => intro fmt items h; simp [parseFmt] at h
  | succ n ih =>
    intro fmt items h hl
    cases fmt with
    | nil => simp only [parseFmt] at h; injection h with h; subst h; simp at hl
    | cons c r =>
      by_cases hc : c = '%'
      · subst hc
        cases r with
        | nil => simp [parseFmt] at h
        | cons c2 r =>
          have key : ∀ (it : Item) (items' : List Item), it ≠ .ws → parseFmt n r = some items' →
              (it :: items').getLast? = some .ws → ∃ x, ('%' :: c2 :: r).getLast? = some x ∧ isStripWs x = true := by
            intro it items' hit hp hl
            by_cases he : items' = []
            · subst he; simp at hl; exact absurd hl hit
            · rw [List.getLast?_cons_of_ne_nil he] at hl
              obtain ⟨x, hx, hw⟩ := ih r items' hp hl
              have hr : r ≠ [] := by intro e; subst e; simp at hx
              refine ⟨x, ?_, hw⟩
              rw [List.getLast?_cons_of_ne_nil (by simp), List.getLast?_cons_of_ne_nil hr]; exact hx
          by_cases hc2 : c2 = '%'
          · subst hc2
            rw [parseFmt_pct] at h
            cases hp : parseFmt n r with
            | none => simp [hp] at h
            | some items' =>
              simp only [hp, Option.map_some, Option.some.injEq] at h
              subst h
              exact key _ _ (by simp) hp hl
          · rw [parseFmt_dir n c2 r hc2] at h
            split at h
            · cases hp : parseFmt n r with
              | none => simp [hp] at h
              | some items' =>
                simp only [hp, Option.map_some, Option.some.injEq] at h
                subst h
                exact key _ _ (by simp) hp hl
            · simp at h
      · rw [parseFmt_lit n c r hc] at h
        by_cases hw : isStripWs c = true
        · simp only [hw, if_true] at h
          cases hp : parseFmt n (r.dropWhile isStripWs) with
          | none => simp [hp] at h
          | some items' =>
            simp only [hp, Option.map_some, Option.some.injEq] at h
            subst h
            by_cases he : items' = []
            · subst he
              have hnil := parse_nil n _ hp
              -- the whole rest is white space
              by_cases hr : r = []
              · subst hr; exact ⟨c, rfl, hw⟩
              · obtain ⟨x, hx⟩ : ∃ x, r.getLast? = some x := by
                  cases hg : r.getLast? with
                  | none => simp at hg; exact absurd hg hr
                  | some x => exact ⟨x, rfl⟩
                refine ⟨x, by rw [List.getLast?_cons_of_ne_nil hr]; exact hx, ?_⟩
                exact dropWhile_nil_all hnil x (List.mem_of_getLast? hx)
            · rw [List.getLast?_cons_of_ne_nil he] at hl
              obtain ⟨x, hx, hxw⟩ := ih _ items' hp hl
              have hx' := getLast?_dropWhile' r x hx
              have hr : r ≠ [] := by intro e; subst e; simp at hx'
              exact ⟨x, by rw [List.getLast?_cons_of_ne_nil hr]; exact hx', hxw⟩
        · have hw' : isStripWs c = false := by simpa using hw
          simp only [hw', Bool.false_eq_true, if_false] at h
          cases hp : parseFmt n r with
          | none => simp [hp] at h
          | some items' =>
            simp only [hp, Option.map_some, Option.some.injEq] at h
            subst h
            by_cases he : items' = []
            · subst he; simp at hl
            · rw [List.getLast?_cons_of_ne_nil he] at hl
              obtain ⟨x, hx, hxw⟩ := ih r items' hp hl
              have hr : r ≠ [] := by intro e; subst e; simp at hx
              exact ⟨x, by rw [List.getLast?_cons_of_ne_nil hr]; exact hx, hxw⟩

end Cfi.Date

namespace Cfi.Date
open Cfi.Text Cfi.PyInt Spec.C01

/-! ### the empty string is not a date -/

theorem alts_nonempty (c : Char) (as : List Alt) (h : alts c = some as) : ∀ a ∈ as, a ≠ [] := by
  unfold alts at h
  split at h
  all_goals first
    | (injection h with h; subst h; decide)
    | cases h

theorem matchItems_nil (it : Item) (is : List Item) : matchItems (it :: is) [] = none := by
  cases it with
  | lit c => rfl
  | ws => simp [matchItems]
  | dir c =>
    simp only [matchItems]
    cases ha : alts c with
    | none => rfl
    | some as =>
      have hne := alts_nonempty c as ha
      simp only []
      rw [List.findSome?_eq_none_iff]
      intro a hma
      have : matchAlt a [] = none := by
        cases a with
        | nil => exact absurd rfl (hne _ hma)
        | cons _ _ => rfl
      simp [this]

/-- a non-empty format never matches the empty string -/
theorem strptime_nil (fmt : List Char) (h : fmt ≠ []) : strptime fmt [] = none := by
  rw [strptime_eq]
  cases hp : parseFmt (fmt.length + 1) fmt with
  | none => rfl
  | some items =>
    cases items with
    | nil => exact absurd (parse_nil _ fmt hp) h
    | cons it is => simp [matchItems_nil]

end Cfi.Date
