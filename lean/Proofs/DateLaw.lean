import Cfi.Date
import Proofs.IntLaw
/-!
`strptime(strftime(t, fmt), fmt)`: what a date reads back to after being
written with its own format.  Part 1: what `strftime` emits, item by item.
-/
namespace Cfi.Date
open Cfi.Text Cfi.PyInt

/-- what `strftime` emits for one directive of the modelled set -/
def dirPiece (c : Char) (t : DT) : Option (List Char) :=
  if c = 'Y' then some (natDigits t.y)
  else if c = 'm' then some (pad 2 t.mo)
  else if c = 'd' then some (pad 2 t.d)
  else if c = 'H' then some (pad 2 t.h)
  else if c = 'M' then some (pad 2 t.mi)
  else if c = 'S' then some (pad 2 t.s)
  else if c = 'y' then some (pad 2 (t.y % 100))
  else if c = 'f' then some (pad 6 t.us)
  else none

def isDir (c : Char) : Bool :=
  c = 'Y' || c = 'm' || c = 'd' || c = 'H' || c = 'M' || c = 'S' || c = 'y' || c = 'f'

theorem alts_isSome_iff (c : Char) : (alts c).isSome = isDir c := by
  unfold alts isDir
  split <;> simp_all

theorem dirPiece_isSome_iff (c : Char) (t : DT) : (dirPiece c t).isSome = isDir c := by
  unfold dirPiece isDir
  repeat' split
  all_goals simp_all

/-- the emission of a parsed format: literals as they are, every white-space
item as a non-empty run of white space followed by something that is not white
space, every directive as its piece -/
inductive Emits (t : DT) : List Item → List Char → Prop where
  | nil : Emits t [] []
  | lit (c : Char) (is : List Item) (p : List Char) : isStripWs c = false → Emits t is p →
      Emits t (.lit c :: is) (c :: p)
  | ws (run : List Char) (is : List Item) (p : List Char) : run ≠ [] → (∀ c ∈ run, isStripWs c = true) →
      (∀ x, p.head? = some x → isStripWs x = false) → Emits t is p → Emits t (.ws :: is) (run ++ p)
  | dir (c : Char) (q : List Char) (is : List Item) (p : List Char) : dirPiece c t = some q →
      Emits t is p → Emits t (.dir c :: is) (q ++ p)

end Cfi.Date

namespace Cfi.Date
open Cfi.Text Cfi.PyInt

theorem isStripWs_percent : isStripWs '%' = false := by decide

theorem stripWs_not_digit' : ∀ n : Nat, n ≤ 57 → 45 ≤ n → Cfi.Generated.stripWs.contains n = false := by decide

theorem isStripWs_of_isDigit {c : Char} (h : c.isDigit = true) : isStripWs c = false := by
  have := (isDigit_iff c).1 h
  exact stripWs_not_digit' c.toNat this.2 (by omega)

theorem pad_digits (w n : Nat) : ∀ c ∈ pad w n, c.isDigit = true := by
  intro c hc
  simp only [pad, List.mem_append, List.mem_replicate] at hc
  rcases hc with hc | hc
  · rw [hc.2]; decide
  · exact natDigits_isDigit n c hc

theorem pad_ne_nil (w n : Nat) : pad w n ≠ [] := by
  simp [pad, natDigits]

theorem dirPiece_digits (c : Char) (t : DT) (q : List Char) (h : dirPiece c t = some q) :
    q ≠ [] ∧ ∀ x ∈ q, x.isDigit = true := by
  unfold dirPiece at h
  repeat' split at h
  all_goals first
    | (injection h with h; subst h; exact ⟨by simp [natDigits], natDigits_isDigit _⟩)
    | (injection h with h; subst h; exact ⟨pad_ne_nil _ _, pad_digits _ _⟩)
    | exact absurd h (by simp)

theorem strftime_lit (t : DT) (m : Nat) (c : Char) (r : List Char) (hc : c ≠ '%') :
    strftime (m + 1) (c :: r) t = (strftime m r t).map (c :: ·) := by
  simp [strftime, hc]

theorem strftime_pct (t : DT) (m : Nat) (r : List Char) :
    strftime (m + 1) ('%' :: '%' :: r) t = (strftime m r t).map ('%' :: ·) := by
  simp only [strftime]
  cases strftime m r t <;> rfl

theorem strftime_dir (t : DT) (m : Nat) (c : Char) (q r : List Char) (h : dirPiece c t = some q) :
    strftime (m + 1) ('%' :: c :: r) t = (strftime m r t).map (q ++ ·) := by
  unfold dirPiece at h
  repeat' split at h
  all_goals first
    | (injection h with h; subst h; subst_vars; simp only [strftime]; cases strftime m r t <;> rfl)
    | exact absurd h (by simp)

/-- `strftime` copies a run of white space -/
theorem strftime_ws_run (t : DT) (run r : List Char) (hrun : ∀ c ∈ run, isStripWs c = true) (m : Nat)
    (hm : (run ++ r).length < m) :
    strftime m (run ++ r) t = (strftime (m - run.length) r t).map (run ++ ·) := by
  induction run generalizing m with
  | nil => simp
  | cons c run ih =>
    cases m with
    | zero => simp at hm
    | succ m =>
      have hc : c ≠ '%' := by
        intro e; subst e
        have := hrun '%' (by simp)
        rw [isStripWs_percent] at this; exact absurd this (by simp)
      simp only [List.cons_append, strftime_lit t m c _ hc]
      rw [ih (fun x hx => hrun x (by simp [hx])) m (by simpa using hm)]
      simp only [List.length_cons, Nat.add_sub_add_right, Option.map_map]
      congr 1

/-! ### Part 2: a parsed format and what `strftime` emits for it -/

theorem parseFmt_lit (f : Nat) (c : Char) (r : List Char) (hc : c ≠ '%') :
    parseFmt (f + 1) (c :: r) =
      if isStripWs c then (parseFmt f (r.dropWhile isStripWs)).map (Item.ws :: ·)
      else (parseFmt f r).map (Item.lit c :: ·) := by
  simp [parseFmt, hc]

theorem parseFmt_pct (f : Nat) (r : List Char) :
    parseFmt (f + 1) ('%' :: '%' :: r) = (parseFmt f r).map (Item.lit '%' :: ·) := by
  simp [parseFmt]

theorem parseFmt_dir (f : Nat) (c : Char) (r : List Char) (hc : c ≠ '%') :
    parseFmt (f + 1) ('%' :: c :: r) =
      if (alts c).isSome then (parseFmt f r).map (Item.dir c :: ·) else none := by
  simp [parseFmt, hc]

theorem mem_takeWhile_true {p : Char → Bool} {l : List Char} {x : Char} (h : x ∈ l.takeWhile p) : p x = true := by
  induction l with
  | nil => simp at h
  | cons a l ih =>
    simp only [List.takeWhile_cons] at h
    split at h
    · rcases List.mem_cons.mp h with rfl | h
      · assumption
      · exact ih h
    · simp at h

theorem head_takeWhile_dropWhile (r : List Char) :
    r = r.takeWhile isStripWs ++ r.dropWhile isStripWs := (List.takeWhile_append_dropWhile).symm

/-- **Lemma A**: for every format inside the modelled set, `strftime` succeeds (with
any sufficient fuel) and emits the parsed items one after the other. -/
theorem emits_of_parse (t : DT) : ∀ (n : Nat) (fmt : List Char) (items : List Item),
    parseFmt n fmt = some items →
    ∃ p, (∀ m, fmt.length < m → strftime m fmt t = some p) ∧ Emits t items p ∧
      (∀ x, fmt.head? = some x → isStripWs x = false → ∀ y, p.head? = some y → isStripWs y = false) := by
  intro n
  induction n with
  | zero => intro fmt items h; simp [parseFmt] at h
  | succ n ih =>
    intro fmt items h
    cases fmt with
    | nil =>
      simp only [parseFmt] at h
      injection h with h; subst h
      refine ⟨[], ?_, .nil, by simp⟩
      intro m hm
      cases m with
      | zero => simp at hm
      | succ m => simp [strftime]
    | cons c r =>
      by_cases hc : c = '%'
      · subst hc
        cases r with
        | nil => simp [parseFmt] at h
        | cons c2 r =>
          by_cases hc2 : c2 = '%'
          · subst hc2
            rw [parseFmt_pct] at h
            cases hp : parseFmt n r with
            | none => simp [hp] at h
            | some items' =>
              simp only [hp, Option.map_some, Option.some.injEq] at h
              subst h
              obtain ⟨p, h1, h2, _⟩ := ih r items' hp
              refine ⟨'%' :: p, ?_, .lit '%' _ _ isStripWs_percent h2, ?_⟩
              · intro m hm
                cases m with
                | zero => simp at hm
                | succ m =>
                  rw [strftime_pct, h1 m (by simp at hm; omega)]; rfl
              · intro x _ _ y hy
                simp at hy; subst hy; exact isStripWs_percent
          · rw [parseFmt_dir n c2 r hc2] at h
            by_cases ha : (alts c2).isSome = true
            · simp only [ha, if_true] at h
              cases hp : parseFmt n r with
              | none => simp [hp] at h
              | some items' =>
                simp only [hp, Option.map_some, Option.some.injEq] at h
                subst h
                obtain ⟨p, h1, h2, _⟩ := ih r items' hp
                have hd : (dirPiece c2 t).isSome = true := by
                  rw [dirPiece_isSome_iff, ← alts_isSome_iff]; exact ha
                obtain ⟨q, hq⟩ := Option.isSome_iff_exists.mp hd
                refine ⟨q ++ p, ?_, .dir c2 q _ _ hq h2, ?_⟩
                · intro m hm
                  cases m with
                  | zero => simp at hm
                  | succ m =>
                    rw [strftime_dir t m c2 q r hq, h1 m (by simp at hm; omega)]; rfl
                · intro x _ _ y hy
                  obtain ⟨hne, hdig⟩ := dirPiece_digits c2 t q hq
                  cases q with
                  | nil => exact absurd rfl hne
                  | cons q0 qs =>
                    simp at hy; subst hy
                    exact isStripWs_of_isDigit (hdig _ (by simp))
            · simp [ha] at h
      · rw [parseFmt_lit n c r hc] at h
        by_cases hw : isStripWs c = true
        · simp only [hw, if_true] at h
          cases hp : parseFmt n (r.dropWhile isStripWs) with
          | none => simp [hp] at h
          | some items' =>
            simp only [hp, Option.map_some, Option.some.injEq] at h
            subst h
            obtain ⟨p, h1, h2, h3⟩ := ih _ items' hp
            have hrun : ∀ x ∈ c :: r.takeWhile isStripWs, isStripWs x = true := by
              intro x hx
              rcases List.mem_cons.mp hx with rfl | hx
              · exact hw
              · exact mem_takeWhile_true hx
            have hp_head : ∀ y, p.head? = some y → isStripWs y = false := by
              intro y hy
              cases hd : (r.dropWhile isStripWs).head? with
              | none =>
                -- the rest of the format is empty: nothing is emitted
                have : r.dropWhile isStripWs = [] := by simpa using hd
                rw [this] at hp
                cases n with
                | zero => simp [parseFmt] at hp
                | succ n =>
                  simp only [parseFmt] at hp
                  injection hp with hp; subst hp
                  cases h2
                  simp at hy
              | some x =>
                have hx := List.head?_dropWhile_not isStripWs r
                rw [hd] at hx
                exact h3 x hd (by simpa using hx) y hy
            refine ⟨(c :: r.takeWhile isStripWs) ++ p, ?_, .ws _ _ _ (by simp) hrun hp_head h2, ?_⟩
            · intro m hm
              have hsplit : c :: r = (c :: r.takeWhile isStripWs) ++ r.dropWhile isStripWs := by
                simp [List.takeWhile_append_dropWhile]
              rw [hsplit, strftime_ws_run t _ _ hrun m (by rw [← hsplit]; exact hm)]
              rw [h1 _ (by
                have : (c :: r).length = (c :: r.takeWhile isStripWs).length + (r.dropWhile isStripWs).length := by
                  rw [← List.length_append, ← hsplit]
                omega)]
              rfl
            · intro x hx hxw
              simp at hx; subst hx
              rw [hw] at hxw; exact absurd hxw (by simp)
        · have hw' : isStripWs c = false := by simpa using hw
          simp only [hw', Bool.false_eq_true, if_false] at h
          cases hp : parseFmt n r with
          | none => simp [hp] at h
          | some items' =>
            simp only [hp, Option.map_some, Option.some.injEq] at h
            subst h
            obtain ⟨p, h1, h2, _⟩ := ih r items' hp
            refine ⟨c :: p, ?_, .lit c _ _ hw' h2, ?_⟩
            · intro m hm
              cases m with
              | zero => simp at hm
              | succ m => rw [strftime_lit t m c r hc, h1 m (by simp at hm; omega)]; rfl
            · intro x _ _ y hy
              simp at hy; subst hy; exact hw'

/-! ### Part 3: matching what was emitted -/

theorem matchAlt_append (a : Alt) (q p : List Char) (h : a.length ≤ q.length) :
    matchAlt a (q ++ p) = (matchAlt a q).map (fun mr => (mr.1, mr.2 ++ p)) := by
  induction a generalizing q with
  | nil => simp [matchAlt]
  | cons cc a ih =>
    cases q with
    | nil => simp at h
    | cons c q =>
      simp only [List.cons_append, matchAlt]
      split
      · rw [ih q (by simpa using h)]
        cases matchAlt a q <;> simp
      · rfl

theorem matchAlt_spec (a : Alt) (q m r : List Char) (h : matchAlt a q = some (m, r)) :
    m.length = a.length ∧ q = m ++ r := by
  induction a generalizing q m r with
  | nil => simp only [matchAlt] at h; injection h with h; injection h with h1 h2; subst h1; subst h2; simp
  | cons cc a ih =>
    cases q with
    | nil => simp [matchAlt] at h
    | cons c q =>
      simp only [matchAlt] at h
      split at h
      · cases hm : matchAlt a q with
        | none => simp [hm] at h
        | some mr =>
          obtain ⟨m', r'⟩ := mr
          simp only [hm, Option.map_some, Option.some.injEq, Prod.mk.injEq] at h
          obtain ⟨h1, h2⟩ := h
          subst h1; subst h2
          obtain ⟨i1, i2⟩ := ih q m' r' hm
          exact ⟨by simp [i1], by simp [i2]⟩
      · exact absurd h (by simp)

/-- the alternatives of a directive, tried in order on an emitted piece `q` of
full width: none is longer than `q`, and the first one that matches anything
has the width of `q` -/
def altsOK (as : List Alt) (q : List Char) : Bool :=
  as.all (fun a => decide (a.length ≤ q.length)) &&
  match as.find? (fun a => (matchAlt a q).isSome) with
  | some a => a.length == q.length
  | none => false

theorem findSome_alts {β : Type} (as : List Alt) (q p : List Char) (h : altsOK as q = true)
    (K : List Char → List Char → Option β) (res : β) (hK : K q p = some res) :
    as.findSome? (fun a => match matchAlt a (q ++ p) with
      | some (m, r) => K m r
      | none => none) = some res := by
  induction as with
  | nil => simp [altsOK] at h
  | cons a as ih =>
    simp only [altsOK, List.all_cons, Bool.and_eq_true, decide_eq_true_eq, List.find?_cons] at h
    obtain ⟨⟨hle, hall⟩, hfind⟩ := h
    simp only [List.findSome?_cons]
    rw [matchAlt_append a q p hle]
    cases hm : matchAlt a q with
    | none =>
      simp only [Option.map_none]
      simp only [hm, Option.isSome_none, Bool.false_eq_true] at hfind
      apply ih
      simp only [altsOK, Bool.and_eq_true, List.all_eq_true, decide_eq_true_eq]
      exact ⟨by simpa using hall, hfind⟩
    | some mr =>
      obtain ⟨m, r⟩ := mr
      simp only [hm, Option.isSome_some, beq_iff_eq] at hfind
      obtain ⟨h1, h2⟩ := matchAlt_spec a q m r hm
      have hr : r = [] := by
        have := congrArg List.length h2
        simp only [List.length_append] at this
        have : r.length = 0 := by omega
        exact List.length_eq_zero_iff.mp this
      subst hr
      have hmq : m = q := by simpa using h2.symm
      subst hmq
      simp [hK]

/-! per-directive facts -/

/-- the components a directive prints are in the range `datetime` guarantees
(`%Y`: four digits, glibc pads only from 1000 on) -/
def InRange (c : Char) (t : DT) : Prop :=
  (c = 'Y' → 1000 ≤ t.y ∧ t.y ≤ 9999) ∧ (c = 'm' → 1 ≤ t.mo ∧ t.mo ≤ 12) ∧
  (c = 'd' → 1 ≤ t.d ∧ t.d ≤ 31) ∧ (c = 'H' → t.h ≤ 23) ∧ (c = 'M' → t.mi ≤ 59) ∧
  (c = 'S' → t.s ≤ 59) ∧ (c = 'f' → t.us ≤ 999999)

theorem ok_m : ∀ n, n ≤ 12 → 1 ≤ n →
    altsOK [[.r '1' '1', .r '0' '2'], [.r '0' '0', .r '1' '9'], [.r '1' '9']] (pad 2 n) = true := by
  decide +kernel

theorem ok_d : ∀ n, n ≤ 31 → 1 ≤ n →
    altsOK [[.r '3' '3', .r '0' '1'], [.r '1' '2', .d], [.r '0' '0', .r '1' '9'], [.r '1' '9'],
      [.sp, .r '1' '9']] (pad 2 n) = true := by
  decide +kernel

theorem ok_H : ∀ n, n ≤ 23 → altsOK [[.r '2' '2', .r '0' '3'], [.r '0' '1', .d], [.d]] (pad 2 n) = true := by
  decide +kernel

theorem ok_M : ∀ n, n ≤ 59 → altsOK [[.r '0' '5', .d], [.d]] (pad 2 n) = true := by
  decide +kernel

theorem ok_S : ∀ n, n ≤ 59 →
    altsOK [[.r '6' '6', .r '0' '1'], [.r '0' '5', .d], [.d]] (pad 2 n) = true := by
  decide +kernel

theorem ok_y : ∀ n, n ≤ 99 → altsOK [[.d, .d]] (pad 2 n) = true := by
  decide +kernel

theorem ok_d_char {c : Char} (h : c.isDigit = true) : CC.ok .d c = true := by
  simp [CC.ok, digitVal_ascii h]

theorem ok_r09_char {c : Char} (h : c.isDigit = true) : CC.ok (.r '0' '9') c = true := by
  have := (isDigit_iff c).1 h
  simp only [CC.ok, Bool.and_eq_true, decide_eq_true_eq, Char.le_def, Char.lt_def]
  constructor
  · show (48 : Nat) ≤ c.toNat; exact this.1
  · show c.toNat ≤ (57 : Nat); exact this.2

theorem natDigits_length_four (y : Nat) (h1 : 1000 ≤ y) (h2 : y ≤ 9999) : (natDigits y).length = 4 := by
  have ha : (natDigits y).length ≤ 4 := (Nat.length_toDigits_le_iff (b := 10) (by omega) (by omega)).2 (by omega)
  have hb : ¬ (natDigits y).length ≤ 3 := by
    intro h
    have := (Nat.length_toDigits_le_iff (b := 10) (k := 3) (by omega) (by omega)).1 h
    omega
  omega

theorem ok_Y (y : Nat) (h1 : 1000 ≤ y) (h2 : y ≤ 9999) : altsOK [[.d, .d, .d, .d]] (natDigits y) = true := by
  have hl := natDigits_length_four y h1 h2
  have hd := natDigits_isDigit y
  match hq : natDigits y, hl with
  | [a, b, c, d], _ =>
    rw [hq] at hd
    simp [altsOK, matchAlt, ok_d_char (hd a (by simp)), ok_d_char (hd b (by simp)), ok_d_char (hd c (by simp)),
      ok_d_char (hd d (by simp))]

theorem pad6_length (n : Nat) (h : n ≤ 999999) : (pad 6 n).length = 6 := by
  have : (natDigits n).length ≤ 6 := (Nat.length_toDigits_le_iff (b := 10) (by omega) (by omega)).2 (by omega)
  simp only [pad, List.length_append, List.length_replicate]
  omega

theorem ok_f (n : Nat) (h : n ≤ 999999) :
    altsOK [List.replicate 6 (.r '0' '9'), List.replicate 5 (.r '0' '9'), List.replicate 4 (.r '0' '9'),
      List.replicate 3 (.r '0' '9'), List.replicate 2 (.r '0' '9'), [.r '0' '9']] (pad 6 n) = true := by
  have hl := pad6_length n h
  have hd := pad_digits 6 n
  match hq : pad 6 n, hl with
  | [a, b, c, d, e, f], _ =>
    rw [hq] at hd
    simp [altsOK, matchAlt, List.replicate, ok_r09_char (hd a (by simp)), ok_r09_char (hd b (by simp)),
      ok_r09_char (hd c (by simp)), ok_r09_char (hd d (by simp)), ok_r09_char (hd e (by simp)),
      ok_r09_char (hd f (by simp))]

theorem altsOK_piece (c : Char) (t : DT) (q : List Char) (as : List Alt)
    (hq : dirPiece c t = some q) (ha : alts c = some as) (hr : InRange c t) : altsOK as q = true := by
  obtain ⟨rY, rm, rd, rH, rM, rS, rf⟩ := hr
  unfold dirPiece at hq
  repeat' split at hq
  all_goals first
    | (injection hq with hq; subst hq; subst_vars; simp only [alts] at ha; injection ha with ha; subst ha)
    | cases hq
  · exact ok_Y _ (rY rfl).1 (rY rfl).2
  · exact ok_m _ (rm rfl).2 (rm rfl).1
  · exact ok_d _ (rd rfl).2 (rd rfl).1
  · exact ok_H _ (rH rfl)
  · exact ok_M _ (rM rfl)
  · exact ok_S _ (rS rfl)
  · exact ok_y _ (by omega)
  · exact ok_f _ (rf rfl)

/-- the captures `strptime` gets from an emitted text -/
def capsOf (t : DT) : List Item → List (Char × List Char)
  | [] => []
  | .dir c :: is => (match dirPiece c t with | some q => [(c, q)] | none => []) ++ capsOf t is
  | _ :: is => capsOf t is

theorem takeWhile_run (run p : List Char) (hrun : ∀ c ∈ run, isStripWs c = true)
    (hp : ∀ x, p.head? = some x → isStripWs x = false) : (run ++ p).takeWhile isStripWs = run := by
  induction run with
  | nil =>
    cases p with
    | nil => rfl
    | cons x p => simp [hp x rfl]
  | cons c run ih =>
    simp only [List.cons_append, List.takeWhile_cons, hrun c (by simp), if_true]
    rw [ih (fun x hx => hrun x (by simp [hx]))]

/-- **Lemma B**: the emitted text is matched by the items that emitted it, with
exactly the emitted pieces as captures and nothing left over — whatever
alternatives the directive regexes offer, first-success backtracking included. -/
theorem match_emitted (t : DT) (items : List Item) (p : List Char) (h : Emits t items p)
    (hr : ∀ c, Item.dir c ∈ items → InRange c t) :
    matchItems items p = some (capsOf t items, []) := by
  induction h with
  | nil => rfl
  | lit c is p _ _ ih =>
    simp only [matchItems, beq_self_eq_true, if_true, capsOf]
    exact ih (fun c hc => hr c (by simp [hc]))
  | ws run is p hne hrun hp _ ih =>
    have ih' := ih (fun c hc => hr c (by simp [hc]))
    simp only [matchItems, takeWhile_run run p hrun hp, capsOf]
    cases hl : run.length with
    | zero => exact absurd (List.length_eq_zero_iff.mp hl) hne
    | succ k =>
      rw [List.range_succ, List.reverse_append, List.reverse_singleton, List.singleton_append,
        List.findSome?_cons]
      have : (run ++ p).drop (k + 1) = p := by rw [← hl]; simp
      rw [this, ih']
  | dir c q is p hq _ ih =>
    have ih' := ih (fun c hc => hr c (by simp [hc]))
    have hsome : (alts c).isSome = true := by
      rw [alts_isSome_iff, ← dirPiece_isSome_iff c t, hq]; rfl
    obtain ⟨as, has⟩ := Option.isSome_iff_exists.mp hsome
    have hok := altsOK_piece c t q as hq has (hr c (by simp))
    simp only [matchItems, has, capsOf, hq]
    have := findSome_alts as q p hok
      (fun m r => (matchItems is r).map fun (cr : List (Char × List Char) × List Char) => ((c, m) :: cr.1, cr.2))
      ((c, q) :: capsOf t is, []) (by simp [ih'])
    exact this

end Cfi.Date
