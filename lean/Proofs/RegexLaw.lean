import Cfi.Regex
/-!
The regular-expression matcher of the model (`Cfi.Regex`: Brzozowski derivatives with a light
simplification, prefix match, search) against the declarative semantics of the AST: a word
matches `.cat a b` when it splits into a word of `a` and a word of `b`, and so on.
`search_iff`: `search nl p s = true` exactly when some infix of `s` (a prefix when the pattern is
anchored) matches — what `re.search(pattern, s) is not None` means for this fragment.
-/
set_option linter.unusedSectionVars false
namespace Cfi.Regex

variable {α : Type} [DecidableEq α]

/-- the words of a regular expression (`nl` is the character `.` does not match) -/
inductive Matches (nl : α) : Re α → List α → Prop
  | eps : Matches nl .eps []
  | chr (c : α) : Matches nl (.chr c) [c]
  | any (c : α) (h : c ≠ nl) : Matches nl .any [c]
  | set (cs : List α) (c : α) (h : c ∈ cs) : Matches nl (.set cs) [c]
  | cat {a b : Re α} {s t : List α} : Matches nl a s → Matches nl b t → Matches nl (.cat a b) (s ++ t)
  | altL {a b : Re α} {s : List α} : Matches nl a s → Matches nl (.alt a b) s
  | altR {a b : Re α} {s : List α} : Matches nl b s → Matches nl (.alt a b) s
  | starNil {a : Re α} : Matches nl (.star a) []
  | starCons {a : Re α} {s t : List α} : Matches nl a s → Matches nl (.star a) t → Matches nl (.star a) (s ++ t)

theorem not_matches_none (nl : α) (s : List α) : ¬ Matches nl .none s := by
  intro h; cases h

theorem matches_eps_iff (nl : α) (s : List α) : Matches nl .eps s ↔ s = [] := by
  constructor
  · intro h; cases h; rfl
  · intro h; subst h; exact .eps

theorem matches_cat_iff (nl : α) (a b : Re α) (s : List α) :
    Matches nl (.cat a b) s ↔ ∃ s₁ s₂, s = s₁ ++ s₂ ∧ Matches nl a s₁ ∧ Matches nl b s₂ := by
  constructor
  · intro h
    cases h with
    | cat h₁ h₂ => exact ⟨_, _, rfl, h₁, h₂⟩
  · rintro ⟨s₁, s₂, rfl, h₁, h₂⟩
    exact .cat h₁ h₂

theorem matches_alt_iff (nl : α) (a b : Re α) (s : List α) :
    Matches nl (.alt a b) s ↔ Matches nl a s ∨ Matches nl b s := by
  constructor
  · intro h
    cases h with
    | altL h => exact Or.inl h
    | altR h => exact Or.inr h
  · rintro (h | h)
    · exact .altL h
    · exact .altR h

/-- `nullable` decides whether the empty word matches -/
theorem nullable_iff (nl : α) (r : Re α) : r.nullable = true ↔ Matches nl r [] := by
  induction r with
  | none => simp [Re.nullable, not_matches_none]
  | eps => simp [Re.nullable, matches_eps_iff]
  | chr c => simp only [Re.nullable, Bool.false_eq_true, false_iff]; intro h; cases h
  | any => simp only [Re.nullable, Bool.false_eq_true, false_iff]; intro h; cases h
  | set cs => simp only [Re.nullable, Bool.false_eq_true, false_iff]; intro h; cases h
  | cat a b iha ihb =>
    simp only [Re.nullable, Bool.and_eq_true, iha, ihb, matches_cat_iff]
    constructor
    · rintro ⟨h₁, h₂⟩; exact ⟨[], [], rfl, h₁, h₂⟩
    · rintro ⟨s₁, s₂, h, h₁, h₂⟩
      have := List.append_eq_nil_iff.1 h.symm
      rw [this.1] at h₁; rw [this.2] at h₂
      exact ⟨h₁, h₂⟩
  | alt a b iha ihb => simp only [Re.nullable, Bool.or_eq_true, iha, ihb, matches_alt_iff]
  | star a _ => simp only [Re.nullable, true_iff]; exact .starNil

/-- a non-empty word of `a*` starts with a non-empty word of `a` -/
theorem star_cons_split (nl : α) (a : Re α) (w : List α) (h : Matches nl (.star a) w) :
    ∀ c s, w = c :: s → ∃ s₁ s₂, s = s₁ ++ s₂ ∧ Matches nl a (c :: s₁) ∧ Matches nl (.star a) s₂ := by
  generalize hr : Re.star a = r at h
  induction h with
  | eps => cases hr
  | chr _ => cases hr
  | any _ _ => cases hr
  | set _ _ _ => cases hr
  | cat _ _ => cases hr
  | altL _ => cases hr
  | altR _ => cases hr
  | starNil => intro c s h; cases h
  | @starCons a' u t h₁ h₂ _ ih₂ =>
    cases hr
    intro c s hw
    cases u with
    | nil =>
      simp only [List.nil_append] at hw
      exact ih₂ rfl c s hw
    | cons d u' =>
      simp only [List.cons_append, List.cons.injEq] at hw
      obtain ⟨rfl, rfl⟩ := hw
      exact ⟨u', t, rfl, h₁, h₂⟩

/-- **the derivative**: `w` matches `∂_c r` exactly when `c :: w` matches `r` -/
theorem deriv_iff (nl : α) (r : Re α) (c : α) (w : List α) :
    Matches nl (r.deriv nl c) w ↔ Matches nl r (c :: w) := by
  induction r generalizing w with
  | none => simp [Re.deriv, not_matches_none]
  | eps =>
    simp only [Re.deriv, not_matches_none, false_iff]
    intro h; cases h
  | chr d =>
    simp only [Re.deriv]
    by_cases hcd : c = d
    · subst hcd
      simp only [if_true, matches_eps_iff]
      constructor
      · intro h; subst h; exact .chr c
      · intro h; cases h; rfl
    · simp only [hcd, if_false, not_matches_none, false_iff]
      intro h; cases h; exact hcd rfl
  | any =>
    simp only [Re.deriv]
    by_cases hc : c = nl
    · simp only [hc, if_true, not_matches_none, false_iff]
      intro h; cases h with
      | any _ h' => exact h' rfl
    · simp only [hc, if_false, matches_eps_iff]
      constructor
      · intro h; subst h; exact .any c hc
      · intro h; cases h; rfl
  | set cs =>
    simp only [Re.deriv]
    by_cases hc : cs.contains c = true
    · simp only [hc, if_true, matches_eps_iff]
      constructor
      · intro h; subst h; exact .set cs c (by simpa using hc)
      · intro h; cases h; rfl
    · simp only [hc, Bool.false_eq_true, if_false, not_matches_none, false_iff]
      intro h; cases h with
      | set _ _ h' => exact hc (by simpa using h')
  | cat a b iha ihb =>
    have key : Matches nl (.cat a b) (c :: w) ↔
        (∃ s₁ s₂, w = s₁ ++ s₂ ∧ Matches nl a (c :: s₁) ∧ Matches nl b s₂) ∨
        (Matches nl a [] ∧ Matches nl b (c :: w)) := by
      rw [matches_cat_iff]
      constructor
      · rintro ⟨s₁, s₂, h, h₁, h₂⟩
        cases s₁ with
        | nil =>
          simp only [List.nil_append] at h
          subst h
          exact Or.inr ⟨h₁, h₂⟩
        | cons d s₁' =>
          simp only [List.cons_append, List.cons.injEq] at h
          obtain ⟨rfl, rfl⟩ := h
          exact Or.inl ⟨s₁', s₂, rfl, h₁, h₂⟩
      · rintro (⟨s₁, s₂, rfl, h₁, h₂⟩ | ⟨h₁, h₂⟩)
        · exact ⟨c :: s₁, s₂, rfl, h₁, h₂⟩
        · exact ⟨[], c :: w, rfl, h₁, h₂⟩
    rw [key]
    simp only [Re.deriv]
    by_cases hn : a.nullable = true
    · simp only [hn, if_true, matches_alt_iff, matches_cat_iff, iha, ihb]
      constructor
      · rintro (h | h)
        · exact Or.inl h
        · exact Or.inr ⟨(nullable_iff nl a).1 hn, h⟩
      · rintro (h | ⟨_, h⟩)
        · exact Or.inl h
        · exact Or.inr h
    · simp only [hn, Bool.false_eq_true, if_false, matches_cat_iff, iha]
      constructor
      · intro h; exact Or.inl h
      · rintro (h | ⟨h, _⟩)
        · exact h
        · exact absurd ((nullable_iff nl a).2 h) hn
  | alt a b iha ihb => simp only [Re.deriv, matches_alt_iff, iha, ihb]
  | star a iha =>
    simp only [Re.deriv, matches_cat_iff, iha]
    constructor
    · rintro ⟨s₁, s₂, rfl, h₁, h₂⟩
      exact Matches.starCons (s := c :: s₁) h₁ h₂
    · intro h
      exact star_cons_split nl a _ h c w rfl

/-! ### the simplification keeps the language -/

def mkCat : Re α → Re α → Re α
  | .none, _ => .none
  | _, .none => .none
  | .eps, b' => b'
  | a', .eps => a'
  | a', b' => .cat a' b'

def mkAlt : Re α → Re α → Re α
  | .none, b' => b'
  | a', .none => a'
  | a', b' => .alt a' b'

theorem simp_cat (a b : Re α) : (Re.cat a b).simp = mkCat a.simp b.simp := by
  simp only [Re.simp, mkCat]
  cases a.simp <;> cases b.simp <;> rfl

theorem simp_alt (a b : Re α) : (Re.alt a b).simp = mkAlt a.simp b.simp := by
  simp only [Re.simp, mkAlt]
  cases a.simp <;> cases b.simp <;> rfl

theorem mkCat_iff (nl : α) (a b : Re α) (w : List α) : Matches nl (mkCat a b) w ↔ Matches nl (.cat a b) w := by
  have hnoneL : ∀ b : Re α, ¬ Matches nl (.cat .none b) w := by
    intro b h; cases h with | cat h₁ _ => cases h₁
  have hnoneR : ∀ a : Re α, ¬ Matches nl (.cat a .none) w := by
    intro a h; cases h with | cat _ h₂ => cases h₂
  have hepsL : ∀ b : Re α, Matches nl b w ↔ Matches nl (.cat .eps b) w := by
    intro b
    rw [matches_cat_iff]
    constructor
    · intro h; exact ⟨[], w, rfl, .eps, h⟩
    · rintro ⟨s₁, s₂, rfl, h₁, h₂⟩; cases h₁; exact h₂
  have hepsR : ∀ a : Re α, Matches nl a w ↔ Matches nl (.cat a .eps) w := by
    intro a
    rw [matches_cat_iff]
    constructor
    · intro h; exact ⟨w, [], (List.append_nil w).symm, h, .eps⟩
    · rintro ⟨s₁, s₂, rfl, h₁, h₂⟩; cases h₂; rw [List.append_nil]; exact h₁
  cases a <;> cases b <;> simp only [mkCat] <;>
    first
    | exact Iff.rfl
    | exact ⟨fun h => absurd h (not_matches_none nl w), fun h => absurd h (hnoneL _)⟩
    | exact ⟨fun h => absurd h (not_matches_none nl w), fun h => absurd h (hnoneR _)⟩
    | exact hepsL _
    | exact hepsR _

theorem mkAlt_iff (nl : α) (a b : Re α) (w : List α) : Matches nl (mkAlt a b) w ↔ Matches nl (.alt a b) w := by
  have hL : ∀ b : Re α, Matches nl b w ↔ Matches nl (.alt .none b) w := by
    intro b; rw [matches_alt_iff]; simp [not_matches_none]
  have hR : ∀ a : Re α, Matches nl a w ↔ Matches nl (.alt a .none) w := by
    intro a; rw [matches_alt_iff]; simp [not_matches_none]
  cases a <;> cases b <;> simp only [mkAlt] <;>
    first
    | exact Iff.rfl
    | exact hL _
    | exact hR _

theorem simp_iff (nl : α) (r : Re α) (w : List α) : Matches nl r.simp w ↔ Matches nl r w := by
  induction r generalizing w with
  | cat a b iha ihb =>
    rw [simp_cat, mkCat_iff, matches_cat_iff, matches_cat_iff]
    constructor
    · rintro ⟨s₁, s₂, h, h₁, h₂⟩; exact ⟨s₁, s₂, h, (iha s₁).1 h₁, (ihb s₂).1 h₂⟩
    · rintro ⟨s₁, s₂, h, h₁, h₂⟩; exact ⟨s₁, s₂, h, (iha s₁).2 h₁, (ihb s₂).2 h₂⟩
  | alt a b iha ihb =>
    rw [simp_alt, mkAlt_iff, matches_alt_iff, matches_alt_iff, iha, ihb]
  | none => simp [Re.simp]
  | eps => simp [Re.simp]
  | chr c => simp [Re.simp]
  | any => simp [Re.simp]
  | set cs => simp [Re.simp]
  | star a _ => simp [Re.simp]

/-! ### prefix match and search -/

/-- `matchPrefix`: some prefix of the word matches -/
theorem matchPrefix_iff (nl : α) (r : Re α) (s : List α) :
    matchPrefix nl r s = true ↔ ∃ p q, s = p ++ q ∧ Matches nl r p := by
  induction s generalizing r with
  | nil =>
    simp only [matchPrefix, nullable_iff nl]
    constructor
    · intro h; exact ⟨[], [], rfl, h⟩
    · rintro ⟨p, q, h, hm⟩
      have := List.append_eq_nil_iff.1 h.symm
      rw [this.1] at hm; exact hm
  | cons c cs ih =>
    simp only [matchPrefix, Bool.or_eq_true, nullable_iff nl, ih]
    constructor
    · rintro (h | ⟨p, q, rfl, hm⟩)
      · exact ⟨[], c :: cs, rfl, h⟩
      · exact ⟨c :: p, q, rfl, (deriv_iff nl r c p).1 ((simp_iff nl _ p).1 hm)⟩
    · rintro ⟨p, q, h, hm⟩
      cases p with
      | nil => exact Or.inl hm
      | cons d p' =>
        simp only [List.cons_append, List.cons.injEq] at h
        obtain ⟨rfl, rfl⟩ := h
        exact Or.inr ⟨p', q, rfl, (simp_iff nl _ p').2 ((deriv_iff nl r c p').2 hm)⟩

/-- **`search` is `re.search(pattern, s) is not None`**: some infix of `s` matches the expression — a
prefix when the pattern is anchored with `^` -/
theorem search_iff (nl : α) (p : Pat α) (s : List α) :
    search nl p s = true ↔
      ∃ a m b, s = a ++ m ++ b ∧ Matches nl p.re m ∧ (p.anchored = true → a = []) := by
  induction s with
  | nil =>
    simp only [search, nullable_iff nl]
    constructor
    · intro h; exact ⟨[], [], [], rfl, h, fun _ => rfl⟩
    · rintro ⟨a, m, b, h, hm, _⟩
      have h1 := List.append_eq_nil_iff.1 h.symm
      have h2 := List.append_eq_nil_iff.1 h1.1
      rw [h2.2] at hm; exact hm
  | cons c cs ih =>
    simp only [search, Bool.or_eq_true, Bool.and_eq_true, Bool.not_eq_true', matchPrefix_iff, ih]
    constructor
    · rintro (⟨m, b, h, hm⟩ | ⟨hanch, a, m, b, rfl, hm, _⟩)
      · exact ⟨[], m, b, by simpa using h, hm, fun _ => rfl⟩
      · exact ⟨c :: a, m, b, by simp, hm, fun h => by rw [hanch] at h; cases h⟩
    · rintro ⟨a, m, b, h, hm, hanch⟩
      cases a with
      | nil => exact Or.inl ⟨m, b, by simpa using h, hm⟩
      | cons d a' =>
        simp only [List.cons_append, List.cons.injEq] at h
        obtain ⟨rfl, rfl⟩ := h
        refine Or.inr ⟨?_, a', m, b, rfl, hm, fun h => absurd (hanch h) (by simp)⟩
        cases hp : p.anchored with
        | false => rfl
        | true => exact absurd (hanch hp) (by simp)

/-- a literal pattern matches exactly its text -/
theorem matches_lit_iff (nl : α) (t w : List α) : Matches nl (Re.lit t) w ↔ w = t := by
  induction t generalizing w with
  | nil => simp [Re.lit, matches_eps_iff]
  | cons c cs ih =>
    simp only [Re.lit, matches_cat_iff, ih]
    constructor
    · rintro ⟨s₁, s₂, rfl, h₁, rfl⟩; cases h₁; rfl
    · intro h; subst h; exact ⟨[c], cs, rfl, .chr c, rfl⟩

end Cfi.Regex
