import Proofs.FloorLog10
import Proofs.FloatBin
/-!
Floats in scientific notation: `round(x, nd)` for `nd` of either sign, `float()` of
`[-]d[.ddd]e±XX`, towards the render / parse law of E-notation fields.
-/
open Cfi Cfi.Text Cfi.PyInt Cfi.Dbl Proofs.Nearest Proofs.FloatText Proofs.FloatLoop Proofs.FloorLog10

namespace Proofs.FloatE

/-- the `nearest` call `round(x, nd)` and `float()` make for the decimal `n·10^(-nd)` -/
def nearestDec (prec : Nat) (emin emaxE : Int) (n : Nat) (nd : Int) : Option (Nat × Int) :=
  if nd ≥ 0 then nearestG prec emin emaxE n (10 ^ nd.toNat) else nearestG prec emin emaxE (n * 10 ^ (-nd).toNat) 1

/-- **`round(x, nd)` keeps the rounding of `x` at `nd` decimals, for `nd` of either sign** -/
theorem round_fixed_int (prec : Nat) (emin emaxE : Int) (m : Nat) (e nd : Int) (m' : Nat) (e' : Int)
    (hp : 1 ≤ prec) (hmin : emin ≤ 0) (hm : m < 2 ^ prec) (he : emin ≤ e)
    (h : nearestDec prec emin emaxE (roundScaled m e nd) nd = some (m', e')) :
    emin ≤ e' ∧ roundScaled m' e' nd = roundScaled m e nd := by
  unfold nearestDec at h
  by_cases hnd : nd ≥ 0
  · simp only [hnd, if_true] at h
    obtain ⟨d, rfl⟩ : ∃ d : Nat, nd = d := ⟨nd.toNat, by omega⟩
    have : ((d : Int)).toNat = d := by omega
    rw [this] at h
    exact round_fixed_gen prec emin emaxE m e d m' e' hp hmin hm he h
  · simp only [hnd, if_false] at h
    obtain ⟨he', hopt⟩ := nearestG_opt prec emin emaxE _ 1 m' e' hp hmin (by decide) h
    refine ⟨he', ?_⟩
    have hx := hopt m (e - emin).toNat hm
    have r1 := roundScaled_units m e nd emin he hmin
    have r2 := roundScaled_units m' e' nd emin he' hmin
    have z1 : nd.toNat = 0 := by omega
    rw [z1] at r1 r2
    simp only [Nat.pow_zero, Nat.mul_one] at r1 r2 hx
    rw [r2, r1]
    apply divHE_closer _ _ _ (Nat.mul_pos (two_pow_pos _) (ten_pow_pos _))
    rw [← r1]
    generalize roundScaled m e nd = n at *
    have c1 : m * 2 ^ (e - emin).toNat = units emin m e := rfl
    rw [c1] at hx
    have c2 : n * 10 ^ (-nd).toNat * 2 ^ (-emin).toNat = n * (2 ^ (-emin).toNat * 10 ^ (-nd).toNat) := by grind
    rw [c2] at hx
    generalize 2 ^ (-emin).toNat * 10 ^ (-nd).toNat = B at *
    omega


theorem digitVal_e : digitVal 'e' = none ∧ digitVal 'E' = none ∧ digitVal '+' = none ∧ digitVal '-' = none := by decide

theorem digitsGo_stop (acc : List Nat) (r rest : List Char) (h : ∀ c ∈ r, c.isDigit = true)
    (hrest : ∀ c, rest.head? = some c → digitVal c = none ∧ c ≠ '_') :
    digitsGo acc (r ++ rest) = (acc.reverse ++ r.map val, rest) := by
  induction r generalizing acc with
  | nil =>
    cases rest with
    | nil => simp [digitsGo]
    | cons c t =>
      obtain ⟨h1, h2⟩ := hrest c rfl
      have h3 : (c == '_') = false := by simpa using h2
      rw [List.nil_append, digitsGo.eq_def]
      simp [h1, h3]
  | cons c r ih =>
    have hc := digitVal_ascii (h c List.mem_cons_self)
    have step : digitsGo acc (c :: r ++ rest) = digitsGo ((c.toNat - 48) :: acc) (r ++ rest) := by
      rw [List.cons_append, digitsGo.eq_def]; simp only [hc]
    rw [step, ih _ (fun x hx => h x (List.mem_cons_of_mem c hx))]
    simp [val]

theorem digitsUS_stop (r rest : List Char) (hne : r ≠ []) (h : ∀ c ∈ r, c.isDigit = true)
    (hrest : ∀ c, rest.head? = some c → digitVal c = none ∧ c ≠ '_') :
    digitsUS (r ++ rest) = some (r.map val, rest) := by
  cases r with
  | nil => exact absurd rfl hne
  | cons c r =>
    simp only [List.cons_append, digitsUS, digitVal_ascii (h c (by simp))]
    rw [digitsGo_stop _ r rest (fun x hx => h x (by simp [hx])) hrest]
    simp [val]

/-- the text `[-]ip[.fp]e±dd` -/
def bodyE (neg : Bool) (ip fp : List Char) (ech : Char) (eneg : Bool) (exd : List Char) : List Char :=
  (if neg then ['-'] else []) ++ (ip ++ ((if fp.isEmpty then [] else '.' :: fp) ++ (ech :: (if eneg then '-' else '+') :: exd)))

theorem isNumWs_misc : isNumWs '+' = false ∧ isNumWs 'e' = false ∧ isNumWs 'E' = false := by decide

theorem bodyE_notws (neg : Bool) (ip fp : List Char) (ech : Char) (eneg : Bool) (exd : List Char)
    (hd : ∀ c ∈ ip ++ fp ++ exd, c.isDigit = true) (he : ech = 'e' ∨ ech = 'E') :
    ∀ x ∈ bodyE neg ip fp ech eneg exd, isNumWs x = false := by
  intro x hx
  have hdig : ∀ y, y.isDigit = true → isNumWs y = false := fun y hy => isNumWs_digit hy
  unfold bodyE at hx
  simp only [List.mem_append, List.mem_cons] at hx
  rcases hx with hx | hx | hx | hx | hx | hx
  · cases neg
    · simp at hx
    · simp at hx; subst hx; exact isNumWs_minus
  · exact hdig x (hd x (by simp [hx]))
  · by_cases hf : fp.isEmpty = true
    · simp [hf] at hx
    · simp only [hf, Bool.false_eq_true, if_false, List.mem_cons] at hx
      rcases hx with rfl | hx
      · exact isNumWs_dot
      · exact hdig x (hd x (by simp [hx]))
  · subst hx; rcases he with rfl | rfl
    · exact isNumWs_misc.2.1
    · exact isNumWs_misc.2.2
  · subst hx; cases eneg
    · exact isNumWs_misc.1
    · exact isNumWs_minus
  · exact hdig x (hd x (by simp [hx]))

theorem strip_bodyE (k : Nat) (neg : Bool) (ip fp : List Char) (ech : Char) (eneg : Bool) (exd : List Char)
    (hd : ∀ c ∈ ip ++ fp ++ exd, c.isDigit = true) (he : ech = 'e' ∨ ech = 'E') :
    stripBy isNumWs (List.replicate k ' ' ++ bodyE neg ip fp ech eneg exd) = bodyE neg ip fp ech eneg exd := by
  apply stripBy_pad_left k ' ' _ isNumWs_blank
  · intro x hx; exact bodyE_notws neg ip fp ech eneg exd hd he x (List.mem_of_mem_head? hx)
  · intro x hx; exact bodyE_notws neg ip fp ech eneg exd hd he x (List.mem_of_getLast? hx)

theorem sign_bodyE (neg : Bool) (ip fp : List Char) (ech : Char) (eneg : Bool) (exd : List Char)
    (hne : ip ≠ []) (hd : ∀ c ∈ ip, c.isDigit = true) :
    sign (bodyE neg ip fp ech eneg exd) =
      (neg, ip ++ ((if fp.isEmpty then [] else '.' :: fp) ++ (ech :: (if eneg then '-' else '+') :: exd))) := by
  cases ip with
  | nil => exact absurd rfl hne
  | cons c r =>
    cases neg
    · simp only [bodyE, Bool.false_eq_true, if_false, List.nil_append, List.cons_append]
      exact sign_digits c _ (hd c (by simp))
    · simp [bodyE, sign]

/-- **`float()` of a numeral in scientific notation** -/
theorem pyFloat_sci (k : Nat) (neg : Bool) (ip fp : List Char) (ech : Char) (eneg : Bool) (exd : List Char)
    (hne : ip ≠ []) (hxne : exd ≠ []) (hxl : exd.length ≤ 7)
    (hd : ∀ c ∈ ip ++ fp ++ exd, c.isDigit = true) (he : ech = 'e' ∨ ech = 'E') :
    pyFloat (List.replicate k ' ' ++ bodyE neg ip fp ech eneg exd) =
      some (ofDecimal neg ((ip ++ fp).map val) fp.length
        (if eneg then -(ofDigits (exd.map val) : Int) else (ofDigits (exd.map val) : Int))) := by
  have hdi : ∀ c ∈ ip, c.isDigit = true := fun c hc => hd c (by simp [hc])
  have hdf : ∀ c ∈ fp, c.isDigit = true := fun c hc => hd c (by simp [hc])
  have hdx : ∀ c ∈ exd, c.isDigit = true := fun c hc => hd c (by simp [hc])
  have hev : digitVal ech = none ∧ ech ≠ '_' := by
    rcases he with rfl | rfl
    · exact ⟨digitVal_e.1, by decide⟩
    · exact ⟨digitVal_e.2.1, by decide⟩
  have hec : (ech == 'e' || ech == 'E') = true := by rcases he with rfl | rfl <;> decide
  have hedot : ech ≠ '.' := by rcases he with rfl | rfl <;> decide
  unfold pyFloat
  simp only [strip_bodyE k neg ip fp ech eneg exd hd he, sign_bodyE neg ip fp ech eneg exd hne hdi]
  obtain ⟨c, r, rfl⟩ := List.exists_cons_of_ne_nil hne
  have hsp := not_special c (r ++ ((if fp.isEmpty then [] else '.' :: fp) ++ (ech :: (if eneg then '-' else '+') :: exd)))
    (hdi c (by simp))
  simp only [List.cons_append] at hsp ⊢
  simp only [hsp.1, hsp.2, Bool.false_eq_true, if_false]
  -- the exponent part
  have hsg : sign ((if eneg then '-' else '+') :: exd) = (eneg, exd) := by cases eneg <;> simp [sign]
  have hxd : digitsUS exd = some (exd.map val, []) := by
    have := digitsUS_stop exd [] hxne hdx (by simp)
    simpa using this
  have hlen7 : ¬ (((exd.map val).dropWhile (· == 0)).length > 7) := by
    have : ((exd.map val).dropWhile (· == 0)).length ≤ (exd.map val).length := (List.dropWhile_sublist _).length_le
    simp only [List.length_map] at this
    omega
  by_cases hf : fp = []
  · subst hf
    have h4 := digitsUS_stop (c :: r) (ech :: (if eneg then '-' else '+') :: exd) (by simp) hdi
      (by intro x hx; simp at hx; subst hx; exact hev)
    simp only [List.cons_append] at h4
    simp only [List.isEmpty_nil, if_true, List.nil_append, h4]
    have hnd : ∀ t, ech :: t ≠ '.' :: t := by intro t h; injection h with h _; exact hedot h
    split
    · rename_i heq; injection heq with h _; exact absurd h hedot
    · simp only [Bool.not_true, Bool.false_and, Bool.false_eq_true, if_false, hec, if_true, hsg, hxd, hlen7,
        ofDigits_dropWhile, List.append_nil, List.length_nil]
  · have hfe : fp.isEmpty = false := by simpa using hf
    have h4 := digitsUS_stop (c :: r) ('.' :: (fp ++ (ech :: (if eneg then '-' else '+') :: exd))) (by simp) hdi
      (by intro x hx; simp at hx; subst hx; exact ⟨digitVal_dot, by decide⟩)
    have h5 := digitsUS_stop fp (ech :: (if eneg then '-' else '+') :: exd) hf hdf
      (by intro x hx; simp at hx; subst hx; exact hev)
    simp only [List.cons_append] at h4
    simp only [hfe, Bool.false_eq_true, if_false, List.cons_append, h4, h5]
    simp only [Bool.not_true, Bool.false_and, Bool.false_eq_true, if_false, hec, if_true, hsg, hxd, hlen7,
      ofDigits_dropWhile]
    cases eneg <;> simp


/-! ### a common decimal scale: every power of ten between `10^-400` and `10^400` as a natural number -/

/-- `10^(j+400)` -/
def T (j : Int) : Nat := 10 ^ (j + 400).toNat

theorem T_pos (j : Int) : 0 < T j := ten_pow_pos _

theorem T_succ (j : Int) (h : -400 ≤ j) : T (j + 1) = 10 * T j := by
  unfold T
  have : (j + 1 + 400).toNat = (j + 400).toNat + 1 := by omega
  rw [this, Nat.pow_succ, Nat.mul_comm]

theorem T_add (j : Int) (b : Nat) (h : -400 ≤ j) : T (j + b) = T j * 10 ^ b := by
  unfold T
  have : (j + (b : Int) + 400).toNat = (j + 400).toNat + b := by omega
  rw [this, Nat.pow_add]

theorem T_zero : T 0 = 10 ^ 400 := by decide

/-- exponent bookkeeping: `10^j⁺ · T(-j) = 10^400 · 10^j⁻` -/
theorem pow_split (j : Int) (h1 : -400 ≤ j) (h2 : j ≤ 400) :
    10 ^ j.toNat * T (-j) = 10 ^ 400 * 10 ^ (-j).toNat := by
  unfold T
  rw [← Nat.pow_add, ← Nat.pow_add]
  congr 1
  omega

/-- `x·10^nd` rounded, on the common scale -/
theorem roundScaled_scaled (m : Nat) (e nd : Int) (he : -1074 ≤ e) (h1 : -400 ≤ nd) (h2 : nd ≤ 400) :
    roundScaled m e nd =
      divHE (units (-1074) m e * 10 ^ 400) (2 ^ (-(-1074 : Int)).toNat * T (-nd)) := by
  rw [roundScaled_units m e nd (-1074) he (by decide)]
  apply divHE_cross _ _ _ _ (Nat.mul_pos (two_pow_pos _) (ten_pow_pos _)) (Nat.mul_pos (two_pow_pos _) (T_pos _))
  have := pow_split nd h1 h2
  generalize 2 ^ (-(-1074 : Int)).toNat = U at *
  generalize units (-1074) m e = X at *
  generalize 10 ^ nd.toNat = A at *
  generalize 10 ^ (-nd).toNat = B at *
  generalize T (-nd) = C at *
  generalize (10 : Nat) ^ 400 = S at *
  calc X * A * (U * C) = X * U * (A * C) := by grind
    _ = X * U * (S * B) := by rw [this]
    _ = X * S * (U * B) := by grind

theorem pow_split' (j : Int) (h1 : -400 ≤ j) (h2 : j ≤ 400) :
    T j * 10 ^ (-j).toNat = 10 ^ 400 * 10 ^ j.toNat := by
  unfold T
  rw [← Nat.pow_add, ← Nat.pow_add]
  congr 1
  omega

/-- `x ≥ 10^j` on the common scale -/
theorem GE_scaled (U X : Nat) (j : Int) (h1 : -400 ≤ j) (h2 : j ≤ 400) :
    GE U X j ↔ U * T j ≤ X * 10 ^ 400 := by
  unfold GE
  have hp := pow_split' j h1 h2
  have hpos := ten_pow_pos (-j).toNat
  have hS := ten_pow_pos 400
  generalize T j = Tj at *
  generalize 10 ^ j.toNat = A at *
  generalize 10 ^ (-j).toNat = B at *
  generalize (10 : Nat) ^ 400 = S at *
  constructor
  · intro h
    have h3 := Nat.mul_le_mul_right S h
    apply Nat.le_of_mul_le_mul_right (c := B) _ hpos
    calc U * Tj * B = U * (Tj * B) := Nat.mul_assoc _ _ _
      _ = U * (S * A) := by rw [hp]
      _ = U * A * S := by grind
      _ ≤ X * B * S := h3
      _ = X * S * B := by grind
  · intro h
    have h3 := Nat.mul_le_mul_right B h
    apply Nat.le_of_mul_le_mul_right (c := S) _ hS
    calc U * A * S = U * (S * A) := by grind
      _ = U * (Tj * B) := by rw [hp]
      _ = U * Tj * B := (Nat.mul_assoc _ _ _).symm
      _ ≤ X * S * B := h3
      _ = X * B * S := by grind

/-- `|a − b|` on natural numbers -/
def absdiff (a b : Nat) : Nat := (a - b) + (b - a)

theorem absdiff_mul (a b t : Nat) : absdiff (a * t) (b * t) = absdiff a b * t := by
  unfold absdiff
  rw [Nat.add_mul, Nat.sub_mul, Nat.sub_mul]

theorem absdiff_int (a b : Nat) : ((a : Int) - (b : Int)).natAbs = absdiff a b := by
  unfold absdiff; omega

/-- **the rounding of the decimal `n·10^(-nd)` is optimal, on the common scale**: no number of the
format is closer to it -/
theorem opt_scaled (prec : Nat) (emin emaxE : Int) (n : Nat) (nd : Int) (m' : Nat) (e' : Int)
    (hp : 1 ≤ prec) (hmin : emin ≤ 0) (h1 : -400 ≤ nd) (h2 : nd ≤ 400)
    (h : nearestDec prec emin emaxE n nd = some (m', e')) :
    emin ≤ e' ∧ ∀ m'' k'' : Nat, m'' < 2 ^ prec →
      absdiff (n * (2 ^ (-emin).toNat * T (-nd))) (units emin m' e' * 10 ^ 400) ≤
      absdiff (n * (2 ^ (-emin).toNat * T (-nd))) (m'' * 2 ^ k'' * 10 ^ 400) := by
  unfold nearestDec at h
  have hps := pow_split nd h1 h2
  by_cases hnd : nd ≥ 0
  · simp only [hnd, if_true] at h
    obtain ⟨he', hopt⟩ := nearestG_opt prec emin emaxE _ _ m' e' hp hmin (ten_pow_pos _) h
    refine ⟨he', fun m'' k'' hm'' => ?_⟩
    have := hopt m'' k'' hm''
    rw [absdiff_int, absdiff_int] at this
    have z : (-nd).toNat = 0 := by omega
    rw [z, Nat.pow_zero, Nat.mul_one] at hps
    -- multiply by T(-nd)
    have h3 := Nat.mul_le_mul_right (T (-nd)) this
    rw [← absdiff_mul, ← absdiff_mul] at h3
    have e1 : n * 2 ^ (-emin).toNat * T (-nd) = n * (2 ^ (-emin).toNat * T (-nd)) := Nat.mul_assoc _ _ _
    have e2 : ∀ c : Nat, c * 10 ^ nd.toNat * T (-nd) = c * 10 ^ 400 := by
      intro c; rw [Nat.mul_assoc, hps]
    rw [e1, e2, e2] at h3
    exact h3
  · simp only [hnd, if_false] at h
    obtain ⟨he', hopt⟩ := nearestG_opt prec emin emaxE _ 1 m' e' hp hmin (by decide) h
    refine ⟨he', fun m'' k'' hm'' => ?_⟩
    have := hopt m'' k'' hm''
    rw [absdiff_int, absdiff_int] at this
    simp only [Nat.mul_one] at this
    have z : nd.toNat = 0 := by omega
    rw [z, Nat.pow_zero, Nat.one_mul] at hps
    have h3 := Nat.mul_le_mul_right (10 ^ 400) this
    rw [← absdiff_mul, ← absdiff_mul] at h3
    have e1 : n * 10 ^ (-nd).toNat * 2 ^ (-emin).toNat * 10 ^ 400 = n * (2 ^ (-emin).toNat * T (-nd)) := by
      rw [hps]
      generalize 2 ^ (-emin).toNat = U
      generalize 10 ^ (-nd).toNat = B
      generalize (10 : Nat) ^ 400 = S
      grind
    rw [e1] at h3
    exact h3

/-- **half-ulp bound**: the rounding error times twice the significand is at most the value -/
theorem nearestG_halfulp (prec : Nat) (emin emaxE : Int) (num den m : Nat) (e : Int)
    (hp : 1 ≤ prec) (hm : emin ≤ 0) (hd : 0 < den)
    (h : nearestG prec emin emaxE num den = some (m, e)) :
    2 * absdiff (num * 2 ^ (-emin).toNat) (units emin m e * den) * m ≤ units emin m e * den := by
  by_cases hn : num = 0
  · subst hn
    unfold nearestG at h
    simp only [beq_self_eq_true, if_true, Option.some.injEq, Prod.mk.injEq] at h
    obtain ⟨rfl, rfl⟩ := h
    simp [units, absdiff]
  · obtain ⟨e0, he0, hcase, _⟩ := nearestG_shape prec emin emaxE num den m e hn h
    have hge : emin ≤ e0 := by omega
    have hr := roundAt_units num den e0 emin hd hge hm
    have hb : 0 < den * 2 ^ (e0 - emin).toNat := Nat.mul_pos hd (two_pow_pos _)
    obtain ⟨s1, s2, _⟩ := divHE_spec (num * 2 ^ (-emin).toNat) (den * 2 ^ (e0 - emin).toNat) hb
    rw [← hr] at s1 s2
    generalize hN : num * 2 ^ (-emin).toNat = N at *
    generalize hE : (e0 - emin).toNat = E at *
    generalize hm0 : roundAt num den e0 = m0 at *
    -- |N − m0·b| ≤ b/2 with b = den·2^E
    have habs : 2 * absdiff N (m0 * (den * 2 ^ E)) ≤ den * 2 ^ E := by unfold absdiff; omega
    rcases hcase with ⟨h1, h2, h3⟩ | ⟨_, h2, h3⟩
    · -- renormalised: m0 = 2^prec = 2·m, exponent E+1
      rw [h2, h3]
      have e1 : (e0 + 1 - emin).toNat = E + 1 := by omega
      have e2 : 2 ^ prec = 2 ^ (prec - 1) * 2 := by rw [← Nat.pow_succ]; congr 1; omega
      have hval : units emin (2 ^ (prec - 1)) (e0 + 1) * den = m0 * (den * 2 ^ E) := by
        rw [units, e1, h1, e2, Nat.pow_succ]; grind
      rw [hval]
      have h4 := Nat.mul_le_mul_right (2 ^ (prec - 1)) habs
      have e3 : den * 2 ^ E * 2 ^ (prec - 1) ≤ m0 * (den * 2 ^ E) := by
        rw [h1, e2]
        have : den * 2 ^ E * 2 ^ (prec - 1) ≤ den * 2 ^ E * 2 ^ (prec - 1) * 2 := Nat.le_mul_of_pos_right _ (by decide)
        calc den * 2 ^ E * 2 ^ (prec - 1) ≤ den * 2 ^ E * 2 ^ (prec - 1) * 2 := this
          _ = 2 ^ (prec - 1) * 2 * (den * 2 ^ E) := by grind
      exact Nat.le_trans h4 e3
    · rw [h2, h3]
      have hval : units emin m0 e0 * den = m0 * (den * 2 ^ E) := by rw [units, hE]; grind
      rw [hval]
      have h4 := Nat.mul_le_mul_right m0 habs
      have : den * 2 ^ E * m0 = m0 * (den * 2 ^ E) := Nat.mul_comm _ _
      rw [this] at h4
      exact h4


theorem GE_mono_le (U X : Nat) (j : Int) (n : Nat) (h : GE U X (j + n)) : GE U X j := by
  induction n with
  | zero => simpa using h
  | succ n ih =>
    apply ih
    apply GE_mono
    have : j + (n : Int) + 1 = j + ((n + 1 : Nat) : Int) := by push_cast; omega
    rw [this]; exact h

/-- the decimal exponent is unique -/
theorem GE_unique (U X : Nat) (j k : Int) (hj1 : GE U X j) (hj2 : ¬ GE U X (j + 1))
    (hk1 : GE U X k) (hk2 : ¬ GE U X (k + 1)) : j = k := by
  apply Classical.byContradiction
  intro hne
  by_cases hlt : j < k
  · apply hj2
    have : k = j + 1 + ((k - j - 1).toNat : Int) := by omega
    rw [this] at hk1
    exact GE_mono_le U X (j + 1) _ hk1
  · apply hk2
    have : j = k + 1 + ((j - k - 1).toNat : Int) := by omega
    rw [this] at hj1
    exact GE_mono_le U X (k + 1) _ hj1

/-- `floorLog10` of a double is characterised by the two inequalities -/
theorem floorLog10_eq (m : Nat) (e : Int) (hm0 : m ≠ 0) (hm : m < 2 ^ 53) (he1 : -1074 ≤ e) (he2 : e ≤ 971)
    (j : Int) (h1 : GE (2 ^ (-(-1074 : Int)).toNat) (units (-1074) m e) j)
    (h2 : ¬ GE (2 ^ (-(-1074 : Int)).toNat) (units (-1074) m e) (j + 1)) : floorLog10 m e = j := by
  obtain ⟨s1, s2⟩ := floorLog10_spec m e hm0 hm he1 he2
  exact GE_unique _ _ _ _ s1 s2 h1 h2

/-! ### `nearestG` depends on the ratio only -/

theorem leP2_mono (num den : Nat) (k : Int) (h : leP2 num den (k + 1) = true) : leP2 num den k = true := by
  unfold leP2 at *
  by_cases hk : k ≥ 0
  · have hk1 : k + 1 ≥ 0 := by omega
    simp only [hk, hk1, if_true, decide_eq_true_eq] at h ⊢
    have e : (k + 1).toNat = k.toNat + 1 := by omega
    rw [e, Nat.pow_succ] at h
    have : den * 2 ^ k.toNat ≤ den * (2 ^ k.toNat * 2) := Nat.mul_le_mul_left _ (Nat.le_mul_of_pos_right _ (by decide))
    omega
  · by_cases hk1 : k + 1 ≥ 0
    · have hkm : k = -1 := by omega
      subst hkm
      simp at h ⊢
      omega
    · simp only [hk, hk1, if_false, decide_eq_true_eq] at h ⊢
      have e : (-k).toNat = (-(k + 1)).toNat + 1 := by omega
      rw [e, Nat.pow_succ]
      have : num * 2 ^ (-(k + 1)).toNat ≤ num * (2 ^ (-(k + 1)).toNat * 2) :=
        Nat.mul_le_mul_left _ (Nat.le_mul_of_pos_right _ (by decide))
      omega

theorem leP2_mono_le (num den : Nat) (j : Int) (n : Nat) (h : leP2 num den (j + n) = true) : leP2 num den j = true := by
  induction n with
  | zero => simpa using h
  | succ n ih =>
    apply ih
    apply leP2_mono
    have : j + (n : Int) + 1 = j + ((n + 1 : Nat) : Int) := by push_cast; omega
    rw [this]; exact h

theorem leP2_unique (num den : Nat) (j k : Int) (hj1 : leP2 num den j = true) (hj2 : leP2 num den (j + 1) = false)
    (hk1 : leP2 num den k = true) (hk2 : leP2 num den (k + 1) = false) : j = k := by
  apply Classical.byContradiction
  intro hne
  by_cases hlt : j < k
  · have : k = j + 1 + ((k - j - 1).toNat : Int) := by omega
    rw [this] at hk1
    have := leP2_mono_le num den (j + 1) _ hk1
    rw [hj2] at this; exact absurd this (by simp)
  · have : j = k + 1 + ((j - k - 1).toNat : Int) := by omega
    rw [this] at hj1
    have := leP2_mono_le num den (k + 1) _ hj1
    rw [hk2] at this; exact absurd this (by simp)

theorem leP2_scale (num den c : Nat) (hc : 0 < c) (k : Int) : leP2 (num * c) (den * c) k = leP2 num den k := by
  unfold leP2
  by_cases hk : k ≥ 0
  · simp only [hk, if_true]
    have : den * c * 2 ^ k.toNat = den * 2 ^ k.toNat * c := by grind
    rw [this]
    simp [Nat.mul_le_mul_right_iff hc]
  · simp only [hk, if_false]
    have : num * c * 2 ^ (-k).toNat = num * 2 ^ (-k).toNat * c := by grind
    rw [this]
    simp [Nat.mul_le_mul_right_iff hc]

theorem floorLog2_scale (num den c : Nat) (hn : num ≠ 0) (hd : den ≠ 0) (hc : 0 < c) :
    floorLog2 (num * c) (den * c) = floorLog2 num den := by
  have hnc : num * c ≠ 0 := Nat.mul_ne_zero hn (by omega)
  have hdc : den * c ≠ 0 := Nat.mul_ne_zero hd (by omega)
  apply leP2_unique num den
  · rw [← leP2_scale num den c hc]; exact leP2_floorLog2 _ _ hnc
  · rw [← leP2_scale num den c hc]; exact leP2_floorLog2_succ _ _ hdc
  · exact leP2_floorLog2 _ _ hn
  · exact leP2_floorLog2_succ _ _ hd

theorem roundAt_scale (num den c : Nat) (hd : 0 < den) (hc : 0 < c) (e : Int) :
    roundAt (num * c) (den * c) e = roundAt num den e := by
  unfold roundAt
  split
  · have : den * c * 2 ^ e.toNat = den * 2 ^ e.toNat * c := by grind
    rw [this]
    exact divHE_scale _ _ _ (Nat.mul_pos hd (two_pow_pos _)) hc
  · have : num * c * 2 ^ (-e).toNat = num * 2 ^ (-e).toNat * c := by grind
    rw [this]
    exact divHE_scale _ _ _ hd hc

/-- **scale invariance** -/
theorem nearestG_scale (prec : Nat) (emin emaxE : Int) (num den c : Nat) (hd : 0 < den) (hc : 0 < c) :
    nearestG prec emin emaxE (num * c) (den * c) = nearestG prec emin emaxE num den := by
  by_cases hn : num = 0
  · subst hn; simp [nearestG]
  · have hnc : num * c ≠ 0 := Nat.mul_ne_zero hn (by omega)
    unfold nearestG
    have h1 : (num * c == 0) = false := by simpa using hnc
    have h2 : (num == 0) = false := by simpa using hn
    simp only [h1, h2, Bool.false_eq_true, if_false]
    rw [floorLog2_scale num den c hn (by omega) hc, roundAt_scale num den c hd hc]

/-- the same decimal written with one more digit -/
theorem nearestDec_shift (prec : Nat) (emin emaxE : Int) (n : Nat) (nd : Int) :
    nearestDec prec emin emaxE (n * 10) (nd + 1) = nearestDec prec emin emaxE n nd := by
  unfold nearestDec
  by_cases h0 : nd ≥ 0
  · have h1 : nd + 1 ≥ 0 := by omega
    simp only [h0, h1, if_true]
    have : (nd + 1).toNat = nd.toNat + 1 := by omega
    rw [this, Nat.pow_succ]
    exact nearestG_scale prec emin emaxE n (10 ^ nd.toNat) 10 (ten_pow_pos _) (by decide)
  · by_cases h1 : nd + 1 ≥ 0
    · have : nd = -1 := by omega
      subst this
      simp
    · simp only [h0, h1, if_false]
      have : (-nd).toNat = (-(nd + 1)).toNat + 1 := by omega
      rw [this, Nat.pow_succ]
      congr 1
      grind


/-! ### the three positions of the rounded value relative to the decade of `x` (pure arithmetic) -/

theorem digits_range (Dx B G : Nat) (hB : 0 < B) (h1 : G * B ≤ Dx) (h2 : Dx < 10 * G * B) :
    G ≤ divHE Dx B ∧ divHE Dx B ≤ 10 * G ∧ 2 * absdiff (divHE Dx B * B) Dx ≤ B := by
  obtain ⟨s1, s2, _⟩ := divHE_spec Dx B hB
  refine ⟨le_divHE _ _ _ hB h1, divHE_le _ _ _ hB (by omega), ?_⟩
  unfold absdiff; omega

/-- (a) inside the decade: the digits are those of `x` -/
theorem pos_inside (Dx Dy B : Nat) (hB : 0 < B)
    (h3 : absdiff (divHE Dx B * B) Dy ≤ absdiff (divHE Dx B * B) Dx) : divHE Dy B = divHE Dx B := by
  apply divHE_closer _ _ _ hB
  unfold absdiff at h3
  omega

/-- (b) at or above the next power of ten -/
theorem pos_above (Dx Dy B G : Nat) (hB : 0 < B) (h1 : G * B ≤ Dx) (h2 : Dx < 10 * G * B)
    (h3 : absdiff (divHE Dx B * B) Dy ≤ absdiff (divHE Dx B * B) Dx) (hy : 10 * G * B ≤ Dy) :
    divHE Dx B = 10 * G ∧ divHE Dy (10 * B) = G ∧ Dy < 100 * G * B := by
  obtain ⟨f1, f2, f3⟩ := digits_range Dx B G hB h1 h2
  generalize divHE Dx B = n0 at *
  have hn : n0 = 10 * G := by
    apply Nat.le_antisymm f2
    apply Nat.le_of_not_lt
    intro hlt
    have := succ_mul_le (b := B) hlt
    unfold absdiff at h3 f3
    omega
  subst hn
  unfold absdiff at h3 f3
  refine ⟨rfl, ?_, ?_⟩
  · apply divHE_unique _ _ _ (by omega)
    · have : G * (10 * B) = 10 * G * B := by grind
      omega
    · have : G * (10 * B) = 10 * G * B := by grind
      omega
    · intro h
      have : G * (10 * B) = 10 * G * B := by grind
      omega
  · have hG : 10 * G * B * 1 ≤ 10 * G * B * 10 := Nat.mul_le_mul_left _ (by decide)
    have : 100 * G * B = 10 * G * B * 10 := by grind
    have hpos : 0 < 10 * G * B ∨ 10 * G * B = 0 := by omega
    omega

/-- (c) below the power of ten `x` sits on: only when the rounding fell just short of it -/
theorem pos_below (Dx Dy B' G M : Nat) (hB : 0 < B') (hG : 0 < G) (h1 : G * (10 * B') ≤ Dx) (h2 : Dx < 10 * G * (10 * B'))
    (h3 : absdiff (divHE Dx (10 * B') * (10 * B')) Dy ≤ absdiff (divHE Dx (10 * B') * (10 * B')) Dx)
    (hy : Dy < G * (10 * B'))
    (h4 : 2 * absdiff (divHE Dx (10 * B') * (10 * B')) Dy * M ≤ Dy) (h5 : 20 * G ≤ 2 * M) :
    divHE Dx (10 * B') = G ∧ divHE Dy B' = 10 * G ∧ G * B' ≤ Dy := by
  obtain ⟨f1, f2, f3⟩ := digits_range Dx (10 * B') G (by omega) h1 h2
  generalize divHE Dx (10 * B') = n0 at *
  have hn : n0 = G := by
    apply Nat.le_antisymm _ f1
    apply Nat.le_of_not_lt
    intro hlt
    have := succ_mul_le (b := 10 * B') hlt
    unfold absdiff at h3 f3
    omega
  subst hn
  -- the distance to the power of ten, D = G·10B' − Dy
  have hD : absdiff (n0 * (10 * B')) Dy = n0 * (10 * B') - Dy := by unfold absdiff; omega
  rw [hD] at h4
  generalize hDd : n0 * (10 * B') - Dy = D at *
  have hDy : Dy + D = n0 * (10 * B') := by omega
  -- 2·D·M ≤ Dy < 10·G·B'  and  20 G ≤ 2 M  give  2·D < B'
  have h6 : 2 * D * (10 * n0) ≤ 2 * D * M := by
    apply Nat.mul_le_mul_left; omega
  have h7 : 2 * D * (10 * n0) < n0 * (10 * B') := by omega
  have h8 : 2 * D < B' := by
    apply Nat.lt_of_mul_lt_mul_right (a := 10 * n0)
    calc 2 * D * (10 * n0) < n0 * (10 * B') := h7
      _ = B' * (10 * n0) := by grind
  have e1 : 10 * n0 * B' = n0 * (10 * B') := by grind
  refine ⟨rfl, ?_, ?_⟩
  · apply divHE_unique _ _ _ hB
    · omega
    · omega
    · intro h; omega
  · have : n0 * B' * 1 ≤ n0 * B' * 9 := Nat.mul_le_mul_left _ (by decide)
    have e2 : n0 * (10 * B') = n0 * B' * 9 + n0 * B' := by grind
    have hnb : B' ≤ n0 * B' := Nat.le_mul_of_pos_left _ hG
    omega


set_option exponentiation.threshold 5000

/-- normal doubles: `2^52 ≤ m < 2^53`, `-1074 ≤ e ≤ 971` (from `2^-1022` to the largest finite double) -/
def wfn (m : Nat) (e : Int) : Prop := 2 ^ 52 ≤ m ∧ m < 2 ^ 53 ∧ -1074 ≤ e ∧ e ≤ 971

theorem pow_facts : (2 : Nat) ^ 1022 ≤ 10 ^ 308 ∧ (2 : Nat) ^ 1024 ≤ 10 ^ 309 ∧ 20 * 10 ^ 12 ≤ (2 : Nat) ^ 53 ∧
    20 * 10 ^ 13 ≤ (2 : Nat) ^ 52 := by
  refine ⟨by decide +kernel, by decide +kernel, by decide +kernel, by decide +kernel⟩

/-- the decimal exponent of a finite non-zero double is at most 308 -/
theorem klog_le_308 (m : Nat) (e : Int) (hm0 : m ≠ 0) (h2 : m < 2 ^ 53) (he1 : -1074 ≤ e) (h4 : e ≤ 971) :
    floorLog10 m e ≤ 308 := by
  obtain ⟨s1, s2⟩ := floorLog10_spec m e hm0 h2 he1 h4
  have eU : (-(-1074 : Int)).toNat = 1074 := by decide
  apply Classical.byContradiction
  intro hgt
  have hge : GE (2 ^ (-(-1074 : Int)).toNat) (units (-1074) m e) 309 := by
    have : floorLog10 m e = 309 + ((floorLog10 m e - 309).toNat : Int) := by omega
    rw [this] at s1
    exact GE_mono_le _ _ _ _ s1
  unfold GE at hge
  have z1 : ((309 : Int)).toNat = 309 := by decide
  have z2 : (-(309 : Int)).toNat = 0 := by decide
  rw [z1, z2, Nat.pow_zero, Nat.mul_one, eU] at hge
  unfold units at hge
  have hE : (e - (-1074)).toNat ≤ 2045 := by omega
  have a1 : m * 2 ^ (e - (-1074)).toNat < 2 ^ 53 * 2 ^ 2045 :=
    Nat.lt_of_lt_of_le (Nat.mul_lt_mul_of_pos_right h2 (two_pow_pos _))
      (Nat.mul_le_mul_left _ (Nat.pow_le_pow_right (by decide) hE))
  have a2 : (2 : Nat) ^ 53 * 2 ^ 2045 ≤ 2 ^ 1074 * 2 ^ 1024 := by decide +kernel
  have a3 : (2 : Nat) ^ 1074 * 2 ^ 1024 ≤ 2 ^ 1074 * 10 ^ 309 := Nat.mul_le_mul_left _ pow_facts.2.1
  omega

/-- the decimal exponent of a normal double lies between -308 and 308 -/
theorem kbounds (m : Nat) (e : Int) (h : wfn m e) : -308 ≤ floorLog10 m e ∧ floorLog10 m e ≤ 308 := by
  obtain ⟨h1, h2, h3, h4⟩ := h
  have hm0 : m ≠ 0 := by
    intro h0; subst h0
    have := two_pow_pos 52; omega
  refine ⟨?_, klog_le_308 m e hm0 h2 h3 h4⟩
  obtain ⟨s1, s2⟩ := floorLog10_spec m e hm0 h2 h3 h4
  have eU : (-(-1074 : Int)).toNat = 1074 := by decide
  apply Classical.byContradiction
  intro hlt
  apply s2
  have hge : GE (2 ^ (-(-1074 : Int)).toNat) (units (-1074) m e) (-308) := by
    unfold GE
    have z1 : ((-308 : Int)).toNat = 0 := by decide
    have z2 : (-(-308 : Int)).toNat = 308 := by decide
    rw [z1, z2, Nat.pow_zero, Nat.mul_one, eU]
    unfold units
    have a1 : 2 ^ 52 ≤ m * 2 ^ (e - (-1074)).toNat :=
      Nat.le_trans h1 (Nat.le_mul_of_pos_right _ (two_pow_pos _))
    have a2 : (2 : Nat) ^ 1074 = 2 ^ 52 * 2 ^ 1022 := by rw [← Nat.pow_add]
    rw [a2]
    exact Nat.mul_le_mul a1 pow_facts.1
  have : (-308 : Int) = floorLog10 m e + 1 + ((-308 - floorLog10 m e - 1).toNat : Int) := by omega
  rw [this] at hge
  exact GE_mono_le _ _ _ _ hge

/-- the doubles of the E-notation law with `d` decimals: finite, non-zero, and the last of the
`d + 1` significant digits emitted has place value `10^-322` or more, i.e. `10^(d-322) ≤ |x|`
(stated in units of `2^-1074`). Every normal double qualifies for `d ≤ 12` (`wfE_of_wfn`); so does
every subnormal one from `10^(d-322)` on. Below that the decimal grid `10^-323` is about two
subnormal steps wide and the law is false at some values (K2, `Props.C01.subnormal_E_counterexample`). -/
def wfE (m : Nat) (e : Int) (d : Nat) : Prop :=
  m ≠ 0 ∧ m < 2 ^ 53 ∧ -1074 ≤ e ∧ e ≤ 971 ∧ 10 ^ d * 2 ^ 1074 ≤ units (-1074) m e * 10 ^ 322

theorem pow_factsE : (10 : Nat) ^ 12 * 2 ^ 1074 ≤ 2 ^ 52 * 10 ^ 322 ∧ 20 * (10 : Nat) ^ 322 ≤ 2 ^ 1074 := by
  refine ⟨by decide +kernel, by decide +kernel⟩

theorem wfE_of_wfn (m : Nat) (e : Int) (d : Nat) (h : wfn m e) (hd : d ≤ 12) : wfE m e d := by
  obtain ⟨h1, h2, h3, h4⟩ := h
  refine ⟨?_, h2, h3, h4, ?_⟩
  · intro h0; subst h0
    have := two_pow_pos 52; omega
  · have a1 : 2 ^ 52 ≤ units (-1074) m e := by
      show 2 ^ 52 ≤ m * 2 ^ (e - (-1074)).toNat
      exact Nat.le_trans h1 (Nat.le_mul_of_pos_right _ (two_pow_pos _))
    have a2 : (10 : Nat) ^ d ≤ 10 ^ 12 := Nat.pow_le_pow_right (by decide) hd
    calc 10 ^ d * 2 ^ 1074 ≤ 10 ^ 12 * 2 ^ 1074 := Nat.mul_le_mul_right _ a2
      _ ≤ 2 ^ 52 * 10 ^ 322 := pow_factsE.1
      _ ≤ units (-1074) m e * 10 ^ 322 := Nat.mul_le_mul_right _ a1

/-- the decimal exponent of a double admitted by `wfE` lies between `d - 322` and 308 -/
theorem kboundsE (m : Nat) (e : Int) (d : Nat) (h : wfE m e d) (hd : d ≤ 12) :
    (d : Int) - 322 ≤ floorLog10 m e ∧ floorLog10 m e ≤ 308 := by
  obtain ⟨hm0, h2, h3, h4, h5⟩ := h
  refine ⟨?_, klog_le_308 m e hm0 h2 h3 h4⟩
  obtain ⟨s1, s2⟩ := floorLog10_spec m e hm0 h2 h3 h4
  have eU : (-(-1074 : Int)).toNat = 1074 := by decide
  apply Classical.byContradiction
  intro hlt
  apply s2
  have hge : GE (2 ^ (-(-1074 : Int)).toNat) (units (-1074) m e) ((d : Int) - 322) := by
    unfold GE
    have z1 : ((d : Int) - 322).toNat = 0 := by omega
    have z2 : (-((d : Int) - 322)).toNat = 322 - d := by omega
    rw [z1, z2, Nat.pow_zero, Nat.mul_one, eU]
    have hsplit : (10 : Nat) ^ 322 = 10 ^ (322 - d) * 10 ^ d := by
      rw [← Nat.pow_add]; congr 1; omega
    rw [hsplit, ← Nat.mul_assoc, Nat.mul_comm (10 ^ d)] at h5
    exact Nat.le_of_mul_le_mul_right h5 (ten_pow_pos d)
  have : (d : Int) - 322 = floorLog10 m e + 1 + (((d : Int) - 322 - floorLog10 m e - 1).toNat : Int) := by omega
  rw [this] at hge
  exact GE_mono_le _ _ _ _ hge

/-- the half-ulp bound on the common scale -/
theorem halfulp_scaled (prec : Nat) (emin emaxE : Int) (n : Nat) (nd : Int) (m' : Nat) (e' : Int)
    (hp : 1 ≤ prec) (hmin : emin ≤ 0) (h1 : -400 ≤ nd) (h2 : nd ≤ 400)
    (h : nearestDec prec emin emaxE n nd = some (m', e')) :
    2 * absdiff (n * (2 ^ (-emin).toNat * T (-nd))) (units emin m' e' * 10 ^ 400) * m' ≤ units emin m' e' * 10 ^ 400 := by
  unfold nearestDec at h
  have hps := pow_split nd h1 h2
  by_cases hnd : nd ≥ 0
  · simp only [hnd, if_true] at h
    have hh := nearestG_halfulp prec emin emaxE _ _ m' e' hp hmin (ten_pow_pos _) h
    have z : (-nd).toNat = 0 := by omega
    rw [z, Nat.pow_zero, Nat.mul_one] at hps
    have h3 := Nat.mul_le_mul_right (T (-nd)) hh
    have e1 : n * 2 ^ (-emin).toNat * T (-nd) = n * (2 ^ (-emin).toNat * T (-nd)) := Nat.mul_assoc _ _ _
    have e2 : units emin m' e' * 10 ^ nd.toNat * T (-nd) = units emin m' e' * 10 ^ 400 := by
      rw [Nat.mul_assoc, hps]
    have e3 : 2 * absdiff (n * 2 ^ (-emin).toNat) (units emin m' e' * 10 ^ nd.toNat) * m' * T (-nd) =
        2 * (absdiff (n * 2 ^ (-emin).toNat) (units emin m' e' * 10 ^ nd.toNat) * T (-nd)) * m' := by grind
    rw [e3, ← absdiff_mul, e1, e2] at h3
    exact h3
  · simp only [hnd, if_false] at h
    have hh := nearestG_halfulp prec emin emaxE _ 1 m' e' hp hmin (by decide) h
    simp only [Nat.mul_one] at hh
    have z : nd.toNat = 0 := by omega
    rw [z, Nat.pow_zero, Nat.one_mul] at hps
    have h3 := Nat.mul_le_mul_right (10 ^ 400) hh
    have e1 : n * 10 ^ (-nd).toNat * 2 ^ (-emin).toNat * 10 ^ 400 = n * (2 ^ (-emin).toNat * T (-nd)) := by
      rw [hps]
      generalize 2 ^ (-emin).toNat = U
      generalize 10 ^ (-nd).toNat = B
      generalize (10 : Nat) ^ 400 = S
      grind
    have e3 : 2 * absdiff (n * 10 ^ (-nd).toNat * 2 ^ (-emin).toNat) (units emin m' e') * m' * 10 ^ 400 =
        2 * (absdiff (n * 10 ^ (-nd).toNat * 2 ^ (-emin).toNat) (units emin m' e') * 10 ^ 400) * m' := by
      generalize absdiff (n * 10 ^ (-nd).toNat * 2 ^ (-emin).toNat) (units emin m' e') = A
      generalize (10 : Nat) ^ 400 = S
      grind
    rw [e3, ← absdiff_mul, e1] at h3
    exact h3

/-! ### The scientific-notation pipeline -/


/-- the pair (digits, exponent) `'{:.{d}e}'.format` prints for a non-zero double -/
def sci (m : Nat) (e : Int) (d : Nat) : Nat × Int :=
  let k := floorLog10 m e
  let n := roundScaled m e ((d : Int) - k)
  if n == 10 ^ (d + 1) then (10 ^ d, k + 1) else (n, k)

abbrev nd53 := nearestDec 53 (-1074) 971

/-- facts about the rounded value needed downstream -/
structure RoundedOk (m' : Nat) (e' : Int) : Prop where
  hm0 : m' ≠ 0
  hm : m' < 2 ^ 53
  he1 : -1074 ≤ e'
  he2 : e' ≤ 971

theorem acc_shift (N n0 B B' D : Nat) (h1 : N * B' = n0 * B) (h2 : B ≤ B')
    (h : 2 * absdiff (n0 * B) D ≤ B) : 2 * absdiff (N * B') D ≤ B' := by
  rw [h1]; omega

/-- as `wfE`, with one more decimal decade at the bottom: the last digit emitted has place value
`10^-323` or more. In the extra decade (`10^(d-323) ≤ |x| < 10^(d-322)`) the text is still stable
and reads back to the double nearest to it, but it need not be within half a unit of `x` (K2). -/
def wfB (m : Nat) (e : Int) (d : Nat) : Prop :=
  m ≠ 0 ∧ m < 2 ^ 53 ∧ -1074 ≤ e ∧ e ≤ 971 ∧ 10 ^ d * 2 ^ 1074 ≤ units (-1074) m e * 10 ^ 323

theorem wfB_of_wfE (m : Nat) (e : Int) (d : Nat) (h : wfE m e d) : wfB m e d := by
  obtain ⟨h1, h2, h3, h4, h5⟩ := h
  refine ⟨h1, h2, h3, h4, ?_⟩
  have : (10 : Nat) ^ 323 = 10 ^ 322 * 10 := by rw [← Nat.pow_succ]
  rw [this, ← Nat.mul_assoc]
  exact Nat.le_trans h5 (Nat.le_mul_of_pos_right _ (by decide))

/-- the decimal exponent of a double admitted by `wfB` lies between `d - 323` and 308 -/
theorem kboundsB (m : Nat) (e : Int) (d : Nat) (h : wfB m e d) (hd : d ≤ 12) :
    (d : Int) - 323 ≤ floorLog10 m e ∧ floorLog10 m e ≤ 308 := by
  obtain ⟨hm0, h2, h3, h4, h5⟩ := h
  refine ⟨?_, klog_le_308 m e hm0 h2 h3 h4⟩
  obtain ⟨s1, s2⟩ := floorLog10_spec m e hm0 h2 h3 h4
  have eU : (-(-1074 : Int)).toNat = 1074 := by decide
  apply Classical.byContradiction
  intro hlt
  apply s2
  have hge : GE (2 ^ (-(-1074 : Int)).toNat) (units (-1074) m e) ((d : Int) - 323) := by
    unfold GE
    have z1 : ((d : Int) - 323).toNat = 0 := by omega
    have z2 : (-((d : Int) - 323)).toNat = 323 - d := by omega
    rw [z1, z2, Nat.pow_zero, Nat.mul_one, eU]
    have hsplit : (10 : Nat) ^ 323 = 10 ^ (323 - d) * 10 ^ d := by
      rw [← Nat.pow_add]; congr 1; omega
    rw [hsplit, ← Nat.mul_assoc, Nat.mul_comm (10 ^ d)] at h5
    exact Nat.le_of_mul_le_mul_right h5 (ten_pow_pos d)
  have : (d : Int) - 323 = floorLog10 m e + 1 + (((d : Int) - 323 - floorLog10 m e - 1).toNat : Int) := by omega
  rw [this] at hge
  exact GE_mono_le _ _ _ _ hge

theorem pow_factsB : (2 : Nat) ^ 1074 * 10 ^ 89 < 2 ^ 52 * 10 ^ 400 := by decide +kernel

/-! ### below the subnormal threshold of the decimal grid -/

theorem pow_factsS : (2 : Nat) ^ 1074 ≤ 10 ^ 324 ∧ 4 * (2 ^ 1074 * 10 ^ 76) < (10 : Nat) ^ 400 ∧
    (10 : Nat) ^ 14 < (2 ^ 54 - 1) * 2 ^ 970 := by
  refine ⟨by decide +kernel, by decide +kernel, by decide +kernel⟩

/-- the decimal exponent of a non-zero double is at least -324 -/
theorem klog_ge_m324 (m : Nat) (e : Int) (hm0 : m ≠ 0) (h2 : m < 2 ^ 53) (he1 : -1074 ≤ e) (h4 : e ≤ 971) :
    -324 ≤ floorLog10 m e := by
  obtain ⟨s1, s2⟩ := floorLog10_spec m e hm0 h2 he1 h4
  have eU : (-(-1074 : Int)).toNat = 1074 := by decide
  apply Classical.byContradiction
  intro hlt
  apply s2
  have hge : GE (2 ^ (-(-1074 : Int)).toNat) (units (-1074) m e) (-324) := by
    unfold GE
    have z1 : ((-324 : Int)).toNat = 0 := by decide
    have z2 : (-(-324 : Int)).toNat = 324 := by decide
    rw [z1, z2, Nat.pow_zero, Nat.mul_one, eU]
    have a1 : 1 ≤ units (-1074) m e := by
      show 1 ≤ m * 2 ^ (e - (-1074)).toNat
      exact Nat.mul_pos (Nat.pos_of_ne_zero hm0) (two_pow_pos _)
    calc 2 ^ 1074 ≤ 10 ^ 324 := pow_factsS.1
      _ = 1 * 10 ^ 324 := (Nat.one_mul _).symm
      _ ≤ units (-1074) m e * 10 ^ 324 := Nat.mul_le_mul_right _ a1
  have : (-324 : Int) = floorLog10 m e + 1 + ((-324 - floorLog10 m e - 1).toNat : Int) := by omega
  rw [this] at hge
  exact GE_mono_le _ _ _ _ hge

/-- **On a decimal grid of `10^-324` or finer the digits printed for a subnormal double denote it.**
`x = m·2^-1074` non-zero, `k` its decimal exponent, `k − d ≤ −324`: the pair `(N, K)` printed for
`x` has `d + 1` digits, the double nearest to the decimal `N·10^(K−d)` is `x` itself, and the
digits are within half a unit of their last place of `x` (one correct rounding). -/
theorem sub_fine (m : Nat) (d : Nat) (hd : d ≤ 12) (hm0 : m ≠ 0) (hm : m < 2 ^ 52)
    (hk : floorLog10 m (-1074) - d ≤ -324) :
    10 ^ d ≤ (sci m (-1074) d).1 ∧ (sci m (-1074) d).1 < 10 ^ (d + 1) ∧
    -324 ≤ (sci m (-1074) d).2 ∧ (sci m (-1074) d).2 ≤ 320 ∧
    nd53 (sci m (-1074) d).1 ((d : Int) - (sci m (-1074) d).2) = some (m, -1074) ∧
    nd53 (roundScaled m (-1074) ((d : Int) - floorLog10 m (-1074))) ((d : Int) - floorLog10 m (-1074)) = some (m, -1074) ∧
    2 * absdiff ((sci m (-1074) d).1 * (2 ^ (-(-1074 : Int)).toNat * T ((sci m (-1074) d).2 - d)))
        (units (-1074) m (-1074) * 10 ^ 400) ≤
      2 ^ (-(-1074 : Int)).toNat * T ((sci m (-1074) d).2 - d) := by
  have hm53 : m < 2 ^ 53 := by
    have : (2 : Nat) ^ 52 ≤ 2 ^ 53 := Nat.pow_le_pow_right (by decide) (by decide)
    omega
  have hk1 := klog_ge_m324 m (-1074) hm0 hm53 (by decide) (by decide)
  obtain ⟨s1, s2⟩ := floorLog10_spec m (-1074) hm0 hm53 (by decide) (by decide)
  generalize hkk : floorLog10 m (-1074) = k at *
  have hXm : units (-1074) m (-1074) = m := by simp [units]
  have hn0 := roundScaled_scaled m (-1074) ((d : Int) - k) (by decide) (by omega) (by omega)
  have eneg : -((d : Int) - k) = k - d := by omega
  rw [eneg] at hn0
  have hs1 := (GE_scaled _ _ k (by omega) (by omega)).1 s1
  have hs2 : ¬ (2 ^ (-(-1074 : Int)).toNat * T (k + 1) ≤ units (-1074) m (-1074) * 10 ^ 400) :=
    fun hc => s2 ((GE_scaled _ _ (k + 1) (by omega) (by omega)).2 hc)
  have hTk : T k = T (k - d) * 10 ^ d := by
    have := T_add (k - d) d (by omega)
    have e1 : k - (d : Int) + (d : Int) = k := by omega
    rw [e1] at this; exact this
  have hTk1 : T (k + 1) = 10 * T k := T_succ k (by omega)
  have hTkd1 : T (k + 1 - d) = 10 * T (k - d) := by
    have := T_succ (k - d) (by omega)
    have e1 : k - (d : Int) + 1 = k + 1 - d := by omega
    rw [e1] at this; exact this
  -- the grid is finer than a quarter of a subnormal step
  have hfine : 4 * (2 ^ (-(-1074 : Int)).toNat * T (k - d)) < 10 ^ 400 := by
    have eU : (-(-1074 : Int)).toNat = 1074 := by decide
    rw [eU]
    have e1 : (-324 : Int) = k - d + ((-324 - (k - (d : Int))).toNat : Int) := by omega
    have t1 : T (-324) = 10 ^ 76 := by decide +kernel
    have t2 := T_add (k - d) (-324 - (k - (d : Int))).toNat (by omega)
    rw [← e1, t1] at t2
    have a1 : T (k - d) ≤ 10 ^ 76 := by
      rw [t2]; exact Nat.le_mul_of_pos_right _ (ten_pow_pos _)
    have a2 : 4 * (2 ^ 1074 * T (k - d)) ≤ 4 * (2 ^ 1074 * 10 ^ 76) :=
      Nat.mul_le_mul_left _ (Nat.mul_le_mul_left _ a1)
    exact Nat.lt_of_le_of_lt a2 pow_factsS.2.1
  have hY0 : ∀ {j : Int}, 0 < 2 ^ (-(-1074 : Int)).toNat * T j := fun {j} => Nat.mul_pos (two_pow_pos _) (T_pos j)
  generalize hU : 2 ^ (-(-1074 : Int)).toNat = U at *
  generalize hS : (10 : Nat) ^ 400 = S at *
  rw [hXm] at hn0 hs1 hs2 ⊢
  generalize hn0v : roundScaled m (-1074) ((d : Int) - k) = n0 at *
  have hG : 0 < 10 ^ d := ten_pow_pos d
  have hG10 : 10 ^ d * 10 = 10 ^ (d + 1) := by rw [Nat.pow_succ]
  have hGle : 10 ^ d ≤ 10 ^ 12 := Nat.pow_le_pow_right (by decide) hd
  generalize hGd : 10 ^ d = G at *
  have hB : 0 < U * T (k - d) := hY0
  have h1 : G * (U * T (k - d)) ≤ m * S := by
    have : U * T k = G * (U * T (k - d)) := by rw [hTk]; grind
    omega
  have h2 : m * S < 10 * G * (U * T (k - d)) := by
    have : U * T (k + 1) = 10 * G * (U * T (k - d)) := by rw [hTk1, hTk]; grind
    omega
  obtain ⟨f1, f2, f3⟩ := digits_range (m * S) (U * T (k - d)) G hB h1 h2
  rw [← hn0] at f1 f2 f3
  have hS0 : 0 < S := by rw [← hS]; exact ten_pow_pos _
  -- the double nearest to `n0·10^(k−d)` is `x`
  have hback : nd53 n0 ((d : Int) - k) = some (m, -1074) := by
    cases hr : nd53 n0 ((d : Int) - k) with
    | none =>
      exfalso
      unfold nd53 nearestDec at hr
      have hnd : (d : Int) - k ≥ 0 := by omega
      simp only [hnd, if_true] at hr
      have hb := nearest_none_bound n0 _ (ten_pow_pos _) hr
      have : 1 ≤ 10 ^ ((d : Int) - k).toNat := ten_pow_pos _
      have h3 : (2 ^ 54 - 1) * 2 ^ 970 * 1 ≤ (2 ^ 54 - 1) * 2 ^ 970 * 10 ^ ((d : Int) - k).toNat :=
        Nat.mul_le_mul_left _ this
      have := pow_factsS.2.2
      have : (10 : Nat) ^ 12 * 10 < 10 ^ 14 := by decide
      omega
    | some p =>
      obtain ⟨m', e'⟩ := p
      obtain ⟨hm', he1', _, hnz⟩ : m' < 2 ^ 53 ∧ -1074 ≤ e' ∧ e' ≤ 971 ∧ (n0 ≠ 0 → 2 ^ 52 ≤ m' ∨ e' = -1074) := by
        unfold nd53 nearestDec at hr
        have hnd : (d : Int) - k ≥ 0 := by omega
        simp only [hnd, if_true] at hr
        exact Proofs.FloatBin.nearestG_norm 53 (-1074) 971 _ _ m' e' (by decide) (by decide) (by decide)
          (ten_pow_pos _) hr
      obtain ⟨_, hopt⟩ := opt_scaled 53 (-1074) 971 n0 ((d : Int) - k) m' e' (by decide) (by decide)
        (by omega) (by omega) hr
      have hoptx := hopt m 0 hm53
      rw [eneg, hU, hS] at hoptx
      simp only [Nat.pow_zero, Nat.mul_one] at hoptx
      generalize hYu : units (-1074) m' e' = Y at *
      have hYX : Y = m := by
        apply Classical.byContradiction
        intro hne
        rcases Nat.lt_or_gt_of_ne hne with hlt | hgt
        · have := Nat.mul_le_mul_right S (Nat.succ_le_of_lt hlt)
          rw [Nat.succ_mul] at this
          unfold absdiff at hoptx f3
          omega
        · have := Nat.mul_le_mul_right S (Nat.succ_le_of_lt hgt)
          rw [Nat.succ_mul] at this
          unfold absdiff at hoptx f3
          omega
      have hn0pos : n0 ≠ 0 := by omega
      have he' : e' = -1074 := by
        rcases hnz hn0pos with h | h
        · exfalso
          have : m' ≤ Y := by
            rw [← hYu]
            show m' ≤ m' * 2 ^ (e' - (-1074)).toNat
            exact Nat.le_mul_of_pos_right _ (two_pow_pos _)
          omega
        · exact h
      subst he'
      have : Y = m' := by rw [← hYu]; simp [units]
      rw [← this, hYX]
  unfold sci
  simp only [hkk, hn0v]
  by_cases hc : n0 = 10 ^ (d + 1)
  · have hc' : (n0 == 10 ^ (d + 1)) = true := by simpa using hc
    simp only [hc', if_true]
    refine ⟨Nat.le_of_eq hGd.symm, by rw [← hG10, hGd]; omega, by omega, by omega, ?_, hback, ?_⟩
    · have := nearestDec_shift 53 (-1074) 971 (10 ^ d) ((d : Int) - (k + 1))
      have e1 : (d : Int) - (k + 1) + 1 = d - k := by omega
      rw [e1, hGd, hG10] at this
      unfold nd53
      rw [hGd, ← this, ← hc]; exact hback
    · apply acc_shift _ n0 (U * T (k - d)) _ _ _ _ f3
      · rw [hTkd1, hc, hGd, ← hG10]; grind
      · rw [hTkd1]; exact Nat.mul_le_mul_left U (by omega)
  · have hc' : (n0 == 10 ^ (d + 1)) = false := by simpa using hc
    simp only [hc', Bool.false_eq_true, if_false]
    exact ⟨f1, by rw [← hG10]; omega, by omega, by omega, hback, hback, f3⟩

/-- **The scientific-notation pipeline is a projection.** `x` a normal double, `k` its decimal
exponent, `r = round(x, d − k)`. Then the pair `(N, K)` printed for `r` has `d + 1` digits,
reading the printed decimal `N·10^(K−d)` gives `r` back, and rounding `r` at its own decimal
exponent gives `r` again. -/
theorem sci_core (m : Nat) (e : Int) (d : Nat) (h : wfB m e d) (hd : d ≤ 12) (m' : Nat) (e' : Int)
    (hr : nd53 (roundScaled m e ((d : Int) - floorLog10 m e)) ((d : Int) - floorLog10 m e) = some (m', e')) :
    RoundedOk m' e' ∧
    10 ^ d ≤ (sci m' e' d).1 ∧ (sci m' e' d).1 < 10 ^ (d + 1) ∧
    -324 ≤ (sci m' e' d).2 ∧ (sci m' e' d).2 ≤ 320 ∧
    nd53 (sci m' e' d).1 ((d : Int) - (sci m' e' d).2) = some (m', e') ∧
    nd53 (roundScaled m' e' ((d : Int) - floorLog10 m' e')) ((d : Int) - floorLog10 m' e') = some (m', e') ∧
    floorLog10 m e - 1 ≤ floorLog10 m' e' ∧ floorLog10 m' e' ≤ floorLog10 m e + 1 ∧
    -- the digits printed are within half a unit (of their last place) of `x` itself — when that
    -- last place is `10^-322` or more (`wfE`)
    ((d : Int) - 322 ≤ floorLog10 m e →
    2 * absdiff ((sci m' e' d).1 * (2 ^ (-(-1074 : Int)).toNat * T ((sci m' e' d).2 - d))) (units (-1074) m e * 10 ^ 400) ≤
      2 ^ (-(-1074 : Int)).toNat * T ((sci m' e' d).2 - d)) := by
  obtain ⟨hk1, hk2⟩ := kboundsB m e d h hd
  obtain ⟨hm0, hm53, he1, he2, _⟩ := h
  obtain ⟨s1, s2⟩ := floorLog10_spec m e hm0 hm53 (by omega) (by omega)
  generalize hk : floorLog10 m e = k at *
  -- the rounded value is a number of the format
  have hnorm : m' < 2 ^ 53 ∧ -1074 ≤ e' ∧ e' ≤ 971 ∧
      (roundScaled m e ((d : Int) - k) ≠ 0 → 2 ^ 52 ≤ m' ∨ e' = -1074) := by
    unfold nd53 nearestDec at hr
    split at hr
    · obtain ⟨a, b, c, h4⟩ := Proofs.FloatBin.nearestG_norm 53 (-1074) 971 _ _ m' e' (by decide) (by decide) (by decide)
        (ten_pow_pos _) hr
      exact ⟨a, b, c, h4⟩
    · obtain ⟨a, b, c, h4⟩ := Proofs.FloatBin.nearestG_norm 53 (-1074) 971 _ 1 m' e' (by decide) (by decide) (by decide)
        (by decide) hr
      refine ⟨a, b, c, fun hne => h4 ?_⟩
      exact Nat.mul_ne_zero hne (Nat.ne_of_gt (ten_pow_pos _))
  obtain ⟨hm', he1', he2', hnz⟩ := hnorm
  -- one unit of the last digit emitted is at least twenty subnormal steps
  have hB20 : (d : Int) - 322 ≤ k → 20 * 10 ^ 400 ≤ 2 ^ (-(-1074 : Int)).toNat * T (k - d) := by
    intro hreg
    have eU : (-(-1074 : Int)).toNat = 1074 := by decide
    have e1 : k - (d : Int) = -322 + ((k - (d : Int) + 322).toNat : Int) := by omega
    rw [eU, e1, T_add (-322) _ (by decide)]
    have t1 : T (-322) = 10 ^ 78 := by decide +kernel
    have t2 : (10 : Nat) ^ 400 = 10 ^ 322 * 10 ^ 78 := by decide +kernel
    rw [t1, t2]
    have a1 : 20 * (10 ^ 322 * 10 ^ 78) ≤ 2 ^ 1074 * 10 ^ 78 := by
      rw [← Nat.mul_assoc]; exact Nat.mul_le_mul_right _ pow_factsE.2
    have a2 : 2 ^ 1074 * 10 ^ 78 ≤ 2 ^ 1074 * (10 ^ 78 * 10 ^ (k - (d : Int) + 322).toNat) := by
      apply Nat.mul_le_mul_left
      exact Nat.le_mul_of_pos_right _ (ten_pow_pos _)
    exact Nat.le_trans a1 a2
  -- in the extra decade `10^k` is far below the smallest normal double
  have hsm : k ≤ -311 → 2 ^ (-(-1074 : Int)).toNat * T k < 2 ^ 52 * 10 ^ 400 := by
    intro hle
    have eU : (-(-1074 : Int)).toNat = 1074 := by decide
    have e1 : (-311 : Int) = k + ((-311 - k).toNat : Int) := by omega
    have t1 : T (-311) = 10 ^ 89 := by decide +kernel
    have t2 := T_add k (-311 - k).toNat (by omega)
    rw [← e1, t1] at t2
    have a1 : T k ≤ 10 ^ 89 := by
      rw [t2]; exact Nat.le_mul_of_pos_right _ (ten_pow_pos _)
    rw [eU]
    exact Nat.lt_of_le_of_lt (Nat.mul_le_mul_left _ a1) pow_factsB
  have hYsub : e' = -1074 → units (-1074) m' e' = m' := by
    intro h; subst h; simp [units]
  -- everything on the common scale
  have hX : units (-1074) m e = m * 2 ^ (e - (-1074)).toNat := rfl
  obtain ⟨_, hopt⟩ := opt_scaled 53 (-1074) 971 _ ((d : Int) - k) m' e' (by decide) (by decide) (by omega) (by omega) hr
  have hoptx := hopt m (e - (-1074)).toNat hm53
  rw [← hX] at hoptx
  have hulp := halfulp_scaled 53 (-1074) 971 _ ((d : Int) - k) m' e' (by decide) (by decide) (by omega) (by omega) hr
  have hn0 := roundScaled_scaled m e ((d : Int) - k) (by omega) (by omega) (by omega)
  have eneg : -((d : Int) - k) = k - d := by omega
  rw [eneg] at hoptx hulp hn0
  have hs1 := (GE_scaled _ _ k (by omega) (by omega)).1 s1
  have hs2 : ¬ (2 ^ (-(-1074 : Int)).toNat * T (k + 1) ≤ units (-1074) m e * 10 ^ 400) :=
    fun hc => s2 ((GE_scaled _ _ (k + 1) (by omega) (by omega)).2 hc)
  have hTk : T k = T (k - d) * 10 ^ d := by
    have := T_add (k - d) d (by omega)
    have e1 : k - (d : Int) + (d : Int) = k := by omega
    rw [e1] at this; exact this
  have hTk1 : T (k + 1) = 10 * T k := T_succ k (by omega)
  have hTk2 : T (k + 1 + 1) = 10 * T (k + 1) := T_succ (k + 1) (by omega)
  have hTkd : T (k - d) = 10 * T (k - d - 1) := by
    have := T_succ (k - d - 1) (by omega)
    have e1 : k - (d : Int) - 1 + 1 = k - d := by omega
    rw [e1] at this; exact this
  have hTkd1 : T (k + 1 - d) = 10 * T (k - d) := by
    have := T_succ (k - d) (by omega)
    have e1 : k - (d : Int) + 1 = k + 1 - d := by omega
    rw [e1] at this; exact this
  have hTkm1 : T (k - 1) = T (k - d - 1) * 10 ^ d := by
    have := T_add (k - d - 1) d (by omega)
    have e1 : k - (d : Int) - 1 + (d : Int) = k - 1 := by omega
    rw [e1] at this; exact this
  have hTkm : T k = 10 * T (k - 1) := by
    have := T_succ (k - 1) (by omega)
    have e1 : k - 1 + 1 = k := by omega
    rw [e1] at this; exact this
  -- facts about Y
  have hY0 : ∀ {j : Int}, 0 < 2 ^ (-(-1074 : Int)).toNat * T j := fun {j} => Nat.mul_pos (two_pow_pos _) (T_pos j)
  generalize hU : 2 ^ (-(-1074 : Int)).toNat = U at *
  generalize hXu : units (-1074) m e = X at *
  generalize hYu : units (-1074) m' e' = Y at *
  generalize hS : (10 : Nat) ^ 400 = S at *
  generalize hn0v : roundScaled m e ((d : Int) - k) = n0 at *
  have hG : 0 < 10 ^ d := ten_pow_pos d
  generalize hGd : 10 ^ d = G at *
  have hB : 0 < U * T (k - d) := hY0
  -- the decade of x
  have h1 : G * (U * T (k - d)) ≤ X * S := by
    have : U * T k = G * (U * T (k - d)) := by rw [hTk]; grind
    omega
  have h2 : X * S < 10 * G * (U * T (k - d)) := by
    have : U * T (k + 1) = 10 * G * (U * T (k - d)) := by rw [hTk1, hTk]; grind
    omega
  -- digits of x
  obtain ⟨f1, f2, f3⟩ := digits_range (X * S) (U * T (k - d)) G hB h1 h2
  rw [← hn0] at f1 f2 f3
  -- helper: the decimal exponent of r from its position
  have hexp : ∀ j : Int, -400 ≤ j → j + 1 ≤ 400 → m' ≠ 0 → U * T j ≤ Y * S → Y * S < U * T (j + 1) →
      floorLog10 m' e' = j := by
    intro j hj1 hj2 hm0' ha hb
    apply floorLog10_eq m' e' hm0' hm' he1' he2' j
    · rw [hU, hYu]
      apply (GE_scaled U Y j hj1 (by omega)).2
      rw [hS]; exact ha
    · rw [hU, hYu]
      intro hc
      have := (GE_scaled U Y (j + 1) (by omega) hj2).1 hc
      rw [hS] at this
      omega
  have hYpos : 0 < Y * S → m' ≠ 0 := by
    intro hp h0
    subst h0
    simp [units] at hYu
    subst hYu
    simp at hp
  have hrs : ∀ j : Int, -400 ≤ j - d → j - d ≤ 400 →
      roundScaled m' e' ((d : Int) - j) = divHE (Y * S) (U * T (j - d)) := by
    intro j hj1 hj2
    have := roundScaled_scaled m' e' ((d : Int) - j) he1' (by omega) (by omega)
    have e1 : -((d : Int) - j) = j - d := by omega
    rw [e1, hU, hYu, hS] at this
    exact this
  have hG10 : G * 10 = 10 ^ (d + 1) := by rw [← hGd, Nat.pow_succ]
  by_cases hya : G * (U * T (k - d)) ≤ Y * S
  · by_cases hyb : Y * S < 10 * G * (U * T (k - d))
    · -- (a) inside the decade
      have hm0' := hYpos (Nat.lt_of_lt_of_le (Nat.mul_pos hG hB) hya)
      have hk' : floorLog10 m' e' = k := by
        apply hexp k (by omega) (by omega) hm0'
        · have : U * T k = G * (U * T (k - d)) := by rw [hTk]; grind
          omega
        · have : U * T (k + 1) = 10 * G * (U * T (k - d)) := by rw [hTk1, hTk]; grind
          omega
      have hn1 : roundScaled m' e' ((d : Int) - k) = n0 := by
        rw [hrs k (by omega) (by omega)]
        rw [hn0]; exact pos_inside (X * S) (Y * S) (U * T (k - d)) hB (by rw [← hn0]; exact hoptx)
      refine ⟨⟨hm0', hm', he1', he2'⟩, ?_⟩
      unfold sci
      simp only [hk', hn1]
      by_cases hc : n0 = 10 ^ (d + 1)
      · have hc' : (n0 == 10 ^ (d + 1)) = true := by simpa using hc
        simp only [hc', if_true]
        refine ⟨Nat.le_of_eq hGd.symm, by rw [← hG10, hGd]; omega, by omega, by omega, ?_, ?_⟩
        · have := nearestDec_shift 53 (-1074) 971 (10 ^ d) ((d : Int) - (k + 1))
          have e1 : (d : Int) - (k + 1) + 1 = d - k := by omega
          rw [e1, hGd, hG10] at this
          unfold nd53
          rw [hGd, ← this, ← hc]; exact hr
        · unfold nd53 at hr ⊢
          refine ⟨hr, by omega, by omega, fun _ => ?_⟩
          apply acc_shift _ n0 (U * T (k - d)) _ _ _ _ f3
          · rw [hTkd1, hc, Nat.pow_succ]; grind
          · rw [hTkd1]; exact Nat.mul_le_mul_left U (by omega)
      · have hc' : (n0 == 10 ^ (d + 1)) = false := by simpa using hc
        simp only [hc', Bool.false_eq_true, if_false]
        refine ⟨f1, by rw [← hG10]; omega, by omega, by omega, hr, hr, by omega, by omega, fun _ => f3⟩
    · -- (b) r is the next power of ten or above
      have hyb' : 10 * G * (U * T (k - d)) ≤ Y * S := by omega
      obtain ⟨g1, g2, g3⟩ := pos_above (X * S) (Y * S) (U * T (k - d)) G hB h1 h2
        (by rw [← hn0]; exact hoptx) hyb'
      rw [← hn0] at g1
      have hm0' := hYpos (Nat.lt_of_lt_of_le (Nat.mul_pos hG hB) hya)
      have hk' : floorLog10 m' e' = k + 1 := by
        apply hexp (k + 1) (by omega) (by omega) hm0'
        · have : U * T (k + 1) = 10 * G * (U * T (k - d)) := by rw [hTk1, hTk]; grind
          omega
        · have : U * T (k + 1 + 1) = 100 * G * (U * T (k - d)) := by rw [hTk2, hTk1, hTk]; grind
          omega
      have hn1 : roundScaled m' e' ((d : Int) - (k + 1)) = G := by
        rw [hrs (k + 1) (by omega) (by omega), hTkd1]
        have : U * (10 * T (k - d)) = 10 * (U * T (k - d)) := by grind
        rw [this]; exact g2
      refine ⟨⟨hm0', hm', he1', he2'⟩, ?_⟩
      unfold sci
      simp only [hk', hn1]
      have hc' : (G == 10 ^ (d + 1)) = false := by
        have : G ≠ 10 ^ (d + 1) := by rw [← hG10]; omega
        simpa using this
      simp only [hc', Bool.false_eq_true, if_false]
      have hsh := nearestDec_shift 53 (-1074) 971 G ((d : Int) - (k + 1))
      have e1 : (d : Int) - (k + 1) + 1 = d - k := by omega
      rw [e1] at hsh
      have hr' : nd53 G ((d : Int) - (k + 1)) = some (m', e') := by
        unfold nd53; rw [← hsh]
        have : G * 10 = n0 := by omega
        rw [this]; exact hr
      refine ⟨Nat.le_refl _, by rw [← hG10]; omega, by omega, by omega, hr', hr', by omega, by omega, fun _ => ?_⟩
      apply acc_shift _ n0 (U * T (k - d)) _ _ _ _ f3
      · rw [hTkd1, g1]; grind
      · rw [hTkd1]; exact Nat.mul_le_mul_left U (by omega)
  · -- (c) r fell below the decade of x
    have hyc : Y * S < G * (U * T (k - d)) := by omega
    have hBB : U * T (k - d) = 10 * (U * T (k - d - 1)) := by rw [hTkd]; grind
    have hB' : 0 < U * T (k - d - 1) := hY0
    have hn0pos : n0 ≠ 0 := by omega
    have hS0 : 0 < S := by rw [← hS]; exact ten_pow_pos _
    have hGle : G ≤ 10 ^ 12 := by rw [← hGd]; exact Nat.pow_le_pow_right (by decide) hd
    by_cases hreg : (d : Int) - 322 ≤ k
    rotate_left
    · -- the extra decade: `r` is a subnormal double one decade below `x`, where the decimal grid is
      -- finer than half a subnormal step (`sub_fine`)
      have hkd : k - (d : Int) = -323 := by omega
      have hGB : G * (U * T (k - d)) = U * T k := by rw [hTk]; grind
      have hlow : U * T k ≤ 2 * (Y * S) := by
        have a1 : G * (U * T (k - d)) ≤ n0 * (U * T (k - d)) := Nat.mul_le_mul_right _ f1
        have a2 : U * T (k - d) ≤ G * (U * T (k - d)) := Nat.le_mul_of_pos_left _ hG
        unfold absdiff at hoptx f3
        omega
      have hYlt : Y < 2 ^ 52 := by
        have := hsm (by omega)
        have a1 : Y * S < 2 ^ 52 * S := by omega
        exact Nat.lt_of_mul_lt_mul_right a1
      have hm0' : m' ≠ 0 := hYpos (by have := hY0 (j := k); omega)
      have he' : e' = -1074 := by
        rcases hnz hn0pos with h | h
        · exfalso
          have : m' ≤ Y := by
            rw [← hYu]
            show m' ≤ m' * 2 ^ (e' - (-1074)).toNat
            exact Nat.le_mul_of_pos_right _ (two_pow_pos _)
          omega
        · exact h
      have hY : Y = m' := hYsub he'
      subst he'
      have hk' : floorLog10 m' (-1074) = k - 1 := by
        apply hexp (k - 1) (by omega) (by omega) hm0'
        · have : U * T k = 10 * (U * T (k - 1)) := by rw [hTkm]; grind
          omega
        · have e1 : k - 1 + 1 = k := by omega
          rw [e1]; omega
      obtain ⟨q1, q2, q3, q4, q5, q6, _⟩ := sub_fine m' d hd hm0' (by omega) (by omega)
      rw [hk'] at q6
      refine ⟨⟨hm0', hm', he1', he2'⟩, by rw [← hGd]; exact q1, q2, q3, q4, q5, ?_, by omega, by omega, fun hc => absurd hc hreg⟩
      rw [hk']; exact q6
    have h5 : 20 * G ≤ 2 * m' := by
      rcases hnz hn0pos with h | h
      · have := pow_facts.2.2.1
        omega
      · -- r is subnormal: its significand is its value in units, within half a unit of the last
        -- digit emitted of `n0 ≥ 10^d` such units, each worth twenty subnormal steps or more
        have hY : Y = m' := hYsub h
        have a1 : G * (U * T (k - d)) ≤ n0 * (U * T (k - d)) := Nat.mul_le_mul_right _ f1
        have a2 : U * T (k - d) ≤ G * (U * T (k - d)) := Nat.le_mul_of_pos_left _ hG
        have a3 : G * (20 * S) ≤ G * (U * T (k - d)) := Nat.mul_le_mul_left _ (hB20 hreg)
        have a4 : G * (20 * S) = 2 * (10 * G * S) := by grind
        have a5 : 10 * G * S ≤ Y * S := by
          unfold absdiff at hoptx f3
          omega
        have a6 : 10 * G ≤ Y := Nat.le_of_mul_le_mul_right a5 hS0
        omega
    rw [hBB] at h1 h2 hyc
    have hoptx' := hoptx
    have hulp' := hulp
    rw [hn0, hBB] at hoptx' hulp'
    obtain ⟨g1, g2, g3⟩ := pos_below (X * S) (Y * S) (U * T (k - d - 1)) G m' hB' hG h1 h2 hoptx' hyc hulp' h5
    rw [← hBB, ← hn0] at g1
    have hm0' : m' ≠ 0 := by omega
    have hk' : floorLog10 m' e' = k - 1 := by
      apply hexp (k - 1) (by omega) (by omega) hm0'
      · have : U * T (k - 1) = G * (U * T (k - d - 1)) := by rw [hTkm1]; grind
        omega
      · have e1 : k - 1 + 1 = k := by omega
        rw [e1]
        have : U * T k = G * (10 * (U * T (k - d - 1))) := by rw [hTk, hTkd]; grind
        omega
    have hn1 : roundScaled m' e' ((d : Int) - (k - 1)) = 10 * G := by
      rw [hrs (k - 1) (by omega) (by omega)]
      have e1 : k - 1 - (d : Int) = k - d - 1 := by omega
      rw [e1]; exact g2
    refine ⟨⟨hm0', hm', he1', he2'⟩, ?_⟩
    unfold sci
    simp only [hk', hn1]
    have hc' : (10 * G == 10 ^ (d + 1)) = true := by
      have : 10 * G = 10 ^ (d + 1) := by rw [← hG10]; omega
      simpa using this
    simp only [hc', if_true]
    have e1 : k - 1 + 1 = k := by omega
    rw [e1]
    have hr' : nd53 G ((d : Int) - k) = some (m', e') := by rw [← g1]; exact hr
    refine ⟨Nat.le_of_eq hGd.symm, by rw [← hG10, hGd]; omega, by omega, by omega, by rw [hGd]; exact hr', ?_⟩
    have hsh := nearestDec_shift 53 (-1074) 971 G ((d : Int) - k)
    have e2 : (d : Int) - k + 1 = d - (k - 1) := by omega
    rw [e2] at hsh
    unfold nd53 at hr' ⊢
    have : 10 * G = G * 10 := by omega
    rw [this, hsh]
    refine ⟨hr', by omega, by omega, fun _ => ?_⟩
    rw [hGd, ← g1]; exact f3

end Proofs.FloatE
