import Cfi.Field
import Proofs.IntLaw
/-! `s.ljust(size).strip() == s.strip()`: the literal render/parse law. -/
namespace Cfi
open Cfi.Text

theorem dropWhile_replicate_append_any {p : Char → Bool} (k : Nat) (c : Char) (t : List Char) (hc : p c = true) :
    (List.replicate k c ++ t).dropWhile p = t.dropWhile p := by
  induction k with
  | zero => rfl
  | succ k ih => simp [List.replicate_succ, hc, ih]

theorem dropWhile_append_of_ne_nil {p : Char → Bool} (s t : List Char) (h : s.dropWhile p ≠ []) :
    (s ++ t).dropWhile p = s.dropWhile p ++ t := by
  induction s with
  | nil => simp at h
  | cons x s ih =>
    simp only [List.cons_append, List.dropWhile_cons]
    split
    · rename_i hx; simp only [List.dropWhile_cons, hx, if_true] at h; exact ih h
    · rfl

theorem dropWhile_append_of_eq_nil {p : Char → Bool} (s t : List Char) (h : s.dropWhile p = []) :
    (s ++ t).dropWhile p = t.dropWhile p := by
  induction s with
  | nil => rfl
  | cons x s ih =>
    simp only [List.cons_append, List.dropWhile_cons] at h ⊢
    split
    · rename_i hx; simp only [hx, if_true] at h; exact ih h
    · rename_i hx; simp [hx] at h

/-- padding with strippable characters on the right does not change `strip` -/
theorem stripBy_append_replicate {p : Char → Bool} (s : List Char) (k : Nat) (c : Char) (hc : p c = true) :
    stripBy p (s ++ List.replicate k c) = stripBy p s := by
  unfold stripBy
  by_cases h : s.dropWhile p = []
  · rw [dropWhile_append_of_eq_nil s _ h, h]
    have : (List.replicate k c).dropWhile p = [] := by
      have := dropWhile_replicate_append_any (p := p) k c [] hc
      simpa using this
    rw [this]
  · rw [dropWhile_append_of_ne_nil s _ h, List.reverse_append, List.reverse_replicate,
      dropWhile_replicate_append_any k c _ hc]

theorem isStripWs_blank : isStripWs ' ' = true := by decide

/-- **The literal render/parse law**: whatever the width, the left-justified text
of a literal reads back as the blank-trimmed literal. -/
theorem strip_ljust (s : List Char) (size : Nat) : strip (ljust s size ' ') = strip s := by
  unfold strip ljust
  exact stripBy_append_replicate s _ ' ' isStripWs_blank

theorem strip_replicate_blank (k : Nat) : strip (List.replicate k ' ') = [] := by
  have := stripBy_append_replicate (p := isStripWs) [] k ' ' isStripWs_blank
  simpa [strip, stripBy] using this

end Cfi
