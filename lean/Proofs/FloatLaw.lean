import Proofs.FloatText
import Cfi.Field
/-!
The float field in F notation, at the level of `renderText` / `parseText`:
when the rendering with the declared number of decimals fits the field, the
text written parses to `round(x, dec)`, and writing that value gives the same
text again.
-/
namespace Proofs.FloatLaw
open Cfi Cfi.Text Cfi.PyInt Cfi.Dbl Proofs.FloatText

/-- one-character substitution -/
def subst1 (a b : Char) (s : List Char) : List Char := s.map fun x => if x == a then b else x

theorem replaceNE_single (a b : Char) (s : List Char) (fuel : Nat) (hf : s.length ≤ fuel) :
    replaceNE [a] [b] fuel s = subst1 a b s := by
  induction s generalizing fuel with
  | nil => cases fuel <;> rfl
  | cons c cs ih =>
    cases fuel with
    | zero => simp at hf
    | succ fuel =>
      have hl : cs.length ≤ fuel := by simpa using hf
      have hi := ih fuel hl
      by_cases hc : c = a
      · subst hc
        have : isPrefix [c] (c :: cs) = true := by simp [isPrefix]
        simp only [replaceNE, this, if_true, List.length_singleton, List.drop_succ_cons, List.drop_zero, hi]
        simp [subst1]
      · have h1 : isPrefix [a] (c :: cs) = false := by
          simp only [isPrefix, Bool.and_true, beq_eq_false_iff_ne, ne_eq]; exact fun e => hc e.symm
        have h2 : (c == a) = false := by simpa using hc
        simp only [replaceNE, h1, Bool.false_eq_true, if_false, hi]
        simp [subst1, hc]

theorem replace_single (a b : Char) (s : List Char) : replace s [a] [b] = subst1 a b s := by
  simp only [replace, List.isEmpty_cons, Bool.false_eq_true, if_false]
  exact replaceNE_single a b s _ (Nat.le_succ _)

theorem subst1_length (a b : Char) (s : List Char) : (subst1 a b s).length = s.length := by
  simp [subst1]

/-- substituting back undoes the substitution when the new character did not occur -/
theorem subst1_back (a b : Char) (s : List Char) (h : ∀ x ∈ s, x ≠ b) : subst1 b a (subst1 a b s) = s := by
  unfold subst1
  rw [List.map_map]
  have : s.map ((fun x => if x == b then a else x) ∘ fun x => if x == a then b else x) = s.map id := by
    apply List.map_congr_left
    intro x hx
    by_cases hxa : x = a
    · subst hxa; simp
    · have hb' : x ≠ b := h x hx
      simp [hxa, hb']
  rw [this, List.map_id]

theorem subst1_absent (a b : Char) (s : List Char) (h : ∀ x ∈ s, x ≠ a) : subst1 a b s = s := by
  unfold subst1
  have : s.map (fun x => if x == a then b else x) = s.map id := by
    apply List.map_congr_left
    intro x hx
    have hb : x ≠ a := h x hx
    simp [hb]
  rw [this, List.map_id]

theorem subst1_append (a b : Char) (s t : List Char) : subst1 a b (s ++ t) = subst1 a b s ++ subst1 a b t := by
  simp [subst1]

/-- the F-notation loop stops at the declared number of decimals when that rendering fits -/
theorem floatLoopF_first (x r : Dbl) (size dec : Nat) (upper : Bool)
    (hr : pyRound x dec = some r) (hfit : (fmtF r dec upper).length ≤ size) :
    floatLoopF x size upper dec = .ok (fmtF r dec upper) := by
  cases dec with
  | zero =>
    simp only [floatLoopF]
    have : pyRound x ((0 : Nat) : Int) = some r := hr
    simp only [Int.ofNat_eq_natCast, Int.cast_ofNat_Int] at this ⊢
    rw [this]; rfl
  | succ d =>
    simp only [floatLoopF]
    have : pyRound x ((d + 1 : Nat) : Int) = some r := hr
    simp only [Int.natCast_add, Int.natCast_one] at this
    rw [this]
    simp only [Option.elim, bind, Except.bind, hfit, if_true]
    rfl

/-- `FloatField._textual_write` in F notation when the declared decimals fit -/
theorem renderText_fltF (f : Field) (dec : Nat) (fmt c : Char) (hk : f.kind = .flt dec fmt [c])
    (hfmt : fmt = 'F' ∨ fmt = 'f') (x r : Dbl) (hn : x.isNaN = false)
    (hr : pyRound x dec = some r) (hfit : (fmtF r dec (fmt == 'F')).length ≤ f.size) :
    renderText f (.dbl x) = .ok (rjust (subst1 '.' c (fmtF r dec (fmt == 'F'))) f.size ' ') := by
  unfold renderText renderRaw renderFull
  rcases hfmt with rfl | rfl
  · have hl := floatLoopF_first x r f.size dec true hr (by simpa using hfit)
    simp [hk, Val.isNull, hn, hl, Except.map, replace_single]
  · have hl := floatLoopF_first x r f.size dec false hr (by simpa using hfit)
    simp [hk, Val.isNull, hn, hl, Except.map, replace_single]

theorem subst1_same (a : Char) (s : List Char) : subst1 a a s = s := by
  unfold subst1
  have : s.map (fun x => if x == a then a else x) = s.map id := by
    apply List.map_congr_left
    intro x _
    by_cases h : x = a <;> simp [h]
  rw [this, List.map_id]

theorem body_chars (neg : Bool) (ip fp : List Char) (hd : ∀ c ∈ ip ++ fp, c.isDigit = true) :
    ∀ x ∈ body neg ip fp, x = '-' ∨ x = '.' ∨ x.isDigit = true := by
  intro x hx
  unfold body at hx
  simp only [List.mem_append] at hx
  rcases hx with hx | hx | hx
  · cases neg
    · simp at hx
    · simp at hx; exact Or.inl hx
  · exact Or.inr (Or.inr (hd x (by simp [hx])))
  · by_cases hf : fp.isEmpty = true
    · simp [hf] at hx
    · simp only [hf, Bool.false_eq_true, if_false, List.mem_cons] at hx
      rcases hx with rfl | hx
      · exact Or.inr (Or.inl rfl)
      · exact Or.inr (Or.inr (hd x (by simp [hx])))

/-- reading undoes the separator substitution of writing -/
theorem sep_back (c : Char) (hc1 : c ≠ ' ') (hc2 : c.isDigit = false) (hc3 : c ≠ '-')
    (k : Nat) (neg : Bool) (ip fp : List Char) (hd : ∀ c ∈ ip ++ fp, c.isDigit = true) :
    subst1 c '.' (List.replicate k ' ' ++ subst1 '.' c (body neg ip fp)) = List.replicate k ' ' ++ body neg ip fp := by
  rw [subst1_append]
  have h1 : subst1 c '.' (List.replicate k ' ') = List.replicate k ' ' := by
    apply subst1_absent
    intro x hx
    rw [List.mem_replicate] at hx
    rw [hx.2]; exact fun e => hc1 e.symm
  rw [h1]
  congr 1
  by_cases hdot : c = '.'
  · subst hdot; rw [subst1_same, subst1_same]
  · apply subst1_back
    intro x hx
    rcases body_chars neg ip fp hd x hx with rfl | rfl | h
    · exact fun e => hc3 e.symm
    · exact fun e => hdot e.symm
    · intro e; subst e; rw [h] at hc2; exact absurd hc2 (by simp)

/-- **F-notation float fields, declared decimals fitting**: the text written is `size` wide,
parses to `round(x, dec)`, and writing that value gives the same text again. -/
theorem fltF_core (f : Field) (dec : Nat) (fmt c : Char) (hk : f.kind = .flt dec fmt [c])
    (hfmt : fmt = 'F' ∨ fmt = 'f') (hc1 : c ≠ ' ') (hc2 : c.isDigit = false) (hc3 : c ≠ '-')
    (neg : Bool) (m : Nat) (e : Int) (hwf : wf m e) (hdec : dec ≤ 323) (r : Dbl)
    (hr : pyRound (.fin neg m e) dec = some r) (hfit : (fmtF r dec (fmt == 'F')).length ≤ f.size) :
    ∃ t, renderText f (.dbl (.fin neg m e)) = .ok t ∧ t.length = f.size ∧
      parseText f.kind t = some (.dbl r) ∧ renderText f (.dbl r) = .ok t ∧
      t = rjust (subst1 '.' c (body neg (fip (roundScaled m e dec) dec) (ffp (roundScaled m e dec) dec))) f.size ' ' := by
  obtain ⟨hpf, hidem, hbody⟩ := float_fmtF_round neg m e dec hwf hdec r hr (f.size - (fmtF r dec (fmt == 'F')).length) (fmt == 'F')
  obtain ⟨m', e', _, hrfin⟩ := pyRound_fin neg m e dec hdec r hr
  have hrn : r.isNaN = false := by rw [hrfin]; rfl
  refine ⟨rjust (subst1 '.' c (fmtF r dec (fmt == 'F'))) f.size ' ', ?_, ?_, ?_, ?_, by rw [hbody]⟩
  · exact renderText_fltF f dec fmt c hk hfmt _ r rfl hr hfit
  · simp only [rjust, List.length_append, List.length_replicate, subst1_length]; omega
  · rw [hk]
    simp only [parseText, replace_single, rjust, subst1_length]
    have hdig : ∀ x ∈ fip (roundScaled m e dec) dec ++ ffp (roundScaled m e dec) dec, x.isDigit = true := by
      rw [fip_ffp]; exact fdigits_isDigit _ _
    rw [hbody, sep_back c hc1 hc2 hc3 _ neg _ _ hdig, ← hbody, hpf]
    rfl
  · exact renderText_fltF f dec fmt c hk hfmt r r hrn hidem hfit

end Proofs.FloatLaw
