import Proofs.FloatLoop
/-!
`floorLog10 m e` is the decimal exponent of `m·2^e`: the estimate from the bit length is within
one (checked for every binary exponent of a double by evaluation in the kernel), and the two
correction loops land on the exact value.
-/
open Cfi Cfi.Dbl Proofs.Nearest
namespace Proofs.FloorLog10

/-- `x ≥ 10^k` in units of `2^-1074` -/
def GE (U X : Nat) (k : Int) : Prop := U * 10 ^ k.toNat ≤ X * 10 ^ (-k).toNat

theorem GE_mono (U X : Nat) (k : Int) (h : GE U X (k + 1)) : GE U X k := by
  unfold GE at *
  by_cases hk : 0 ≤ k
  · have e1 : (k + 1).toNat = k.toNat + 1 := by omega
    have e2 : (-(k + 1)).toNat = 0 := by omega
    have e3 : (-k).toNat = 0 := by omega
    rw [e1, e2, Nat.pow_succ] at h
    rw [e3]
    have : U * 10 ^ k.toNat ≤ U * (10 ^ k.toNat * 10) := by
      apply Nat.mul_le_mul_left
      exact Nat.le_mul_of_pos_right _ (by decide)
    exact Nat.le_trans this h
  · have e1 : (k + 1).toNat = 0 := by omega
    have e2 : (-k).toNat = (-(k + 1)).toNat + 1 := by omega
    have e3 : k.toNat = 0 := by omega
    rw [e1] at h
    rw [e2, e3, Nat.pow_succ]
    have : X * 10 ^ (-(k + 1)).toNat ≤ X * (10 ^ (-(k + 1)).toNat * 10) := by
      apply Nat.mul_le_mul_left
      exact Nat.le_mul_of_pos_right _ (by decide)
    exact Nat.le_trans h this

/-- the test `floorLog10` performs is `GE` -/
theorem ge_iff (m : Nat) (e : Int) (he : -1074 ≤ e) (k : Int) :
    (match frac m e (-k) with | (a, b) => decide (b ≤ a)) = true ↔
      GE (2 ^ (-(-1074 : Int)).toNat) (units (-1074) m e) k := by
  obtain ⟨hb, hfr⟩ := frac_units m e (-k) (-1074) he (by decide)
  unfold GE
  have hU := two_pow_pos (-(-1074 : Int)).toNat
  generalize 2 ^ (-(-1074 : Int)).toNat = U at *
  rw [Int.neg_neg] at hfr
  generalize frac m e (-k) = ab at *
  obtain ⟨a, b⟩ := ab
  simp only [decide_eq_true_eq] at *
  generalize units (-1074) m e = X at *
  constructor
  · intro h
    have h1 := Nat.mul_le_mul_right (U * 10 ^ k.toNat) h
    rw [hfr] at h1
    have : b * (U * 10 ^ k.toNat) = U * 10 ^ k.toNat * b := Nat.mul_comm _ _
    rw [this] at h1
    exact Nat.le_of_mul_le_mul_right h1 hb
  · intro h
    have h1 := Nat.mul_le_mul_right b h
    rw [← hfr] at h1
    have : U * 10 ^ k.toNat * b = b * (U * 10 ^ k.toNat) := Nat.mul_comm _ _
    rw [this] at h1
    exact Nat.le_of_mul_le_mul_right h1 (Nat.mul_pos hU (ten_pow_pos _))

/-! ### the two loops -/

theorem down_spec (ge : Int → Bool) (k : Int) (fuel : Nat) :
    (∃ i, i < fuel ∧ ge (k - i) = true) →
    ∃ i, i < fuel ∧ floorLog10.down ge k fuel = k - i ∧ ge (k - i) = true ∧
      ∀ t : Nat, t < i → ge (k - t) = false := by
  induction fuel generalizing k with
  | zero => intro ⟨i, hi, _⟩; omega
  | succ f ih =>
    intro ⟨i, hi, hg⟩
    by_cases h0 : ge k = true
    · refine ⟨0, by omega, ?_, by simpa using h0, fun t ht => by omega⟩
      simp [floorLog10.down, h0]
    · have h0' : ge k = false := by simpa using h0
      have hi0 : i ≠ 0 := by
        intro h; subst h; simp at hg; exact h0 hg
      obtain ⟨i', hi', h1, h2, h3⟩ := ih (k - 1) ⟨i - 1, by omega, by
        have : k - 1 - ((i - 1 : Nat) : Int) = k - (i : Int) := by omega
        rw [this]; exact hg⟩
      refine ⟨i' + 1, by omega, ?_, ?_, ?_⟩
      · have : floorLog10.down ge k (f + 1) = floorLog10.down ge (k - 1) f := by
          simp [floorLog10.down, h0]
        rw [this, h1]; push_cast; omega
      · have : k - ((i' + 1 : Nat) : Int) = k - 1 - (i' : Int) := by push_cast; omega
        rw [this]; exact h2
      · intro t ht
        by_cases ht0 : t = 0
        · subst ht0; simpa using h0'
        · have := h3 (t - 1) (by omega)
          have e : k - 1 - ((t - 1 : Nat) : Int) = k - (t : Int) := by omega
          rw [e] at this; exact this

theorem up_spec (ge : Int → Bool) (k : Int) (fuel : Nat) :
    (∃ i, i < fuel ∧ ge (k + i + 1) = false) →
    ∃ i, i < fuel ∧ floorLog10.up ge k fuel = k + i ∧ ge (k + i + 1) = false ∧
      ∀ t : Nat, t < i → ge (k + t + 1) = true := by
  induction fuel generalizing k with
  | zero => intro ⟨i, hi, _⟩; omega
  | succ f ih =>
    intro ⟨i, hi, hg⟩
    by_cases h0 : ge (k + 1) = true
    · have hi0 : i ≠ 0 := by
        intro h; subst h; simp at hg; rw [hg] at h0; exact absurd h0 (by simp)
      obtain ⟨i', hi', h1, h2, h3⟩ := ih (k + 1) ⟨i - 1, by omega, by
        have : k + 1 + ((i - 1 : Nat) : Int) + 1 = k + (i : Int) + 1 := by omega
        rw [this]; exact hg⟩
      refine ⟨i' + 1, by omega, ?_, ?_, ?_⟩
      · have : floorLog10.up ge k (f + 1) = floorLog10.up ge (k + 1) f := by
          simp [floorLog10.up, h0]
        rw [this, h1]; push_cast; omega
      · have : k + ((i' + 1 : Nat) : Int) + 1 = k + 1 + (i' : Int) + 1 := by push_cast; omega
        rw [this]; exact h2
      · intro t ht
        by_cases ht0 : t = 0
        · subst ht0; simpa using h0
        · have := h3 (t - 1) (by omega)
          have e : k + 1 + ((t - 1 : Nat) : Int) + 1 = k + (t : Int) + 1 := by omega
          rw [e] at this; exact this
    · have h0' : ge (k + 1) = false := by simpa using h0
      refine ⟨0, by omega, ?_, by simpa using h0', fun t ht => by omega⟩
      simp [floorLog10.up, h0']

/-! ### the estimate from the bit length -/

/-- `10^a ≤ 2^b` for integer exponents, by cross-multiplication -/
def pow10le2 (a b : Int) : Bool :=
  decide (10 ^ a.toNat * 2 ^ (-b).toNat ≤ 2 ^ b.toNat * 10 ^ (-a).toNat)

/-- `2^b ≤ 10^a` -/
def pow2le10 (b a : Int) : Bool :=
  decide (2 ^ b.toNat * 10 ^ (-a).toNat ≤ 10 ^ a.toNat * 2 ^ (-b).toNat)

def estOf (j : Int) : Int := (j * 30103) / 100000

/-- for every binary exponent of a double, `10^(est-1) ≤ 2^j` and `2^(j+1) ≤ 10^(est+2)` -/
def tableOk : Bool :=
  (List.range 2100).all fun i =>
    let j : Int := (i : Int) - 1075
    pow10le2 (estOf j - 1) j && pow2le10 (j + 1) (estOf j + 2)

set_option exponentiation.threshold 5000 in
theorem tableOk_true : tableOk = true := by decide +kernel

theorem table_at (j : Int) (h1 : -1075 ≤ j) (h2 : j < 1025) :
    pow10le2 (estOf j - 1) j = true ∧ pow2le10 (j + 1) (estOf j + 2) = true := by
  have h := tableOk_true
  unfold tableOk at h
  rw [List.all_eq_true] at h
  have := h (j + 1075).toNat (by simp only [List.mem_range]; omega)
  have e : (((j + 1075).toNat : Nat) : Int) - 1075 = j := by omega
  simp only [e, Bool.and_eq_true] at this
  exact this

theorem units_bounds (m : Nat) (e : Int) (hm0 : m ≠ 0) :
    2 ^ (m.log2 + (e - (-1074)).toNat) ≤ units (-1074) m e ∧
    units (-1074) m e < 2 ^ (m.log2 + 1 + (e - (-1074)).toNat) := by
  have h1 : 2 ^ m.log2 ≤ m := Nat.log2_self_le hm0
  have h2 : m < 2 ^ (m.log2 + 1) := Nat.lt_log2_self
  unfold units
  constructor
  · rw [Nat.pow_add]; exact Nat.mul_le_mul_right _ h1
  · rw [Nat.pow_add]; exact Nat.mul_lt_mul_of_pos_right h2 (two_pow_pos _)

theorem est_lower (m : Nat) (e : Int) (hm0 : m ≠ 0) (hm : m < 2 ^ 53) (he1 : -1074 ≤ e) (he2 : e ≤ 971) :
    GE (2 ^ (-(-1074 : Int)).toNat) (units (-1074) m e) (estOf ((m.log2 : Int) + e) - 1) := by
  have hlg : m.log2 < 53 := (Nat.log2_lt hm0).2 hm
  obtain ⟨t1, _⟩ := table_at ((m.log2 : Int) + e) (by omega) (by omega)
  obtain ⟨hX, _⟩ := units_bounds m e hm0
  unfold pow10le2 at t1
  simp only [decide_eq_true_eq] at t1
  unfold GE
  generalize estOf ((m.log2 : Int) + e) - 1 = a at *
  have eU : (-(-1074 : Int)).toNat = 1074 := by decide
  -- exponents
  have hj1 : (-((m.log2 : Int) + e)).toNat ≤ (-(-1074 : Int)).toNat := by omega
  have hj2 : (-(-1074 : Int)).toNat - (-((m.log2 : Int) + e)).toNat + ((m.log2 : Int) + e).toNat =
      m.log2 + (e - (-1074)).toNat := by omega
  have hsplit : 2 ^ (-(-1074 : Int)).toNat =
      2 ^ (-((m.log2 : Int) + e)).toNat * 2 ^ ((-(-1074 : Int)).toNat - (-((m.log2 : Int) + e)).toNat) := by
    rw [← Nat.pow_add]; congr 1; omega
  have h3 := Nat.mul_le_mul_right (2 ^ ((-(-1074 : Int)).toNat - (-((m.log2 : Int) + e)).toNat)) t1
  have h4 := Nat.mul_le_mul_right (10 ^ (-a).toNat) hX
  rw [← hj2, Nat.pow_add] at h4
  rw [hsplit]
  generalize 2 ^ ((-(-1074 : Int)).toNat - (-((m.log2 : Int) + e)).toNat) = A at *
  generalize 2 ^ (-((m.log2 : Int) + e)).toNat = B at *
  generalize 2 ^ ((m.log2 : Int) + e).toNat = C at *
  generalize units (-1074) m e = X at *
  generalize 10 ^ a.toNat = P at *
  generalize 10 ^ (-a).toNat = Q at *
  have e1 : B * A * P = P * B * A := by grind
  have e2 : C * Q * A = A * C * Q := by grind
  omega

theorem est_upper (m : Nat) (e : Int) (hm0 : m ≠ 0) (hm : m < 2 ^ 53) (he1 : -1074 ≤ e) (he2 : e ≤ 971) :
    ¬ GE (2 ^ (-(-1074 : Int)).toNat) (units (-1074) m e) (estOf ((m.log2 : Int) + e) + 2) := by
  have hlg : m.log2 < 53 := (Nat.log2_lt hm0).2 hm
  obtain ⟨_, t2⟩ := table_at ((m.log2 : Int) + e) (by omega) (by omega)
  obtain ⟨_, hX⟩ := units_bounds m e hm0
  unfold pow2le10 at t2
  simp only [decide_eq_true_eq] at t2
  unfold GE
  generalize estOf ((m.log2 : Int) + e) + 2 = a at *
  have eU : (-(-1074 : Int)).toNat = 1074 := by decide
  have hj1 : (-((m.log2 : Int) + e + 1)).toNat ≤ (-(-1074 : Int)).toNat := by omega
  have hj2 : ((m.log2 : Int) + e + 1).toNat + ((-(-1074 : Int)).toNat - (-((m.log2 : Int) + e + 1)).toNat) =
      m.log2 + 1 + (e - (-1074)).toNat := by omega
  have hsplit : 2 ^ (-(-1074 : Int)).toNat =
      2 ^ (-((m.log2 : Int) + e + 1)).toNat * 2 ^ ((-(-1074 : Int)).toNat - (-((m.log2 : Int) + e + 1)).toNat) := by
    rw [← Nat.pow_add]; congr 1; omega
  have hQ := ten_pow_pos (-a).toNat
  have h3 := Nat.mul_le_mul_right (2 ^ ((-(-1074 : Int)).toNat - (-((m.log2 : Int) + e + 1)).toNat)) t2
  have h4 := Nat.mul_lt_mul_of_pos_right hX hQ
  rw [← hj2, Nat.pow_add] at h4
  rw [hsplit]
  generalize 2 ^ ((-(-1074 : Int)).toNat - (-((m.log2 : Int) + e + 1)).toNat) = A at *
  generalize 2 ^ (-((m.log2 : Int) + e + 1)).toNat = B at *
  generalize 2 ^ ((m.log2 : Int) + e + 1).toNat = C at *
  generalize units (-1074) m e = X at *
  generalize 10 ^ a.toNat = P at *
  generalize 10 ^ (-a).toNat = Q at *
  have e1 : C * Q * A = C * A * Q := by grind
  have e2 : P * B * A = B * A * P := by grind
  omega

/-- **`floorLog10` is the decimal exponent**: `10^k ≤ x < 10^(k+1)` for the `k` it returns, and
`k` is within one of the estimate from the bit length -/
theorem floorLog10_spec (m : Nat) (e : Int) (hm0 : m ≠ 0) (hm : m < 2 ^ 53) (he1 : -1074 ≤ e) (he2 : e ≤ 971) :
    GE (2 ^ (-(-1074 : Int)).toNat) (units (-1074) m e) (floorLog10 m e) ∧
    ¬ GE (2 ^ (-(-1074 : Int)).toNat) (units (-1074) m e) (floorLog10 m e + 1) := by
  have hlo := est_lower m e hm0 hm he1 he2
  have hhi := est_upper m e hm0 hm he1 he2
  unfold floorLog10
  simp only [Int.ofNat_eq_natCast]
  have hest : ((m.log2 : Int) + e) * 30103 / 100000 = estOf ((m.log2 : Int) + e) := rfl
  rw [hest]
  generalize estOf ((m.log2 : Int) + e) = est at *
  -- the test as a proposition
  have hge : ∀ k, (match frac m e (-k) with | (a, b) => decide (b ≤ a)) = true ↔
      GE (2 ^ (-(-1074 : Int)).toNat) (units (-1074) m e) k := ge_iff m e he1
  generalize hg : (fun k : Int => match frac m e (-k) with | (a, b) => decide (b ≤ a)) = ge at *
  have hge' : ∀ k, ge k = true ↔ GE (2 ^ (-(-1074 : Int)).toNat) (units (-1074) m e) k := by
    intro k; rw [← hg]; exact hge k
  -- down
  obtain ⟨i1, hi1, hd, hdg, hdmin⟩ := down_spec ge est 5 ⟨1, by omega, by
    have : est - ((1 : Nat) : Int) = est - 1 := by omega
    rw [this]; exact (hge' _).2 hlo⟩
  have hi1' : i1 ≤ 1 := by
    apply Nat.le_of_not_lt
    intro hlt
    have := hdmin 1 hlt
    have e1 : est - ((1 : Nat) : Int) = est - 1 := by omega
    rw [e1] at this
    rw [(hge' _).2 hlo] at this
    exact absurd this (by simp)
  rw [hd]
  -- up
  obtain ⟨i2, hi2, hu, hug, humin⟩ := up_spec ge (est - i1) 5 ⟨i1 + 1, by omega, by
    have : est - (i1 : Int) + ((i1 + 1 : Nat) : Int) + 1 = est + 2 := by push_cast; omega
    rw [this]
    cases h : ge (est + 2) with
    | false => rfl
    | true => exact absurd ((hge' _).1 h) hhi⟩
  rw [hu]
  constructor
  · apply (hge' _).1
    by_cases h0 : i2 = 0
    · subst h0; simpa using hdg
    · have := humin (i2 - 1) (by omega)
      have e1 : est - (i1 : Int) + ((i2 - 1 : Nat) : Int) + 1 = est - (i1 : Int) + (i2 : Int) := by omega
      rw [e1] at this; exact this
  · intro hcon
    have := (hge' _).2 hcon
    rw [hug] at this
    exact absurd this (by simp)

end Proofs.FloorLog10
