import Proofs.FloatELaw
import Proofs.FloatClauses
/-!
The float clauses of C01 (dialect, half-unit accuracy) for float fields in E notation.
-/
open Cfi Cfi.Text Cfi.PyInt Cfi.Dbl Spec.C01 Proofs.Nearest Proofs.FloatText Proofs.FloatLoop Proofs.FloorLog10
  Proofs.FloatE Proofs.FloatELaw Proofs.FloatLaw Proofs.FloatClauses

set_option exponentiation.threshold 5000

namespace Proofs.FloatEClauses

/-- the E-notation text with the field's separator -/
def sbodyE (c : Char) (neg : Bool) (ip fp : List Char) (ech : Char) (eneg : Bool) (exd : List Char) : List Char :=
  sbody c neg ip fp ++ (ech :: (if eneg then '-' else '+') :: exd)

theorem bodyE_eq (neg : Bool) (ip fp : List Char) (ech : Char) (eneg : Bool) (exd : List Char) :
    bodyE neg ip fp ech eneg exd = body neg ip fp ++ (ech :: (if eneg then '-' else '+') :: exd) := by
  unfold bodyE body
  simp only [List.append_assoc]

theorem subst1_bodyE (c : Char) (neg : Bool) (ip fp : List Char) (ech : Char) (eneg : Bool) (exd : List Char)
    (hd : ∀ x ∈ ip ++ fp ++ exd, x.isDigit = true) (hech : ech ≠ '.') :
    subst1 '.' c (bodyE neg ip fp ech eneg exd) = sbodyE c neg ip fp ech eneg exd := by
  rw [bodyE_eq, subst1_append, subst1_body c neg ip fp (fun x hx => hd x (List.mem_append_left _ hx))]
  unfold sbodyE
  congr 1
  apply subst1_absent
  intro x hx
  simp only [List.mem_cons] at hx
  rcases hx with rfl | rfl | hx
  · exact hech
  · cases eneg <;> decide
  · intro e; subst e
    have := hd '.' (by simp [hx])
    exact absurd this (by decide)

theorem span_loop_stop (p : Char → Bool) (a : List Char) (x : Char) (b acc : List Char)
    (ha : ∀ y ∈ a, p y = true) (hx : p x = false) :
    List.span.loop p (a ++ x :: b) acc = (acc.reverse ++ a, x :: b) := by
  induction a generalizing acc with
  | nil => simp [List.span.loop, hx]
  | cons y a ih =>
    have hy := ha y (by simp)
    simp only [List.cons_append, List.span.loop, hy]
    rw [ih (y :: acc) (fun z hz => ha z (by simp [hz]))]
    simp

theorem span_stop (p : Char → Bool) (a : List Char) (x : Char) (b : List Char)
    (ha : ∀ y ∈ a, p y = true) (hx : p x = false) : (a ++ x :: b).span p = (a, x :: b) := by
  unfold List.span
  rw [span_loop_stop p a x b [] ha hx]
  simp

/-- the reference parser on the text of an E-notation field -/
theorem parseNumeral_sbodyE (c : Char) (hc2 : isAsciiDigit c = false) (hce : c ≠ 'e' ∧ c ≠ 'E')
    (neg : Bool) (d0 : Char) (fp : List Char) (ech : Char) (eneg : Bool) (exd : List Char)
    (hd : ∀ x ∈ [d0] ++ fp ++ exd, x.isDigit = true) (hech : ech = 'e' ∨ ech = 'E') (hxl : 2 ≤ exd.length) :
    parseNumeral (sbodyE c neg [d0] fp ech eneg exd) [c] =
      some { neg := neg, digits := [d0] ++ fp,
             lastExp := (if eneg then -(natOfDigits exd : Int) else (natOfDigits exd : Int)) - (fp.length : Int),
             nfrac := fp.length, expLetter := some ech } := by
  have hd1 : ∀ x ∈ [d0] ++ fp, x.isDigit = true := fun x hx => hd x (List.mem_append_left _ hx)
  have hall : ∀ x ∈ sbody c neg [d0] fp, (x != 'e' && x != 'E') = true := by
    intro x hx
    rcases sbody_chars c neg [d0] fp hd1 x hx with rfl | rfl | h
    · decide
    · simp [hce.1, hce.2]
    · have := (Cfi.isDigit_iff x).1 h
      have h1 : x ≠ 'e' := by intro e; subst e; simp at this
      have h2 : x ≠ 'E' := by intro e; subst e; simp at this
      simp [h1, h2]
  have hstop : (ech != 'e' && ech != 'E') = false := by rcases hech with rfl | rfl <;> decide
  have hxd : exd.all isAsciiDigit = true := by
    rw [List.all_eq_true]
    intro x hx
    exact isAsciiDigit_of (hd x (by simp [hx]))
  unfold parseNumeral sbodyE
  rw [span_stop _ _ _ _ hall hstop]
  simp only [splitFixed_sbody c hc2 neg [d0] fp (by simp) hd1]
  have hsg : ((if eneg then '-' else '+') == '+' || (if eneg then '-' else '+') == '-') = true := by
    cases eneg <;> decide
  have hlen : decide (exd.length ≥ 2) = true := by simpa using hxl
  simp only [List.length_singleton, beq_self_eq_true, hsg, hlen, hxd, Bool.and_self, if_true]
  cases eneg <;> simp

theorem strip_sbodyE (c : Char) (hcw : isStripWs c = false) (k : Nat) (neg : Bool) (ip fp : List Char)
    (ech : Char) (eneg : Bool) (exd : List Char)
    (hd : ∀ x ∈ ip ++ fp ++ exd, x.isDigit = true) (hech : ech = 'e' ∨ ech = 'E') :
    strip (List.replicate k ' ' ++ sbodyE c neg ip fp ech eneg exd) = sbodyE c neg ip fp ech eneg exd := by
  have hd1 : ∀ x ∈ ip ++ fp, x.isDigit = true := fun x hx => hd x (List.mem_append_left _ hx)
  have hall : ∀ x ∈ sbodyE c neg ip fp ech eneg exd, isStripWs x = false := by
    intro x hx
    unfold sbodyE at hx
    simp only [List.mem_append, List.mem_cons] at hx
    rcases hx with hx | rfl | rfl | hx
    · rcases sbody_chars c neg ip fp hd1 x hx with rfl | rfl | h
      · decide
      · exact hcw
      · exact isStripWs_digit h
    · rcases hech with rfl | rfl <;> decide
    · cases eneg <;> decide
    · exact isStripWs_digit (hd x (by simp [hx]))
  unfold strip
  apply Cfi.stripBy_pad_left k ' ' _ (by decide)
  · intro x hx; exact hall x (List.mem_of_mem_head? hx)
  · intro x hx; exact hall x (List.mem_of_getLast? hx)

/-- `frac m e nd` on the common scale -/
theorem frac_scaled (m : Nat) (e nd : Int) (he : -1074 ≤ e) (h1 : -400 ≤ nd) (h2 : nd ≤ 400) :
    0 < (frac m e nd).2 ∧
    (frac m e nd).1 * (2 ^ (-(-1074 : Int)).toNat * T (-nd)) =
      (frac m e nd).2 * (units (-1074) m e * 10 ^ 400) := by
  obtain ⟨hb, hfu⟩ := frac_units m e nd (-1074) he (by decide)
  refine ⟨hb, ?_⟩
  have hps := pow_split nd h1 h2
  have hBn := ten_pow_pos (-nd).toNat
  apply Nat.eq_of_mul_eq_mul_right hBn
  generalize (frac m e nd).1 = a at *
  generalize (frac m e nd).2 = b at *
  generalize 2 ^ (-(-1074 : Int)).toNat = U at *
  generalize units (-1074) m e = X at *
  generalize 10 ^ nd.toNat = A at *
  generalize 10 ^ (-nd).toNat = Bn at *
  generalize T (-nd) = C at *
  generalize (10 : Nat) ^ 400 = S at *
  calc a * (U * C) * Bn = a * (U * Bn) * C := by grind
    _ = X * A * b * C := by rw [hfu]
    _ = X * b * (A * C) := by grind
    _ = X * b * (S * Bn) := by rw [hps]
    _ = b * (X * S) * Bn := by grind

theorem acc_cross (N a b D B' : Nat) (hB : 0 < B') (hx : a * B' = b * D)
    (h : 2 * absdiff (N * B') D ≤ B') : 2 * absdiff (N * b) a ≤ b := by
  apply Nat.le_of_mul_le_mul_right _ hB
  have e1 : absdiff (N * b) a * B' = absdiff (N * B') D * b := by
    rw [← absdiff_mul, hx, ← absdiff_mul]
    congr 1
    · grind
    · grind
  calc 2 * absdiff (N * b) a * B' = 2 * (absdiff (N * b) a * B') := by grind
    _ = 2 * (absdiff (N * B') D * b) := by rw [e1]
    _ = 2 * absdiff (N * B') D * b := by grind
    _ ≤ B' * b := Nat.mul_le_mul_right b h
    _ = b * B' := Nat.mul_comm _ _

theorem accurate_of (neg : Bool) (m : Nat) (e : Int) (ds : List Char) (le : Int) (nf : Nat) (el : Option Char)
    (h : 2 * absdiff (natOfDigits ds * (frac m e (-le)).2) (frac m e (-le)).1 ≤ (frac m e (-le)).2) :
    accurate (.fin neg m e) { neg := neg, digits := ds, lastExp := le, nfrac := nf, expLetter := el } = true := by
  unfold accurate
  simp only [beq_self_eq_true, Bool.true_or, Bool.and_true, decide_eq_true_eq]
  rw [absdiff_int]
  exact h

/-- the digits printed in E notation are within half a unit of their last place of `x` -/
theorem accurate_sci (neg : Bool) (m : Nat) (e : Int) (he : -1074 ≤ e) (m' : Nat) (e' : Int) (d : Nat) (hd : d ≤ 12)
    (h : SciOk m e m' e' d) (ech : Char) :
    accurate (.fin neg m e)
      { neg := neg,
        digits := natDigits (sci m' e' d).1,
        lastExp := (sci m' e' d).2 - (d : Int), nfrac := d, expLetter := some ech } = true := by
  obtain ⟨hN1, hN2, hK1, hK2, hacc⟩ := h
  obtain ⟨hb, hx⟩ := frac_scaled m e (-((sci m' e' d).2 - (d : Int))) he (by omega) (by omega)
  rw [Int.neg_neg ((sci m' e' d).2 - (d : Int))] at hx
  apply accurate_of
  rw [natOfDigits_eq, ofDigits_natDigits]
  have hB := Nat.mul_pos (two_pow_pos (-(-1074 : Int)).toNat) (T_pos ((sci m' e' d).2 - d))
  generalize 2 ^ (-(-1074 : Int)).toNat * T ((sci m' e' d).2 - d) = B' at *
  generalize units (-1074) m e * 10 ^ 400 = D at *
  generalize frac m e (-((sci m' e' d).2 - (d : Int))) = ab at *
  exact acc_cross (sci m' e' d).1 ab.1 ab.2 D B' hB hx hacc

theorem expDigits_len2 (K : Int) : 2 ≤ (expDigits K).length := by
  simp only [expDigits]
  by_cases hlt : (natDigits K.natAbs).length < 2
  · simp only [hlt, if_true, List.length_append, zeros, List.length_replicate]; omega
  · simp only [hlt, if_false]; omega

/-- **The float clauses of C01 for an E-notation field**: the text written is in the configured
dialect (one digit before the separator, exactly the declared decimals, the configured
exponent letter, a sign and at least two exponent digits) and its digits are within half a
unit of their last place of `x`. -/
theorem floatClauses_E (f : Field) (dec : Nat) (fmt c : Char) (hk : f.kind = .flt dec fmt [c])
    (hfmt : fmt = 'E' ∨ fmt = 'e') (hsep : sepOk [c] = true)
    (neg : Bool) (m : Nat) (e : Int) (hm0 : m ≠ 0) (he : -1074 ≤ e) (hdec : dec ≤ 12)
    (m' : Nat) (e' : Int) (hsci : SciOk m e m' e' dec) (k : Nat) :
    floatClauses f (.dbl (.fin neg m e))
      (List.replicate k ' ' ++ subst1 '.' c (sciText neg m' e' dec (if (fmt == 'E') = true then 'E' else 'e'))) = true := by
  have hK1 := hsci.hK1
  have hK2 := hsci.hK2
  have hlenN := natDigits_len _ _ hsci.hN1 hsci.hN2
  have hdig := sciText_digits m' e' dec (by omega) (by omega)
  obtain ⟨_, _, _, x4⟩ := expDigits_facts (sci m' e' dec).2 (by omega) (by omega)
  have hacc := accurate_sci neg m e he m' e' dec hdec hsci (if (fmt == 'E') = true then 'E' else 'e')
  -- facts about the separator
  simp only [sepOk, Bool.not_eq_true', Bool.or_eq_false_iff] at hsep
  obtain ⟨⟨⟨⟨⟨⟨⟨⟨⟨⟨⟨⟨⟨⟨h1, _⟩, _⟩, h4⟩, h5⟩, h6⟩, _⟩, _⟩, _⟩, _⟩, _⟩, _⟩, _⟩, _⟩, _⟩ := hsep
  have hce : c ≠ 'e' ∧ c ≠ 'E' := ⟨by simpa using h4, by simpa using h5⟩
  have hech : (if (fmt == 'E') = true then 'E' else 'e') = 'e' ∨ (if (fmt == 'E') = true then 'E' else 'e') = 'E' := by
    rcases hfmt with rfl | rfl <;> decide
  have hechdot : (if (fmt == 'E') = true then 'E' else 'e') ≠ '.' := by
    rcases hfmt with rfl | rfl <;> decide
  have hz : Dbl.isZero (.fin neg m e) = false := by
    cases m with
    | zero => exact absurd rfl hm0
    | succ n => rfl
  unfold sciText at *
  -- the first digit and the rest
  cases hds : natDigits (sci m' e' dec).1 with
  | nil => rw [hds] at hlenN; simp at hlenN
  | cons d0 rest =>
    rw [hds] at hdig hlenN hacc
    have hrest : rest.length = dec := by simpa using hlenN
    simp only [List.take_succ_cons, List.take_zero, List.drop_succ_cons, List.drop_zero] at hdig ⊢
    rw [subst1_bodyE c neg [d0] rest _ _ _ hdig hechdot]
    unfold floatClauses
    rw [hk]
    simp only [Dbl.isNaN, Bool.false_eq_true, if_false]
    rw [strip_sbodyE c h6 k neg [d0] rest _ _ _ hdig hech,
      parseNumeral_sbodyE c h1 hce neg d0 rest _ _ _ hdig hech (expDigits_len2 _)]
    have hexp : (if decide ((sci m' e' dec).2 < 0) = true then -(natOfDigits (expDigits (sci m' e' dec).2) : Int)
        else (natOfDigits (expDigits (sci m' e' dec).2) : Int)) = (sci m' e' dec).2 := by
      rw [natOfDigits_eq, x4]
      by_cases hneg : (sci m' e' dec).2 < 0
      · simp only [hneg, decide_true, if_true]; omega
      · simp only [hneg, decide_false, Bool.false_eq_true, if_false]; omega
    simp only [hexp, hrest]
    have hdia : dialectOk dec fmt (.fin neg m e)
        { neg := neg, digits := [d0] ++ rest, lastExp := (sci m' e' dec).2 - (dec : Int),
          nfrac := dec, expLetter := some (if (fmt == 'E') = true then 'E' else 'e') } = true := by
      unfold dialectOk
      rcases hfmt with rfl | rfl <;> simp [hz]
    have hE : (fmt == 'E' || fmt == 'e') = true := by
      rcases hfmt with rfl | rfl <;> decide
    have hacc' : accurate (.fin neg m e)
        { neg := neg, digits := [d0] ++ rest, lastExp := (sci m' e' dec).2 - (dec : Int),
          nfrac := dec, expLetter := some (if (fmt == 'E') = true then 'E' else 'e') } = true := hacc
    simp only [hdia, hE, if_true, hacc', Bool.or_true, Bool.and_self]

end Proofs.FloatEClauses
