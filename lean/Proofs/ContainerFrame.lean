import Proofs.ContainerRepr
/-!
Two containers over the same elements' links (`previous` / `next` live on the elements, `root` /
`head` on each container): an admissible operation on one container changes links only at its own
members and at the element it brings in, so every other container whose members are none of those
is left exactly as it was — whatever stale links the elements outside both containers carry.
-/
namespace Cfi.Container

/-- the element an operation brings into the container (if any) -/
def Op.new? : Op → Option Id
  | .prepend n => some n
  | .append n => some n
  | .addBefore _ n => some n
  | .addAfter _ n => some n
  | .remove _ => none

/-- a second container over the same links: its own `root` / `head` -/
def withEnds (s : Heap) (r h : Id) : Heap := { s with root := r, head := h }

theorem addBefore_links {s l b n} (h : Repr s l) (hb : b ∈ l) (x : Id) (hx : x ∉ l) (hxn : x ≠ n) :
    (addBefore s b n).next x = s.next x ∧ (addBefore s b n).prev x = s.prev x := by
  have hxb : x ≠ b := fun e => hx (e ▸ hb)
  unfold addBefore
  by_cases hr : b = s.root
  · simp [hr, Heap.setNext, Heap.setPrev, upd, hxn]
    intro e; exact absurd (e ▸ h.root_mem) hx
  · cases hp : s.prev b with
    | none => simp [hr, hp, Heap.setNext, Heap.setPrev, upd, hxn, hxb]
    | some p =>
      have hpl : p ∈ l := by
        have := h.prev b hb
        rw [hp] at this
        exact (prevIn_mem this.symm).1
      have hxp : x ≠ p := fun e => hx (e ▸ hpl)
      simp [hr, hp, Heap.setNext, Heap.setPrev, upd, hxn, hxb, hxp]

theorem addAfter_links {s l a n} (h : Repr s l) (ha : a ∈ l) (x : Id) (hx : x ∉ l) (hxn : x ≠ n) :
    (addAfter s a n).next x = s.next x ∧ (addAfter s a n).prev x = s.prev x := by
  have hxa : x ≠ a := fun e => hx (e ▸ ha)
  unfold addAfter
  by_cases hr : a = s.head
  · simp [hr, Heap.setNext, Heap.setPrev, upd, hxn]
    intro e; exact absurd (e ▸ h.head_mem) hx
  · cases hp : s.next a with
    | none => simp [hr, hp, Heap.setNext, Heap.setPrev, upd, hxn, hxa]
    | some p =>
      have hpl : p ∈ l := by
        have := h.next a ha
        rw [hp] at this
        exact (nextIn_mem this.symm).1
      have hxp : x ≠ p := fun e => hx (e ▸ hpl)
      simp [hr, hp, Heap.setNext, Heap.setPrev, upd, hxn, hxa, hxp]

theorem remove_links {s l r} (h : Repr s l) (hr : r ∈ l) (x : Id) (hx : x ∉ l) :
    (remove s r).next x = s.next x ∧ (remove s r).prev x = s.prev x := by
  have hpr : s.prev r ≠ some r := by
    intro e
    have := h.prev r hr
    rw [e] at this
    exact prevIn_ne h.nodup this.symm rfl
  constructor
  · rw [remove_next]
    split
    · rename_i hh
      exfalso
      have := h.prev r hr
      rw [hh] at this
      exact hx (prevIn_mem this.symm).1
    · rfl
  · rw [remove_prev s r x hpr]
    split
    · rename_i hh
      exfalso
      have := h.next r hr
      rw [hh] at this
      exact hx (nextIn_mem this.symm).1
    · rfl

/-- an admissible operation on a container changes no link outside its members and the new element -/
theorem step_links {s l op} (h : Repr s l) (hok : OpOk l op = true) (x : Id) (hx : x ∉ l)
    (hxn : op.new? ≠ some x) :
    (step s op).next x = s.next x ∧ (step s op).prev x = s.prev x := by
  cases op with
  | prepend n =>
    have : x ≠ n := fun e => hxn (by simp [Op.new?, e])
    exact addBefore_links h h.root_mem x hx this
  | append n =>
    have : x ≠ n := fun e => hxn (by simp [Op.new?, e])
    exact addAfter_links h h.head_mem x hx this
  | addBefore b n =>
    simp [OpOk] at hok
    have : x ≠ n := fun e => hxn (by simp [Op.new?, e])
    exact addBefore_links h hok.1 x hx this
  | addAfter a n =>
    simp [OpOk] at hok
    have : x ≠ n := fun e => hxn (by simp [Op.new?, e])
    exact addAfter_links h hok.1 x hx this
  | remove r =>
    simp [OpOk] at hok
    exact remove_links h hok.1 x hx

/-- **Frame.** Container `A` (the heap's own `root` / `head`) represents `lA`, a second container
`B` with ends `rB` / `hB` over the same links represents `lB`, and the two have no member in
common. After an admissible operation on `A` that brings in no member of `B`, `A` represents the
list subjected to the same operation and `B` still represents `lB` — also when the element
brought in was removed from `B` (or from `A`) earlier and still carries the links it had then. -/
theorem step_frame {s : Heap} {lA lB : List Id} {rB hB : Id} {op : Op}
    (hA : Repr s lA) (hBr : Repr (withEnds s rB hB) lB) (hdisj : ∀ x ∈ lB, x ∉ lA)
    (hok : OpOk lA op = true) (hnew : ∀ n, op.new? = some n → n ∉ lB) :
    Repr (step s op) (specStep lA op) ∧ Repr (withEnds (step s op) rB hB) lB := by
  refine ⟨repr_step hA hok, ?_⟩
  constructor
  · exact hBr.nodup
  · exact hBr.root
  · exact hBr.head
  · intro x hx
    have hne : op.new? ≠ some x := fun e => hnew x e hx
    have := (step_links hA hok x (hdisj x hx) hne).1
    show (step s op).next x = nextIn lB x
    rw [this]; exact hBr.next x hx
  · intro x hx
    have hne : op.new? ≠ some x := fun e => hnew x e hx
    have := (step_links hA hok x (hdisj x hx) hne).2
    show (step s op).prev x = prevIn lB x
    rw [this]; exact hBr.prev x hx

/-- the same for a whole admissible history on `A`: `B` is what it was, `A` is the list subjected
to the history -/
theorem run_frame {s : Heap} {lA lB : List Id} {rB hB : Id} {ops : List Op}
    (hA : Repr s lA) (hBr : Repr (withEnds s rB hB) lB)
    (hok : HistOk lA ops = true)
    (hsep : ∀ x ∈ lB, x ∉ lA ∧ ∀ op ∈ ops, op.new? ≠ some x) :
    Repr (run s ops) (specRun lA ops) ∧ Repr (withEnds (run s ops) rB hB) lB := by
  induction ops generalizing s lA with
  | nil => exact ⟨hA, hBr⟩
  | cons op ops ih =>
    simp only [HistOk, Bool.and_eq_true] at hok
    have hstep := step_frame (op := op) hA hBr (fun x hx => (hsep x hx).1) hok.1
      (fun n hn hnB => (hsep n hnB).2 op (List.mem_cons_self) hn)
    apply ih hstep.1 hstep.2 hok.2
    intro x hx
    refine ⟨?_, fun o ho => (hsep x hx).2 o (List.mem_cons_of_mem _ ho)⟩
    -- a member of `B` does not enter `A`: it is neither in `lA` nor the element brought in
    have hxA := (hsep x hx).1
    have hxo := (hsep x hx).2 op List.mem_cons_self
    cases op with
    | prepend n =>
      simp only [specStep, List.mem_cons, not_or]
      exact ⟨fun e => hxo (by simp [Op.new?, e]), hxA⟩
    | append n =>
      simp only [specStep, List.mem_append, List.mem_singleton, not_or]
      exact ⟨hxA, fun e => hxo (by simp [Op.new?, e])⟩
    | addBefore b n =>
      simp only [OpOk, Bool.and_eq_true] at hok
      have hb : b ∈ lA := by simpa using hok.1.1
      simp only [specStep, mem_insertBefore hb, not_or]
      exact ⟨fun e => hxo (by simp [Op.new?, e]), hxA⟩
    | addAfter a n =>
      simp only [OpOk, Bool.and_eq_true] at hok
      have ha : a ∈ lA := by simpa using hok.1.1
      simp only [specStep, mem_insertAfter ha, not_or]
      exact ⟨fun e => hxo (by simp [Op.new?, e]), hxA⟩
    | remove r =>
      simp only [specStep]
      exact fun hm => hxA (List.mem_of_mem_erase hm)

end Cfi.Container
