import Cfi.Files
/-! `readline` / `splitLines` / stream position lemmas. -/
namespace Cfi
open Cfi.Text

theorem lineOf_ne_nil {α} [BEq α] (nl : α) {s : List α} (h : s ≠ []) : Stream.lineOf nl s ≠ [] := by
  cases s with
  | nil => exact absurd rfl h
  | cons c cs => simp only [Stream.lineOf]; split <;> simp

theorem lineOf_length_le {α} [BEq α] (nl : α) (s : List α) : (Stream.lineOf nl s).length ≤ s.length := by
  induction s with
  | nil => simp [Stream.lineOf]
  | cons c cs ih => simp only [Stream.lineOf]; split <;> simp <;> omega

/-- `lineOf s` is a prefix of `s` -/
theorem lineOf_append_drop {α} [BEq α] (nl : α) (s : List α) :
    Stream.lineOf nl s ++ s.drop (Stream.lineOf nl s).length = s := by
  induction s with
  | nil => simp [Stream.lineOf]
  | cons c cs ih =>
    simp only [Stream.lineOf]
    split
    · simp
    · simp [ih]

/-- the first line `readline` returns is the head of `splitLines`, and the rest
of the lines are those of the remaining input -/
theorem splitLines_eq_lineOf {s : List Char} (h : s ≠ []) :
    splitLines s = Stream.lineOf '\n' s :: splitLines (s.drop (Stream.lineOf '\n' s).length) := by
  induction s with
  | nil => exact absurd rfl h
  | cons c cs ih =>
    by_cases hc : c = '\n'
    · subst hc
      simp [splitLines, Stream.lineOf]
    · have hb : (c == '\n') = false := by simpa using hc
      simp only [splitLines, Stream.lineOf, hc, hb, if_false]
      by_cases hcs : cs = []
      · subst hcs; simp [splitLines, Stream.lineOf]
      · rw [ih hcs]; simp

theorem Stream.rest_readline {α} [BEq α] (nl : α) (s : Stream α) :
    (s.readline nl).2.rest = s.rest.drop (s.readline nl).1.length := by
  simp [Stream.readline, Stream.rest, List.drop_drop, Nat.add_comm]

theorem Stream.readline_fst {α} [BEq α] (nl : α) (s : Stream α) :
    (s.readline nl).1 = Stream.lineOf nl s.rest := rfl

theorem Stream.readline_content {α} [BEq α] (nl : α) (s : Stream α) :
    (s.readline nl).2.content = s.content := rfl

end Cfi
