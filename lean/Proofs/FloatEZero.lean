import Proofs.FloatEClauses
/-!
E-notation float fields holding zero: the decimals-dropping loop with the `E` presentation.
-/
open Cfi Cfi.Text Cfi.PyInt Cfi.Dbl Spec.C01 Proofs.Nearest Proofs.FloatText Proofs.FloatLoop Proofs.FloorLog10
  Proofs.FloatE Proofs.FloatELaw Proofs.FloatLaw Proofs.FloatClauses Proofs.FloatEClauses

namespace Proofs.FloatEZero

theorem divHE_zero (b : Nat) (hb : 0 < b) : divHE 0 b = 0 := by
  unfold divHE
  simp [hb]

theorem roundScaled_zero (e d : Int) : roundScaled 0 e d = 0 := by
  unfold roundScaled frac
  by_cases he : e ≥ 0 <;> by_cases hd : d ≥ 0 <;> simp only [he, hd, if_true, if_false, Nat.zero_mul]
  · exact divHE_zero 1 (by decide)
  · exact divHE_zero _ (by simpa using ten_pow_pos _)
  · exact divHE_zero _ (two_pow_pos _)
  · exact divHE_zero _ (Nat.mul_pos (two_pow_pos _) (ten_pow_pos _))

/-- `round(±0.0, d) = ±0.0` -/
theorem pyRound_zero (neg : Bool) (e : Int) (d : Nat) (hd : d ≤ 323) :
    pyRound (.fin neg 0 e) (d : Int) = some (.fin neg 0 (-1074)) := by
  unfold pyRound
  have a1 : ¬ ((d : Int) > 323) := by omega
  have a2 : ¬ ((d : Int) < -308) := by omega
  have a3 : (d : Int) ≥ 0 := by omega
  simp only [a1, a2, a3, if_true, if_false, roundScaled_zero]
  simp [nearest, nearestG]

/-- the text `'{:.{d}e}'` prints for zero -/
def zeroText (neg : Bool) (d : Nat) (ech : Char) : List Char :=
  bodyE neg ['0'] (zeros d) ech false ['0', '0']

theorem fmtE_zero (neg : Bool) (e : Int) (d : Nat) (upper : Bool) :
    fmtE (.fin neg 0 e) d upper = zeroText neg d (if upper then 'E' else 'e') := by
  unfold fmtE zeroText bodyE
  by_cases hd : d = 0
  · subst hd; simp [zeros]
  · have : d > 0 := by omega
    have hz : (zeros d).isEmpty = false := by
      cases d with
      | zero => exact absurd rfl hd
      | succ n => rfl
    simp [this, hz]

/-- the E loop on zero: the value rounded is the same at every step, so the loop only depends
on the sign -/
theorem floatLoopE_zero (neg : Bool) (e : Int) (size : Nat) (upper : Bool) (dec : Nat) (hdec : dec ≤ 323) :
    ∃ d, d ≤ dec ∧ floatLoopE (.fin neg 0 e) size upper dec = .ok (zeroText neg d (if upper then 'E' else 'e')) ∧
      floatLoopE (.fin neg 0 (-1074)) size upper dec = .ok (zeroText neg d (if upper then 'E' else 'e')) := by
  induction dec with
  | zero =>
    refine ⟨0, Nat.le_refl _, ?_, ?_⟩
    · have := pyRound_zero neg e 0 (by omega)
      simp only [floatLoopE]
      have h0 : pyRound (.fin neg 0 e) 0 = some (.fin neg 0 (-1074)) := this
      rw [h0]; simp [Option.elim, bind, Except.bind, pure, Except.pure, fmtE_zero]
    · have := pyRound_zero neg (-1074) 0 (by omega)
      simp only [floatLoopE]
      have h0 : pyRound (.fin neg 0 (-1074)) 0 = some (.fin neg 0 (-1074)) := this
      rw [h0]; simp [Option.elim, bind, Except.bind, pure, Except.pure, fmtE_zero]
  | succ n ih =>
    obtain ⟨d, hd, h1, h2⟩ := ih (by omega)
    have p1 : pyRound (.fin neg 0 e) ((n : Int) + 1) = some (.fin neg 0 (-1074)) := by
      have := pyRound_zero neg e (n + 1) hdec
      simpa using this
    have p2 : pyRound (.fin neg 0 (-1074)) ((n : Int) + 1) = some (.fin neg 0 (-1074)) := by
      have := pyRound_zero neg (-1074) (n + 1) hdec
      simpa using this
    by_cases hfit : (zeroText neg (n + 1) (if upper then 'E' else 'e')).length ≤ size
    · refine ⟨n + 1, Nat.le_refl _, ?_, ?_⟩
      · simp only [floatLoopE, p1]
        simp [Option.elim, bind, Except.bind, pure, Except.pure, fmtE_zero, hfit]
      · simp only [floatLoopE, p2]
        simp [Option.elim, bind, Except.bind, pure, Except.pure, fmtE_zero, hfit]
    · refine ⟨d, by omega, ?_, ?_⟩
      · simp only [floatLoopE, p1]
        simp [Option.elim, bind, Except.bind, fmtE_zero, hfit, h1]
      · simp only [floatLoopE, p2]
        simp [Option.elim, bind, Except.bind, fmtE_zero, hfit, h2]

theorem zeroText_digits (d : Nat) : ∀ y ∈ ['0'] ++ zeros d ++ ['0', '0'], y.isDigit = true := by
  intro y hy
  simp only [List.mem_append, List.mem_cons, List.not_mem_nil, or_false, zeros, List.mem_replicate] at hy
  rcases hy with (rfl | ⟨_, rfl⟩) | rfl | rfl <;> decide

/-- `float()` of the text printed for zero is zero of the same sign -/
theorem pyFloat_zeroText (k : Nat) (neg : Bool) (d : Nat) (ech : Char) (he : ech = 'e' ∨ ech = 'E') :
    pyFloat (List.replicate k ' ' ++ zeroText neg d ech) = some (.fin neg 0 (-1074)) := by
  unfold zeroText
  rw [pyFloat_sci k neg ['0'] (zeros d) ech false ['0', '0'] (by simp) (by simp) (by simp) (zeroText_digits d) he]
  have hz : (['0'] ++ zeros d).map val = List.replicate (d + 1) 0 := by
    simp only [zeros, List.map_append, List.map_replicate, List.map_cons, List.map_nil]
    have : val '0' = 0 := by decide
    rw [this, List.replicate_succ]
    rfl
  rw [hz]
  unfold ofDecimal
  have : (List.replicate (d + 1) 0).dropWhile (· == 0) = [] := by
    have := dropWhile_zeros (d + 1) []
    simpa using this
  simp [this]

/-- **E-notation float fields holding zero**: the text written is `size` wide, parses to zero of
the same sign, and writing that zero gives the same text again. -/
theorem fltE_zero_core (f : Field) (dec : Nat) (fmt c : Char) (hk : f.kind = .flt dec fmt [c])
    (hfmt : fmt = 'E' ∨ fmt = 'e') (hc1 : c ≠ ' ') (hc2 : c.isDigit = false) (hc3 : c ≠ '-')
    (hc4 : c ≠ '+') (hc5 : c ≠ 'e') (hc6 : c ≠ 'E')
    (neg : Bool) (e : Int) (hdec : dec ≤ 323)
    (hfits : Spec.C02.fits f (.dbl (.fin neg 0 e)) = true) :
    ∃ t, renderText f (.dbl (.fin neg 0 e)) = .ok t ∧ t.length = f.size ∧
      parseText f.kind t = some (.dbl (.fin neg 0 (-1074))) ∧
      renderText f (.dbl (.fin neg 0 (-1074))) = .ok t ∧
      ∃ d k, d ≤ dec ∧
        t = List.replicate k ' ' ++ subst1 '.' c (zeroText neg d (if (fmt == 'E') = true then 'E' else 'e')) := by
  obtain ⟨d, hd, hl1, hl2⟩ := floatLoopE_zero neg e f.size (fmt == 'E') dec hdec
  have hech : (if (fmt == 'E') = true then 'E' else 'e') = 'e' ∨ (if (fmt == 'E') = true then 'E' else 'e') = 'E' := by
    rcases hfmt with rfl | rfl <;> decide
  have hcech : c ≠ (if (fmt == 'E') = true then 'E' else 'e') := by
    rcases hfmt with rfl | rfl
    · exact hc6
    · exact hc5
  have hE : (fmt == 'E' || fmt == 'e') = true := by rcases hfmt with rfl | rfl <;> decide
  have hup : (fmt == 'E' || fmt == 'F') = (fmt == 'E') := by rcases hfmt with rfl | rfl <;> decide
  have hok : (!(fmt == 'E' || fmt == 'e' || fmt == 'F' || fmt == 'f')) = false := by
    rcases hfmt with rfl | rfl <;> decide
  -- the rendering, for either zero
  have hrender : ∀ e', floatLoopE (.fin neg 0 e') f.size (fmt == 'E') dec =
        .ok (zeroText neg d (if (fmt == 'E') = true then 'E' else 'e')) →
      renderFull f.kind f.size (.dbl (.fin neg 0 e')) =
        .ok (subst1 '.' c (zeroText neg d (if (fmt == 'E') = true then 'E' else 'e'))) := by
    intro e' hl
    unfold renderFull
    rcases hfmt with rfl | rfl
    · have hl' : floatLoopE (.fin neg 0 e') f.size true dec = .ok (zeroText neg d 'E') := by simpa using hl
      simp [hk, Val.isNull, Dbl.isNaN, Dbl.isZero, hl', Except.map, replace_single]
    · have hl' : floatLoopE (.fin neg 0 e') f.size false dec = .ok (zeroText neg d 'e') := by simpa using hl
      simp [hk, Val.isNull, Dbl.isNaN, Dbl.isZero, hl', Except.map, replace_single]
  have hfit : (zeroText neg d (if (fmt == 'E') = true then 'E' else 'e')).length ≤ f.size := by
    simp only [Spec.C02.fits, Bool.and_eq_true, beq_iff_eq] at hfits
    obtain ⟨_, hren⟩ := hfits
    rw [hrender e hl1] at hren
    simpa [subst1_length] using hren
  have hrt : ∀ e', floatLoopE (.fin neg 0 e') f.size (fmt == 'E') dec =
        .ok (zeroText neg d (if (fmt == 'E') = true then 'E' else 'e')) →
      renderText f (.dbl (.fin neg 0 e')) =
        .ok (rjust (subst1 '.' c (zeroText neg d (if (fmt == 'E') = true then 'E' else 'e'))) f.size ' ') := by
    intro e' hl
    unfold renderText renderRaw
    rw [hrender e' hl]
    simp [hk, Except.map, Dbl.isZero]
  refine ⟨_, hrt e hl1, ?_, ?_, hrt (-1074) hl2, d, _, hd, rfl⟩
  · simp only [rjust, List.length_append, List.length_replicate, subst1_length]; omega
  · rw [hk]
    simp only [parseText, replace_single, rjust, subst1_length]
    unfold zeroText
    rw [sepE_back c hc1 hc2 hc3 hc4 _ hcech _ neg _ _ _ _ (zeroText_digits d)]
    have := pyFloat_zeroText (f.size - (zeroText neg d (if (fmt == 'E') = true then 'E' else 'e')).length) neg d _ hech
    unfold zeroText at this
    rw [this]; rfl

/-- the float clauses for zero in an E-notation field: the configured dialect with at most the
declared decimals (accuracy is not asked of zero) -/
theorem floatClauses_E_zero (f : Field) (dec : Nat) (fmt c : Char) (hk : f.kind = .flt dec fmt [c])
    (hfmt : fmt = 'E' ∨ fmt = 'e') (hsep : sepOk [c] = true) (neg : Bool) (e : Int) (d : Nat) (hd : d ≤ dec) (k : Nat) :
    floatClauses f (.dbl (.fin neg 0 e))
      (List.replicate k ' ' ++ subst1 '.' c (zeroText neg d (if (fmt == 'E') = true then 'E' else 'e'))) = true := by
  simp only [sepOk, Bool.not_eq_true', Bool.or_eq_false_iff] at hsep
  obtain ⟨⟨⟨⟨⟨⟨⟨⟨⟨⟨⟨⟨⟨⟨h1, _⟩, _⟩, h4⟩, h5⟩, h6⟩, _⟩, _⟩, _⟩, _⟩, _⟩, _⟩, _⟩, _⟩, _⟩ := hsep
  have hce : c ≠ 'e' ∧ c ≠ 'E' := ⟨by simpa using h4, by simpa using h5⟩
  have hech : (if (fmt == 'E') = true then 'E' else 'e') = 'e' ∨ (if (fmt == 'E') = true then 'E' else 'e') = 'E' := by
    rcases hfmt with rfl | rfl <;> decide
  have hechdot : (if (fmt == 'E') = true then 'E' else 'e') ≠ '.' := by
    rcases hfmt with rfl | rfl <;> decide
  have hdig := zeroText_digits d
  unfold zeroText
  rw [subst1_bodyE c neg ['0'] (zeros d) _ _ _ hdig hechdot]
  unfold floatClauses
  rw [hk]
  simp only [Dbl.isNaN, Bool.false_eq_true, if_false]
  rw [strip_sbodyE c h6 k neg ['0'] (zeros d) _ _ _ hdig hech,
    parseNumeral_sbodyE c h1 hce neg '0' (zeros d) _ _ _ hdig hech (by simp)]
  have hzl : (zeros d).length = d := by simp [zeros]
  have hE : (fmt == 'E' || fmt == 'e') = true := by
    rcases hfmt with rfl | rfl <;> decide
  simp only [hzl, hE, if_true, Dbl.isZero, Bool.true_or, Bool.and_true]
  unfold dialectOk
  rcases hfmt with rfl | rfl <;> simp [Dbl.isZero, hd]

end Proofs.FloatEZero
