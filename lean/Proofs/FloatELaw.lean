import Proofs.FloatE
import Proofs.FloatLaw
/-!
The render / parse law of float fields in scientific (E) notation: the shape of
`'{:.{d}e}'.format`, `float()` of it, the separator substitution, and `fltE_core`.
-/
open Cfi Cfi.Text Cfi.PyInt Cfi.Dbl Proofs.Nearest Proofs.FloatText Proofs.FloatLoop Proofs.FloorLog10 Proofs.FloatE Proofs.FloatLaw

set_option exponentiation.threshold 5000

namespace Proofs.FloatELaw

theorem natDigits_len (n d : Nat) (h1 : 10 ^ d ≤ n) (h2 : n < 10 ^ (d + 1)) : (natDigits n).length = d + 1 := by
  have ha : (natDigits n).length ≤ d + 1 := (Nat.length_toDigits_le_iff (b := 10) (by omega) (by omega)).2 h2
  by_cases hd : d = 0
  · subst hd
    have : 0 < (natDigits n).length := by
      have := Nat.toDigits_ne_nil (b := 10) (n := n)
      exact List.length_pos_iff.2 this
    omega
  · have hb : ¬ (natDigits n).length ≤ d := by
      intro h
      have := (Nat.length_toDigits_le_iff (b := 10) (k := d) (by omega) (by omega)).1 h
      omega
    omega

/-- the exponent digits `fmtE` prints: at least two -/
def expDigits (K : Int) : List Char :=
  let ex := natDigits K.natAbs
  if ex.length < 2 then zeros (2 - ex.length) ++ ex else ex

theorem expDigits_facts (K : Int) (h1 : -400 ≤ K) (h2 : K ≤ 400) :
    expDigits K ≠ [] ∧ (expDigits K).length ≤ 7 ∧ (∀ c ∈ expDigits K, c.isDigit = true) ∧
    ofDigits ((expDigits K).map val) = K.natAbs := by
  have hl : (natDigits K.natAbs).length ≤ 3 := (Nat.length_toDigits_le_iff (b := 10) (by omega) (by omega)).2 (by omega)
  have hp : 0 < (natDigits K.natAbs).length := List.length_pos_iff.2 (Nat.toDigits_ne_nil)
  have hd := Cfi.natDigits_isDigit K.natAbs
  simp only [expDigits]
  by_cases hlt : (natDigits K.natAbs).length < 2
  · simp only [hlt, if_true]
    refine ⟨by simp [zeros]; omega, by simp [zeros]; omega, ?_, ?_⟩
    · intro c hc
      rw [List.mem_append] at hc
      rcases hc with hc | hc
      · simp only [zeros, List.mem_replicate] at hc; rw [hc.2]; decide
      · exact hd c hc
    · have hz : (zeros (2 - (natDigits K.natAbs).length)).map val = List.replicate (2 - (natDigits K.natAbs).length) 0 := by
        simp only [zeros, List.map_replicate]; rfl
      rw [List.map_append, hz, ← ofDigits_dropWhile, dropWhile_zeros, ofDigits_dropWhile, ofDigits_natDigits]
  · simp only [hlt, if_false]
    exact ⟨List.length_pos_iff.1 hp, by omega, hd, ofDigits_natDigits _⟩

theorem fmtE_sci (neg : Bool) (m : Nat) (e : Int) (d : Nat) (upper : Bool) (hm : m ≠ 0) :
    fmtE (.fin neg m e) d upper =
      (if neg then ['-'] else []) ++ (natDigits (sci m e d).1).take 1 ++
        (if d > 0 then '.' :: (natDigits (sci m e d).1).drop 1 else []) ++
        [if upper then 'E' else 'e', if (sci m e d).2 < 0 then '-' else '+'] ++ expDigits (sci m e d).2 := by
  have hm' : (m == 0) = false := by simpa using hm
  unfold fmtE
  simp only [hm', Bool.false_eq_true, if_false]
  unfold sci expDigits
  by_cases hc : roundScaled m e ((d : Int) - floorLog10 m e) = 10 ^ (d + 1)
  · have hc' : (roundScaled m e (Int.ofNat d - floorLog10 m e) == 10 ^ (d + 1)) = true := by simpa using hc
    have hc'' : (roundScaled m e ((d : Int) - floorLog10 m e) == 10 ^ (d + 1)) = true := by simpa using hc
    simp only [hc', hc'', if_true]
    try rfl
  · have hc' : (roundScaled m e (Int.ofNat d - floorLog10 m e) == 10 ^ (d + 1)) = false := by simpa using hc
    have hc'' : (roundScaled m e ((d : Int) - floorLog10 m e) == 10 ^ (d + 1)) = false := by simpa using hc
    simp only [hc', hc'', Bool.false_eq_true, if_false]
    try rfl

/-- **shape of `'{:.{d}e}'.format(x)`** for a non-zero finite `x`: one digit, the point and
`d` more digits (no point when `d = 0`), the exponent letter, a sign, at least two digits -/
theorem fmtE_fin (neg : Bool) (m : Nat) (e : Int) (d : Nat) (upper : Bool) (hm : m ≠ 0)
    (h1 : 10 ^ d ≤ (sci m e d).1) (h2 : (sci m e d).1 < 10 ^ (d + 1)) :
    fmtE (.fin neg m e) d upper =
      bodyE neg ((natDigits (sci m e d).1).take 1) ((natDigits (sci m e d).1).drop 1)
        (if upper then 'E' else 'e') (decide ((sci m e d).2 < 0)) (expDigits (sci m e d).2) := by
  have hlen := natDigits_len _ _ h1 h2
  rw [fmtE_sci neg m e d upper hm]
  generalize sci m e d = p at *
  have hfp : ((natDigits p.1).drop 1).isEmpty = decide (d = 0) := by
    cases hh : (natDigits p.1).drop 1 with
    | nil =>
      have := congrArg List.length hh
      simp only [List.length_drop, hlen, List.length_nil] at this
      simp; omega
    | cons a l =>
      have := congrArg List.length hh
      simp only [List.length_drop, hlen, List.length_cons] at this
      simp; omega
  unfold bodyE
  simp only [hfp]
  by_cases hd : d = 0
  · subst hd; simp
  · have : d > 0 := by omega
    simp [hd, this]

/-- **`float()` of a decimal with few digits** is the `nearest` call on it -/
theorem ofDecimal_nd (neg : Bool) (all : List Nat) (nf : Nat) (ex : Int) (hlen : all.length ≤ 40)
    (h1 : -350 ≤ ex - nf) (h2 : ex - nf ≤ 350) (hn0 : ofDigits all ≠ 0) (m' : Nat) (e' : Int)
    (h : nearestDec 53 (-1074) 971 (ofDigits all) ((nf : Int) - ex) = some (m', e')) :
    ofDecimal neg all nf ex = .fin neg m' e' := by
  unfold ofDecimal
  have hne : (all.dropWhile (· == 0)).isEmpty = false := by
    cases hh : (all.dropWhile (· == 0)).isEmpty with
    | false => rfl
    | true => exact absurd ((dropWhile_empty_iff _).1 hh) hn0
  have hl : (all.dropWhile (· == 0)).length ≤ 40 :=
    Nat.le_trans (List.dropWhile_sublist _).length_le hlen
  simp only [hne, Bool.false_eq_true, if_false, ofDigits_dropWhile]
  have a1 : ¬ (ex - (nf : Int) + ((all.dropWhile (· == 0)).length : Int) > 400) := by omega
  have a2 : ¬ (ex - (nf : Int) + ((all.dropWhile (· == 0)).length : Int) < -400) := by omega
  simp only [a1, a2, if_false]
  unfold nearestDec at h
  by_cases hz : ex - (nf : Int) = 0
  · have e0 : (nf : Int) - ex = 0 := by omega
    rw [e0] at h
    rw [hz]
    simp only [ge_iff_le, Int.le_refl, if_true, Int.toNat_zero, Nat.pow_zero, Nat.mul_one] at h ⊢
    simp only [nearest, h]
  · by_cases hp : ex - (nf : Int) ≥ 0
    · have hq : ¬ ((nf : Int) - ex ≥ 0) := by omega
      have e1 : (-((nf : Int) - ex)).toNat = (ex - (nf : Int)).toNat := by omega
      simp only [hq, if_false, e1] at h
      simp only [hp, if_true, nearest, h]
    · have hq : (nf : Int) - ex ≥ 0 := by omega
      have e1 : ((nf : Int) - ex).toNat = (-(ex - (nf : Int))).toNat := by omega
      simp only [hq, if_true, e1] at h
      simp only [hp, if_false, nearest, h]

theorem bodyE_chars (neg : Bool) (ip fp : List Char) (ech : Char) (eneg : Bool) (exd : List Char)
    (hd : ∀ c ∈ ip ++ fp ++ exd, c.isDigit = true) :
    ∀ x ∈ bodyE neg ip fp ech eneg exd, x = '-' ∨ x = '+' ∨ x = ech ∨ x = '.' ∨ x.isDigit = true := by
  intro x hx
  unfold bodyE at hx
  simp only [List.mem_append, List.mem_cons] at hx
  rcases hx with hx | hx | hx | hx | hx | hx
  · cases neg
    · simp at hx
    · simp at hx; exact Or.inl hx
  · exact Or.inr (Or.inr (Or.inr (Or.inr (hd x (by simp [hx])))))
  · by_cases hf : fp.isEmpty = true
    · simp [hf] at hx
    · simp only [hf, Bool.false_eq_true, if_false, List.mem_cons] at hx
      rcases hx with rfl | hx
      · exact Or.inr (Or.inr (Or.inr (Or.inl rfl)))
      · exact Or.inr (Or.inr (Or.inr (Or.inr (hd x (by simp [hx])))))
  · exact Or.inr (Or.inr (Or.inl hx))
  · cases eneg
    · simp at hx; exact Or.inr (Or.inl hx)
    · simp at hx; exact Or.inl hx
  · exact Or.inr (Or.inr (Or.inr (Or.inr (hd x (by simp [hx])))))

/-- reading undoes the separator substitution of writing (scientific notation) -/
theorem sepE_back (c : Char) (hc1 : c ≠ ' ') (hc2 : c.isDigit = false) (hc3 : c ≠ '-') (hc4 : c ≠ '+')
    (ech : Char) (hc5 : c ≠ ech)
    (k : Nat) (neg : Bool) (ip fp : List Char) (eneg : Bool) (exd : List Char)
    (hd : ∀ c ∈ ip ++ fp ++ exd, c.isDigit = true) :
    subst1 c '.' (List.replicate k ' ' ++ subst1 '.' c (bodyE neg ip fp ech eneg exd)) =
      List.replicate k ' ' ++ bodyE neg ip fp ech eneg exd := by
  rw [subst1_append]
  have h1 : subst1 c '.' (List.replicate k ' ') = List.replicate k ' ' := by
    apply subst1_absent
    intro x hx
    rw [List.mem_replicate] at hx
    rw [hx.2]; exact fun e => hc1 e.symm
  rw [h1]
  congr 1
  by_cases hdot : c = '.'
  · subst hdot; rw [subst1_same, subst1_same]
  · apply subst1_back
    intro x hx
    rcases bodyE_chars neg ip fp ech eneg exd hd x hx with rfl | rfl | rfl | rfl | h
    · exact fun e => hc3 e.symm
    · exact fun e => hc4 e.symm
    · exact fun e => hc5 e.symm
    · exact fun e => hdot e.symm
    · intro e; subst e; rw [h] at hc2; exact absurd hc2 (by simp)

/-- `round(x, nd)` in terms of the `nearest` call -/
theorem pyRound_nd (neg : Bool) (m : Nat) (e nd : Int) (h1 : -308 ≤ nd) (h2 : nd ≤ 323) :
    pyRound (.fin neg m e) nd =
      (nearestDec 53 (-1074) 971 (roundScaled m e nd) nd).map fun p => .fin neg p.1 p.2 := by
  unfold pyRound nearestDec nearest
  have a1 : ¬ nd > 323 := by omega
  have a2 : ¬ nd < -308 := by omega
  simp only [a1, a2, if_false]
  by_cases hnd : nd ≥ 0
  · simp only [hnd, if_true]
    cases nearestG 53 (-1074) 971 (roundScaled m e nd) (10 ^ nd.toNat) with
    | none => rfl
    | some p => rfl
  · simp only [hnd, if_false]
    cases nearestG 53 (-1074) 971 (roundScaled m e nd * 10 ^ (-nd).toNat) 1 with
    | none => rfl
    | some p => rfl

/-- `FloatField._textual_write` in E notation for a non-zero finite value whose text fits -/
theorem renderText_fltE (f : Field) (dec : Nat) (fmt c : Char) (hk : f.kind = .flt dec fmt [c])
    (hfmt : fmt = 'E' ∨ fmt = 'e') (neg : Bool) (m : Nat) (e : Int) (hm : m ≠ 0) (r : Dbl)
    (hr : pyRound (.fin neg m e) ((dec : Int) - floorLog10 m e) = some r)
    (hfit : (fmtE r dec (fmt == 'E')).length ≤ f.size) :
    renderText f (.dbl (.fin neg m e)) = .ok (rjust (subst1 '.' c (fmtE r dec (fmt == 'E'))) f.size ' ') := by
  have hz : Dbl.isZero (.fin neg m e) = false := by
    cases m with
    | zero => exact absurd rfl hm
    | succ n => rfl
  have htake : ∀ s : List Char, s.length ≤ f.size → s.take f.size = s := fun s h => List.take_of_length_le h
  unfold renderText renderRaw renderFull
  rcases hfmt with rfl | rfl
  · have ht := htake (subst1 '.' c (fmtE r dec true)) (by rw [subst1_length]; simpa using hfit)
    simp [hk, Val.isNull, Dbl.isNaN, hz, hr, Except.map, replace_single, bind, Except.bind, pure, Except.pure, ht]
  · have ht := htake (subst1 '.' c (fmtE r dec false)) (by rw [subst1_length]; simpa using hfit)
    simp [hk, Val.isNull, Dbl.isNaN, hz, hr, Except.map, replace_single, bind, Except.bind, pure, Except.pure, ht]

/-- the text `'{:.{d}e}'` prints for the non-zero finite value `±m'·2^e'` -/
def sciText (neg : Bool) (m' : Nat) (e' : Int) (d : Nat) (ech : Char) : List Char :=
  bodyE neg ((natDigits (sci m' e' d).1).take 1) ((natDigits (sci m' e' d).1).drop 1) ech
    (decide ((sci m' e' d).2 < 0)) (expDigits (sci m' e' d).2)

/-- what `sci_core` says about the digits and exponent printed for `r = ±m'·2^e'`, the value
`x = ±m·2^e` was rounded to: `d + 1` digits, a small exponent, and the digits are within half
a unit of their last place of `x` -/
structure SciOk (m : Nat) (e : Int) (m' : Nat) (e' : Int) (d : Nat) : Prop where
  hN1 : 10 ^ d ≤ (sci m' e' d).1
  hN2 : (sci m' e' d).1 < 10 ^ (d + 1)
  hK1 : -324 ≤ (sci m' e' d).2
  hK2 : (sci m' e' d).2 ≤ 320
  hacc : 2 * absdiff ((sci m' e' d).1 * (2 ^ (-(-1074 : Int)).toNat * T ((sci m' e' d).2 - d)))
      (units (-1074) m e * 10 ^ 400) ≤ 2 ^ (-(-1074 : Int)).toNat * T ((sci m' e' d).2 - d)

/-- the shape part of `SciOk`: `d + 1` digits and a small exponent -/
structure SciShape (m' : Nat) (e' : Int) (d : Nat) : Prop where
  hN1 : 10 ^ d ≤ (sci m' e' d).1
  hN2 : (sci m' e' d).1 < 10 ^ (d + 1)
  hK1 : -324 ≤ (sci m' e' d).2
  hK2 : (sci m' e' d).2 ≤ 320

theorem sciText_digits (m' : Nat) (e' : Int) (d : Nat) (h1 : -400 ≤ (sci m' e' d).2) (h2 : (sci m' e' d).2 ≤ 400) :
    ∀ y ∈ (natDigits (sci m' e' d).1).take 1 ++ (natDigits (sci m' e' d).1).drop 1 ++
        expDigits (sci m' e' d).2, y.isDigit = true := by
  obtain ⟨_, _, x3, _⟩ := expDigits_facts (sci m' e' d).2 h1 h2
  intro y hy
  rw [List.take_append_drop, List.mem_append] at hy
  rcases hy with hy | hy
  · exact Cfi.natDigits_isDigit _ y hy
  · exact x3 y hy

/-- **E-notation float fields**: for every finite non-zero double whose last emitted digit has
place value `10^-323` or more (`wfB`: every normal double, and every subnormal one from
`10^(decimals-323)` on; the digits are moreover within half a unit of `x` from `10^(decimals-322)`
on, `wfE`), up to twelve declared decimals and a text that fits the field, the text written is `size` wide, parses to
`r = round(x, decimals − ⌊log10 |x|⌋)`, and writing `r` gives the same text again. -/
theorem fltE_core (f : Field) (dec : Nat) (fmt c : Char) (hk : f.kind = .flt dec fmt [c])
    (hfmt : fmt = 'E' ∨ fmt = 'e') (hc1 : c ≠ ' ') (hc2 : c.isDigit = false) (hc3 : c ≠ '-')
    (hc4 : c ≠ '+') (hc5 : c ≠ 'e') (hc6 : c ≠ 'E')
    (neg : Bool) (m : Nat) (e : Int) (hwf : wfB m e dec) (hdec : dec ≤ 12) (r : Dbl)
    (hr : pyRound (.fin neg m e) ((dec : Int) - floorLog10 m e) = some r)
    (hfit : (fmtE r dec (fmt == 'E')).length ≤ f.size) :
    ∃ t, renderText f (.dbl (.fin neg m e)) = .ok t ∧ t.length = f.size ∧
      parseText f.kind t = some (.dbl r) ∧ renderText f (.dbl r) = .ok t ∧
      ∃ m' e' k, r = .fin neg m' e' ∧ SciShape m' e' dec ∧ (wfE m e dec → SciOk m e m' e' dec) ∧
        t = List.replicate k ' ' ++ subst1 '.' c (sciText neg m' e' dec (if (fmt == 'E') = true then 'E' else 'e')) := by
  obtain ⟨hk1, hk2⟩ := kboundsB m e dec hwf hdec
  have hm0 : m ≠ 0 := hwf.1
  rw [pyRound_nd neg m e _ (by omega) (by omega)] at hr
  cases hnd : nearestDec 53 (-1074) 971 (roundScaled m e ((dec : Int) - floorLog10 m e)) ((dec : Int) - floorLog10 m e) with
  | none => rw [hnd] at hr; simp at hr
  | some p =>
    obtain ⟨m', e'⟩ := p
    rw [hnd] at hr
    simp only [Option.map_some, Option.some.injEq] at hr
    obtain ⟨hok, hN1, hN2, hK1, hK2, hback, hself, hk'1, hk'2, hacc⟩ := sci_core m e dec hwf hdec m' e' hnd
    subst hr
    have hshape := fmtE_fin neg m' e' dec (fmt == 'E') hok.hm0 hN1 hN2
    have hlenN := natDigits_len _ _ hN1 hN2
    obtain ⟨x1, x2, x3, x4⟩ := expDigits_facts (sci m' e' dec).2 (by omega) (by omega)
    have hdig : ∀ y ∈ (natDigits (sci m' e' dec).1).take 1 ++ (natDigits (sci m' e' dec).1).drop 1 ++
        expDigits (sci m' e' dec).2, y.isDigit = true := by
      intro y hy
      rw [List.take_append_drop, List.mem_append] at hy
      rcases hy with hy | hy
      · exact Cfi.natDigits_isDigit _ y hy
      · exact x3 y hy
    have hech : (if (fmt == 'E') = true then 'E' else 'e') = 'e' ∨ (if (fmt == 'E') = true then 'E' else 'e') = 'E' := by
      rcases hfmt with rfl | rfl <;> decide
    have hcech : c ≠ (if (fmt == 'E') = true then 'E' else 'e') := by
      rcases hfmt with rfl | rfl
      · exact hc6
      · exact hc5
    have hrend := renderText_fltE f dec fmt c hk hfmt neg m e hm0 (.fin neg m' e')
      (by rw [pyRound_nd neg m e _ (by omega) (by omega), hnd]; rfl) hfit
    refine ⟨rjust (subst1 '.' c (fmtE (.fin neg m' e') dec (fmt == 'E'))) f.size ' ', hrend, ?_, ?_, ?_, ?_⟩
    · simp only [rjust, List.length_append, List.length_replicate, subst1_length]; omega
    · rw [hk]
      simp only [parseText, replace_single, rjust, subst1_length]
      rw [hshape, sepE_back c hc1 hc2 hc3 hc4 _ hcech _ neg _ _ _ _ hdig,
        pyFloat_sci _ neg _ _ _ _ _ (by
          intro h
          have := congrArg List.length h
          simp only [List.length_take, hlenN, List.length_nil] at this
          omega) x1 x2 hdig hech]
      rw [List.take_append_drop]
      have hex : (if decide ((sci m' e' dec).2 < 0) = true then -(ofDigits ((expDigits (sci m' e' dec).2).map val) : Int)
          else (ofDigits ((expDigits (sci m' e' dec).2).map val) : Int)) = (sci m' e' dec).2 := by
        rw [x4]
        by_cases hneg : (sci m' e' dec).2 < 0
        · simp only [hneg, decide_true, if_true]; omega
        · simp only [hneg, decide_false, Bool.false_eq_true, if_false]; omega
      rw [hex]
      have hfl : ((natDigits (sci m' e' dec).1).drop 1).length = dec := by
        rw [List.length_drop, hlenN]; omega
      rw [hfl]
      rw [ofDecimal_nd neg _ dec _ (by rw [List.length_map, hlenN]; omega) (by omega) (by omega)
        (by rw [ofDigits_natDigits]; have := ten_pow_pos dec; omega) m' e'
        (by rw [ofDigits_natDigits]; exact hback)]
      rfl
    · apply renderText_fltE f dec fmt c hk hfmt neg m' e' hok.hm0 (.fin neg m' e') _ hfit
      have hk308 := klog_le_308 m' e' hok.hm0 hok.hm hok.he1 hok.he2
      by_cases hnd' : (dec : Int) - floorLog10 m' e' ≤ 323
      · rw [pyRound_nd neg m' e' _ (by omega) hnd']
        unfold nd53 at hself
        rw [hself]; rfl
      · -- more than 323 digits asked for: `round` returns its argument
        unfold pyRound
        have : (dec : Int) - floorLog10 m' e' > 323 := by omega
        simp only [this, if_true]
    · refine ⟨m', e', f.size - (subst1 '.' c (fmtE (.fin neg m' e') dec (fmt == 'E'))).length, rfl,
        ⟨hN1, hN2, hK1, hK2⟩, fun hE => ⟨hN1, hN2, hK1, hK2, hacc (kboundsE m e dec hE hdec).1⟩, ?_⟩
      unfold sciText
      rw [← hshape]; rfl

end Proofs.FloatELaw
