import Cfi.Container
/-! Pure list lemmas about `nextIn`/`prevIn` under insertion and erasure. -/
namespace Cfi.Container

theorem nextIn_mem {l : List Id} {x y : Id} (h : nextIn l x = some y) : y ∈ l ∧ x ∈ l := by
  fun_induction nextIn l x <;> grind

theorem prevIn_mem {l : List Id} {x y : Id} (h : prevIn l x = some y) : y ∈ l ∧ x ∈ l := by
  fun_induction prevIn l x <;> grind

theorem nextIn_not_mem {l : List Id} {x : Id} (h : x ∉ l) : nextIn l x = none := by
  fun_induction nextIn l x <;> grind

theorem prevIn_not_mem {l : List Id} {x : Id} (h : x ∉ l) : prevIn l x = none := by
  fun_induction prevIn l x <;> grind

theorem nextIn_ne {l : List Id} {x y : Id} (hn : l.Nodup) (h : nextIn l x = some y) : y ≠ x := by
  fun_induction nextIn l x <;> grind [nextIn_mem]

theorem prevIn_ne {l : List Id} {x y : Id} (hn : l.Nodup) (h : prevIn l x = some y) : y ≠ x := by
  fun_induction prevIn l x <;> grind [prevIn_mem]

theorem nextIn_mem_tail {l : List Id} {x y : Id} (h : nextIn l x = some y) : y ∈ l.tail := by
  fun_induction nextIn l x <;> grind

theorem nextIn_ne_head {w : Id} {t : List Id} {a : Id} (hn : (w :: t).Nodup) :
    nextIn (w :: t) a ≠ some w := by
  intro h; have := nextIn_mem_tail h; grind

theorem prevIn_head {y : Id} {t : List Id} (hn : (y :: t).Nodup) : prevIn (y :: t) y = none := by
  cases t with
  | nil => rfl
  | cons z t =>
    have : prevIn (z :: t) y = none := prevIn_not_mem (by grind)
    grind [prevIn]

/-- `y` follows `x` iff `x` precedes `y`. -/
theorem nextIn_iff_prevIn {l : List Id} {x y : Id} (hn : l.Nodup) :
    nextIn l x = some y ↔ prevIn l y = some x := by
  induction l with
  | nil => simp [nextIn, prevIn]
  | cons a t ih =>
    cases t with
    | nil => simp [nextIn, prevIn]
    | cons b t =>
      have hn' : (b :: t).Nodup := (List.nodup_cons.mp hn).2
      have ih := ih hn'
      simp only [nextIn, prevIn]
      by_cases h1 : a = x <;> by_cases h2 : b = y
      · grind
      · have : prevIn (b :: t) y ≠ some x := by
          intro hh; have := (prevIn_mem hh).1; grind
        grind
      · have : nextIn (b :: t) x ≠ some y := by
          intro hh; have := nextIn_mem_tail hh; grind
        grind
      · grind

theorem mem_insertBefore {l : List Id} {b n x : Id} (hb : b ∈ l) :
    x ∈ insertBefore l b n ↔ x = n ∨ x ∈ l := by
  fun_induction insertBefore l b n <;> grind

theorem mem_insertAfter {l : List Id} {a n x : Id} (ha : a ∈ l) :
    x ∈ insertAfter l a n ↔ x = n ∨ x ∈ l := by
  fun_induction insertAfter l a n <;> grind

theorem nodup_insertBefore {l : List Id} {b n : Id} (hn : l.Nodup) (hb : b ∈ l) (hx : n ∉ l) :
    (insertBefore l b n).Nodup := by
  fun_induction insertBefore l b n <;> grind [mem_insertBefore]

theorem nodup_insertAfter {l : List Id} {a n : Id} (hn : l.Nodup) (ha : a ∈ l) (hx : n ∉ l) :
    (insertAfter l a n).Nodup := by
  fun_induction insertAfter l a n <;> grind [mem_insertAfter]

theorem head?_insertBefore {l : List Id} {b n : Id} :
    (insertBefore l b n).head? = if l.head? = some b then some n else l.head? := by
  fun_induction insertBefore l b n <;> grind

theorem head?_insertAfter {l : List Id} {a n : Id} :
    (insertAfter l a n).head? = l.head? := by
  fun_induction insertAfter l a n <;> grind

theorem getLast?_insertBefore {l : List Id} {b n : Id} :
    (insertBefore l b n).getLast? = l.getLast? := by
  fun_induction insertBefore l b n <;> grind [List.getLast?_cons_cons]

theorem getLast?_insertAfter {l : List Id} {a n : Id} (hn : l.Nodup) :
    (insertAfter l a n).getLast? = if l.getLast? = some a then some n else l.getLast? := by
  fun_induction insertAfter l a n <;> grind [List.getLast?_cons_cons, List.mem_of_getLast?]

theorem nextIn_insertAfter {l : List Id} {a n x : Id} (hn : l.Nodup) (ha : a ∈ l) (hx : n ∉ l) :
    nextIn (insertAfter l a n) x =
      if x = a then some n else if x = n then nextIn l a else nextIn l x := by
  induction l with
  | nil => simp at ha
  | cons y t ih =>
    cases t with
    | nil => grind [nextIn, insertAfter]
    | cons z t =>
      by_cases hy : y = a
      · subst hy
        have h1 : nextIn (z :: t) n = none := nextIn_not_mem (by grind)
        grind [nextIn, insertAfter]
      · have ih := ih (by grind) (by grind) (by grind)
        have h1 : insertAfter (y :: z :: t) a n = y :: insertAfter (z :: t) a n := by
          simp [insertAfter, hy]
        have h2 : ∃ w u, insertAfter (z :: t) a n = w :: u ∧ w = z := by
          simp only [insertAfter]; split <;> simp
        obtain ⟨w, u, h2, h3⟩ := h2
        subst h3
        rw [h1, h2, nextIn, ← h2, ih]
        grind [nextIn]

theorem prevIn_insertAfter {l : List Id} {a n x : Id} (hn : l.Nodup) (ha : a ∈ l) (hx : n ∉ l) :
    prevIn (insertAfter l a n) x =
      if x = n then some a else if nextIn l a = some x then some n else prevIn l x := by
  induction l with
  | nil => simp at ha
  | cons y t ih =>
    cases t with
    | nil => grind [prevIn, nextIn, insertAfter]
    | cons z t =>
      by_cases hy : y = a
      · subst hy
        grind [prevIn, nextIn, insertAfter]
      · have ih := ih (by grind) (by grind) (by grind)
        have h1 : insertAfter (y :: z :: t) a n = y :: insertAfter (z :: t) a n := by
          simp [insertAfter, hy]
        have h2 : ∃ w u, insertAfter (z :: t) a n = w :: u ∧ w = z := by
          simp only [insertAfter]; split <;> simp
        obtain ⟨w, u, h2, h3⟩ := h2
        subst h3
        rw [h1, h2, prevIn, ← h2, ih]
        have := @nextIn_ne_head w t a (by grind)
        grind [prevIn, nextIn]

theorem nextIn_insertBefore {l : List Id} {b n x : Id} (hn : l.Nodup) (hb : b ∈ l) (hx : n ∉ l) :
    nextIn (insertBefore l b n) x =
      if x = n then some b else if nextIn l x = some b then some n else nextIn l x := by
  induction l with
  | nil => simp at hb
  | cons y t ih =>
    by_cases hy : y = b
    · subst hy
      have := @nextIn_ne_head y t x hn
      cases t <;> grind [nextIn, insertBefore]
    · cases t with
      | nil => grind
      | cons z t =>
        have ih := ih (by grind) (by grind) (by grind)
        have h1 : insertBefore (y :: z :: t) b n = y :: insertBefore (z :: t) b n := by
          simp [insertBefore, hy]
        by_cases hz : z = b
        · subst hz
          have := @nextIn_ne_head z t x (by grind)
          have h3 : nextIn (z :: t) n = none := nextIn_not_mem (by grind)
          grind [nextIn, insertBefore]
        · have h2 : ∃ u, insertBefore (z :: t) b n = z :: u := by
            simp only [insertBefore, hz]; simp
          obtain ⟨u, h2⟩ := h2
          rw [h1, h2, nextIn, ← h2, ih]
          grind [nextIn]

theorem prevIn_insertBefore {l : List Id} {b n x : Id} (hn : l.Nodup) (hb : b ∈ l) (hx : n ∉ l) :
    prevIn (insertBefore l b n) x =
      if x = b then some n else if x = n then prevIn l b else prevIn l x := by
  induction l with
  | nil => simp at hb
  | cons y t ih =>
    by_cases hy : y = b
    · subst hy
      have h3 : prevIn (y :: t) n = none := prevIn_not_mem (by grind)
      have h4 := prevIn_head hn
      cases t <;> grind [prevIn, insertBefore]
    · cases t with
      | nil => grind
      | cons z t =>
        have ih := ih (by grind) (by grind) (by grind)
        have h1 : insertBefore (y :: z :: t) b n = y :: insertBefore (z :: t) b n := by
          simp [insertBefore, hy]
        by_cases hz : z = b
        · subst hz
          have h3 : prevIn (z :: t) n = none := prevIn_not_mem (by grind)
          grind [prevIn, insertBefore]
        · have h2 : ∃ u, insertBefore (z :: t) b n = z :: u := by
            simp only [insertBefore, hz]; simp
          obtain ⟨u, h2⟩ := h2
          rw [h1, h2, prevIn, ← h2, ih]
          grind [prevIn]

/-! ### erase -/

theorem head?_erase {l : List Id} {r : Id} :
    (l.erase r).head? = if l.head? = some r then nextIn l r else l.head? := by
  cases l with
  | nil => simp
  | cons y t =>
    cases t with
    | nil => by_cases h : y = r <;> simp [h, nextIn]
    | cons z t => by_cases h : y = r <;> simp [h, nextIn]

theorem nextIn_erase {l : List Id} {r x : Id} (hn : l.Nodup) (hx : x ≠ r) :
    nextIn (l.erase r) x = if nextIn l x = some r then nextIn l r else nextIn l x := by
  induction l with
  | nil => simp [nextIn]
  | cons y t ih =>
    have ih := ih (by grind)
    cases t with
    | nil => by_cases h : y = r <;> simp [h, nextIn]
    | cons z t =>
      by_cases hy : y = r
      · subst hy
        have := @nextIn_ne_head y (z :: t) x hn
        simp [nextIn]
        grind [nextIn]
      · by_cases hz : z = r
        · subst hz
          have e : (y :: z :: t).erase z = y :: t := by simp [hy]
          rw [e]
          have hh : nextIn (z :: t) x = nextIn t x := by
            cases t <;> grind [nextIn]
          cases t with
          | nil => grind [nextIn]
          | cons w t => grind [nextIn]
        · have e : (y :: z :: t).erase r = y :: z :: (t.erase r) := by
            simp [hy, hz]
          have e2 : (z :: t).erase r = z :: (t.erase r) := by simp [hz]
          rw [e, nextIn, ← e2, ih]
          grind [nextIn]

theorem prevIn_erase {l : List Id} {r x : Id} (hn : l.Nodup) (hx : x ≠ r) :
    prevIn (l.erase r) x = if prevIn l x = some r then prevIn l r else prevIn l x := by
  induction l with
  | nil => simp [prevIn]
  | cons y t ih =>
    have ih := ih (by grind)
    cases t with
    | nil => by_cases h : y = r <;> simp [h, prevIn]
    | cons z t =>
      by_cases hy : y = r
      · subst hy
        have h4 := prevIn_head hn
        have h5 : prevIn (z :: t) y = none := prevIn_not_mem (by grind)
        have h6 : prevIn (z :: t) x ≠ some y := by
          intro hh; have := (prevIn_mem hh).1; grind
        have h7 := prevIn_head (show (z :: t).Nodup by grind)
        simp [prevIn]
        grind [prevIn]
      · by_cases hz : z = r
        · subst hz
          have e : (y :: z :: t).erase z = y :: t := by simp [hy]
          rw [e]
          have h4 := prevIn_head (show (z :: t).Nodup by grind)
          cases t with
          | nil => grind [prevIn]
          | cons w t => grind [prevIn]
        · have e : (y :: z :: t).erase r = y :: z :: (t.erase r) := by
            simp [hy, hz]
          have e2 : (z :: t).erase r = z :: (t.erase r) := by simp [hz]
          rw [e, prevIn, ← e2, ih]
          have h5 : prevIn (z :: t) r ≠ some y := by
            intro hh; have := (prevIn_mem hh).1; grind
          grind [prevIn]

theorem getLast?_erase {l : List Id} {r : Id} (hn : l.Nodup) :
    (l.erase r).getLast? = if l.getLast? = some r then prevIn l r else l.getLast? := by
  induction l with
  | nil => simp
  | cons y t ih =>
    have ih := ih (by grind)
    cases t with
    | nil => by_cases h : y = r <;> simp [h, prevIn]
    | cons z t =>
      by_cases hy : y = r
      · subst hy
        have h4 := prevIn_head hn
        have : (z :: t).getLast? ≠ some y := by
          intro hh; have := List.mem_of_getLast? hh; grind
        simp [List.getLast?_cons_cons] at *
        grind
      · by_cases hz : z = r
        · subst hz
          have e : (y :: z :: t).erase z = y :: t := by simp [hy]
          rw [e]
          cases t with
          | nil => simp [prevIn]
          | cons w t =>
            have : (w :: t).getLast? ≠ some z := by
              intro hh; have := List.mem_of_getLast? hh; grind
            simp [List.getLast?_cons_cons] at *
            grind
        · have e : (y :: z :: t).erase r = y :: z :: (t.erase r) := by
            simp [hy, hz]
          have e2 : (z :: t).erase r = z :: (t.erase r) := by simp [hz]
          rw [e, List.getLast?_cons_cons, ← e2, ih, List.getLast?_cons_cons]
          grind [prevIn]

theorem nextIn_eq_none_iff {l : List Id} {x : Id} (hn : l.Nodup) (hx : x ∈ l) :
    nextIn l x = none ↔ l.getLast? = some x := by
  induction l with
  | nil => simp at hx
  | cons y t ih =>
    cases t with
    | nil => simp_all [nextIn]
    | cons z t =>
      have ih := ih (by grind)
      rw [List.getLast?_cons_cons, nextIn]
      by_cases hy : y = x
      · subst hy
        have : (z :: t).getLast? ≠ some y := by
          intro hh; have := List.mem_of_getLast? hh; grind
        simp [this]
      · simp [hy]; exact ih (by grind)

theorem prevIn_eq_none_iff {l : List Id} {x : Id} (hn : l.Nodup) (hx : x ∈ l) :
    prevIn l x = none ↔ l.head? = some x := by
  cases l with
  | nil => simp at hx
  | cons y t =>
    by_cases hy : y = x
    · subst hy; simp [prevIn_head hn]
    · simp [hy]
      have hx' : x ∈ t := by grind
      clear hx
      induction t generalizing y with
      | nil => simp at hx'
      | cons z t ih =>
        by_cases hz : z = x
        · simp [prevIn, hz]
        · simp only [prevIn, hz, if_false]
          exact ih z (by grind) hz (by grind)

/-- Walking the neighbour function of a duplicate-free list from an element
returns the suffix starting there. -/
theorem iterFrom_nextIn {l : List Id} (hn : l.Nodup) (pre suf : List Id) (x : Id)
    (hl : l = pre ++ x :: suf) (k : Nat) :
    iterFrom (nextIn l) (suf.length + 1 + k) (some x) = x :: suf := by
  induction suf generalizing pre x with
  | nil =>
    have : nextIn l x = none := (nextIn_eq_none_iff hn (by simp [hl])).2 (by simp [hl])
    rw [show ([] : List Id).length + 1 + k = k + 1 by simp; omega, iterFrom, this]
    cases k <;> rfl
  | cons y suf ih =>
    have hxy : nextIn l x = some y := by
      subst hl
      clear ih
      induction pre with
      | nil => simp [nextIn]
      | cons p pre ihp =>
        have : p ≠ x := by
          have := (List.nodup_cons.mp hn).1; grind
        cases pre with
        | nil => simp [nextIn, this]
        | cons q pre => 
          simp only [List.cons_append, nextIn, this, if_false]
          exact ihp (by grind)
    have := ih (pre ++ [x]) y (by simp [hl])
    have e : (y :: suf).length + 1 + k = (suf.length + 1 + k) + 1 := by simp; omega
    rw [e, iterFrom, hxy, this]

theorem prevIn_mid {pre suf : List Id} {p x : Id} (hn : (pre ++ p :: x :: suf).Nodup) :
    prevIn (pre ++ p :: x :: suf) x = some p := by
  induction pre with
  | nil => simp [prevIn]
  | cons q pre ih =>
    have ih := ih (by grind)
    cases pre with
    | nil =>
      have : p ≠ x := by grind
      simp only [List.cons_append, List.nil_append, prevIn, this, if_false] at *
      exact ih
    | cons r pre =>
      have : r ≠ x := by
        have := (List.nodup_cons.mp (List.nodup_cons.mp hn).2).1
        grind
      simp only [List.cons_append, prevIn, this, if_false] at *
      exact ih

theorem iterFrom_prevIn {l : List Id} (hn : l.Nodup) (pre suf : List Id) (x : Id)
    (hl : l = pre ++ x :: suf) (k : Nat) :
    iterFrom (prevIn l) (pre.length + 1 + k) (some x) = x :: pre.reverse := by
  induction hlen : pre.length generalizing pre suf x with
  | zero =>
    have hp : pre = [] := List.length_eq_zero_iff.mp hlen
    subst hp
    have : prevIn l x = none := by subst hl; exact prevIn_head hn
    rw [show 0 + 1 + k = k + 1 by omega, iterFrom, this]
    cases k <;> rfl
  | succ m ih =>
    have hne : pre ≠ [] := by intro h; simp [h] at hlen
    obtain ⟨pre', p, rfl⟩ : ∃ pre' p, pre = pre' ++ [p] :=
      ⟨pre.dropLast, pre.getLast hne, (List.dropLast_concat_getLast hne).symm⟩
    have hm : pre'.length = m := by simp at hlen; omega
    have hxy : prevIn l x = some p := by
      subst hl
      have := @prevIn_mid pre' suf p x (by simpa using hn)
      simpa using this
    have := ih pre' (x :: suf) p (by simp [hl]) hm
    rw [show m + 1 + 1 + k = (m + 1 + k) + 1 by omega, iterFrom, hxy, this]
    simp

end Cfi.Container
