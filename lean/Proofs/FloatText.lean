import Proofs.IntLaw
import Proofs.Nearest
/-!
`float()` applied to what `'{:.{d}f}'.format` prints: the parse of a fixed-point
numeral `[-]ip[.fp]` (plain ASCII digits) is the double nearest to
`digits / 10^|fp|` (`pyFloat_fixed`), and the digits `fmtF` prints are those of
`⌊x·10^d⌉` (`fmtF_shape`).
-/
set_option exponentiation.threshold 3000

namespace Proofs.FloatText
open Cfi Cfi.Text Cfi.PyInt Cfi.Dbl Proofs.Nearest

theorem digitVal_dot : digitVal '.' = none := by decide

abbrev val (c : Char) : Nat := c.toNat - 48

theorem digitsGo_rest (acc : List Nat) (r rest : List Char) (h : ∀ c ∈ r, c.isDigit = true)
    (hrest : rest = [] ∨ ∃ t, rest = '.' :: t) :
    digitsGo acc (r ++ rest) = (acc.reverse ++ r.map val, rest) := by
  induction r generalizing acc with
  | nil =>
    rcases hrest with rfl | ⟨t, rfl⟩
    · simp [digitsGo]
    · rw [List.nil_append, digitsGo.eq_def]
      simp [digitVal_dot]
  | cons c r ih =>
    have hc := digitVal_ascii (h c List.mem_cons_self)
    have step : digitsGo acc (c :: r ++ rest) = digitsGo ((c.toNat - 48) :: acc) (r ++ rest) := by
      rw [List.cons_append, digitsGo.eq_def]; simp only [hc]
    rw [step, ih _ (fun x hx => h x (List.mem_cons_of_mem c hx))]
    simp [val]

theorem digitsUS_rest (r rest : List Char) (hne : r ≠ []) (h : ∀ c ∈ r, c.isDigit = true)
    (hrest : rest = [] ∨ ∃ t, rest = '.' :: t) :
    digitsUS (r ++ rest) = some (r.map val, rest) := by
  cases r with
  | nil => exact absurd rfl hne
  | cons c r =>
    simp only [List.cons_append, digitsUS, digitVal_ascii (h c (by simp))]
    rw [digitsGo_rest _ r rest (fun x hx => h x (by simp [hx])) hrest]
    simp [val]

theorem digitsUS_dot (t : List Char) : digitsUS ('.' :: t) = none := by
  simp [digitsUS, digitVal_dot]

theorem lower_digit {c : Char} (h : c.isDigit = true) : lower c = c := by
  have := (isDigit_iff c).1 h
  unfold lower
  have h1 : ¬ ('A' ≤ c) := by
    intro hle
    have : 'A'.toNat ≤ c.toNat := hle
    simp at this; omega
  simp [h1]

/-- the text body `[-]ip[.fp]` -/
def body (neg : Bool) (ip fp : List Char) : List Char :=
  (if neg then ['-'] else []) ++ (ip ++ (if fp.isEmpty then [] else '.' :: fp))

theorem sign_digits (c : Char) (r : List Char) (h : c.isDigit = true) : sign (c :: r) = (false, c :: r) := by
  have hc := (isDigit_iff c).1 h
  have h1 : c ≠ '+' := by intro e; subst e; simp at hc
  have h2 : c ≠ '-' := by intro e; subst e; simp at hc
  unfold sign
  split
  · rename_i heq; injection heq with h _; exact absurd h h1
  · rename_i heq; injection heq with h _; exact absurd h h2
  · rfl

theorem sign_body (neg : Bool) (ip fp : List Char) (hne : ip ≠ []) (hd : ∀ c ∈ ip, c.isDigit = true) :
    sign (body neg ip fp) = (neg, ip ++ (if fp.isEmpty then [] else '.' :: fp)) := by
  cases ip with
  | nil => exact absurd rfl hne
  | cons c r =>
    cases neg
    · simp only [body, Bool.false_eq_true, if_false, List.nil_append, List.cons_append]
      exact sign_digits c _ (hd c (by simp))
    · simp [body, sign]

theorem isNumWs_dot : isNumWs '.' = false := by decide

theorem body_notws (neg : Bool) (ip fp : List Char) (hd : ∀ c ∈ ip ++ fp, c.isDigit = true) :
    ∀ x ∈ body neg ip fp, isNumWs x = false := by
  intro x hx
  unfold body at hx
  simp only [List.mem_append] at hx
  rcases hx with hx | hx | hx
  · cases neg
    · simp at hx
    · simp at hx; subst hx; exact isNumWs_minus
  · exact isNumWs_digit (hd x (by simp [hx]))
  · by_cases hf : fp.isEmpty = true
    · simp [hf] at hx
    · simp only [hf, Bool.false_eq_true, if_false, List.mem_cons] at hx
      rcases hx with rfl | hx
      · exact isNumWs_dot
      · exact isNumWs_digit (hd x (by simp [hx]))

theorem strip_body (k : Nat) (neg : Bool) (ip fp : List Char) (hd : ∀ c ∈ ip ++ fp, c.isDigit = true) :
    stripBy isNumWs (List.replicate k ' ' ++ body neg ip fp) = body neg ip fp := by
  apply stripBy_pad_left k ' ' _ isNumWs_blank
  · intro x hx
    exact body_notws neg ip fp hd x (List.mem_of_mem_head? hx)
  · intro x hx
    exact body_notws neg ip fp hd x (List.mem_of_getLast? hx)

theorem not_special (c : Char) (r : List Char) (h : c.isDigit = true) :
    (((c :: r).map lower == "inf".toList) || ((c :: r).map lower == "infinity".toList)) = false ∧
    ((c :: r).map lower == "nan".toList) = false := by
  have hl := lower_digit h
  have hc := (isDigit_iff c).1 h
  have h1 : c ≠ 'i' := by intro e; subst e; simp at hc
  have h2 : c ≠ 'n' := by intro e; subst e; simp at hc
  simp [hl, h1, h2]

/-- **`float()` of a fixed-point numeral**: blanks, an optional minus, a non-empty run of ASCII
digits, optionally a point and more ASCII digits -/
theorem pyFloat_fixed (k : Nat) (neg : Bool) (ip fp : List Char) (hne : ip ≠ [])
    (hd : ∀ c ∈ ip ++ fp, c.isDigit = true) :
    pyFloat (List.replicate k ' ' ++ body neg ip fp) = some (ofDecimal neg ((ip ++ fp).map val) fp.length 0) := by
  have hdi : ∀ c ∈ ip, c.isDigit = true := fun c hc => hd c (by simp [hc])
  have hdf : ∀ c ∈ fp, c.isDigit = true := fun c hc => hd c (by simp [hc])
  unfold pyFloat
  simp only [strip_body k neg ip fp hd, sign_body neg ip fp hne hdi]
  obtain ⟨c, r, rfl⟩ := List.exists_cons_of_ne_nil hne
  have hsp := not_special c (r ++ (if fp.isEmpty then [] else '.' :: fp)) (hdi c (by simp))
  simp only [List.cons_append] at hsp ⊢
  simp only [hsp.1, hsp.2, Bool.false_eq_true, if_false]
  by_cases hf : fp = []
  · subst hf
    have h4 := digitsUS_rest (c :: r) [] (by simp) hdi (Or.inl rfl)
    simp only [List.append_nil, List.cons_append] at h4
    simp only [List.isEmpty_nil, if_true, List.append_nil, h4]
    simp
  · have hfe : fp.isEmpty = false := by simpa using hf
    have h4 := digitsUS_rest (c :: r) ('.' :: fp) (by simp) hdi (Or.inr ⟨fp, rfl⟩)
    have h5 := digitsUS_rest fp [] hf hdf (Or.inl rfl)
    simp only [List.append_nil, List.cons_append] at h4 h5
    simp only [hfe, Bool.false_eq_true, if_false, h4, h5]
    simp

/-! ### the digits `fmtF` prints -/

/-- the digit string of `fmtF`: `str(n)` padded with zeros to at least `d + 1` digits -/
def fdigits (n d : Nat) : List Char :=
  if (natDigits n).length ≤ d then zeros (d + 1 - (natDigits n).length) ++ natDigits n else natDigits n

theorem fdigits_eq (n d : Nat) : ∃ k, fdigits n d = List.replicate k '0' ++ natDigits n ∧
    d + 1 ≤ k + (natDigits n).length := by
  unfold fdigits zeros
  split
  · exact ⟨_, rfl, by omega⟩
  · exact ⟨0, by simp, by omega⟩

theorem fdigits_isDigit (n d : Nat) : ∀ c ∈ fdigits n d, c.isDigit = true := by
  obtain ⟨k, hk, _⟩ := fdigits_eq n d
  intro c hc
  rw [hk, List.mem_append] at hc
  rcases hc with hc | hc
  · rw [List.mem_replicate] at hc; rw [hc.2]; decide
  · exact natDigits_isDigit n c hc

theorem fdigits_length (n d : Nat) : d + 1 ≤ (fdigits n d).length := by
  obtain ⟨k, hk, h⟩ := fdigits_eq n d
  rw [hk]; simp; omega

theorem foldl_zeros (k : Nat) : (List.replicate k 0).foldl (fun a d => 10 * a + d) 0 = 0 := by
  induction k with
  | zero => rfl
  | succ k ih => simp [List.replicate_succ, ih]

theorem dropWhile_zeros (k : Nat) (l : List Nat) :
    (List.replicate k 0 ++ l).dropWhile (· == 0) = l.dropWhile (· == 0) := by
  induction k with
  | zero => simp
  | succ k ih => simp [List.replicate_succ, ih]

theorem ofDigits_dropWhile (l : List Nat) : ofDigits (l.dropWhile (· == 0)) = ofDigits l := by
  induction l with
  | nil => rfl
  | cons a l ih =>
    by_cases ha : a = 0
    · subst ha
      simp only [List.dropWhile_cons, beq_self_eq_true, if_true, ih]
      simp [ofDigits]
    · simp [ha]

theorem foldl_ge (l : List Nat) (acc : Nat) : acc ≤ l.foldl (fun a d => 10 * a + d) acc := by
  induction l generalizing acc with
  | nil => exact Nat.le_refl _
  | cons d l ih => exact Nat.le_trans (by omega) (ih (10 * acc + d))

theorem dropWhile_empty_iff (l : List Nat) : (l.dropWhile (· == 0)).isEmpty = true ↔ ofDigits l = 0 := by
  induction l with
  | nil => simp [ofDigits]
  | cons a l ih =>
    by_cases ha : a = 0
    · subst ha
      simp only [List.dropWhile_cons, beq_self_eq_true, if_true, ih]
      simp [ofDigits]
    · simp only [List.dropWhile_cons, beq_iff_eq, ha, if_false, List.isEmpty_cons, Bool.false_eq_true, false_iff]
      have := foldl_ge l (10 * 0 + a)
      simp only [ofDigits, List.foldl_cons]
      omega

theorem ofDigits_natDigits (n : Nat) : ofDigits ((natDigits n).map val) = n := by
  rw [ofDigits_map]
  exact Nat.ofDigitChars_ten_toDigits

theorem map_val_fdigits (n d : Nat) : ∃ k, (fdigits n d).map val = List.replicate k 0 ++ (natDigits n).map val := by
  obtain ⟨k, hk, _⟩ := fdigits_eq n d
  refine ⟨k, ?_⟩
  rw [hk, List.map_append, List.map_replicate]
  rfl

/-- **`float()` of the digits `fmtF` prints**, `d` of them after the point, is the double
nearest to `n/10^d` — the very call `round(x, d)` makes -/
theorem ofDecimal_fdigits (neg : Bool) (n d : Nat) (hn : n < 10 ^ (d + 400)) (hd : d ≤ 400) :
    (∀ m e, nearest n (10 ^ d) = some (m, e) → ofDecimal neg ((fdigits n d).map val) d 0 = .fin neg m e) ∧
    (nearest n (10 ^ d) = none → ofDecimal neg ((fdigits n d).map val) d 0 = .inf neg) := by
  obtain ⟨k, hk⟩ := map_val_fdigits n d
  unfold ofDecimal
  simp only [hk, dropWhile_zeros]
  by_cases h0 : n = 0
  · subst h0
    have : ((natDigits 0).map val).dropWhile (· == 0) = [] := by decide
    simp [this, nearest, nearestG]
  · have hne : ((List.map val (natDigits n)).dropWhile (· == 0)).isEmpty = false := by
      cases h : ((List.map val (natDigits n)).dropWhile (· == 0)).isEmpty with
      | false => rfl
      | true =>
        have := (dropWhile_empty_iff _).1 h
        rw [ofDigits_natDigits] at this
        exact absurd this h0
    have hlen : ((List.map val (natDigits n)).dropWhile (· == 0)).length ≤ d + 400 := by
      have h1 : ((List.map val (natDigits n)).dropWhile (· == 0)).length ≤ (List.map val (natDigits n)).length :=
        (List.dropWhile_sublist _).length_le
      have h2 : (natDigits n).length ≤ d + 400 :=
        (Nat.length_toDigits_le_iff (b := 10) (by omega) (by omega)).2 hn
      simp only [List.length_map] at h1
      omega
    have hpos : 0 < ((List.map val (natDigits n)).dropWhile (· == 0)).length := by
      cases h : (List.map val (natDigits n)).dropWhile (· == 0) with
      | nil => simp [h] at hne
      | cons a l => simp
    simp only [hne, Bool.false_eq_true, if_false, ofDigits_dropWhile, ofDigits_natDigits]
    have a1 : ¬ ((0 : Int) - (d : Int) + (((List.map val (natDigits n)).dropWhile (· == 0)).length : Int) > 400) := by omega
    have a2 : ¬ ((0 : Int) - (d : Int) + (((List.map val (natDigits n)).dropWhile (· == 0)).length : Int) < -400) := by omega
    simp only [a1, a2, if_false]
    by_cases hd0 : d = 0
    · subst hd0
      simp only [Nat.pow_zero]
      refine ⟨fun m e h => ?_, fun h => ?_⟩ <;> simp [h]
    · have : ¬ ((0 : Int) - (d : Int) ≥ 0) := by omega
      have e1 : (-((0 : Int) - (d : Int))).toNat = d := by omega
      simp only [this, if_false, e1]
      refine ⟨fun m e h => ?_, fun h => ?_⟩ <;> simp [h]

/-- integer and fraction digits of `fmtF` -/
def fip (n d : Nat) : List Char := (fdigits n d).take ((fdigits n d).length - d)
def ffp (n d : Nat) : List Char := (fdigits n d).drop ((fdigits n d).length - d)

theorem fip_ffp (n d : Nat) : fip n d ++ ffp n d = fdigits n d := List.take_append_drop _ _

theorem ffp_length (n d : Nat) : (ffp n d).length = d := by
  have := fdigits_length n d
  simp only [ffp, List.length_drop]; omega

theorem fip_ne (n d : Nat) : fip n d ≠ [] := by
  have := fdigits_length n d
  intro h
  have : (fip n d).length = 0 := by rw [h]; rfl
  simp only [fip, List.length_take] at this
  omega

/-- `'{:.{d}f}'.format(x)` is `[-]ip[.fp]` with the digits of `⌊|x|·10^d⌉` -/
theorem fmtF_fin (neg : Bool) (m : Nat) (e : Int) (d : Nat) (upper : Bool) :
    fmtF (.fin neg m e) d upper = body neg (fip (roundScaled m e d) d) (ffp (roundScaled m e d) d) := by
  have hl := ffp_length (roundScaled m e d) d
  unfold fmtF body
  simp only []
  rw [List.append_assoc]
  congr 2
  by_cases hd : d = 0
  · subst hd
    have h0 := List.eq_nil_of_length_eq_zero hl
    simp
    simpa using h0
  · have : (ffp (roundScaled m e d) d).isEmpty = false := by
      cases h : (ffp (roundScaled m e d) d).isEmpty with
      | false => rfl
      | true => rw [List.isEmpty_iff_length_eq_zero, hl] at h; exact absurd h hd
    have hpos : d > 0 := Nat.pos_of_ne_zero hd
    simp only [this, hpos, if_true, Bool.false_eq_true, if_false]
    rfl

/-! ### `float('{:.{d}f}'.format(round(x, d))) == round(x, d)` -/

/-- a well-formed finite double: what `ofBits` produces -/
def wf (m : Nat) (e : Int) : Prop := m < 2 ^ 53 ∧ -1074 ≤ e ∧ e ≤ 971

/-- abstract form of the size bound: `n·b` within half a `b` of `X·T`, `X < C·b`, gives `n ≤ C·T` -/
theorem round_bound (n b T C X : Nat) (hb : 0 < b) (hX : X < C * b)
    (h : 2 * (n * b) ≤ 2 * (X * T) + b) : n ≤ C * T := by
  apply Nat.le_of_not_lt
  intro hlt
  have h1 : (C * T + 1) * b ≤ n * b := Nat.mul_le_mul_right b hlt
  have h2 : (X + 1) * T ≤ C * b * T := Nat.mul_le_mul_right T hX
  have e1 : (C * T + 1) * b = C * b * T + b := by grind
  have e2 : (X + 1) * T = X * T + T := by grind
  omega

theorem two_1024_lt : (2 : Nat) ^ 1024 < 10 ^ 400 := by decide

theorem roundScaled_lt (m : Nat) (e : Int) (d : Nat) (h : wf m e) :
    roundScaled m e d < 10 ^ (d + 400) := by
  obtain ⟨hm, he1, he2⟩ := h
  have r1 := roundScaled_units m e d (-1074) he1 (by decide)
  have z1 : (-(d : Int)).toNat = 0 := by omega
  have z2 : ((d : Int)).toNat = d := by omega
  rw [z1, z2] at r1
  simp only [Nat.pow_zero, Nat.mul_one] at r1
  obtain ⟨_, s2, _⟩ := divHE_spec (Proofs.Nearest.units (-1074) m e * 10 ^ d) (2 ^ (-(-1074 : Int)).toNat)
    (Proofs.Nearest.two_pow_pos _)
  rw [← r1] at s2
  -- units < 2^1024 · 2^1074
  have hX : Proofs.Nearest.units (-1074) m e < 2 ^ 1024 * 2 ^ (-(-1074 : Int)).toNat := by
    unfold Proofs.Nearest.units
    have e1 : (e - (-1074)).toNat ≤ 971 + 1074 := by omega
    calc m * 2 ^ (e - (-1074)).toNat < 2 ^ 53 * 2 ^ (e - (-1074)).toNat :=
          Nat.mul_lt_mul_of_pos_right hm (Proofs.Nearest.two_pow_pos _)
      _ ≤ 2 ^ 53 * 2 ^ (971 + 1074) := Nat.mul_le_mul_left _ (Nat.pow_le_pow_right (by decide) e1)
      _ = 2 ^ 1024 * 2 ^ (-(-1074 : Int)).toNat := by
          have eU : (-(-1074 : Int)).toNat = 1074 := by decide
          rw [eU, ← Nat.pow_add]
  have hb := round_bound _ _ _ _ _ (Proofs.Nearest.two_pow_pos _) hX s2
  have hC := two_1024_lt
  calc roundScaled m e d ≤ 2 ^ 1024 * 10 ^ d := hb
    _ < 10 ^ 400 * 10 ^ d := Nat.mul_lt_mul_of_pos_right hC (Proofs.Nearest.ten_pow_pos d)
    _ = 10 ^ (d + 400) := by rw [← Nat.pow_add, Nat.add_comm]

/-- what `round(x, d)` is for a finite double and `0 ≤ d ≤ 323` -/
theorem pyRound_fin (neg : Bool) (m : Nat) (e : Int) (d : Nat) (hd : d ≤ 323) (r : Dbl)
    (h : pyRound (.fin neg m e) d = some r) :
    ∃ m' e', nearest (roundScaled m e d) (10 ^ d) = some (m', e') ∧ r = .fin neg m' e' := by
  unfold pyRound at h
  have a1 : ¬ ((d : Int) > 323) := by omega
  have a2 : ¬ ((d : Int) < -308) := by omega
  have a3 : (d : Int) ≥ 0 := by omega
  have z2 : ((d : Int)).toNat = d := by omega
  simp only [a1, a2, a3, if_true, if_false, z2] at h
  cases hn : nearest (roundScaled m e d) (10 ^ d) with
  | none => simp [hn] at h
  | some me =>
    obtain ⟨m', e'⟩ := me
    simp only [hn, Option.some.injEq] at h
    exact ⟨m', e', rfl, h.symm⟩

/-- **The text of a rounded double reads back as that double, and rounding it again changes
nothing.**  `r = round(x, d)` for a finite double `x`: then, whatever blanks precede it,
`float('{:.{d}f}'.format(r)) = r`, `round(r, d) = r`, and the digits printed are those of
`⌊|x|·10^d⌉`. -/
theorem float_fmtF_round (neg : Bool) (m : Nat) (e : Int) (d : Nat) (hwf : wf m e) (hd : d ≤ 323)
    (r : Dbl) (h : pyRound (.fin neg m e) d = some r) (k : Nat) (upper : Bool) :
    pyFloat (List.replicate k ' ' ++ fmtF r d upper) = some r ∧ pyRound r d = some r ∧
    fmtF r d upper = body neg (fip (roundScaled m e d) d) (ffp (roundScaled m e d) d) := by
  obtain ⟨m', e', hn, rfl⟩ := pyRound_fin neg m e d hd r h
  obtain ⟨he', hfix⟩ := round_fixed m e d m' e' hwf.1 hwf.2.1 hn
  have hfmt := fmtF_fin neg m' e' d upper
  rw [hfix] at hfmt
  have hdig : ∀ c ∈ fip (roundScaled m e d) d ++ ffp (roundScaled m e d) d, c.isDigit = true := by
    rw [fip_ffp]; exact fdigits_isDigit _ _
  refine ⟨?_, ?_, hfmt⟩
  · rw [hfmt, pyFloat_fixed k neg _ _ (fip_ne _ _) hdig, fip_ffp, ffp_length]
    have := (ofDecimal_fdigits neg (roundScaled m e d) d (roundScaled_lt m e d hwf) (by omega)).1 m' e' hn
    rw [this]
  · unfold pyRound
    have a1 : ¬ ((d : Int) > 323) := by omega
    have a2 : ¬ ((d : Int) < -308) := by omega
    have a3 : (d : Int) ≥ 0 := by omega
    have z2 : ((d : Int)).toNat = d := by omega
    simp only [a1, a2, a3, if_true, if_false, z2, hfix, hn]

end Proofs.FloatText
