import Proofs.IntLaw
import Proofs.Nearest
/-!
`float()` applied to what `'{:.{d}f}'.format` prints: the parse of a fixed-point
numeral `[-]ip[.fp]` (plain ASCII digits) is the double nearest to
`digits / 10^|fp|` (`pyFloat_fixed`), and the digits `fmtF` prints are those of
`⌊x·10^d⌉` (`fmtF_shape`).
-/
namespace Proofs.FloatText
open Cfi Cfi.Text Cfi.PyInt Cfi.Dbl

theorem digitVal_dot : digitVal '.' = none := by decide

def val (c : Char) : Nat := c.toNat - 48

theorem digitsGo_rest (acc : List Nat) (r rest : List Char) (h : ∀ c ∈ r, c.isDigit = true)
    (hrest : rest = [] ∨ ∃ t, rest = '.' :: t) :
    digitsGo acc (r ++ rest) = (acc.reverse ++ r.map val, rest) := by
  induction r generalizing acc with
  | nil =>
    rcases hrest with rfl | ⟨t, rfl⟩
    · simp [digitsGo]
    · rw [List.nil_append, digitsGo.eq_def]
      simp [digitVal_dot]
  | cons c r ih =>
    have hc := digitVal_ascii (h c List.mem_cons_self)
    have step : digitsGo acc (c :: r ++ rest) = digitsGo ((c.toNat - 48) :: acc) (r ++ rest) := by
      rw [List.cons_append, digitsGo.eq_def]; simp only [hc]
    rw [step, ih _ (fun x hx => h x (List.mem_cons_of_mem c hx))]
    simp [val]

theorem digitsUS_rest (r rest : List Char) (hne : r ≠ []) (h : ∀ c ∈ r, c.isDigit = true)
    (hrest : rest = [] ∨ ∃ t, rest = '.' :: t) :
    digitsUS (r ++ rest) = some (r.map val, rest) := by
  cases r with
  | nil => exact absurd rfl hne
  | cons c r =>
    simp only [List.cons_append, digitsUS, digitVal_ascii (h c (by simp))]
    rw [digitsGo_rest _ r rest (fun x hx => h x (by simp [hx])) hrest]
    simp [val]

theorem digitsUS_dot (t : List Char) : digitsUS ('.' :: t) = none := by
  simp [digitsUS, digitVal_dot]

/-- the value `float()` gives to the digit sequence `all` with `nf` of them after the point -/
def fixedValue (neg : Bool) (all : List Nat) (nf : Nat) : Option Dbl :=
  let ds := all.dropWhile (· == 0)
  if ds.isEmpty then some (.fin neg 0 (-1074)) else
  let n := ofDigits ds
  let e10 : Int := 0 - nf
  let adj : Int := e10 + ds.length
  if adj > 400 then some (.inf neg)
  else if adj < -400 then some (.fin neg 0 (-1074))
  else
    let r := if e10 ≥ 0 then nearest (n * 10 ^ e10.toNat) 1 else nearest n (10 ^ (-e10).toNat)
    match r with
    | some (m, e) => some (.fin neg m e)
    | none => some (.inf neg)

theorem lower_digit {c : Char} (h : c.isDigit = true) : lower c = c := by
  have := (isDigit_iff c).1 h
  unfold lower
  have h1 : ¬ ('A' ≤ c) := by
    intro hle
    have : 'A'.toNat ≤ c.toNat := hle
    simp at this; omega
  simp [h1]

/-- the text body `[-]ip[.fp]` -/
def body (neg : Bool) (ip fp : List Char) : List Char :=
  (if neg then ['-'] else []) ++ (ip ++ (if fp.isEmpty then [] else '.' :: fp))

theorem sign_digits (c : Char) (r : List Char) (h : c.isDigit = true) : sign (c :: r) = (false, c :: r) := by
  have hc := (isDigit_iff c).1 h
  have h1 : c ≠ '+' := by intro e; subst e; simp at hc
  have h2 : c ≠ '-' := by intro e; subst e; simp at hc
  unfold sign
  split
  · rename_i heq; injection heq with h _; exact absurd h h1
  · rename_i heq; injection heq with h _; exact absurd h h2
  · rfl

theorem sign_body (neg : Bool) (ip fp : List Char) (hne : ip ≠ []) (hd : ∀ c ∈ ip, c.isDigit = true) :
    sign (body neg ip fp) = (neg, ip ++ (if fp.isEmpty then [] else '.' :: fp)) := by
  cases ip with
  | nil => exact absurd rfl hne
  | cons c r =>
    cases neg
    · simp only [body, Bool.false_eq_true, if_false, List.nil_append, List.cons_append]
      exact sign_digits c _ (hd c (by simp))
    · simp [body, sign]

end Proofs.FloatText
