import Cfi.Line
import Spec.C02
import Proofs.Layout
import Proofs.LineShape
/-! Renderings from the decidable `fits` guard; success of the positional write;
small facts about `All2`. -/
namespace Cfi
open Cfi.Text

/-- a value that fits its field has a rendering exactly `size` wide -/
theorem rendersTo_of_fits (f : Field) (v : Val) (h : Spec.C02.fits f v = true) : ∃ r, rendersTo f v r := by
  simp only [Spec.C02.fits, Bool.and_eq_true, beq_iff_eq] at h
  obtain ⟨⟨hgeo, _⟩, hfit⟩ := h
  cases hf : renderFull f.kind f.size v with
  | error e => simp [hf] at hfit
  | ok s =>
    simp only [hf, decide_eq_true_eq] at hfit
    have hraw : ∃ s', renderRaw f.kind f.size v = .ok s' ∧ s'.length ≤ f.size := by
      simp only [renderRaw, hf, Except.map]
      refine ⟨_, rfl, ?_⟩
      split
      · split
        · simp only [List.length_take]; omega
        · exact hfit
      · exact hfit
    obtain ⟨s', hs', hl'⟩ := hraw
    simp only [rendersTo, renderText, hs', Except.map]
    refine ⟨_, rfl, ?_, hgeo⟩
    cases f.kind <;> simp only [length_ljust, length_rjust] <;> omega

theorem all2_rendersTo_of_fits (fs : List Field) (vs : List Val) (hlen : fs.length = vs.length)
    (h : ∀ fv ∈ fs.zip vs, Spec.C02.fits fv.1 fv.2 = true) :
    ∃ rs, All2 (fun (fv : Field × Val) r => rendersTo fv.1 fv.2 r) (fs.zip vs) rs := by
  induction fs generalizing vs with
  | nil => exact ⟨[], by simpa using All2.nil⟩
  | cons f fs ih =>
    cases vs with
    | nil => simp at hlen
    | cons v vs =>
      obtain ⟨r, hr⟩ := rendersTo_of_fits f v (h (f, v) (by simp))
      obtain ⟨rs, hrs⟩ := ih vs (by simpa using hlen) (fun fv hfv => h fv (by simp [hfv]))
      refine ⟨r :: rs, ?_⟩
      simp only [List.zip_cons_cons]
      exact All2.cons (R := fun (fv : Field × Val) r => rendersTo fv.1 fv.2 r) (a := (f, v)) hr hrs

/-- when every field renders, the positional write succeeds from any line -/
theorem writeFields_ok (fs : List Field) (vs : List Val) (rs : List (List Char))
    (hr : All2 (fun (fv : Field × Val) r => rendersTo fv.1 fv.2 r) (fs.zip vs) rs) (hlen : fs.length = vs.length)
    (line : List Char) : ∃ out, writeFields fs vs line = .ok out := by
  induction fs generalizing vs rs line with
  | nil => exact ⟨line, by cases vs <;> rfl⟩
  | cons f fs ih =>
    cases vs with
    | nil => simp at hlen
    | cons v vs =>
      simp only [List.zip_cons_cons] at hr
      cases hr with
      | @cons _ r _ rs' h1 hrest =>
        obtain ⟨hrend, _, _⟩ := h1
        dsimp only at hrend
        obtain ⟨out, hout⟩ := ih vs rs' hrest (by simpa using hlen) (splice line f.start f.stop r ' ')
        exact ⟨out, by simp only [writeFields, Field.writeText, hrend, Except.map, bind, Except.bind, hout]⟩

theorem All2.length_eq {α β : Type} {R : α → β → Prop} {as : List α} {bs : List β} (h : All2 R as bs) :
    as.length = bs.length := by
  induction h with
  | nil => rfl
  | cons _ _ ih => simp [ih]

theorem All2.of_mem {α β : Type} {R : α → β → Prop} {as : List α} {bs : List β} (h : All2 R as bs)
    {a : α} (ha : a ∈ as) : ∃ b ∈ bs, R a b := by
  induction h with
  | nil => simp at ha
  | @cons a' b' as' bs' h1 _ ih =>
    rcases List.mem_cons.mp ha with rfl | ha
    · exact ⟨b', by simp, h1⟩
    · obtain ⟨b, hb, hR⟩ := ih ha
      exact ⟨b, by simp [hb], hR⟩

/-- two families of facts over the same pairing that determine the same function values -/
theorem All2.map_eq {α β γ : Type} {as : List α} {bs : List β} {g g' : α → γ} {h : α → β → γ}
    (h1 : All2 (fun a b => g a = h a b) as bs) (h2 : All2 (fun a b => g' a = h a b) as bs) :
    as.map g = as.map g' := by
  induction h1 with
  | nil => rfl
  | @cons a b as' bs' e1 _ ih =>
    cases h2 with
    | cons e2 h2' => simp [e1, e2, ih h2']

end Cfi
