import Cfi.Line
/-! `splice`, `ljust`, `rjust`: length and position lemmas (any alphabet). -/
namespace Cfi
open Cfi.Text

theorem length_ljust (s : List α) (n : Nat) (p : α) : (ljust s n p).length = max s.length n := by
  simp [ljust]; omega

theorem length_rjust (s : List α) (n : Nat) (p : α) : (rjust s n p).length = max s.length n := by
  simp [rjust]; omega

theorem ljust_of_le (s : List α) (n : Nat) (p : α) (h : n ≤ s.length) : ljust s n p = s := by
  simp [ljust, Nat.sub_eq_zero_of_le h]

/-- the blank-padded target line of `Field.write` -/
def padTo (line : List α) (stop : Nat) (blank : α) : List α :=
  if line.length < stop then ljust line stop blank else line

theorem length_padTo (line : List α) (stop : Nat) (b : α) :
    (padTo line stop b).length = max line.length stop := by
  unfold padTo; split
  · rw [length_ljust]
  · omega

theorem padTo_take_length (line : List α) (stop : Nat) (b : α) :
    (padTo line stop b).take line.length = line := by
  unfold padTo; split
  · simp [ljust]
  · simp

theorem splice_eq (line : List α) (start stop : Nat) (value : List α) (b : α) :
    splice line start stop value b =
      (padTo line stop b).take start ++ value ++ (padTo line stop b).drop stop := rfl

variable {line value : List α} {start stop : Nat} {b : α}

/-- length: the longer of the old line and the span end (for a value exactly
as wide as the span) -/
theorem length_splice (hs : start ≤ stop) (hv : value.length = stop - start) :
    (splice line start stop value b).length = max line.length stop := by
  rw [splice_eq]
  have := length_padTo line stop b
  simp [List.length_append, List.length_take, List.length_drop, hv, this]; omega

/-- everything before the span is the (blank-padded) old line -/
theorem take_splice (hs : start ≤ stop) :
    (splice line start stop value b).take start = (padTo line stop b).take start := by
  rw [splice_eq]
  have hl := length_padTo line stop b
  have : ((padTo line stop b).take start).length = start := by
    simp [List.length_take, hl]; omega
  rw [List.append_assoc, List.take_append_of_le_length (by omega)]
  simp [List.take_take]

/-- everything after the span is the old line -/
theorem drop_splice (hs : start ≤ stop) (hv : value.length = stop - start) :
    (splice line start stop value b).drop stop = (padTo line stop b).drop stop := by
  rw [splice_eq]
  have hl := length_padTo line stop b
  have h1 : ((padTo line stop b).take start ++ value).length = stop := by
    simp [List.length_take, hl, hv]; omega
  exact List.drop_left' h1

/-- the span holds exactly the value -/
theorem slice_splice (hs : start ≤ stop) (hv : value.length = stop - start) :
    slice (splice line start stop value b) start stop = value := by
  rw [splice_eq, slice]
  have hl := length_padTo line stop b
  have h0 : ((padTo line stop b).take start).length = start := by
    simp [List.length_take, hl]; omega
  have h1 : ((padTo line stop b).take start ++ value).length = stop := by
    simp [List.length_append, h0, hv]; omega
  rw [List.take_left' h1]
  exact List.drop_left' h0

/-- position-wise form: a position outside the span keeps its character -/
theorem getElem?_splice_outside (hs : start ≤ stop) (hv : value.length = stop - start) (i : Nat)
    (hi : i < start ∨ stop ≤ i) :
    (splice line start stop value b)[i]? = (padTo line stop b)[i]? := by
  rcases hi with hi | hi
  · have := congrArg (fun l => l[i]?) (take_splice (line := line) (value := value) (b := b) hs)
    simpa [List.getElem?_take, hi] using this
  · have := congrArg (fun l => l[i - stop]?) (drop_splice (line := line) (b := b) hs hv)
    simp only [List.getElem?_drop] at this
    rwa [Nat.add_sub_cancel' hi] at this

end Cfi
