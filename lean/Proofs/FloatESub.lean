import Proofs.FloatELaw
/-!
E notation below the range of `Proofs.FloatE.wfE`: subnormal doubles whose last emitted digit
has a place value of `10^-324` or less. There the decimal grid is finer than half a subnormal
step: `round(x, nd)` is the identity (CPython's `ndigits > 323` shortcut), the `d + 1` digits
printed are a single correct rounding of `x`, and reading them back gives `x` itself.
-/
open Cfi Cfi.Text Cfi.PyInt Cfi.Dbl Proofs.Nearest Proofs.FloatText Proofs.FloatLoop Proofs.FloorLog10 Proofs.FloatLaw

namespace Proofs.FloatE

set_option exponentiation.threshold 5000

/-- the deep subnormal doubles: `x = m·2^-1074` non-zero and below `10^(d-323)` — the last of
the `d + 1` digits emitted has place value `10^-324` or less. (Between this range and that of
`wfE` lies one decimal decade, `10^(d-323) ≤ |x| < 10^(d-322)`, where the E-notation law is
false at some values: K2.) -/
def wfFine (m : Nat) (d : Nat) : Prop := m ≠ 0 ∧ m * 10 ^ 323 < 10 ^ d * 2 ^ 1074

theorem pow_factsF : (10 : Nat) ^ 12 * 2 ^ 1074 ≤ 2 ^ 52 * 10 ^ 323 := by decide +kernel

theorem fine_facts (m d : Nat) (h : wfFine m d) (hd : d ≤ 12) :
    m < 2 ^ 52 ∧ floorLog10 m (-1074) - d ≤ -324 := by
  obtain ⟨hm0, hlt⟩ := h
  have hm : m < 2 ^ 52 := by
    apply Classical.byContradiction
    intro hge
    have a1 : 2 ^ 52 * 10 ^ 323 ≤ m * 10 ^ 323 := Nat.mul_le_mul_right _ (by omega)
    have a2 : (10 : Nat) ^ d * 2 ^ 1074 ≤ 10 ^ 12 * 2 ^ 1074 :=
      Nat.mul_le_mul_right _ (Nat.pow_le_pow_right (by decide) hd)
    have := pow_factsF
    omega
  refine ⟨hm, ?_⟩
  have hm53 : m < 2 ^ 53 := by
    have : (2 : Nat) ^ 52 ≤ 2 ^ 53 := Nat.pow_le_pow_right (by decide) (by decide)
    omega
  obtain ⟨s1, _⟩ := floorLog10_spec m (-1074) hm0 hm53 (by decide) (by decide)
  apply Classical.byContradiction
  intro hgt
  have hge : GE (2 ^ (-(-1074 : Int)).toNat) (units (-1074) m (-1074)) ((d : Int) - 323) := by
    have : floorLog10 m (-1074) = (d : Int) - 323 + ((floorLog10 m (-1074) - ((d : Int) - 323)).toNat : Int) := by omega
    rw [this] at s1
    exact GE_mono_le _ _ _ _ s1
  unfold GE at hge
  have z1 : ((d : Int) - 323).toNat = 0 := by omega
  have z2 : (-((d : Int) - 323)).toNat = 323 - d := by omega
  have eU : (-(-1074 : Int)).toNat = 1074 := by decide
  have hX : units (-1074) m (-1074) = m := by simp [units]
  rw [z1, z2, Nat.pow_zero, Nat.mul_one, eU, hX] at hge
  have hsplit : (10 : Nat) ^ 323 = 10 ^ (323 - d) * 10 ^ d := by
    rw [← Nat.pow_add]; congr 1; omega
  have a1 := Nat.mul_le_mul_right (10 ^ d) hge
  rw [Nat.mul_assoc, ← hsplit] at a1
  have : 2 ^ 1074 * 10 ^ d = 10 ^ d * 2 ^ 1074 := Nat.mul_comm _ _
  omega

end Proofs.FloatE

namespace Proofs.FloatELaw
open Proofs.FloatE

/-- **E-notation float fields, deep subnormal values**: for `x = ±m·2^-1074` non-zero whose last
emitted digit has place value `10^-324` or less (`⌊log10|x|⌋ − decimals ≤ −324`), up to twelve
declared decimals and a text that fits the field: `round(x, decimals − k)` is `x` itself
(CPython returns its argument for more than 323 digits), the text written is `size` wide,
parses to `x`, and — trivially then — writing what was read gives the same text; the digits are
a single correct rounding of `x` (`SciOk`). -/
theorem fltE_core_fine (f : Field) (dec : Nat) (fmt c : Char) (hk : f.kind = .flt dec fmt [c])
    (hfmt : fmt = 'E' ∨ fmt = 'e') (hc1 : c ≠ ' ') (hc2 : c.isDigit = false) (hc3 : c ≠ '-')
    (hc4 : c ≠ '+') (hc5 : c ≠ 'e') (hc6 : c ≠ 'E')
    (neg : Bool) (m : Nat) (hm0 : m ≠ 0) (hm : m < 2 ^ 52) (hdec : dec ≤ 12)
    (hfine : floorLog10 m (-1074) - dec ≤ -324)
    (hfit : (fmtE (.fin neg m (-1074)) dec (fmt == 'E')).length ≤ f.size) :
    pyRound (.fin neg m (-1074)) ((dec : Int) - floorLog10 m (-1074)) = some (.fin neg m (-1074)) ∧
    ∃ t, renderText f (.dbl (.fin neg m (-1074))) = .ok t ∧ t.length = f.size ∧
      parseText f.kind t = some (.dbl (.fin neg m (-1074))) ∧
      SciOk m (-1074) m (-1074) dec ∧
      ∃ k, t = List.replicate k ' ' ++ subst1 '.' c (sciText neg m (-1074) dec (if (fmt == 'E') = true then 'E' else 'e')) := by
  obtain ⟨hN1, hN2, hK1, hK2, hback, _, hacc⟩ := sub_fine m dec hdec hm0 hm hfine
  have hround : pyRound (.fin neg m (-1074)) ((dec : Int) - floorLog10 m (-1074)) = some (.fin neg m (-1074)) := by
    unfold pyRound
    have : (dec : Int) - floorLog10 m (-1074) > 323 := by omega
    simp only [this, if_true]
  refine ⟨hround, ?_⟩
  have hshape := fmtE_fin neg m (-1074) dec (fmt == 'E') hm0 hN1 hN2
  have hlenN := natDigits_len _ _ hN1 hN2
  obtain ⟨x1, x2, x3, x4⟩ := expDigits_facts (sci m (-1074) dec).2 (by omega) (by omega)
  have hdig : ∀ y ∈ (natDigits (sci m (-1074) dec).1).take 1 ++ (natDigits (sci m (-1074) dec).1).drop 1 ++
      expDigits (sci m (-1074) dec).2, y.isDigit = true := by
    intro y hy
    rw [List.take_append_drop, List.mem_append] at hy
    rcases hy with hy | hy
    · exact Cfi.natDigits_isDigit _ y hy
    · exact x3 y hy
  have hech : (if (fmt == 'E') = true then 'E' else 'e') = 'e' ∨ (if (fmt == 'E') = true then 'E' else 'e') = 'E' := by
    rcases hfmt with rfl | rfl <;> decide
  have hcech : c ≠ (if (fmt == 'E') = true then 'E' else 'e') := by
    rcases hfmt with rfl | rfl
    · exact hc6
    · exact hc5
  have hrend := renderText_fltE f dec fmt c hk hfmt neg m (-1074) hm0 (.fin neg m (-1074)) hround hfit
  refine ⟨rjust (subst1 '.' c (fmtE (.fin neg m (-1074)) dec (fmt == 'E'))) f.size ' ', hrend, ?_, ?_, ?_, ?_⟩
  · simp only [rjust, List.length_append, List.length_replicate, subst1_length]; omega
  · rw [hk]
    simp only [parseText, replace_single, rjust, subst1_length]
    rw [hshape, sepE_back c hc1 hc2 hc3 hc4 _ hcech _ neg _ _ _ _ hdig,
      pyFloat_sci _ neg _ _ _ _ _ (by
        intro h
        have := congrArg List.length h
        simp only [List.length_take, hlenN, List.length_nil] at this
        omega) x1 x2 hdig hech]
    rw [List.take_append_drop]
    have hex : (if decide ((sci m (-1074) dec).2 < 0) = true then -(ofDigits ((expDigits (sci m (-1074) dec).2).map val) : Int)
        else (ofDigits ((expDigits (sci m (-1074) dec).2).map val) : Int)) = (sci m (-1074) dec).2 := by
      rw [x4]
      by_cases hneg : (sci m (-1074) dec).2 < 0
      · simp only [hneg, decide_true, if_true]; omega
      · simp only [hneg, decide_false, Bool.false_eq_true, if_false]; omega
    rw [hex]
    have hfl : ((natDigits (sci m (-1074) dec).1).drop 1).length = dec := by
      rw [List.length_drop, hlenN]; omega
    rw [hfl]
    rw [ofDecimal_nd neg _ dec _ (by rw [List.length_map, hlenN]; omega) (by omega) (by omega)
      (by rw [ofDigits_natDigits]; have := ten_pow_pos dec; omega) m (-1074)
      (by rw [ofDigits_natDigits]; exact hback)]
    rfl
  · exact ⟨hN1, hN2, hK1, hK2, hacc⟩
  · refine ⟨f.size - (subst1 '.' c (fmtE (.fin neg m (-1074)) dec (fmt == 'E'))).length, ?_⟩
    unfold sciText
    rw [← hshape]; rfl

end Proofs.FloatELaw
