import Proofs.FloatLaw
/-!
The decimals-dropping loop of `FloatField._textual_write` (F notation) is stable:
if `x` is written with `d' ≤ dec` decimals (because every larger number of decimals
gives a text wider than the field), then the value read back, `r = round(x, d')`, is
written with the same `d'` decimals — its renderings with more decimals are at least as
wide as those of `x`.
-/
namespace Proofs.FloatLoop
open Cfi Cfi.Text Cfi.PyInt Cfi.Dbl Proofs.Nearest Proofs.FloatText

/-- `divHE` is monotone against multiples of the denominator -/
theorem le_divHE (a b c : Nat) (hb : 0 < b) (h : c * b ≤ a) : c ≤ divHE a b := by
  obtain ⟨s1, _, _⟩ := divHE_spec a b hb
  generalize divHE a b = n at *
  apply Nat.le_of_not_lt
  intro hlt
  have := succ_mul_le (b := b) hlt
  omega

/-- a numerator strictly above `(N − ½)·b` rounds to at least `N` -/
theorem le_divHE_of_half (a b N : Nat) (hb : 0 < b) (h : 2 * (N * b) < 2 * a + b) : N ≤ divHE a b := by
  obtain ⟨s1, _, _⟩ := divHE_spec a b hb
  generalize divHE a b = n at *
  apply Nat.le_of_not_lt
  intro hlt
  have := succ_mul_le (b := b) hlt
  omega

/-- and conversely: a rounding of at least `N` has its numerator at least `(N − ½)·b` -/
theorem half_of_le_divHE (a b N : Nat) (hb : 0 < b) (h : N ≤ divHE a b) : 2 * (N * b) ≤ 2 * a + b := by
  obtain ⟨_, s2, _⟩ := divHE_spec a b hb
  have := Nat.mul_le_mul_right b h
  omega

/-- rounding at fewer decimals stays at or above a power of ten that the finer rounding reaches -/
theorem coarse_ge (X U d d' i : Nat) (hU : 0 < U) (hd : d' < d)
    (h : 10 ^ (i + d) ≤ divHE (X * 10 ^ d) U) : 10 ^ (i + d') ≤ divHE (X * 10 ^ d') U := by
  have h1 := half_of_le_divHE _ _ _ hU h
  apply le_divHE_of_half _ _ _ hU
  -- P = 10^(d-d') ≥ 2
  obtain ⟨p, rfl⟩ : ∃ p, d = d' + (p + 1) := ⟨d - d' - 1, by omega⟩
  have hP : 2 ≤ 10 ^ (p + 1) := by
    have : 10 ^ 1 ≤ 10 ^ (p + 1) := Nat.pow_le_pow_right (by decide) (by omega)
    omega
  have e1 : 10 ^ (i + (d' + (p + 1))) = 10 ^ (i + d') * 10 ^ (p + 1) := by
    rw [← Nat.pow_add]; congr 1; omega
  have e2 : 10 ^ (d' + (p + 1)) = 10 ^ d' * 10 ^ (p + 1) := by rw [← Nat.pow_add]
  rw [e1, e2] at h1
  generalize 10 ^ (p + 1) = P at *
  generalize 10 ^ (i + d') = N at *
  have e3 : X * (10 ^ d' * P) = X * 10 ^ d' * P := by grind
  rw [e3] at h1
  generalize X * 10 ^ d' = A at *
  apply Nat.lt_of_not_le
  intro hle
  -- 2A + U ≤ 2NU, times P
  have h2 := Nat.mul_le_mul_right P hle
  have e4 : (2 * A + U) * P = 2 * (A * P) + U * P := by grind
  have e5 : 2 * (N * U) * P = 2 * (N * P * U) := by grind
  have h3 : U * 2 ≤ U * P := Nat.mul_le_mul_left U hP
  omega

/-- the binary rounding of `n'/10^d' ≥ 10^i` stays at or above `10^i` when `10^i` is a number
of the format (`5^i < 2^prec`) -/
theorem nearest_ge_pow10 (prec : Nat) (emin emaxE : Int) (n' d' i m' : Nat) (e' : Int)
    (hp : 1 ≤ prec) (hmin : emin ≤ 0) (h5 : 5 ^ i < 2 ^ prec)
    (hn : nearestG prec emin emaxE n' (10 ^ d') = some (m', e')) (hge : 10 ^ (i + d') ≤ n') :
    10 ^ i * 2 ^ (-emin).toNat ≤ units emin m' e' := by
  obtain ⟨_, hopt⟩ := nearestG_opt prec emin emaxE n' (10 ^ d') m' e' hp hmin (ten_pow_pos d') hn
  have h := hopt (5 ^ i) (i + (-emin).toNat) h5
  have e1 : 5 ^ i * 2 ^ (i + (-emin).toNat) = 10 ^ i * 2 ^ (-emin).toNat := by
    rw [Nat.pow_add, ← Nat.mul_assoc, ← Nat.mul_pow]
  rw [e1] at h
  have h2 := Nat.mul_le_mul_right (2 ^ (-emin).toNat) hge
  rw [Nat.pow_add] at h2
  have hT := ten_pow_pos d'
  generalize 2 ^ (-emin).toNat = U at *
  generalize units emin m' e' = Y at *
  generalize 10 ^ d' = T at *
  generalize 10 ^ i = I at *
  have e2 : I * T * U = I * U * T := by grind
  rw [e2] at h2
  apply Nat.le_of_mul_le_mul_right (c := T) _ hT
  omega

theorem rs_units (m : Nat) (e emin : Int) (d : Nat) (he : emin ≤ e) (hmin : emin ≤ 0) :
    roundScaled m e d = divHE (units emin m e * 10 ^ d) (2 ^ (-emin).toNat) := by
  have r1 := roundScaled_units m e d emin he hmin
  have z1 : (-(d : Int)).toNat = 0 := by omega
  have z2 : ((d : Int)).toNat = d := by omega
  rw [z1, z2] at r1
  simpa using r1

/-- **The value read back has at least as many integer digits, at every finer resolution.**
`r = round(x, d')`, `d' < d`: whenever `⌊x·10^d⌉ ≥ 10^(i+d)` (x prints with more than `i`
integer digits at `d` decimals), so does `⌊r·10^d⌉`. Case "10^i is a number of the format". -/
theorem finer_ge_small (prec : Nat) (emin emaxE : Int) (m : Nat) (e : Int) (d d' i m' : Nat) (e' : Int)
    (hp : 1 ≤ prec) (hmin : emin ≤ 0) (he : emin ≤ e) (hdd : d' < d) (h5 : 5 ^ i < 2 ^ prec)
    (hn : nearestG prec emin emaxE (roundScaled m e d') (10 ^ d') = some (m', e'))
    (hx : 10 ^ (i + d) ≤ roundScaled m e d) : 10 ^ (i + d) ≤ roundScaled m' e' d := by
  obtain ⟨he', _⟩ := nearestG_opt prec emin emaxE _ _ m' e' hp hmin (ten_pow_pos d') hn
  rw [rs_units m e emin d he hmin] at hx
  have h1 := coarse_ge _ _ d d' i (two_pow_pos _) hdd hx
  rw [← rs_units m e emin d' he hmin] at h1
  have h2 := nearest_ge_pow10 prec emin emaxE _ d' i m' e' hp hmin h5 hn h1
  rw [rs_units m' e' emin d he' hmin]
  apply le_divHE _ _ _ (two_pow_pos _)
  have := Nat.mul_le_mul_right (10 ^ d) h2
  rw [Nat.pow_add]
  generalize 2 ^ (-emin).toNat = U at *
  generalize units emin m' e' = Y at *
  have e1 : 10 ^ i * 10 ^ d * U = 10 ^ i * U * 10 ^ d := by grind
  omega

/-- Case "10^i is beyond the format's significand" (`2^prec ≤ 5^i`): then `x ≥ 10^i − 1` is an
integer, every rounding is exact, and the value read back is `x` itself. -/
theorem finer_eq_big (prec : Nat) (emin emaxE : Int) (m : Nat) (e : Int) (d d' i m' : Nat) (e' : Int)
    (hp : 1 ≤ prec) (hmin : emin ≤ 0) (hm : m < 2 ^ prec) (he : emin ≤ e) (h5 : 2 ^ prec ≤ 5 ^ i)
    (hn : nearestG prec emin emaxE (roundScaled m e d') (10 ^ d') = some (m', e'))
    (hx : 10 ^ (i + d) ≤ roundScaled m e d) : roundScaled m' e' d = roundScaled m e d := by
  obtain ⟨he', hopt⟩ := nearestG_opt prec emin emaxE _ _ m' e' hp hmin (ten_pow_pos d') hn
  -- x is an integer: e ≥ 0
  have he0 : 0 ≤ e := by
    apply Classical.byContradiction
    intro hneg'
    have hneg : e < 0 := by omega
    rw [rs_units m e emin d he hmin] at hx
    have h1 := half_of_le_divHE _ _ _ (two_pow_pos _) hx
    -- units < 2^prec · 2^(U-1)
    have hlt : 2 * units emin m e < 2 ^ prec * 2 ^ (-emin).toNat := by
      unfold units
      obtain ⟨u, hu⟩ : ∃ u, (-emin).toNat = (e - emin).toNat + (u + 1) := ⟨(-emin).toNat - (e - emin).toNat - 1, by omega⟩
      rw [hu, Nat.pow_add, Nat.pow_succ]
      have a1 : m * 2 ^ (e - emin).toNat < 2 ^ prec * 2 ^ (e - emin).toNat :=
        Nat.mul_lt_mul_of_pos_right hm (two_pow_pos _)
      have a2 : 1 ≤ 2 ^ u := two_pow_pos u
      have a3 : 2 ^ prec * 2 ^ (e - emin).toNat * 1 ≤ 2 ^ prec * 2 ^ (e - emin).toNat * 2 ^ u :=
        Nat.mul_le_mul_left _ a2
      have e9 : 2 ^ prec * (2 ^ (e - emin).toNat * (2 ^ u * 2)) = 2 * (2 ^ prec * 2 ^ (e - emin).toNat * 2 ^ u) := by grind
      rw [e9]; omega
    have h10 : 5 ^ i ≤ 10 ^ i := Nat.pow_le_pow_left (by decide) i
    rw [Nat.pow_add] at h1
    have hD := ten_pow_pos d
    have hI := ten_pow_pos i
    have hU := two_pow_pos (-emin).toNat
    generalize 2 ^ (-emin).toNat = U at *
    generalize units emin m e = X at *
    generalize 10 ^ d = D at *
    generalize 10 ^ i = I at *
    generalize 2 ^ prec = P at *
    -- 2·I·D·U ≤ 2·X·D + U  and  2X < P·U ≤ I·U
    have b1 : 2 * X + 1 ≤ P * U := hlt
    have b2 := Nat.mul_le_mul_right D b1
    have b3 : P * U ≤ I * U := Nat.mul_le_mul_right U (Nat.le_trans h5 h10)
    have b4 := Nat.mul_le_mul_right D b3
    have e1 : (2 * X + 1) * D = 2 * (X * D) + D := by grind
    have e2 : 2 * (I * D * U) = 2 * (I * U * D) := by grind
    have b5 : U ≤ U * D := Nat.le_mul_of_pos_right U hD
    have e3 : I * U * D = I * D * U := by grind
    have b6 : 1 * (I * U * D) ≤ I * U * D := by omega
    -- 2·IUD ≤ 2XD + U ≤ PUD − D + U ≤ IUD − D + U, so IUD + D ≤ U, but U ≤ U·D ≤ I·U·D
    have b7 : 1 * (U * D) ≤ I * (U * D) := Nat.mul_le_mul_right (U * D) hI
    have e4 : I * (U * D) = I * U * D := by grind
    omega
  -- units of x = M·U with M = m·2^e
  have eX : units emin m e = m * 2 ^ e.toNat * 2 ^ (-emin).toNat := by
    unfold units
    have : (e - emin).toNat = e.toNat + (-emin).toNat := by omega
    rw [this, Nat.pow_add, Nat.mul_assoc]
  have hn' : roundScaled m e d' = m * 2 ^ e.toNat * 10 ^ d' := by
    rw [rs_units m e emin d' he hmin, eX]
    have : m * 2 ^ e.toNat * 2 ^ (-emin).toNat * 10 ^ d' = (m * 2 ^ e.toNat * 10 ^ d') * 2 ^ (-emin).toNat := by grind
    rw [this]
    exact divHE_exact _ _ (two_pow_pos _)
  have hY : units emin m' e' = units emin m e := by
    have h := hopt m (e - emin).toNat hm
    have c1 : m * 2 ^ (e - emin).toNat = units emin m e := rfl
    rw [c1, hn', eX] at h
    have hT := ten_pow_pos d'
    rw [eX]
    generalize 2 ^ (-emin).toNat = U at *
    generalize m * 2 ^ e.toNat = M at *
    generalize units emin m' e' = Y at *
    generalize 10 ^ d' = T at *
    have e1 : M * T * U = M * U * T := by grind
    rw [e1] at h
    have : Y * T = M * U * T := by omega
    exact Nat.eq_of_mul_eq_mul_right hT this
  rw [rs_units m' e' emin d he' hmin, rs_units m e emin d he hmin, hY]

end Proofs.FloatLoop
