import Proofs.FloatLaw
import Proofs.FloatBin
/-!
The decimals-dropping loop of `FloatField._textual_write` (F notation) is stable:
if `x` is written with `d' ≤ dec` decimals (because every larger number of decimals
gives a text wider than the field), then the value read back, `r = round(x, d')`, is
written with the same `d'` decimals — its renderings with more decimals are at least as
wide as those of `x`.
-/
namespace Proofs.FloatLoop
open Cfi Cfi.Text Cfi.PyInt Cfi.Dbl Proofs.Nearest Proofs.FloatText

/-- `divHE` is monotone against multiples of the denominator -/
theorem le_divHE (a b c : Nat) (hb : 0 < b) (h : c * b ≤ a) : c ≤ divHE a b := by
  obtain ⟨s1, _, _⟩ := divHE_spec a b hb
  generalize divHE a b = n at *
  apply Nat.le_of_not_lt
  intro hlt
  have := succ_mul_le (b := b) hlt
  omega

/-- a numerator strictly above `(N − ½)·b` rounds to at least `N` -/
theorem le_divHE_of_half (a b N : Nat) (hb : 0 < b) (h : 2 * (N * b) < 2 * a + b) : N ≤ divHE a b := by
  obtain ⟨s1, _, _⟩ := divHE_spec a b hb
  generalize divHE a b = n at *
  apply Nat.le_of_not_lt
  intro hlt
  have := succ_mul_le (b := b) hlt
  omega

/-- and conversely: a rounding of at least `N` has its numerator at least `(N − ½)·b` -/
theorem half_of_le_divHE (a b N : Nat) (hb : 0 < b) (h : N ≤ divHE a b) : 2 * (N * b) ≤ 2 * a + b := by
  obtain ⟨_, s2, _⟩ := divHE_spec a b hb
  have := Nat.mul_le_mul_right b h
  omega

/-- rounding at fewer decimals stays at or above a power of ten that the finer rounding reaches -/
theorem coarse_ge (X U d d' i : Nat) (hU : 0 < U) (hd : d' < d)
    (h : 10 ^ (i + d) ≤ divHE (X * 10 ^ d) U) : 10 ^ (i + d') ≤ divHE (X * 10 ^ d') U := by
  have h1 := half_of_le_divHE _ _ _ hU h
  apply le_divHE_of_half _ _ _ hU
  -- P = 10^(d-d') ≥ 2
  obtain ⟨p, rfl⟩ : ∃ p, d = d' + (p + 1) := ⟨d - d' - 1, by omega⟩
  have hP : 2 ≤ 10 ^ (p + 1) := by
    have : 10 ^ 1 ≤ 10 ^ (p + 1) := Nat.pow_le_pow_right (by decide) (by omega)
    omega
  have e1 : 10 ^ (i + (d' + (p + 1))) = 10 ^ (i + d') * 10 ^ (p + 1) := by
    rw [← Nat.pow_add]; congr 1; omega
  have e2 : 10 ^ (d' + (p + 1)) = 10 ^ d' * 10 ^ (p + 1) := by rw [← Nat.pow_add]
  rw [e1, e2] at h1
  generalize 10 ^ (p + 1) = P at *
  generalize 10 ^ (i + d') = N at *
  have e3 : X * (10 ^ d' * P) = X * 10 ^ d' * P := by grind
  rw [e3] at h1
  generalize X * 10 ^ d' = A at *
  apply Nat.lt_of_not_le
  intro hle
  -- 2A + U ≤ 2NU, times P
  have h2 := Nat.mul_le_mul_right P hle
  have e4 : (2 * A + U) * P = 2 * (A * P) + U * P := by grind
  have e5 : 2 * (N * U) * P = 2 * (N * P * U) := by grind
  have h3 : U * 2 ≤ U * P := Nat.mul_le_mul_left U hP
  omega

/-- the binary rounding of `n'/10^d' ≥ 10^i` stays at or above `10^i` when `10^i` is a number
of the format (`5^i < 2^prec`) -/
theorem nearest_ge_pow10 (prec : Nat) (emin emaxE : Int) (n' d' i m' : Nat) (e' : Int)
    (hp : 1 ≤ prec) (hmin : emin ≤ 0) (h5 : 5 ^ i < 2 ^ prec)
    (hn : nearestG prec emin emaxE n' (10 ^ d') = some (m', e')) (hge : 10 ^ (i + d') ≤ n') :
    10 ^ i * 2 ^ (-emin).toNat ≤ units emin m' e' := by
  obtain ⟨_, hopt⟩ := nearestG_opt prec emin emaxE n' (10 ^ d') m' e' hp hmin (ten_pow_pos d') hn
  have h := hopt (5 ^ i) (i + (-emin).toNat) h5
  have e1 : 5 ^ i * 2 ^ (i + (-emin).toNat) = 10 ^ i * 2 ^ (-emin).toNat := by
    rw [Nat.pow_add, ← Nat.mul_assoc, ← Nat.mul_pow]
  rw [e1] at h
  have h2 := Nat.mul_le_mul_right (2 ^ (-emin).toNat) hge
  rw [Nat.pow_add] at h2
  have hT := ten_pow_pos d'
  generalize 2 ^ (-emin).toNat = U at *
  generalize units emin m' e' = Y at *
  generalize 10 ^ d' = T at *
  generalize 10 ^ i = I at *
  have e2 : I * T * U = I * U * T := by grind
  rw [e2] at h2
  apply Nat.le_of_mul_le_mul_right (c := T) _ hT
  omega

theorem rs_units (m : Nat) (e emin : Int) (d : Nat) (he : emin ≤ e) (hmin : emin ≤ 0) :
    roundScaled m e d = divHE (units emin m e * 10 ^ d) (2 ^ (-emin).toNat) := by
  have r1 := roundScaled_units m e d emin he hmin
  have z1 : (-(d : Int)).toNat = 0 := by omega
  have z2 : ((d : Int)).toNat = d := by omega
  rw [z1, z2] at r1
  simpa using r1

/-- **The value read back has at least as many integer digits, at every finer resolution.**
`r = round(x, d')`, `d' < d`: whenever `⌊x·10^d⌉ ≥ 10^(i+d)` (x prints with more than `i`
integer digits at `d` decimals), so does `⌊r·10^d⌉`. Case "10^i is a number of the format". -/
theorem finer_ge_small (prec : Nat) (emin emaxE : Int) (m : Nat) (e : Int) (d d' i m' : Nat) (e' : Int)
    (hp : 1 ≤ prec) (hmin : emin ≤ 0) (he : emin ≤ e) (hdd : d' < d) (h5 : 5 ^ i < 2 ^ prec)
    (hn : nearestG prec emin emaxE (roundScaled m e d') (10 ^ d') = some (m', e'))
    (hx : 10 ^ (i + d) ≤ roundScaled m e d) : 10 ^ (i + d) ≤ roundScaled m' e' d := by
  obtain ⟨he', _⟩ := nearestG_opt prec emin emaxE _ _ m' e' hp hmin (ten_pow_pos d') hn
  rw [rs_units m e emin d he hmin] at hx
  have h1 := coarse_ge _ _ d d' i (two_pow_pos _) hdd hx
  rw [← rs_units m e emin d' he hmin] at h1
  have h2 := nearest_ge_pow10 prec emin emaxE _ d' i m' e' hp hmin h5 hn h1
  rw [rs_units m' e' emin d he' hmin]
  apply le_divHE _ _ _ (two_pow_pos _)
  have := Nat.mul_le_mul_right (10 ^ d) h2
  rw [Nat.pow_add]
  generalize 2 ^ (-emin).toNat = U at *
  generalize units emin m' e' = Y at *
  have e1 : 10 ^ i * 10 ^ d * U = 10 ^ i * U * 10 ^ d := by grind
  omega

/-- Case "10^i is beyond the format's significand" (`2^prec ≤ 5^i`): then `x ≥ 10^i − 1` is an
integer, every rounding is exact, and the value read back is `x` itself. -/
theorem finer_eq_big (prec : Nat) (emin emaxE : Int) (m : Nat) (e : Int) (d d' i m' : Nat) (e' : Int)
    (hp : 1 ≤ prec) (hmin : emin ≤ 0) (hm : m < 2 ^ prec) (he : emin ≤ e) (h5 : 2 ^ prec ≤ 5 ^ i)
    (hn : nearestG prec emin emaxE (roundScaled m e d') (10 ^ d') = some (m', e'))
    (hx : 10 ^ (i + d) ≤ roundScaled m e d) : roundScaled m' e' d = roundScaled m e d := by
  obtain ⟨he', hopt⟩ := nearestG_opt prec emin emaxE _ _ m' e' hp hmin (ten_pow_pos d') hn
  -- x is an integer: e ≥ 0
  have he0 : 0 ≤ e := by
    apply Classical.byContradiction
    intro hneg'
    have hneg : e < 0 := by omega
    rw [rs_units m e emin d he hmin] at hx
    have h1 := half_of_le_divHE _ _ _ (two_pow_pos _) hx
    -- units < 2^prec · 2^(U-1)
    have hlt : 2 * units emin m e < 2 ^ prec * 2 ^ (-emin).toNat := by
      unfold units
      obtain ⟨u, hu⟩ : ∃ u, (-emin).toNat = (e - emin).toNat + (u + 1) := ⟨(-emin).toNat - (e - emin).toNat - 1, by omega⟩
      rw [hu, Nat.pow_add, Nat.pow_succ]
      have a1 : m * 2 ^ (e - emin).toNat < 2 ^ prec * 2 ^ (e - emin).toNat :=
        Nat.mul_lt_mul_of_pos_right hm (two_pow_pos _)
      have a2 : 1 ≤ 2 ^ u := two_pow_pos u
      have a3 : 2 ^ prec * 2 ^ (e - emin).toNat * 1 ≤ 2 ^ prec * 2 ^ (e - emin).toNat * 2 ^ u :=
        Nat.mul_le_mul_left _ a2
      have e9 : 2 ^ prec * (2 ^ (e - emin).toNat * (2 ^ u * 2)) = 2 * (2 ^ prec * 2 ^ (e - emin).toNat * 2 ^ u) := by grind
      rw [e9]; omega
    have h10 : 5 ^ i ≤ 10 ^ i := Nat.pow_le_pow_left (by decide) i
    rw [Nat.pow_add] at h1
    have hD := ten_pow_pos d
    have hI := ten_pow_pos i
    have hU := two_pow_pos (-emin).toNat
    generalize 2 ^ (-emin).toNat = U at *
    generalize units emin m e = X at *
    generalize 10 ^ d = D at *
    generalize 10 ^ i = I at *
    generalize 2 ^ prec = P at *
    -- 2·I·D·U ≤ 2·X·D + U  and  2X < P·U ≤ I·U
    have b1 : 2 * X + 1 ≤ P * U := hlt
    have b2 := Nat.mul_le_mul_right D b1
    have b3 : P * U ≤ I * U := Nat.mul_le_mul_right U (Nat.le_trans h5 h10)
    have b4 := Nat.mul_le_mul_right D b3
    have e1 : (2 * X + 1) * D = 2 * (X * D) + D := by grind
    have e2 : 2 * (I * D * U) = 2 * (I * U * D) := by grind
    have b5 : U ≤ U * D := Nat.le_mul_of_pos_right U hD
    have e3 : I * U * D = I * D * U := by grind
    have b6 : 1 * (I * U * D) ≤ I * U * D := by omega
    -- 2·IUD ≤ 2XD + U ≤ PUD − D + U ≤ IUD − D + U, so IUD + D ≤ U, but U ≤ U·D ≤ I·U·D
    have b7 : 1 * (U * D) ≤ I * (U * D) := Nat.mul_le_mul_right (U * D) hI
    have e4 : I * (U * D) = I * U * D := by grind
    omega
  -- units of x = M·U with M = m·2^e
  have eX : units emin m e = m * 2 ^ e.toNat * 2 ^ (-emin).toNat := by
    unfold units
    have : (e - emin).toNat = e.toNat + (-emin).toNat := by omega
    rw [this, Nat.pow_add, Nat.mul_assoc]
  have hn' : roundScaled m e d' = m * 2 ^ e.toNat * 10 ^ d' := by
    rw [rs_units m e emin d' he hmin, eX]
    have : m * 2 ^ e.toNat * 2 ^ (-emin).toNat * 10 ^ d' = (m * 2 ^ e.toNat * 10 ^ d') * 2 ^ (-emin).toNat := by grind
    rw [this]
    exact divHE_exact _ _ (two_pow_pos _)
  have hY : units emin m' e' = units emin m e := by
    have h := hopt m (e - emin).toNat hm
    have c1 : m * 2 ^ (e - emin).toNat = units emin m e := rfl
    rw [c1, hn', eX] at h
    have hT := ten_pow_pos d'
    rw [eX]
    generalize 2 ^ (-emin).toNat = U at *
    generalize m * 2 ^ e.toNat = M at *
    generalize units emin m' e' = Y at *
    generalize 10 ^ d' = T at *
    have e1 : M * T * U = M * U * T := by grind
    rw [e1] at h
    have : Y * T = M * U * T := by omega
    exact Nat.eq_of_mul_eq_mul_right hT this
  rw [rs_units m' e' emin d he' hmin, rs_units m e emin d he hmin, hY]

/-- both cases together, for doubles -/
theorem finer_ge (m : Nat) (e : Int) (d d' i m' : Nat) (e' : Int) (hm : m < 2 ^ 53) (he : -1074 ≤ e)
    (hdd : d' < d) (hn : nearest (roundScaled m e d') (10 ^ d') = some (m', e'))
    (hx : 10 ^ (i + d) ≤ roundScaled m e d) : 10 ^ (i + d) ≤ roundScaled m' e' d := by
  by_cases h5 : 5 ^ i < 2 ^ 53
  · exact finer_ge_small 53 (-1074) 971 m e d d' i m' e' (by decide) (by decide) he hdd h5 hn hx
  · rw [finer_eq_big 53 (-1074) 971 m e d d' i m' e' (by decide) (by decide) hm he (by omega) hn hx]
    exact hx

/-- more digits in `n₂` wherever `n₁` reaches a power of ten: the padded digit string is at least as long -/
theorem fdigits_length_mono (n1 n2 d : Nat) (h : ∀ i, 10 ^ (i + d) ≤ n1 → 10 ^ (i + d) ≤ n2) :
    (fdigits n1 d).length ≤ (fdigits n2 d).length := by
  have hb := fdigits_length n2 d
  by_cases hl : (natDigits n1).length ≤ d + 1
  · have : (fdigits n1 d).length = d + 1 := by
      unfold fdigits zeros
      split
      · simp; omega
      · omega
    omega
  · -- n1 has L1 ≥ d + 2 digits: n1 ≥ 10^(L1-1)
    have e1 : fdigits n1 d = natDigits n1 := by
      unfold fdigits; rw [if_neg (by omega)]
    obtain ⟨i, hi⟩ : ∃ i, (natDigits n1).length = (i + d) + 1 := ⟨(natDigits n1).length - 1 - d, by omega⟩
    have hk : 0 < i + d := by omega
    have h1 : 10 ^ (i + d) ≤ n1 := by
      apply Nat.le_of_not_lt
      intro hlt
      have := (Nat.length_toDigits_le_iff (b := 10) (n := n1) (by omega) hk).2 hlt
      unfold natDigits at hi
      omega
    have h2 := h i h1
    have h3 : ¬ (natDigits n2).length ≤ i + d := by
      intro hle
      have := (Nat.length_toDigits_le_iff (b := 10) (n := n2) (by omega) hk).1 hle
      omega
    have e2 : (natDigits n2).length ≤ (fdigits n2 d).length := by
      unfold fdigits
      split <;> simp
    rw [e1]; omega

/-! ### no overflow below `2^1022` -/

theorem nearestG_none (prec : Nat) (emin emaxE : Int) (num den : Nat)
    (h : nearestG prec emin emaxE num den = none) :
    num ≠ 0 ∧ emaxE ≤ max (floorLog2 num den - ((prec : Int) - 1)) emin := by
  unfold nearestG at h
  by_cases hn : num = 0
  · simp [hn] at h
  · simp only [beq_iff_eq, hn, if_false] at h
    refine ⟨hn, ?_⟩
    split at h
    · simp only [] at h
      split at h
      · rename_i hgt; simp only [Int.ofNat_eq_natCast] at hgt; omega
      · simp at h
    · simp only [] at h
      split at h
      · rename_i hgt; simp only [Int.ofNat_eq_natCast] at hgt; omega
      · simp at h

theorem nearest_some (n den : Nat) (hden : 0 < den) (h : n < 2 ^ 1022 * den) :
    ∃ m e, nearest n den = some (m, e) := by
  cases hn : nearest n den with
  | some me => exact ⟨me.1, me.2, rfl⟩
  | none =>
    exfalso
    obtain ⟨hn0, hk⟩ := nearestG_none 53 (-1074) 971 n den hn
    have hle := leP2_floorLog2 n den hn0
    have hk' : 1023 ≤ floorLog2 n den := by omega
    unfold leP2 at hle
    have h0 : floorLog2 n den ≥ 0 := by omega
    simp only [h0, if_true, decide_eq_true_eq] at hle
    have h1 : 2 ^ 1023 ≤ 2 ^ (floorLog2 n den).toNat := Nat.pow_le_pow_right (by decide) (by omega)
    have h2 := Nat.mul_le_mul_left den h1
    have e1 : (2 : Nat) ^ 1023 = 2 * 2 ^ 1022 := by rw [← Nat.pow_succ']
    rw [e1] at h2
    generalize 2 ^ (floorLog2 n den).toNat = K at *
    generalize (2 : Nat) ^ 1022 = C at *
    have e2 : den * (2 * C) = 2 * (C * den) := by grind
    omega

/-! ### the loop -/

/-- what the decimals-dropping loop returns -/
theorem floatLoopF_spec (x : Dbl) (size : Nat) (up : Bool) (dec : Nat) (t : List Char)
    (h : floatLoopF x size up dec = .ok t) :
    ∃ d' r', d' ≤ dec ∧ pyRound x d' = some r' ∧ t = fmtF r' d' up ∧ (t.length ≤ size ∨ d' = 0) ∧
      ∀ d, d' < d → d ≤ dec → ∃ rd, pyRound x d = some rd ∧ size < (fmtF rd d up).length := by
  induction dec with
  | zero =>
    simp only [floatLoopF] at h
    cases hr : pyRound x ((0 : Nat) : Int) with
    | none =>
      have : pyRound x 0 = none := hr
      simp [this, Option.elim, bind, Except.bind] at h
    | some r =>
      have hr' : pyRound x 0 = some r := hr
      simp [hr', Option.elim, bind, Except.bind, pure, Except.pure] at h
      exact ⟨0, r, Nat.le_refl _, hr, h.symm, Or.inr rfl, fun d h1 h2 => by omega⟩
  | succ n ih =>
    simp only [floatLoopF] at h
    cases hr : pyRound x ((n + 1 : Nat) : Int) with
    | none =>
      have : pyRound x ((n : Int) + 1) = none := by simpa using hr
      simp [this, Option.elim, bind, Except.bind] at h
    | some r =>
      have hr' : pyRound x ((n : Int) + 1) = some r := by simpa using hr
      simp only [hr', Option.elim, bind, Except.bind] at h
      by_cases hfit : (fmtF r (n + 1) up).length ≤ size
      · simp only [hfit, if_true, pure, Except.pure, Except.ok.injEq] at h
        exact ⟨n + 1, r, Nat.le_refl _, hr, h.symm, Or.inl (by rw [← h]; exact hfit), fun d h1 h2 => by omega⟩
      · simp only [hfit, if_false] at h
        obtain ⟨d', r', h1, h2, h3, h4, h5⟩ := ih h
        refine ⟨d', r', by omega, h2, h3, h4, fun d hd1 hd2 => ?_⟩
        by_cases hdn : d = n + 1
        · subst hdn; exact ⟨r, hr, by omega⟩
        · exact h5 d hd1 (by omega)

/-- and conversely -/
theorem floatLoopF_of_spec (y : Dbl) (size : Nat) (up : Bool) (dec d' : Nat) (r : Dbl) (hd : d' ≤ dec)
    (hr : pyRound y d' = some r) (hfit : (fmtF r d' up).length ≤ size ∨ d' = 0)
    (hno : ∀ d, d' < d → d ≤ dec → ∃ rd, pyRound y d = some rd ∧ size < (fmtF rd d up).length) :
    floatLoopF y size up dec = .ok (fmtF r d' up) := by
  induction dec with
  | zero =>
    have : d' = 0 := by omega
    subst this
    simp only [floatLoopF]
    have hr' : pyRound y 0 = some r := hr
    simp [hr', Option.elim, bind, Except.bind, pure, Except.pure]
  | succ n ih =>
    simp only [floatLoopF]
    by_cases hdn : d' = n + 1
    · subst hdn
      have hr' : pyRound y ((n : Int) + 1) = some r := by simpa using hr
      have hf : (fmtF r (n + 1) up).length ≤ size := by
        rcases hfit with h | h
        · exact h
        · omega
      simp [hr', Option.elim, bind, Except.bind, hf, pure, Except.pure]
    · obtain ⟨rd, h1, h2⟩ := hno (n + 1) (by omega) (Nat.le_refl _)
      have hr' : pyRound y ((n : Int) + 1) = some rd := by simpa using h1
      have hf : ¬ (fmtF rd (n + 1) up).length ≤ size := by omega
      simp only [hr', Option.elim, bind, Except.bind, hf, if_false]
      exact ih (by omega) (fun d hd1 hd2 => hno d hd1 (by omega))

/-! ### stability of the loop -/

theorem body_length (neg : Bool) (n d : Nat) :
    (body neg (fip n d) (ffp n d)).length =
      (if neg then 1 else 0) + (fdigits n d).length + (if d = 0 then 0 else 1) := by
  have h1 := ffp_length n d
  have h2 : (fip n d).length + (ffp n d).length = (fdigits n d).length := by
    rw [← List.length_append, fip_ffp]
  unfold body
  by_cases hd : d = 0
  · subst hd
    have h0 : ffp n 0 = [] := List.eq_nil_of_length_eq_zero h1
    rw [h0] at h2 ⊢
    cases neg <;> simp at h2 ⊢ <;> omega
  · have : (ffp n d).isEmpty = false := by
      cases h : (ffp n d).isEmpty with
      | false => rfl
      | true => rw [List.isEmpty_iff_length_eq_zero] at h; omega
    cases neg <;> simp [this, hd] <;> omega

/-- the finite doubles: significand below `2^53`, exponent of the last place from `-1074` to `971`
(so every finite double, the largest one `(2^53 − 1)·2^971` included) -/
def wfs (m : Nat) (e : Int) : Prop := m < 2 ^ 53 ∧ -1074 ≤ e ∧ e ≤ 971

theorem wf_of_wfs {m : Nat} {e : Int} (h : wfs m e) : wf m e := ⟨h.1, h.2.1, by have := h.2.2; omega⟩

/-- the value read back is within one unit of `x` (in units of `2^-1074`), generic form -/
theorem round_close (prec : Nat) (emin emaxE : Int) (m : Nat) (e : Int) (d' m' : Nat) (e' : Int)
    (hp : 1 ≤ prec) (hmin : emin ≤ 0) (hm : m < 2 ^ prec) (he : emin ≤ e)
    (hn : nearestG prec emin emaxE (roundScaled m e d') (10 ^ d') = some (m', e')) :
    units emin m' e' ≤ units emin m e + 2 ^ (-emin).toNat := by
  obtain ⟨_, hopt⟩ := nearestG_opt prec emin emaxE _ _ m' e' hp hmin (ten_pow_pos d') hn
  have h := hopt m (e - emin).toNat hm
  have c1 : m * 2 ^ (e - emin).toNat = units emin m e := rfl
  rw [c1] at h
  have r1 := rs_units m e emin d' he hmin
  obtain ⟨s1, s2, _⟩ := divHE_spec (units emin m e * 10 ^ d') (2 ^ (-emin).toNat) (two_pow_pos _)
  rw [← r1] at s1 s2
  have hT := ten_pow_pos d'
  generalize roundScaled m e d' = n at *
  generalize 2 ^ (-emin).toNat = U at *
  generalize units emin m e = X at *
  generalize units emin m' e' = Y at *
  generalize 10 ^ d' = T at *
  -- Y·T ≤ X·T + U ≤ (X + U)·T
  have h3 : Y * T ≤ X * T + U := by omega
  have h4 : U * 1 ≤ U * T := Nat.mul_le_mul_left U hT
  have e1 : (X + U) * T = X * T + U * T := by grind
  exact Nat.le_of_mul_le_mul_right (c := T) (by omega) hT

/-- when the rounding overflows, either the exponent is already beyond the largest one or it is the
largest one and the significand rounded up to `2^prec` -/
theorem nearestG_none' (prec : Nat) (emin emaxE : Int) (num den : Nat)
    (h : nearestG prec emin emaxE num den = none) :
    num ≠ 0 ∧ (emaxE < max (floorLog2 num den - ((prec : Int) - 1)) emin ∨
      (emaxE = max (floorLog2 num den - ((prec : Int) - 1)) emin ∧
        roundAt num den (max (floorLog2 num den - ((prec : Int) - 1)) emin) = 2 ^ prec)) := by
  unfold nearestG at h
  by_cases hn : num = 0
  · simp [hn] at h
  · simp only [beq_iff_eq, hn, if_false] at h
    refine ⟨hn, ?_⟩
    simp only [Int.ofNat_eq_natCast] at h
    generalize max (floorLog2 num den - ((prec : Int) - 1)) emin = e0 at *
    by_cases hm : roundAt num den e0 = 2 ^ prec
    · simp only [hm, if_true] at h
      split at h
      · rename_i hgt
        by_cases heq : emaxE < e0
        · exact Or.inl heq
        · exact Or.inr ⟨by omega, hm⟩
      · cases h
    · simp only [hm, if_false] at h
      split at h
      · rename_i hgt; exact Or.inl hgt
      · cases h

/-- **overflow only at or above the midpoint beyond the largest double**: if the correctly rounded
value of `n/den` is not a finite double then `n/den ≥ (2^54 − 1)·2^970` -/
theorem nearest_none_bound (n den : Nat) (hden : 0 < den) (h : nearest n den = none) :
    (2 ^ 54 - 1) * 2 ^ 970 * den ≤ n := by
  obtain ⟨hn0, hc⟩ := nearestG_none' 53 (-1074) 971 n den h
  have hle := leP2_floorLog2 n den hn0
  rcases hc with hc | ⟨hc, hm⟩
  · -- the binary exponent is at least 1024
    have hk : 1024 ≤ floorLog2 n den := by omega
    unfold leP2 at hle
    have h0 : floorLog2 n den ≥ 0 := by omega
    simp only [h0, if_true, decide_eq_true_eq] at hle
    have h1 : 2 ^ 1024 ≤ 2 ^ (floorLog2 n den).toNat := Nat.pow_le_pow_right (by decide) (by omega)
    have h2 := Nat.mul_le_mul_left den h1
    have e1 : (2 ^ 54 - 1) * 2 ^ 970 * den ≤ den * 2 ^ 1024 := by
      have : (2 ^ 54 - 1) * 2 ^ 970 ≤ (2 : Nat) ^ 1024 := by decide +kernel
      calc (2 ^ 54 - 1) * 2 ^ 970 * den ≤ 2 ^ 1024 * den := Nat.mul_le_mul_right den this
        _ = den * 2 ^ 1024 := Nat.mul_comm _ _
    omega
  · -- exponent 971 and the significand rounded up to 2^53
    have he : max (floorLog2 n den - ((53 : Nat) : Int) + 1) (-1074) = 971 := by omega
    have he' : max (floorLog2 n den - (((53 : Nat) : Int) - 1)) (-1074) = 971 := by omega
    rw [he'] at hm
    unfold roundAt at hm
    simp only [show (971 : Int) ≥ 0 by decide, if_true] at hm
    have z : (971 : Int).toNat = 971 := by decide
    rw [z] at hm
    obtain ⟨_, s2, _⟩ := divHE_spec n (den * 2 ^ 971) (Nat.mul_pos hden (two_pow_pos _))
    rw [hm] at s2
    have hb : den * 2 ^ 971 = 2 * (2 ^ 970 * den) := by
      have a1 : (2 : Nat) ^ 971 = 2 ^ 970 * 2 := by rw [← Nat.pow_succ]
      rw [a1]
      generalize (2 : Nat) ^ 970 = A
      grind
    rw [hb] at s2
    rw [Nat.mul_assoc]
    generalize 2 ^ 970 * den = A at *
    omega

/-- **`round(y, d)` never overflows for a finite double `y` and `d ≥ 0`**: the decimal it rounds to is
within half a unit of `y`, far below the midpoint beyond the largest double -/
theorem pyRound_some_any (neg : Bool) (m' : Nat) (e' : Int) (hm' : m' < 2 ^ 53) (he' : -1074 ≤ e') (he2 : e' ≤ 971)
    (d : Nat) (hd : d ≤ 323) :
    ∃ sm se, nearest (roundScaled m' e' d) (10 ^ d) = some (sm, se) ∧
      pyRound (.fin neg m' e') d = some (.fin neg sm se) := by
  have hsome : ∃ sm se, nearest (roundScaled m' e' d) (10 ^ d) = some (sm, se) := by
    cases hn : nearest (roundScaled m' e' d) (10 ^ d) with
    | some me => exact ⟨me.1, me.2, rfl⟩
    | none =>
      exfalso
      have hb := nearest_none_bound _ _ (ten_pow_pos d) hn
      have r1 := rs_units m' e' (-1074) d he' (by decide)
      obtain ⟨_, s2, _⟩ := divHE_spec (units (-1074) m' e' * 10 ^ d) (2 ^ (-(-1074 : Int)).toNat) (two_pow_pos _)
      rw [← r1] at s2
      have eU : (-(-1074 : Int)).toNat = 1074 := by decide
      rw [eU] at s2
      -- the value of y in units
      have hY : units (-1074) m' e' ≤ (2 ^ 53 - 1) * (2 * (2 ^ 970 * 2 ^ 1074)) := by
        unfold units
        have ht : (e' - (-1074)).toNat ≤ 2045 := by omega
        have h1 : 2 ^ (e' - (-1074)).toNat ≤ 2 ^ 2045 := Nat.pow_le_pow_right (by decide) ht
        have h2 : (2 : Nat) ^ 2045 = 2 * (2 ^ 970 * 2 ^ 1074) := by
          rw [← Nat.pow_add, ← Nat.pow_succ']
        rw [← h2]
        exact Nat.mul_le_mul (by omega) h1
      have hP := ten_pow_pos d
      have hA := two_pow_pos 970
      have hU := two_pow_pos 1074
      generalize roundScaled m' e' d = n at *
      generalize units (-1074) m' e' = Y at *
      generalize (10 : Nat) ^ d = P at *
      generalize (2 : Nat) ^ 970 = A at *
      generalize (2 : Nat) ^ 1074 = U at *
      have h1' : (2 ^ 54 - 1) * (A * U * P) ≤ n * U := by
        have := Nat.mul_le_mul_right U hb
        have e : (2 ^ 54 - 1) * A * P * U = (2 ^ 54 - 1) * (A * U * P) := by grind
        rw [e] at this; exact this
      have hY' : Y * P ≤ (2 ^ 53 - 1) * (2 * (A * U * P)) := by
        have := Nat.mul_le_mul_right P hY
        have e : (2 ^ 53 - 1) * (2 * (A * U)) * P = (2 ^ 53 - 1) * (2 * (A * U * P)) := by grind
        rw [e] at this; exact this
      have hQ : U ≤ A * U * P := by
        calc U = 1 * U * 1 := by simp
          _ ≤ A * U * P := Nat.mul_le_mul (Nat.mul_le_mul_right U hA) hP
      generalize A * U * P = Q at *
      omega
  obtain ⟨sm, se, hs⟩ := hsome
  refine ⟨sm, se, hs, ?_⟩
  unfold pyRound
  have a1 : ¬ ((d : Int) > 323) := by omega
  have a2 : ¬ ((d : Int) < -308) := by omega
  have a3 : (d : Int) ≥ 0 := by omega
  have z2 : ((d : Int)).toNat = d := by omega
  simp only [a1, a2, a3, if_true, if_false, z2, hs]

/-- **The decimals-dropping loop is stable**: if `x` (any finite double) is written as
`t` with `d'` decimals and `t` fits, then `r' = round(x, d')` — the value `t` reads back as —
is written as `t` too. -/
theorem loop_stable (neg : Bool) (m : Nat) (e : Int) (hwf : wfs m e) (size : Nat) (up : Bool) (dec : Nat)
    (hdec : dec ≤ 323) (t : List Char) (h : floatLoopF (.fin neg m e) size up dec = .ok t)
    (hfit : t.length ≤ size) :
    ∃ d' r', d' ≤ dec ∧ pyRound (.fin neg m e) d' = some r' ∧ t = fmtF r' d' up ∧
      floatLoopF r' size up dec = .ok t ∧
      ∀ d, d' < d → d ≤ dec → ∃ rd, pyRound (.fin neg m e) d = some rd ∧ size < (fmtF rd d up).length := by
  obtain ⟨d', r', hd', hr', ht, _, hno⟩ := floatLoopF_spec _ size up dec t h
  refine ⟨d', r', hd', hr', ht, ?_, hno⟩
  have hwf' := wf_of_wfs hwf
  obtain ⟨_, hidem, _⟩ := float_fmtF_round neg m e d' hwf' (by omega) r' hr' 0 up
  obtain ⟨m', e', hn', rfl⟩ := pyRound_fin neg m e d' (by omega) r' hr'
  obtain ⟨he', _⟩ := nearestG_opt 53 (-1074) 971 _ _ m' e' (by decide) (by decide) (ten_pow_pos d') hn'
  have hm' : m' < 2 ^ 53 := nearestG_lt 53 (-1074) 971 _ _ m' e' (by decide) (by decide) (ten_pow_pos d') hn'
  have he2' : e' ≤ 971 := (Proofs.FloatBin.nearestG_norm 53 (-1074) 971 _ _ m' e' (by decide) (by decide) (by decide) (ten_pow_pos d') hn').2.2.1
  rw [ht] at hfit ⊢
  apply floatLoopF_of_spec _ size up dec d' _ hd' hidem (Or.inl hfit)
  intro d hd1 hd2
  obtain ⟨rd, hrd, hlen⟩ := hno d hd1 hd2
  -- x's rendering at d decimals
  obtain ⟨xm, xe, hxn, rfl⟩ := pyRound_fin neg m e d (by omega) rd hrd
  obtain ⟨_, hxfix⟩ := round_fixed m e d xm xe hwf.1 hwf.2.1 hxn
  have hxf := fmtF_fin neg xm xe d up
  rw [hxfix] at hxf
  -- r's rendering at d decimals
  obtain ⟨sm, se, hsn, hsr⟩ := pyRound_some_any neg m' e' hm' he' he2' d (by omega)
  obtain ⟨_, hsfix⟩ := round_fixed m' e' d sm se hm' he' hsn
  have hsf := fmtF_fin neg sm se d up
  rw [hsfix] at hsf
  refine ⟨_, hsr, ?_⟩
  rw [hxf, body_length] at hlen
  rw [hsf, body_length]
  have hmono := fdigits_length_mono (roundScaled m e d) (roundScaled m' e' d) d
    (fun i hi => finer_ge m e d d' i m' e' hwf.1 hwf.2.1 hd1 hn' hi)
  omega

/-! ### the field -/
open Proofs.FloatLaw

/-- `FloatField._textual_write` in F notation, in terms of the loop -/
theorem renderText_fltF_loop (f : Field) (dec : Nat) (fmt c : Char) (hk : f.kind = .flt dec fmt [c])
    (hfmt : fmt = 'F' ∨ fmt = 'f') (x : Dbl) (hn : x.isNaN = false) :
    renderText f (.dbl x) =
      (floatLoopF x f.size (fmt == 'F') dec).map fun s => rjust (subst1 '.' c s) f.size ' ' := by
  unfold renderText renderRaw renderFull
  rcases hfmt with rfl | rfl
  · cases h : floatLoopF x f.size true dec <;> simp [hk, Val.isNull, hn, h, Except.map, replace_single]
  · cases h : floatLoopF x f.size false dec <;> simp [hk, Val.isNull, hn, h, Except.map, replace_single]

/-- **F-notation float fields, general case** (decimals reduced until the text fits): for every
finite double whose rendering fits the field, the text written is `size` wide,
parses to the double `r` nearest to the decimal emitted, and writing `r` gives the same text. -/
theorem fltF_core_gen (f : Field) (dec : Nat) (fmt c : Char) (hk : f.kind = .flt dec fmt [c])
    (hfmt : fmt = 'F' ∨ fmt = 'f') (hc1 : c ≠ ' ') (hc2 : c.isDigit = false) (hc3 : c ≠ '-')
    (neg : Bool) (m : Nat) (e : Int) (hwf : wfs m e) (hdec : dec ≤ 323) (s : List Char)
    (hs : floatLoopF (.fin neg m e) f.size (fmt == 'F') dec = .ok s) (hfit : s.length ≤ f.size) :
    ∃ t r d', renderText f (.dbl (.fin neg m e)) = .ok t ∧ t.length = f.size ∧
      parseText f.kind t = some (.dbl r) ∧ renderText f (.dbl r) = .ok t ∧ d' ≤ dec ∧
      pyRound (.fin neg m e) d' = some r ∧
      t = rjust (subst1 '.' c (body neg (fip (roundScaled m e d') d') (ffp (roundScaled m e d') d'))) f.size ' ' ∧
      ∀ d, d' < d → d ≤ dec → ∃ rd, pyRound (.fin neg m e) d = some rd ∧ f.size < (fmtF rd d (fmt == 'F')).length := by
  obtain ⟨d', r, hd', hr, hst, hloop, hno⟩ := loop_stable neg m e hwf f.size (fmt == 'F') dec hdec s hs hfit
  obtain ⟨hpf, _, hbody⟩ := float_fmtF_round neg m e d' (wf_of_wfs hwf) (by omega) r hr (f.size - s.length) (fmt == 'F')
  obtain ⟨m', e', _, hrfin⟩ := pyRound_fin neg m e d' (by omega) r hr
  have hrn : r.isNaN = false := by rw [hrfin]; rfl
  refine ⟨rjust (subst1 '.' c s) f.size ' ', r, d', ?_, ?_, ?_, ?_, hd', hr, by rw [hst, hbody], hno⟩
  · rw [renderText_fltF_loop f dec fmt c hk hfmt _ rfl, hs]; rfl
  · simp only [rjust, List.length_append, List.length_replicate, subst1_length]; omega
  · rw [hk]
    simp only [parseText, replace_single, rjust, subst1_length]
    have hdig : ∀ x ∈ fip (roundScaled m e d') d' ++ ffp (roundScaled m e d') d', x.isDigit = true := by
      rw [fip_ffp]; exact fdigits_isDigit _ _
    rw [hst, hbody, sep_back c hc1 hc2 hc3 _ neg _ _ hdig, ← hbody]
    rw [hst] at hpf
    rw [hpf]; rfl
  · rw [renderText_fltF_loop f dec fmt c hk hfmt _ hrn, hloop]; rfl

end Proofs.FloatLoop
