import Cfi.Files
import Proofs.Lines
/-! Stream accounting: every reader consumes a prefix of the unread input and
stores it verbatim. -/
namespace Cfi
open Cfi.Regex

/-- `raw` is exactly what was consumed between the stream states `s` and `s'` -/
structure Accounts {α} (raw : List α) (s s' : Stream α) : Prop where
  content : s'.content = s.content
  pos : s'.pos = s.pos + raw.length
  rest : s.rest = raw ++ s'.rest

variable {α : Type} [DecidableEq α]

theorem accounts_refl (s : Stream α) : Accounts [] s s := ⟨rfl, by simp, by simp⟩

theorem Accounts.trans {r₁ r₂ : List α} {s₁ s₂ s₃ : Stream α} (h₁ : Accounts r₁ s₁ s₂) (h₂ : Accounts r₂ s₂ s₃) :
    Accounts (r₁ ++ r₂) s₁ s₃ :=
  ⟨h₂.content.trans h₁.content, by rw [h₂.pos, h₁.pos]; simp; omega, by rw [h₁.rest, h₂.rest]; simp⟩

theorem accounts_readline (nl : α) (s : Stream α) : Accounts (s.readline nl).1 s (s.readline nl).2 := by
  refine ⟨rfl, rfl, ?_⟩
  rw [Stream.rest_readline, Stream.readline_fst]
  exact (lineOf_append_drop nl s.rest).symm

theorem accounts_read (s : Stream α) (n : Nat) : Accounts (s.read n).1 s (s.read n).2 := by
  refine ⟨rfl, rfl, ?_⟩
  simp only [Stream.read, Stream.rest, List.length_take]
  rw [← List.drop_drop]
  have : (List.drop s.pos s.content).length = s.content.length - s.pos := by simp
  by_cases h : n ≤ (List.drop s.pos s.content).length
  · rw [Nat.min_eq_left h]; exact (List.take_append_drop n _).symm
  · have h' : (List.drop s.pos s.content).length ≤ n := by omega
    rw [Nat.min_eq_right h', List.take_of_length_le h']
    simp
    omega

/-- a reader makes progress on non-empty input -/
theorem readline_progress (nl : α) (s : Stream α) (h : s.rest ≠ []) : s.pos < (s.readline nl).2.pos := by
  have := lineOf_ne_nil nl h
  simp only [Stream.readline]
  have : 0 < (Stream.lineOf nl s.rest).length := List.length_pos_iff.mpr this
  omega

omit [DecidableEq α] in
theorem read_one_progress (s : Stream α) (h : s.rest ≠ []) : s.pos < (s.read 1).2.pos := by
  simp only [Stream.read]
  cases hr : s.rest with
  | nil => exact absurd hr h
  | cons c cs => simp

/-! ### raw-storing blocks -/

theorem accounts_readRawBlock (nl : α) (b : BlockDef α) (fuel : Nat) (s : Stream α) :
    Accounts (readRawBlock nl b fuel s).1.flatten s (readRawBlock nl b fuel s).2 := by
  induction fuel generalizing s with
  | zero => simpa [readRawBlock] using accounts_refl s
  | succ fuel ih =>
    simp only [readRawBlock]
    have hl := accounts_readline nl s
    split
    · -- empty line: end of input
      rename_i he
      have : (s.readline nl).1 = [] := List.isEmpty_iff.mp he
      rw [this] at hl
      simpa using hl
    · split
      · simpa using hl
      · have := hl.trans (ih (s.readline nl).2)
        simpa using this

theorem accounts_readRawBinBlock (nl : α) (b : BlockDef α) (fuel : Nat) (s : Stream α) :
    Accounts (readRawBinBlock nl b fuel s).1 s (readRawBinBlock nl b fuel s).2 := by
  induction fuel generalizing s with
  | zero => simpa [readRawBinBlock] using accounts_refl s
  | succ fuel ih =>
    simp only [readRawBinBlock]
    have hl := accounts_read s 1
    split
    · rename_i he
      have : (s.read 1).1 = [] := List.isEmpty_iff.mp he
      rw [this] at hl
      simpa using hl
    · split
      · simpa using hl
      · exact hl.trans (ih (s.read 1).2)

theorem readRawBlock_progress (nl : α) (b : BlockDef α) (fuel : Nat) (s : Stream α) (h : s.rest ≠ []) :
    s.pos < (readRawBlock nl b (fuel + 1) s).2.pos := by
  simp only [readRawBlock]
  have hp := readline_progress nl s h
  have hne : ((s.readline nl).1).isEmpty = false := by
    have := lineOf_ne_nil nl h
    cases hl : Stream.lineOf nl s.rest with
    | nil => exact absurd hl this
    | cons _ _ => simp [Stream.readline_fst, hl]
  rw [hne]
  simp only [Bool.false_eq_true, if_false]
  split
  · exact hp
  · show s.pos < (readRawBlock nl b fuel (s.readline nl).2).2.pos
    have := (accounts_readRawBlock nl b fuel (s.readline nl).2).pos
    omega

theorem readRawBinBlock_progress (nl : α) (b : BlockDef α) (fuel : Nat) (s : Stream α) (h : s.rest ≠ []) :
    s.pos < (readRawBinBlock nl b (fuel + 1) s).2.pos := by
  simp only [readRawBinBlock]
  have hp := read_one_progress s h
  have hne : ((s.read 1).1).isEmpty = false := by
    cases hr : s.rest with
    | nil => exact absurd hr h
    | cons c cs => simp [Stream.read, hr]
  rw [hne]
  simp only [Bool.false_eq_true, if_false]
  split
  · exact hp
  · show s.pos < (readRawBinBlock nl b fuel (s.read 1).2).2.pos
    have := (accounts_readRawBinBlock nl b fuel (s.read 1).2).pos
    omega

/-! ### sections -/

theorem accounts_readFixed (n : Nat) (s : Stream Char) :
    Accounts (readFixed n s).1.flatten s (readFixed n s).2 := by
  induction n generalizing s with
  | zero => simpa [readFixed] using accounts_refl s
  | succ n ih =>
    simp only [readFixed]
    have hl := accounts_readline '\n' s
    split
    · rename_i he
      have : (s.readline '\n').1 = [] := List.isEmpty_iff.mp he
      rw [this] at hl
      simpa using hl
    · have := hl.trans (ih (s.readline '\n').2)
      simpa using this

theorem accounts_readUntil (p : Pat Char) (fuel : Nat) (s : Stream Char) :
    Accounts (readUntil p fuel s).1.flatten s (readUntil p fuel s).2 := by
  induction fuel generalizing s with
  | zero => simpa [readUntil] using accounts_refl s
  | succ fuel ih =>
    simp only [readUntil]
    have hl := accounts_readline '\n' s
    split
    · rename_i he
      have : (s.readline '\n').1 = [] := List.isEmpty_iff.mp he
      rw [this] at hl
      simpa using hl
    · split
      · simpa using hl
      · have := hl.trans (ih (s.readline '\n').2)
        simpa using this

theorem accounts_readSection (d : SecDef) (s : Stream Char) :
    Accounts (readSection d s).1.flatten s (readSection d s).2 := by
  cases d with
  | fixed n => exact accounts_readFixed n s
  | until_ p => exact accounts_readUntil p _ s

end Cfi
