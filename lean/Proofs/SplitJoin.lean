import Cfi.Text
/-! `sep.join(tokens).split(sep) == tokens` when no token contains a character of `sep`. -/
namespace Cfi.Text

theorem isPrefix_append (sep r : List Char) : isPrefix sep (sep ++ r) = true := by
  induction sep with
  | nil => cases r <;> rfl
  | cons c sep ih => simp [isPrefix, ih]

theorem isPrefix_false_of_head (sep : List Char) (c : Char) (cs : List Char) (hs : sep ≠ [])
    (hc : ¬ c ∈ sep) : isPrefix sep (c :: cs) = false := by
  cases sep with
  | nil => exact absurd rfl hs
  | cons s sep =>
    simp only [isPrefix, Bool.and_eq_false_iff]
    left
    simp only [beq_eq_false_iff_ne, ne_eq]
    intro e; subst e; exact hc List.mem_cons_self

/-- scanning a delimiter-free token moves it to the accumulator -/
theorem splitNE_scan (sep : List Char) (hs : sep ≠ []) (t : List Char) (hfree : ∀ c ∈ t, ¬ c ∈ sep)
    (acc r : List Char) (fuel : Nat) :
    splitNE sep (fuel + t.length) acc (t ++ r) = splitNE sep fuel (t.reverse ++ acc) r := by
  induction t generalizing acc with
  | nil => simp
  | cons c t ih =>
    have hc := hfree c List.mem_cons_self
    rw [show fuel + (c :: t).length = (fuel + t.length) + 1 by simp; omega]
    simp only [List.cons_append, splitNE, isPrefix_false_of_head sep c _ hs hc]
    simp only [Bool.false_eq_true, if_false]
    rw [ih (fun x hx => hfree x (List.mem_cons_of_mem c hx))]
    simp

theorem length_join_cons (sep x : List Char) (y : List Char) (ys : List (List Char)) :
    (join sep (x :: y :: ys)).length = x.length + sep.length + (join sep (y :: ys)).length := by
  simp [join]; omega

/-- **split ∘ join = id** on delimiter-free tokens -/
theorem splitNE_join (sep : List Char) (hs : sep ≠ []) (ts : List (List Char)) (hts : ts ≠ [])
    (hfree : ∀ t ∈ ts, ∀ c ∈ t, ¬ c ∈ sep) :
    ∀ fuel, (join sep ts).length < fuel → splitNE sep fuel [] (join sep ts) = ts := by
  induction ts with
  | nil => exact absurd rfl hts
  | cons t ts ih =>
    intro fuel hf
    cases ts with
    | nil =>
      -- the last token: scanned to the end of the input
      simp only [join] at hf ⊢
      obtain ⟨k, rfl⟩ : ∃ k, fuel = k + t.length := ⟨fuel - t.length, by omega⟩
      have := splitNE_scan sep hs t (hfree t List.mem_cons_self) [] [] k
      simp only [List.append_nil] at this
      rw [this]
      cases k with
      | zero => omega
      | succ k => simp [splitNE]
    | cons u us =>
      rw [length_join_cons] at hf
      have hsl : 0 < sep.length := List.length_pos_iff.mpr hs
      obtain ⟨k, rfl⟩ : ∃ k, fuel = k + t.length := ⟨fuel - t.length, by omega⟩
      simp only [join, List.append_assoc]
      rw [splitNE_scan sep hs t (hfree t List.mem_cons_self) [] _ k]
      -- now at the delimiter
      obtain ⟨k', rfl⟩ : ∃ k', k = k' + 1 := ⟨k - 1, by omega⟩
      cases hsep : sep with
      | nil => exact absurd hsep hs
      | cons s sep' =>
        subst hsep
        have hp : isPrefix (s :: sep') ((s :: sep') ++ join (s :: sep') (u :: us)) = true := isPrefix_append _ _
        simp only [List.cons_append] at hp ⊢
        simp only [splitNE, hp, if_true]
        have hdrop : (s :: (sep' ++ join (s :: sep') (u :: us))).drop (s :: sep').length = join (s :: sep') (u :: us) := by
          simp
        rw [hdrop]
        have := ih (by simp) (fun t' ht' => hfree t' (List.mem_cons_of_mem t ht')) k' (by
          simp at hf ⊢; omega)
        rw [this]
        simp

theorem split_join (sep : List Char) (hs : sep ≠ []) (ts : List (List Char)) (hts : ts ≠ [])
    (hfree : ∀ t ∈ ts, ∀ c ∈ t, ¬ c ∈ sep) : split (join sep ts) sep = ts :=
  splitNE_join sep hs ts hts hfree _ (by omega)

end Cfi.Text
