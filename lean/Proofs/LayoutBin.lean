import Cfi.Line
import Spec.C02
import Proofs.Layout
import Proofs.LineShape
/-! The layout theorems for binary lines (`bytes`): the same inductions as
`Proofs.Layout` / `Proofs.LineShape`, over `writeFieldsBin` / `renderBin` with
the blank byte 0x20. -/
namespace Cfi
open Cfi.Text Spec.C02

/-- the rendering a positional write puts in a field's span (width = size) -/
def rendersToBin (f : Field) (v : Val) (r : List UInt8) : Prop :=
  renderBin f v = .ok r ∧ r.length = f.size ∧ f.stop = f.size + f.start

/-- writing the remaining fields keeps every span that is already in place and
disjoint from all of them -/
theorem writeFieldsBin_preserves (fs : List Field) (vs : List Val) (rs : List (List UInt8))
    (hlen : fs.length = vs.length) (hr : All2 (fun (fv : Field × Val) r => rendersToBin fv.1 fv.2 r) (fs.zip vs) rs)
    (line out : List UInt8) (hw : writeFieldsBin fs vs line = .ok out) (a b : Nat) (hb : b ≤ line.length)
    (hd : ∀ f ∈ fs, b ≤ f.start ∨ f.stop ≤ a) :
    slice out a b = slice line a b ∧ line.length ≤ out.length := by
  induction fs generalizing vs rs line with
  | nil =>
    simp only [writeFieldsBin] at hw
    injection hw with hw; subst hw; exact ⟨rfl, Nat.le_refl _⟩
  | cons f fs ih =>
    cases vs with
    | nil => simp at hlen
    | cons v vs =>
      simp only [List.zip_cons_cons] at hr
      cases hr with
      | @cons _ r _ rs' h1 hrest =>
        obtain ⟨hrend, hrl, hgeo⟩ := h1
        dsimp only at hrend hrl hgeo
        simp only [writeFieldsBin, Field.writeBin, hrend, Except.map, bind, Except.bind] at hw
        have hs : f.start ≤ f.stop := by omega
        have hv : r.length = f.stop - f.start := by rw [hrl]; omega
        have hlen' := length_splice (line := line) (b := (32 : UInt8)) hs hv
        have := ih vs _ (by simpa using hlen) hrest _ hw (by rw [hlen']; omega)
          (fun g hg => hd g (List.mem_cons_of_mem f hg))
        refine ⟨?_, by omega⟩
        rw [this.1]
        exact slice_splice_disjoint line _ f.start f.stop a b (32 : UInt8) hs hv hb (hd f List.mem_cons_self)

/-- **Layout theorem**: for any positional layout of pairwise disjoint fields (in
any order, with gaps), after `Line.write` every field's span holds exactly that
field's rendering. -/
theorem writeFieldsBin_spans (fs : List Field) (vs : List Val) (rs : List (List UInt8))
    (hlen : fs.length = vs.length)
    (hr : All2 (fun (fv : Field × Val) r => rendersToBin fv.1 fv.2 r) (fs.zip vs) rs)
    (hdis : Disjoint fs) (line out : List UInt8) (hw : writeFieldsBin fs vs line = .ok out) :
    All2 (fun (f : Field) r => slice out f.start f.stop = r) fs rs := by
  induction fs generalizing vs rs line with
  | nil =>
    cases hr with
    | nil => exact .nil
  | cons f fs ih =>
    cases vs with
    | nil => simp at hlen
    | cons v vs =>
      simp only [List.zip_cons_cons] at hr
      cases hr with
      | @cons _ r _ rs' h1 hrest =>
        obtain ⟨hrend, hrl, hgeo⟩ := h1
        dsimp only at hrend hrl hgeo
        have hw0 := hw
        simp only [writeFieldsBin, Field.writeBin, hrend, Except.map, bind, Except.bind] at hw
        have hs : f.start ≤ f.stop := by omega
        have hv : r.length = f.stop - f.start := by rw [hrl]; omega
        have hlen' := length_splice (line := line) (b := (32 : UInt8)) hs hv
        refine .cons ?_ (ih vs _ (by simpa using hlen) hrest hdis.2 _ hw)
        -- the first field's own span survives the remaining writes
        have hpres := writeFieldsBin_preserves fs vs _ (by simpa using hlen) hrest _ out hw f.start f.stop
          (by rw [hlen']; omega)
          (fun g hg => by
            rcases hdis.1 g hg with h | h
            · exact Or.inl h
            · exact Or.inr h)
        rw [hpres.1]
        exact slice_splice hs hv

theorem getElem?_padTo_ge_bin (line : List UInt8) (stop i : Nat) (h1 : line.length ≤ i) (h2 : i < stop) :
    (padTo line stop (32 : UInt8))[i]? = some (32 : UInt8) := by
  unfold padTo
  have : line.length < stop := by omega
  simp only [this, if_true, ljust]
  rw [List.getElem?_append_right h1]
  simp [List.getElem?_replicate]; omega

/-- every position of the line is inside a field already written, or blank -/
def GapInvBin (done : List Field) (line : List UInt8) : Prop :=
  ∀ i, i < line.length → covered done i = true ∨ line[i]? = some (32 : UInt8)

theorem gapInvBin_splice (done : List Field) (f : Field) (line r : List UInt8) (hgeo : f.stop = f.size + f.start)
    (hrl : r.length = f.size) (h : GapInvBin done line) :
    GapInvBin (done ++ [f]) (splice line f.start f.stop r (32 : UInt8)) := by
  have hs : f.start ≤ f.stop := by omega
  have hv : r.length = f.stop - f.start := by omega
  intro i hi
  rw [length_splice hs hv] at hi
  by_cases hin : f.start ≤ i ∧ i < f.stop
  · left; simp [covered, hin.1, hin.2]
  · have hout : i < f.start ∨ f.stop ≤ i := by omega
    rw [getElem?_splice_outside hs hv i hout]
    by_cases hil : i < line.length
    · rcases h i hil with hc | hb
      · left; simp only [covered, List.any_append, Bool.or_eq_true]; left; exact hc
      · right; rw [getElem?_padTo line f.stop (32 : UInt8) i hil]; exact hb
    · right
      exact getElem?_padTo_ge_bin line f.stop i (by omega) (by omega)

theorem writeFieldsBin_shape (fs : List Field) (vs : List Val) (rs : List (List UInt8))
    (hlen : fs.length = vs.length)
    (hr : All2 (fun (fv : Field × Val) r => rendersToBin fv.1 fv.2 r) (fs.zip vs) rs)
    (done : List Field) (line out : List UInt8) (hw : writeFieldsBin fs vs line = .ok out)
    (hinv : GapInvBin done line) :
    GapInvBin (done ++ fs) out ∧ out.length = fs.foldl (fun m f => max m f.stop) line.length := by
  induction fs generalizing vs rs line done with
  | nil =>
    simp only [writeFieldsBin] at hw
    injection hw with hw; subst hw
    exact ⟨by simpa using hinv, rfl⟩
  | cons f fs ih =>
    cases vs with
    | nil => simp at hlen
    | cons v vs =>
      simp only [List.zip_cons_cons] at hr
      cases hr with
      | @cons _ r _ rs' h1 hrest =>
        obtain ⟨hrend, hrl, hgeo⟩ := h1
        dsimp only at hrend hrl hgeo
        simp only [writeFieldsBin, Field.writeBin, hrend, Except.map, bind, Except.bind] at hw
        have hs : f.start ≤ f.stop := by omega
        have hv : r.length = f.stop - f.start := by omega
        have := ih vs _ (by simpa using hlen) hrest (done ++ [f]) _ hw (gapInvBin_splice done f line r hgeo hrl hinv)
        refine ⟨by simpa using this.1, ?_⟩
        rw [this.2, length_splice hs hv]
        rfl


end Cfi
