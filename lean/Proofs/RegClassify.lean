import Proofs.RegLine
import Proofs.SplitJoin
import Spec.C05
/-! A written register line is one line, and is classified as the type that wrote it. -/
namespace Cfi
open Cfi.Text Spec.C02

theorem getElem?_ljust (s : List Char) (n : Nat) (c : Char) (i : Nat) :
    (ljust s n c)[i]? = if i < s.length then s[i]? else if i < n then some c else none := by
  unfold ljust
  by_cases h : i < s.length
  · simp [h, List.getElem?_append_left h]
  · simp only [h, if_false]
    rw [List.getElem?_append_right (by omega), List.getElem?_replicate]
    by_cases h2 : i < n
    · simp [h2]; omega
    · simp [h2]; omega

theorem isInfix_append_self (pat rest : List Char) : isInfix pat (pat ++ rest) = true := by
  cases h : pat ++ rest with
  | nil =>
    have : pat = [] := (List.append_eq_nil_iff.mp h).1
    simp [isInfix, this]
  | cons c cs =>
    simp only [isInfix, Bool.or_eq_true]
    left
    rw [← h]
    exact isPrefix_append pat rest

theorem isInfix_ljust (pat : List Char) (n : Nat) : isInfix pat (ljust pat n ' ') = true := by
  unfold ljust; exact isInfix_append_self _ _

/-- every column of a written positional line is blank or a character of the
rendering of the field that covers it -/
theorem out_columns (fs : List Field) (vs : List Val) (rs : List (List Char))
    (hlen : fs.length = vs.length)
    (hr : All2 (fun (fv : Field × Val) r => rendersTo fv.1 fv.2 r) (fs.zip vs) rs)
    (hdis : Disjoint fs) (out : List Char) (hw : writeFields fs vs [] = .ok out) (i : Nat) (hi : i < out.length) :
    out[i]? = some ' ' ∨ ∃ f ∈ fs, ∃ r ∈ rs, f.start ≤ i ∧ i < f.stop ∧ out[i]? = r[i - f.start]? := by
  obtain ⟨hinv, _⟩ := writeFields_shape fs vs rs hlen hr [] [] out hw (fun i hi => by simp at hi)
  rcases hinv i hi with hc | hb
  · right
    simp only [List.nil_append, covered, List.any_eq_true, Bool.and_eq_true, decide_eq_true_eq] at hc
    obtain ⟨f, hf, h1, h2⟩ := hc
    obtain ⟨r, hrm, hs⟩ := (writeFields_spans fs vs rs hlen hr hdis [] out hw).of_mem hf
    refine ⟨f, hf, r, hrm, h1, h2, ?_⟩
    rw [← hs, getElem?_slice]
    have : f.start + (i - f.start) = i := by omega
    simp [this, h2]
  · left; exact hb

theorem out_chars (fs : List Field) (vs : List Val) (rs : List (List Char))
    (hlen : fs.length = vs.length)
    (hr : All2 (fun (fv : Field × Val) r => rendersTo fv.1 fv.2 r) (fs.zip vs) rs)
    (hdis : Disjoint fs) (out : List Char) (hw : writeFields fs vs [] = .ok out) (c : Char) (hc : c ∈ out) :
    c = ' ' ∨ ∃ r ∈ rs, c ∈ r := by
  obtain ⟨i, hi, rfl⟩ := List.getElem_of_mem hc
  rcases out_columns fs vs rs hlen hr hdis out hw i hi with hb | ⟨f, _, r, hrm, _, _, he⟩
  · left
    rw [List.getElem?_eq_getElem hi] at hb
    exact Option.some.inj hb
  · right
    refine ⟨r, hrm, ?_⟩
    rw [List.getElem?_eq_getElem hi] at he
    exact List.mem_of_getElem? he.symm

end Cfi

namespace Cfi
open Cfi.Text Spec.C02

theorem All2.of_mem_right {α β : Type} {R : α → β → Prop} {as : List α} {bs : List β} (h : All2 R as bs)
    {b : β} (hb : b ∈ bs) : ∃ a ∈ as, R a b := by
  induction h with
  | nil => simp at hb
  | @cons a' b' as' bs' h1 _ ih =>
    rcases List.mem_cons.mp hb with rfl | hb
    · exact ⟨a', by simp, h1⟩
    · obtain ⟨a, ha, hR⟩ := ih hb
      exact ⟨a, by simp [ha], hR⟩

theorem mem_of_mem_slice {l : List Char} {a b : Nat} {c : Char} (h : c ∈ slice l a b) : c ∈ l :=
  List.mem_of_mem_take (List.mem_of_mem_drop h)

/-- every character of every rendering occurs in the written line -/
theorem rendering_chars (fs : List Field) (vs : List Val) (rs : List (List Char))
    (hlen : fs.length = vs.length)
    (hr : All2 (fun (fv : Field × Val) r => rendersTo fv.1 fv.2 r) (fs.zip vs) rs)
    (hdis : Disjoint fs) (out : List Char) (hw : writeFields fs vs [] = .ok out) :
    ∀ r ∈ rs, ∀ c ∈ r, c ∈ out := by
  intro r hrm c hc
  obtain ⟨f, _, hs⟩ := (writeFields_spans fs vs rs hlen hr hdis [] out hw).of_mem_right hrm
  rw [← hs] at hc
  exact mem_of_mem_slice hc

theorem foldl_min_le_init (fs : List Field) (m : Nat) : fs.foldl (fun m f => min m f.start) m ≤ m := by
  induction fs generalizing m with
  | nil => exact Nat.le_refl _
  | cons f fs ih => exact Nat.le_trans (ih _) (Nat.min_le_left _ _)

theorem foldl_min_le_mem (fs : List Field) (m : Nat) : ∀ f ∈ fs, fs.foldl (fun m f => min m f.start) m ≤ f.start := by
  induction fs generalizing m with
  | nil => intro f hf; simp at hf
  | cons g fs ih =>
    intro f hf
    rcases List.mem_cons.mp hf with rfl | hf
    · exact Nat.le_trans (foldl_min_le_init fs _) (Nat.min_le_right _ _)
    · exact ih _ f hf

end Cfi

namespace Cfi
open Cfi.Text Spec.C02
namespace RegDef

/-- below the first data column, a written register line shows its identifier
left-justified and then blanks — `Spec.C05.identColumns` -/
theorem window_eq (r : RegDef) (data : List Val) (rs : List (List Char))
    (hlen : r.fields.length = data.length)
    (hr : All2 (fun (fv : Field × Val) r => rendersTo fv.1 fv.2 r) (r.fields.zip data) rs)
    (hid : r.ident.length ≤ r.digits) (hstart : ∀ f ∈ r.fields, r.digits ≤ f.start)
    (hdis : Disjoint r.fields) (out : List Char)
    (hout : writeFields (r.idField :: r.fields) (.str r.ident :: data) [] = .ok out)
    (hslice : slice out 0 r.digits = ljust r.ident r.digits ' ')
    (k : Nat) (hk : k ≤ Spec.C05.firstDataStart r) :
    (out ++ ['\n']).take k = (Spec.C05.identColumns r).take k := by
  have hR : All2 (fun (fv : Field × Val) r => rendersTo fv.1 fv.2 r)
      ((r.idField :: r.fields).zip (Val.str r.ident :: data)) (ljust r.ident r.digits ' ' :: rs) := by
    simp only [List.zip_cons_cons]
    exact All2.cons (R := fun (fv : Field × Val) r => rendersTo fv.1 fv.2 r) (a := (r.idField, Val.str r.ident))
      (r.idField_rendersTo hid) hr
  have hlen' : (r.idField :: r.fields).length = (Val.str r.ident :: data).length := by simp [hlen]
  have hD : Disjoint (r.idField :: r.fields) := by
    refine ⟨fun g hg => Or.inl ?_, hdis⟩
    have := hstart g hg
    simpa [idField, Field.mk'] using this
  obtain ⟨_, hl⟩ := writeFields_shape _ _ _ hlen' hR [] [] out hout (fun i hi => by simp at hi)
  have hM : out.length = r.fields.foldl (fun m f => max m f.stop) r.digits := by
    rw [hl]; simp [idField, Field.mk']
  have hfds : Spec.C05.firstDataStart r ≤ out.length := by
    rw [hM]; exact foldl_min_le_init _ _
  apply List.ext_getElem?
  intro i
  rw [List.getElem?_take, List.getElem?_take]
  by_cases hik : i < k
  · simp only [hik, if_true]
    have hio : i < out.length := by omega
    rw [List.getElem?_append_left hio, Spec.C05.identColumns, getElem?_ljust]
    by_cases hid' : i < r.digits
    · have : out[i]? = (slice out 0 r.digits)[i]? := by
        rw [getElem?_slice]; simp [hid']
      rw [this, hslice, getElem?_ljust]
      by_cases h1 : i < r.ident.length
      · simp [h1]
      · have : i < max r.digits (Spec.C05.firstDataStart r) := by omega
        simp [h1, hid', this]
    · have h1 : ¬ i < r.ident.length := by omega
      have h2 : i < max r.digits (Spec.C05.firstDataStart r) := by omega
      simp only [h1, if_false, h2, if_true]
      rcases out_columns _ _ _ hlen' hR hD out hout i hio with hb | ⟨f, hf, _, _, h3, h4, _⟩
      · exact hb
      · exfalso
        rcases List.mem_cons.mp hf with rfl | hf
        · simp [idField, Field.mk'] at h4; omega
        · have := foldl_min_le_mem r.fields (r.fields.foldl (fun m f => max m f.stop) r.digits) f hf
          have : Spec.C05.firstDataStart r ≤ f.start := this
          omega
  · simp [hik]

end RegDef
end Cfi
