import Cfi.Field
import Proofs.LitLaw
/-! `strip` facts shared by the delimited-line (C11) and register (C05) theorems:
idempotence, length, trailing newline. -/
namespace Cfi
open Cfi.Text

theorem getLast?_dropWhile {p : Char → Bool} (l : List Char) (x : Char)
    (h : (l.dropWhile p).getLast? = some x) : l.getLast? = some x := by
  induction l with
  | nil => simp at h
  | cons a l ih =>
    simp only [List.dropWhile_cons] at h
    split at h
    · have hl := ih h
      have : l ≠ [] := by intro e; subst e; simp at hl
      rw [List.getLast?_cons_of_ne_nil this]; exact hl
    · exact h

theorem stripBy_ends {p : Char → Bool} (s : List Char) :
    (∀ x, (stripBy p s).head? = some x → p x = false) ∧
    (∀ x, (stripBy p s).getLast? = some x → p x = false) := by
  unfold stripBy
  constructor
  · intro x hx
    rw [List.head?_reverse] at hx
    have h1 := getLast?_dropWhile _ x hx
    rw [List.getLast?_reverse] at h1
    have := List.head?_dropWhile_not p s
    rw [h1] at this
    simpa using this
  · intro x hx
    rw [List.getLast?_reverse] at hx
    have := List.head?_dropWhile_not p (s.dropWhile p).reverse
    rw [hx] at this
    simpa using this

/-- `s.strip().strip() == s.strip()` -/
theorem stripBy_idem {p : Char → Bool} (s : List Char) : stripBy p (stripBy p s) = stripBy p s := by
  cases hs : stripBy p s with
  | nil => rfl
  | cons c r =>
    have he := stripBy_ends (p := p) s
    rw [hs] at he
    have hc : p c = false := he.1 c rfl
    -- reuse the padding lemma with an empty pad; any strippable pad character will do,
    -- and when none exists the statement is direct
    unfold stripBy
    simp only [List.dropWhile_cons, hc, Bool.false_eq_true, if_false]
    have hl := he.2
    cases hrev : (c :: r).reverse with
    | nil => simp at hrev
    | cons y t =>
      have hy : (c :: r).getLast? = some y := by rw [List.getLast?_eq_head?_reverse, hrev]; rfl
      have := hl y hy
      simp only [List.dropWhile_cons, this, Bool.false_eq_true, if_false]
      rw [← hrev, List.reverse_reverse]

theorem strip_idem (s : List Char) : strip (strip s) = strip s := stripBy_idem s

theorem length_stripBy_le {p : Char → Bool} (s : List Char) : (stripBy p s).length ≤ s.length := by
  unfold stripBy
  rw [List.length_reverse]
  have h1 := (List.dropWhile_sublist p (l := (s.dropWhile p).reverse)).length_le
  have h2 := (List.dropWhile_sublist p (l := s)).length_le
  rw [List.length_reverse] at h1
  omega

theorem length_strip_le (s : List Char) : (strip s).length ≤ s.length := length_stripBy_le s

theorem isStripWs_newline : isStripWs '\n' = true := by decide

/-- the newline that ends a written line disappears when the last token is trimmed -/
theorem strip_append_newline (s : List Char) : strip (s ++ ['\n']) = strip s := by
  have := stripBy_append_replicate (p := isStripWs) s 1 '\n' isStripWs_newline
  simpa [strip] using this

theorem mem_stripBy {p : Char → Bool} {s : List Char} {c : Char} (h : c ∈ stripBy p s) : c ∈ s := by
  unfold stripBy at h
  rw [List.mem_reverse] at h
  have h1 := (List.dropWhile_sublist p (l := (s.dropWhile p).reverse)).subset h
  rw [List.mem_reverse] at h1
  exact (List.dropWhile_sublist p (l := s)).subset h1

end Cfi

namespace Cfi
open Cfi.Text

/-- `strip` cuts a text out of the middle: `s = pre ++ strip s ++ post` -/
theorem stripBy_infix {p : Char → Bool} (s : List Char) : ∃ pre post, s = pre ++ stripBy p s ++ post := by
  refine ⟨s.takeWhile p, ((s.dropWhile p).reverse.takeWhile p).reverse, ?_⟩
  unfold stripBy
  have h1 : s = s.takeWhile p ++ s.dropWhile p := (List.takeWhile_append_dropWhile).symm
  have h2 : (s.dropWhile p).reverse =
      (s.dropWhile p).reverse.takeWhile p ++ (s.dropWhile p).reverse.dropWhile p :=
    (List.takeWhile_append_dropWhile).symm
  have h3 : s.dropWhile p = ((s.dropWhile p).reverse.dropWhile p).reverse ++
      ((s.dropWhile p).reverse.takeWhile p).reverse := by
    have h4 := congrArg List.reverse h2
    rw [List.reverse_reverse, List.reverse_append] at h4
    exact h4
  rw [List.append_assoc, ← h3]
  exact h1

/-- a character inside the trimmed text that is white space is followed by
another character of the trimmed text -/
theorem ws_in_strip_not_last (s : List Char) (c : Char) (hc : isStripWs c = true) (s1 s2 : List Char)
    (h : strip s = s1 ++ c :: s2) : s2 ≠ [] := by
  intro e
  subst e
  have := (stripBy_ends (p := isStripWs) s).2 c (by
    show (strip s).getLast? = some c
    rw [h]; simp)
  rw [hc] at this
  exact absurd this (by simp)

end Cfi

namespace Cfi
open Cfi.Text

theorem mem_dropLast_of_followed (x y : List Char) (c : Char) (hy : y ≠ []) : c ∈ (x ++ c :: y).dropLast := by
  have : (x ++ c :: y).dropLast = x ++ c :: y.dropLast := by
    rw [List.dropLast_append_of_ne_nil (by simp)]
    cases y with
    | nil => exact absurd rfl hy
    | cons a t => rfl
  rw [this]; simp

/-- a line whose only newline is its last character: no trimmed span of it contains a newline -/
theorem strip_slice_no_newline (l : List Char) (a b : Nat) (hl : ¬ '\n' ∈ l.dropLast) :
    ¬ '\n' ∈ strip (slice l a b) := by
  intro hm
  obtain ⟨s1, s2, hs⟩ := List.append_of_mem hm
  have hs2 := ws_in_strip_not_last (slice l a b) '\n' isStripWs_newline s1 s2 hs
  obtain ⟨pre, post, hsp⟩ := stripBy_infix (p := isStripWs) (slice l a b)
  have hl1 : l = l.take b ++ l.drop b := (List.take_append_drop b l).symm
  have hl2 : l.take b = (l.take b).take a ++ slice l a b := by
    simp only [slice]; exact (List.take_append_drop a (l.take b)).symm
  apply hl
  have hstrip : stripBy isStripWs (slice l a b) = s1 ++ '\n' :: s2 := hs
  rw [hl1, hl2, hsp, hstrip]
  have : (List.take a (List.take b l) ++ (pre ++ (s1 ++ '\n' :: s2) ++ post) ++ List.drop b l) =
      (List.take a (List.take b l) ++ pre ++ s1) ++ '\n' :: (s2 ++ post ++ List.drop b l) := by
    simp [List.append_assoc]
  rw [this]
  exact mem_dropLast_of_followed _ _ _ (by simp [hs2])

theorem length_slice_le (l : List Char) (a b : Nat) : (slice l a b).length ≤ b - a := by
  simp only [slice, List.length_drop, List.length_take]; omega

end Cfi
