import Proofs.RegexLaw
import Cfi.Register
/-!
`Register.matches` uses `re.search(IDENTIFIER, window)`; the model states it as an infix test
(`Cfi.Text.isInfix`), because an identifier is literal text. Here: the infix test IS the search of
the literal pattern, in the declarative semantics of `Proofs/RegexLaw.lean`.
-/
open Cfi Cfi.Text Cfi.Regex

namespace Proofs.RegexInfix

theorem isPrefix_iff (pat s : List Char) : isPrefix pat s = true ↔ ∃ r, s = pat ++ r := by
  induction pat generalizing s with
  | nil => simp [isPrefix]
  | cons a as ih =>
    cases s with
    | nil => simp [isPrefix]
    | cons b bs =>
      simp only [isPrefix, Bool.and_eq_true, beq_iff_eq, ih, List.cons_append, List.cons.injEq]
      constructor
      · rintro ⟨rfl, r, rfl⟩; exact ⟨r, rfl, rfl⟩
      · rintro ⟨r, rfl, rfl⟩; exact ⟨rfl, r, rfl⟩

theorem isInfix_iff (pat s : List Char) : isInfix pat s = true ↔ ∃ a b, s = a ++ pat ++ b := by
  induction s with
  | nil =>
    simp only [isInfix, List.isEmpty_iff]
    constructor
    · intro h; subst h; exact ⟨[], [], rfl⟩
    · rintro ⟨a, b, h⟩
      have h1 := List.append_eq_nil_iff.1 h.symm
      exact (List.append_eq_nil_iff.1 h1.1).2
  | cons c cs ih =>
    simp only [isInfix, Bool.or_eq_true, isPrefix_iff, ih]
    constructor
    · rintro (⟨r, h⟩ | ⟨a, b, h⟩)
      · exact ⟨[], r, by simpa using h⟩
      · exact ⟨c :: a, b, by simp [h]⟩
    · rintro ⟨a, b, h⟩
      cases a with
      | nil => exact Or.inl ⟨b, by simpa using h⟩
      | cons d a' =>
        simp only [List.cons_append, List.cons.injEq] at h
        exact Or.inr ⟨a', b, h.2⟩

/-- the infix test is the search of the literal pattern -/
theorem isInfix_eq_search (nl : Char) (pat s : List Char) :
    isInfix pat s = search nl ⟨false, Re.lit pat⟩ s := by
  rw [Bool.eq_iff_iff, isInfix_iff, search_iff]
  constructor
  · rintro ⟨a, b, h⟩
    exact ⟨a, pat, b, h, (matches_lit_iff nl pat pat).2 rfl, fun h => by cases h⟩
  · rintro ⟨a, m, b, h, hm, _⟩
    rw [(matches_lit_iff nl pat m).1 hm] at h
    exact ⟨a, b, h⟩

/-- **`Register.matches` in text storage is `re.search(IDENTIFIER, line[:IDENTIFIER_DIGITS])`** with
the declarative meaning of the literal pattern -/
theorem matchesText_eq_search (r : RegDef) (l : List Char) :
    r.matchesText l = search '\n' ⟨false, Re.lit r.ident⟩ (l.take r.digits) :=
  isInfix_eq_search '\n' r.ident (l.take r.digits)

end Proofs.RegexInfix
