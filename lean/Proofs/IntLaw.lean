import Cfi.Field
/-! `int(str(n).rjust(size)) == n`: the integer render/parse law of C01. -/
namespace Cfi
open Cfi.Text Cfi.PyInt

theorem dropWhile_replicate_append' {p : Char → Bool} (k : Nat) (c : Char) (t : List Char)
    (hc : p c = true) (ht : ∀ x, t.head? = some x → p x = false) :
    (List.replicate k c ++ t).dropWhile p = t := by
  induction k with
  | zero =>
    cases t with
    | nil => rfl
    | cons x t => simp [ht x rfl]
  | succ k ih => simp [List.replicate_succ, hc, ih]

/-- stripping a text that neither starts nor ends with a strippable character,
surrounded by strippable padding on the left, gives the text back -/
theorem stripBy_pad_left {p : Char → Bool} (k : Nat) (c : Char) (t : List Char) (hc : p c = true)
    (hh : ∀ x, t.head? = some x → p x = false) (hl : ∀ x, t.getLast? = some x → p x = false) :
    stripBy p (List.replicate k c ++ t) = t := by
  unfold stripBy
  rw [dropWhile_replicate_append' k c t hc hh]
  cases ht : t.reverse with
  | nil => simp at ht; subst ht; rfl
  | cons x r =>
    have hx : t.getLast? = some x := by
      rw [List.getLast?_eq_head?_reverse, ht]; rfl
    have := hl x hx
    simp [List.dropWhile, this, ← ht]

theorem stripBy_pad_right {p : Char → Bool} (k : Nat) (c : Char) (t : List Char) (hc : p c = true)
    (hh : ∀ x, t.head? = some x → p x = false) (hl : ∀ x, t.getLast? = some x → p x = false) :
    stripBy p (t ++ List.replicate k c) = t := by
  unfold stripBy
  have h1 : (t ++ List.replicate k c).dropWhile p = t ++ List.replicate k c ∨ t = [] := by
    cases t with
    | nil => right; rfl
    | cons x t => left; simp [hh x rfl]
  rcases h1 with h1 | h1
  · rw [h1, List.reverse_append, List.reverse_replicate]
    have : (List.replicate k c ++ t.reverse).dropWhile p = t.reverse := by
      apply dropWhile_replicate_append' k c _ hc
      intro x hx
      apply hl x
      rw [List.getLast?_eq_head?_reverse]; exact hx
    rw [this, List.reverse_reverse]
  · subst h1
    simp only [List.nil_append]
    have : (List.replicate k c).dropWhile p = [] := by
      have := dropWhile_replicate_append' (p := p) k c [] hc (by simp)
      simpa using this
    simp [this]

theorem isNumWs_blank : isNumWs ' ' = true := by decide

theorem numWs_not_digit : ∀ n : Nat, n ≤ 57 → 45 ≤ n → Cfi.Generated.numWs.contains n = false := by decide

theorem isDigit_iff (c : Char) : c.isDigit = true ↔ 48 ≤ c.toNat ∧ c.toNat ≤ 57 := by
  unfold Char.isDigit Char.toNat
  simp only [ge_iff_le, Bool.and_eq_true, decide_eq_true_eq, UInt32.le_iff_toNat_le]
  rfl

theorem isNumWs_digit {c : Char} (h : c.isDigit = true) : isNumWs c = false := by
  have := (isDigit_iff c).1 h
  exact numWs_not_digit c.toNat this.2 (by omega)

theorem isNumWs_minus : isNumWs '-' = false := by decide

theorem digitZeros_cons : ∃ t, Cfi.Generated.digitZeros = 48 :: t := ⟨_, rfl⟩

/-- an ASCII digit has its ASCII value in the Unicode digit table -/
theorem digitVal_ascii {c : Char} (h : c.isDigit = true) : digitVal c = some (c.toNat - 48) := by
  obtain ⟨t, ht⟩ := digitZeros_cons
  have := (isDigit_iff c).1 h
  unfold digitVal
  rw [ht, List.findSome?_cons]
  have h1 : (decide (48 ≤ c.toNat) && decide (c.toNat < 48 + 10)) = true := by
    simp only [Bool.and_eq_true, decide_eq_true_eq]; omega
  rw [if_pos h1]

theorem digitsGo_ascii (acc : List Nat) (r : List Char) (h : ∀ c ∈ r, c.isDigit = true) :
    digitsGo acc r = (acc.reverse ++ r.map (fun c => c.toNat - 48), []) := by
  induction r generalizing acc with
  | nil => simp [digitsGo]
  | cons c r ih =>
    have hc := digitVal_ascii (h c List.mem_cons_self)
    have step : digitsGo acc (c :: r) = digitsGo ((c.toNat - 48) :: acc) r := by
      rw [digitsGo.eq_def]; simp only [hc]
    rw [step, ih _ (fun x hx => h x (List.mem_cons_of_mem c hx))]
    simp

theorem ofDigits_map (l : List Char) : ofDigits (l.map (fun c => c.toNat - 48)) = Nat.ofDigitChars 10 l 0 := by
  simp only [ofDigits, Nat.ofDigitChars_eq_foldl, List.foldl_map]
  rfl

theorem natDigits_isDigit (k : Nat) : ∀ c ∈ natDigits k, c.isDigit = true := by
  intro c hc
  exact Nat.isDigit_of_mem_toDigits (b := 10) (by omega) (by omega) hc

theorem digitsUS_natDigits (k : Nat) :
    ∃ ds, digitsUS (natDigits k) = some (ds, []) ∧ ofDigits ds = k ∧ ds.length = (natDigits k).length := by
  have hd := natDigits_isDigit k
  have hne : natDigits k ≠ [] := by simp [natDigits]
  cases hk : natDigits k with
  | nil => exact absurd hk hne
  | cons c r =>
    rw [hk] at hd
    refine ⟨(c :: r).map (fun c => c.toNat - 48), ?_, ?_, by simp⟩
    · simp only [digitsUS, digitVal_ascii (hd c (by simp))]
      rw [digitsGo_ascii _ r (fun x hx => hd x (by simp [hx]))]
      simp
    · rw [ofDigits_map, ← hk]
      exact Nat.ofDigitChars_ten_toDigits

theorem natDigits_length_le (k : Nat) (h : k < 10 ^ 4300) : (natDigits k).length ≤ 4300 := by
  exact (Nat.length_toDigits_le_iff (b := 10) (by omega) (by omega)).2 h

/-- the sign of the text of a non-negative number -/
theorem sign_natDigits (k : Nat) : sign (natDigits k) = (false, natDigits k) := by
  have hd := natDigits_isDigit k
  cases hk : natDigits k with
  | nil => rfl
  | cons c r =>
    rw [hk] at hd
    have hc := (isDigit_iff c).1 (hd c (by simp))
    have h1 : c ≠ '+' := by intro e; subst e; simp at hc
    have h2 : c ≠ '-' := by intro e; subst e; simp at hc
    unfold sign
    split
    · rename_i heq; injection heq with h _; exact absurd h h1
    · rename_i heq; injection heq with h _; exact absurd h h2
    · rfl

/-- **`int(str(n)) == n`** for every integer of fewer than 4300 digits -/
theorem pyInt_pyStr (n : Int) (h : n.natAbs < 10 ^ 4300) : pyInt (pyStr n) = some n := by
  cases n with
  | ofNat k =>
    have hk : k < 10 ^ 4300 := by simpa using h
    obtain ⟨ds, h1, h2, h3⟩ := digitsUS_natDigits k
    have hd := natDigits_isDigit k
    have hne : natDigits k ≠ [] := by simp [natDigits]
    have hstrip : stripBy isNumWs (natDigits k) = natDigits k := by
      have := stripBy_pad_left (p := isNumWs) 0 ' ' (natDigits k) isNumWs_blank
        (fun x hx => isNumWs_digit (hd x (List.mem_of_head? hx)))
        (fun x hx => isNumWs_digit (hd x (List.mem_of_getLast? hx)))
      simpa using this
    simp only [pyInt, pyStr, hstrip, sign_natDigits, h1]
    have : ¬ ds.length > 4300 := by rw [h3]; have := natDigits_length_le k hk; omega
    simp [this, h2]
  | negSucc k =>
    have hk : k + 1 < 10 ^ 4300 := by simpa using h
    obtain ⟨ds, h1, h2, h3⟩ := digitsUS_natDigits (k + 1)
    have hd := natDigits_isDigit (k + 1)
    have hstrip : stripBy isNumWs ('-' :: natDigits (k + 1)) = '-' :: natDigits (k + 1) := by
      have := stripBy_pad_left (p := isNumWs) 0 ' ' ('-' :: natDigits (k + 1)) isNumWs_blank
        (fun x hx => by simp at hx; subst hx; exact isNumWs_minus)
        (fun x hx => by
          have hne : natDigits (k + 1) ≠ [] := by simp [natDigits]
          rw [List.getLast?_cons_of_ne_nil hne] at hx
          exact isNumWs_digit (hd x (List.mem_of_getLast? hx)))
      simpa using this
    simp only [pyInt, pyStr, hstrip, sign, h1]
    have : ¬ ds.length > 4300 := by rw [h3]; have := natDigits_length_le (k + 1) hk; omega
    simp [this, h2]
    omega

/-- text of an integer: no leading / trailing numeric white space -/
theorem pyStr_ends (n : Int) : (∀ x, (pyStr n).head? = some x → isNumWs x = false) ∧
    (∀ x, (pyStr n).getLast? = some x → isNumWs x = false) := by
  cases n with
  | ofNat k =>
    have hd := natDigits_isDigit k
    exact ⟨fun x hx => isNumWs_digit (hd x (List.mem_of_head? hx)),
           fun x hx => isNumWs_digit (hd x (List.mem_of_getLast? hx))⟩
  | negSucc k =>
    have hd := natDigits_isDigit (k + 1)
    have hne : natDigits (k + 1) ≠ [] := by simp [natDigits]
    refine ⟨fun x hx => by simp [pyStr] at hx; subst hx; exact isNumWs_minus, fun x hx => ?_⟩
    simp only [pyStr] at hx
    rw [List.getLast?_cons_of_ne_nil hne] at hx
    exact isNumWs_digit (hd x (List.mem_of_getLast? hx))

/-- **The integer render/parse law**: whatever the field width, the right-justified
text of an integer parses back to that integer. -/
theorem pyInt_rjust_pyStr (n : Int) (size : Nat) (h : n.natAbs < 10 ^ 4300) :
    pyInt (rjust (pyStr n) size ' ') = some n := by
  have hs : stripBy isNumWs (rjust (pyStr n) size ' ') = pyStr n := by
    unfold rjust
    exact stripBy_pad_left _ ' ' (pyStr n) isNumWs_blank (pyStr_ends n).1 (pyStr_ends n).2
  have := pyInt_pyStr n h
  unfold pyInt at this ⊢
  rw [hs]
  have hs0 : stripBy isNumWs (pyStr n) = pyStr n := by
    have := stripBy_pad_left (p := isNumWs) 0 ' ' (pyStr n) isNumWs_blank (pyStr_ends n).1 (pyStr_ends n).2
    simpa using this
  rw [hs0] at this
  exact this

end Cfi
