import Cfi.Files
import Proofs.Accounting
/-! One-iteration unfolding lemmas of `readBlockLoop`. -/
namespace Cfi
open Cfi.Regex

variable {α : Type} [DecidableEq α]

/-- the peeked unit -/
def peekOf (nl : α) (binary : Bool) (s : Stream α) : List α :=
  if binary then (s.read 1).1 else (s.readline nl).1

theorem peekOf_isEmpty (nl : α) (binary : Bool) (s : Stream α) :
    (peekOf nl binary s).isEmpty = true ↔ s.rest = [] := by
  unfold peekOf
  cases binary
  · simp only [Bool.false_eq_true, if_false, Stream.readline_fst]
    constructor
    · intro h
      by_cases hr : s.rest = []
      · exact hr
      · exact absurd (List.isEmpty_iff.mp h) (lineOf_ne_nil nl hr)
    · intro h; simp [h, Stream.lineOf]
  · simp only [if_true, Stream.read]
    cases hr : s.rest <;> simp

theorem loop_zero (nl : α) (binary : Bool) (blocks : List (BlockDef α)) (s : Stream α) :
    readBlockLoop nl binary blocks 0 s = [] := rfl

theorem loop_empty (nl : α) (binary : Bool) (blocks : List (BlockDef α)) (fuel : Nat) (s : Stream α)
    (h : s.rest = []) : readBlockLoop nl binary blocks (fuel + 1) s = [] := by
  have := (peekOf_isEmpty nl binary s).2 h
  simp only [readBlockLoop]
  unfold peekOf at this
  simp [this]

theorem loop_dflt (nl : α) (binary : Bool) (blocks : List (BlockDef α)) (fuel : Nat) (s : Stream α)
    (h : s.rest ≠ []) (hn : blocks.findIdx? (fun b => search nl b.begin_ (peekOf nl binary s)) = none) :
    readBlockLoop nl binary blocks (fuel + 1) s =
      BElem.dflt (s.readline nl).1 :: readBlockLoop nl binary blocks fuel (s.readline nl).2 := by
  have hp : (peekOf nl binary s).isEmpty = false := by
    cases hh : (peekOf nl binary s).isEmpty with
    | true => exact absurd ((peekOf_isEmpty nl binary s).1 hh) h
    | false => rfl
  simp only [readBlockLoop]
  unfold peekOf at hp hn
  simp [hp, hn]

theorem loop_block_text (nl : α) (blocks : List (BlockDef α)) (fuel : Nat) (s : Stream α)
    (h : s.rest ≠ []) (i : Nat) (hi : i < blocks.length)
    (hn : blocks.findIdx? (fun b => search nl b.begin_ (peekOf nl false s)) = some i) :
    readBlockLoop nl false blocks (fuel + 1) s =
      BElem.block i (readRawBlock nl blocks[i] (s.content.length + 1) s).1 ::
        readBlockLoop nl false blocks fuel (readRawBlock nl blocks[i] (s.content.length + 1) s).2 := by
  have hp : (peekOf nl false s).isEmpty = false := by
    cases hh : (peekOf nl false s).isEmpty with
    | true => exact absurd ((peekOf_isEmpty nl false s).1 hh) h
    | false => rfl
  have hprog := readRawBlock_progress nl blocks[i] s.content.length s h
  have hnle : ¬ (readRawBlock nl blocks[i] (s.content.length + 1) s).2.pos ≤ s.pos := by omega
  simp only [readBlockLoop]
  unfold peekOf at hp hn
  simp only [Bool.false_eq_true, if_false] at hp hn
  simp [hp, hn, List.getElem?_eq_getElem hi, hnle]

theorem loop_block_bin (nl : α) (blocks : List (BlockDef α)) (fuel : Nat) (s : Stream α)
    (h : s.rest ≠ []) (i : Nat) (hi : i < blocks.length)
    (hn : blocks.findIdx? (fun b => search nl b.begin_ (peekOf nl true s)) = some i) :
    readBlockLoop nl true blocks (fuel + 1) s =
      BElem.block i [(readRawBinBlock nl blocks[i] (s.content.length + 1) s).1] ::
        readBlockLoop nl true blocks fuel (readRawBinBlock nl blocks[i] (s.content.length + 1) s).2 := by
  have hp : (peekOf nl true s).isEmpty = false := by
    cases hh : (peekOf nl true s).isEmpty with
    | true => exact absurd ((peekOf_isEmpty nl true s).1 hh) h
    | false => rfl
  have hprog := readRawBinBlock_progress nl blocks[i] s.content.length s h
  have hnle : ¬ (readRawBinBlock nl blocks[i] (s.content.length + 1) s).2.pos ≤ s.pos := by omega
  simp only [readBlockLoop]
  unfold peekOf at hp hn
  simp only [if_true] at hp hn
  simp [hp, hn, List.getElem?_eq_getElem hi, hnle]

theorem rest_length_lt {raw : List α} {s s' : Stream α} (h : Accounts raw s s') (hp : s.pos < s'.pos) :
    s'.rest.length < s.rest.length := by
  have := h.pos
  have hr := congrArg List.length h.rest
  simp at hr
  omega

/-- every iteration on non-empty input yields one element and strictly shorter
unread input — the induction principle of all block-loop theorems -/
theorem loop_step (nl : α) (binary : Bool) (blocks : List (BlockDef α)) (fuel : Nat) (s : Stream α)
    (h : s.rest ≠ []) :
    ∃ (e : BElem α) (s' : Stream α), readBlockLoop nl binary blocks (fuel + 1) s = e :: readBlockLoop nl binary blocks fuel s' ∧
      s'.rest.length < s.rest.length ∧ s.rest = writeBElem e ++ s'.rest ∧
      (∀ f₂, readBlockLoop nl binary blocks (f₂ + 1) s = e :: readBlockLoop nl binary blocks f₂ s') := by
  cases hn : blocks.findIdx? (fun b => search nl b.begin_ (peekOf nl binary s)) with
  | none =>
    refine ⟨_, _, loop_dflt nl binary blocks fuel s h hn, ?_, ?_, fun f₂ => loop_dflt nl binary blocks f₂ s h hn⟩
    · exact rest_length_lt (accounts_readline nl s) (readline_progress nl s h)
    · exact (accounts_readline nl s).rest
  | some i =>
    have hi : i < blocks.length := (List.findIdx?_eq_some_iff_getElem.mp hn).1
    cases binary
    · refine ⟨_, _, loop_block_text nl blocks fuel s h i hi hn, ?_, ?_, fun f₂ => loop_block_text nl blocks f₂ s h i hi hn⟩
      · exact rest_length_lt (accounts_readRawBlock nl blocks[i] _ s) (readRawBlock_progress nl blocks[i] _ s h)
      · exact (accounts_readRawBlock nl blocks[i] _ s).rest
    · refine ⟨_, _, loop_block_bin nl blocks fuel s h i hi hn, ?_, ?_, fun f₂ => loop_block_bin nl blocks f₂ s h i hi hn⟩
      · exact rest_length_lt (accounts_readRawBinBlock nl blocks[i] _ s) (readRawBinBlock_progress nl blocks[i] _ s h)
      · have := (accounts_readRawBinBlock nl blocks[i] (s.content.length + 1) s).rest
        simpa [writeBElem] using this

end Cfi
