import Cfi.Line
import Spec.C02
import Proofs.Layout
/-! Length and blank gaps of a written positional line. -/
namespace Cfi
open Cfi.Text Spec.C02

theorem getElem?_padTo_ge (line : List Char) (stop i : Nat) (h1 : line.length ≤ i) (h2 : i < stop) :
    (padTo line stop ' ')[i]? = some ' ' := by
  unfold padTo
  have : line.length < stop := by omega
  simp only [this, if_true, ljust]
  rw [List.getElem?_append_right h1]
  simp [List.getElem?_replicate]; omega

/-- every position of the line is inside a field already written, or blank -/
def GapInv (done : List Field) (line : List Char) : Prop :=
  ∀ i, i < line.length → covered done i = true ∨ line[i]? = some ' '

theorem gapInv_splice (done : List Field) (f : Field) (line r : List Char) (hgeo : f.stop = f.size + f.start)
    (hrl : r.length = f.size) (h : GapInv done line) :
    GapInv (done ++ [f]) (splice line f.start f.stop r ' ') := by
  have hs : f.start ≤ f.stop := by omega
  have hv : r.length = f.stop - f.start := by omega
  intro i hi
  rw [length_splice hs hv] at hi
  by_cases hin : f.start ≤ i ∧ i < f.stop
  · left; simp [covered, hin.1, hin.2]
  · have hout : i < f.start ∨ f.stop ≤ i := by omega
    rw [getElem?_splice_outside hs hv i hout]
    by_cases hil : i < line.length
    · rcases h i hil with hc | hb
      · left; simp only [covered, List.any_append, Bool.or_eq_true]; left; exact hc
      · right; rw [getElem?_padTo line f.stop ' ' i hil]; exact hb
    · right
      exact getElem?_padTo_ge line f.stop i (by omega) (by omega)

theorem writeFields_shape (fs : List Field) (vs : List Val) (rs : List (List Char))
    (hlen : fs.length = vs.length)
    (hr : All2 (fun (fv : Field × Val) r => rendersTo fv.1 fv.2 r) (fs.zip vs) rs)
    (done : List Field) (line out : List Char) (hw : writeFields fs vs line = .ok out)
    (hinv : GapInv done line) :
    GapInv (done ++ fs) out ∧ out.length = fs.foldl (fun m f => max m f.stop) line.length := by
  induction fs generalizing vs rs line done with
  | nil =>
    simp only [writeFields] at hw
    injection hw with hw; subst hw
    exact ⟨by simpa using hinv, rfl⟩
  | cons f fs ih =>
    cases vs with
    | nil => simp at hlen
    | cons v vs =>
      simp only [List.zip_cons_cons] at hr
      cases hr with
      | @cons _ r _ rs' h1 hrest =>
        obtain ⟨hrend, hrl, hgeo⟩ := h1
        dsimp only at hrend hrl hgeo
        simp only [writeFields, Field.writeText, hrend, Except.map, bind, Except.bind] at hw
        have hs : f.start ≤ f.stop := by omega
        have hv : r.length = f.stop - f.start := by omega
        have := ih vs _ (by simpa using hlen) hrest (done ++ [f]) _ hw (gapInv_splice done f line r hgeo hrl hinv)
        refine ⟨by simpa using this.1, ?_⟩
        rw [this.2, length_splice hs hv]
        rfl

/-- **Line shape**: a written positional text line is exactly as long as the
furthest field end plus one newline, ends in that newline, and every column not
inside a field is blank. -/
theorem writePos_shape (fs : List Field) (vs : List Val) (rs : List (List Char))
    (hlen : fs.length = vs.length)
    (hr : All2 (fun (fv : Field × Val) r => rendersTo fv.1 fv.2 r) (fs.zip vs) rs)
    (w : List Char) (hw : writePos fs vs = .ok w) :
    w.length = maxEnd fs + 1 ∧ w.getLast? = some '\n' ∧
    ∀ i, i < maxEnd fs → covered fs i = true ∨ w[i]? = some ' ' := by
  simp only [writePos, Except.map] at hw
  cases hwf : writeFields fs vs [] with
  | error e => simp [hwf] at hw
  | ok out =>
    simp only [hwf] at hw
    injection hw with hw
    subst hw
    obtain ⟨hinv, hl⟩ := writeFields_shape fs vs rs hlen hr [] [] out hwf (fun i hi => by simp at hi)
    have hl' : out.length = maxEnd fs := by rw [hl]; rfl
    refine ⟨by simp [hl'], by simp, ?_⟩
    intro i hi
    rcases hinv i (by omega) with hc | hb
    · left; simpa using hc
    · right; rw [List.getElem?_append_left (by omega)]; exact hb

end Cfi
