import Cfi.Dbl
/-!
Arithmetic facts about the exact-rounding primitives of `Cfi.Dbl`:

* `divHE a b` is the integer nearest to `a/b`, ties to even (`divHE_spec`,
  `divHE_unique`, `divHE_opt`, `divHE_scale`);
* `nearestG … num den` returns a binary floating-point number at least as close
  to `num/den` as every number `m'·2^k'` with `m' < 2^prec` (`nearest_opt`).

Values are compared in units of `2^-1074` (every finite double is a natural
number of such units), so that no rational arithmetic is needed.
-/
namespace Proofs.Nearest
open Cfi Cfi.Dbl

theorem divHE_spec (a b : Nat) (hb : 0 < b) :
    2 * a ≤ 2 * (divHE a b * b) + b ∧ 2 * (divHE a b * b) ≤ 2 * a + b ∧
    ((2 * a = 2 * (divHE a b * b) + b ∨ 2 * (divHE a b * b) = 2 * a + b) → divHE a b % 2 = 0) := by
  have h1 : b * (a / b) + a % b = a := Nat.div_add_mod a b
  have h2 : a % b < b := Nat.mod_lt a hb
  have h3 : (a / b + 1) * b = a / b * b + b := by rw [Nat.add_mul, Nat.one_mul]
  have h4 : b * (a / b) = a / b * b := Nat.mul_comm _ _
  unfold divHE
  simp only []
  split
  · omega
  · split
    · rw [h3]; omega
    · split
      · rename_i he
        have he' : a / b % 2 = 0 := by simpa using he
        omega
      · rename_i he
        have he' : ¬ (a / b % 2 = 0) := by simpa using he
        rw [h3]
        refine ⟨by omega, by omega, fun _ => by omega⟩

theorem succ_mul_le {q n b : Nat} (h : q < n) : q * b + b ≤ n * b := by
  have := Nat.mul_le_mul_right b (Nat.succ_le_of_lt h)
  rwa [Nat.succ_mul] at this

/-- the rounding is characterised by its specification -/
theorem divHE_unique (a b n : Nat) (hb : 0 < b)
    (h1 : 2 * a ≤ 2 * (n * b) + b) (h2 : 2 * (n * b) ≤ 2 * a + b)
    (h3 : (2 * a = 2 * (n * b) + b ∨ 2 * (n * b) = 2 * a + b) → n % 2 = 0) : divHE a b = n := by
  obtain ⟨s1, s2, s3⟩ := divHE_spec a b hb
  generalize divHE a b = q at *
  rcases Nat.lt_trichotomy q n with h | h | h
  · have hm := succ_mul_le (b := b) h
    have e1 : n * b = q * b + b := by omega
    have e2 : n = q + 1 := by
      have : n * b = (q + 1) * b := by rw [Nat.add_mul, Nat.one_mul]; exact e1
      exact Nat.eq_of_mul_eq_mul_right hb this
    have := s3 (by omega)
    have := h3 (by omega)
    omega
  · exact h
  · have hm := succ_mul_le (b := b) h
    have e1 : q * b = n * b + b := by omega
    have e2 : q = n + 1 := by
      have : q * b = (n + 1) * b := by rw [Nat.add_mul, Nat.one_mul]; exact e1
      exact Nat.eq_of_mul_eq_mul_right hb this
    have := s3 (by omega)
    have := h3 (by omega)
    omega

/-- no integer multiple of `b` is closer to `a` than `divHE a b · b` -/
theorem divHE_opt (a b c : Nat) (hb : 0 < b) :
    ((a : Int) - ((divHE a b * b : Nat) : Int)).natAbs ≤ ((a : Int) - ((c * b : Nat) : Int)).natAbs := by
  obtain ⟨s1, s2, _⟩ := divHE_spec a b hb
  generalize divHE a b = q at *
  rcases Nat.lt_trichotomy c q with h | h | h
  · have hm := succ_mul_le (b := b) h
    omega
  · subst h; exact Nat.le_refl _
  · have hm := succ_mul_le (b := b) h
    omega

/-- scaling numerator and denominator does not change the rounding -/
theorem divHE_scale (a b c : Nat) (hb : 0 < b) (hc : 0 < c) : divHE (a * c) (b * c) = divHE a b := by
  obtain ⟨s1, s2, s3⟩ := divHE_spec a b hb
  generalize divHE a b = q at *
  apply divHE_unique _ _ _ (Nat.mul_pos hb hc)
  · have := Nat.mul_le_mul_right c s1
    grind
  · have := Nat.mul_le_mul_right c s2
    grind
  · intro h
    apply s3
    rcases h with h | h
    · left
      have : (2 * a) * c = (2 * (q * b) + b) * c := by grind
      exact Nat.eq_of_mul_eq_mul_right hc this
    · right
      have : (2 * (q * b)) * c = (2 * a + b) * c := by grind
      exact Nat.eq_of_mul_eq_mul_right hc this

theorem divHE_exact (n b : Nat) (hb : 0 < b) : divHE (n * b) b = n := by
  apply divHE_unique _ _ _ hb <;> omega

/-! ### `floorLog2` never overshoots: `2^k ≤ num/den` -/

theorem leP2_floorLog2 (num den : Nat) (hn : num ≠ 0) :
    leP2 num den (floorLog2 num den) = true := by
  unfold floorLog2
  simp only []
  split
  · split
    · assumption
    · assumption
  · -- the estimate minus one is always below
    have h1 : 2 ^ num.log2 ≤ num := Nat.log2_self_le hn
    have h2 : den < 2 ^ (den.log2 + 1) := Nat.lt_log2_self
    unfold leP2
    simp only [Int.ofNat_eq_natCast]
    split
    · rename_i hk
      simp only [decide_eq_true_eq]
      have e : num.log2 = ((num.log2 : Int) - (den.log2 : Int) - 1).toNat + (den.log2 + 1) := by omega
      calc den * 2 ^ ((num.log2 : Int) - (den.log2 : Int) - 1).toNat
          ≤ 2 ^ (den.log2 + 1) * 2 ^ ((num.log2 : Int) - (den.log2 : Int) - 1).toNat :=
            Nat.mul_le_mul_right _ (Nat.le_of_lt h2)
        _ = 2 ^ num.log2 := by rw [← Nat.pow_add, Nat.add_comm, ← e]
        _ ≤ num := h1
    · rename_i hk
      simp only [decide_eq_true_eq]
      have e : den.log2 + 1 = num.log2 + (-((num.log2 : Int) - (den.log2 : Int) - 1)).toNat := by omega
      calc den ≤ 2 ^ (den.log2 + 1) := Nat.le_of_lt h2
        _ = 2 ^ num.log2 * 2 ^ (-((num.log2 : Int) - (den.log2 : Int) - 1)).toNat := by rw [← Nat.pow_add, ← e]
        _ ≤ num * 2 ^ (-((num.log2 : Int) - (den.log2 : Int) - 1)).toNat := Nat.mul_le_mul_right _ h1

/-- above the bit-length estimate plus one, `2^k` exceeds `num/den` -/
theorem leP2_false_above (num den : Nat) (hd : den ≠ 0) (k : Int)
    (hk : (num.log2 : Int) - (den.log2 : Int) + 1 ≤ k) : leP2 num den k = false := by
  have h1 : num < 2 ^ (num.log2 + 1) := Nat.lt_log2_self
  have h2 : 2 ^ den.log2 ≤ den := Nat.log2_self_le hd
  unfold leP2
  split
  · rename_i h0
    simp only [decide_eq_false_iff_not, Nat.not_le]
    have e : num.log2 + 1 ≤ den.log2 + k.toNat := by omega
    calc num < 2 ^ (num.log2 + 1) := h1
      _ ≤ 2 ^ (den.log2 + k.toNat) := Nat.pow_le_pow_right (by decide) e
      _ = 2 ^ den.log2 * 2 ^ k.toNat := by rw [Nat.pow_add]
      _ ≤ den * 2 ^ k.toNat := Nat.mul_le_mul_right _ h2
  · rename_i h0
    simp only [decide_eq_false_iff_not, Nat.not_le]
    have e : num.log2 + 1 + (-k).toNat ≤ den.log2 := by omega
    calc num * 2 ^ (-k).toNat < 2 ^ (num.log2 + 1) * 2 ^ (-k).toNat :=
          Nat.mul_lt_mul_of_pos_right h1 (Nat.pow_pos (by decide))
      _ = 2 ^ (num.log2 + 1 + (-k).toNat) := by rw [← Nat.pow_add]
      _ ≤ 2 ^ den.log2 := Nat.pow_le_pow_right (by decide) e
      _ ≤ den := h2

/-- `floorLog2` does not undershoot either: `num/den < 2^(k+1)` -/
theorem leP2_floorLog2_succ (num den : Nat) (hd : den ≠ 0) :
    leP2 num den (floorLog2 num den + 1) = false := by
  unfold floorLog2
  simp only [Int.ofNat_eq_natCast]
  split
  · split
    · exact leP2_false_above num den hd _ (by omega)
    · rename_i h; simpa using h
  · rename_i h
    have : (num.log2 : Int) - (den.log2 : Int) - 1 + 1 = (num.log2 : Int) - (den.log2 : Int) := by omega
    rw [this]; simpa using h

/-! ### values in units of `2^emin` -/

theorem two_pow_pos (n : Nat) : 0 < 2 ^ n := Nat.pow_pos (by decide)

/-- the rounding at exponent `e`, numerator and denominator expressed in units of `2^emin` -/
theorem roundAt_units (num den : Nat) (e emin : Int) (hd : 0 < den) (he : emin ≤ e) (hm : emin ≤ 0) :
    roundAt num den e = divHE (num * 2 ^ (-emin).toNat) (den * 2 ^ (e - emin).toNat) := by
  unfold roundAt
  split
  · rename_i h0
    have e1 : (e - emin).toNat = e.toNat + (-emin).toNat := by omega
    rw [e1, Nat.pow_add, ← Nat.mul_assoc]
    exact (divHE_scale _ _ _ (Nat.mul_pos hd (two_pow_pos _)) (two_pow_pos _)).symm
  · rename_i h0
    have e1 : (-emin).toNat = (-e).toNat + (e - emin).toNat := by omega
    rw [e1, Nat.pow_add, ← Nat.mul_assoc]
    exact (divHE_scale _ _ _ hd (two_pow_pos _)).symm

/-- `2^k ≤ num/den` in units of `2^emin` -/
theorem leP2_units (num den : Nat) (k emin : Int) (hk : emin ≤ k) (hm : emin ≤ 0)
    (h : leP2 num den k = true) : den * 2 ^ (k - emin).toNat ≤ num * 2 ^ (-emin).toNat := by
  unfold leP2 at h
  split at h
  · rename_i h0
    have h' : den * 2 ^ k.toNat ≤ num := by simpa using h
    have e1 : (k - emin).toNat = k.toNat + (-emin).toNat := by omega
    rw [e1, Nat.pow_add, ← Nat.mul_assoc]
    exact Nat.mul_le_mul_right _ h'
  · rename_i h0
    have h' : den ≤ num * 2 ^ (-k).toNat := by simpa using h
    have e1 : (-emin).toNat = (-k).toNat + (k - emin).toNat := by omega
    rw [e1, Nat.pow_add, ← Nat.mul_assoc]
    exact Nat.mul_le_mul_right _ h'

/-- `num/den < 2^j` in units of `2^emin` -/
theorem leP2_false_units (num den : Nat) (j emin : Int) (hm : emin ≤ 0) (t : Nat) (ht : j - emin ≤ t)
    (h : leP2 num den j = false) : num * 2 ^ (-emin).toNat < den * 2 ^ t := by
  unfold leP2 at h
  split at h
  · rename_i h0
    have h' : num < den * 2 ^ j.toNat := by simpa using h
    have e1 : j.toNat + (-emin).toNat ≤ t := by omega
    calc num * 2 ^ (-emin).toNat < den * 2 ^ j.toNat * 2 ^ (-emin).toNat :=
          Nat.mul_lt_mul_of_pos_right h' (two_pow_pos _)
      _ = den * 2 ^ (j.toNat + (-emin).toNat) := by rw [Nat.mul_assoc, ← Nat.pow_add]
      _ ≤ den * 2 ^ t := Nat.mul_le_mul_left _ (Nat.pow_le_pow_right (by decide) e1)
  · rename_i h0
    have h' : num * 2 ^ (-j).toNat < den := by simpa using h
    by_cases hc : (-j).toNat ≤ (-emin).toNat
    · have e1 : (-emin).toNat = (-j).toNat + ((-emin).toNat - (-j).toNat) := by omega
      have e2 : (-emin).toNat - (-j).toNat ≤ t := by omega
      calc num * 2 ^ (-emin).toNat = num * 2 ^ (-j).toNat * 2 ^ ((-emin).toNat - (-j).toNat) := by
            rw [Nat.mul_assoc, ← Nat.pow_add, ← e1]
        _ < den * 2 ^ ((-emin).toNat - (-j).toNat) := Nat.mul_lt_mul_of_pos_right h' (two_pow_pos _)
        _ ≤ den * 2 ^ t := Nat.mul_le_mul_left _ (Nat.pow_le_pow_right (by decide) e2)
    · have e1 : (-emin).toNat ≤ (-j).toNat := by omega
      calc num * 2 ^ (-emin).toNat ≤ num * 2 ^ (-j).toNat :=
            Nat.mul_le_mul_left _ (Nat.pow_le_pow_right (by decide) e1)
        _ < den := h'
        _ ≤ den * 2 ^ t := Nat.le_mul_of_pos_right _ (two_pow_pos _)

theorem divHE_le (a b c : Nat) (hb : 0 < b) (h : a ≤ c * b) : divHE a b ≤ c := by
  obtain ⟨_, s2, _⟩ := divHE_spec a b hb
  generalize divHE a b = n at *
  apply Nat.le_of_not_lt
  intro hlt
  have := succ_mul_le (b := b) hlt
  omega

/-- what `nearestG` returns, before the details of its search for the exponent are forgotten -/
theorem nearestG_shape (prec : Nat) (emin emaxE : Int) (num den m : Nat) (e : Int) (hn : num ≠ 0)
    (h : nearestG prec emin emaxE num den = some (m, e)) :
    ∃ e0 : Int, e0 = max (floorLog2 num den - ((prec : Int) - 1)) emin ∧
      ((roundAt num den e0 = 2 ^ prec ∧ m = 2 ^ (prec - 1) ∧ e = e0 + 1) ∨
       (roundAt num den e0 ≠ 2 ^ prec ∧ m = roundAt num den e0 ∧ e = e0)) ∧ e ≤ emaxE := by
  unfold nearestG at h
  simp only [beq_iff_eq, hn, if_false] at h
  refine ⟨_, rfl, ?_⟩
  split at h
  · rename_i heq
    simp only [] at h
    split at h
    · exact absurd h (by simp)
    · rename_i hle
      simp only [Option.some.injEq, Prod.mk.injEq] at h
      exact ⟨Or.inl ⟨heq, h.1.symm, h.2.symm⟩, by omega⟩
  · rename_i hne
    simp only [] at h
    split at h
    · exact absurd h (by simp)
    · rename_i hle
      simp only [Option.some.injEq, Prod.mk.injEq] at h
      exact ⟨Or.inr ⟨hne, h.1.symm, h.2.symm⟩, by omega⟩

/-- the significand returned is below `2^prec`: the result is a number of the format -/
theorem nearestG_lt (prec : Nat) (emin emaxE : Int) (num den m : Nat) (e : Int)
    (hp : 1 ≤ prec) (hm : emin ≤ 0) (hd : 0 < den)
    (h : nearestG prec emin emaxE num den = some (m, e)) : m < 2 ^ prec := by
  by_cases hn : num = 0
  · subst hn
    unfold nearestG at h
    simp only [beq_self_eq_true, if_true, Option.some.injEq, Prod.mk.injEq] at h
    rw [← h.1]; exact two_pow_pos _
  · obtain ⟨e0, he0, hcase, _⟩ := nearestG_shape prec emin emaxE num den m e hn h
    rcases hcase with ⟨_, h2, _⟩ | ⟨hne, h2, _⟩
    · rw [h2]; exact Nat.pow_lt_pow_right (by decide) (by omega)
    · have hge : emin ≤ e0 := by omega
      have hr := roundAt_units num den e0 emin hd hge hm
      have hup := leP2_false_units num den (floorLog2 num den + 1) emin hm ((e0 - emin).toNat + prec) (by omega)
        (leP2_floorLog2_succ num den (by omega))
      have hle : roundAt num den e0 ≤ 2 ^ prec := by
        rw [hr]
        apply divHE_le _ _ _ (Nat.mul_pos hd (two_pow_pos _))
        rw [Nat.pow_add] at hup
        have : den * (2 ^ (e0 - emin).toNat * 2 ^ prec) = 2 ^ prec * (den * 2 ^ (e0 - emin).toNat) := by grind
        omega
      rw [h2]
      omega

/-- the value `m·2^e` in units of `2^emin` -/
def units (emin : Int) (m : Nat) (e : Int) : Nat := m * 2 ^ (e - emin).toNat

/-- **`nearestG` is optimal**: in units of `2^emin`, the number returned is at least as
close to `num/den` as every `m'·2^k'` with `m' < 2^prec` (in particular every
representable number of the format, and every number of a coarser format). -/
theorem nearestG_opt (prec : Nat) (emin emaxE : Int) (num den m : Nat) (e : Int)
    (hp : 1 ≤ prec) (hm : emin ≤ 0) (hd : 0 < den)
    (h : nearestG prec emin emaxE num den = some (m, e)) :
    emin ≤ e ∧ ∀ m' k' : Nat, m' < 2 ^ prec →
      (((num * 2 ^ (-emin).toNat : Nat) : Int) - ((units emin m e * den : Nat) : Int)).natAbs ≤
      (((num * 2 ^ (-emin).toNat : Nat) : Int) - ((m' * 2 ^ k' * den : Nat) : Int)).natAbs := by
  by_cases hn : num = 0
  · subst hn
    unfold nearestG at h
    simp only [beq_self_eq_true, if_true, Option.some.injEq, Prod.mk.injEq] at h
    obtain ⟨rfl, rfl⟩ := h
    refine ⟨Int.le_refl _, fun m' k' _ => ?_⟩
    simp [units]
  · obtain ⟨e0, he0, hcase, _⟩ := nearestG_shape prec emin emaxE num den m e hn h
    have hge : emin ≤ e0 := by omega
    have hr := roundAt_units num den e0 emin hd hge hm
    generalize hN : num * 2 ^ (-emin).toNat = N at *
    generalize hE : (e0 - emin).toNat = E at *
    have hb : 0 < den * 2 ^ E := Nat.mul_pos hd (two_pow_pos _)
    -- the value returned is `roundAt · 2^E` units
    have hval : units emin m e * den = roundAt num den e0 * (den * 2 ^ E) ∧ emin ≤ e := by
      rcases hcase with ⟨h1, h2, h3⟩ | ⟨_, h2, h3⟩
      · subst h2 h3
        refine ⟨?_, by omega⟩
        have e1 : (e0 + 1 - emin).toNat = E + 1 := by omega
        have e2 : 2 ^ prec = 2 ^ (prec - 1) * 2 := by
          rw [← Nat.pow_succ]; congr 1; omega
        rw [units, e1, h1, e2, Nat.pow_succ]
        grind
      · subst h2 h3
        refine ⟨?_, hge⟩
        rw [units, hE]
        grind
    refine ⟨hval.2, fun m' k' hm' => ?_⟩
    rw [hval.1, hr]
    by_cases hk : E ≤ k'
    · -- a multiple of the rounding unit
      have e1 : m' * 2 ^ k' * den = (m' * 2 ^ (k' - E)) * (den * 2 ^ E) := by
        have : 2 ^ k' = 2 ^ (k' - E) * 2 ^ E := by rw [← Nat.pow_add]; congr 1; omega
        rw [this]; grind
      rw [e1]
      exact divHE_opt N (den * 2 ^ E) _ hb
    · -- a number below the binade of the result
      have hEpos : 0 < E := by omega
      have hk0 : e0 = floorLog2 num den - ((prec : Int) - 1) := by omega
      have hle := leP2_units num den (floorLog2 num den) emin (by omega) hm (leP2_floorLog2 num den hn)
      rw [hN] at hle
      have e2 : (floorLog2 num den - emin).toNat = (prec - 1) + E := by
        omega
      rw [e2, Nat.pow_add] at hle
      have hopt := divHE_opt N (den * 2 ^ E) (2 ^ (prec - 1)) hb
      have e3 : 2 ^ (prec - 1) * (den * 2 ^ E) = den * (2 ^ (prec - 1) * 2 ^ E) := by grind
      rw [e3] at hopt
      have hlt : m' * 2 ^ k' * den < den * (2 ^ (prec - 1) * 2 ^ E) := by
        have a1 : m' * 2 ^ k' < 2 ^ prec * 2 ^ k' := Nat.mul_lt_mul_of_pos_right hm' (two_pow_pos _)
        have a2 : 2 ^ prec * 2 ^ k' ≤ 2 ^ (prec - 1) * 2 ^ E := by
          rw [← Nat.pow_add, ← Nat.pow_add]
          exact Nat.pow_le_pow_right (by decide) (by omega)
        have a3 : m' * 2 ^ k' < 2 ^ (prec - 1) * 2 ^ E := Nat.lt_of_lt_of_le a1 a2
        have := Nat.mul_lt_mul_of_pos_right a3 hd
        rw [Nat.mul_comm (2 ^ (prec - 1) * 2 ^ E) den] at this
        exact this
      omega

/-! ### decimal scaling in units -/

/-- two fractions with equal cross products round alike -/
theorem divHE_cross (a b a' b' : Nat) (hb : 0 < b) (hb' : 0 < b') (h : a * b' = a' * b) :
    divHE a b = divHE a' b' := by
  rw [← divHE_scale a b b' hb hb', ← divHE_scale a' b' b hb' hb, h, Nat.mul_comm b b']

theorem ten_pow_pos (n : Nat) : 0 < 10 ^ n := Nat.pow_pos (by decide)

/-- `frac m e d` is `m·2^e·10^d`: in units of `2^emin` -/
theorem frac_units (m : Nat) (e d emin : Int) (he : emin ≤ e) (hm : emin ≤ 0) :
    0 < (frac m e d).2 ∧
    (frac m e d).1 * (2 ^ (-emin).toNat * 10 ^ (-d).toNat) = units emin m e * 10 ^ d.toNat * (frac m e d).2 := by
  unfold frac units
  by_cases h0 : e ≥ 0 <;> by_cases hd : d ≥ 0 <;> simp only [h0, hd, if_true, if_false]
  · have e1 : (e - emin).toNat = e.toNat + (-emin).toNat := by omega
    have e2 : (-d).toNat = 0 := by omega
    rw [e1, e2, Nat.pow_add]
    exact ⟨by decide, by grind⟩
  · have e1 : (e - emin).toNat = e.toNat + (-emin).toNat := by omega
    have e2 : d.toNat = 0 := by omega
    rw [e1, e2, Nat.pow_add]
    exact ⟨by simpa using ten_pow_pos _, by grind⟩
  · have e1 : (-emin).toNat = (-e).toNat + (e - emin).toNat := by omega
    have e2 : (-d).toNat = 0 := by omega
    rw [e1, e2, Nat.pow_add]
    exact ⟨two_pow_pos _, by grind⟩
  · have e1 : (-emin).toNat = (-e).toNat + (e - emin).toNat := by omega
    have e2 : d.toNat = 0 := by omega
    rw [e1, e2, Nat.pow_add]
    exact ⟨Nat.mul_pos (two_pow_pos _) (ten_pow_pos _), by grind⟩

/-- `roundScaled m e d` = `m·2^e·10^d` rounded half-even, in units of `2^emin` -/
theorem roundScaled_units (m : Nat) (e d emin : Int) (he : emin ≤ e) (hm : emin ≤ 0) :
    roundScaled m e d = divHE (units emin m e * 10 ^ d.toNat) (2 ^ (-emin).toNat * 10 ^ (-d).toNat) := by
  obtain ⟨h1, h2⟩ := frac_units m e d emin he hm
  unfold roundScaled
  generalize frac m e d = ab at *
  obtain ⟨a, b⟩ := ab
  exact divHE_cross _ _ _ _ h1 (Nat.mul_pos (two_pow_pos _) (ten_pow_pos _)) h2

/-- a numerator at least as close to `n·b` rounds to `n` as well -/
theorem divHE_closer (a a' b : Nat) (hb : 0 < b)
    (hcl : ((a' : Int) - ((divHE a b * b : Nat) : Int)).natAbs ≤ ((a : Int) - ((divHE a b * b : Nat) : Int)).natAbs) :
    divHE a' b = divHE a b := by
  obtain ⟨s1, s2, s3⟩ := divHE_spec a b hb
  generalize divHE a b = n at *
  apply divHE_unique _ _ _ hb
  · omega
  · omega
  · intro h; apply s3; omega

/-! ### rounding to `d` decimals and back -/

/-- **`round(x, d)` keeps the `d`-decimal rounding of `x`.**  For a double `x = m·2^e`
(`m < 2^53`), let `n = ⌊x·10^d⌉` and `y` the double nearest to `n/10^d`
(`round(x, d)`, and also `float` of the text `'{:.{d}f}'` prints): then
`⌊y·10^d⌉ = n`. The proof is the two-line argument "y is at least as close to
`n/10^d` as x is, and x rounds to n" — no case analysis on magnitudes. -/
theorem round_fixed_gen (prec : Nat) (emin emaxE : Int) (m : Nat) (e : Int) (d : Nat) (m' : Nat) (e' : Int)
    (hp : 1 ≤ prec) (hmin : emin ≤ 0) (hm : m < 2 ^ prec) (he : emin ≤ e)
    (h : nearestG prec emin emaxE (roundScaled m e d) (10 ^ d) = some (m', e')) :
    emin ≤ e' ∧ roundScaled m' e' d = roundScaled m e d := by
  obtain ⟨he', hopt⟩ := nearestG_opt prec emin emaxE _ _ m' e' hp hmin (ten_pow_pos d) h
  refine ⟨he', ?_⟩
  have hx := hopt m (e - emin).toNat hm
  have r1 := roundScaled_units m e d emin he hmin
  have r2 := roundScaled_units m' e' d emin he' hmin
  have z1 : (-(d : Int)).toNat = 0 := by omega
  have z2 : ((d : Int)).toNat = d := by omega
  rw [z1, z2] at r1 r2
  simp only [Nat.pow_zero, Nat.mul_one] at r1 r2
  rw [r2, r1]
  apply divHE_closer _ _ _ (two_pow_pos _)
  rw [← r1]
  generalize roundScaled m e d = n at *
  have c1 : m * 2 ^ (e - emin).toNat * 10 ^ d = units emin m e * 10 ^ d := rfl
  rw [c1] at hx
  generalize 2 ^ (-emin).toNat = P at *
  omega

theorem round_fixed (m : Nat) (e : Int) (d : Nat) (m' : Nat) (e' : Int)
    (hm : m < 2 ^ 53) (he : -1074 ≤ e)
    (h : nearest (roundScaled m e d) (10 ^ d) = some (m', e')) :
    -1074 ≤ e' ∧ roundScaled m' e' d = roundScaled m e d :=
  round_fixed_gen 53 (-1074) 971 m e d m' e' (by decide) (by decide) hm he h

end Proofs.Nearest
