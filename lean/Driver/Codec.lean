import Driver.Basic
import Cfi.Line
/-! JSON encoding of model values (shared with `harness/codec.py`). -/
open Lean Cfi Cfi.Date

namespace Driver

def decodeVal (j : Json) : R Val :=
  match j with
  | .null => pure .none
  | _ =>
    match j.getObjVal? "i" with
    | .ok v => do pure (.int (← v.getInt?))
    | .error _ =>
    match j.getObjVal? "s" with
    | .ok v => do pure (.str (← chars v))
    | .error _ =>
    match j.getObjVal? "f" with
    | .ok v => do pure (.dbl (Dbl.ofBits (← v.getNat?)))
    | .error _ =>
    match j.getObjVal? "d" with
    | .ok v => do
      let a ← natList v
      match a with
      | [y, mo, d, h, mi, s, us] => pure (.date ⟨y, mo, d, h, mi, s, us⟩)
      | _ => throw "bad date"
    | .error _ =>
    match j.getObjVal? "nat" with
    | .ok _ => pure .nat
    | .error _ => throw s!"bad value {j.compress}"

def encodeVal : Val → Json
  | .none => .null
  | .int n => Json.mkObj [("i", toJson n)]
  | .str s => Json.mkObj [("s", jChars s)]
  | .dbl d => Json.mkObj [("f", toJson d.toBits)]
  | .date t => Json.mkObj [("d", jNatList [t.y, t.mo, t.d, t.h, t.mi, t.s, t.us])]
  | .nat => Json.mkObj [("nat", toJson true)]

def decodeVals (j : Json) : R (List Val) := do (← j.getArr?).toList.mapM decodeVal
def encodeVals (vs : List Val) : Json := Json.arr (vs.map encodeVal).toArray

def firstChar (s : List Char) (dflt : Char) : Char := s.headD dflt

def decodeField (j : Json) : R Field := do
  let size ← natF j "size"
  let start ← natF j "start"
  let stop := match j.getObjVal? "stop" with
    | .ok v => (v.getNat?.toOption).getD (size + start)
    | .error _ => size + start
  let kind : Kind ← match ← strF j "k" with
    | "lit" => pure Kind.lit
    | "int" => pure Kind.int
    | "flt" => do
      let fmt ← chars (← field j "fmt")
      pure (Kind.flt (← natF j "dec") (firstChar fmt 'F') (← chars (← field j "sep")))
    | "date" => do
      let fs ← (← arrF j "fmts").toList.mapM chars
      pure (Kind.date fs)
    | k => throw s!"bad kind {k}"
  pure ⟨kind, size, start, stop⟩

def decodeFields (j : Json) : R (List Field) := do (← j.getArr?).toList.mapM decodeField

def decodeData (j : Json) : R Data := do
  match j.getObjVal? "s" with
  | .ok v => pure (.str (← chars v))
  | .error _ => pure (.bytes (← bytes (← field j "b")))

def encodeData : Data → Json
  | .str s => Json.mkObj [("s", jChars s)]
  | .bytes b => Json.mkObj [("b", jBytes b)]

def decodeDelim (j : Json) : R Delim :=
  match j with
  | .null => pure .none
  | _ => do
    match ← decodeData j with
    | .str s => pure (.str s)
    | .bytes b => pure (.bytes b)

def excName : Exc → String
  | .typeError => "TypeError"
  | .valueError => "ValueError"
  | .overflowError => "OverflowError"
  | .attributeError => "AttributeError"
  | .unicodeError => "UnicodeDecodeError"
  | .other => "Exception"

/-- results that may be an exception: `{"exc": name}` -/
def encodeExcept (enc : α → Json) : Except Exc α → Json
  | .ok a => enc a
  | .error e => Json.mkObj [("exc", toJson (excName e))]

def isExc (j : Json) : Bool := (j.getObjVal? "exc").toOption.isSome

def decodeStorage (j : Json) (k : String) : Storage :=
  match j.getObjVal? k with
  | .ok (.str s) => Storage.ofString s
  | _ => .text

end Driver
