import Driver.Basic
import Driver.C07
import Cfi.Container
import Spec.C08
open Lean Cfi.Container

namespace Driver.C08

def decodeShape (j : Json) : R Shape := do
  match ← strF j "shape" with
  | "none" => pure .none
  | "one" => pure (.one (← natF j "x"))
  | "many" => pure (.many (← natList (← field j "xs")))
  | s => throw s!"bad shape {s}"

def encodeShape : Shape → Json
  | .none => Json.mkObj [("shape", "none")]
  | .one x => Json.mkObj [("shape", "one"), ("x", toJson x)]
  | .many xs => Json.mkObj [("shape", "many"), ("xs", jNatList xs)]

def decodeObs (j : Json) : R Spec.C08.Obs := do
  pure { ofType := ← natList (← field j "of_type"), get := ← decodeShape (← field j "get"),
         iterAfterGet := ← natList (← field j "iter_after_get"),
         lenAfterGet := ← natF j "len_after_get",
         iterAfterRemove := ← natList (← field j "iter_after_remove"),
         lenAfterRemove := ← natF j "len_after_remove" }

def encodeObs (o : Spec.C08.Obs) : Json :=
  Json.mkObj [("of_type", jNatList o.ofType), ("get", encodeShape o.get),
    ("iter_after_get", jNatList o.iterAfterGet), ("len_after_get", toJson o.lenAfterGet),
    ("iter_after_remove", jNatList o.iterAfterRemove), ("len_after_remove", toJson o.lenAfterRemove)]

def optInt (j : Json) : R (Option Int) :=
  match j with
  | .null => pure none
  | v => do pure (some (← v.getInt?))

/-- Request: `{fuel, ops, parents:[parent|null per class], elems:[[cls, [attr…]] per id],
type: class index (any index without elements = foreign), filter:[[attr, value|null]…], obs}` -/
def handle (j : Json) : R Json := do
  let fuel ← natF j "fuel"
  let ops ← (← arrF j "ops").toList.mapM Driver.C07.decodeOp
  let parents ← (← arrF j "parents").toList.mapM optNat
  let elems ← (← arrF j "elems").toList.mapM fun e => do
    let a ← e.getArr?
    let attrs ← (← (← idx a 1).getArr?).toList.mapM optInt
    pure ((← (← idx a 0).getNat?), attrs)
  let t ← natF j "type"
  let flt ← (← arrF j "filter").toList.mapM fun e => do
    let a ← e.getArr?
    pure ((← (← idx a 0).getNat?), (← optInt (← idx a 1)))
  let obs ← decodeObs (← field j "obs")
  let histok := HistOk [0] ops
  let s := run (init 0) ops
  let l := specRun [0] ops
  let parent : Nat → Option Nat := fun c => (parents.getD c none)
  let isInst : Id → Bool := fun x =>
    match elems[x]? with
    | some (c, _) => Spec.C08.isSub parent parents.length c t
    | none => false
  let meets : Id → Bool := fun x =>
    match elems[x]? with
    | some (_, attrs) => Spec.C08.meetsFilter attrs flt
    | none => false
  let F : Facts := { isInst := isInst, meets := meets }
  let m := Spec.C08.observe F s fuel
  let agree := decide (m = obs)
  let holds := Spec.C08.holds isInst meets l obs
  let mholds := Spec.C08.holds isInst meets l m
  pure (Json.mkObj [("indomain", toJson histok), ("agree", toJson agree), ("holds", toJson holds),
    ("model_holds", toJson mholds), ("model", encodeObs m),
    ("expected", encodeObs (Spec.C08.expected isInst meets l)), ("spec_list", jNatList l)])

end Driver.C08
