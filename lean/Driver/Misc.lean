import Driver.Codec
import Spec.C19
import Spec.C15
import Spec.C20
import Spec.C16
import Cfi.World
import Driver.FilesH
open Lean Cfi.Version

namespace Driver.Misc

/-- C19: `{tables:[table|null per class 0..2], init:[id|null per class], ops:[[cls, key]…],
obs:[[active of class 0,1,2 after the op]…]}`; a table is `[[key, id]…]` in declaration order.
classes: 0 = parent, 1 = child, 2 = sibling (both derive from 0) -/
def handleC19 (j : Json) : R Json := do
  let decTable (t : Json) : R (Option Table) :=
    match t with
    | .null => pure none
    | _ => do
      let es ← (← t.getArr?).toList.mapM fun e => do
        let a ← e.getArr?
        let k ← chars (← idx a 0)
        let v ← (← idx a 1).getNat?
        pure (k, v)
      pure (some es)
  let tables ← (← arrF j "tables").toList.mapM decTable
  let inits ← (← arrF j "init").toList.mapM optNat
  -- an op is `[class, "version"]` (a selection) or a tagged change of the tables:
  -- `["assign", class, table]`, `["set", class, key, id]`, `["del", class, key]`, `["active", class, id]`
  let ops ← (← arrF j "ops").toList.mapM fun e => do
    let a ← e.getArr?
    match (← idx a 0) with
    | .str "assign" => do
      let c ← (← idx a 1).getNat?
      let t ← decTable (← idx a 2)
      pure (Op.assignTable c (t.getD []))
    | .str "set" => do
      let c ← (← idx a 1).getNat?
      let k ← chars (← idx a 2)
      let v ← (← idx a 3).getNat?
      pure (Op.setItem c k v)
    | .str "del" => do
      let c ← (← idx a 1).getNat?
      let k ← chars (← idx a 2)
      pure (Op.delItem c k)
    | .str "active" => do
      let c ← (← idx a 1).getNat?
      let v ← (← idx a 2).getNat?
      pure (Op.assignActive c v)
    | _ => do
      let c ← (← idx a 0).getNat?
      let v ← chars (← idx a 1)
      pure (Op.select c v)
  let obsJ ← field j "obs"
  let cs0 : Classes := {
    parent := fun c => if c == 1 || c == 2 then some 0 else none
    ownActive := fun c => (inits.getD c none)
    ownVersions := fun c => (tables.getD c none) }
  let watch := [0, 1, 2]
  -- the id of a declared list that is EMPTY (observed by content, it looks like the framework default)
  let emptyId : Option Nat := match j.getObjVal? "empty_id" with
    | .ok v => (v.getNat?).toOption
    | .error _ => none
  let m := Spec.C19.contentTrace emptyId (Spec.C19.progTrace setVersion 3 watch cs0 ops)
  let enc (t : List (List (Option Nat))) : Json := Json.arr (t.map fun r => Json.arr (r.map jOptNat).toArray).toArray
  let mholds := Spec.C19.holdsProg emptyId cs0 3 watch ops m
  if isExc obsJ then
    pure (Json.mkObj [("indomain", toJson true), ("agree", toJson false), ("holds", toJson false),
      ("model_holds", toJson mholds), ("model", enc m)])
  else
    let o ← (← obsJ.getArr?).toList.mapM fun r => do (← r.getArr?).toList.mapM optNat
    pure (Json.mkObj [("indomain", toJson true), ("agree", toJson (m == o)),
      ("holds", toJson (Spec.C19.holdsProg emptyId cs0 3 watch ops o)), ("model_holds", toJson mholds), ("model", enc m)])

def decodeElems (j : Json) : R (List Cfi.Equality.Elem) := do
  (← j.getArr?).toList.mapM fun e => do
    let a ← e.getArr?
    let c ← (← idx a 0).getNat?
    let d ← decodeVals (← idx a 1)
    pure ⟨c, d⟩

/-- C15: `{a:[[cls,[vals]]…], b:[…] | null (foreign), obs:{ab_data, ba_data, ab_file, ba_file, ne_file, refl_a}}` -/
def handleC15 (j : Json) : R Json := do
  let a ← decodeElems (← field j "a")
  let rhs : Cfi.Equality.Rhs ← match j.getObjVal? "b" with
    | .ok .null => pure .foreign
    | .ok v => do pure (.same (← decodeElems v))
    | .error _ => pure .foreign
  let obsJ ← field j "obs"
  let m := Spec.C15.observe a rhs
  let enc (o : Spec.C15.Obs) : Json := Json.mkObj [("ab_data", toJson o.abData), ("ba_data", toJson o.baData),
    ("ab_file", toJson o.abFile), ("ba_file", toJson o.baFile), ("ne_file", toJson o.neFile), ("refl_a", toJson o.reflA)]
  let mholds := Spec.C15.holds a rhs m
  if isExc obsJ then
    pure (Json.mkObj [("indomain", toJson true), ("agree", toJson false), ("holds", toJson false),
      ("model_holds", toJson mholds), ("model", enc m)])
  else
    let abd ← boolF obsJ "ab_data"
    let bad ← boolF obsJ "ba_data"
    let abf ← boolF obsJ "ab_file"
    let baf ← boolF obsJ "ba_file"
    let nef ← boolF obsJ "ne_file"
    let rfa ← boolF obsJ "refl_a"
    let o : Spec.C15.Obs := ⟨abd, bad, abf, baf, nef, rfa⟩
    pure (Json.mkObj [("indomain", toJson true), ("agree", toJson (m == o)),
      ("holds", toJson (Spec.C15.holds a rhs o)), ("model_holds", toJson mholds), ("model", enc m)])

/-- generic Boolean oracle for observations whose statement is "all of these hold":
`{checks: {name: bool…}}` — used where the model side is a pure function (e.g. reading
the same content twice) -/
def handleAll (j : Json) : R Json := do
  let obsJ ← field j "obs"
  if isExc obsJ then
    pure (Json.mkObj [("indomain", toJson true), ("agree", toJson false), ("holds", toJson false), ("model_holds", toJson true)])
  else
    let kv ← (← field obsJ "checks").getObj?
    let bad := kv.toList.filter (fun (_, v) => v != Json.bool true)
    pure (Json.mkObj [("indomain", toJson true), ("agree", toJson bad.isEmpty), ("holds", toJson bad.isEmpty),
      ("model_holds", toJson true), ("failed", toJson (bad.map (·.1)))])

def decodeCell (j : Json) : R Spec.C20.Cell :=
  match j with
  | .null => pure .null
  | _ =>
    match j.getObjVal? "f" with
    | .ok v => do pure (.num (← v.getNat?))
    | .error _ =>
    match j.getObjVal? "s" with
    | .ok v => do pure (.str (← chars v))
    | .error _ =>
    match j.getObjVal? "d" with
    | .ok v => do
      match ← natList v with
      | [y, mo, d, h, mi, s, us] => pure (.date ⟨y, mo, d, h, mi, s, us⟩)
      | _ => throw "bad date cell"
    | .error _ => throw s!"bad cell {j.compress}"

def encodeCell : Spec.C20.Cell → Json
  | .null => .null
  | .num b => Json.mkObj [("f", toJson b)]
  | .str s => Json.mkObj [("s", jChars s)]
  | .date t => Json.mkObj [("d", jNatList [t.y, t.mo, t.d, t.h, t.mi, t.s, t.us])]

/-- C20: `{regs:[[cls,[vals]]…] (file order, other types and free text as other classes), parents:[…],
type, props:[[name, index]…], obs:{custom_properties, columns, nrows, cells, data_unchanged}}` -/
def handleC20 (j : Json) : R Json := do
  let regs ← (← arrF j "regs").toList.mapM fun e => do
    let a ← e.getArr?
    let c ← (← idx a 0).getNat?
    let d ← decodeVals (← idx a 1)
    pure ({ cls := c, data := d } : Cfi.Frame.Reg)
  let parents ← (← arrF j "parents").toList.mapM optNat
  let t ← natF j "type"
  let props ← (← arrF j "props").toList.mapM fun e => do
    let a ← e.getArr?
    let n ← chars (← idx a 0)
    let i ← (← idx a 1).getNat?
    pure ({ name := n, index := i } : Cfi.Frame.Prop_)
  let obsJ ← field j "obs"
  let parent : Nat → Option Nat := fun c => parents.getD c none
  let rec isSub (fuel c : Nat) : Bool :=
    match fuel with
    | 0 => c == t
    | f + 1 => c == t || (match parent c with | some p => isSub f p | none => false)
  let isInst : Nat → Bool := fun c => isSub parents.length c
  let m := Spec.C20.observe regs isInst props
  let enc (o : Spec.C20.Obs) : Json := Json.mkObj [("custom_properties", Json.arr (o.customProps.map jChars).toArray),
    ("columns", Json.arr (o.columns.map jChars).toArray), ("nrows", toJson o.nrows),
    ("cells", Json.arr (o.cells.map fun r => Json.arr (r.map encodeCell).toArray).toArray),
    ("data_unchanged", toJson o.dataUnchangedAfterEdit)]
  let indom := Spec.C20.inDomain props
  let mholds := Spec.C20.holds regs isInst props m
  if isExc obsJ then
    pure (Json.mkObj [("indomain", toJson indom), ("agree", toJson false), ("holds", toJson false),
      ("model_holds", toJson (mholds || !indom)), ("model", enc m)])
  else
    let cp ← (← arrF obsJ "custom_properties").toList.mapM chars
    let cols ← (← arrF obsJ "columns").toList.mapM chars
    let nrows ← natF obsJ "nrows"
    let cells ← (← arrF obsJ "cells").toList.mapM fun r => do (← r.getArr?).toList.mapM decodeCell
    let du ← boolF obsJ "data_unchanged"
    let o : Spec.C20.Obs := ⟨cp, cols, nrows, cells, du⟩
    pure (Json.mkObj [("indomain", toJson indom), ("agree", toJson (m == o)),
      ("holds", toJson (Spec.C20.holds regs isInst props o)), ("model_holds", toJson (mholds || !indom)),
      ("model", enc m)])

/-- C17: `{k: fault index | null, obs:{raised_at, open_handles, buffer_closed, buffer_at_end, output_is_prefix}}` -/
def handleC17 (j : Json) : R Json := do
  let k ← optNat ((j.getObjVal? "k").toOption.getD Json.null)
  let obsJ ← field j "obs"
  if isExc obsJ then
    pure (Json.mkObj [("indomain", toJson true), ("agree", toJson false), ("holds", toJson false), ("model_holds", toJson true)])
  else
    let ra ← optNat (← field obsJ "raised_at")
    let oh ← natF obsJ "open_handles"
    let bc ← boolF obsJ "buffer_closed"
    let be ← boolF obsJ "buffer_at_end"
    let op ← boolF obsJ "output_is_prefix"
    let o : Spec.C17.Obs := ⟨ra, oh, bc, be, op⟩
    let h := Spec.C17.holds k o
    pure (Json.mkObj [("indomain", toJson true), ("agree", toJson h), ("holds", toJson h), ("model_holds", toJson true)])

/-- C14: `{obs: {objects: [{interleaved: json, isolated: json}…], checks: {name: bool}}}`:
every object's observations in the interleaved history must equal those of the
isolated replay of its own operations -/
def handleC14 (j : Json) : R Json := do
  let obsJ ← field j "obs"
  if isExc obsJ then
    pure (Json.mkObj [("indomain", toJson true), ("agree", toJson false), ("holds", toJson false), ("model_holds", toJson true)])
  else
    let objs ← arrF obsJ "objects"
    let mut bad : Array Json := #[]
    let mut i := 0
    for o in objs do
      let a ← field o "interleaved"
      let b ← field o "isolated"
      if a.compress != b.compress then bad := bad.push (toJson i)
      i := i + 1
    let kv ← (← field obsJ "checks").getObj?
    let badc := kv.toList.filter (fun (_, v) => v != Json.bool true)
    -- model side: the World model run on the operations naming the registers of ONE class only
    -- (sound by Props.C14.reg_noninterference) must predict their data in the interleaved real run
    let worldBad : List Nat ← match obsJ.getObjVal? "world" with
      | .error _ => pure []
      | .ok wj => do
        let reg ← Driver.FilesH.decodeReg (← field wj "reg")
        let ops ← (← arrF wj "ops").toList.mapM fun o => do
          let a ← o.getArr?
          match ← (← idx a 0).getStr? with
          | "new" => do
            let i ← (← idx a 1).getNat?
            let d ← match ← idx a 2 with
              | .null => pure none
              | v => do pure (some (← decodeVals v))
            pure (Cfi.World.Op.newReg i d)
          | "read" => do pure (Cfi.World.Op.regRead (← (← idx a 1).getNat?) (← chars (← idx a 2)))
          | "write" => do pure (Cfi.World.Op.regWrite (← (← idx a 1).getNat?))
          | "set" => do pure (Cfi.World.Op.regSet (← (← idx a 1).getNat?) (← (← idx a 2).getNat?) (← decodeVal (← idx a 3)))
          | k => throw s!"bad world op {k}"
        let w0 : Cfi.World.World := { reg := reg, slots := reg.fields.map (fun _ => Cfi.Val.none),
                                      regs := fun _ => none, files := fun _ => none }
        let wN := Cfi.World.run w0 ops
        let finals ← (← arrF wj "final").toList.mapM fun e => do
          let a ← e.getArr?
          pure ((← (← idx a 0).getNat?), (← decodeVals (← idx a 1)))
        pure (finals.filterMap fun (i, d) => if wN.regs i == some d then none else some i)
    let ok := bad.isEmpty && badc.isEmpty && worldBad.isEmpty
    pure (Json.mkObj [("indomain", toJson true), ("agree", toJson ok), ("holds", toJson ok), ("model_holds", toJson true),
      ("objects_changed_by_others", Json.arr bad), ("failed", toJson (badc.map (·.1))),
      ("registers_differing_from_world_model", toJson worldBad)])

end Driver.Misc
